/-!
# C12 — model of `srctools.AtomicWriter` (src/srctools/__init__.py) over a one-directory file system

Everything is a small total function so that the driver `drv_c12` can run it and the theorems
(`Props/C12.lean`) can quantify over every script, fault plan, crash point and schedule.

* `FS` — one directory: an association list name ↦ bytes (`get`/`put`/`del`).
* `Name.tmp n` is the file `tmp_n`; `Name.file k` is any other file name (destinations, bystanders).
* A writer is a **small-step machine, as coded**:
  `__enter__`  = `mkdir(parents, exist_ok)` ; `for i in count(start): open(tmp_i, 'x…')`, `FileExistsError` → next `i`;
  body         = a script of `write`/`seek` on the returned file object, possibly raising before action `k`;
  `__exit__`   = `temp.__exit__` (close) ; body raised → `unlink(tmp)` (`FileNotFoundError` swallowed)
                 else `tmp.replace(dest)`.
  Whether a failing `close`/`replace` is followed by an `unlink` of the temp file (`closeGuard`,
  `replaceGuard`), whether the temp file is created exclusively and where the counter starts are
  parameters (`Impl`) that the translator (`tools/gen_save.py` → `Gen/Save.lean`) reads off the
  current source.
* Every step performs exactly one file-system operation; a *fault* (`Fault`) makes that operation
  raise instead of being performed; a *crash point* is simply the number of steps executed.
* Two writers share one `FS` and are interleaved by a schedule (`run2`).

Assumptions of the model (what the OS guarantees): `rename` replaces the destination atomically,
exclusive create fails iff the name exists, a faulted operation has no effect, writes go through
to the file (the harness flushes after every write when it compares directory bytes).
-/
namespace C12

abbrev Bytes := List Nat

inductive Name
  | file (k : Nat)
  | tmp (n : Nat)
  deriving DecidableEq, Repr

def Name.isTmp : Name → Bool
  | .tmp _ => true
  | .file _ => false

abbrev FS := List (Name × Bytes)

def get : FS → Name → Option Bytes
  | [], _ => none
  | (y, b) :: r, x => if y = x then some b else get r x

def del : FS → Name → FS
  | [], _ => []
  | (y, b) :: r, x => if y = x then del r x else (y, b) :: del r x

def put (fs : FS) (x : Name) (b : Bytes) : FS := (x, b) :: del fs x

/-- Positioned write into a file's bytes (holes are zero filled, as POSIX does; a zero-length
write changes nothing). -/
def pwrite (c : Bytes) (pos : Nat) (d : Bytes) : Bytes :=
  if d.isEmpty then c
  else c.take pos ++ List.replicate (pos - c.length) 0 ++ d ++ c.drop (pos + d.length)

/-- What the caller's body does with the file object. -/
inductive BOp
  | write (d : Bytes)
  | seek (p : Nat)
  deriving DecidableEq, Repr

def applyOp : BOp → Bytes × Nat → Bytes × Nat
  | .write d, (c, pos) => (pwrite c pos d, pos + d.length)
  | .seek p, (c, _) => (c, p)

/-- File content and position after the first actions of a script, from an empty file. -/
def replay (script : List BOp) : Bytes × Nat := script.foldl (fun s o => applyOp o s) ([], 0)

/-- The complete new contents: what the whole body writes. -/
def finalContent (script : List BOp) : Bytes := (replay script).1

inductive Fault
  | none | eexist | enoent | eio
  deriving DecidableEq, Repr

inductive Res
  | ok | eexist | enoent | err
  deriving DecidableEq, Repr

def Fault.res : Fault → Res
  | .none => .ok
  | .eexist => .eexist
  | .enoent => .enoent
  | .eio => .err

inductive Outcome
  | ok | raisedBody | raisedOS
  deriving DecidableEq, Repr

/-- One file-system operation; `n` is the index of the temp file it acts on. -/
inductive Op
  | mkdir
  | create (n : Nat)
  | write (n len : Nat)
  | seek (n pos : Nat)
  | close (n : Nat)
  | replace (n : Nat)
  | unlink (n : Nat)
  deriving DecidableEq, Repr

structure Event where
  op : Op
  res : Res
  deriving DecidableEq, Repr

/-- Shape of the implementation, read off the source by the translator. -/
structure Impl where
  /-- temp file opened with an `x` (exclusive create) mode -/
  exclusive : Bool
  /-- a failing `close` in `__exit__` is followed by `unlink(tmp)` and re-raise -/
  closeGuard : Bool
  /-- a failing `replace` in `__exit__` is followed by `unlink(tmp)` and re-raise -/
  replaceGuard : Bool
  /-- first index tried (`itertools.count(start=…)`) -/
  start : Nat
  /-- every path through `__exit__` assigns `self.temp = None` (the writer object is back in its
  initial state after each use) -/
  resetTemp : Bool
  /-- the "already open" clean-up of `make_tempfile` (`self.temp.close(); Path(self.temp.name).unlink()`)
  ignores a missing file -/
  staleMissingOk : Bool
  deriving DecidableEq, Repr

/-- The code as it was before the fix (srctools 2.5.0; `self.temp = None` is skipped when close raises). -/
def implV0 : Impl :=
  { exclusive := true, closeGuard := false, replaceGuard := false, start := 1, resetTemp := false,
    staleMissingOk := false }
/-- The code after `fix: AtomicWriter removes the temp file when close/replace fails`. -/
def implV1 : Impl :=
  { exclusive := true, closeGuard := true, replaceGuard := true, start := 1, resetTemp := true,
    staleMissingOk := false }

structure Cfg where
  impl : Impl
  dest : Name
  script : List BOp
  /-- the body raises instead of performing action `k` (`k = script.length`: after the last one) -/
  bodyExc : Option Nat
  deriving Repr

/-- Control point of a writer: which file-system operation comes next. -/
inductive PC
  | mkdir
  | create (n : Nat)
  /-- `tmp_n` is open, the body is about to perform action `k`, file position `pos` -/
  | body (n k pos : Nat)
  /-- `__exit__`: about to close `tmp_n`; `exc` = the exception that left the body, if any -/
  | close (n : Nat) (exc : Option Outcome)
  | replace (n : Nat)
  /-- about to unlink `tmp_n`, then raise `out`; `swallowAll`: every `OSError` of the unlink is
  swallowed (the guard paths), otherwise only `FileNotFoundError` (the body-exception path) -/
  | unlink (n : Nat) (out : Outcome) (swallowAll : Bool)
  | done (out : Outcome)
  deriving DecidableEq, Repr

/-- The temp file a writer currently holds. -/
def PC.owns : PC → Option Nat
  | .body n _ _ => some n
  | .close n _ => some n
  | .replace n => some n
  | .unlink n _ _ => some n
  | _ => none

/-- Where the body continues after `k` actions. -/
def afterOp (cfg : Cfg) (n k pos : Nat) : PC :=
  if cfg.bodyExc = some k then .close n (some .raisedBody)
  else if k < cfg.script.length then .body n k pos
  else .close n none

/-- One step = one file-system operation (performed, or raising because of `f`). -/
def step (cfg : Cfg) (f : Fault) (fs : FS) : PC → FS × PC × Option Event
  | .mkdir =>
    -- `Path.mkdir(parents=True, exist_ok=True)` on the existing directory: every error is swallowed
    (fs, .create cfg.impl.start, some ⟨.mkdir, if f = .none then .eexist else f.res⟩)
  | .create n =>
    match f with
    | .eexist => (fs, .create (n + 1), some ⟨.create n, .eexist⟩)
    | .enoent => (fs, .done .raisedOS, some ⟨.create n, .enoent⟩)
    | .eio => (fs, .done .raisedOS, some ⟨.create n, .err⟩)
    | .none =>
      if cfg.impl.exclusive && (get fs (.tmp n)).isSome then
        (fs, .create (n + 1), some ⟨.create n, .eexist⟩)
      else
        (put fs (.tmp n) [], afterOp cfg n 0 0, some ⟨.create n, .ok⟩)
  | .body n k pos =>
    match cfg.script[k]? with
    | none => (fs, .close n none, none)          -- unreachable from `afterOp`
    | some (.write d) =>
      if f = .none then
        (put fs (.tmp n) (pwrite ((get fs (.tmp n)).getD []) pos d), afterOp cfg n (k + 1) (pos + d.length),
          some ⟨.write n d.length, .ok⟩)
      else (fs, .close n (some .raisedOS), some ⟨.write n d.length, f.res⟩)
    | some (.seek p) =>
      if f = .none then (fs, afterOp cfg n (k + 1) p, some ⟨.seek n p, .ok⟩)
      else (fs, .close n (some .raisedOS), some ⟨.seek n p, f.res⟩)
  | .close n exc =>
    if f = .none then
      match exc with
      | some o => (fs, .unlink n o false, some ⟨.close n, .ok⟩)
      | none => (fs, .replace n, some ⟨.close n, .ok⟩)
    else if cfg.impl.closeGuard then (fs, .unlink n .raisedOS true, some ⟨.close n, f.res⟩)
    else (fs, .done .raisedOS, some ⟨.close n, f.res⟩)
  | .replace n =>
    if f = .none then
      match get fs (.tmp n) with
      | some c => (put (del fs (.tmp n)) cfg.dest c, .done .ok, some ⟨.replace n, .ok⟩)
      | none => (fs, if cfg.impl.replaceGuard then .unlink n .raisedOS true else .done .raisedOS,
                  some ⟨.replace n, .enoent⟩)
    else if cfg.impl.replaceGuard then (fs, .unlink n .raisedOS true, some ⟨.replace n, f.res⟩)
    else (fs, .done .raisedOS, some ⟨.replace n, f.res⟩)
  | .unlink n out sw =>
    if f = .none then
      match get fs (.tmp n) with
      | some _ => (del fs (.tmp n), .done out, some ⟨.unlink n, .ok⟩)
      | none => (fs, .done out, some ⟨.unlink n, .enoent⟩)
    else if f = .enoent || sw then (fs, .done out, some ⟨.unlink n, f.res⟩)
    else (fs, .done .raisedOS, some ⟨.unlink n, f.res⟩)
  | .done o => (fs, .done o, none)

structure St where
  fs : FS
  pc : PC
  trace : List Event      -- most recent first
  deriving Repr

def St.init (fs : FS) : St := ⟨fs, .mkdir, []⟩

def stepSt (cfg : Cfg) (f : Fault) (s : St) : St :=
  let r := step cfg f s.fs s.pc
  ⟨r.1, r.2.1, match r.2.2 with | some e => e :: s.trace | none => s.trace⟩

/-- Execute `k` steps (the crash point); the fault plan is consumed one entry per step
(`[]` = no more faults). -/
def run (cfg : Cfg) : Nat → List Fault → St → St
  | 0, _, s => s
  | k + 1, [], s => run cfg k [] (stepSt cfg .none s)
  | k + 1, f :: plan, s => run cfg k plan (stepSt cfg f s)

/-- Enough steps for any run to reach `done`. -/
def fuelFor (cfg : Cfg) (plan : List Fault) (fs : FS) : Nat :=
  plan.length + fs.length + cfg.script.length + 8

/-! ## Two writers in one directory -/

structure Sys where
  fs : FS
  pc1 : PC
  pc2 : PC
  trace : List (Bool × Event)     -- most recent first; `false` = writer 1, `true` = writer 2
  deriving Repr

def Sys.init (fs : FS) : Sys := ⟨fs, .mkdir, .mkdir, []⟩

def step2 (c1 c2 : Cfg) (who : Bool) (f : Fault) (s : Sys) : Sys :=
  if who then
    let r := step c2 f s.fs s.pc2
    ⟨r.1, s.pc1, r.2.1, match r.2.2 with | some e => (true, e) :: s.trace | none => s.trace⟩
  else
    let r := step c1 f s.fs s.pc1
    ⟨r.1, r.2.1, s.pc2, match r.2.2 with | some e => (false, e) :: s.trace | none => s.trace⟩

/-- Run a schedule: each entry says which writer performs its next operation and whether it faults.
A crash point is a prefix of the schedule. -/
def run2 (c1 c2 : Cfg) : List (Bool × Fault) → Sys → Sys
  | [], s => s
  | (w, f) :: rest, s => run2 c1 c2 rest (step2 c1 c2 w f s)

/-! ## Histories: writer OBJECTS that are used several times

`AtomicWriter` "can be repeated": one object may be entered again after it exited.  What the code
keeps on the object between uses is `self.temp` (the file object, whose `.name` is the temp path; the
counter is a local of `make_tempfile`, `_temp_name` is overwritten before it is read).
`make_tempfile` starts with `if self.temp is not None: self.temp.close(); Path(self.temp.name).unlink()`.
`OState.cur = some m` means `self.temp` is a file object named `tmp_m`. -/

structure Use where
  script : List BOp
  bodyExc : Option Nat
  deriving Repr

structure OCfg where
  impl : Impl
  dest : Name
  uses : List Use
  deriving Repr

/-- The single-use configuration of use number `i`. -/
def OCfg.cfgAt (c : OCfg) (i : Nat) : Cfg :=
  match c.uses[i]? with
  | some u => ⟨c.impl, c.dest, u.script, u.bodyExc⟩
  | none => ⟨c.impl, c.dest, [], none⟩

inductive OPC
  | idle                 -- between uses (before `__enter__` of use number `use`)
  | run (pc : PC)        -- inside a use
  deriving DecidableEq, Repr

structure OState where
  /-- index of the current / next use -/
  use : Nat
  /-- `self.temp`: `none` = `None`, `some m` = a file object (open or closed) named `tmp_m` -/
  cur : Option Nat
  opc : OPC
  /-- outcomes of the finished uses, most recent first -/
  outs : List Outcome
  deriving Repr

def OState.init : OState := ⟨0, none, .idle, []⟩

def endUse (o : OState) (cur : Option Nat) (out : Outcome) : OState :=
  ⟨o.use + 1, cur, .idle, out :: o.outs⟩

/-- `self.temp` after a transition `pc → pc'` of the single-use machine: assigned when the exclusive
create succeeds, reset by `__exit__` (if the code does that on every path) before the close. -/
def curAfter (impl : Impl) (cur : Option Nat) (pc pc' : PC) : Option Nat :=
  match pc with
  | .create n => if pc'.owns = some n then some n else cur
  | .close _ _ => if impl.resetTemp then none else cur
  | _ => cur

/-- Book-keeping after a step of the single-use machine from `pc`. -/
def afterStep (c : OCfg) (o : OState) (pc : PC) (r : FS × PC × Option Event) : FS × OState × Option Event :=
  match r.2.1 with
  | .done out => (r.1, endUse o (curAfter c.impl o.cur pc (.done out)) out, r.2.2)
  | pc' => (r.1, ⟨o.use, curAfter c.impl o.cur pc pc', .run pc', o.outs⟩, r.2.2)

/-- One file-system operation of a writer object. -/
def stepO (c : OCfg) (f : Fault) (fs : FS) (o : OState) : FS × OState × Option Event :=
  match o.opc with
  | .idle =>
    if o.use < c.uses.length then
      match o.cur with
      | some m =>
        -- stale file object: `self.temp.close()` (already closed: nothing) ; `Path(self.temp.name).unlink()`
        if f = .none then
          match get fs (.tmp m) with
          | some _ => (del fs (.tmp m), ⟨o.use, o.cur, .run .mkdir, o.outs⟩, some ⟨.unlink m, .ok⟩)
          | none =>
            if c.impl.staleMissingOk then (fs, ⟨o.use, o.cur, .run .mkdir, o.outs⟩, some ⟨.unlink m, .enoent⟩)
            else (fs, endUse o o.cur .raisedOS, some ⟨.unlink m, .enoent⟩)
        else if f = .enoent && c.impl.staleMissingOk then
          (fs, ⟨o.use, o.cur, .run .mkdir, o.outs⟩, some ⟨.unlink m, .enoent⟩)
        else (fs, endUse o o.cur .raisedOS, some ⟨.unlink m, f.res⟩)
      | none => afterStep c o .mkdir (step (c.cfgAt o.use) f fs .mkdir)
    else (fs, o, none)
  | .run pc => afterStep c o pc (step (c.cfgAt o.use) f fs pc)

structure SysO where
  fs : FS
  o1 : OState
  o2 : OState
  trace : List (Bool × Event)
  deriving Repr

def SysO.init (fs : FS) : SysO := ⟨fs, .init, .init, []⟩

def stepO2 (c1 c2 : OCfg) (who : Bool) (f : Fault) (s : SysO) : SysO :=
  if who then
    let r := stepO c2 f s.fs s.o2
    ⟨r.1, s.o1, r.2.1, match r.2.2 with | some e => (true, e) :: s.trace | none => s.trace⟩
  else
    let r := stepO c1 f s.fs s.o1
    ⟨r.1, r.2.1, s.o2, match r.2.2 with | some e => (false, e) :: s.trace | none => s.trace⟩

/-- Run a schedule over two writer objects (each with its list of uses). -/
def runO2 (c1 c2 : OCfg) : List (Bool × Fault) → SysO → SysO
  | [], s => s
  | (w, f) :: rest, s => runO2 c1 c2 rest (stepO2 c1 c2 w f s)

end C12

/-! ## Static facts about the source (filled in by the translator, `Gen/Save.lean`)

A *site* is a place in `src/srctools/bsp.py` that can change the file system, or a write on a
file-like object inside `BSP.save`. -/
namespace C12

inductive SiteKind
  | openRead        -- `open(…)` with a read-only mode
  | openWrite       -- `open(…)` with a writing mode (or a mode that is not a literal)
  | osMutate        -- `os.replace/rename/remove/unlink/mkdir/…`, `shutil.*`
  | pathMutate      -- `Path.write_bytes/write_text/unlink/rename/replace/touch/…`
  | zipOnPath       -- `ZipFile(x, …)` where `x` is not a `BytesIO`
  | atomicWriter    -- `AtomicWriter(…)`; `inWriter` = it is the context expression of a `with`
  | fileWrite       -- write/seek on the file object bound by `with AtomicWriter(…) as f` (or on
                    -- `DeferredWrites(f)`); `inWriter` = lexically inside that `with` body
  | memoryWrite     -- write on a local `BytesIO()`
  | escape          -- the writer's file object is handed to something not understood
  | unknown         -- a write whose receiver the translator cannot classify
  deriving DecidableEq, Repr

structure Site where
  kind : SiteKind
  /-- inside `BSP.save` -/
  inSave : Bool
  inWriter : Bool
  line : Nat
  what : String
  deriving Repr

def siteOK (s : Site) : Bool :=
  match s.kind with
  | .openRead => true
  | .memoryWrite => true
  | .atomicWriter => s.inSave && s.inWriter
  | .fileWrite => s.inSave && s.inWriter
  | _ => false

/-- `BSP.save` touches the file system only through one `with AtomicWriter(filename or self.filename)`. -/
def saveOK (sites : List Site) (targetIsFilename : Bool) : Bool :=
  sites.all siteOK
  && (sites.filter fun s => s.kind == .atomicWriter).length == 1
  && sites.any (fun s => s.kind == .fileWrite)
  && targetIsFilename

end C12
