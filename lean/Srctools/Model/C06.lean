/-!
# C06 — model of `VMF.export` / `VMF.parse` at the keyvalues-TREE level

`exportTree` builds the tree that `Keyvalues.parse` yields for the text written by `VMF.export`
(block and key names with the case the source writes, children in file order); `parseTree` is
`VMF.parse` on such a tree, AS CODED in `/repo/src/srctools/vmf.py` (after the C06 fixes):
which key is looked up under which name, "last one wins" lookups, defaults, the loops over the
children of entity / editor / dispinfo blocks, the errors that are raised.

Numeric fields that are floats in the implementation are carried as *numeric strings*
(`Str`): the implementation's own formatter is applied by the harness before a value reaches
the model, and the model moves the tokens around exactly like the code moves the numbers.
Integers (ids, versions, flags, counts) are `Int`.

Parsing is split in two passes, equivalent to the single pass of the code because id
allocation never influences what is read:
* `parseRaw`   : the tree → a map whose ids are the ones written in the file (`-1` if absent);
* `assignIds`  : the id managers (`IDMan` / `NullIDMan`) applied in the order in which the
                 constructors run in `VMF.parse`, including the placeholder worldspawn made by
                 `VMF()` (it occupies entity id 1 until the real worldspawn replaces it).

Core imports only (linked into the driver).
-/
namespace C06

abbrev Str := List Char

/-- A `Keyvalues` node with its *real* name. -/
inductive KV where
  | leaf (name value : Str)
  | block (name : Str) (children : List KV)
deriving Inhabited

/-! ## strings -/

/-- `str.casefold()` restricted to what the keys of the format need: ASCII lower-casing.
(ASSUMPTION of the tie: user-supplied names are over characters on which `casefold` is ASCII
lower-casing.) -/
def lower (s : Str) : Str := s.map Char.toLower

/-- Python `str.isspace` for the ASCII range (what `str.split()` / `strip()` use). -/
def isWs (c : Char) : Bool :=
  c == ' ' || c == '\t' || c == '\n' || c == '\r' || c == '\x0b' || c == '\x0c' ||
  c == '\x1c' || c == '\x1d' || c == '\x1e' || c == '\x1f' || c == '\u0085' || c == ' '

/-- `str.split()` (no argument): maximal runs of non-whitespace. -/
def splitWsAux : List Char → Str → List Str
  | [], cur => if cur.isEmpty then [] else [cur.reverse]
  | c :: cs, cur =>
    if isWs c then (if cur.isEmpty then splitWsAux cs [] else cur.reverse :: splitWsAux cs [])
    else splitWsAux cs (c :: cur)

def splitWs (s : Str) : List Str := splitWsAux s []

def stripL (s : Str) : Str := s.dropWhile isWs
def strip (s : Str) : Str := (stripL (stripL s).reverse).reverse

/-- `str.split(c)` for a single character separator. -/
def splitOnAux (sep : Char) : List Char → Str → List Str
  | [], cur => [cur.reverse]
  | c :: cs, cur => if c == sep then cur.reverse :: splitOnAux sep cs [] else splitOnAux sep cs (c :: cur)

def splitOn (sep : Char) (s : Str) : List Str := splitOnAux sep s []

/-- `str.split(pat)` for a non-empty pattern (left to right, non-overlapping). -/
def splitSubAux (pat : Str) : Nat → List Char → Str → List Str
  | 0, _, cur => [cur.reverse]
  | _ + 1, [], cur => [cur.reverse]
  | fuel + 1, c :: cs, cur =>
    if pat.isPrefixOf (c :: cs) then cur.reverse :: splitSubAux pat fuel ((c :: cs).drop pat.length) []
    else splitSubAux pat fuel cs (c :: cur)

def splitSub (pat : Str) (s : Str) : List Str := splitSubAux pat (s.length + 1) s []

/-- `str.split(c, 1)`. -/
def splitFirst (sep : Char) : List Char → Str → (Str × Option Str)
  | [], cur => (cur.reverse, none)
  | c :: cs, cur => if c == sep then (cur.reverse, some cs) else splitFirst sep cs (c :: cur)

def joinWith (sep : Str) : List Str → Str
  | [] => []
  | [a] => a
  | a :: b :: r => a ++ sep ++ joinWith sep (b :: r)

def sp : Str := [' ']
def unwords (l : List Str) : Str := joinWith sp l

/-- Lexicographic comparison by code point (Python `str` ordering). -/
def strLe : Str → Str → Bool
  | [], _ => true
  | _ :: _, [] => false
  | a :: as, b :: bs => if a.toNat < b.toNat then true else if b.toNat < a.toNat then false else strLe as bs

/-- Stable insertion sort (`sorted(…)`). -/
def insertBy {α} (le : α → α → Bool) (x : α) : List α → List α
  | [] => [x]
  | y :: ys => if le x y then x :: y :: ys else y :: insertBy le x ys

def isort {α} (le : α → α → Bool) : List α → List α
  | [] => []
  | x :: xs => insertBy le x (isort le xs)

/-! ## numbers -/

def showNat (n : Nat) : Str := Nat.toDigits 10 n

def showInt : Int → Str
  | .ofNat n => showNat n
  | .negSucc n => '-' :: showNat (n + 1)

def parseNat? (s : Str) : Option Nat :=
  if !s.isEmpty && s.all Char.isDigit then some (Nat.ofDigitChars 10 s 0) else none

/-- `int(s)` for the plain forms (optional sign, ASCII digits). NOT modelled: surrounding
whitespace, `_` separators, non-ASCII digits. -/
def parseInt? : Str → Option Int
  | '-' :: r => (parseNat? r).map fun n => -(Int.ofNat n)
  | '+' :: r => (parseNat? r).map Int.ofNat
  | s => (parseNat? s).map Int.ofNat

def allDigits (s : Str) : Bool := !s.isEmpty && s.all Char.isDigit

def expOK : Str → Bool
  | [] => true
  | e :: r => (e == 'e' || e == 'E') &&
    (match r with
     | '+' :: d => allDigits d
     | '-' :: d => allDigits d
     | d => allDigits d)

/-- Does `float(s)` succeed?  (plain decimal / exponent forms, `inf`, `nan`; NOT modelled:
surrounding whitespace, `_` separators.) -/
def isNum (s : Str) : Bool :=
  let body := match s with
    | '+' :: r => r
    | '-' :: r => r
    | r => r
  let lb := lower body
  if lb == ['i','n','f'] || lb == ['n','a','n'] || lb == ['i','n','f','i','n','i','t','y'] then true
  else
    let ip := body.takeWhile Char.isDigit
    let r1 := body.dropWhile Char.isDigit
    match r1 with
    | '.' :: t =>
      let fp := t.takeWhile Char.isDigit
      (!ip.isEmpty || !fp.isEmpty) && expOK (t.dropWhile Char.isDigit)
    | r => !ip.isEmpty && expOK r

/-- `bool(float)` of a `%g` / format_float token that denotes zero. -/
def isZeroTok (s : Str) : Bool := s == ['0'] || s == ['-','0']

structure V3 where
  x : Str
  y : Str
  z : Str
deriving DecidableEq, Repr, Inhabited

structure V4 where
  x : Str
  y : Str
  z : Str
  w : Str
deriving DecidableEq, Repr, Inhabited

def V3.toks (v : V3) : List Str := [v.x, v.y, v.z]
def V3.str (v : V3) : Str := unwords v.toks
def V4.toks (v : V4) : List Str := [v.x, v.y, v.z, v.w]
def V4.str (v : V4) : Str := unwords v.toks

def mkV3 (a b c : Nat) : V3 := ⟨showNat a, showNat b, showNat c⟩
def v3zero : V3 := mkV3 0 0 0
def v3white : V3 := mkV3 255 255 255
def v3one : V3 := mkV3 1 1 1
def v4zero : V4 := ⟨['0'], ['0'], ['0'], ['0']⟩

def isOpenBr (c : Char) : Bool := c == '(' || c == '{' || c == '[' || c == '<'
def isCloseBr (c : Char) : Bool := c == ')' || c == '}' || c == ']' || c == '>'

def dropLastIf (p : Char → Bool) (s : Str) : Str :=
  match s.reverse with
  | c :: r => if p c then r.reverse else s
  | [] => s

def dropOpenBr (s : Str) : Str :=
  match s with
  | c :: r => if isOpenBr c then r else s
  | [] => s

def vec3Of (dflt : V3) (toks : List Str) : V3 :=
  match toks with
  | [a, b, c] => if isNum a && isNum b && isNum c then ⟨a, b, c⟩ else dflt
  | _ => dflt

/-- `parse_vec_str(val, x, y, z)`. -/
def parseV3 (dflt : V3) (s : Str) : V3 :=
  vec3Of dflt (splitWs (dropLastIf isCloseBr (dropOpenBr (strip s))))

/-! ## errors -/

inductive Err where
  | formatVersion      -- Unknown VMF format version
  | leafKv             -- LeafKeyvalueError: a block was required
  | entityBlock        -- Unrecognised block keyvalue in entity
  | hiddenKey          -- Unknown hidden keyvalue
  | groupNotWorld      -- Group blocks are only permitted on worldspawn
  | badInt             -- int() failed where the code does not catch it
  | badFloat           -- float() failed where the code does not catch it
  | visgroupId         -- Invalid visgroup ID
  | outputValue        -- Bad output value
  | instanceName       -- "Instance:" in/output without command
  | planes             -- Wrong number of solid planes
  | uvAxis             -- UVAxis.parse failed
  | dispPower
  | dispFlags
  | allowedVerts
  | noAllowedVerts     -- NoKeyError from find_key('allowed_verts')
  | rowLength
  | rowIndex           -- row index outside the vertex array
  | triangleTag        -- invalid TriangleTag value
  | points             -- strata point_data invalid
  | viewAxis           -- 2D viewport: no / multiple axes
deriving DecidableEq, Repr, Inhabited

/-! ## the map -/

inductive Vis where
  | mk (name : Str) (id : Int) (color : V3) (children : List Vis)
deriving Inhabited

structure Out where
  output : Str
  instOut : Option Str
  target : Str
  input : Str
  instIn : Option Str
  params : Str
  delay : Str
  times : Int
  comma : Bool
deriving DecidableEq, Repr, Inhabited

structure DVert where
  normal : V3
  dist : Str
  offset : V3
  offsetNorm : V3
  alpha : Str
  triA : Int
  triB : Int
  blend : V4
  malpha : V4
  colors : Option (List V3)
deriving DecidableEq, Repr, Inhabited

structure Disp where
  power : Nat
  pos : V3
  elev : Str
  coll : Nat          -- DispFlag & COLL_ALL : bit0 physics, bit1 player/npc, bit2 bullet
  subdiv : Bool
  allowed : List Int
  verts : List DVert  -- row-major, size*size
deriving DecidableEq, Repr, Inhabited

structure UV where
  x : Str
  y : Str
  z : Str
  offset : Str
  scale : Str
deriving DecidableEq, Repr, Inhabited

structure Side where
  id : Int
  p0 : V3
  p1 : V3
  p2 : V3
  mat : Str
  uaxis : UV
  vaxis : UV
  rot : Str
  lightmap : Int
  smooth : Int
  points : Option (List V3)
  disp : Option Disp
deriving DecidableEq, Repr, Inhabited

structure Solid where
  id : Int
  sides : List Side
  visIds : List Int
  hidden : Bool
  group : Option Int
  visShown : Bool
  visAuto : Bool
  cordon : Bool
  color : V3
deriving DecidableEq, Repr, Inhabited

structure Fix where
  var : Str
  value : Str
  id : Int
deriving DecidableEq, Repr, Inhabited

structure Group where
  id : Int
  shown : Bool
  auto : Bool
  color : V3
deriving DecidableEq, Repr, Inhabited

structure Ent where
  id : Int
  keys : List (Str × Str)
  fixup : List Fix
  outputs : List Out
  solids : List Solid
  hidden : Bool
  groups : List Int
  visIds : List Int
  visShown : Bool
  visAuto : Bool
  color : V3
  logicalPos : Str       -- "" = not given (the constructor then uses "[0 <id>]")
  comments : Str
deriving DecidableEq, Repr, Inhabited

inductive View where
  | v2 (axis : Nat) (u v zoom : Str)      -- axis 0 = x, 1 = y, 2 = z
  | v3 (pos ang : V3)
deriving DecidableEq, Repr, Inhabited

structure Cam where
  pos : V3
  look : V3
deriving DecidableEq, Repr, Inhabited

structure Cordon where
  name : Str
  active : Bool
  min : V3
  max : V3
deriving DecidableEq, Repr, Inhabited

structure VMap where
  hammerVer : Int
  hammerBuild : Int
  mapVer : Int
  formatVer : Int
  prefab : Bool
  vis : List Vis
  snap : Bool
  grid : Bool
  logic : Bool
  spacing : Int
  grid3d : Bool
  instVis : Option Int
  views : Option (List View)
  spawn : Ent
  groups : List Group
  ents : List Ent
  activeCam : Int
  cams : List Cam
  cordonOn : Bool
  cordons : List Cordon
  quickhide : Int
deriving Inhabited

structure ExportOpts where
  minimal : Bool := false
  multiblend : Bool := true
  incVersion : Bool := false
deriving DecidableEq, Repr, Inhabited

/-! ## literals -/

def lit (s : String) : Str := s.toList

def boolStr (b : Bool) : Str := if b then ['1'] else ['0']

def kLeaf (name : String) (v : Str) : KV := .leaf name.toList v
def kBlock (name : String) (cs : List KV) : KV := .block name.toList cs
def kInt (name : String) (i : Int) : KV := kLeaf name (showInt i)
def kBool (name : String) (b : Bool) : KV := kLeaf name (boolStr b)

def wrap (o c : Char) (s : Str) : Str := o :: (s ++ [c])

/-! ## export -/

def entSetKey (keys : List (Str × Str)) (k v : Str) : List (Str × Str) :=
  if keys.any (fun kv => lower kv.1 == lower k) then
    -- the first key equal ignoring case keeps its spelling and position
    let rec go : List (Str × Str) → List (Str × Str)
      | [] => []
      | kv :: r => if lower kv.1 == lower k then (kv.1, v) :: r else kv :: go r
    go keys
  else keys ++ [(k, v)]

def keyLe (a b : Str × Str) : Bool := strLe a.1 b.1
def intLe (a b : Int) : Bool := decide (a ≤ b)
def fixLe (a b : Fix) : Bool := decide (a.id ≤ b.id)

def exportVisAux : Vis → KV
  | .mk name id color children =>
    .block (lit "visgroup") (kLeaf "name" name :: kInt "visgroupid" id :: kLeaf "color" color.str ::
      exportVisList children)
where
  exportVisList : List Vis → List KV
    | [] => []
    | v :: vs => exportVisAux v :: exportVisList vs

def exportVis (v : Vis) : KV := exportVisAux v

def exportView (title : String) : View → KV
  | .v2 axis u v zoom =>
    kBlock title ([kLeaf "3d" ['0']] ++
      (if axis == 0 then [kLeaf "position" (wrap '(' ')' (unwords [lit "65536", u, v]))]
       else if axis == 1 then [kLeaf "position" (wrap '(' ')' (unwords [u, lit "-65536", v]))]
       else if axis == 2 then [kLeaf "position" (wrap '(' ')' (unwords [u, v, lit "65536"]))]
       else []) ++
      [kLeaf "zoom" zoom])
  | .v3 pos ang =>
    kBlock title [kLeaf "3d" ['1'], kLeaf "position" (wrap '(' ')' pos.str), kLeaf "angle" (wrap '[' ']' ang.str)]

def viewTitles : List String := ["v0", "v1", "v2", "v3"]

def exportViews : List String → List View → List KV
  | t :: ts, v :: vs => exportView t v :: exportViews ts vs
  | _, _ => []

def UV.str (a : UV) : Str := wrap '[' ']' (unwords [a.x, a.y, a.z, a.offset]) ++ ' ' :: a.scale

/-- rows of `cols` consecutive vertices each. -/
def rowsOf {α} (cols : Nat) : Nat → List α → List (List α)
  | 0, _ => []
  | n + 1, l => l.take cols :: rowsOf cols n (l.drop cols)

def rowName (y : Nat) : Str := lit "row" ++ showNat y

/-- `"row<y>" "<tokens joined by blanks>"` for consecutive `y`. -/
def rowLeavesFrom (y : Nat) : List (List Str) → List KV
  | [] => []
  | r :: rs => KV.leaf (rowName y) (unwords r) :: rowLeavesFrom (y + 1) rs

def rowLeaves (rows : List (List Str)) : List KV := rowLeavesFrom 0 rows

def dispSize (power : Nat) : Nat := 2 ^ power + 1

/-- `_export_disp_rowset`: one block, one row per `y`; every vertex contributes its tokens
(`str(value)` of a vector is its tokens joined by blanks, so joining the per-vertex strings by
blanks is joining all tokens of the row by blanks). -/
def exportRowset (name : String) (size : Nat) (verts : List DVert) (toks : DVert → List Str) : KV :=
  kBlock name (rowLeaves ((rowsOf size size verts).map fun r => r.flatMap toks))

def triToks (v : DVert) : List Str := [showInt v.triA, showInt v.triB]

def colorToks (i : Nat) (v : DVert) : List Str :=
  match v.colors with
  | some cs => (cs.getD i v3one).toks
  | none => v3one.toks

def hasBlend (verts : List DVert) : Bool := verts.any (fun v => !(v.blend.toks.all isZeroTok))

/-- `_DISP_COLL_TO_FLAG[flags & COLL_ALL]`: the smallest file value with these collision bits. -/
def collToFlag (coll : Nat) : Nat :=
  (if coll % 2 == 1 then 0 else 2) + (if (coll / 2) % 2 == 1 then 0 else 4) + (if (coll / 4) % 2 == 1 then 0 else 8)

/-- `_DISP_FLAG_TO_COLL[i]`. -/
def flagToColl (i : Nat) : Nat :=
  (if (i / 2) % 2 == 0 then 1 else 0) + (if (i / 4) % 2 == 0 then 2 else 0) + (if (i / 8) % 2 == 0 then 4 else 0)

def dispHead (d : Disp) : List KV := [
  kInt "power" d.power,
  kLeaf "startposition" (wrap '[' ']' d.pos.str),
  kInt "flags" (collToFlag d.coll),
  kLeaf "elevation" d.elev,
  kBool "subdiv" d.subdiv]

/-- the children of a `dispinfo` block, given the children of each array block -/
def dispKidsOf (head : List KV) (normals distances offsets offsetNormals alphas tris allowed : List KV)
    (multi : Option (List KV × List KV × List KV × List KV × List KV × List KV)) : List KV :=
  head ++ ([kBlock "normals" normals, kBlock "distances" distances, kBlock "offsets" offsets,
    kBlock "offset_normals" offsetNormals, kBlock "alphas" alphas, kBlock "triangle_tags" tris,
    kBlock "allowed_verts" allowed] ++
    (match multi with
     | some (mb, ab, c0, c1, c2, c3) =>
       [kBlock "multiblend" mb, kBlock "alphablend" ab, kBlock "multiblend_color_0" c0,
        kBlock "multiblend_color_1" c1, kBlock "multiblend_color_2" c2, kBlock "multiblend_color_3" c3]
     | none => []))

def rowsetKids (size : Nat) (verts : List DVert) (toks : DVert → List Str) : List KV :=
  rowLeaves ((rowsOf size size verts).map fun r => r.flatMap toks)

def triKids (size : Nat) (verts : List DVert) : List KV :=
  rowLeaves ((rowsOf size (size - 1) verts).map fun r => (r.take (size - 1)).flatMap triToks)

def exportDisp (multiblend : Bool) (d : Disp) : KV :=
  let size := dispSize d.power
  kBlock "dispinfo" (dispKidsOf (dispHead d)
    (rowsetKids size d.verts (·.normal.toks)) (rowsetKids size d.verts (fun v => [v.dist]))
    (rowsetKids size d.verts (·.offset.toks)) (rowsetKids size d.verts (·.offsetNorm.toks))
    (rowsetKids size d.verts (fun v => [v.alpha])) (triKids size d.verts)
    [kLeaf "10" (unwords (d.allowed.map showInt))]
    (if multiblend && hasBlend d.verts then
      some (rowsetKids size d.verts (·.blend.toks), rowsetKids size d.verts (·.malpha.toks),
            rowsetKids size d.verts (colorToks 0), rowsetKids size d.verts (colorToks 1),
            rowsetKids size d.verts (colorToks 2), rowsetKids size d.verts (colorToks 3))
     else none))

def pointLeaves (i : Nat) : List V3 → List KV
  | [] => []
  | p :: ps => kLeaf "point" (showNat i ++ ' ' :: p.str) :: pointLeaves (i + 1) ps

def exportPoints (pts : List V3) : KV :=
  kBlock "point_data" (kInt "numpts" pts.length :: pointLeaves 0 pts)

def exportSide (multiblend : Bool) (s : Side) : KV :=
  kBlock "side" ([
    kInt "id" s.id,
    kLeaf "plane" (wrap '(' ')' s.p0.str ++ ' ' :: wrap '(' ')' s.p1.str ++ ' ' :: wrap '(' ')' s.p2.str),
    kLeaf "material" s.mat,
    kLeaf "uaxis" s.uaxis.str,
    kLeaf "vaxis" s.vaxis.str,
    kLeaf "rotation" s.rot,
    kInt "lightmapscale" s.lightmap,
    kInt "smoothing_groups" s.smooth] ++
    (match s.points with
     | some pts => [exportPoints pts]
     | none => []) ++
    (match s.disp with
     | some d => if d.power > 0 then [exportDisp multiblend d] else []
     | none => []))

def maybeHidden (hidden : Bool) (k : KV) : KV := if hidden then kBlock "hidden" [k] else k

def solidEditor (includeGroups : Bool) (s : Solid) : List KV :=
  [kLeaf "color" s.color.str] ++
  (if includeGroups then
    (match s.group with
     | some g => [kInt "groupid" g]
     | none => []) ++ (isort intLe s.visIds).map (kInt "visgroupid")
   else []) ++
  [kBool "visgroupshown" s.visShown, kBool "visgroupautoshown" s.visAuto] ++
  (if s.cordon then [kLeaf "cordonsolid" ['1']] else [])

def solidBlock (multiblend includeGroups : Bool) (s : Solid) : KV :=
  kBlock "solid" (kInt "id" s.id :: (s.sides.map (exportSide multiblend) ++
    [kBlock "editor" (solidEditor includeGroups s)]))

def exportSolid (multiblend includeGroups : Bool) (s : Solid) : KV :=
  maybeHidden s.hidden (solidBlock multiblend includeGroups s)

def pad2 (s : Str) : Str := if s.length < 2 then '0' :: s else s

def exportFix (f : Fix) : KV :=
  .leaf (lit "replace" ++ pad2 (showInt f.id)) ('$' :: (f.var ++ ' ' :: f.value))

def outSep (comma : Bool) : Char := if comma then ',' else '\x1b'

def expName (inst : Option Str) (name : Str) : Str :=
  match inst with
  | some i => if i.isEmpty then name else lit "instance:" ++ i ++ ';' :: name
  | none => name

def exportOut (o : Out) : KV :=
  let sep := [outSep o.comma]
  .leaf (expName o.instOut o.output)
    (o.target ++ sep ++ expName o.instIn o.input ++ sep ++ o.params ++ sep ++ o.delay ++ sep ++ showInt o.times)

def exportGroup (g : Group) : KV :=
  kBlock "group" [kInt "id" g.id,
    kBlock "editor" [kBool "visgroupshown" g.shown, kBool "visgroupautoshown" g.auto, kLeaf "color" g.color.str]]

def entEditor (world : Bool) (e : Ent) : List KV :=
  [kLeaf "color" e.color.str] ++
  (if world then [] else
    (isort intLe e.groups).map (kInt "groupid") ++
    (isort intLe e.visIds).map (kInt "visgroupid") ++
    [kBool "visgroupshown" e.visShown, kBool "visgroupautoshown" e.visAuto,
     kLeaf "logicalpos" e.logicalPos]) ++
  (if e.comments.isEmpty then [] else [kLeaf "comments" e.comments])

def entKids (multiblend world : Bool) (groups : List Group) (e : Ent) : List KV :=
  kInt "id" e.id ::
  ((isort keyLe e.keys).map (fun kv => KV.leaf kv.1 kv.2) ++
   ((isort fixLe e.fixup).map exportFix ++
   (e.solids.map (exportSolid multiblend world) ++
   ((if e.outputs.isEmpty then [] else [kBlock "connections" (e.outputs.map exportOut)]) ++
   ((if world then groups.map exportGroup else []) ++
   [kBlock "editor" (entEditor world e)])))))

def entBlock (multiblend world : Bool) (groups : List Group) (e : Ent) : KV :=
  kBlock (if world then "world" else "entity") (entKids multiblend world groups e)

/-- `Entity.export`; `world` = `_is_worldspawn` (then `groups` are the map's group blocks). -/
def exportEnt (multiblend world : Bool) (groups : List Group) (e : Ent) : KV :=
  maybeHidden e.hidden (entBlock multiblend world groups e)

def exportCam (c : Cam) : KV :=
  kBlock "camera" [kLeaf "position" (wrap '[' ']' c.pos.str), kLeaf "look" (wrap '[' ']' c.look.str)]

def exportCordon (c : Cordon) : KV :=
  kBlock "cordon" [kLeaf "name" c.name, kBool "active" c.active,
    kBlock "box" [kLeaf "mins" (wrap '(' ')' c.min.str), kLeaf "maxs" (wrap '(' ')' c.max.str)]]

/-- The map version written by this export. -/
def exportedVer (o : ExportOpts) (m : VMap) : Int := if o.incVersion then m.mapVer + 1 else m.mapVer

/-- worldspawn as it is during `export`: `mapversion` and `classname` forced. -/
def spawnForExport (o : ExportOpts) (m : VMap) : Ent :=
  { m.spawn with
    keys := entSetKey (entSetKey m.spawn.keys (lit "mapversion") (showInt (exportedVer o m)))
      (lit "classname") (lit "worldspawn") }

def verKids (o : ExportOpts) (m : VMap) : List KV := [
  kInt "editorversion" m.hammerVer, kInt "editorbuild" m.hammerBuild,
  kInt "mapversion" (exportedVer o m), kInt "formatversion" m.formatVer, kBool "prefab" m.prefab]

def viewKids (m : VMap) : List KV :=
  [kBool "bSnapToGrid" m.snap, kBool "bShowGrid" m.grid, kBool "bShowLogicalGrid" m.logic,
   kInt "nGridSpacing" m.spacing, kBool "bShow3DGrid" m.grid3d] ++
  ((match m.instVis with
    | some v => [kInt "nInstanceVisibility" v]
    | none => []) ++
   (match m.views with
    | some vs => [kBlock "views" (exportViews viewTitles vs)]
    | none => []))

def camKids (m : VMap) : List KV :=
  kInt "activecamera" (if m.cams.isEmpty then -1 else m.activeCam) :: m.cams.map exportCam

def cordonKids (m : VMap) : List KV :=
  if m.cordons.isEmpty then [kLeaf "active" ['0']]
  else kBool "active" m.cordonOn :: m.cordons.map exportCordon

/-- the root blocks in file order -/
def rootOf (minimal hasQuick : Bool) (verK visK viewK : List KV) (world : KV) (ents : List KV)
    (camK cordK quickK : List KV) : List KV :=
  [kBlock "versioninfo" verK, kBlock "visgroups" visK] ++
  ((if minimal then [] else [kBlock "viewsettings" viewK]) ++
  ([world] ++
  (ents ++
  ((if minimal then [] else [kBlock "cameras" camK, kBlock "cordons" cordK]) ++
  (if hasQuick then [kBlock "quickhide" quickK] else [])))))

def exportTree (o : ExportOpts) (m : VMap) : List KV :=
  rootOf o.minimal (decide (m.quickhide > 0)) (verKids o m) (m.vis.map exportVis) (viewKids m)
    (exportEnt o.multiblend true m.groups (spawnForExport o m))
    (m.ents.map (exportEnt o.multiblend false []))
    (camKids m) (cordonKids m) [kInt "count" m.quickhide]

/-! ## lookups (`Keyvalues` accessors) -/

def KV.name : KV → Str
  | .leaf n _ => n
  | .block n _ => n

def KV.fname (k : KV) : Str := lower k.name

def KV.isBlock : KV → Bool
  | .leaf _ _ => false
  | .block _ _ => true

def KV.kids : KV → List KV
  | .leaf _ _ => []
  | .block _ cs => cs

/-- `kv.name == key.casefold()` (the accessors fold the key they are given). -/
def named (key : String) (k : KV) : Bool := k.fname == lower key.toList

/-- last element satisfying `p` (`for kv in reversed(...)`). -/
def findLast {α} (p : α → Bool) : List α → Option α
  | [] => none
  | k :: ks =>
    match findLast p ks with
    | some r => some r
    | none => if p k then some k else none

/-- `_get_value`: the value of the last *leaf* with this name. -/
def getLeaf (key : String) (cs : List KV) : Option Str :=
  match findLast (fun k => named key k && !k.isBlock) cs with
  | some (.leaf _ v) => some v
  | _ => none

/-- `find_block(key, or_blank=True)`: children of the last *block* with this name, or none. -/
def getBlock (key : String) (cs : List KV) : List KV :=
  match findLast (fun k => named key k && k.isBlock) cs with
  | some k => k.kids
  | none => []

def hasBlock (key : String) (cs : List KV) : Bool :=
  (findLast (fun k => named key k && k.isBlock) cs).isSome

/-- `find_key(key)`: the last node with this name, leaf or block. -/
def findKey (key : String) (cs : List KV) : Option KV := findLast (named key) cs

def getInt (key : String) (dflt : Int) (cs : List KV) : Int :=
  match getLeaf key cs with
  | some v => (parseInt? v).getD dflt
  | none => dflt

def boolLookup (s : Str) : Option Bool :=
  let l := lower s
  if l == ['0'] || l == lit "no" || l == lit "false" || l == ['n'] || l == ['f'] then some false
  else if l == ['1'] || l == lit "yes" || l == lit "true" || l == ['y'] || l == ['t'] then some true
  else none

def getBool (key : String) (dflt : Bool) (cs : List KV) : Bool :=
  match getLeaf key cs with
  | some v => (boolLookup v).getD dflt
  | none => dflt

def convBool (v : Str) (dflt : Bool) : Bool := (boolLookup v).getD dflt

def getV3 (key : String) (dflt : V3) (cs : List KV) : V3 :=
  match getLeaf key cs with
  | some v => parseV3 dflt v
  | none => dflt

/-- `Keyvalues.float(key, default)` with the result kept as a token. -/
def getFloat (key : String) (dflt : Str) (cs : List KV) : Str :=
  match getLeaf key cs with
  | some v => if isNum v then v else dflt
  | none => dflt

/-- iterate over a node that must be a block (`for x in kv` raises on a leaf). -/
def blockKids : KV → Except Err (List KV)
  | .leaf _ _ => .error .leafKv
  | .block _ cs => .ok cs

/-! ## parse -/

def parseVisAux : KV → Except Err Vis
  | .leaf _ _ => .error .leafKv
  | .block _ cs => do
    let id := getInt "visgroupid" (-1) cs
    let name := (getLeaf "name" cs).getD (lit "VisGroup_" ++ showInt id)
    let color := getV3 "color" v3white cs
    let children ← parseVisList cs
    pure (.mk name id color children)
where
  parseVisList : List KV → Except Err (List Vis)
    | [] => pure []
    | k :: ks => do
      if named "visgroup" k then
        let v ← parseVisAux k
        let vs ← parseVisList ks
        pure (v :: vs)
      else parseVisList ks

def parseVis (k : KV) : Except Err Vis := parseVisAux k

def isBig (t : Str) : Bool := t == lit "65536" || t == lit "-65536"

/-- the single axis whose coordinate satisfies `p` (none: no axis; error: more than one). -/
def pickAxis (p : Str → Bool) (pos : V3) : Except Err (Option Nat) :=
  match p pos.x, p pos.y, p pos.z with
  | true, false, false => .ok (some 0)
  | false, true, false => .ok (some 1)
  | false, false, true => .ok (some 2)
  | false, false, false => .ok none
  | _, _, _ => .error .viewAxis

def mkView2 (a : Nat) (pos : V3) (zoom : Str) : View :=
  if a == 0 then .v2 0 pos.y pos.z zoom else if a == 1 then .v2 1 pos.x pos.z zoom else .v2 2 pos.x pos.y zoom

/-- `Strata2DViewport.from_vector` on tokens: the axis holding ±65536 first, then a zero. -/
def viewFromVector (pos : V3) (zoom : Str) : Except Err View :=
  match pickAxis isBig pos with
  | .error e => .error e
  | .ok (some a) => .ok (mkView2 a pos zoom)
  | .ok none =>
    match pickAxis isZeroTok pos with
    | .error e => .error e
    | .ok (some a) => .ok (mkView2 a pos zoom)
    | .ok none => .error .viewAxis

def viewSub (key : String) (views : List KV) : Except Err (List KV) :=
  match findKey key views with
  | some k => blockKids k
  | none => .ok []

def parseViewKids (is0 : Bool) (default2d : Nat) (sub : List KV) : Except Err View :=
  if getBool "3d" is0 sub then
    .ok (.v3 (getV3 "position" v3zero sub) (parseV3 v3zero ((getLeaf "angle" sub).getD (lit "[0 0 0]"))))
  else if (getV3 "position" v3zero sub).toks.all isZeroTok then
    .ok (.v2 default2d ['0'] ['0'] (getFloat "zoom" ['1'] sub))
  else viewFromVector (getV3 "position" v3zero sub) (getFloat "zoom" ['1'] sub)

def parseView (key : String) (is0 : Bool) (default2d : Nat) (views : List KV) : Except Err View :=
  match viewSub key views with
  | .error e => .error e
  | .ok sub => parseViewKids is0 default2d sub

def parseViews (viewOpt : List KV) : Except Err (Option (List View)) :=
  match findKey "views" viewOpt with
  | none => .ok none
  | some k =>
    match blockKids k with
    | .error e => .error e
    | .ok vs =>
      match parseView "v0" true 0 vs with
      | .error e => .error e
      | .ok a =>
        match parseView "v1" false 0 vs with
        | .error e => .error e
        | .ok b =>
          match parseView "v2" false 1 vs with
          | .error e => .error e
          | .ok c =>
            match parseView "v3" false 2 vs with
            | .error e => .error e
            | .ok d => .ok (some [a, b, c, d])

def lstripC (c : Char) (s : Str) : Str := s.dropWhile (· == c)
def rstripC (c : Char) (s : Str) : Str := (s.reverse.dropWhile (· == c)).reverse

def parseUV (v : Str) : Except Err UV :=
  match splitWs v with
  | a :: b :: c :: d :: e :: _ =>
    let a := lstripC '[' a
    let d := rstripC ']' d
    if isNum a && isNum b && isNum c && isNum d && isNum e then .ok ⟨a, b, c, d, e⟩ else .error .uvAxis
  | _ => .error .uvAxis

/-- `_iter_disp_row` on the children of one array block: `(y, tokens)` for every `row<y>` child. -/
def rowsOfBlock (width : Nat) : List KV → Except Err (List (Nat × List Str))
  | [] => .ok []
  | k :: ks =>
    if (lit "row").isPrefixOf k.fname then
      match parseInt? (k.fname.drop 3), k with
      | some (.ofNat y), .leaf _ v =>
        if (splitWs v).length != width then .error .rowLength
        else
          match rowsOfBlock width ks with
          | .error e => .error e
          | .ok r => .ok ((y, splitWs v) :: r)
      | some _, .leaf _ _ => .error .rowIndex
      | none, _ => .error .badInt
      | _, .block _ _ => .error .leafKv
    else rowsOfBlock width ks

/-- rows of one displacement array: every `row<y>` child of every block `name` (`find_children`). -/
def dispRows (name : String) (width : Nat) : List KV → Except Err (List (Nat × List Str))
  | [] => .ok []
  | k :: ks =>
    if named name k then
      match blockKids k with
      | .error e => .error e
      | .ok cs =>
        match rowsOfBlock width cs with
        | .error e => .error e
        | .ok a =>
          match dispRows name width ks with
          | .error e => .error e
          | .ok b => .ok (a ++ b)
    else dispRows name width ks

def setAt {α} (l : List α) (i : Nat) (f : α → α) : List α :=
  match l, i with
  | [], _ => []
  | a :: r, 0 => f a :: r
  | a :: r, i + 1 => a :: setAt r i f

/-- columns `x, x+1, …, x+n-1` of row `y`: vertex `y*size + x` is updated from its `per` tokens. -/
def applyRowFrom (size per : Nat) (upd : DVert → List Str → Except Err DVert) (y : Nat) (toks : List Str) :
    Nat → Nat → List DVert → Except Err (List DVert)
  | _, 0, vs => .ok vs
  | x, n + 1, vs =>
    match vs[y * size + x]? with
    | none => .error .rowIndex
    | some v =>
      match upd v ((toks.drop (per * x)).take per) with
      | .error e => .error e
      | .ok v' => applyRowFrom size per upd y toks (x + 1) n (setAt vs (y * size + x) fun _ => v')

/-- apply `upd` to vertex `(x, y)` for every group of `per` tokens of every row. -/
def applyRows (size per cnt : Nat) (upd : DVert → List Str → Except Err DVert) :
    List (Nat × List Str) → List DVert → Except Err (List DVert)
  | [], vs => .ok vs
  | (y, toks) :: r, vs =>
    match applyRowFrom size per upd y toks 0 cnt vs with
    | .error e => .error e
    | .ok vs' => applyRows size per cnt upd r vs'

/-- one array of the displacement: every row of every block `name`, `cnt` vertices per row. -/
def applyRowset (name : String) (size per cnt : Nat) (upd : DVert → List Str → Except Err DVert)
    (cs : List KV) (verts : List DVert) : Except Err (List DVert) :=
  match dispRows name (per * cnt) cs with
  | .error e => .error e
  | .ok rows => applyRows size per cnt upd rows verts

def num3 (t : List Str) : Except Err V3 :=
  match t with
  | [a, b, c] => if isNum a && isNum b && isNum c then .ok ⟨a, b, c⟩ else .error .badFloat
  | _ => .error .badFloat

def num4 (t : List Str) : Except Err V4 :=
  match t with
  | [a, b, c, d] => if isNum a && isNum b && isNum c && isNum d then .ok ⟨a, b, c, d⟩ else .error .badFloat
  | _ => .error .badFloat

def num1 (t : List Str) : Except Err Str :=
  match t with
  | [a] => if isNum a then .ok a else .error .badFloat
  | _ => .error .badFloat

def triTag (t : Str) : Except Err Int :=
  match parseInt? t with
  | some v => if v == 0 || v == 1 || v == 9 then .ok v else .error .triangleTag
  | none => .error .badFloat

def blankVert : DVert :=
  { normal := v3zero, dist := lit "0.0", offset := v3zero, offsetNorm := v3zero, alpha := lit "0.0",
    triA := 9, triB := 9, blend := v4zero, malpha := v4zero, colors := none }

def updNormal (v : DVert) (t : List Str) : Except Err DVert :=
  match num3 t with
  | .error e => .error e
  | .ok n => .ok { v with normal := n }
def updOffset (v : DVert) (t : List Str) : Except Err DVert :=
  match num3 t with
  | .error e => .error e
  | .ok n => .ok { v with offset := n }
def updOffsetNorm (v : DVert) (t : List Str) : Except Err DVert :=
  match num3 t with
  | .error e => .error e
  | .ok n => .ok { v with offsetNorm := n }
def updAlpha (v : DVert) (t : List Str) : Except Err DVert :=
  match num1 t with
  | .error e => .error e
  | .ok n => .ok { v with alpha := n }
def updDist (v : DVert) (t : List Str) : Except Err DVert :=
  match num1 t with
  | .error e => .error e
  | .ok n => .ok { v with dist := n }
def updTri (v : DVert) (t : List Str) : Except Err DVert :=
  match t with
  | [a, b] =>
    match triTag a with
    | .error e => .error e
    | .ok ta =>
      match triTag b with
      | .error e => .error e
      | .ok tb => .ok { v with triA := ta, triB := tb }
  | _ => .error .rowLength
def updColor (i : Nat) (v : DVert) (t : List Str) : Except Err DVert :=
  match num3 t with
  | .error e => .error e
  | .ok c => .ok { v with colors := v.colors.map fun l => setAt l i fun _ => c }
def updBlend (v : DVert) (t : List Str) : Except Err DVert :=
  match num4 t with
  | .error e => .error e
  | .ok n => .ok { v with blend := n }
def updMalpha (v : DVert) (t : List Str) : Except Err DVert :=
  match num4 t with
  | .error e => .error e
  | .ok n => .ok { v with malpha := n }

def whiteColors (v : DVert) : DVert := { v with colors := some [v3one, v3one, v3one, v3one] }

/-- the arrays every displacement has, in the order the code reads them -/
def dispVertsBase (size tcount : Nat) (cs : List KV) : Except Err (List DVert) :=
  (applyRowset "normals" size 3 size updNormal cs (List.replicate (size * size) blankVert)).bind fun v =>
  (applyRowset "offsets" size 3 size updOffset cs v).bind fun v =>
  (applyRowset "offset_normals" size 3 size updOffsetNorm cs v).bind fun v =>
  (applyRowset "alphas" size 1 size updAlpha cs v).bind fun v =>
  (applyRowset "distances" size 1 size updDist cs v).bind fun v =>
  applyRowset "triangle_tags" size 2 tcount updTri cs v

/-- the multiblend arrays (only read when a `multiblend` child exists) -/
def dispVertsMulti (size : Nat) (cs : List KV) (verts : List DVert) : Except Err (List DVert) :=
  (applyRowset "multiblend_color_0" size 3 size (updColor 0) cs (verts.map whiteColors)).bind fun v =>
  (applyRowset "multiblend_color_1" size 3 size (updColor 1) cs v).bind fun v =>
  (applyRowset "multiblend_color_2" size 3 size (updColor 2) cs v).bind fun v =>
  (applyRowset "multiblend_color_3" size 3 size (updColor 3) cs v).bind fun v =>
  (applyRowset "multiblend" size 4 size updBlend cs v).bind fun v =>
  applyRowset "alphablend" size 4 size updMalpha cs v

def parseDispVerts (size tcount : Nat) (cs : List KV) : Except Err (List DVert) :=
  (dispVertsBase size tcount cs).bind fun v =>
  if cs.any (named "multiblend") then dispVertsMulti size cs v else .ok v

def intTokens : List Str → Except Err (List Int)
  | [] => .ok []
  | t :: ts =>
    match parseInt? t with
    | none => .error .badInt
    | some i =>
      match intTokens ts with
      | .error e => .error e
      | .ok r => .ok (i :: r)

/-- `allowed_verts`: the `"10"` form (NOT modelled: the 5 x int64 form of Strata Source). -/
def parseAllowed (cs : List KV) : Except Err (List Int) :=
  match findKey "allowed_verts" cs with
  | none => .error .noAllowedVerts
  | some k =>
    match blockKids k with
    | .error e => .error e
    | .ok vertKey =>
      if vertKey.any (named "10") then
        match getLeaf "10" vertKey with
        | some v => intTokens (splitWs v)
        | none => .error .leafKv
      else .ok []

def parseDisp (cs : List KV) : Except Err Disp :=
  if !(0 ≤ getInt "power" 4 cs && getInt "power" 4 cs ≤ 4) then .error .dispPower
  else if !(0 ≤ getInt "flags" 0 cs && getInt "flags" 0 cs ≤ 15) then .error .dispFlags
  else
    match parseAllowed cs with
    | .error e => .error e
    | .ok allowed =>
      if allowed.length != 10 then .error .allowedVerts
      else
        match parseDispVerts (if (getInt "power" 4 cs).toNat == 0 then 0 else dispSize (getInt "power" 4 cs).toNat)
            (2 ^ (getInt "power" 4 cs).toNat) cs with
        | .error e => .error e
        | .ok verts =>
          .ok { power := (getInt "power" 4 cs).toNat, pos := getV3 "startposition" v3zero cs,
                elev := getFloat "elevation" (lit "0.0") cs, coll := flagToColl (getInt "flags" 0 cs).toNat,
                subdiv := getBool "subdiv" false cs, allowed, verts }

/-- a loop over children with an accumulator (`for x in kvs: …`), stopping at the first error. -/
def foldE {σ} (step : σ → KV → Except Err σ) : σ → List KV → Except Err σ
  | st, [] => .ok st
  | st, k :: ks =>
    match step st k with
    | .error e => .error e
    | .ok st' => foldE step st' ks

/-- one `point` line of a Strata `point_data` block: `"<index> <x> <y> <z>"`. -/
def pointStep (pts : List (Option V3)) (k : KV) : Except Err (List (Option V3)) :=
  if named "point" k then
    match k with
    | .block _ _ => .error .leafKv
    | .leaf _ v =>
      match splitFirst ' ' v [] with
      | (_, none) => .error .points
      | (indStr, some posStr) =>
        match parseInt? indStr with
        | some (.ofNat i) =>
          match pts[i]? with
          | some none => .ok (setAt pts i fun _ => some (parseV3 v3zero posStr))
          | _ => .error .points
        | _ => .error .points
  else .ok pts

def collectPoints : List (Option V3) → Except Err (List V3)
  | [] => .ok []
  | none :: _ => .error .points
  | some v :: r =>
    match collectPoints r with
    | .error e => .error e
    | .ok l => .ok (v :: l)

def parsePoints (cs : List KV) : Except Err (List V3) :=
  match foldE pointStep (List.replicate (getInt "numpts" 0 cs).toNat none) cs with
  | .error e => .error e
  | .ok pts => collectPoints pts

/-- `tree["plane", …][1:-1].split(") (")` and the three `Vec.from_str`. -/
def parsePlanes (cs : List KV) : Except Err (V3 × V3 × V3) :=
  let plane := (getLeaf "plane" cs).getD (lit "(0 0 0) (0 0 0) (0 0 0)")
  match splitSub (lit ") (") ((plane.drop 1).dropLast) with
  | [a, b, c] => .ok (parseV3 v3zero a, parseV3 v3zero b, parseV3 v3zero c)
  | _ => .error .planes

def parseSideDisp (cs : List KV) : Except Err (Option Disp) :=
  match findKey "dispinfo" cs with
  | some k =>
    match blockKids k with
    | .error e => .error e
    | .ok ks =>
      match parseDisp ks with
      | .error e => .error e
      | .ok d => .ok (some d)
  | none => .ok none

def parseSidePoints (cs : List KV) : Except Err (Option (List V3)) :=
  if hasBlock "point_data" cs then
    match parsePoints (getBlock "point_data" cs) with
    | .error e => .error e
    | .ok p => .ok (some p)
  else .ok none

def parseSide : KV → Except Err Side
  | .leaf _ _ => .error .leafKv
  | .block _ cs =>
    match parsePlanes cs with
    | .error e => .error e
    | .ok (p0, p1, p2) =>
      match parseUV ((getLeaf "uaxis" cs).getD (lit "[0 1 0 0] 0.25")) with
      | .error e => .error e
      | .ok uaxis =>
        match parseUV ((getLeaf "vaxis" cs).getD (lit "[0 0 -1 0] 0.25")) with
        | .error e => .error e
        | .ok vaxis =>
          match parseSideDisp cs with
          | .error e => .error e
          | .ok disp =>
            match parseSidePoints cs with
            | .error e => .error e
            | .ok points =>
              .ok {
                id := getInt "id" (-1) cs, p0, p1, p2,
                mat := (getLeaf "material" cs).getD [],
                uaxis, vaxis,
                rot := getFloat "rotation" ['0'] cs,
                lightmap := getInt "lightmapscale" 16 cs,
                smooth := getInt "smoothing_groups" 0 cs,
                points, disp }

structure SolidEd where
  visIds : List Int := []
  group : Option Int := none
  visShown : Bool := true
  visAuto : Bool := true
  cordon : Bool := false
  color : V3 := v3white

def solidEdStep (st : SolidEd) (k : KV) : Except Err SolidEd :=
  let v := match k with
    | .leaf _ v => v
    | .block _ _ => []
  -- NOTE: `v.value` of a block raises in the code for the keys below; modelled as leafKv
  let needLeaf (r : Except Err SolidEd) : Except Err SolidEd := if k.isBlock then .error .leafKv else r
  if named "visgroupshown" k then needLeaf (.ok { st with visShown := convBool v true })
  else if named "visgroupautoshown" k then needLeaf (.ok { st with visAuto := convBool v true })
  else if named "cordonsolid" k then .ok { st with cordon := true }
  else if named "color" k then needLeaf (.ok { st with color := parseV3 v3white v })
  else if named "groupid" k then needLeaf (match parseInt? v with
    | some g => .ok { st with group := some g }
    | none => .error .badInt)
  else if named "visgroupid" k then needLeaf (match parseInt? v with
    | some g => .ok { st with visIds := st.visIds ++ [g] }
    | none => .ok st)
  else .ok st

/-- `for side in tree.find_all("side")`. -/
def parseSides : List KV → Except Err (List Side)
  | [] => .ok []
  | k :: ks =>
    if named "side" k then
      match parseSide k with
      | .error e => .error e
      | .ok s =>
        match parseSides ks with
        | .error e => .error e
        | .ok r => .ok (s :: r)
    else parseSides ks

/-- `tree.find_children("editor")`: the children of every child named `editor`. -/
def editorKids : List KV → Except Err (List KV)
  | [] => .ok []
  | k :: ks =>
    if named "editor" k then
      match blockKids k with
      | .error e => .error e
      | .ok a =>
        match editorKids ks with
        | .error e => .error e
        | .ok b => .ok (a ++ b)
    else editorKids ks

def solidOf (hidden : Bool) (id : Int) (sides : List Side) (ed : SolidEd) : Solid :=
  { id, sides, visIds := ed.visIds, hidden, group := ed.group,
    visShown := ed.visShown, visAuto := ed.visAuto, cordon := ed.cordon, color := ed.color }

def parseSolid (hidden : Bool) : KV → Except Err Solid
  | .leaf _ _ => .error .leafKv
  | .block _ cs =>
    match parseSides cs with
    | .error e => .error e
    | .ok sides =>
      match editorKids cs with
      | .error e => .error e
      | .ok edKids =>
        match foldE solidEdStep {} edKids with
        | .error e => .error e
        | .ok ed => .ok (solidOf hidden (getInt "id" (-1) cs) sides ed)

/-- `Output.parse_name`. -/
def parseName (name : Str) : Except Err (Option Str × Str) :=
  if (lit "instance:").isPrefixOf (lower name) then
    match splitFirst ';' name [] with
    | (inst, some cmd) => .ok (some (inst.drop 9), cmd)
    | (_, none) => .error .instanceName
  else .ok (none, name)

def joinComma (l : List Str) : Str := joinWith [','] l

/-- the separator actually used, and the split value -/
def outEsc (value : Str) : Bool := value.contains '\x1b'
def outVals (value : Str) : List Str := if outEsc value then splitOn '\x1b' value else splitOn ',' value

/-- `targ, inp, param, delay, times = vals`; on failure, with commas and more than five parts,
`targ, inp, *param_lst, delay, times = vals` and the parameter parts are re-joined. -/
def outFields (esc : Bool) (vals : List Str) : Except Err (Str × Str × Str × Str × Str) :=
  if vals.length == 5 then
    match vals with
    | [a, b, c, d, e] => .ok (a, b, c, d, e)
    | _ => .error .outputValue
  else if !esc && vals.length > 5 then
    match vals with
    | a :: b :: rest =>
      match rest.reverse with
      | t :: d :: psr => .ok (a, b, joinComma psr.reverse, d, t)
      | _ => .error .outputValue
    | _ => .error .outputValue
  else .error .outputValue

def outBuild (name : Str) (esc : Bool) (f : Str × Str × Str × Str × Str) : Except Err Out :=
  match parseName name with
  | .error e => .error e
  | .ok (instOut, out) =>
    match parseName f.2.1 with
    | .error e => .error e
    | .ok (instIn, inp) =>
      if !isNum f.2.2.2.1 then .error .badFloat
      else match parseInt? f.2.2.2.2 with
        | none => .error .badInt
        | some times =>
          .ok { output := out, instOut, target := f.1, input := inp, instIn, params := f.2.2.1,
                delay := f.2.2.2.1, times, comma := !esc }

def parseOut : KV → Except Err Out
  | .block _ _ => .error .leafKv
  | .leaf name value =>
    match outFields (outEsc value) (outVals value) with
    | .error e => .error e
    | .ok f => outBuild name (outEsc value) f

def parseGroup : KV → Except Err Group
  | .leaf _ _ => .error .leafKv
  | .block _ cs =>
    let ed := getBlock "editor" cs
    .ok { id := getInt "id" (-1) cs, shown := getBool "visgroupshown" true ed,
          auto := getBool "visgroupautoshown" true ed, color := getV3 "color" v3white ed }

/-- `dict[key] = value`. -/
def dictSet (d : List (Str × Str)) (k v : Str) : List (Str × Str) :=
  if d.any (·.1 == k) then d.map fun kv => if kv.1 == k then (kv.1, v) else kv else d ++ [(k, v)]

/-- `EntityFixup.__setitem__`. -/
def fixSet (d : List Fix) (var value : Str) : List Fix :=
  let var := if var.head? == some '$' then var.drop 1 else var
  if d.any (fun f => lower f.var == lower var) then
    d.map fun f => if lower f.var == lower var then { f with value } else f
  else
    let rec free (fuel : Nat) (i : Int) : Int :=
      match fuel with
      | 0 => i
      | fuel + 1 => if d.any (·.id == i) then free fuel (i + 1) else i
    d ++ [{ var, value, id := free (d.length + 1) 1 }]

/-- first pass of `EntityFixup.__init__`: values whose index was not seen yet / the others. -/
def fixSplit (seen : List Int) : List Fix → List Fix × List Fix
  | [] => ([], [])
  | f :: r =>
    if seen.contains f.id then ((fixSplit seen r).1, f :: (fixSplit seen r).2)
    else (f :: (fixSplit (f.id :: seen) r).1, (fixSplit (f.id :: seen) r).2)

/-- `self._fixup[fix.var.casefold()] = fix`. -/
def fixPut (d : List Fix) (f : Fix) : List Fix :=
  if d.any (fun g => lower g.var == lower f.var) then d.map fun g => if lower g.var == lower f.var then f else g
  else d ++ [f]

/-- `EntityFixup.__init__`: first value of every index kept (stored under the folded variable
name, a repeated name replaces the stored value in place), the others re-added by `__setitem__`. -/
def fixInit (l : List Fix) : List Fix :=
  ((fixSplit [] l).2).foldl (fun d f => fixSet d f.var f.value) (((fixSplit [] l).1).foldl fixPut [])

structure EntSt where
  id : Int := -1
  solids : List Solid := []
  keys : List (Str × Str) := []
  outputs : List Out := []
  fixup : List Fix := []
  groupIds : List Int := []
  visIds : List Int := []
  visShown : Bool := true
  visAuto : Bool := true
  logicalPos : Str := []
  comments : Str := []
  color : V3 := v3zero
  groups : List Group := []      -- group blocks (worldspawn only)

def entEdStep (st : EntSt) (k : KV) : Except Err EntSt :=
  let v := match k with
    | .leaf _ v => v
    | .block _ _ => []
  let needLeaf (r : Except Err EntSt) : Except Err EntSt := if k.isBlock then .error .leafKv else r
  if named "visgroupshown" k then needLeaf (.ok { st with visShown := convBool v true })
  else if named "visgroupautoshown" k then needLeaf (.ok { st with visAuto := convBool v true })
  else if named "color" k then needLeaf (.ok { st with color := parseV3 v3white v })
  else if named "logicalpos" k then needLeaf (.ok { st with logicalPos := v })
  else if named "comments" k then needLeaf (.ok { st with comments := v })
  else if named "groupid" k then needLeaf (match parseInt? v with
    | some g => .ok { st with groupIds := st.groupIds ++ [g] }
    | none => .error .badInt)
  else if named "visgroupid" k then needLeaf (match parseInt? v with
    | some g => .ok { st with visIds := st.visIds ++ [g] }
    | none => .error .visgroupId)
  else .ok st

/-- `str.isnumeric()` on ASCII. -/
def isNumeric (s : Str) : Bool := !s.isEmpty && s.all Char.isDigit

def last2 (s : Str) : Str := s.drop (s.length - 2)

def parseOuts : List KV → Except Err (List Out)
  | [] => .ok []
  | k :: ks =>
    match parseOut k with
    | .error e => .error e
    | .ok o =>
      match parseOuts ks with
      | .error e => .error e
      | .ok r => .ok (o :: r)

def hiddenStep (st : EntSt) (b : KV) : Except Err EntSt :=
  if named "solid" b then
    match parseSolid true b with
    | .error e => .error e
    | .ok s => .ok { st with solids := st.solids ++ [s] }
  else .error .hiddenKey

def fixOfLeaf (value : Str) (index : Int) : Fix :=
  { var := lstripC '$' (splitFirst ' ' value []).1, value := ((splitFirst ' ' value []).2).getD [], id := index }

def entStep (world : Bool) (st : EntSt) (k : KV) : Except Err EntSt :=
  match k with
  | .block _ cs =>
    if named "solid" k then
      match parseSolid false k with
      | .error e => .error e
      | .ok s => .ok { st with solids := st.solids ++ [s] }
    else if named "connections" k then
      match parseOuts cs with
      | .error e => .error e
      | .ok outs => .ok { st with outputs := st.outputs ++ outs }
    else if named "editor" k then foldE entEdStep st cs
    else if named "hidden" k then foldE hiddenStep st cs
    else if named "group" k then
      if !world then .error .groupNotWorld
      else
        match parseGroup k with
        | .error e => .error e
        | .ok g => .ok { st with groups := st.groups ++ [g] }
    else .error .entityBlock
  | .leaf name value =>
    if named "id" k && isNumeric value then
      .ok { st with id := (parseInt? value).getD (-1) }
    else if (lit "replace").isPrefixOf k.fname then
      match parseInt? (k.fname.drop 7) with      -- `name[7:]`: everything after "replace"
      | none => .ok { st with keys := dictSet st.keys name value }
      | some index => .ok { st with fixup := st.fixup ++ [fixOfLeaf value index] }
    else .ok { st with keys := dictSet st.keys name value }

/-- `Entity.__init__` on what `Entity.parse` collected (without id allocation). -/
def entOfSt (hidden : Bool) (st : EntSt) : Ent :=
  { id := st.id, keys := st.keys.foldl (fun ks kv => entSetKey ks kv.1 kv.2) [],
    fixup := fixInit st.fixup, outputs := st.outputs, solids := st.solids,
    hidden, groups := st.groupIds, visIds := st.visIds, visShown := st.visShown,
    visAuto := st.visAuto, color := st.color, logicalPos := st.logicalPos,
    comments := st.comments }

/-- `Entity.parse` + `Entity.__init__` (without id allocation). Returns the entity and the group
blocks found in it. -/
def parseEnt (world hidden : Bool) : KV → Except Err (Ent × List Group)
  | .leaf _ _ => .error .leafKv
  | .block _ cs =>
    match foldE (entStep world) {} cs with
    | .error e => .error e
    | .ok st => .ok (entOfSt hidden st, st.groups)

def parseCam : KV → Except Err Cam
  | .leaf _ _ => .error .leafKv
  | .block _ cs => .ok { pos := getV3 "position" v3zero cs, look := getV3 "look" (mkV3 0 64 0) cs }

def parseCordon : KV → Except Err Cordon
  | .leaf _ _ => .error .leafKv
  | .block _ cs =>
    let box := getBlock "box" cs
    .ok { name := (getLeaf "name" cs).getD (lit "cordon"), active := getBool "active" false cs,
          min := getV3 "mins" v3zero box, max := getV3 "maxs" (mkV3 128 128 128) box }

/-- `find_all('visgroups', 'visgroup')`. -/
def allVisgroups (root : List KV) : List KV :=
  (root.filter (named "visgroups")).flatMap fun k => k.kids.filter (named "visgroup")

def parseHiddenEnts : List KV → Except Err (List Ent)
  | [] => .ok []
  | h :: hs =>
    match parseEnt false true h with
    | .error e => .error e
    | .ok (e, _) =>
      match parseHiddenEnts hs with
      | .error e => .error e
      | .ok r => .ok (e :: r)

/-- the entities of the file, visible and hidden, in file order. -/
def parseRootEnts : List KV → Except Err (List Ent)
  | [] => .ok []
  | k :: ks =>
    if named "entity" k then
      match parseEnt false false k with
      | .error e => .error e
      | .ok (e, _) =>
        match parseRootEnts ks with
        | .error e => .error e
        | .ok r => .ok (e :: r)
    else if named "hidden" k then
      match blockKids k with
      | .error e => .error e
      | .ok hs =>
        match parseHiddenEnts hs with
        | .error e => .error e
        | .ok a =>
          match parseRootEnts ks with
          | .error e => .error e
          | .ok r => .ok (a ++ r)
    else parseRootEnts ks

def parseInstVis (view : List KV) : Option Int :=
  match getLeaf "nInstanceVisibility" view with
  | none => none
  | some v =>
    match parseInt? v with
    | some i => if i == 0 || i == 1 || i == 2 then some i else some 1
    | none => some 1

def parseVisAll : List KV → Except Err (List Vis)
  | [] => .ok []
  | k :: ks =>
    match parseVis k with
    | .error e => .error e
    | .ok v =>
      match parseVisAll ks with
      | .error e => .error e
      | .ok r => .ok (v :: r)

def parseCams : List KV → Except Err (List Cam)
  | [] => .ok []
  | k :: ks =>
    if named "activecamera" k then parseCams ks
    else
      match parseCam k with
      | .error e => .error e
      | .ok c =>
        match parseCams ks with
        | .error e => .error e
        | .ok r => .ok (c :: r)

def parseCordons : List KV → Except Err (List Cordon)
  | [] => .ok []
  | k :: ks =>
    if named "cordon" k then
      match parseCordon k with
      | .error e => .error e
      | .ok c =>
        match parseCordons ks with
        | .error e => .error e
        | .ok r => .ok (c :: r)
    else parseCordons ks

def worldKv (root : List KV) : KV :=
  match findLast (fun k => named "world" k && k.isBlock) root with
  | some k => k
  | none => kBlock "world" []

/-- `VMF.parse` without id allocation. -/
def parseRaw (root : List KV) : Except Err VMap :=
  let ver := getBlock "versioninfo" root
  let view := getBlock "viewsettings" root
  let cordons := getBlock "cordons" root
  let cams := getBlock "cameras" root
  let quick := getBlock "quickhide" root
  if (getLeaf "formatversion" ver).getD (lit "100") != lit "100" then .error .formatVersion
  else
    match parseViews view with
    | .error e => .error e
    | .ok views =>
      match parseVisAll (allVisgroups root) with
      | .error e => .error e
      | .ok vis =>
        match parseCams cams with
        | .error e => .error e
        | .ok camList =>
          match parseCordons cordons with
          | .error e => .error e
          | .ok cordonList =>
            match parseEnt true false (worldKv root) with
            | .error e => .error e
            | .ok (spawn, groups) =>
              match parseRootEnts root with
              | .error e => .error e
              | .ok ents =>
                .ok {
                  hammerVer := getInt "editorversion" 400 ver, hammerBuild := getInt "editorbuild" 5304 ver,
                  mapVer := getInt "mapversion" 0 ver, formatVer := 100, prefab := getBool "prefab" false ver,
                  vis, snap := getBool "bSnapToGrid" true view, grid := getBool "bShowGrid" true view,
                  logic := getBool "bShowLogicalGrid" false view, spacing := getInt "nGridSpacing" 64 view,
                  grid3d := getBool "bShow3DGrid" false view, instVis := parseInstVis view, views,
                  spawn := { spawn with keys := entSetKey spawn.keys (lit "classname") (lit "worldspawn") },
                  groups, ents,
                  activeCam := getInt "activecamera" (-1) cams, cams := camList,
                  cordonOn := getBool "active" false cordons, cordons := cordonList,
                  quickhide := getInt "count" 0 quick }

/-! ## id managers -/

structure IdMan where
  used : List Int := []
  searchPos : Int := 1
deriving Repr, Inhabited

/-- `IDMan.get_id()` search loop: first id from `pos` that is not used. -/
def findFree (used : List Int) : Nat → Int → Int
  | 0, pos => pos
  | fuel + 1, pos => if used.contains pos then findFree used fuel (pos + 1) else pos

def IdMan.alloc (m : IdMan) : Int × IdMan :=
  let p := findFree m.used (m.used.length + 1) m.searchPos
  (p, { used := p :: m.used, searchPos := p + 1 })

/-- `get_id(desired)` of `NullIDMan` (`preserve = true`) or `IDMan`. -/
def IdMan.get (preserve : Bool) (m : IdMan) (desired : Int) : Int × IdMan :=
  if preserve then
    if desired == -1 then m.alloc else (desired, { m with used := if m.used.contains desired then m.used else desired :: m.used })
  else
    if desired > 0 && !m.used.contains desired then (desired, { m with used := desired :: m.used })
    else m.alloc

def IdMan.discard (m : IdMan) (e : Int) : IdMan :=
  { used := m.used.filter (· != e), searchPos := if e < m.searchPos then e else m.searchPos }

structure Ids where
  solid : IdMan := {}
  face : IdMan := {}
  ent : IdMan := {}
  group : IdMan := {}
  vis : IdMan := {}
deriving Inhabited

def assignVisAux (p : Bool) : Vis → IdMan → Vis × IdMan
  | .mk name id color children, m =>
    let (cs, m) := assignVisList p children m
    let (id', m) := m.get p id
    (.mk name id' color cs, m)
where
  assignVisList (p : Bool) : List Vis → IdMan → List Vis × IdMan
    | [], m => ([], m)
    | v :: vs, m =>
      let (v', m) := assignVisAux p v m
      let (vs', m) := assignVisList p vs m
      (v' :: vs', m)

def assignSides (p : Bool) : List Side → IdMan → List Side × IdMan
  | [], m => ([], m)
  | s :: ss, m =>
    let (id, m) := m.get p s.id
    let (ss', m) := assignSides p ss m
    ({ s with id } :: ss', m)

def assignSolids (p : Bool) : List Solid → Ids → List Solid × Ids
  | [], st => ([], st)
  | s :: ss, st =>
    let (sides, face) := assignSides p s.sides st.face
    let (id, solid) := st.solid.get p s.id
    let (ss', st) := assignSolids p ss { st with face, solid }
    ({ s with id, sides } :: ss', st)

def defaultLogical (id : Int) : Str := lit "[0 " ++ showInt id ++ [']']

def assignEnt (p : Bool) (e : Ent) (st : Ids) : Ent × Ids :=
  let (solids, st) := assignSolids p e.solids st
  let (id, ent) := st.ent.get p e.id
  ({ e with id, solids, logicalPos := if e.logicalPos.isEmpty then defaultLogical id else e.logicalPos },
   { st with ent })

def assignEnts (p : Bool) : List Ent → Ids → List Ent × Ids
  | [], st => ([], st)
  | e :: es, st =>
    let (e', st) := assignEnt p e st
    let (es', st) := assignEnts p es st
    (e' :: es', st)

/-- `vmf_file.groups[grp.id] = grp` for each group block, ids allocated in file order. -/
def assignGroups (p : Bool) : List Group → IdMan → List Group → List Group × IdMan
  | [], m, acc => (acc, m)
  | g :: gs, m, acc =>
    let (id, m) := m.get p g.id
    let g' := { g with id }
    let acc := if acc.any (·.id == id) then acc.map (fun h => if h.id == id then g' else h) else acc ++ [g']
    assignGroups p gs m acc

/-- The constructors of `VMF.parse` in the order they run. -/
def assignIds (p : Bool) (m : VMap) : VMap :=
  -- VMF(): the placeholder worldspawn takes a fresh entity id (always 1)
  let st : Ids := {}
  let (_, ent) := st.ent.get p (-1)
  let st := { st with ent }
  let (vis, visMan) := assignVisAux.assignVisList p m.vis st.vis
  let st := { st with vis := visMan }
  -- worldspawn: solids (faces first), group blocks, then the entity itself; then the placeholder dies
  let (groups, grp) := assignGroups p m.groups st.group []
  let st := { st with group := grp }
  let (spawn, st) := assignEnt p m.spawn st
  -- the placeholder is never released: `VMF.__init__` put it into `by_target[None]` and
  -- `by_class['worldspawn']`, which keep it alive (and its id reserved) as long as the map lives
  let (ents, _) := assignEnts p m.ents st
  { m with vis, groups, spawn, ents }

def parseTree (preserve : Bool) (root : List KV) : Except Err VMap :=
  (parseRaw root).map (assignIds preserve)

/-! ## what a round trip keeps: `project` -/

def projVert (keepBlend : Bool) (size : Nat) (i : Nat) (v : DVert) : DVert :=
  let edge := i % size == size - 1 || i / size == size - 1
  { v with
    triA := if edge then 9 else v.triA
    triB := if edge then 9 else v.triB
    blend := if keepBlend then v.blend else v4zero
    malpha := if keepBlend then v.malpha else v4zero
    colors := if keepBlend then some ((List.range 4).map fun j => (v.colors.getD []).getD j v3one) else none }

def mapIdx {α β} (f : Nat → α → β) : Nat → List α → List β
  | _, [] => []
  | i, a :: r => f i a :: mapIdx f (i + 1) r

def projDisp (multiblend : Bool) (d : Disp) : Disp :=
  let keep := multiblend && hasBlend d.verts
  { d with verts := mapIdx (projVert keep (dispSize d.power)) 0 d.verts }

def projSide (multiblend : Bool) (s : Side) : Side :=
  { s with disp := match s.disp with
      | some d => if d.power > 0 then some (projDisp multiblend d) else none
      | none => none }

def projSolid (multiblend world : Bool) (s : Solid) : Solid :=
  { s with sides := s.sides.map (projSide multiblend)
           visIds := if world then isort intLe s.visIds else []
           group := if world then s.group else none }

def projOut (o : Out) : Out :=
  { o with instOut := match o.instOut with
             | some i => if i.isEmpty then none else some i
             | none => none
           instIn := match o.instIn with
             | some i => if i.isEmpty then none else some i
             | none => none }

def projEnt (multiblend world : Bool) (e : Ent) : Ent :=
  { e with keys := isort keyLe e.keys
           fixup := isort fixLe e.fixup
           outputs := e.outputs.map projOut
           solids := e.solids.map (projSolid multiblend world)
           groups := if world then [] else isort intLe e.groups
           visIds := if world then [] else isort intLe e.visIds
           visShown := if world then true else e.visShown
           visAuto := if world then true else e.visAuto
           hidden := if world then false else e.hidden
           logicalPos := if world || e.logicalPos.isEmpty then defaultLogical e.id else e.logicalPos }

/-- The map a re-parse (`preserve_ids = True`) of `exportTree o m` yields. -/
def project (o : ExportOpts) (m : VMap) : VMap :=
  let m' : VMap := { m with
    mapVer := exportedVer o m
    formatVer := 100
    spawn := projEnt o.multiblend true (spawnForExport o m)
    ents := m.ents.map (projEnt o.multiblend false)
    quickhide := if m.quickhide > 0 then m.quickhide else 0 }
  if o.minimal then
    { m' with snap := true, grid := true, logic := false, spacing := 64, grid3d := false, instVis := none,
              views := none, activeCam := -1, cams := [], cordonOn := false, cordons := [] }
  else
    { m' with activeCam := if m.cams.isEmpty then -1 else m.activeCam
              cordonOn := if m.cordons.isEmpty then false else m.cordonOn }

end C06
