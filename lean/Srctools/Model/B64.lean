/-! Exact IEEE-754 binary64 arithmetic on bit patterns, core Lean only (`Nat`/`Int`/`Rat`), executable.

A finite double is an integer number of *units* `2^-1074` (the spacing of the subnormals): every finite double
is such an integer, so sums, differences and C's `fmod` are exact integer operations, and products / quotients /
decimal literals are fractions `n / d` of units that are rounded once (`roundMag`, round-to-nearest-even with
gradual underflow and overflow to infinity).

  decode / encode    bit pattern  <->  `Val`
  toRat?             exact rational value of a finite double
  rne                Rat -> bit pattern (round to nearest even)
  add sub mul div    `rne ∘ exact`
  fmod               C `fmod` (exact, sign of the dividend)
  pyMod              CPython `float_rem`   (`x % y` on floats)
  norm360            `x % 360.0 % 360.0`
  fmt6               `'%.6f' % x`  (correctly rounded, ties to even on the exact binary value)
  formatFloat        `srctools.math.format_float` as coded (prints `-0` for negative values that round to zero)
  parseDec           `float(str)` for decimal literals

Everything here is compared bit for bit with CPython by `harness/p_c05.py`.
-/

namespace B64

/-- number of units (`2^-1074`) in 1.0 -/
def U : Nat := 2 ^ 1074
/-- `2^1024` in units: the first magnitude that is no longer finite -/
def maxMag : Nat := 2 ^ 2098

inductive Val
  | fin (neg : Bool) (mag : Nat)   -- ±mag·2^-1074   (`fin true 0` is -0.0)
  | inf (neg : Bool)
  | nan
  deriving DecidableEq, Repr, Inhabited

namespace Val
def isFinite : Val → Bool
  | .fin _ _ => true
  | _ => false
def isNan : Val → Bool
  | .nan => true
  | _ => false
def isZero : Val → Bool
  | .fin _ 0 => true
  | _ => false
/-- the sign bit -/
def signBit : Val → Bool
  | .fin s _ => s
  | .inf s => s
  | .nan => false
/-- `x < 0.0` as a float comparison (false for ±0 and nan) -/
def ltZero : Val → Bool
  | .fin s m => s && m != 0
  | .inf s => s
  | .nan => false
/-- signed number of units of a finite value (0 for non-finite) -/
def toInt : Val → Int
  | .fin false m => (m : Int)
  | .fin true m => -(m : Int)
  | _ => 0
def neg : Val → Val
  | .fin s m => .fin (!s) m
  | .inf s => .inf (!s)
  | .nan => .nan
end Val

def zero : Val := .fin false 0
def ofNatVal (n : Nat) : Val := .fin false (n * U)
def c360 : Val := ofNatVal 360

/-! ### bit patterns -/

def decode (b : UInt64) : Val :=
  let n := b.toNat
  let s := n / 2 ^ 63 == 1
  let e := (n / 2 ^ 52) % 2048
  let f := n % 2 ^ 52
  if e == 2047 then (if f == 0 then .inf s else .nan)
  else if e == 0 then .fin s f
  else .fin s ((2 ^ 52 + f) * 2 ^ (e - 1))

/-- bit pattern (without sign) of a representable magnitude below `maxMag` -/
def encodeMag (m : Nat) : Nat :=
  if m < 2 ^ 52 then m
  else
    let k := Nat.log2 m - 52
    (k + 1) * 2 ^ 52 + (m / 2 ^ k - 2 ^ 52)

def signBits (s : Bool) : Nat := if s then 2 ^ 63 else 0

def encode : Val → UInt64
  | .nan => UInt64.ofNat 0x7ff8000000000000
  | .inf s => UInt64.ofNat (signBits s + 0x7ff0000000000000)
  | .fin s m => UInt64.ofNat (signBits s + encodeMag m)

/-! ### rounding -/

/-- nearest integer to `n / d`, ties to even (`d > 0`) -/
def roundHE (n d : Nat) : Nat :=
  let f := n / d
  let r := n % d
  if 2 * r < d then f
  else if d < 2 * r then f + 1
  else if f % 2 == 0 then f else f + 1

/-- quantum exponent of the binade that contains `q` units: spacing of doubles near `q` is `2^(quantExp q)` units -/
def quantExp (q : Nat) : Nat := Nat.log2 q - 52

/-- round the magnitude `n / d` units to the nearest representable magnitude (ties to even); the result may be
`≥ maxMag`, which the caller turns into infinity -/
def roundMag (n d : Nat) : Nat :=
  let k := quantExp (n / d)
  roundHE n (d * 2 ^ k) * 2 ^ k

/-- correctly rounded value of `±n/d` units -/
def rnd (s : Bool) (n d : Nat) : Val :=
  let m := roundMag n d
  if m < maxMag then .fin s m else .inf s

/-! ### arithmetic (`rne ∘ exact`) -/

def ofInt (v : Int) (zeroNeg : Bool) : Val :=
  if v == 0 then .fin zeroNeg 0 else rnd (v < 0) v.natAbs 1

def add : Val → Val → Val
  | .nan, _ => .nan
  | _, .nan => .nan
  | .inf a, .inf b => if a == b then .inf a else .nan
  | .inf a, .fin _ _ => .inf a
  | .fin _ _, .inf b => .inf b
  | .fin s1 m1, .fin s2 m2 => ofInt ((Val.fin s1 m1).toInt + (Val.fin s2 m2).toInt) (s1 && s2)

def sub (a b : Val) : Val := add a b.neg

def mul : Val → Val → Val
  | .nan, _ => .nan
  | _, .nan => .nan
  | .inf a, .inf b => .inf (a != b)
  | .inf a, .fin s m => if m == 0 then .nan else .inf (a != s)
  | .fin s m, .inf b => if m == 0 then .nan else .inf (s != b)
  | .fin s1 m1, .fin s2 m2 => rnd (s1 != s2) (m1 * m2) U

/-- IEEE division (CPython raises ZeroDivisionError for a zero divisor before it gets here: `none`) -/
def div : Val → Val → Option Val
  | .nan, .fin _ 0 => none
  | .inf _, .fin _ 0 => none
  | .fin _ _, .fin _ 0 => none
  | .nan, _ => some .nan
  | _, .nan => some .nan
  | .inf _, .inf _ => some .nan
  | .inf a, .fin s _ => some (.inf (a != s))
  | .fin s _, .inf b => some (.fin (s != b) 0)
  | .fin s1 m1, .fin s2 m2 => some (rnd (s1 != s2) (m1 * U) m2)

/-- C `fmod(x, y)`: exact, sign of `x`. -/
def fmod : Val → Val → Val
  | .nan, _ => .nan
  | _, .nan => .nan
  | .inf _, _ => .nan
  | .fin s m, .inf _ => .fin s m
  | .fin s m, .fin _ m2 => if m2 == 0 then .nan else .fin s (m % m2)

/-- CPython `float_rem` (`x % y`), for `y ≠ 0` (`y = 0` raises ZeroDivisionError in CPython; here it gives nan). -/
def pyMod (x y : Val) : Val :=
  let r := fmod x y
  if r.isZero then .fin y.signBit 0          -- `copysign(0.0, wx)`
  else if y.ltZero != r.ltZero then add r y  -- remainder takes the sign of the divisor
  else r

/-- `x % 360.0 % 360.0` -/
def norm360 (x : Val) : Val := pyMod (pyMod x c360) c360

/-- `x % 360.0` -/
def mod360 (x : Val) : Val := pyMod x c360

/-! ### Rat interface -/

def toRat? : Val → Option Rat
  | .fin s m => some ((if s then -(m : Int) else (m : Int) : Int) / (U : Int) : Rat)
  | _ => none

/-- round a rational to the nearest double (ties to even) -/
def rneVal (q : Rat) : Val :=
  if q.num == 0 then zero else rnd (q.num < 0) (q.num.natAbs * U) q.den

def rne (q : Rat) : UInt64 := encode (rneVal q)

/-! ### decimal text -/

def digitChar (d : Nat) : Char := Char.ofNat (48 + d % 10)

/-- decimal digits of `n`, most significant first (`fuel` ≥ number of digits) -/
def natDigitsAux : Nat → Nat → List Char → List Char
  | 0, _, acc => acc
  | fuel + 1, n, acc =>
    if n < 10 then digitChar n :: acc
    else natDigitsAux fuel (n / 10) (digitChar (n % 10) :: acc)

def natDigits (n : Nat) : List Char := natDigitsAux (Nat.log2 n + 1) n []

/-- six fractional digits of `f < 10^6` -/
def pad6 (f : Nat) : List Char :=
  [digitChar (f / 100000), digitChar (f / 10000), digitChar (f / 1000),
   digitChar (f / 100), digitChar (f / 10), digitChar f]

/-- `'%.6f' % x` -/
def fmt6 : Val → List Char
  | .nan => ['n', 'a', 'n']
  | .inf s => (if s then ['-'] else []) ++ ['i', 'n', 'f']
  | .fin s m =>
    let n := roundHE (m * 1000000) U
    (if s then ['-'] else []) ++ natDigits (n / 1000000) ++ '.' :: pad6 (n % 1000000)

/-- `str.rstrip(c)` for a single character -/
def rstrip (c : Char) (l : List Char) : List Char := (l.reverse.dropWhile (· == c)).reverse

/-- `format_float(x)` as coded (places = 6):
`result = f'{x+0.0:.6f}'; if '.' in result: result = result.rstrip('0').rstrip('.')`.
(Adding 0.0 turns -0.0 into 0.0, but a negative value that rounds to zero still prints as `-0`; the repo's own
test-suite pins that output for vectors.) -/
def formatFloat (x : Val) : List Char :=
  let s := fmt6 (add x zero)
  if s.contains '.' then rstrip '.' (rstrip '0' s) else s

/-- the value is negative and rounds to zero at six places (`-5e-7 ≤ x < 0`): exactly the inputs that
`format_float` prints as `-0`. -/
def negRoundsToZero (x : Val) : Bool :=
  match add x zero with
  | .fin true m => roundHE (m * 1000000) U == 0
  | _ => false

/-! `float(str)` for decimal literals: `[+-] digits [. digits] [e [+-] digits]`, `[+-] . digits …`,
`[+-] inf|infinity|nan` (any case). No surrounding white space, no underscores (`none` = ValueError). -/

def isDigit (c : Char) : Bool := '0' ≤ c && c ≤ '9'

def digitsVal (l : List Char) : Nat := l.foldl (fun a c => a * 10 + (c.toNat - 48)) 0

def lower (c : Char) : Char := if 'A' ≤ c && c ≤ 'Z' then Char.ofNat (c.toNat + 32) else c

/-- value `±(mant · 10^(exp10))` correctly rounded -/
def decimalVal (s : Bool) (mant : Nat) (exp10 : Int) : Val :=
  if mant == 0 then .fin s 0
  else if exp10 ≥ 0 then rnd s (mant * 10 ^ exp10.toNat * U) 1
  else rnd s (mant * U) (10 ^ (-exp10).toNat)

/-- optional sign -/
def splitSign : List Char → Bool × List Char
  | '-' :: r => (true, r)
  | '+' :: r => (false, r)
  | r => (false, r)

/-- the part after the sign -/
def parseBody (s : Bool) (l : List Char) : Option Val :=
  let low := l.map lower
  if low == ['i', 'n', 'f'] || low == ['i', 'n', 'f', 'i', 'n', 'i', 't', 'y'] then some (.inf s)
  else if low == ['n', 'a', 'n'] then some .nan
  else
    let ip := l.takeWhile isDigit
    let r := l.dropWhile isDigit
    let (fp, r) := match r with
      | '.' :: r' => (r'.takeWhile isDigit, r'.dropWhile isDigit)
      | _ => ([], r)
    if ip.isEmpty && fp.isEmpty then none
    else
      let mant := digitsVal (ip ++ fp)
      match r with
      | [] => some (decimalVal s mant (-(fp.length : Int)))
      | e :: r' =>
        if e == 'e' || e == 'E' then
          let (es, ds) := splitSign r'
          if ds.isEmpty || !ds.all isDigit then none
          else
            let ev : Int := digitsVal ds
            some (decimalVal s mant ((if es then -ev else ev) - fp.length))
        else none

def parseDec (l : List Char) : Option Val :=
  parseBody (splitSign l).1 (splitSign l).2

/-- Python `str.isspace` restricted to ASCII -/
def isSpace (c : Char) : Bool :=
  c == ' ' || c == '\t' || c == '\n' || c == '\r' || c.toNat == 11 || c.toNat == 12
    || (28 ≤ c.toNat && c.toNat ≤ 31)

/-- `str.split()` (no argument) on ASCII white space -/
def splitWs (l : List Char) : List (List Char) :=
  let rec go : List Char → List Char → List (List Char) → List (List Char)
    | [], cur, acc => (if cur.isEmpty then acc else cur.reverse :: acc).reverse
    | c :: r, cur, acc =>
      if isSpace c then go r [] (if cur.isEmpty then acc else cur.reverse :: acc)
      else go r (c :: cur) acc
  go l [] []

def stripWs (l : List Char) : List Char :=
  ((l.dropWhile isSpace).reverse.dropWhile isSpace).reverse

/-- `if val and val[0] in '({[<': val = val[1:]` -/
def dropOpen (v : List Char) : List Char :=
  match v with
  | c :: r => if c == '(' || c == '{' || c == '[' || c == '<' then r else v
  | [] => v

/-- `if val and val[-1] in ')}]>': val = val[:-1]` -/
def dropClose (v : List Char) : List Char :=
  match v.reverse with
  | c :: r => if c == ')' || c == '}' || c == ']' || c == '>' then r.reverse else v
  | [] => v

/-- `parse_vec_str(val)` for a `str` argument: `none` means "the defaults are returned". -/
def parseVecStr (l : List Char) : Option (Val × Val × Val) :=
  match splitWs (dropClose (dropOpen (stripWs l))) with
  | [a, b, c] =>
    match parseDec a, parseDec b, parseDec c with
    | some x, some y, some z => some (x, y, z)
    | _, _, _ => none
  | _ => none

/-- `str(vec)` / `str(angle)`: the three components through `format_float`, separated by single spaces -/
def vecStr (x y z : Val) : List Char := formatFloat x ++ ' ' :: (formatFloat y ++ ' ' :: formatFloat z)

end B64
