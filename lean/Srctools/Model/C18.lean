import Srctools.Model.Path
/-!
# C18 — model of `RawFileSystem` (constrained directory filesystem) and of chains over it

As coded in `/repo/src/srctools/filesys.py`: `RawFileSystem.__init__`, `_resolve_path`,
`_file_exists`, `_get_file`, `open_bin/open_str`, `walk_folder`; `FileSystemChain._get_file`,
`open_*`, `walk_folder_repeat`, `walk_folder`; and `packlist.unify_path`.

The directory tree is a list of regular files, each given by its absolute component list and an
identity (`id`); there are no symlinks (outside the property's quantifier).  The containment test
is a parameter (`ContainKind`) whose current value is extracted from the source by
`tools/gen_fsys.py` (`Gen/Fsys.lean`).  Core Lean only.
-/
namespace C18
open Path

/-- Shape of the containment test in `_resolve_path`.
* `stringPrefix`: `abs_path.startswith(self.path)`
* `sepTerminated`: `abs_path == self.path or abs_path.startswith(os.path.join(self.path, ''))` -/
inductive ContainKind
  | stringPrefix | sepTerminated
deriving DecidableEq, Repr

def inside : ContainKind → Str → Str → Bool
  | .stringPrefix, root, q => root.isPrefixOf q
  | .sepTerminated, root, q => q == root || (join2 root []).isPrefixOf q

inductive Err
  | escape      -- RootEscapeError
  | notFound    -- FileNotFoundError (also: is a directory / not a directory on open)
deriving DecidableEq, Repr

instance {α} [DecidableEq α] : DecidableEq (Except Err α) := fun a b =>
  match a, b with
  | .ok x, .ok y => if h : x = y then isTrue (by rw [h]) else isFalse (by intro h'; cases h'; exact h rfl)
  | .error x, .error y => if h : x = y then isTrue (by rw [h]) else isFalse (by intro h'; cases h'; exact h rfl)
  | .ok _, .error _ => isFalse (by intro h; cases h)
  | .error _, .ok _ => isFalse (by intro h; cases h)

/-- What the translator reads off `_resolve_path`: the containment test, and whether the name's
backslashes are replaced by slashes before it is joined to the root. -/
structure Cfg where
  contain : ContainKind
  foldSlash : Bool
  /-- `FileSystemChain.walk_folder_repeat` replaces the prefix's backslashes before `relpath`. -/
  chainRelSlash : Bool := false
deriving DecidableEq, Repr

structure RawFS where
  root : Str
  constrain : Bool
deriving Repr

/-- `RawFileSystem(path, constrain_path)`: `self.path = os.path.abspath(path)`. -/
def mkRaw (cwd path : Str) (constrain : Bool) : RawFS := ⟨abspath cwd path, constrain⟩

/-- `RawFileSystem._resolve_path`. -/
def resolve (k : Cfg) (cwd : Str) (fs : RawFS) (p : Str) : Except Err Str :=
  let q := abspath cwd (join2 fs.root (if k.foldSlash then replaceBS p else p))
  if fs.constrain && !inside k.contain fs.root q then .error .escape else .ok q

/-- A regular file of the real tree. -/
structure Ent where
  comps : List Str
  id : Nat
deriving Repr

abbrev Tree := List Ent

/-- The regular file a normalised absolute path names (lexical walk, no symlinks). -/
def fileAt (t : Tree) (q : Str) : Option Ent := t.find? fun e => e.comps == comps q

/-- `name in fs` (`_file_exists`). -/
def existsIn (k : Cfg) (cwd : Str) (fs : RawFS) (t : Tree) (p : Str) : Except Err Bool := do
  let q ← resolve k cwd fs p
  pure (fileAt t q).isSome

/-- `fs[name]` (`_get_file`): the `File`'s path/data, i.e. the name with backslashes replaced. -/
def getFile (k : Cfg) (cwd : Str) (fs : RawFS) (t : Tree) (p : Str) : Except Err Str := do
  let q ← resolve k cwd fs p
  if (fileAt t q).isSome then pure (replaceBS p) else throw .notFound

/-- `fs.open_bin(name)` / `fs.open_str(name)` with a string (or with a `File`'s data): which file is read. -/
def openName (k : Cfg) (cwd : Str) (fs : RawFS) (t : Tree) (p : Str) : Except Err Ent := do
  let q ← resolve k cwd fs p
  match fileAt t q with
  | some e => pure e
  | none => throw .notFound

/-- `fs[name].open_bin()`. -/
def getOpen (k : Cfg) (cwd : Str) (fs : RawFS) (t : Tree) (p : Str) : Except Err Ent := do
  let d ← getFile k cwd fs t p
  openName k cwd fs t d

def absOf (cs : List Str) : Str := '/' :: joinWith '/' cs

/-- `fs.walk_folder(folder)`: (File.path, the file) for every regular file below the folder
(`os.walk` of something that is not a directory yields nothing). Order is the tree's order; the
harness sorts. -/
def walk (k : Cfg) (cwd : Str) (fs : RawFS) (t : Tree) (folder : Str) : Except Err (List (Str × Ent)) := do
  let q ← resolve k cwd fs folder
  let qc := comps q
  pure ((t.filter fun e => qc.isPrefixOf e.comps && qc.length < e.comps.length).map fun e =>
    (replaceBS ((relpath cwd (absOf e.comps) fs.root).getD []), e))

/-! ## chains of directory filesystems -/

structure Member where
  fs : RawFS
  pfx : Str
deriving Repr

/-- `FileSystemChain._get_file`: (member, chain File.path = full name, inner File data). -/
def chainGet (k : Cfg) (cwd : Str) (t : Tree) (name : Str) : List Member → Except Err (Member × Str × Str)
  | [] => throw .notFound
  | m :: ms =>
    let full := replaceBS (join2 m.pfx name)
    match getFile k cwd m.fs t full with
    | .ok inner => pure (m, full, inner)
    | .error .notFound => chainGet k cwd t name ms
    | .error .escape => throw .escape

/-- `chain[name].open_bin()` / `chain.open_bin(name)`. -/
def chainOpen (k : Cfg) (cwd : Str) (t : Tree) (ms : List Member) (name : Str) : Except Err Ent := do
  let (m, _, inner) ← chainGet k cwd t name ms
  openName k cwd m.fs t inner

/-- `chain.walk_folder_repeat(folder)`: (chain File.path, file read when it is opened). -/
def chainWalkRepeat (k : Cfg) (cwd : Str) (t : Tree) (folder : Str) : List Member → Except Err (List (Str × Except Err Ent))
  | [] => pure []
  | m :: ms => do
    let fullFolder := replaceBS (join2 m.pfx folder)
    let fl ← walk k cwd m.fs t fullFolder
    let here := fl.map fun (p, _) =>
      (replaceBS ((relpath cwd p (if k.chainRelSlash then replaceBS m.pfx else m.pfx)).getD []), openName k cwd m.fs t p)
    let rest ← chainWalkRepeat k cwd t folder ms
    pure (here ++ rest)

/-- De-duplication of `FileSystemChain.walk_folder`: first occurrence of each case-folded path. -/
def dedupFold (fold : Char → List Char) : List Str → List (Str × α) → List (Str × α)
  | _, [] => []
  | seen, (p, a) :: r =>
    let f := foldStr fold p
    if seen.contains f then dedupFold fold seen r else (p, a) :: dedupFold fold (f :: seen) r

def chainWalk (k : Cfg) (fold : Char → List Char) (cwd : Str) (t : Tree) (folder : Str)
    (ms : List Member) : Except Err (List (Str × Except Err Ent)) := do
  let l ← chainWalkRepeat k cwd t folder ms
  pure (dedupFold fold [] l)

/-! ## `packlist.unify_path` -/

/-- `unify_path`: `normpath(path).casefold().replace('\\','/')`, reject when `'../'` occurs,
strip leading slashes. -/
def unifyPath (fold : Char → List Char) (p : Str) : Option Str :=
  let q := replaceBS (foldStr fold (normpath p))
  if hasInfix ['.', '.', '/'] q then none else some (q.dropWhile (· == '/'))

end C18
