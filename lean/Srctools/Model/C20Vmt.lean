import Srctools.Model.C20
import Srctools.Model.C01
/-!
# C20 — VMT block structure: `Material.export` and `Material.parse`, as coded

* `exportVmt`: the text `Material.export` writes (after the fixes): shader, parameters through
  `_quote_if_required` (`C20.vmtQuote`), sub-blocks and proxies through `_export_block` (always
  quoted, never escaped).
* `toksVmt`: the token stream (kind, value) that text denotes.
* `parseVmt`: `Material.parse` / `_parse_block` as a machine over the token stream of the shared
  tokenizer model (`Tok.run` with `C20.vmtOpts`): shader search, `expect(BRACE_OPEN)`, the
  parameter loop (name-only parameters, `[flag]` lines, `Proxies` block extending the proxy
  list, other blocks appended, `mat[name] = value` on a case-folded dict), `expect(EOF)`.
  `none` = any exception; reaching the end of the tokens of a run that ended in a tokenizer error
  raises that error (tokens are pulled lazily).
Core only (linked into `drv_c20`).
-/
namespace C20.Vmt
open C01 (KV)

structure Vmt where
  shader : List Char
  params : List (List Char × List Char)
  blocks : List KV
  proxies : List KV
deriving Repr

/-! ## export -/

def tab : List Char := ['\t']

def rawq (s : List Char) : List Char := '"' :: (s ++ ['"'])

mutual
/-- `_export_block(f, block, indent)`. -/
def expBlock (ind : List Char) : KV → List Char
  | KV.leaf n v => ind ++ (rawq n ++ ' ' :: (rawq v ++ ['\n']))
  | KV.block n cs =>
    ind ++ (rawq n ++ '\n' :: (ind ++ '\t' :: '{' :: '\n' ::
      (expBlocks (ind ++ tab) cs ++ (ind ++ ['\t', '}', '\n']))))
def expBlocks (ind : List Char) : List KV → List Char
  | [] => []
  | t :: ts => expBlock ind t ++ expBlocks ind ts
end

def kProxies : List Char := ['P', 'r', 'o', 'x', 'i', 'e', 's']
def kProxiesFolded : List Char := ['p', 'r', 'o', 'x', 'i', 'e', 's']
def kProxy : List Char := ['P', 'r', 'o', 'x', 'y']

def expParams (T : Tok.Tables) (lead : List Char) : List (List Char × List Char) → List Char
  | [] => []
  | (n, v) :: ps => '\t' :: (vmtQuote T lead n ++ ' ' :: (vmtQuote T lead v ++ '\n' :: expParams T lead ps))

/-- `Material.export(f)`. -/
def exportVmt (T : Tok.Tables) (lead : List Char) (m : Vmt) : List Char :=
  vmtQuote T lead m.shader ++ ('\n' :: '\t' :: '{' :: '\n' ::
    (expParams T lead m.params ++ (expBlocks tab m.blocks ++
      ((if m.proxies.isEmpty then []
        else '\n' :: '\t' :: (kProxies ++ '\n' :: '\t' :: '\t' :: '{' :: '\n' ::
          (expBlocks (tab ++ tab) m.proxies ++ ['\t', '\t', '}', '\n']))) ++ ['\t', '}', '\n']))))

/-! ## the tokens the text denotes -/

abbrev Tk := Nat × List Char

def kEof : Nat := 0
def kStr : Nat := 1
def kNl : Nat := 2
def kOpen : Nat := 6
def kClose : Nat := 7
def kFlag : Nat := 11

def tNl : Tk := (kNl, ['\n'])
def tOpen : Tk := (kOpen, ['{'])
def tClose : Tk := (kClose, ['}'])

mutual
def toksBlock : KV → List Tk
  | KV.leaf n v => [(kStr, n), (kStr, v), tNl]
  | KV.block n cs => (kStr, n) :: tNl :: tOpen :: tNl :: (toksBlocks cs ++ [tClose, tNl])
def toksBlocks : List KV → List Tk
  | [] => []
  | t :: ts => toksBlock t ++ toksBlocks ts
end

def toksParams : List (List Char × List Char) → List Tk
  | [] => []
  | (n, v) :: ps => (kStr, n) :: (kStr, v) :: tNl :: toksParams ps

def toksVmt (m : Vmt) : List Tk :=
  (kStr, m.shader) :: tNl :: tOpen :: tNl :: (toksParams m.params ++ (toksBlocks m.blocks ++
    ((if m.proxies.isEmpty then []
      else tNl :: (kStr, kProxies) :: tNl :: tOpen :: tNl :: (toksBlocks m.proxies ++ [tClose, tNl])) ++
     [tClose, tNl, (kEof, [])])))

/-! ## parse -/

/-- the token source: what is left, and whether the tokenizer run ended without an error
(then EOF is returned for ever; otherwise pulling past the end raises). -/
structure TS where
  toks : List Tk
  ok : Bool
deriving Repr

def TS.next (s : TS) : Option (Tk × TS) :=
  match s.toks with
  | t :: ts => some (t, { s with toks := ts })
  | [] => if s.ok then some ((kEof, []), s) else none

/-- `while token is NEWLINE: token = tok()`. -/
def skipNl : Nat → Tk → TS → Option (Tk × TS)
  | 0, _, _ => none
  | f + 1, t, s => if t.1 = kNl then (s.next).bind fun p => skipNl f p.1 p.2 else some (t, s)

/-- `Material._parse_block(tok, name)`; `acc` = the children so far. -/
def parseBlock : Nat → List Char → List KV → TS → Option (KV × TS)
  | 0, _, _, _ => none
  | f + 1, name, acc, s =>
    (s.next).bind fun p =>
    let t := p.1
    let s := p.2
    if t.1 = kClose then some (KV.block name acc, s)
    else if t.1 = kEof then none
    else if t.1 = kNl then parseBlock f name acc s
    else if t.1 ≠ kStr then none
    else
      (s.next).bind fun p2 =>
      let t2 := p2.1
      let s := p2.2
      if t2.1 = kStr then parseBlock f name (acc ++ [KV.leaf t.2 t2.2]) s
      else if t2.1 = kNl ∨ t2.1 = kOpen then
        (skipNl f t2 s).bind fun p3 =>
        if p3.1.1 = kOpen then
          (parseBlock f t.2 [] p3.2).bind fun pb => parseBlock f name (acc ++ [pb.1]) pb.2
        else none
      else none

def foldStr (fold : Char → List Char) (s : List Char) : List Char := s.flatMap fold

/-- `mat[name] = value`: a dict keyed by the case-folded name, keeping the first spelling. -/
def setParam (fold : Char → List Char) (ps : List (List Char × List Char)) (n v : List Char) :
    List (List Char × List Char) :=
  if ps.any (fun p => foldStr fold p.1 == foldStr fold n) then
    ps.map fun p => if foldStr fold p.1 == foldStr fold n then (p.1, v) else p
  else ps ++ [(n, v)]

/-- `tok.expect(Tok.EOF)` (newlines skipped). -/
def expectEof (f : Nat) (s : TS) : Option Unit :=
  (s.next).bind fun p => (skipNl f p.1 p.2).bind fun q => if q.1.1 = kEof then some () else none

/-- the parameter loop of `Material.parse`. -/
def paramLoop (fold : Char → List Char) : Nat → Vmt → TS → Option Vmt
  | 0, _, _ => none
  | f + 1, m, s =>
    (s.next).bind fun p =>
    let t := p.1
    let s := p.2
    if t.1 = kEof then (expectEof f s).map fun _ => m
    else if t.1 = kNl then paramLoop fold f m s
    else if t.1 = kClose then (expectEof f s).map fun _ => m
    else if t.1 = kFlag then
      (s.next).bind fun q => if q.1.1 = kNl then paramLoop fold f m q.2 else none
    else if t.1 ≠ kStr then none
    else
      (s.next).bind fun p2 =>
      let t2 := p2.1
      let s := p2.2
      if t2.1 = kStr then paramLoop fold f { m with params := setParam fold m.params t.2 t2.2 } s
      else if t2.1 = kNl ∨ t2.1 = kOpen then
        (skipNl f t2 s).bind fun p3 =>
        if p3.1.1 = kOpen then
          if foldStr fold t.2 == kProxiesFolded then
            (parseBlock f kProxy [] p3.2).bind fun pb =>
              match pb.1 with
              | KV.block _ cs => paramLoop fold f { m with proxies := m.proxies ++ cs } pb.2
              | KV.leaf .. => none
          else
            (parseBlock f t.2 [] p3.2).bind fun pb =>
              paramLoop fold f { m with blocks := m.blocks ++ [pb.1] } pb.2
        else if p3.1.1 = kClose then
          (expectEof f p3.2).map fun _ => { m with params := setParam fold m.params t.2 [] }
        else none
      else none

/-- `Material.parse(data)` on the token stream. -/
def parseVmt (fold : Char → List Char) (toks : List Tk) (ok : Bool) : Option Vmt :=
  let f := toks.length + 2
  -- the shader: skip newlines, a non-empty string
  (TS.next { toks, ok }).bind fun p =>
  (skipNl f p.1 p.2).bind fun q =>
  if q.1.1 ≠ kStr ∨ q.1.2 = [] then none else
  -- tok.expect(BRACE_OPEN)
  (q.2.next).bind fun p2 =>
  (skipNl f p2.1 p2.2).bind fun q2 =>
  if q2.1.1 ≠ kOpen then none else
  paramLoop fold f { shader := q.1.2, params := [], blocks := [], proxies := [] } q2.2

/-- from the observable run of the tokenizer model -/
def parseVmtRun (fold : Char → List Char) (r : Tok.Run) : Option Vmt :=
  parseVmt fold (r.toks.map fun o => (o.kind, o.value)) r.err.isNone

/-- `Material.parse(text)`. -/
def parseVmtText (T : Tok.Tables) (fold : Char → List Char) (text : List Char) : Option Vmt :=
  parseVmtRun fold (Tok.run T vmtOpts fold text)

end C20.Vmt
