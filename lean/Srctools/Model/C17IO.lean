import Srctools.Model.C17
/-!
# C17 — instance inputs/outputs through `func_instance_io_proxy`, and `func_instance_parms`
(model on the output-record level; core only)

As coded in `instancing.py` (after the fixes `C17-proxy-*`):
* `Out.combine`        = `Output.combine`
* `parseIO`            = the proxy part of `InstanceFile.parse`: proxies are removed; their
  `OnProxyRelay` outputs become `proxy_inputs[(target, input) casefolded]`; outputs of other
  entities with input `ProxyRelay` aimed at a proxy are taken off the entity and become
  `proxy_outputs[(entity name, output) casefolded]`
* `reroute`            = the "apply instance inputs" loop of `collapse_one` over the outputs of the
  entities already in the map (`instance:name;Input` forms)
* `collapseOuts`       = renaming of the targets of the copied entities' outputs
* `instOutputs`        = the `for out in inst.outputs` loop (`instance:name;Output` forms)
* `parseParam`         = one `paramNN` value of `func_instance_parms`

Names are compared after `casefold()`; the model folds character-wise with the `CharFold` table
(`foldStr`), ASCII lower-casing by default.
-/
namespace C17
variable [CharFold]

/-- `vmf.Output` -/
structure Out where
  output : List Char
  target : List Char
  input : List Char
  params : List Char
  delay : Rat
  times : Int
  instOut : Option (List Char)
  instIn : Option (List Char)
  commaSep : Bool
  deriving Repr, BEq, DecidableEq

def foldStr (s : List Char) : List Char := s.map CharFold.lw

/-- `Output.combine(first, second)`; `times < 0` means "unlimited". -/
def combineTimes (a b : Int) : Int := if b < 0 then a else if a < 0 then b else min a b

def Out.combine (first second : Out) : Out :=
  { output := first.output, target := second.target, input := second.input,
    params := if second.params.isEmpty then first.params else second.params,
    delay := first.delay + second.delay,
    times := combineTimes first.times second.times,
    instOut := first.instOut, instIn := second.instIn,
    commaSep := first.commaSep && second.commaSep }

/-- An entity of the instance file as far as I/O is concerned. -/
structure IOEnt where
  isProxy : Bool
  name : List Char
  outs : List Out
  deriving Repr, BEq, DecidableEq

abbrev Key2 := List Char × List Char

/-- A Python dict built by successive assignments: the last assignment to a key wins. -/
def lookupLast {β : Type} (d : List (Key2 × β)) (k : Key2) : Option β :=
  (d.reverse.find? (fun p => p.1 == k)).map (·.2)

structure IOFile where
  proxyInputs : List (Key2 × Out)
  /-- value: index of the entity (among the non-proxy entities) and the output record -/
  proxyOutputs : List (Key2 × (Nat × Out))
  ents : List IOEnt
  deriving Repr, BEq, DecidableEq

def isOnProxyRelay (o : Out) : Bool := foldStr o.output == "onproxyrelay".toList

def toProxy (proxyNames : List (List Char)) (o : Out) : Bool :=
  foldStr o.input == "proxyrelay".toList && proxyNames.contains (foldStr o.target)

/-- The proxy part of `InstanceFile.parse`. -/
def parseIO (ents : List IOEnt) : IOFile :=
  let proxies := ents.filter (·.isProxy)
  let others := ents.filter (fun e => !e.isProxy)
  let names := proxies.map (fun p => foldStr p.name)
  let pin := proxies.flatMap fun p =>
    (p.outs.filter isOnProxyRelay).map fun o =>
      ((foldStr o.target, foldStr o.input), { o with output := [] })
  let pout := (others.zipIdx).flatMap fun (e, i) =>
    (e.outs.filter (toProxy names)).map fun o =>
      ((foldStr e.name, foldStr o.output), (i, { o with input := [], target := [] }))
  { proxyInputs := pin, proxyOutputs := pout,
    ents := others.map fun e => { e with outs := e.outs.filter (fun o => !toProxy names o) } }

/-- The instance as far as I/O is concerned. -/
structure IOInst where
  name : List Char
  style : Style
  fixup : FixTable
  /-- outputs of the `func_instance` entity itself -/
  outs : List Out

def IOInst.rename (I : IOInst) (s : List Char) : List Char :=
  fixupName I.style I.name (substitute I.fixup [] s)

/-- One output of an entity already in the map (`collapse_one`, "apply instance inputs"). -/
def reroute (I : IOInst) (F : IOFile) (o : Out) : Out :=
  match o.instIn with
  | none => o
  | some localName =>
    if foldStr o.target != foldStr I.name then o
    else match lookupLast F.proxyInputs (foldStr localName, foldStr o.input) with
      | none => o
      | some p =>
        { o with target := I.rename p.target, input := p.input, instIn := none,
                 params := if p.params.isEmpty then o.params else p.params,
                 times := combineTimes o.times p.times,
                 delay := o.delay + p.delay,
                 commaSep := o.commaSep && p.commaSep }

/-- Outputs of a copied entity: only the target is rewritten. -/
def collapseOuts (I : IOInst) (outs : List Out) : List Out :=
  outs.map fun o => { o with target := I.rename o.target }

/-- `for out in inst.outputs`: the connections leaving the instance, as (entity index, output). -/
def instOutputs (I : IOInst) (F : IOFile) : List (Nat × Out) :=
  I.outs.filterMap fun o =>
    match o.instOut with
    | none => none
    | some n =>
      match lookupLast F.proxyOutputs (foldStr n, foldStr o.output) with
      | none => none
      | some (i, p) => some (i, Out.combine p o)

/-- What the collapse produces for entity number `i` of the parsed file: new name, outputs. -/
def collapseIOEnt (I : IOInst) (F : IOFile) (i : Nat) (e : IOEnt) : List Char × List Out :=
  (I.rename e.name,
   collapseOuts I e.outs ++ ((instOutputs I F).filter (fun p => p.1 == i)).map (·.2))

structure IOResult where
  outer : List Out
  ents : List (List Char × List Out)
  deriving Repr, BEq, DecidableEq

def collapseIO (I : IOInst) (ents : List IOEnt) (outer : List Out) : IOResult :=
  let F := parseIO ents
  { outer := outer.map (reroute I F),
    ents := (F.ents.zipIdx).map fun (e, i) => collapseIOEnt I F i e }

/-! ## automatic names of unnamed instances (`collapse_all`)

`if not inst.name: auto_inst_count += 1; inst.name = f'InstanceAuto{auto_inst_count}'` — the counter
runs over the whole call, in the order the instances are processed. -/

def autoName (n : Nat) : List Char := "InstanceAuto".toList ++ Nat.toDigits 10 n

/-- Effective instance names for the instances processed in this order, `c` unnamed ones seen before. -/
def assignAuto : Nat → List (List Char) → List (List Char)
  | _, [] => []
  | c, nm :: rest =>
    if nm.isEmpty then autoName (c + 1) :: assignAuto (c + 1) rest else nm :: assignAuto c rest

/-- The name an entity `ent` of the file gets from the `i`-th processed instance. -/
def autoFixup (st : Style) (names : List (List Char)) (i : Nat) (ent : List Char) : List Char :=
  fixupName st ((assignAuto 0 names).getD i []) ent

/-! ## `func_instance_parms` -/

/-- Text before the first space, and the text after it if there is a space. -/
def breakSpace : List Char → List Char × Option (List Char)
  | [] => ([], none)
  | c :: cs => if c = ' ' then ([], some cs) else ((c :: (breakSpace cs).1), (breakSpace cs).2)

/-- `str.split(' ', maxsplit)` -/
def splitSpaces : Nat → List Char → List (List Char)
  | 0, s => [s]
  | n + 1, s =>
    match breakSpace s with
    | (a, none) => [a]
    | (a, some rest) => a :: splitSpaces n rest

/-- One declared parameter: name, the type token if there is one, default.
`parts = value.split(' ', 2)`; the default is everything after the second space (it may contain
spaces); which type tokens are valid `ValueTypes` is decided by the FGD module. -/
structure ParamDecl where
  name : List Char
  typeTok : Option (List Char)
  dflt : List Char
  deriving Repr, BEq, DecidableEq

def parseParam (maxsplit : Nat) (value : List Char) : ParamDecl :=
  let parts := splitSpaces maxsplit value
  { name := parts.headD [],
    typeTok := parts[1]?,
    dflt := if parts.length == 3 then parts.getD 2 [] else [] }

end C17
