import Srctools.Model.TokC
/-!
# `BaseTokenizer`'s push-back layer

`__call__`, `push_back`, `peek` as a small state machine over an arbitrary token source `get`
(for `Tokenizer`: `_get_token`, i.e. `TokC.nextToken`).  `_pushback` is a Python list used as a
stack (append / pop at the end); here the top of the stack is the head of the list.
A fresh tokenizer has an empty stack and `line_num = 1` (`BaseTokenizer.__init__`, per instance —
tied to the source by `Gen/C03.lean`).  Core only: linked into `drv_c03`.
-/
namespace TokC
open Tok

/-- A tokenizer seen through `BaseTokenizer`: the push-back stack and the state of the source. -/
structure PB (σ τ : Type) where
  stack : List τ
  src : σ

namespace PB
variable {σ τ ε : Type}

/-- `BaseTokenizer.__init__`: `self._pushback = []`. -/
def fresh (s : σ) : PB σ τ := { stack := [], src := s }

/-- `__call__`: `if self._pushback: return self._pushback.pop()`, else `self._get_token()`. -/
def call (get : σ → Except ε (τ × σ)) (p : PB σ τ) : Except ε (τ × PB σ τ) :=
  match p.stack with
  | t :: r => .ok (t, { p with stack := r })
  | [] =>
    match get p.src with
    | .ok (t, s') => .ok (t, { p with src := s' })
    | .error e => .error e

/-- `push_back`: `self._pushback.append((tok, value))`. -/
def pushBack (t : τ) (p : PB σ τ) : PB σ τ := { p with stack := t :: p.stack }

/-- `peek`: `tok_and_val = self(); self._pushback.append(tok_and_val); return tok_and_val`. -/
def peek (get : σ → Except ε (τ × σ)) (p : PB σ τ) : Except ε (τ × PB σ τ) :=
  match p.call get with
  | .ok (t, p') => .ok (t, p'.pushBack t)
  | .error e => .error e

end PB

/-- `Tokenizer._get_token` as a token source: kind and value, or the error with its line. -/
def tokGet (T : Tables) (o : Opts) (fold : Char → List Char) (st : CSt) :
    Except (Err × Nat) ((Kind × List Char) × CSt) :=
  match nextToken T o fold (st.src.view.length + 1) st with
  | .tok k v st' => .ok ((k, v), st')
  | .err e l _ => .error (e, l)

/-- Operations of a client on a tokenizer. -/
inductive Op
  | call | peek
  /-- push back the token obtained by the last `call`/`peek` (ignored if there is none) -/
  | push
  /-- `tok.line_num = n` -/
  | setLine (n : Nat)
deriving Repr

/-- One observation: what the operation returned and `line_num` afterwards. -/
inductive OpObs
  | tok (op : Nat) (kind : Nat) (value : List Char) (line : Nat)
  | push | line (n : Nat)
  | err (e : Err) (line : Nat)
deriving Repr

/-- Run a sequence of client operations on a tokenizer state; stops at the first error. -/
def runOps (T : Tables) (o : Opts) (fold : Char → List Char) :
    List Op → PB CSt (Kind × List Char) → Option (Kind × List Char) → List OpObs
  | [], _, _ => []
  | .call :: ops, p, _ =>
    match p.call (tokGet T o fold) with
    | .ok (t, p') => .tok 0 t.1.code t.2 p'.src.line :: runOps T o fold ops p' (some t)
    | .error (e, l) => [.err e l]
  | .peek :: ops, p, _ =>
    match p.peek (tokGet T o fold) with
    | .ok (t, p') => .tok 1 t.1.code t.2 p'.src.line :: runOps T o fold ops p' (some t)
    | .error (e, l) => [.err e l]
  | .push :: ops, p, last =>
    match last with
    | some t => .push :: runOps T o fold ops (p.pushBack t) last
    | none => runOps T o fold ops p last
  | .setLine n :: ops, p, last =>
    .line n :: runOps T o fold ops { p with src := { p.src with line := n } } last

/-- Drain a tokenizer through `__call__` until EOF or error (what a consumer sees). -/
def pbRunAux (T : Tables) (o : Opts) (fold : Char → List Char) :
    Nat → PB CSt (Kind × List Char) → List Obs → Run
  | 0, p, acc => { toks := acc.reverse, err := some (.outOfFuel, p.src.line) }
  | n + 1, p, acc =>
    match p.call (tokGet T o fold) with
    | .error (e, l) => { toks := acc.reverse, err := some (e, l) }
    | .ok (t, p') =>
      let ob : Obs := { kind := t.1.code, value := t.2, line := p'.src.line }
      if t.1 = .eof then { toks := (ob :: acc).reverse, err := none }
      else pbRunAux T o fold n p' (ob :: acc)

/-- The stream of a *fresh* tokenizer object over cursor `s`, consumed through `__call__`. -/
def pbRun (T : Tables) (o : Opts) (fold : Char → List Char) (s : Src) : Run :=
  pbRunAux T o fold (s.view.length + 2) (PB.fresh { src := s }) []

end TokC
