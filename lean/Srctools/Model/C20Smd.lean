import Srctools.Model.B64
/-!
# C20 — SMD: the bone numbering and the vertex line of `Mesh.export` / `Mesh.parse_smd`, as coded

* `numberBones`: the "parents before children" numbering loop of `Mesh.export` (after the fix: the
  work list is an insertion-ordered dict, bones are equal when their names are): repeated passes
  over the remaining bones, each pass emitting — in order — every bone without a parent or whose
  parent already has an index (including one given earlier in the same pass); `none` = the
  "Loop in bone parenting" error.
* `vertexLine` / `parseVertexLine`: one vertex line of the `triangles` section as token lines:
  bone index, position, normal, UV and the optional bone-link list.  Numbers are carried as the
  `%.6f` / `%i` texts (the harness supplies them); the reader's `float()` / `int()` are identity
  on such texts here, `bytes.split()` is `B64.splitWs`.
Core only (linked into `drv_c20`).
-/
namespace C20.Smd

abbrev Str := List Char

/-! ## bone numbering -/

structure Bone where
  name : Str
  parent : Option Str
deriving Repr, DecidableEq

/-- One `for bone in list(todo)` pass: `idx` = names in index order so far; returns the new index
list and the bones still waiting. -/
def pass (idx : List Str) : List Bone → List Str × List Bone
  | [] => (idx, [])
  | b :: bs =>
    if (match b.parent with | none => true | some p => idx.contains p) then pass (idx ++ [b.name]) bs
    else
      let r := pass idx bs
      (r.1, b :: r.2)

/-- `while todo:` … `if not changed: raise ValueError('Loop in bone parenting!')`. -/
def numberLoop : Nat → List Str → List Bone → Option (List Str)
  | _, idx, [] => some idx
  | 0, _, _ :: _ => none
  | f + 1, idx, todo =>
    let r := pass idx todo
    if r.2.length = todo.length then none else numberLoop f r.1 r.2

/-- `dict.fromkeys(self.bones.values())`: first occurrence of each name. -/
def dedup : List Bone → List Bone
  | [] => []
  | b :: bs => b :: (dedup bs).filter (fun c => c.name != b.name)

/-- the index order `Mesh.export` gives the bones (`bone_indexes`), or `none` for a parent loop. -/
def numberBones (bones : List Bone) : Option (List Str) :=
  numberLoop (dedup bones).length [] (dedup bones)

/-! ## vertex lines -/

structure Vertex where
  pos : Str × Str × Str
  norm : Str × Str × Str
  u : Str
  v : Str
  /-- `(bone index, weight text)`; never empty (`assert len(vert.links) > 0`) -/
  links : List (Str × Str)
deriving Repr, DecidableEq

def headBone (vx : Vertex) : Str := (vx.links.headD ([], [])).1

def linksText : List (Str × Str) → List Char
  | [] => []
  | (b, w) :: ls => ' ' :: (b ++ ' ' :: (w ++ linksText ls))

def natText (n : Nat) : Str := (toString n).toList

/-- the `file.write(...)` calls of one vertex (after the separator fix). -/
def vertexLine (vx : Vertex) : List Char :=
  headBone vx ++ '\t' :: (vx.pos.1 ++ ' ' :: (vx.pos.2.1 ++ ' ' :: (vx.pos.2.2 ++ '\t' ::
    (vx.norm.1 ++ ' ' :: (vx.norm.2.1 ++ ' ' :: (vx.norm.2.2 ++ '\t' :: (vx.u ++ ' ' :: (vx.v ++
      ((if vx.links.length > 1 then ' ' :: (natText vx.links.length ++ linksText vx.links) else []) ++
        ['\n'])))))))))

/-- the fields of that line -/
def linkFields : List (Str × Str) → List Str
  | [] => []
  | (b, w) :: ls => b :: w :: linkFields ls

def vertexFields (vx : Vertex) : List Str :=
  [headBone vx, vx.pos.1, vx.pos.2.1, vx.pos.2.2, vx.norm.1, vx.norm.2.1, vx.norm.2.2, vx.u, vx.v] ++
    (if vx.links.length > 1 then natText vx.links.length :: linkFields vx.links else [])

def one : Str := ['1', '.', '0', '0', '0', '0', '0', '0']

/-- `int(text)` for plain decimal digits -/
def parseNat (s : Str) : Option Nat :=
  if s.isEmpty || !s.all Char.isDigit then none
  else some (s.foldl (fun a c => a * 10 + (c.toNat - 48)) 0)

def pairUp : List Str → Option (List (Str × Str))
  | [] => some []
  | [_] => none
  | b :: w :: r => (pairUp r).map ((b, w) :: ·)

/-- the vertex part of `_parse_smd_tri` on the split fields; `known` = is this a bone index of the
file; numbers stay texts. `none` = ParseError. -/
def parseVertexFields (known : Str → Bool) (fs : List Str) : Option Vertex :=
  match fs with
  | b :: x :: y :: z :: nx :: ny :: nz :: u :: v :: raw =>
    if !known b then none else
    match raw with
    | [] => some { pos := (x, y, z), norm := (nx, ny, nz), u, v, links := [(b, one)] }
    | cnt :: rest =>
      match parseNat cnt with
      | none => none
      | some c =>
        if c * 2 + 1 ≠ raw.length then none else
        match pairUp rest with
        | none => none
        | some ls =>
          if !ls.all (fun l => known l.1) then none
          else some { pos := (x, y, z), norm := (nx, ny, nz), u, v, links := if ls.isEmpty then [(b, one)] else ls }
  | _ => none

def parseVertexLine (known : Str → Bool) (line : List Char) : Option Vertex :=
  parseVertexFields known (B64.splitWs line)

/-- what survives: a single link is written as the leading bone index only and read back with
weight 1.0. -/
def normVertex (vx : Vertex) : Vertex :=
  if vx.links.length > 1 then vx else { vx with links := [(headBone vx, one)] }

end C20.Smd
