import Srctools.Model.C05
/-! Matrix / FrozenMatrix objects in the C05 state machine (core only, executable).

The state is the Angle/Vec object list of `Model/C05.lean` plus a list of matrix objects with their nine entries as
numbers of the number system. Operations are as coded in `srctools.math`:

* `_mat_mul` — `row_a = (aa*o.aa + ab*o.ba + ac*o.ca, …)`, all three rows computed before any is assigned, Python's
  left-to-right evaluation (`(x*y + z*w) + u*v`);
* `m @ n` multiplies into a *fresh* copy of `m` (`_fresh_copy`), `m @= n` in place (Matrix only);
* `transpose`, `Matrix(m)` / `FrozenMatrix(m)` / `copy()` / `freeze()` / `thaw()` / unpickling (entry copies into a
  new object), `__setitem__` (Matrix only), `forward/left/up(mag)`, `_vec_rot` (`v @ m`, `v @= m`).

Matrices built by trigonometry (`from_yaw`, `from_angle`, `axis_angle`, `from_basis`, `inverse`) enter as `mctor`
with the entries observed on the implementation (oracle), like the raw `_to_angle` inputs of the Angle machine.
-/

namespace C05

structure Mat9 (α : Type) where
  aa : α
  ab : α
  ac : α
  ba : α
  bb : α
  bc : α
  ca : α
  cb : α
  cc : α
  deriving Repr, Inhabited

structure MObj (α : Type) where
  frozen : Bool
  m : Mat9 α
  deriving Repr, Inhabited

structure MState (α : Type) where
  objs : State α
  mats : List (MObj α)
  deriving Repr, Inhabited

/-- `x*y + z*w + u*v` with Python's evaluation order -/
def dot3 {α} (N : NumSys α) (x y z w u v : α) : α := N.add (N.add (N.mul x y) (N.mul z w)) (N.mul u v)

/-- `MatrixBase._mat_mul`: `self · other` -/
def matMul {α} (N : NumSys α) (s o : Mat9 α) : Mat9 α where
  aa := dot3 N s.aa o.aa s.ab o.ba s.ac o.ca
  ab := dot3 N s.aa o.ab s.ab o.bb s.ac o.cb
  ac := dot3 N s.aa o.ac s.ab o.bc s.ac o.cc
  ba := dot3 N s.ba o.aa s.bb o.ba s.bc o.ca
  bb := dot3 N s.ba o.ab s.bb o.bb s.bc o.cb
  bc := dot3 N s.ba o.ac s.bb o.bc s.bc o.cc
  ca := dot3 N s.ca o.aa s.cb o.ba s.cc o.ca
  cb := dot3 N s.ca o.ab s.cb o.bb s.cc o.cb
  cc := dot3 N s.ca o.ac s.cb o.bc s.cc o.cc

def Mat9.transpose {α} (s : Mat9 α) : Mat9 α :=
  ⟨s.aa, s.ba, s.ca, s.ab, s.bb, s.cb, s.ac, s.bc, s.cc⟩

def Mat9.set {α} (s : Mat9 α) (r c : Nat) (v : α) : Mat9 α :=
  match r, c with
  | 0, 0 => { s with aa := v }
  | 0, 1 => { s with ab := v }
  | 0, 2 => { s with ac := v }
  | 1, 0 => { s with ba := v }
  | 1, 1 => { s with bb := v }
  | 1, 2 => { s with bc := v }
  | 2, 0 => { s with ca := v }
  | 2, 1 => { s with cb := v }
  | _, _ => { s with cc := v }

def Mat9.row {α} (s : Mat9 α) : Nat → α × α × α
  | 0 => (s.aa, s.ab, s.ac)
  | 1 => (s.ba, s.bb, s.bc)
  | _ => (s.ca, s.cb, s.cc)

inductive MOp (α : Type)
  /-- an operation of the Angle/Vec machine -/
  | base (op : Op α)
  /-- a matrix whose entries come from the implementation (identity, trigonometric constructors, `inverse`) -/
  | mctor (frozen : Bool) (m : Mat9 α)
  /-- `Matrix(m)`, `FrozenMatrix(m)` (non-frozen source), `copy()`, `freeze()`, `thaw()`, unpickling -/
  | mcopy (frozen : Bool) (i : Nat)
  | mtranspose (i : Nat)
  /-- `m[r, c] = v` -/
  | mset (i r c : Nat) (v : α)
  /-- `m_i @ m_j` (new object of the kind of `m_i`) or `m_i @= m_j` (in place, Matrix only) -/
  | mmul (i j : Nat) (inplace : Bool)
  /-- `m.forward(mag)` / `left` / `up`: a new Vec -/
  | mrow (i row : Nat) (mag : α)
  /-- `v @ m` (new vector of the kind of `v`) or `v @= m` (in place, Vec only) -/
  | vrot (v i : Nat) (inplace : Bool)
  deriving Repr

/-- what an operation wrote: an Angle/Vec object, a matrix object, or nothing (rejected) -/
inductive Target
  | none
  | obj (i : Nat)
  | mat (i : Nat)
  deriving Repr, DecidableEq, Inhabited

def vecRot {α} (N : NumSys α) (o : Obj α) (m : Mat9 α) : Obj α :=
  ⟨o.kind, dot3 N o.a m.aa o.b m.ba o.c m.ca, dot3 N o.a m.ab o.b m.bb o.c m.cb, dot3 N o.a m.ac o.b m.bc o.c m.cc⟩

def mstep {α} (N : NumSys α) (sites : List AngleSite) (st : MState α) : MOp α → MState α × Target
  | .base op =>
    let r := step N sites st.objs op
    ({ st with objs := r.1 }, match r.2 with | some i => .obj i | none => .none)
  | .mctor frozen m => ({ st with mats := st.mats ++ [⟨frozen, m⟩] }, .mat st.mats.length)
  | .mcopy frozen i =>
    match st.mats[i]? with
    | some o => ({ st with mats := st.mats ++ [⟨frozen, o.m⟩] }, .mat st.mats.length)
    | none => (st, .none)
  | .mtranspose i =>
    match st.mats[i]? with
    | some o => ({ st with mats := st.mats ++ [⟨o.frozen, o.m.transpose⟩] }, .mat st.mats.length)
    | none => (st, .none)
  | .mset i r c v =>
    match st.mats[i]? with
    | some o =>
      if !o.frozen && r < 3 && c < 3 then ({ st with mats := st.mats.set i ⟨false, o.m.set r c v⟩ }, .mat i)
      else (st, .none)
    | none => (st, .none)
  | .mmul i j inplace =>
    match st.mats[i]?, st.mats[j]? with
    | some o, some p =>
      if inplace then
        (if !o.frozen then ({ st with mats := st.mats.set i ⟨false, matMul N o.m p.m⟩ }, .mat i) else (st, .none))
      else ({ st with mats := st.mats ++ [⟨o.frozen, matMul N o.m p.m⟩] }, .mat st.mats.length)
    | _, _ => (st, .none)
  | .mrow i row mag =>
    match st.mats[i]? with
    | some o =>
      let (x, y, z) := o.m.row row
      ({ st with objs := st.objs ++ [⟨.vec, N.mul mag x, N.mul mag y, N.mul mag z⟩] }, .obj st.objs.length)
    | none => (st, .none)
  | .vrot v i inplace =>
    match st.objs[v]?, st.mats[i]? with
    | some o, some p =>
      if o.kind.isAngle then (st, .none)
      else if inplace then
        (if o.kind == .vec then ({ st with objs := st.objs.setObj v (vecRot N o p.m) }, .obj v) else (st, .none))
      else ({ st with objs := st.objs ++ [vecRot N o p.m] }, .obj st.objs.length)
    | _, _ => (st, .none)

def mrun {α} (N : NumSys α) (sites : List AngleSite) (st : MState α) (ops : List (MOp α)) : MState α :=
  ops.foldl (fun s op => (mstep N sites s op).1) st

end C05
