/-!
# StructCodec — CPython `struct.pack` / `struct.unpack` (standard sizes, little-endian)

An executable model of the subset of the `struct` module the binary formats of srctools use:
format codes `b B h H i I l L q Q f d ? ns nx`, byte order prefix `<` (or none = native, which the
users of this file restrict to formats without alignment padding on a little-endian machine, see
`nativeSafe`).

* integers are range-checked exactly as CPython does: a value that does not fit makes `pack`
  **fail** (`Err.range`), it is never truncated;
* an `ns` field **does** truncate a longer byte string and pads a shorter one with NULs, silently,
  exactly as CPython does — so "rejected instead of truncated" needs a guard at the call site;
* floats are carried as their IEEE bit patterns (a Python float that is exactly representable in
  the field's width); the double→float32 rounding of CPython is outside this model;
* a Python `bool` is an `int` (packs into integer fields as 0/1); `?` accepts bools and ints.

Core Lean only (linked into drivers).  Proofs are in `Proofs/StructCodec.lean`.
-/

namespace StructCodec

abbrev Bytes := List UInt8

/-- One field of a format string (repeat counts are expanded by the parser). -/
inductive FieldFmt where
  | i8 | u8 | i16 | u16 | i32 | u32 | i64 | u64
  | f32 | f64
  | bool
  | str (n : Nat)
  | pad (n : Nat)
deriving DecidableEq, Repr

abbrev Fmt := List FieldFmt

/-- Values passed to `pack` / returned by `unpack`. -/
inductive Val where
  | int (v : Int)
  | f32 (bits : UInt32)
  | f64 (bits : UInt64)
  | bool (b : Bool)
  | bytes (b : Bytes)
deriving DecidableEq, Repr

inductive Err where
  | arity   -- wrong number of values
  | type    -- value of the wrong kind for the field
  | range   -- integer does not fit the field
  | size    -- buffer length differs from the format size
deriving DecidableEq, Repr

/-- Width in bytes of an integer field, and whether it is signed. -/
def FieldFmt.intInfo : FieldFmt → Option (Nat × Bool)
  | .i8 => some (1, true) | .u8 => some (1, false)
  | .i16 => some (2, true) | .u16 => some (2, false)
  | .i32 => some (4, true) | .u32 => some (4, false)
  | .i64 => some (8, true) | .u64 => some (8, false)
  | _ => none

def FieldFmt.size : FieldFmt → Nat
  | .i8 | .u8 | .bool => 1
  | .i16 | .u16 => 2
  | .i32 | .u32 | .f32 => 4
  | .i64 | .u64 | .f64 => 8
  | .str n => n
  | .pad n => n

/-- Does the field consume / produce a value? (`x` pad bytes do not.) -/
def FieldFmt.isValue : FieldFmt → Bool
  | .pad _ => false
  | _ => true

def size (fmt : Fmt) : Nat := (fmt.map FieldFmt.size).sum

def arity (fmt : Fmt) : Nat := (fmt.filter FieldFmt.isValue).length

/-- `k` bytes, little-endian, of `n` (the low `8k` bits). -/
def leBytes : Nat → Nat → Bytes
  | 0, _ => []
  | k + 1, n => UInt8.ofNat (n % 256) :: leBytes k (n / 256)

/-- Little-endian value of a byte string. -/
def leNat : Bytes → Nat
  | [] => 0
  | b :: bs => b.toNat + 256 * leNat bs

def zeros (n : Nat) : Bytes := List.replicate n 0

/-- Range of a `k`-byte integer field: `lo ≤ v < hi`. -/
def intLo (k : Nat) (signed : Bool) : Int := if signed then -((2 : Int) ^ (8 * k - 1)) else 0
def intHi (k : Nat) (signed : Bool) : Int := if signed then (2 : Int) ^ (8 * k - 1) else (2 : Int) ^ (8 * k)

def inRange (k : Nat) (signed : Bool) (v : Int) : Bool := decide (intLo k signed ≤ v) && decide (v < intHi k signed)

/- `inRange 4 true ↑n` with a symbolic `n` must never be evaluated by the elaborator's `whnf`
(`Int` comparison with the literal `2^31` unfolds `Nat.sub` two billion times): proofs unfold it
explicitly.  The kernel (`decide +kernel`) and compiled code are not affected. -/
attribute [irreducible] inRange

/-- Pack an integer into `k` bytes with CPython's range check (two's complement when signed). -/
def packInt (k : Nat) (signed : Bool) (v : Int) : Except Err Bytes :=
  if inRange k signed v then .ok (leBytes k (v % (2 : Int) ^ (8 * k)).toNat) else .error .range

def unpackInt (k : Nat) (signed : Bool) (bs : Bytes) : Int :=
  let u : Int := (leNat bs : Nat)
  if signed && decide ((2 : Int) ^ (8 * k - 1) ≤ u) then u - (2 : Int) ^ (8 * k) else u

/-- `ns`: truncate to `n` bytes / pad with NULs — silently, as CPython. -/
def packStr (n : Nat) (b : Bytes) : Bytes := b.take n ++ zeros (n - b.length)

def packField (f : FieldFmt) (v : Val) : Except Err Bytes :=
  match f.intInfo with
  | some (k, s) =>
    match v with
    | .int x => packInt k s x
    | .bool b => packInt k s (if b then 1 else 0)
    | _ => .error .type
  | none =>
    match f, v with
    | .f32, .f32 bits => .ok (leBytes 4 bits.toNat)
    | .f64, .f64 bits => .ok (leBytes 8 bits.toNat)
    | .bool, .bool b => .ok [if b then 1 else 0]
    | .bool, .int x => .ok [if x ≠ 0 then 1 else 0]
    | .str n, .bytes b => .ok (packStr n b)
    | _, _ => .error .type

/-- Decode one value field from exactly `f.size` bytes. -/
def unpackField (f : FieldFmt) (bs : Bytes) : Val :=
  match f.intInfo with
  | some (k, s) => .int (unpackInt k s bs)
  | none =>
    match f with
    | .f32 => .f32 (UInt32.ofNat (leNat bs))
    | .f64 => .f64 (UInt64.ofNat (leNat bs))
    | .bool => .bool (leNat bs != 0)
    | _ => .bytes bs

/-- `struct.pack(fmt, *vs)`. -/
def pack : Fmt → List Val → Except Err Bytes
  | [], vs => match vs with
    | [] => .ok []
    | _ :: _ => .error .arity
  | f :: fs, vs =>
    match f with
    | .pad n =>
      match pack fs vs with
      | .ok r => .ok (zeros n ++ r)
      | .error e => .error e
    | _ =>
      match vs with
      | [] => .error .arity
      | v :: vs' =>
        match packField f v with
        | .error e => .error e
        | .ok b =>
          match pack fs vs' with
          | .ok r => .ok (b ++ r)
          | .error e => .error e

/-- Decode the fields of `fmt` from a buffer (no length check at the end). -/
def unpackAux : Fmt → Bytes → Except Err (List Val)
  | [], _ => .ok []
  | f :: fs, bs =>
    if bs.length < f.size then .error .size
    else
      match unpackAux fs (bs.drop f.size) with
      | .error e => .error e
      | .ok r => .ok (if f.isValue then unpackField f (bs.take f.size) :: r else r)

/-- `struct.unpack(fmt, bs)`: the buffer must have exactly the size of the format. -/
def unpack (fmt : Fmt) (bs : Bytes) : Except Err (List Val) :=
  if bs.length = size fmt then unpackAux fmt bs else .error .size

/-- What `unpack` returns for a packed value: bools for `?`, ints for integer fields (a Python
bool is an int), `ns` fields truncated/padded to exactly `n` bytes. -/
def canonField (f : FieldFmt) (v : Val) : Val :=
  match f.intInfo with
  | some _ => match v with
    | .bool b => .int (if b then 1 else 0)
    | v => v
  | none =>
    match f, v with
    | .bool, .int x => .bool (x != 0)
    | .str n, .bytes b => .bytes (packStr n b)
    | _, v => v

def canon : Fmt → List Val → List Val
  | [], _ => []
  | f :: fs, vs =>
    match f with
    | .pad _ => canon fs vs
    | _ => match vs with
      | [] => []
      | v :: vs' => canonField f v :: canon fs vs'

/-- A value is already in the form `unpack` returns. -/
def canonicalField (f : FieldFmt) (v : Val) : Bool :=
  match f.intInfo with
  | some _ => match v with
    | .int _ => true
    | _ => false
  | none =>
    match f, v with
    | .f32, .f32 _ => true
    | .f64, .f64 _ => true
    | .bool, .bool _ => true
    | .str n, .bytes b => b.length == n
    | _, _ => false

def canonical : Fmt → List Val → Bool
  | [], vs => vs.isEmpty
  | f :: fs, vs =>
    match f with
    | .pad _ => canonical fs vs
    | _ => match vs with
      | [] => false
      | v :: vs' => canonicalField f v && canonical fs vs'

/-- Every integer passed to an integer field lies in the field's range. -/
def intsFit : Fmt → List Val → Bool
  | [], _ => true
  | f :: fs, vs =>
    match f with
    | .pad _ => intsFit fs vs
    | _ => match vs with
      | [] => true
      | v :: vs' =>
        (match f.intInfo, v with
          | some (k, s), .int x => inRange k s x
          | _, _ => true) && intsFit fs vs'

/-- Every byte string passed to an `ns` field has at most `n` bytes. -/
def strsFit : Fmt → List Val → Bool
  | [], _ => true
  | f :: fs, vs =>
    match f with
    | .pad _ => strsFit fs vs
    | _ => match vs with
      | [] => true
      | v :: vs' =>
        (match f, v with
          | .str n, .bytes b => decide (b.length ≤ n)
          | _, _ => true) && strsFit fs vs'

/-! ## Arrays of records (`struct.iter_unpack`, `b''.join(pack(...) for ...)`) -/

def packMany (fmt : Fmt) : List (List Val) → Except Err Bytes
  | [] => .ok []
  | r :: rs =>
    match pack fmt r with
    | .error e => .error e
    | .ok b =>
      match packMany fmt rs with
      | .ok bs => .ok (b ++ bs)
      | .error e => .error e

/-- `iter_unpack`: the buffer must be a whole number of records (fuel = number of records). -/
def unpackManyAux (fmt : Fmt) : Nat → Bytes → Except Err (List (List Val))
  | 0, bs => if bs.isEmpty then .ok [] else .error .size
  | n + 1, bs =>
    if bs.isEmpty then .ok []
    else
      match unpack fmt (bs.take (size fmt)) with
      | .error e => .error e
      | .ok r =>
        match unpackManyAux fmt n (bs.drop (size fmt)) with
        | .error e => .error e
        | .ok rs => .ok (r :: rs)

def unpackMany (fmt : Fmt) (bs : Bytes) : Except Err (List (List Val)) :=
  if size fmt = 0 then .error .size else unpackManyAux fmt (bs.length / size fmt) bs

/-! ## `rstrip(b'\0')` of a padded name (the reader idiom for `128s` name tables) -/

def rstrip0 (b : Bytes) : Bytes := (b.reverse.dropWhile (· == 0)).reverse

/-! ## Format strings -/

def codeOf : Char → Option FieldFmt
  | 'b' => some .i8 | 'B' => some .u8 | 'h' => some .i16 | 'H' => some .u16
  | 'i' => some .i32 | 'I' => some .u32 | 'l' => some .i32 | 'L' => some .u32
  | 'q' => some .i64 | 'Q' => some .u64 | 'f' => some .f32 | 'd' => some .f64
  | '?' => some .bool
  | _ => none

def digitOf (c : Char) : Option Nat :=
  if '0' ≤ c ∧ c ≤ '9' then some (c.toNat - '0'.toNat) else none

/-- Body of a format string: optional decimal count, code; ASCII whitespace between items is
ignored (not between count and code), as in CPython. -/
def parseBody : List Char → Option Nat → Option Fmt
  | [], none => some []
  | [], some _ => none
  | c :: cs, cnt =>
    match digitOf c with
    | some d => parseBody cs (some (cnt.getD 0 * 10 + d))
    | none =>
      if c = ' ' ∨ c = '\t' ∨ c = '\n' then
        (match cnt with
         | none => parseBody cs none
         | some _ => none)
      else if c = 's' then (parseBody cs none).map (FieldFmt.str (cnt.getD 1) :: ·)
      else if c = 'x' then (parseBody cs none).map (FieldFmt.pad (cnt.getD 1) :: ·)
      else
        match codeOf c with
        | some f => (parseBody cs none).map (List.replicate (cnt.getD 1) f ++ ·)
        | none => none

/-- A parsed format string: `native` is true when there is no byte-order prefix. -/
structure Parsed where
  native : Bool
  fmt : Fmt
deriving DecidableEq, Repr

def parseFmt : List Char → Option Parsed
  | '<' :: cs => (parseBody cs none).map (⟨false, ·⟩)
  | cs => (parseBody cs none).map (⟨true, ·⟩)

/-- Drop zero-length pads, merge adjacent pads: two formats with the same normal form have the
same wire layout and the same value fields. -/
def normalize : Fmt → Fmt
  | [] => []
  | .pad n :: fs =>
    match normalize fs with
    | .pad m :: r => .pad (n + m) :: r
    | r => if n = 0 then r else .pad n :: r
  | f :: fs => f :: normalize fs

/-- A prefix-less (native) format is laid out like the `<` one when every field has the same
power-of-two size ≤ 4 (no alignment padding is ever inserted; `i`/`f`/`H` have their standard sizes on
the supported platforms) — and the machine is little-endian (checked by the harness). -/
def nativeSafe (fmt : Fmt) : Bool :=
  match fmt with
  | [] => true
  | f :: fs => (f.size == 1 || f.size == 2 || f.size == 4) && f.isValue && !(match f with | .str _ => true | _ => false)
               && fs.all (fun g => g.size == f.size && g.isValue && !(match g with | .str _ => true | _ => false))

/-- Wire format of a parsed string, if its layout is modelled. -/
def Parsed.wire (p : Parsed) : Option Fmt :=
  if p.native then (if nativeSafe p.fmt then some p.fmt else none) else some p.fmt

end StructCodec
