import Srctools.Model.C05Sites
import Srctools.Model.B64
/-! The Angle / Vec state machine of `srctools.math` (core only, executable).

Objects are numbered in creation order; an operation is one call of the public API. Every write to an angle
slot goes through the *class of the corresponding source site* (`Gen.Angles.sites`: `norm2`, `mod1`, `zero`,
`copyField`, `other`), looked up by function name, slot and occurrence — so the model follows the source as it
is coded (before the repair `_to_angle` is `mod1`, after it `norm2`) without being edited.

Trigonometry is not modelled: operations that go through a matrix (`@`, `to_angle`, `transform`, `from_basis`)
receive the values returned by `math.degrees` (recorded by the harness) as the *raw* inputs of
`MatrixBase._to_angle`; the model applies the site classes to them.

The machine is generic in the number type `α` (`NumSys α`): the driver runs it on `B64.Val`, the invariant
theorem `C05_angle_inv` is proved for every number system satisfying the range law of `norm2`.
-/

namespace C05

structure NumSys (α : Type) where
  zero : α
  norm2 : α → α        -- `x % 360 % 360`
  mod1 : α → α         -- `x % 360`
  mul : α → α → α
  add : α → α → α
  sub : α → α → α

/-- `NumSys` of the exact binary64 model. -/
def b64 : NumSys B64.Val where
  zero := B64.zero
  norm2 := B64.norm360
  mod1 := B64.mod360
  mul := B64.mul
  add := B64.add
  sub := B64.sub

/-- value written by a site of class `c` whose right-hand side expression `e` evaluates to `x`
(`e % 360 % 360`, `e % 360`, `0.0`, a field read, or the bare expression). -/
def applyCls {α} (N : NumSys α) : RhsCls → α → α
  | .norm2, x => N.norm2 x
  | .mod1, x => N.mod1 x
  | .zero, _ => N.zero
  | .copyField, x => x
  | .other, x => x

/-- class of the `nth` write to `slot` inside function `fn` (source order); `.other` when there is none. -/
def siteCls (sites : List AngleSite) (fn : String) (slot nth : Nat) : RhsCls :=
  match (sites.filter fun s => s.fn == fn && s.slot == slot)[nth]? with
  | some s => s.cls
  | none => .other

inductive Kind | ang | fang | vec | fvec
  deriving DecidableEq, Repr, Inhabited

def Kind.isAngle : Kind → Bool
  | .ang | .fang => true
  | _ => false
def Kind.frozen : Kind → Bool
  | .fang | .fvec => true
  | _ => false
def Kind.angle (frozen : Bool) : Kind := if frozen then .fang else .ang
def Kind.vector (frozen : Bool) : Kind := if frozen then .fvec else .vec

structure Obj (α : Type) where
  kind : Kind
  a : α        -- pitch | x
  b : α        -- yaw   | y
  c : α        -- roll  | z
  deriving Repr, Inhabited

def Obj.get {α} (o : Obj α) : Nat → α
  | 0 => o.a
  | 1 => o.b
  | _ => o.c

def Obj.set {α} (o : Obj α) (slot : Nat) (v : α) : Obj α :=
  match slot with
  | 0 => { o with a := v }
  | 1 => { o with b := v }
  | _ => { o with c := v }

inductive Op (α : Type)
  /-- `Angle(a,b,c)` / `FrozenAngle(a,b,c)`: numeric branch (`iter = false`) or iterable branch. Also
  `copy()` of an Angle, `__mul__`, unpickling a FrozenAngle, `from_str`, `Vec.to_angle`. -/
  | ctor (frozen iter : Bool) (a b c : α)
  /-- `Angle(ang_i)` / `FrozenAngle(ang_i)`: the field-copy branch (`FrozenAngle(frozen_i)` returns `frozen_i`
  itself and is no operation of the machine). -/
  | ctorCopy (frozen : Bool) (i : Nat)
  | freeze (i : Nat)
  | thaw (i : Nat)
  /-- `ang.pitch = v` (also unpickling an Angle: `_mk_ang`). -/
  | setProp (i slot : Nat) (v : α)
  /-- `ang[slot] = v` (also `with_axes`). -/
  | setItem (i slot : Nat) (v : α)
  /-- `ang *= v` -/
  | imul (i : Nat) (v : α)
  /-- `type(self)(p*v, y*v, r*v)`: `ang * v`, `v * ang` -/
  | mulNew (i : Nat) (v : α)
  /-- `MatrixBase._to_angle` into object `tgt` (in place: `ang @= …`) or into a new object;
  `raw` = results of `math.degrees` in call order (3: normal branch, 2: gimbal-lock branch). -/
  | toAngle (tgt : Option Nat) (frozen : Bool) (raw : List α)
  /-- leaving `with ang.transform() as m:` -/
  | transform (i : Nat) (raw : List α)
  /-- `Vec(x,y,z)` / `FrozenVec(x,y,z)`; any operation producing a vector from opaque values. -/
  | vctor (frozen : Bool) (x y z : α)
  | vset (i slot : Nat) (v : α)
  /-- `vec *= v` (in place) / `vec * v` -/
  | vscale (i : Nat) (v : α) (inplace : Bool)
  /-- `vec_i ± vec_j`, in place (`+=`) or new (type of the left operand) -/
  | vadd (i j : Nat) (subtract inplace : Bool)
  deriving Repr

abbrev State (α : Type) := List (Obj α)

def State.setObj {α} (st : State α) (i : Nat) (o : Obj α) : State α := st.set i o

/-- write the three `_to_angle` fields (branch 0: yaw, pitch, roll from three raw values; branch 1 (gimbal lock):
yaw, pitch from two raw values, roll from the `zero` site). -/
def toAngleFields {α} (N : NumSys α) (sites : List AngleSite) (raw : List α) : Option (α × α × α) :=
  let f := "MatrixBase._to_angle"
  match raw with
  | [ry, rp, rr] =>
    some (applyCls N (siteCls sites f 0 0) rp, applyCls N (siteCls sites f 1 0) ry, applyCls N (siteCls sites f 2 0) rr)
  | [ry, rp] =>
    some (applyCls N (siteCls sites f 0 1) rp, applyCls N (siteCls sites f 1 1) ry, applyCls N (siteCls sites f 2 1) N.zero)
  | _ => none

def propName : Nat → String
  | 0 => "Angle.pitch"
  | 1 => "Angle.yaw"
  | _ => "Angle.roll"

/-- One API call. Returns the new state and the id of the object that was created or written
(`none`: the call is rejected — wrong kind, frozen target of an in-place operation, bad index). -/
def step {α} (N : NumSys α) (sites : List AngleSite) (st : State α) : Op α → State α × Option Nat
  | .ctor frozen iter a b c =>
    let f := if frozen then "FrozenAngle.__new__" else "Angle.__init__"
    let n := if iter then 2 else 0
    (st ++ [⟨Kind.angle frozen, applyCls N (siteCls sites f 0 n) a, applyCls N (siteCls sites f 1 n) b,
             applyCls N (siteCls sites f 2 n) c⟩], some st.length)
  | .ctorCopy frozen i =>
    match st[i]? with
    | some o =>
      if o.kind.isAngle then
        let f := if frozen then "FrozenAngle.__new__" else "Angle.__init__"
        (st ++ [⟨Kind.angle frozen, applyCls N (siteCls sites f 0 1) o.a, applyCls N (siteCls sites f 1 1) o.b,
                 applyCls N (siteCls sites f 2 1) o.c⟩], some st.length)
      else (st, none)
    | none => (st, none)
  | .freeze i =>
    match st[i]? with
    | some o =>
      if o.kind == .ang then
        let f := "Angle.freeze"
        (st ++ [⟨.fang, applyCls N (siteCls sites f 0 0) o.a, applyCls N (siteCls sites f 1 0) o.b,
                 applyCls N (siteCls sites f 2 0) o.c⟩], some st.length)
      else if o.kind == .vec then (st ++ [⟨.fvec, o.a, o.b, o.c⟩], some st.length)
      else (st, none)
    | none => (st, none)
  | .thaw i =>
    match st[i]? with
    | some o =>
      if o.kind == .fang then
        let f := "FrozenAngle.thaw"
        (st ++ [⟨.ang, applyCls N (siteCls sites f 0 0) o.a, applyCls N (siteCls sites f 1 0) o.b,
                 applyCls N (siteCls sites f 2 0) o.c⟩], some st.length)
      else if o.kind == .fvec then (st ++ [⟨.vec, o.a, o.b, o.c⟩], some st.length)
      else (st, none)
    | none => (st, none)
  | .setProp i slot v =>
    match st[i]? with
    | some o =>
      if o.kind == .ang && slot < 3 then
        (st.setObj i (o.set slot (applyCls N (siteCls sites (propName slot) slot 0) v)), some i)
      else (st, none)
    | none => (st, none)
  | .setItem i slot v =>
    match st[i]? with
    | some o =>
      if o.kind == .ang && slot < 3 then
        (st.setObj i (o.set slot (applyCls N (siteCls sites "Angle.__setitem__" slot 0) v)), some i)
      else (st, none)
    | none => (st, none)
  | .imul i v =>
    match st[i]? with
    | some o =>
      if o.kind == .ang then
        let f := "Angle.__imul__"
        (st.setObj i ⟨.ang, applyCls N (siteCls sites f 0 0) (N.mul o.a v), applyCls N (siteCls sites f 1 0) (N.mul o.b v),
                      applyCls N (siteCls sites f 2 0) (N.mul o.c v)⟩, some i)
      else (st, none)
    | none => (st, none)
  | .mulNew i v =>
    match st[i]? with
    | some o =>
      if o.kind.isAngle then
        let f := if o.kind.frozen then "FrozenAngle.__new__" else "Angle.__init__"
        (st ++ [⟨o.kind, applyCls N (siteCls sites f 0 0) (N.mul o.a v), applyCls N (siteCls sites f 1 0) (N.mul o.b v),
                 applyCls N (siteCls sites f 2 0) (N.mul o.c v)⟩], some st.length)
      else (st, none)
    | none => (st, none)
  | .toAngle tgt frozen raw =>
    match toAngleFields N sites raw with
    | none => (st, none)
    | some (p, y, r) =>
      match tgt with
      | none => (st ++ [⟨Kind.angle frozen, p, y, r⟩], some st.length)
      | some i =>
        match st[i]? with
        | some o => if o.kind == .ang then (st.setObj i ⟨.ang, p, y, r⟩, some i) else (st, none)
        | none => (st, none)
  | .transform i raw =>
    match st[i]?, toAngleFields N sites raw with
    | some o, some (p, y, r) =>
      if o.kind == .ang then
        let f := "Angle.transform"
        (st.setObj i ⟨.ang, applyCls N (siteCls sites f 0 0) p, applyCls N (siteCls sites f 1 0) y,
                      applyCls N (siteCls sites f 2 0) r⟩, some i)
      else (st, none)
    | _, _ => (st, none)
  | .vctor frozen x y z => (st ++ [⟨Kind.vector frozen, x, y, z⟩], some st.length)
  | .vset i slot v =>
    match st[i]? with
    | some o => if o.kind == .vec && slot < 3 then (st.setObj i (o.set slot v), some i) else (st, none)
    | none => (st, none)
  | .vscale i v inplace =>
    match st[i]? with
    | some o =>
      if o.kind.isAngle then (st, none)
      else
        let o' : Obj α := ⟨o.kind, N.mul o.a v, N.mul o.b v, N.mul o.c v⟩
        if inplace then (if o.kind == .vec then (st.setObj i o', some i) else (st, none))
        else (st ++ [o'], some st.length)
    | none => (st, none)
  | .vadd i j subtract inplace =>
    match st[i]?, st[j]? with
    | some o, some p =>
      if o.kind.isAngle || p.kind.isAngle then (st, none)
      else
        let f := if subtract then N.sub else N.add
        let o' : Obj α := ⟨o.kind, f o.a p.a, f o.b p.b, f o.c p.c⟩
        if inplace then (if o.kind == .vec then (st.setObj i o', some i) else (st, none))
        else (st ++ [o'], some st.length)
    | _, _ => (st, none)

def run {α} (N : NumSys α) (sites : List AngleSite) (st : State α) (ops : List (Op α)) : State α :=
  ops.foldl (fun s op => (step N sites s op).1) st

/-! ### which source sites the machine relies on, and in which role -/

/-- (function, occurrence, slots, value is an API input (`true`) or read from an angle object (`false`)) -/
def usedSites : List (String × Nat × List Nat × Bool) := [
  ("Angle.__init__", 0, [0, 1, 2], true), ("Angle.__init__", 1, [0, 1, 2], false), ("Angle.__init__", 2, [0, 1, 2], true),
  ("FrozenAngle.__new__", 0, [0, 1, 2], true), ("FrozenAngle.__new__", 1, [0, 1, 2], false),
  ("FrozenAngle.__new__", 2, [0, 1, 2], true),
  ("Angle.freeze", 0, [0, 1, 2], false), ("FrozenAngle.thaw", 0, [0, 1, 2], false),
  ("Angle.pitch", 0, [0], true), ("Angle.yaw", 0, [1], true), ("Angle.roll", 0, [2], true),
  ("Angle.__setitem__", 0, [0, 1, 2], true), ("Angle.__imul__", 0, [0, 1, 2], true),
  ("MatrixBase._to_angle", 0, [0, 1, 2], true), ("MatrixBase._to_angle", 1, [0, 1, 2], true),
  ("Angle.transform", 0, [0, 1, 2], false)]

/-- a site class is acceptable in a position: inputs must be normalised (or the constant 0); values read from an
angle object may also be copied. -/
def posOK (isInput : Bool) : RhsCls → Bool
  | .norm2 | .zero => true
  | .copyField => !isInput
  | .mod1 | .other => false

/-- every site the machine uses exists in the extracted list with an acceptable class. -/
def modelSitesOK (sites : List AngleSite) : Bool :=
  usedSites.all fun (f, n, slots, inp) => slots.all fun s => posOK inp (siteCls sites f s n)

/-- every extracted site is one the machine knows about (a new write site must be added to the model). -/
def sitesCovered (sites : List AngleSite) : Bool :=
  sites.all fun s =>
    usedSites.any fun (f, n, slots, _) =>
      f == s.fn && slots.contains s.slot &&
      ((sites.filter fun t => t.fn == f && t.slot == s.slot)[n]? == some s)

end C05
