import Srctools.Model.C06
import Srctools.Model.Tok
import Srctools.Gen.Tok
/-!
# C06 — model of the TEXT written by `VMF.export`

`VMF.export` does not go through `Keyvalues.serialise`: every class writes its own lines with
f-strings.  This file transliterates those writers, AS CODED (after the C06 fixes), into a
*layout tree* `TT`:

* every line is `leaf depth name value` or the three lines of a `block depth quoted name kids`
  (`<tabs>name`, `<tabs>{`, children, `<tabs>}`); `depth` is the number of tabs the writer puts
  in front of THAT node (the array blocks of a displacement write their rows at the depth of the
  block itself, `"point_data"` is the one block header written in quotes);
* a field is a list of `Piece`s: text written raw (`{self.id}`, `{vec}`, `{x:g}`, literals) or
  passed through `escape_text(…)` / `escape_text(…, True)` — which fields are escaped is exactly
  what the source does.

`exportText o m` is the rendering of `exportTT o m`; `ttKVList (exportTT o m)` is `exportTree o m`
(proved in Proofs/C06Text.lean) and the driver emits `exportText` for comparison, character for
character, with the text `VMF.export()` returns.

Core imports only (+ the generated tokenizer tables).
-/
namespace C06

inductive Piece where
  | raw (s : Str)                 -- written as is
  | esc (ml : Bool) (s : Str)     -- `escape_text(s, ml)`
deriving Inhabited

abbrev Seg := List Piece

def Piece.text (T : Tok.Tables) : Piece → Str
  | .raw s => s
  | .esc ml s => Tok.escapeText T ml s

/-- the string the field denotes (what a reader gets back) -/
def Piece.val : Piece → Str
  | .raw s => s
  | .esc _ s => s

def segText (T : Tok.Tables) (g : Seg) : Str := g.flatMap (Piece.text T)
def segVal (g : Seg) : Str := g.flatMap Piece.val

/-- one node of the written text, with the indentation depth the writer uses for it -/
inductive TT where
  | leaf (depth : Nat) (name value : Seg)
  | block (depth : Nat) (quoted : Bool) (name : Str) (kids : List TT)
deriving Inhabited

def tabs (n : Nat) : Str := List.replicate n '\t'

mutual
def ttText (T : Tok.Tables) : TT → Str
  | .leaf d n v => tabs d ++ '"' :: (segText T n ++ '"' :: ' ' :: '"' :: (segText T v ++ ['"', '\n']))
  | .block d q n kids =>
    tabs d ++ ((if q then '"' :: (n ++ ['"']) else n) ++ '\n' ::
      (tabs d ++ '{' :: '\n' :: (ttTextList T kids ++ (tabs d ++ ['}', '\n']))))
def ttTextList (T : Tok.Tables) : List TT → Str
  | [] => []
  | t :: ts => ttText T t ++ ttTextList T ts
end

mutual
/-- the keyvalues tree a layout tree denotes -/
def ttKV : TT → KV
  | .leaf _ n v => .leaf (segVal n) (segVal v)
  | .block _ _ n kids => .block n (ttKVList kids)
def ttKVList : List TT → List KV
  | [] => []
  | t :: ts => ttKV t :: ttKVList ts
end

/-! ## line constructors -/

/-- `"name" "value"` with both written raw -/
def tRaw (d : Nat) (name : String) (v : Str) : TT := .leaf d [.raw name.toList] [.raw v]
/-- `"name" "{escape_text(value)}"` -/
def tEsc (d : Nat) (name : String) (v : Str) : TT := .leaf d [.raw name.toList] [.esc false v]
def tInt (d : Nat) (name : String) (i : Int) : TT := tRaw d name (showInt i)
def tBool (d : Nat) (name : String) (b : Bool) : TT := tRaw d name (boolStr b)
def tBlock (d : Nat) (name : String) (kids : List TT) : TT := .block d false name.toList kids

/-! ## the writers -/

mutual
/-- `VisGroup.export(buffer, ind)` -/
def ttVis (d : Nat) : Vis → TT
  | .mk name id color children =>
    .block d false (lit "visgroup")
      (tEsc (d + 1) "name" name :: tInt (d + 1) "visgroupid" id :: tRaw (d + 1) "color" color.str ::
        ttVisList (d + 1) children)
def ttVisList (d : Nat) : List Vis → List TT
  | [] => []
  | v :: vs => ttVis d v :: ttVisList d vs
end

/-- `Strata2DViewport.export` / `Strata3DViewport.export` (hard-wired two tabs) -/
def ttView (title : String) : View → TT
  | .v2 axis u v zoom =>
    tBlock 2 title ([tRaw 3 "3d" ['0']] ++
      (if axis == 0 then [tRaw 3 "position" (wrap '(' ')' (unwords [lit "65536", u, v]))]
       else if axis == 1 then [tRaw 3 "position" (wrap '(' ')' (unwords [u, lit "-65536", v]))]
       else if axis == 2 then [tRaw 3 "position" (wrap '(' ')' (unwords [u, v, lit "65536"]))]
       else []) ++
      [tRaw 3 "zoom" zoom])
  | .v3 pos ang =>
    tBlock 2 title [tRaw 3 "3d" ['1'], tRaw 3 "position" (wrap '(' ')' pos.str), tRaw 3 "angle" (wrap '[' ']' ang.str)]

def ttViews : List String → List View → List TT
  | t :: ts, v :: vs => ttView t v :: ttViews ts vs
  | _, _ => []

/-- `"row<y>" "<numbers>"` lines, written at the depth of their array block -/
def ttRowsFrom (d y : Nat) : List (List Str) → List TT
  | [] => []
  | r :: rs => TT.leaf d [.raw (lit "row"), .raw (showNat y)] [.raw (unwords r)] :: ttRowsFrom d (y + 1) rs

/-- `_export_disp_rowset` -/
def ttRowset (d : Nat) (name : String) (size : Nat) (verts : List DVert) (toks : DVert → List Str) : TT :=
  tBlock d name (ttRowsFrom d 0 ((rowsOf size size verts).map fun r => r.flatMap toks))

/-- `Side._export_displacement(buffer, ind, disp_multiblend)` with `ind` = `d` tabs -/
def ttDisp (d : Nat) (multiblend : Bool) (dp : Disp) : TT :=
  let size := dispSize dp.power
  tBlock (d + 1) "dispinfo" ([
    tInt (d + 2) "power" dp.power,
    tRaw (d + 2) "startposition" (wrap '[' ']' dp.pos.str),
    tInt (d + 2) "flags" (collToFlag dp.coll),
    tRaw (d + 2) "elevation" dp.elev,
    tBool (d + 2) "subdiv" dp.subdiv] ++ ([
    ttRowset (d + 2) "normals" size dp.verts (·.normal.toks),
    ttRowset (d + 2) "distances" size dp.verts (fun v => [v.dist]),
    ttRowset (d + 2) "offsets" size dp.verts (·.offset.toks),
    ttRowset (d + 2) "offset_normals" size dp.verts (·.offsetNorm.toks),
    ttRowset (d + 2) "alphas" size dp.verts (fun v => [v.alpha]),
    tBlock (d + 2) "triangle_tags"
      (ttRowsFrom (d + 2) 0 ((rowsOf size (size - 1) dp.verts).map fun r => (r.take (size - 1)).flatMap triToks)),
    tBlock (d + 2) "allowed_verts" [tRaw (d + 2) "10" (unwords (dp.allowed.map showInt))]] ++
    (if multiblend && hasBlend dp.verts then [
      ttRowset (d + 2) "multiblend" size dp.verts (·.blend.toks),
      ttRowset (d + 2) "alphablend" size dp.verts (·.malpha.toks),
      ttRowset (d + 2) "multiblend_color_0" size dp.verts (colorToks 0),
      ttRowset (d + 2) "multiblend_color_1" size dp.verts (colorToks 1),
      ttRowset (d + 2) "multiblend_color_2" size dp.verts (colorToks 2),
      ttRowset (d + 2) "multiblend_color_3" size dp.verts (colorToks 3)]
     else [])))

def ttPointsFrom (d i : Nat) : List V3 → List TT
  | [] => []
  | p :: ps => tRaw d "point" (showNat i ++ ' ' :: p.str) :: ttPointsFrom d (i + 1) ps

/-- `Side.export(buffer, ind, disp_multiblend)` with `ind` = `d` tabs -/
def ttSide (d : Nat) (multiblend : Bool) (s : Side) : TT :=
  tBlock d "side" ([
    tInt (d + 1) "id" s.id,
    tRaw (d + 1) "plane" (wrap '(' ')' s.p0.str ++ ' ' :: wrap '(' ')' s.p1.str ++ ' ' :: wrap '(' ')' s.p2.str),
    tEsc (d + 1) "material" s.mat,
    tRaw (d + 1) "uaxis" s.uaxis.str,
    tRaw (d + 1) "vaxis" s.vaxis.str,
    tRaw (d + 1) "rotation" s.rot,
    tInt (d + 1) "lightmapscale" s.lightmap,
    tInt (d + 1) "smoothing_groups" s.smooth] ++
    (match s.points with
     | some pts =>
       [TT.block (d + 1) true (lit "point_data") (tInt (d + 2) "numpts" pts.length :: ttPointsFrom (d + 2) 0 pts)]
     | none => []) ++
    (match s.disp with
     | some dp => if dp.power > 0 then [ttDisp d multiblend dp] else []
     | none => []))

def ttMaybeHidden (d : Nat) (hidden : Bool) (f : Nat → TT) : TT :=
  if hidden then tBlock d "hidden" [f (d + 1)] else f d

def ttSolidEditor (d : Nat) (includeGroups : Bool) (s : Solid) : List TT :=
  [tRaw d "color" s.color.str] ++
  (if includeGroups then
    (match s.group with
     | some g => [tInt d "groupid" g]
     | none => []) ++ (isort intLe s.visIds).map (tInt d "visgroupid")
   else []) ++
  [tBool d "visgroupshown" s.visShown, tBool d "visgroupautoshown" s.visAuto] ++
  (if s.cordon then [tRaw d "cordonsolid" ['1']] else [])

def ttSolidBlock (multiblend includeGroups : Bool) (s : Solid) (d : Nat) : TT :=
  tBlock d "solid" (tInt (d + 1) "id" s.id :: (s.sides.map (ttSide (d + 1) multiblend) ++
    [tBlock (d + 1) "editor" (ttSolidEditor (d + 2) includeGroups s)]))

/-- `Solid.export(buffer, ind, disp_multiblend, include_groups)` -/
def ttSolid (d : Nat) (multiblend includeGroups : Bool) (s : Solid) : TT :=
  ttMaybeHidden d s.hidden (ttSolidBlock multiblend includeGroups s)

/-- `EntityFixup.export`: `"replace{id:02}" "${var} {escape_text(value)}"` -/
def ttFix (d : Nat) (f : Fix) : TT :=
  .leaf d [.raw (lit "replace"), .raw (pad2 (showInt f.id))]
    [.raw ['$'], .raw f.var, .raw [' '], .esc false f.value]

/-- `Output.as_keyvalue()` -/
def ttOut (d : Nat) (o : Out) : TT :=
  let sep := [outSep o.comma]
  .leaf d [.esc false (expName o.instOut o.output)]
    [.esc false o.target, .raw sep, .esc false (expName o.instIn o.input), .raw sep, .esc true o.params, .raw sep,
     .raw o.delay, .raw sep, .raw (showInt o.times)]

/-- `EntityGroup.export(buffer, ind)` -/
def ttGroup (d : Nat) (g : Group) : TT :=
  tBlock d "group" [tInt (d + 1) "id" g.id,
    tBlock (d + 1) "editor" [tBool (d + 2) "visgroupshown" g.shown, tBool (d + 2) "visgroupautoshown" g.auto,
      tRaw (d + 2) "color" g.color.str]]

def ttEntEditor (d : Nat) (world : Bool) (e : Ent) : List TT :=
  [tRaw d "color" e.color.str] ++
  (if world then [] else
    (isort intLe e.groups).map (tInt d "groupid") ++
    (isort intLe e.visIds).map (tInt d "visgroupid") ++
    [tBool d "visgroupshown" e.visShown, tBool d "visgroupautoshown" e.visAuto,
     tEsc d "logicalpos" e.logicalPos]) ++
  (if e.comments.isEmpty then [] else [tEsc d "comments" e.comments])

def ttEntKids (d : Nat) (multiblend world : Bool) (groups : List Group) (e : Ent) : List TT :=
  tInt d "id" e.id ::
  ((isort keyLe e.keys).map (fun kv => TT.leaf d [.esc false kv.1] [.esc false kv.2]) ++
   ((isort fixLe e.fixup).map (ttFix d) ++
   (e.solids.map (ttSolid d multiblend world) ++
   ((if e.outputs.isEmpty then [] else [tBlock d "connections" (e.outputs.map (ttOut (d + 1)))]) ++
   ((if world then groups.map (ttGroup d) else []) ++
   [tBlock d "editor" (ttEntEditor (d + 1) world e)])))))

def ttEntBlock (multiblend world : Bool) (groups : List Group) (e : Ent) (d : Nat) : TT :=
  tBlock d (if world then "world" else "entity") (ttEntKids (d + 1) multiblend world groups e)

/-- `Entity.export(buffer, ind, disp_multiblend, _is_worldspawn)` -/
def ttEnt (d : Nat) (multiblend world : Bool) (groups : List Group) (e : Ent) : TT :=
  ttMaybeHidden d e.hidden (ttEntBlock multiblend world groups e)

def ttCam (d : Nat) (c : Cam) : TT :=
  tBlock d "camera" [tRaw (d + 1) "position" (wrap '[' ']' c.pos.str), tRaw (d + 1) "look" (wrap '[' ']' c.look.str)]

def ttCordon (d : Nat) (c : Cordon) : TT :=
  tBlock d "cordon" [tEsc (d + 1) "name" c.name, tBool (d + 1) "active" c.active,
    tBlock (d + 1) "box" [tRaw (d + 2) "mins" (wrap '(' ')' c.min.str), tRaw (d + 2) "maxs" (wrap '(' ')' c.max.str)]]

def ttVerKids (o : ExportOpts) (m : VMap) : List TT := [
  tInt 1 "editorversion" m.hammerVer, tInt 1 "editorbuild" m.hammerBuild,
  tInt 1 "mapversion" (exportedVer o m), tInt 1 "formatversion" m.formatVer, tBool 1 "prefab" m.prefab]

def ttViewKids (m : VMap) : List TT :=
  [tBool 1 "bSnapToGrid" m.snap, tBool 1 "bShowGrid" m.grid, tBool 1 "bShowLogicalGrid" m.logic,
   tInt 1 "nGridSpacing" m.spacing, tBool 1 "bShow3DGrid" m.grid3d] ++
  ((match m.instVis with
    | some v => [tInt 1 "nInstanceVisibility" v]
    | none => []) ++
   (match m.views with
    | some vs => [tBlock 1 "views" (ttViews viewTitles vs)]
    | none => []))

def ttCamKids (m : VMap) : List TT :=
  tInt 1 "activecamera" (if m.cams.isEmpty then -1 else m.activeCam) :: m.cams.map (ttCam 1)

def ttCordonKids (m : VMap) : List TT :=
  if m.cordons.isEmpty then [tRaw 1 "active" ['0']]
  else tBool 1 "active" m.cordonOn :: m.cordons.map (ttCordon 1)

/-- `VMF.export(...)`: the layout of the whole file -/
def exportTT (o : ExportOpts) (m : VMap) : List TT :=
  [tBlock 0 "versioninfo" (ttVerKids o m), tBlock 0 "visgroups" (ttVisList 1 m.vis)] ++
  ((if o.minimal then [] else [tBlock 0 "viewsettings" (ttViewKids m)]) ++
  ([ttEnt 0 o.multiblend true m.groups (spawnForExport o m)] ++
  (m.ents.map (ttEnt 0 o.multiblend false []) ++
  ((if o.minimal then [] else [tBlock 0 "cameras" (ttCamKids m), tBlock 0 "cordons" (ttCordonKids m)]) ++
  (if decide (m.quickhide > 0) then [tBlock 0 "quickhide" [tInt 1 "count" m.quickhide]] else [])))))

/-- the text `VMF.export()` returns, with the escape tables of the current source -/
def exportText (o : ExportOpts) (m : VMap) : Str := ttTextList Gen.Tok.tables (exportTT o m)

end C06
