import Srctools.Model.Tok
/-!
# Concrete chunked tokenizer model (TokC)

`srctools/tokenizer.py` as coded, over the *chunk cursor* of `Tokenizer`:

* `Src` is `(_cur_chunk, _char_index, _chunk_iter)`; `Src.next` is `_next_char` — index
  pre-increment, Python indexing (a negative index wraps around), refill from the iterator skipping
  empty chunks, and the state the code leaves behind at end of input (index incremented, iterator
  exhausted, current chunk kept); `Src.back` is `self._char_index -= 1`.
* every `while True:` loop of `_get_token`, `_handle_comment`, `_handle_string` is one function
  here, taking fuel because the cursor is not structurally decreasing; running out of fuel is the
  error `outOfFuel` (never happens with fuel `> remaining characters`: `C03_total`).
* `calls` counts the invocations of `_next_char` (ghost field: it influences nothing; `runCalls`
  reports it, `C03_steps` bounds it by `2·length + 1`, and the harness compares it with the
  implementation). Error results carry the cursor at the `raise` for the same purpose.

The abstract model `Tok` (Model/Tok.lean) is the same tokenizer over the remaining character list;
`Srctools/Proofs/C03*.lean` proves `TokC` refines it through `Src.view`.
Core Lean only: this file is linked into `drv_c03`.
-/

namespace TokC
open Tok

/-- The chunk cursor of `Tokenizer`. -/
structure Src where
  /-- `_cur_chunk` -/
  cur : List Char
  /-- `_char_index` -/
  idx : Int
  /-- what `_chunk_iter` will still yield -/
  rest : List (List Char)
  /-- number of `_next_char` calls so far (ghost) -/
  calls : Nat := 0
deriving Repr, DecidableEq

/-- Python `l[i]`: a negative index counts from the end; `none` is `IndexError`. -/
def pyIndex (l : List Char) (i : Int) : Option Char :=
  if 0 ≤ i then l[i.toNat]? else
    let j := (l.length : Int) + i
    if 0 ≤ j then l[j.toNat]? else none

/-- `for chunk in self._chunk_iter: if chunk: …` — the first non-empty chunk and what follows. -/
def firstNonEmpty : List (List Char) → Option (List Char × List (List Char))
  | [] => none
  | [] :: r => firstNonEmpty r
  | (c :: cs) :: r => some (c :: cs, r)

/-- `_next_char`. -/
def Src.next (s : Src) : Option Char × Src :=
  let i := s.idx + 1
  match pyIndex s.cur i with
  | some c => (some c, { s with idx := i, calls := s.calls + 1 })
  | none =>
    match firstNonEmpty s.rest with
    | none => (none, { s with idx := i, rest := [], calls := s.calls + 1 })
    | some (ch, r) => (ch.head?, { cur := ch, idx := 0, rest := r, calls := s.calls + 1 })

/-- `self._char_index -= 1`. -/
def Src.back (s : Src) : Src := { s with idx := s.idx - 1 }

/-- `Tokenizer(iterable)`. -/
def Src.ofChunks (cs : List (List Char)) : Src := { cur := [], idx := -1, rest := cs }

/-- `Tokenizer(str)`: the string is the current chunk, the iterator is empty. -/
def Src.ofString (s : List Char) : Src := { cur := s, idx := -1, rest := [] }

/-- The characters still to be read (meaningful when `-1 ≤ idx`). -/
def Src.view (s : Src) : List Char := s.cur.drop (s.idx + 1).toNat ++ s.rest.flatten

/-- Result of a sub-scanner: value, new line number, cursor; or error at a line. -/
inductive CScan (α : Type)
  | ok (v : α) (line : Nat) (src : Src)
  /-- `src` is the cursor at the `raise` (used only to count `_next_char` calls). -/
  | err (e : Err) (line : Nat) (src : Src)
deriving Repr

/-! ## `_handle_string` -/

/-- `_handle_string`, entered after the opening quote; `acc` is `value_chars` reversed, `lastCr`
the *local* `last_was_cr`. -/
def handleString (T : Tables) (allowEsc : Bool) :
    Nat → Src → List Char → Bool → Nat → CScan (List Char)
  | 0, s, _, _, line => .err .outOfFuel line s
  | f + 1, s, acc, lastCr, line =>
    match s.next with
    | (none, se) => .err .untermString line se
    | (some c, s1) =>
      if c = '"' then .ok acc.reverse line s1
      else if c = '\r' then handleString T allowEsc f s1 ('\n' :: acc) true (line + 1)
      else if c = '\n' then
        if lastCr then handleString T allowEsc f s1 acc false line
        else handleString T allowEsc f s1 ('\n' :: acc) false (line + 1)
      else if c = '\\' ∧ allowEsc then
        match s1.next with
        | (none, se) => .err .noCharToEscape line se
        | (some e, s2) =>
          if e = '\n' then handleString T allowEsc f s2 acc false line
          else match T.unescape e with
            | some r => handleString T allowEsc f s2 (r :: acc) false line
            | none => handleString T allowEsc f s2 (e :: '\\' :: acc) false line
      else handleString T allowEsc f s1 (c :: acc) false line

/-! ## the loops of `_get_token` -/

/-- `[flag]` loop (string_bracket mode), after the `[`. -/
def scanBracket : Nat → Src → List Char → Nat → CScan (List Char)
  | 0, s, _, line => .err .outOfFuel line s
  | f + 1, s, acc, line =>
    match s.next with
    | (none, se) => .err .untermFlag line se
    | (some c, s1) =>
      if c = ']' then .ok acc.reverse line s1
      else if c = '\n' then .err .eolInBracket line s1
      else if c = '[' then .err .nestBracket line s1
      else scanBracket f s1 (c :: acc) line

/-- `(args)` loop (string_parens mode), after the `(`. -/
def scanParen : Nat → Src → List Char → Nat → CScan (List Char)
  | 0, s, _, line => .err .outOfFuel line s
  | f + 1, s, acc, line =>
    match s.next with
    | (none, se) => .err .untermParen line se
    | (some c, s1) =>
      if c = ')' then .ok acc.reverse line s1
      else if c = '\n' then scanParen f s1 (c :: acc) (line + 1)
      else if c = '(' then .err .nestParen line s1
      else scanParen f s1 (c :: acc) line

/-- The directive loop and the bare-string loop (identical but for `casefold`): the terminator is
pushed back (`_char_index -= 1`); at end of input nothing is pushed back. -/
def scanBare (T : Tables) (o : Opts) (fold : Char → List Char) :
    Nat → Src → List Char → Nat → CScan (List Char)
  | 0, s, _, line => .err .outOfFuel line s
  | f + 1, s, acc, line =>
    match s.next with
    | (none, s1) => .ok acc.reverse line s1
    | (some c, s1) =>
      if isBareEnd T o c then .ok acc.reverse line s1.back
      else scanBare T o fold f s1 ((fold c).reverse ++ acc) line

/-- `//` loop: runs to LF or end of input, then pushes back **unconditionally** (also at end of
input, where the index was already incremented past the chunk). -/
def scanLineComment : Nat → Src → List Char → Nat → CScan (List Char)
  | 0, s, _, line => .err .outOfFuel line s
  | f + 1, s, acc, line =>
    match s.next with
    | (none, s1) => .ok acc.reverse line s1.back
    | (some c, s1) =>
      if c = '\n' then .ok acc.reverse line s1.back
      else scanLineComment f s1 (c :: acc) line

/-- `/* */` loop. After a `*` the next character is read; unless it is `/` it is pushed back and
re-read by the next iteration. -/
def scanStarComment (start : Nat) : Nat → Src → List Char → Nat → CScan (List Char)
  | 0, s, _, line => .err .outOfFuel line s
  | f + 1, s, acc, line =>
    match s.next with
    | (none, se) => .err (.unclosedComment start) line se
    | (some c, s1) =>
      if c = '\n' then scanStarComment start f s1 (c :: acc) (line + 1)
      else if c = '*' then
        match s1.next with
        | (none, se) => .err (.unclosedComment start) line se
        | (some d, s2) =>
          if d = '/' then .ok acc.reverse line s2
          else scanStarComment start f s2.back acc line
      else scanStarComment start f s1 (c :: acc) line

/-- `_handle_comment`, entered after the first `/`. `some v` = the comment text (a COMMENT token is
produced iff `preserve_comments`), exactly as the code decides. The buffer is accumulated even when
the code passes `None` for it; it is dropped again below. -/
def handleComment (o : Opts) (fuel : Nat) (s : Src) (line : Nat) : CScan (List Char) :=
  match s.next with
  | (none, se) => .err (.singleSlash o.allowStarComments) line se
  | (some c, s1) =>
    if c = '*' then
      if o.allowStarComments then scanStarComment line fuel s1 [] line
      else .err .starNotAllowed line s1
    else if c ≠ '/' then .err (.singleSlash o.allowStarComments) line s1
    else scanLineComment fuel s1 [] line

/-- Tokenizer state: cursor, `line_num`, `_last_was_cr`. -/
structure CSt where
  src : Src
  line : Nat := 1
  lastCr : Bool := false
deriving Repr

inductive CRes
  | tok (k : Kind) (v : List Char) (st : CSt)
  | err (e : Err) (line : Nat) (src : Src)
deriving Repr

/-- `_get_token`. One unit of fuel per iteration of the outer `while True`; the inner loops get the
same bound. -/
def nextToken (T : Tables) (o : Opts) (fold : Char → List Char) : Nat → CSt → CRes
  | 0, st => .err .outOfFuel st.line st.src
  | fuel + 1, st =>
    match st.src.next with
    | (none, s1) => .tok .eof [] { st with src := s1 }
    | (some c, s1) =>
    match T.operator c with
    | some k => .tok k [c] { st with src := s1 }
    | none =>
    if c = '\r' then .tok .newline ['\n'] { src := s1, line := st.line + 1, lastCr := true }
    else if c = '\n' then
      if st.lastCr then nextToken T o fold fuel { src := s1, line := st.line, lastCr := false }
      else .tok .newline ['\n'] { src := s1, line := st.line + 1, lastCr := st.lastCr }
    else
    if c = ' ' ∨ c = '\t' then nextToken T o fold fuel { src := s1, line := st.line, lastCr := false }
    else if c = '/' then
      match handleComment o fuel s1 st.line with
      | .err e l s => .err e l s
      | .ok v l s2 =>
        if o.preserveComments then .tok .comment v { src := s2, line := l, lastCr := false }
        else nextToken T o fold fuel { src := s2, line := l, lastCr := false }
    else if c = '"' then
      match handleString T o.allowEscapes fuel s1 [] false st.line with
      | .err e l s => .err e l s
      | .ok v l s2 => .tok .string v { src := s2, line := l, lastCr := false }
    else if c = '[' then
      if !o.stringBracket then .tok .brackOpen ['['] { src := s1, line := st.line, lastCr := false }
      else match scanBracket fuel s1 [] st.line with
        | .err e l s => .err e l s
        | .ok v l s2 => .tok .propFlag v { src := s2, line := l, lastCr := false }
    else if c = '(' then
      if !o.stringParens then .tok .parenOpen ['('] { src := s1, line := st.line, lastCr := false }
      else match scanParen fuel s1 [] st.line with
        | .err e l s => .err e l s
        | .ok v l s2 => .tok .parenArgs v { src := s2, line := l, lastCr := false }
    else if c = Char.ofNat 0xFEFF ∧ st.line = 1 then
      nextToken T o fold fuel { src := s1, line := st.line, lastCr := false }
    else if c = ':' ∧ o.colonOperator then .tok .colon [':'] { src := s1, line := st.line, lastCr := false }
    else if c = '+' ∧ o.plusOperator then .tok .plus ['+'] { src := s1, line := st.line, lastCr := false }
    else if c = ']' then
      if o.stringBracket then .err .noOpenBracket st.line s1
      else .tok .brackClose [']'] { src := s1, line := st.line, lastCr := false }
    else if c = ')' then
      if o.stringParens then .err .noOpenParen st.line s1
      else .tok .parenClose [')'] { src := s1, line := st.line, lastCr := false }
    else if c = '#' then
      match scanBare T o fold fuel s1 [] st.line with
      | .err e l s => .err e l s
      | .ok v l s2 => .tok .directive v { src := s2, line := l, lastCr := false }
    else if !T.bareDisallowed.contains c then
      match scanBare T o (fun x => [x]) fuel s1 [c] st.line with
      | .err e l s => .err e l s
      | .ok v l s2 => .tok .string v { src := s2, line := l, lastCr := false }
    else .err (.unexpectedChar c) st.line s1

/-- Call `nextToken` until EOF or error, recording (kind, value, line_num after the token). -/
def runAux (T : Tables) (o : Opts) (fold : Char → List Char) :
    Nat → CSt → List Obs → Run
  | 0, st, acc => { toks := acc.reverse, err := some (.outOfFuel, st.line) }
  | n + 1, st, acc =>
    match nextToken T o fold (st.src.view.length + 1) st with
    | .err e l _ => { toks := acc.reverse, err := some (e, l) }
    | .tok k v st' =>
      let ob : Obs := { kind := k.code, value := v, line := st'.line }
      if k = .eof then { toks := (ob :: acc).reverse, err := none }
      else runAux T o fold n st' (ob :: acc)

/-- The observable stream of a fresh tokenizer over cursor `s`. -/
def run (T : Tables) (o : Opts) (fold : Char → List Char) (s : Src) : Run :=
  runAux T o fold (s.view.length + 2) { src := s } []

/-- The number of `_next_char` calls made by the run of `runAux`, up to and including the call that
returned EOF or raised. -/
def runCallsAux (T : Tables) (o : Opts) (fold : Char → List Char) : Nat → CSt → Nat
  | 0, st => st.src.calls
  | n + 1, st =>
    match nextToken T o fold (st.src.view.length + 1) st with
    | .err _ _ s => s.calls
    | .tok k _ st' => if k = .eof then st'.src.calls else runCallsAux T o fold n st'

def runCalls (T : Tables) (o : Opts) (fold : Char → List Char) (s : Src) : Nat :=
  runCallsAux T o fold (s.view.length + 2) { src := s }

end TokC
