import Srctools.Model.Heap
/-!
# C09 — model of the `copy()` methods and of the Keyvalues operators, on the heap model

* `Table` is what `tools/gen_copy.py` extracts from the source: for every class the fields
  (from `__slots__` / attrs / `__init__`), the static kind of each field (from annotations)
  and how `copy()` treats it.  `Table.treat` turns it into the runtime treatment function
  driving `Heap.copyWith`, i.e. the copy **as coded**.
* `tableOK` is the decidable obligation on the table (no `missing`, no `shared` mutable).
* `wellKindedB` is the dynamic typing check of a sampled store against the declared kinds.
* `kvAdd`, `kvIAdd` (= `extend`) are `Keyvalues.__add__`, `__iadd__`/`extend` as coded, on the heap;
  `AddTarget` is which list `__add__` appends to in the source (`self` was the defect).
-/
namespace C09
open Heap

/-- How `copy()` treats a field (static classification by the translator). -/
inductive GTreat where
  | deep        -- `.copy()` of the object / comprehension copying every element
  | fresh       -- new container holding the same elements (`list(x)`, `set(x)`, `dict` re-insert)
  | immutable   -- the same immutable value
  | shared      -- the same mutable object (or a new container sharing mutable elements)
  | missing     -- not carried over at all
  | reset       -- replaced by design: fresh id, target map
  | unknown     -- the translator could not classify the expression
  deriving Repr, DecidableEq, Inhabited

/-- Static kind of a field, from its annotation. -/
inductive Kind where
  | imm       -- str/int/float/bool/enum/frozen value (possibly Optional)
  | ctx       -- the owning map (VMF): shared by design
  | mutObj    -- one mutable object (Vec, UVAxis, EntityFixup, …)
  | contImm   -- container of immutable values (set[int], dict[str,str], array)
  | contMut   -- container of mutable objects (list[Vec], list[Side], dict[str, FixupValue])
  | unknown
  deriving Repr, DecidableEq, Inhabited

structure FieldSpec where
  name : String
  kind : Kind
  treat : GTreat
  note : String := ""
  deriving Repr, Inhabited

structure ClassSpec where
  name : String
  site : String          -- where the copy is coded (method or inline construction)
  fields : List FieldSpec
  deriving Repr, Inhabited

abbrev Table := List ClassSpec

def GTreat.rt : GTreat → Treat
  | .deep => .deep
  | .fresh => .shallow
  | .missing => .missing
  | .immutable => .keep
  | .shared => .keep
  | .reset => .keep
  | .unknown => .keep

/-- Runtime treatment: class id 0 is "builtin" (list/set/dict/array/Vec/Angle/Matrix objects: copied
field by field, deep); class id `c+1` is `T[c]`; a field id is its index in the class. -/
def Table.treat (T : Table) (c f : Nat) : Treat :=
  match c with
  | 0 => .deep
  | c + 1 =>
    match T[c]? with
    | none => .deep
    | some cs =>
      match cs.fields[f]? with
      | none => .keep
      | some fs => fs.treat.rt

/-- The acceptable (kind, treatment) pairs. -/
def okField (f : FieldSpec) : Bool :=
  match f.kind, f.treat with
  | .imm, .immutable => true
  | .imm, .reset => true
  | .ctx, .reset => true
  | .mutObj, .deep => true
  | .contImm, .deep => true
  | .contImm, .fresh => true
  | .contMut, .deep => true
  | _, _ => false

def tableOK (T : Table) : Bool := T.all fun c => c.fields.all okField

def noMissing (T : Table) : Bool := T.all fun c => c.fields.all fun f => f.treat != .missing
def noShared (T : Table) : Bool :=
  T.all fun c => c.fields.all fun f => f.treat != .shared && f.treat != .unknown && f.kind != .unknown

/-- Does the slot hold what the declared kind says? -/
def kindOKB (h : Store) : Kind → Slot → Bool
  | .imm, s => immSlotB h s
  | .ctx, s => immSlotB h s
  | .contImm, .val _ => true
  | .contImm, .ref r =>
    match h[r]? with
    | some o => o.fields.all fun p => immSlotB h p.2
    | none => false
  | _, _ => true

/-- Dynamic check: every mutable object of a table class has only declared fields, each holding a
value of its declared kind. -/
def wellKindedB (T : Table) (h : Store) : Bool :=
  h.all fun o => !o.mu ||
    match o.cls with
    | 0 => true
    | c + 1 =>
      match T[c]? with
      | none => true
      | some cs => o.fields.all fun p =>
        match cs.fields[p.1]? with
        | none => false
        | some fs => kindOKB h fs.kind p.2

/-! ## Keyvalues operators on the heap

A `Keyvalues` object has a field `vf` (`_value`) holding an atom (leaf) or a reference to a list
object whose fields `0,1,2,…` reference the children. -/

/-- Location of the children list of block `a`. -/
def kidsLoc (vf : Nat) (h : Store) (a : Nat) : Option Nat :=
  match h[a]? with
  | none => none
  | some o =>
    match getField o.fields vf with
    | some (.ref r) => some r
    | _ => none

def listElems (h : Store) (r : Nat) : List Slot :=
  match h[r]? with
  | some o => o.fields.map fun p => p.2
  | none => []

/-- `list.append`: a new last field (index = current number of elements). Appending to an immutable
or missing object, or a dangling reference, is rejected. -/
def pushBack (h : Store) (r : Nat) (s : Slot) : Store :=
  match h[r]? with
  | some o =>
    if o.mu && slotValid h s then h.set r { o with fields := o.fields ++ [(o.fields.length, s)] } else h
  | none => h

/-- `for kv in elems: target.append(kv.copy())` (or `target.append(kv)` when `cp = false`). -/
def appendCopies (tr : Nat → Nat → Treat) (n : Nat) (cp : Bool) :
    Store → Nat → List Slot → Option Store
  | h, _, [] => some h
  | _, _, .val _ :: _ => none                       -- TypeError: not a Keyvalue
  | h, t, .ref k :: rest =>
    if cp then
      match copyWith tr n h k with
      | none => none
      | some (h1, k') => appendCopies tr n cp (pushBack h1 t (.ref k')) t rest
    else appendCopies tr n cp (pushBack h t (.ref k)) t rest

/-- Which list the loop in `Keyvalues.__add__` appends to. -/
inductive AddTarget where
  | self | copy
  deriving Repr, DecidableEq, Inhabited

/-- `a + b` for a block `a`; `bl` is the list object whose elements are iterated (the children list of a
root/block `b`, or a plain list) — as a snapshot, see the notes: the implementation iterates the live
list. Returns the new store and the result. -/
def kvAdd (tgt : AddTarget) (tr : Nat → Nat → Treat) (n vf : Nat) (h : Store) (a bl : Nat) :
    Option (Store × Nat) :=
  match copyWith tr n h a with
  | none => none
  | some (h1, c) =>
    match kidsLoc vf h1 (match tgt with | .self => a | .copy => c) with
    | some t =>
      match appendCopies tr n true h1 t (listElems h1 bl) with
      | none => none
      | some h2 => some (h2, c)
    | none => none

/-- `a += b` / `a.extend(b)`: the elements of `bl` are copied (when `cp`) and appended to `a`. -/
def kvIAdd (cp : Bool) (tr : Nat → Nat → Treat) (n vf : Nat) (h : Store) (a bl : Nat) : Option Store :=
  match kidsLoc vf h a with
  | some t => appendCopies tr n cp h t (listElems h bl)
  | none => none

/-- Abstract children of block `a`. -/
def kidsAbs (m vf : Nat) (h : Store) (a : Nat) : List Tree :=
  match kidsLoc vf h a with
  | none => []
  | some r => (listElems h r).map (absSlot (abs m h))

end C09
