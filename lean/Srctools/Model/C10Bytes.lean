/-!
# C10 byte layer — the file layout written by `BSP.save` and read by `BSP.read`

```
magic(4) version(i32) | 64 × lump entry (4 × i32) | map revision(i32) | lump bodies in LUMP_WRITE_ORDER
```
* lump entry: `(offset, length, version, fourCC)`; L4D2 writes `(version, offset, length, fourCC)`;
  `fourCC` is the uncompressed size when the body is LZMA-compressed, else 0 (PAKFILE is never compressed).
* the GAME_LUMP body is built in place: `count(i32)`, `count` directory entries
  `id(4) flags(u16) version(u16) file offset(i32) uncompressed length(i32)` (offsets are absolute file
  offsets), a dummy entry with id 0 when the last game lump is compressed, then the bodies separated
  by one zero byte. The reader recovers the compressed sizes from the differences of the offsets.

Bytes are natural numbers (< 256 where we produce them). Integers are their 32/16-bit patterns
(`struct.pack` itself is CPython, not modelled). LZMA is an abstract inverse pair.
`DeferredWrites` (seek back and patch) is modelled by computing the offsets first.
Core Lean only.
-/
namespace C10.Bytes

abbrev Bytes := List Nat

/-- `k` bytes, little endian. -/
def le : Nat → Nat → Bytes
  | 0, _ => []
  | k + 1, n => n % 256 :: le k (n / 256)

def de : Bytes → Nat
  | [] => 0
  | b :: bs => b + 256 * de bs

/-- `file.seek(off); file.read(len)` -/
def slice (f : Bytes) (off len : Nat) : Bytes := (f.drop off).take len

def rd32 (f : Bytes) (off : Nat) : Nat := de (slice f off 4)
def rd16 (f : Bytes) (off : Nat) : Nat := de (slice f off 2)

/-- `compress_lzma` / `decompress_lzma`, abstract. -/
structure Lzma where
  comp : Bytes → Bytes
  decomp : Bytes → Bytes

/-- the assumption about LZMA: decompressing what was compressed gives the data back. -/
def Lzma.Inverse (Z : Lzma) : Prop := ∀ b, Z.decomp (Z.comp b) = b

structure Lump where
  version : Nat
  data : Bytes
  compressed : Bool
deriving Repr, DecidableEq, Inhabited

structure GLump where
  /-- the 4 id bytes as stored (reversed), as a 32-bit pattern; 0 is the dummy entry. -/
  id : Nat
  /-- bit 0 = compressed -/
  flags : Nat
  version : Nat
  data : Bytes
deriving Repr, DecidableEq, Inhabited

def GLump.compressed (g : GLump) : Bool := g.flags % 2 == 1

structure Bsp where
  /-- magic: 0 = `VBSP`, 1 = `FART` (as a 32-bit pattern in the model: any number) -/
  magic : Nat
  version : Nat
  revision : Nat
  /-- lump id → lump (64 entries) -/
  lumps : List Lump
  game : List GLump
deriving Repr, DecidableEq

def GAME : Nat := 35
def PAK : Nat := 40
/-- size of magic + version + 64 entries + revision -/
def HDR : Nat := 8 + 16 * 64 + 4

/-! ## writing -/

/-- body of an ordinary lump as stored, and its fourCC field. -/
def stored (Z : Lzma) (id : Nat) (l : Lump) : Bytes × Nat :=
  if l.compressed && id != PAK then (Z.comp l.data, l.data.length) else (l.data, 0)

def gStored (Z : Lzma) (g : GLump) : Bytes := if g.compressed then Z.comp g.data else g.data

/-- game lump bodies with a zero byte between them (not after the last). -/
def gBodies (Z : Lzma) : List GLump → Bytes
  | [] => []
  | [g] => gStored Z g
  | g :: gs => gStored Z g ++ 0 :: gBodies Z gs

/-- absolute offsets of the game lump bodies, the first one starting at `at`. -/
def gOffsets (Z : Lzma) («at» : Nat) : List GLump → List Nat
  | [] => []
  | g :: gs => «at» :: gOffsets Z («at» + (gStored Z g).length + 1) gs

def dirEntry (g : GLump) (off : Nat) : Bytes :=
  le 4 g.id ++ le 2 g.flags ++ le 2 g.version ++ le 4 off ++ le 4 g.data.length

def needDummy (gs : List GLump) : Bool :=
  match gs.getLast? with
  | some g => g.compressed
  | none => false

/-- the GAME_LUMP body when it starts at absolute offset `start`. -/
def gameSection (Z : Lzma) (start : Nat) (gs : List GLump) : Bytes :=
  let n := gs.length + (if needDummy gs then 1 else 0)
  let dataAt := start + 4 + 16 * n
  let offs := gOffsets Z dataAt gs
  let dir := (List.zipWith dirEntry gs offs).flatten
  let bodies := gBodies Z gs
  let dummy := if needDummy gs then le 4 0 ++ le 2 0 ++ le 2 0 ++ le 4 (dataAt + bodies.length) ++ le 4 0 else []
  le 4 n ++ dir ++ dummy ++ bodies

/-- body of lump `id` when it is written at absolute offset `off`. -/
def body (Z : Lzma) (x : Bsp) (id off : Nat) : Bytes :=
  if id = GAME then gameSection Z off x.game else (stored Z id (x.lumps.getD id default)).1

/-- (id, offset, body) for the lumps in write order, the first at `off`. -/
def placeAll (Z : Lzma) (x : Bsp) : List Nat → Nat → List (Nat × Nat × Bytes)
  | [], _ => []
  | id :: ids, off => (id, off, body Z x id off) :: placeAll Z x ids (off + (body Z x id off).length)

/-- header fields of lump `id` in logical order: (offset, length, version, fourCC). -/
def metaOf (Z : Lzma) (x : Bsp) (placed : List (Nat × Nat × Bytes)) (id : Nat) : Nat × Nat × Nat × Nat :=
  match placed.find? (fun p => p.1 == id) with
  | none => (0, 0, 0, 0)
  | some (_, off, b) =>
    let l := x.lumps.getD id default
    (off, b.length, if id = GAME then 0 else l.version, if id = GAME then 0 else (stored Z id l).2)

/-- stored order of the four fields: L4D2 has (version, offset, length, fourCC). -/
def permute (l4d2 : Bool) (m : Nat × Nat × Nat × Nat) : Nat × Nat × Nat × Nat :=
  if l4d2 then (m.2.2.1, m.1, m.2.1, m.2.2.2) else m

def enc4 (p : Nat × Nat × Nat × Nat) : Bytes := le 4 p.1 ++ (le 4 p.2.1 ++ (le 4 p.2.2.1 ++ le 4 p.2.2.2))

def entryOf (Z : Lzma) (x : Bsp) (l4d2 : Bool) (placed : List (Nat × Nat × Bytes)) (id : Nat) : Bytes :=
  enc4 (permute l4d2 (metaOf Z x placed id))

def writeFile (Z : Lzma) (order : List Nat) (l4d2 : Bool) (x : Bsp) : Bytes :=
  let placed := placeAll Z x order HDR
  le 4 x.magic ++ (le 4 x.version
    ++ (((List.range 64).map (entryOf Z x l4d2 placed)).flatten
    ++ (le 4 x.revision
    ++ (placed.map fun p => p.2.2).flatten)))

/-! ## reading -/

/-- the four header ints of lump `id`, as (offset, length, version, fourCC). -/
def readEntry (f : Bytes) (l4d2 : Bool) (id : Nat) : Nat × Nat × Nat × Nat :=
  let a := rd32 f (8 + 16 * id)
  let b := rd32 f (8 + 16 * id + 4)
  let c := rd32 f (8 + 16 * id + 8)
  let d := rd32 f (8 + 16 * id + 12)
  if l4d2 then (b, c, a, d) else (a, b, c, d)

def readLump (Z : Lzma) (f : Bytes) (l4d2 : Bool) (id : Nat) : Lump :=
  let (off, len, ver, four) := readEntry f l4d2 id
  if id = GAME then { version := ver, data := [], compressed := false }     -- `game_lump.data = b''`
  else if four > 0 then { version := ver, data := Z.decomp (slice f off len), compressed := true }
  else { version := ver, data := slice f off len, compressed := false }

/-- directory entry `j` of the game lump that starts at `goff`: (id, flags, version, file offset, uncompressed size). -/
def readDir (f : Bytes) (goff j : Nat) : Nat × Nat × Nat × Nat × Nat :=
  let p := goff + 4 + 16 * j
  (rd32 f p, rd16 f (p + 4), rd16 f (p + 6), rd32 f (p + 8), rd32 f (p + 12))

/-- walk the real (id ≠ 0) directory entries: each one's stored size is the distance to the next real
entry's offset minus the separator byte; the last one's runs to the end of the game lump. -/
def readGameAux (Z : Lzma) (f : Bytes) («end» : Nat) : List (Nat × Nat × Nat × Nat × Nat) → List GLump
  | [] => []
  | [(id, fl, ver, off, un)] =>
    let raw := if fl % 2 == 1 then Z.decomp (slice f off («end» - off)) else slice f off un
    [{ id := id, flags := fl, version := ver, data := raw }]
  | (id, fl, ver, off, un) :: (e2 :: rest) =>
    let raw := if fl % 2 == 1 then Z.decomp (slice f off (e2.2.2.2.1 - off - 1)) else slice f off un
    { id := id, flags := fl, version := ver, data := raw } :: readGameAux Z f «end» (e2 :: rest)

def readGame (Z : Lzma) (f : Bytes) (l4d2 : Bool) : List GLump :=
  let (goff, glen, _, _) := readEntry f l4d2 GAME
  let count := rd32 f goff
  let ents := ((List.range count).map (readDir f goff)).filter fun e => e.1 != 0
  readGameAux Z f (goff + glen) ents

def readFile (Z : Lzma) (f : Bytes) (l4d2 : Bool) : Bsp :=
  { magic := rd32 f 0, version := rd32 f 4, revision := rd32 f (8 + 16 * 64)
    lumps := (List.range 64).map (readLump Z f l4d2)
    game := readGame Z f l4d2 }

/-- the L4D2 detection of `BSP.read`: bytes 8..12 (first field of lump 0) are zero. -/
def looksL4D2 (f : Bytes) : Bool := rd32 f 8 == 0

end C10.Bytes
