import Srctools.Model.C16KV
/-!
# C16 (iv, continued) — whole entity definitions and files of the FGD text syntax

Model of `srctools/fgd.py`:

* `exportEnt` = `EntityDef.export`: `@Kind `, `base(…) ` / `aliasof(…) `, helpers `\n\tname(arg, arg)` (a helper is
  the generic pair *name, exported argument strings*: for the typed helpers of `_fgd_helpers.py` the arguments are
  what `helper.export()` returns; `halfgridsnap` is written without parentheses; extension helpers are skipped
  without custom syntax; `orderby(…)` arguments replace `kv_order`), `= classname`, `: "description"` with
  long-string splitting, `\n\t[\n`, the body lines (keyvalues stably sorted by their position in the order list,
  inputs, outputs — Model/C16KV.lean), the `@resources` block, `\t]\n`.
* `parseEnt` = `EntityDef.parse` over tokens (after the `@Kind` keyword, which `FGD.parse_file` reads): the
  header loop with its two "pending helper" variables exactly as coded, `base`/`aliasof` lists (a base must be a
  class already defined: `fgd[base]`), `classname`, the description loop, then the body loop `parseBodyE`
  (= the body loop of Model/C16KV.lean plus `@resources`).  `autovis(…)`, snippets and `@ExtendClass` merging are
  not modelled (reported as `PErr.snippet`); typed helpers are kept as generic `(name, args)` — which typed
  helpers re-normalise their arguments is established by the harness.
* `exportFile` / `parseFile` = the entity part of `FGD.export` / `FGD.parse_file` (`@mapsize`, `@include`,
  `@MaterialExclusion`, `@AutoVisgroup`, `@snippet`: not modelled).

Core Lean only (linked into drv_c16).
-/
namespace C16.KV
open Tok C16

/-- `helper.name`, `helper.export()` -/
structure Helper where
  name : Str
  args : List Str
deriving Repr, DecidableEq

/-- A `Resource`: `typ` is the position of its `FileType` in the canonical member list. -/
structure Res where
  file : Str
  typ : Nat
  tags : List Str
deriving Repr, DecidableEq

/-- One entry of `EntityDef.keyvalues`: the (casefolded) key and its tagged variants in dict order. -/
structure Group where
  key : Str
  variants : List (List Str × KVRec)
deriving Repr, DecidableEq

/-- An `EntityDef` as `export` looks at it. `bases` are class names. `res = none` is `resources == ()`. -/
structure EntRec where
  kind : Nat
  classname : Str
  bases : List Str
  alias : Bool
  helpers : List Helper
  desc : Str
  groups : List Group
  kvOrder : List Str
  inputs : List (List Str × IORec)
  outputs : List (List Str × IORec)
  res : Option (List Res)
deriving Repr, DecidableEq

/-- Tables of the entity syntax (tools/gen_fgdw.py). -/
structure EntTab where
  /-- per `EntityTypes` member: the word written after `@` (`PointClass`) and the enum value (`pointclass`) -/
  kinds : List (Str × Str)
  /-- position of `EntityTypes.EXTEND` -/
  extend : Nat
  /-- values of `HelperTypes` -/
  helperTypes : List Str
  /-- `TYPE.value` of the helper classes with `IS_EXTENSION` -/
  extHelpers : List Str
  /-- `RESTYPE_TO_NAME` by `FileType` position (`[]` = no name) -/
  resNames : List Str
  /-- `RESTYPE_BY_NAME` (name → `FileType` position) -/
  resByName : List (Str × Nat)
deriving Repr

def sBase : Str := ['b', 'a', 's', 'e']
def sAliasof : Str := ['a', 'l', 'i', 'a', 's', 'o', 'f']
def sHalfGridSnap : Str := ['h', 'a', 'l', 'f', 'g', 'r', 'i', 'd', 's', 'n', 'a', 'p']
def sOrderby : Str := ['o', 'r', 'd', 'e', 'r', 'b', 'y']
def sAutovis : Str := ['a', 'u', 't', 'o', 'v', 'i', 's']
def sSnippet : Str := ['s', 'n', 'i', 'p', 'p', 'e', 't']
def commaSp : Str := [',', ' ']

/-! ## `EntityDef.export` -/

/-- Position used by `sorted(…, key=kv_order.get(name, 2**64))`: the dict comprehension keeps the LAST index. -/
def orderIdx (order : List Str) (key : Str) : Nat :=
  let i := order.reverse.idxOf key
  if i < order.length then order.length - 1 - i else 2 ^ 64

def insertSorted (order : List Str) (g : Group) : List Group → List Group
  | [] => [g]
  | h :: t => if orderIdx order g.key ≤ orderIdx order h.key then g :: h :: t else h :: insertSorted order g t

/-- Stable sort of the keyvalue groups by `orderIdx` (what `sorted` does). -/
def sortGroups (order : List Str) (gs : List Group) : List Group :=
  gs.reverse.foldl (fun acc g => insertSorted order g acc) []

def helperText (h : Helper) : Str :=
  '\n' :: '\t' :: (if h.name = sHalfGridSnap then h.name
    else h.name ++ '(' :: (joinWith commaSp h.args ++ [')']))

/-- The order list `export` uses: the (casefolded) arguments of all `orderby` helpers, else `kv_order`. -/
def orderList (P : ParseCfg) (e : EntRec) : List Str :=
  let by_ := (e.helpers.filter (·.name = sOrderby)).flatMap fun h => h.args.map P.foldStr
  if by_.isEmpty then e.kvOrder else by_

/-- The keyvalue / input / output items in the order they are written. -/
def entItems (P : ParseCfg) (e : EntRec) : List Item :=
  (sortGroups (orderList P e) e.groups).flatMap (fun g => g.variants.map fun v => Item.kv v.1 v.2)
    ++ e.inputs.map (fun v => Item.inp v.1 v.2) ++ e.outputs.map (fun v => Item.out v.1 v.2)

def resLine (c : ExpCfg) (tab : EntTab) (r : Res) : Str :=
  '\t' :: '\t' :: (tab.resNames.getD r.typ [] ++ ' ' :: quote (escapeText c.T false r.file)
    ++ (if !r.tags.isEmpty then ' ' :: tagsText r.tags else []) ++ ['\n'])

def resHeader : Str := "\n\t@resources\n\t\t[\n".toList
def resFooter : Str := "\t\t]\n".toList

def resBlock (c : ExpCfg) (tab : EntTab) (e : EntRec) : Str :=
  match e.res with
  | some l => if c.ext then resHeader ++ l.flatMap (resLine c tab) ++ resFooter else []
  | none => []

/-- `exportBody` without its closing `\t]\n`. -/
def bodyLines (c : ExpCfg) (items : List Item) : Str :=
  let kvs := items.filter Item.isKV
  let ins := items.filter Item.isInp
  let outs := items.filter Item.isOut
  kvs.flatMap (itemText c)
    ++ (if ins.isEmpty then [] else inputsHeader ++ ins.flatMap (itemText c))
    ++ (if outs.isEmpty then [] else outputsHeader ++ outs.flatMap (itemText c))

/-- `EntityDef.export(file, label_spawnflags, custom_syntax)`. `P` supplies `str.casefold` for `orderby`. -/
def exportEnt (c : ExpCfg) (tab : EntTab) (P : ParseCfg) (e : EntRec) : Str :=
  '@' :: ((tab.kinds.getD e.kind ([], [])).1 ++ [' '])
    ++ (if e.bases.isEmpty then []
        else (if e.alias && c.ext then sAliasof else sBase) ++ '(' :: (joinWith commaSp e.bases ++ [')', ' ']))
    ++ (e.helpers.filter fun h => !(tab.extHelpers.contains h.name && !c.ext)).flatMap helperText
    ++ (if e.helpers.isEmpty then [] else ['\n'])
    ++ '=' :: ' ' :: e.classname
    ++ (if e.desc.isEmpty then [] else ':' :: ' ' :: wls c c.ext ['\t', '\t'] e.desc)
    ++ ['\n', '\t', '[', '\n']
    ++ bodyLines c (entItems P e)
    ++ resBlock c tab e
    ++ ['\t', ']', '\n']

/-- The entity part of `FGD.export`: every entity preceded by an empty line (`ents` is `sorted_ents()`). -/
def exportFile (c : ExpCfg) (tab : EntTab) (P : ParseCfg) (ents : List EntRec) : Str :=
  ents.flatMap fun e => '\n' :: exportEnt c tab P e

/-! ## `EntityDef.parse` -/

/-- What `EntityDef.parse` builds (keyvalues / inputs / outputs as the list of body items in file order). -/
structure ParsedEnt where
  kind : Nat
  classname : Str
  bases : List Str
  alias : Bool
  helpers : List Helper
  desc : Str
  items : List Item
  res : Option (List Res)
deriving Repr, DecidableEq

/-- `text.split(',')` -/
def splitComma : Str → List Str
  | [] => [[]]
  | c :: t =>
    match splitComma t with
    | [] => [[]]          -- unreachable
    | h :: rest => if c = ',' then [] :: h :: rest else (c :: h) :: rest

/-- `[arg.strip() for arg in value.split(',')]`, with `['']` turned into `[]`. -/
def helperArgs (v : Str) : List Str :=
  let a := (splitComma v).map strip
  if a = [[]] then [] else a

def lookupRes (P : ParseCfg) (tab : EntTab) (name : Str) : Option Nat :=
  (tab.resByName.find? (·.1 == P.foldStr name)).map (·.2)

/-- The loop of the `@resources` block after its `[`. -/
def parseResLoop (P : ParseCfg) (tab : EntTab) : Nat → List Tk → List Res → Except PErr (List Res × List Tk)
  | 0, _, _ => .error .eof
  | _ + 1, [], acc => .ok (acc, [])                 -- the `for` loop simply ends at EOF
  | fuel + 1, (k, v) :: rest, acc =>
    match k with
    | .eof => .ok (acc, (k, v) :: rest)
    | .brackClose => .ok (acc, rest)
    | .string =>
      match lookupRes P tab v with
      | none => .error .unknownType
      | some ty =>
        match expectKind .string rest with
        | none => .error (.unexpected .string)
        | some (file, rest1) =>
          match rest1 with
          | (.brackOpen, _) :: rest2 =>
            match readTags P rest2 [] false with
            | .error e => .error e
            | .ok (tags, rest3) => parseResLoop P tab fuel rest3 (acc ++ [{ file := file, typ := ty, tags := tags }])
          | _ :: rest2 => parseResLoop P tab fuel rest2 (acc ++ [{ file := file, typ := ty, tags := [] }])   -- the token is dropped
          | [] => .ok (acc ++ [{ file := file, typ := ty, tags := [] }], [])
    | _ => parseResLoop P tab fuel rest acc         -- anything else is skipped silently

/-- The body loop of `EntityDef.parse` including `@resources` (several blocks append). -/
def parseBodyE (P : ParseCfg) (tab : EntTab) :
    Nat → List Tk → List Item → Option (List Res) → Except PErr ((List Item × Option (List Res)) × List Tk)
  | 0, _, _, _ => .error .eof
  | _ + 1, [], _, _ => .error .eof
  | fuel + 1, (k, v) :: rest, acc, res =>
    match k with
    | .brackClose => .ok ((acc, res), rest)
    | .newline => parseBodyE P tab fuel rest acc res
    | .string =>
      let kw := P.foldStr v
      if kw = sInput then
        match parseIO P rest with
        | .error e => .error e
        | .ok ((tags, io), rest') => parseBodyE P tab fuel rest' (acc ++ [.inp tags io]) res
      else if kw = sOutput then
        match parseIO P rest with
        | .error e => .error e
        | .ok ((tags, io), rest') => parseBodyE P tab fuel rest' (acc ++ [.out tags io]) res
      else if kw = sResources then
        match expectKind .brackOpen rest with
        | none => .error (.unexpected .brackOpen)
        | some (_, rest1) =>
          match parseResLoop P tab (rest1.length + 1) rest1 (res.getD []) with
          | .error e => .error e
          | .ok (l, rest2) => parseBodyE P tab fuel rest2 acc (some l)
      else
        match parseKV P v rest with
        | .error e => .error e
        | .ok ((tags, kv), rest') => parseBodyE P tab fuel rest' (acc ++ [.kv tags kv]) res
    | .directive => .error .snippet
    | _ => .error (.unexpected k)

/-- State of the header loop. `ht` = `help_type` (a known `HelperTypes` value), `hc` = `help_type_cust`. -/
structure HdrSt where
  ht : Option Str := none
  hc : Option Str := none
  bases : List Str := []
  alias : Bool := false
  helpers : List Helper := []
deriving Repr

/-- The header loop: helpers and bases up to the `=`. `defined` = the class names `fgd[...]` knows
(casefolded). Returns the state and the tokens after `=`. -/
def parseHeader (P : ParseCfg) (tab : EntTab) (defined : List Str) :
    Nat → List Tk → HdrSt → Except PErr (HdrSt × List Tk)
  | 0, _, _ => .error .eof
  | _ + 1, [], _ => .error .eof
  | fuel + 1, (k, v) :: rest, st =>
    match k with
    | .newline => parseHeader P tab defined fuel rest st
    | .eof => .error .eof
    | .equals => .ok (st, rest)
    | .string =>
      match st.ht with
      | none =>
        if tab.helperTypes.contains v then parseHeader P tab defined fuel rest { st with ht := some v }
        else parseHeader P tab defined fuel rest { st with hc := some v }
      | some t =>
        -- the previous helper had no arguments: add it, then look at this token again
        parseHeader P tab defined fuel ((k, v) :: rest)
          { st with ht := none, helpers := st.helpers ++ [{ name := t, args := [] }] }
    | .parenArgs =>
      if st.ht.isNone && st.hc.isNone then .error (.unexpected .parenArgs)
      else
        let args := helperArgs v
        let (ht, hc, alias) :=
          if st.hc = some sAliasof then (some sBase, none, true) else (st.ht, st.hc, st.alias)
        match hc with
        | some cn =>
          parseHeader P tab defined fuel rest
            { st with ht := none, hc := none, alias := alias, helpers := st.helpers ++ [{ name := cn, args := args }] }
        | none =>
          match ht with
          | none => .error (.unexpected .parenArgs)
          | some t =>
            if t = sBase then
              if args.all (fun b => defined.contains (P.foldStr b)) then
                let bases := args.foldl (fun acc b =>
                  if acc.any (fun x => P.foldStr x == P.foldStr b) then acc else acc ++ [b]) st.bases
                parseHeader P tab defined fuel rest { st with ht := none, hc := none, alias := alias, bases := bases }
              else .error .unknownType          -- KeyError: unknown base class
            else if t = sAutovis then .error .snippet    -- not modelled
            else
              parseHeader P tab defined fuel rest
                { st with ht := none, hc := none, alias := alias, helpers := st.helpers ++ [{ name := t, args := args }] }
    | _ => .error (.unexpected k)

/-- The description loop between the class name and the `[`. -/
def parseDesc : Nat → List Tk → Option (List Str) → Except PErr (Str × List Tk)
  | 0, _, _ => .error .eof
  | _ + 1, [], _ => .error .eof
  | fuel + 1, (k, v) :: rest, desc =>
    match k with
    | .newline => parseDesc fuel rest desc
    | .eof => .error .eof
    | .colon => if desc.isNone then parseDesc fuel rest (some []) else .error (.unexpected .colon)
    | .string =>
      (match desc with
       | some [] => parseDesc fuel rest (some [v])
       | _ => .error (.unexpected .string))
    | .directive => .error .snippet
    | .plus =>
      (match desc with
       | some (d :: ds) =>
         (match expectString rest with
          | some (w, rest') => parseDesc fuel rest' (some ((d :: ds) ++ [w]))
          | none => .error (.unexpected .plus))
       | _ => .error (.unexpected .plus))
    | .brackOpen => .ok (((desc.getD []).flatten), rest)
    | _ => .error (.unexpected k)

/-- `EntityDef.parse(fgd, tok, ent_type)` after the `@Kind` keyword. -/
def parseEnt (P : ParseCfg) (tab : EntTab) (defined : List Str) (kind : Nat) (toks : List Tk) :
    Except PErr (ParsedEnt × List Tk) :=
  match parseHeader P tab defined (2 * toks.length + 2) toks {} with
  | .error e => .error e
  | .ok (st, rest0) =>
    -- a helper still waiting for its arguments
    let st1 : Except PErr HdrSt :=
      match st.hc with
      | some cn => .ok { st with helpers := st.helpers ++ [{ name := cn, args := [] }] }
      | none =>
        match st.ht with
        | some t =>
          if t = sAutovis ∨ t = sBase then .error (.unexpected .equals)
          else .ok { st with helpers := st.helpers ++ [{ name := t, args := [] }] }
        | none => .ok st
    match st1 with
    | .error e => .error e
    | .ok st =>
      match expectKind .string rest0 with
      | none => .error (.unexpected .string)
      | some (cn, rest1) =>
        match parseDesc (rest1.length + 1) rest1 none with
        | .error e => .error e
        | .ok (desc, rest2) =>
          if kind = tab.extend then .error .snippet          -- @ExtendClass merging is not modelled
          else
            match parseBodyE P tab (rest2.length + 1) rest2 [] none with
            | .error e => .error e
            | .ok ((items, res), rest3) =>
              .ok ({ kind := kind, classname := strip cn, bases := st.bases, alias := st.alias,
                     helpers := st.helpers, desc := desc, items := items, res := res }, rest3)

def lookupKind (P : ParseCfg) (tab : EntTab) (v : Str) : Option Nat :=
  match P.foldStr v with
  | '@' :: w =>
    let i := (tab.kinds.map (·.2)).idxOf w
    if i < tab.kinds.length then some i else none
  | _ => none

/-- The top-level loop of `FGD.parse_file` restricted to entity definitions. -/
def parseFile (P : ParseCfg) (tab : EntTab) : Nat → List Tk → List ParsedEnt → Except PErr (List ParsedEnt)
  | 0, _, _ => .error .eof
  | _ + 1, [], acc => .ok acc
  | fuel + 1, (k, v) :: rest, acc =>
    match k with
    | .newline => parseFile P tab fuel rest acc
    | .eof => .ok acc
    | .string =>
      match lookupKind P tab v with
      | none => .error .snippet           -- @include, @mapsize, … or a bad keyword: not modelled
      | some kind =>
        match parseEnt P tab (acc.map fun e => P.foldStr e.classname) kind rest with
        | .error e => .error e
        | .ok (e, rest') => parseFile P tab fuel rest' (acc ++ [e])
    | _ => .error (.unexpected k)

end C16.KV
