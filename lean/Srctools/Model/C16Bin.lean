/-!
# C16 (ii) — binary engine database: `BinStrDict` and the per-record (un)serialisers

Model of `srctools/_engine_db.py` over byte lists (`List Nat`, every element `< 256`):

* `StrDict` = `BinStrDict`: `index`/`encode` = `__call__` (strings of the shared base dictionary keep their
  index, block-local strings get `SHARED_STRINGS + position`), `table` = the list `make_lookup` indexes
  (`base + inv_list`), `readStr` = the closure returned by `make_lookup`.
* `kvSer`/`kvUnser` = `kv_serialise`/`kv_unserialise`, `ioSer`/`ioUnser` = `iodef_(un)serialise`,
  `entSer`/`entUnser` = `ent_(un)serialise` (header `<BBBBBB`, bases, keyvalues, inputs, outputs,
  resources with optional tags).
  Value types and file types are their positions in `VALUE_TYPE_ORDER` / `FILE_TYPE_ORDER`
  (tools/gen_fgdw.py extracts the tables; `spawnflags`/`choices` positions are parameters).
  `struct.pack('<B'/'<H')` range errors, tagged keyvalues and CHOICES (`ValueError` in the code) make the
  serialiser return `none`.

Core Lean only (linked into drv_c16).
-/
namespace C16.Bin

abbrev Bytes := List Nat
abbrev Str := List Char

/-- `struct.pack('<B', n)` -/
def pack8 (n : Nat) : Option Bytes := if n < 256 then some [n] else none
/-- `struct.pack('<H', n)` -/
def pack16 (n : Nat) : Option Bytes := if n < 65536 then some [n % 256, n / 256] else none

/-- `BinStrDict`. For the base dictionary (`base is None`) `base_dict is _dict`: `isBase`. -/
structure StrDict where
  shared : Nat
  base : List Str
  own : List Str
  isBase : Bool
deriving Repr

def idxOf? (l : List Str) (s : Str) : Option Nat :=
  let i := l.idxOf s
  if i < l.length then some i else none

/-- The integer `BinStrDict.__call__` packs (KeyError = none). -/
def StrDict.index (d : StrDict) (s : Str) : Option Nat :=
  if d.isBase then idxOf? d.own s
  else match idxOf? d.base s with
    | some i => some i
    | none => (idxOf? d.own s).map (d.shared + ·)

def StrDict.encode (d : StrDict) (s : Str) : Option Bytes := (d.index s).bind pack16

/-- The list the reader indexes: `base + inv_list`. -/
def StrDict.table (d : StrDict) : List Str := if d.isBase then d.own else d.base ++ d.own

/-- A reader: consumes a prefix of the bytes. -/
abbrev Rd (α : Type) := Bytes → Option (α × Bytes)

def readByte : Rd Nat
  | b :: rest => some (b, rest)
  | [] => none

/-- `make_lookup(file, table)()`: two bytes little endian, then index (IndexError = none). -/
def readStr (tbl : List Str) : Rd Str
  | b0 :: b1 :: rest => (tbl[b0 + 256 * b1]?).map (·, rest)
  | _ => none

/-- Run a reader `n` times. -/
def readN {α : Type} (r : Rd α) : Nat → Rd (List α)
  | 0, bs => some ([], bs)
  | n + 1, bs => match r bs with
    | none => none
    | some (a, bs') => match readN r n bs' with
      | none => none
      | some (as, bs'') => some (a :: as, bs'')

def catOpts : List (Option Bytes) → Option Bytes
  | [] => some []
  | none :: _ => none
  | some b :: rest => (catOpts rest).map (b ++ ·)

/-! ## keyvalues -/

structure Flag where
  mask : Nat
  name : Str
  dflt : Bool
  tagged : Bool := false
deriving Repr, DecidableEq

/-- A `KVDef` as far as the binary format looks at it. `typ` is the position in `VALUE_TYPE_ORDER`. -/
structure KV where
  name : Str
  disp : Str
  typ : Nat
  readonly : Bool
  default : Str
  flags : List Flag          -- `flags_list` (only read for SPAWNFLAGS)
  desc : Str := []
  reportable : Bool := false
deriving Repr, DecidableEq

/-- Positions of the two special types in `VALUE_TYPE_ORDER`. -/
structure TypeCfg where
  choices : Nat
  spawnflags : Nat
  nTypes : Nat
  nFileTypes : Nat
deriving Repr

def flagSer (d : StrDict) (f : Flag) : Option Bytes :=
  if f.tagged || f.mask == 0 then none     -- ValueError('Cannot use tags!') / math.log2(0)
  else
    let power := Nat.log2 f.mask
    if power ≥ 128 then none
    else catOpts [pack8 (if f.dflt then power ||| 128 else power), d.encode f.name]

def kvSer (c : TypeCfg) (d : StrDict) (kv : KV) : Option Bytes :=
  let vt := if kv.readonly then kv.typ ||| 128 else kv.typ
  if kv.typ = c.spawnflags then
    catOpts ([d.encode kv.name, d.encode kv.disp, pack8 vt, pack8 kv.flags.length]
      ++ kv.flags.map (flagSer d))
  else if kv.typ = c.choices then none
  else catOpts [d.encode kv.name, d.encode kv.disp, pack8 vt, d.encode kv.default]

def flagUnser (tbl : List Str) : Rd Flag := fun bs =>
  match readByte bs with
  | none => none
  | some (power, bs1) => match readStr tbl bs1 with
    | none => none
    | some (nm, bs2) => some ({ mask := 1 <<< (power &&& 127), name := nm, dflt := power &&& 128 != 0 }, bs2)

def kvUnser (c : TypeCfg) (tbl : List Str) : Rd KV := fun bs =>
  match readStr tbl bs with
  | none => none
  | some (name, bs1) => match readStr tbl bs1 with
    | none => none
    | some (disp, bs2) => match readByte bs2 with
      | none => none
      | some (vi, bs3) =>
        let ro := vi &&& 128 != 0
        let typ := vi &&& 127
        if typ ≥ c.nTypes then none          -- IndexError
        else if typ = c.spawnflags then
          match readByte bs3 with
          | none => none
          | some (cnt, bs4) => match readN (flagUnser tbl) cnt bs4 with
            | none => none
            | some (fl, bs5) =>
              some ({ name := name, disp := disp, typ := typ, readonly := ro, default := [], flags := fl }, bs5)
        else match readStr tbl bs3 with
          | none => none
          | some (dv, bs4) =>
            some ({ name := name, disp := disp, typ := typ, readonly := ro, default := dv, flags := [] }, bs4)

/-- What the format keeps of a keyvalue. -/
def kvStrip (c : TypeCfg) (kv : KV) : KV :=
  if kv.typ = c.spawnflags then
    { kv with default := [], desc := [], reportable := false }
  else { kv with flags := [], desc := [], reportable := false }

/-! ## inputs / outputs -/

structure IO where
  name : Str
  typ : Nat
  desc : Str := []
deriving Repr, DecidableEq

def ioSer (d : StrDict) (io : IO) : Option Bytes := catOpts [d.encode io.name, pack8 io.typ]

def ioUnser (c : TypeCfg) (tbl : List Str) : Rd IO := fun bs =>
  match readStr tbl bs with
  | none => none
  | some (name, bs1) => match readByte bs1 with
    | none => none
    | some (t, bs2) => if t ≥ c.nTypes then none else some ({ name := name, typ := t }, bs2)

/-! ## resources and whole entities -/

structure Res where
  file : Str
  typ : Nat
  tags : List Str
deriving Repr, DecidableEq

def resSer (d : StrDict) (r : Res) : Option Bytes :=
  if r.tags.isEmpty then catOpts [pack8 r.typ, d.encode r.file]
  else catOpts ([pack8 (r.typ ||| 128), pack8 r.tags.length] ++ r.tags.map d.encode ++ [d.encode r.file])

def resUnser (c : TypeCfg) (tbl : List Str) : Rd Res := fun bs =>
  match readByte bs with
  | none => none
  | some (fi, bs1) =>
    if fi &&& 127 ≥ c.nFileTypes then none
    else if fi &&& 128 != 0 then
      match readByte bs1 with
      | none => none
      | some (cnt, bs2) => match readN (readStr tbl) cnt bs2 with
        | none => none
        | some (tags, bs3) => match readStr tbl bs3 with
          | none => none
          | some (f, bs4) => some ({ file := f, typ := fi &&& 127, tags := tags }, bs4)
    else match readStr tbl bs1 with
      | none => none
      | some (f, bs2) => some ({ file := f, typ := fi &&& 127, tags := [] }, bs2)

/-- An `EntityDef` as far as the binary format looks at it. `kind` = `EntFlags.TYPE_*` (0..7). -/
structure Ent where
  kind : Nat
  alias : Bool
  bases : List Str
  kvs : List KV
  inputs : List IO
  outputs : List IO
  res : List Res
deriving Repr, DecidableEq

def entSer (c : TypeCfg) (d : StrDict) (e : Ent) : Option Bytes :=
  if e.kind ≥ 8 then none else
  catOpts ([pack8 (if e.alias then e.kind ||| 8 else e.kind), pack8 e.bases.length, pack8 e.kvs.length,
            pack8 e.inputs.length, pack8 e.outputs.length, pack8 e.res.length]
    ++ e.bases.map d.encode ++ e.kvs.map (kvSer c d) ++ e.inputs.map (ioSer d)
    ++ e.outputs.map (ioSer d) ++ e.res.map (resSer d))

def entUnser (c : TypeCfg) (tbl : List Str) : Rd Ent := fun bs =>
  match bs with
  | fl :: nb :: nk :: ni :: no :: nr :: bs1 =>
    match readN (readStr tbl) nb bs1 with
    | none => none
    | some (bases, bs2) => match readN (kvUnser c tbl) nk bs2 with
      | none => none
      | some (kvs, bs3) => match readN (ioUnser c tbl) ni bs3 with
        | none => none
        | some (ins, bs4) => match readN (ioUnser c tbl) no bs4 with
          | none => none
          | some (outs, bs5) => match readN (resUnser c tbl) nr bs5 with
            | none => none
            | some (res, bs6) =>
              some ({ kind := fl &&& 7, alias := fl &&& 8 != 0, bases := bases, kvs := kvs,
                      inputs := ins, outputs := outs, res := res }, bs6)
  | _ => none

def entStrip (c : TypeCfg) (e : Ent) : Ent :=
  { e with kvs := e.kvs.map (kvStrip c),
           inputs := e.inputs.map fun io => { io with desc := [] },
           outputs := e.outputs.map fun io => { io with desc := [] } }

end C16.Bin
