import Srctools.Model.C11
/-!
# C11 — lumps with cross references: faces, brushes + sides, nodes, leafs (+ leaf faces / brushes)

Objects that the Python code compares by identity (planes, texinfo, edges, primitives, faces,
brushes, sides, leafs, nodes) are represented by **object numbers** (`Nat`); a table (`bsp.planes`,
`bsp.surfedges`, …) is the list of the numbers of its elements.  The writers are modelled as coded:
one `find_or_insert` / `find_or_extend` closure per table, created when the writer starts, called
in the order the source calls them; a missing reference is written as `-1`; the readers resolve
indices with Python's indexing (negative = from the end).

A writer returns the *records* (one `List Val` per element, in the field order of the struct
format, ready for `StructCodec.pack` with the layout's format), the side arrays, and the tables
after its appends.  Core Lean only.
-/
namespace C11
open StructCodec

abbrev IdFinder := Finder Nat Nat
abbrev IdEFinder := EFinder Nat Nat

def idKey (x : Nat) : Nat := x

/-- Python `l[i]` for a possibly negative `i` -/
def pyIdx (l : List Nat) (i : Int) : Option Nat :=
  if 0 ≤ i then l[i.toNat]? else if (-i).toNat ≤ l.length then l[l.length - (-i).toNat]? else none

/-- Python `l[a : a + n]` for non-negative `a` -/
def pySlice (l : List Nat) (a n : Nat) : List Nat := (l.drop a).take n

/-! ## faces (`_write_faces_common` / `_read_faces_common`, non-VitaminSource) -/

structure FaceV where
  plane : Nat
  sameDir : Bool
  onNode : Bool
  edges : List Nat
  texinfo : Option Nat
  dispinfo : Int
  fog : Int
  lightStyles : Bytes
  lightOff : Int
  area : UInt32
  lmMinsX : Int
  lmMinsY : Int
  lmSizeX : Int
  lmSizeY : Int
  origFace : Option Nat
  prims : List Nat
  dynShadows : Bool
  smoothing : Int
  hammerId : Option Int
deriving Repr, DecidableEq

/-- the tables the faces writer appends to -/
structure FaceTabs where
  texinfo : List Nat
  planes : List Nat
  surfedges : List Nat
  prims : List Nat
  origFaces : List Nat
deriving Repr, DecidableEq

structure FaceSt where
  fTex : IdFinder
  fPlane : IdFinder
  eEdges : IdEFinder
  ePrims : IdEFinder
  fOrig : IdFinder
  hids : List Int

def FaceSt.init (t : FaceTabs) : FaceSt :=
  { fTex := Finder.mk' idKey t.texinfo, fPlane := Finder.mk' idKey t.planes,
    eEdges := EFinder.mk' idKey t.surfedges, ePrims := EFinder.mk' idKey t.prims,
    fOrig := Finder.mk' idKey t.origFaces, hids := [] }

def FaceSt.tabs (s : FaceSt) : FaceTabs :=
  { texinfo := s.fTex.list, planes := s.fPlane.list, surfedges := s.eEdges.list, prims := s.ePrims.list,
    origFaces := s.fOrig.list }

/-- One iteration of the loop of `_write_faces_common`. `useOrig` = `get_orig_face is not None`
(the faces / hdr_faces lumps; false for the orig-faces lump). -/
def writeFace (bounded useOrig : Bool) (s : FaceSt) (f : FaceV) : Except LumpErr (List Val × FaceSt) :=
  -- orig_ind, hammer id
  let ro : Int × IdFinder × List Int :=
    match f.origFace, useOrig with
    | some o, true => (((s.fOrig.call idKey o).1 : Nat), (s.fOrig.call idKey o).2, s.hids ++ [f.hammerId.getD 0])
    | _, _ => (-1, s.fOrig, s.hids)
  let rt : Int × IdFinder :=
    match f.texinfo with
    | some t => (((s.fTex.call idKey t).1 : Nat), (s.fTex.call idKey t).2)
    | none => (-1, s.fTex)
  if 0x7fff < f.prims.length then .error .range
  else if 4 < f.lightStyles.length then .error .tooLong
  else
    let primCount : Nat := if f.dynShadows then f.prims.length else f.prims.length + 0x8000
    let rp := s.fPlane.call idKey f.plane
    let re := s.eEdges.call bounded idKey f.edges
    let rq := s.ePrims.call bounded idKey f.prims
    .ok ([.int rp.1, .bool f.sameDir, .bool f.onNode, .int re.1, .int f.edges.length, .int rt.1,
          .int f.dispinfo, .int f.fog, .bytes f.lightStyles, .int f.lightOff, .f32 f.area,
          .int f.lmMinsX, .int f.lmMinsY, .int f.lmSizeX, .int f.lmSizeY,
          .int ro.1, .int primCount, .int rq.1, .int f.smoothing],
         { fTex := rt.2, fPlane := rp.2, eEdges := re.2, ePrims := rq.2, fOrig := ro.2.1, hids := ro.2.2 })

def writeFacesAux (bounded useOrig : Bool) : FaceSt → List FaceV → Except LumpErr (List (List Val) × FaceSt)
  | s, [] => .ok ([], s)
  | s, f :: fs =>
    match writeFace bounded useOrig s f with
    | .error e => .error e
    | .ok (r, s') =>
      match writeFacesAux bounded useOrig s' fs with
      | .error e => .error e
      | .ok (rs, s'') => .ok (r :: rs, s'')

/-- `_write_faces_common`: records, the FACEIDS array, the tables afterwards. -/
def writeFaces (bounded useOrig : Bool) (t : FaceTabs) (fs : List FaceV) :
    Except LumpErr (List (List Val) × List Int × FaceTabs) :=
  match writeFacesAux bounded useOrig (FaceSt.init t) fs with
  | .error e => .error e
  | .ok (rs, s) => .ok (rs, s.hids, s.tabs)

/-- One record of `_read_faces_common`. `i` = position of the face (index into FACEIDS). -/
def readFace (withOrig : Bool) (t : FaceTabs) (hids : List Int) (i : Nat) (r : List Val) : Except LumpErr FaceV :=
  match r with
  | [.int pl, .bool sd, .bool on, .int fe, .int ne, .int ti, .int di, .int fog, .bytes ls, .int lo, .f32 ar,
     .int mx, .int my, .int sx, .int sy, .int oi, .int pn, .int pf, .int sm] =>
    match pyIdx t.planes pl with
    | none => .error .badData
    | some plane =>
      let primNum := pn.toNat
      let prims := pySlice t.prims pf.toNat (primNum % 0x8000)
      let dyn := primNum / 0x8000 % 2 == 0
      let edges := pySlice t.surfedges fe.toNat ne.toNat
      if withOrig then
        match pyIdx t.origFaces oi, pyIdx t.texinfo ti with
        | some o, some tx =>
          .ok { plane := plane, sameDir := sd, onNode := on, edges := edges, texinfo := some tx, dispinfo := di,
                fog := fog, lightStyles := ls, lightOff := lo, area := ar, lmMinsX := mx, lmMinsY := my,
                lmSizeX := sx, lmSizeY := sy, origFace := some o, prims := prims, dynShadows := dyn,
                smoothing := sm, hammerId := hids[i]? }
        | _, _ => .error .badData
      else
        .ok { plane := plane, sameDir := sd, onNode := on, edges := edges, texinfo := none, dispinfo := di,
              fog := fog, lightStyles := ls, lightOff := lo, area := ar, lmMinsX := mx, lmMinsY := my,
              lmSizeX := sx, lmSizeY := sy, origFace := none, prims := prims, dynShadows := dyn,
              smoothing := sm, hammerId := none }
  | _ => .error .badData

def readFacesFrom (withOrig : Bool) (t : FaceTabs) (hids : List Int) : Nat → List (List Val) → Except LumpErr (List FaceV)
  | _, [] => .ok []
  | i, r :: rs =>
    match readFace withOrig t hids i r with
    | .error e => .error e
    | .ok f =>
      match readFacesFrom withOrig t hids (i + 1) rs with
      | .error e => .error e
      | .ok fs => .ok (f :: fs)

def readFaces (withOrig : Bool) (t : FaceTabs) (hids : List Int) (rs : List (List Val)) : Except LumpErr (List FaceV) :=
  readFacesFrom withOrig t hids 0 rs


/-! ## brushes + brush sides (`_lmp_write_brushes` / `_lmp_read_brushes`) -/

/-- a brush side: plane and texinfo by object number -/
structure SideV where
  plane : Nat
  texinfo : Nat
  dispinfo : Int
  bevel : Bool
  /-- `_unknown_bevel_bits` -/
  bits : Nat
deriving Repr, DecidableEq

structure BrushV where
  contents : Int
  /-- object numbers of the sides (sides may be shared between brushes) -/
  sides : List Nat
deriving Repr, DecidableEq

structure BrushTabs where
  planes : List Nat
  texinfo : List Nat
deriving Repr, DecidableEq

/-- first loop: one `<iii` record per brush; the local `sides` table is built by `find_or_extend` -/
def writeBrushRecs (bounded : Bool) : IdEFinder → List BrushV → List (List Val) × IdEFinder
  | e, [] => ([], e)
  | e, b :: bs =>
    let r := e.call bounded idKey b.sides
    let t := writeBrushRecs bounded r.2 bs
    ([.int r.1, .int b.sides.length, .int b.contents] :: t.1, t.2)

/-- the bevel field outside VitaminSource: `is_bevel_plane | _unknown_bevel_bits` -/
def bevelField (s : SideV) : Nat := (if s.bevel then 1 else 0) ||| s.bits

/-- second loop: one record per entry of the local side table -/
def writeSideRecs (vitamin : Bool) (sd : Nat → SideV) : IdFinder → IdFinder → List Nat → List (List Val) × IdFinder × IdFinder
  | fp, ft, [] => ([], fp, ft)
  | fp, ft, x :: xs =>
    let rp := fp.call idKey (sd x).plane
    let rt := ft.call idKey (sd x).texinfo
    let t := writeSideRecs vitamin sd rp.2 rt.2 xs
    -- (VitaminSource packs the bool `is_bevel_plane` into a `B` field: a Python bool is an int)
    ((if vitamin then [.int rp.1, .int rt.1, .int (sd x).dispinfo, .int (if (sd x).bevel then 1 else 0), .int (sd x).bits]
      else [.int rp.1, .int rt.1, .int (sd x).dispinfo, .int (bevelField (sd x))]) :: t.1, t.2)

/-- `_lmp_write_brushes`: (brush records, side records, tables afterwards) -/
def writeBrushes (bounded vitamin : Bool) (sd : Nat → SideV) (t : BrushTabs) (bs : List BrushV) :
    List (List Val) × List (List Val) × BrushTabs :=
  let r1 := writeBrushRecs bounded (EFinder.mk' idKey []) bs
  let r2 := writeSideRecs vitamin sd (Finder.mk' idKey t.planes) (Finder.mk' idKey t.texinfo) r1.2.list
  (r1.1, r2.1, { planes := r2.2.1.list, texinfo := r2.2.2.list })

/-- what the reader returns for a brush: contents and the *values* of its sides -/
abbrev BrushR := Int × List SideV

def readSide (vitamin : Bool) (t : BrushTabs) (r : List Val) : Except LumpErr SideV :=
  if vitamin then
    match r with
    | [.int pn, .int ti, .int di, .int bv, .int bits] =>
      match pyIdx t.planes pn, pyIdx t.texinfo ti with
      | some p, some x => .ok { plane := p, texinfo := x, dispinfo := di, bevel := bv != 0, bits := bits.toNat }
      | _, _ => .error .badData
    | _ => .error .badData
  else
    match r with
    | [.int pn, .int ti, .int di, .int bv] =>
      match pyIdx t.planes pn, pyIdx t.texinfo ti with
      | some p, some x => .ok { plane := p, texinfo := x, dispinfo := di, bevel := bv.toNat % 2 == 1, bits := bv.toNat - bv.toNat % 2 }
      | _, _ => .error .badData
    | _ => .error .badData

def readSides (vitamin : Bool) (t : BrushTabs) : List (List Val) → Except LumpErr (List SideV)
  | [] => .ok []
  | r :: rs =>
    match readSide vitamin t r with
    | .error e => .error e
    | .ok s =>
      match readSides vitamin t rs with
      | .error e => .error e
      | .ok ss => .ok (s :: ss)

def readBrushRec (sides : List SideV) (r : List Val) : Except LumpErr BrushR :=
  match r with
  | [.int first, .int count, .int contents] => .ok (contents, (sides.drop first.toNat).take count.toNat)
  | _ => .error .badData

def readBrushRecs (sides : List SideV) : List (List Val) → Except LumpErr (List BrushR)
  | [] => .ok []
  | r :: rs =>
    match readBrushRec sides r with
    | .error e => .error e
    | .ok b =>
      match readBrushRecs sides rs with
      | .error e => .error e
      | .ok bs => .ok (b :: bs)

/-- `_lmp_read_brushes` -/
def readBrushes (vitamin : Bool) (t : BrushTabs) (brushRecs sideRecs : List (List Val)) : Except LumpErr (List BrushR) :=
  match readSides vitamin t sideRecs with
  | .error e => .error e
  | .ok sides => readBrushRecs sides brushRecs


/-! ## leafs + leaf faces + leaf brushes (`_lmp_write_visleafs` / `_lmp_read_visleafs`) -/

structure LeafV where
  contents : Int
  cluster : Int
  area : Nat
  flags : Nat
  /-- mins.x … maxes.z as packed: ints (`int(v)`), floats in the Chaos layout, as given -/
  b0 : Val
  b1 : Val
  b2 : Val
  b3 : Val
  b4 : Val
  b5 : Val
  faces : List Nat
  brushes : List Nat
  water : Int
  ambient : Bytes
  minDist : Int
deriving Repr, DecidableEq

structure LeafTabs where
  faces : List Nat
  brushes : List Nat
deriving Repr, DecidableEq

/-- layout knobs of the leaf record -/
structure LeafCfg where
  vitamin : Bool
  /-- `self.version <= 19`: the record ends with 24 bytes of ambient lighting -/
  hasAmbient : Bool
  /-- `LEAF_AREA_OFFSET` -/
  areaOff : Nat
deriving Repr, DecidableEq

structure LeafSt where
  fFace : IdFinder
  fBrush : IdFinder
  leafFaces : List Nat
  leafBrushes : List Nat
  dists : List Int

def writeLeaf (c : LeafCfg) (s : LeafSt) (l : LeafV) : List Val × LeafSt :=
  let rf := Finder.callAll idKey s.fFace l.faces
  let rb := Finder.callAll idKey s.fBrush l.brushes
  let faceInd := s.leafFaces.length
  let brushInd := s.leafBrushes.length
  let s' : LeafSt := { fFace := rf.2, fBrush := rb.2, leafFaces := s.leafFaces ++ rf.1,
                       leafBrushes := s.leafBrushes ++ rb.1, dists := s.dists ++ [l.minDist] }
  if c.vitamin then
    ([.int l.contents, .int l.cluster, .int l.area, l.b0, l.b1, l.b2, l.b3, l.b4, l.b5,
      .int faceInd, .int l.faces.length, .int brushInd, .int l.brushes.length, .int l.water, .int l.flags], s')
  else
    ([.int l.contents, .int l.cluster, .int ((l.area <<< c.areaOff) ||| l.flags), l.b0, l.b1, l.b2, l.b3, l.b4, l.b5,
      .int faceInd, .int l.faces.length, .int brushInd, .int l.brushes.length, .int l.water]
      ++ (if c.hasAmbient then [.bytes l.ambient] else []), s')

def writeLeafsAux (c : LeafCfg) : LeafSt → List LeafV → List (List Val) × LeafSt
  | s, [] => ([], s)
  | s, l :: ls =>
    ((writeLeaf c s l).1 :: (writeLeafsAux c (writeLeaf c s l).2 ls).1, (writeLeafsAux c (writeLeaf c s l).2 ls).2)

/-- `_lmp_write_visleafs`: leaf records, LEAFFACES, LEAFBRUSHES, LEAFMINDISTTOWATER arrays, tables -/
def writeLeafs (c : LeafCfg) (t : LeafTabs) (ls : List LeafV) :
    List (List Val) × List Nat × List Nat × List Int × LeafTabs :=
  let r := writeLeafsAux c { fFace := Finder.mk' idKey t.faces, fBrush := Finder.mk' idKey t.brushes,
                             leafFaces := [], leafBrushes := [], dists := [] } ls
  (r.1, r.2.leafFaces, r.2.leafBrushes, r.2.dists, { faces := r.2.fFace.list, brushes := r.2.fBrush.list })

/-- `list(map(table.__getitem__, index_array))` -/
def resolveArr (tbl : List Nat) : List Nat → Except LumpErr (List Nat)
  | [] => .ok []
  | i :: is =>
    match tbl[i]?, resolveArr tbl is with
    | some x, .ok xs => .ok (x :: xs)
    | _, _ => .error .badData

def zeros24 : Bytes := List.replicate 24 0

def readLeaf (c : LeafCfg) (lf lb : List Nat) (r : List Val) (dist : Int) : Except LumpErr LeafV :=
  if c.vitamin then
    match r with
    | [.int co, .int cl, .int ar, b0, b1, b2, b3, b4, b5, .int ff, .int nf, .int fb, .int nb, .int w, .int fl] =>
      .ok { contents := co, cluster := cl, area := ar.toNat, flags := fl.toNat, b0 := b0, b1 := b1, b2 := b2, b3 := b3,
            b4 := b4, b5 := b5, faces := pySlice lf ff.toNat nf.toNat, brushes := pySlice lb fb.toNat nb.toNat,
            water := w, ambient := zeros24, minDist := dist }
    | _ => .error .badData
  else
    let mk (co cl af : Int) (b0 b1 b2 b3 b4 b5 : Val) (ff nf fb nb w : Int) (amb : Bytes) : LeafV :=
      { contents := co, cluster := cl, area := af.toNat >>> c.areaOff, flags := af.toNat &&& (1 <<< c.areaOff - 1),
        b0 := b0, b1 := b1, b2 := b2, b3 := b3, b4 := b4, b5 := b5,
        faces := pySlice lf ff.toNat nf.toNat, brushes := pySlice lb fb.toNat nb.toNat,
        water := w, ambient := amb, minDist := dist }
    if c.hasAmbient then
      match r with
      | [.int co, .int cl, .int af, b0, b1, b2, b3, b4, b5, .int ff, .int nf, .int fb, .int nb, .int w, .bytes amb] =>
        .ok (mk co cl af b0 b1 b2 b3 b4 b5 ff nf fb nb w amb)
      | _ => .error .badData
    else
      match r with
      | [.int co, .int cl, .int af, b0, b1, b2, b3, b4, b5, .int ff, .int nf, .int fb, .int nb, .int w] =>
        .ok (mk co cl af b0 b1 b2 b3 b4 b5 ff nf fb nb w zeros24)
      | _ => .error .badData

/-- `for leaf_data, water_dist in zip(records, dist_to_water)` -/
def readLeafRecs (c : LeafCfg) (lf lb : List Nat) : List (List Val) → List Int → Except LumpErr (List LeafV)
  | r :: rs, d :: ds =>
    match readLeaf c lf lb r d with
    | .error e => .error e
    | .ok l =>
      match readLeafRecs c lf lb rs ds with
      | .error e => .error e
      | .ok ls => .ok (l :: ls)
  | _, _ => .ok []

/-- `_lmp_read_visleafs` -/
def readLeafs (c : LeafCfg) (t : LeafTabs) (recs : List (List Val)) (leafFaces leafBrushes : List Nat) (dists : List Int) :
    Except LumpErr (List LeafV) :=
  match resolveArr t.brushes leafBrushes, resolveArr t.faces leafFaces with
  | .ok lb, .ok lf => readLeafRecs c lf lb recs dists
  | _, _ => .error .badData


/-! ## nodes (`_lmp_write_nodes` / `_lmp_read_nodes`) -/

inductive ChildV where
  | leaf (id : Nat)
  | node (id : Nat)
deriving Repr, DecidableEq

structure NodeV where
  plane : Nat
  b0 : Val
  b1 : Val
  b2 : Val
  b3 : Val
  b4 : Val
  b5 : Val
  faces : List Nat
  area : Int
  neg : ChildV
  pos : ChildV
deriving Repr, DecidableEq

structure NodeTabs where
  planes : List Nat
  leafs : List Nat
  faces : List Nat
deriving Repr, DecidableEq

structure NodeSt where
  fNode : IdFinder
  fPlane : IdFinder
  fLeaf : IdFinder
  eFaces : IdEFinder

/-- index of a child: leafs are `-(index + 1)` -/
def childIdx (fNode fLeaf : IdFinder) : ChildV → Int × IdFinder × IdFinder
  | .leaf l => (-(((fLeaf.call idKey l).1 : Nat) + 1 : Int), fNode, (fLeaf.call idKey l).2)
  | .node c => (((fNode.call idKey c).1 : Nat), (fNode.call idKey c).2, fLeaf)

/-- one iteration of `for node in nodes` (child_pos is resolved before child_neg) -/
def writeNode (bounded : Bool) (s : NodeSt) (n : NodeV) : List Val × NodeSt :=
  let rp := childIdx s.fNode s.fLeaf n.pos
  let rn := childIdx rp.2.1 rp.2.2 n.neg
  let rpl := s.fPlane.call idKey n.plane
  let rf := s.eFaces.call bounded idKey n.faces
  ([.int rpl.1, .int rn.1, .int rp.1, n.b0, n.b1, n.b2, n.b3, n.b4, n.b5, .int rf.1, .int n.faces.length, .int n.area],
   { fNode := rn.2.1, fPlane := rpl.2, fLeaf := rn.2.2, eFaces := rf.2 })

/-- the loop over the growing `nodes` list: `k` = position of the next node; `none` = out of fuel -/
def writeNodesAux (bounded : Bool) (nd : Nat → NodeV) : Nat → Nat → NodeSt → Option (List (List Val) × NodeSt)
  | 0, k, s => if s.fNode.list.length ≤ k then some ([], s) else none
  | fuel + 1, k, s =>
    match s.fNode.list[k]? with
    | none => some ([], s)
    | some x =>
      match writeNodesAux bounded nd fuel (k + 1) (writeNode bounded s (nd x)).2 with
      | none => none
      | some (rs, s') => some ((writeNode bounded s (nd x)).1 :: rs, s')

/-- `_lmp_write_nodes`: records, the final node list, the other tables -/
def writeNodes (bounded : Bool) (nd : Nat → NodeV) (fuel : Nat) (nodes : List Nat) (t : NodeTabs) :
    Option (List (List Val) × List Nat × NodeTabs) :=
  match writeNodesAux bounded nd fuel 0 (NodeSt.mk (Finder.mk' idKey nodes) (Finder.mk' idKey t.planes)
      (Finder.mk' idKey t.leafs) (EFinder.mk' idKey t.faces)) with
  | none => none
  | some (rs, s) => some (rs, s.fNode.list, { planes := s.fPlane.list, leafs := s.fLeaf.list, faces := s.eFaces.list })

/-- `visleafs[-1 - ind]` / `nodes[ind][0]` -/
def readChild (t : NodeTabs) (nodeIds : List Nat) (ind : Int) : Option ChildV :=
  if ind < 0 then (t.leafs[(-1 - ind).toNat]?).map ChildV.leaf else (nodeIds[ind.toNat]?).map ChildV.node

def readNode (t : NodeTabs) (nodeIds : List Nat) (r : List Val) : Except LumpErr NodeV :=
  match r with
  | [.int pi, .int ni, .int psi, b0, b1, b2, b3, b4, b5, .int ff, .int fc, .int ar] =>
    match pyIdx t.planes pi, readChild t nodeIds ni, readChild t nodeIds psi with
    | some p, some cn, some cp =>
      .ok { plane := p, b0 := b0, b1 := b1, b2 := b2, b3 := b3, b4 := b4, b5 := b5,
            faces := pySlice t.faces ff.toNat fc.toNat, area := ar, neg := cn, pos := cp }
    | _, _, _ => .error .badData
  | _ => .error .badData

/-- `_lmp_read_nodes`; `nodeIds[k]` names the k-th node object the reader creates -/
def readNodes (t : NodeTabs) (nodeIds : List Nat) : List (List Val) → Except LumpErr (List NodeV)
  | [] => .ok []
  | r :: rs =>
    match readNode t nodeIds r with
    | .error e => .error e
    | .ok n =>
      match readNodes t nodeIds rs with
      | .error e => .error e
      | .ok ns => .ok (n :: ns)


/-! ## texinfo + texdata (`_lmp_write_texinfo` / `_lmp_read_texinfo`) -/

/-- texture names are numbered; `fold` plays `str.casefold` on the numbers -/
structure TexDataV where
  mat : Nat
  r0 : UInt32
  r1 : UInt32
  r2 : UInt32
  width : Int
  height : Int
deriving Repr, DecidableEq

structure TexInfoV where
  /-- the 16 floats: s_off, s_shift, t_off, t_shift, lightmap … -/
  f : List UInt32
  flags : Int
  /-- object number of the TexData -/
  td : Nat
deriving Repr, DecidableEq

/-- what the reader builds: texinfo with its texdata by value -/
structure TexInfoR where
  f : List UInt32
  flags : Int
  td : TexDataV
deriving Repr, DecidableEq

def texdataRec (vitamin : Bool) (d : TexDataV) (texIdx : Nat) : List Val :=
  [.f32 d.r0, .f32 d.r1, .f32 d.r2, .int texIdx, .int d.width, .int d.height]
    ++ (if vitamin then [] else [.int d.width, .int d.height])

/-- `_lmp_write_texinfo`: (texinfo records, texdata records, texture-name table afterwards).
The texdata table is keyed on the TexData object (`texdataTable idKey`), its records are written in
order of first use, and only then `find_or_insert(self.textures, str.casefold)` is asked for the
name — so the name finder sees the materials in that same order. -/
def writeTexinfo (vitamin : Bool) (fold : Nat → Nat) (tdv : Nat → TexDataV) (textures : List Nat) (infos : List TexInfoV) :
    List (List Val) × List (List Val) × List Nat :=
  let tt := texdataTable idKey (infos.map (·.td))
  let names := Finder.callAll fold (Finder.mk' fold textures) (tt.2.map (fun o => (tdv o).mat))
  ((List.zip infos tt.1).map (fun p => (p.1.f.map Val.f32) ++ [.int p.1.flags, .int p.2]),
   (List.zip tt.2 names.1).map (fun p => texdataRec vitamin (tdv p.1) p.2),
   names.2.list)

def readTexdata (vitamin : Bool) (textures : List Nat) (r : List Val) : Except LumpErr TexDataV :=
  if vitamin then
    match r with
    | [.f32 a, .f32 b, .f32 c, .int ti, .int w, .int h] =>
      match pyIdx textures ti with
      | some m => .ok { mat := m, r0 := a, r1 := b, r2 := c, width := w, height := h }
      | none => .error .badData
    | _ => .error .badData
  else
    match r with
    | [.f32 a, .f32 b, .f32 c, .int ti, .int w, .int h, .int vw, .int vh] =>
      -- `assert vw == w and vh == h`
      if vw = w ∧ vh = h then
        match pyIdx textures ti with
        | some m => .ok { mat := m, r0 := a, r1 := b, r2 := c, width := w, height := h }
        | none => .error .badData
      else .error .badData
    | _ => .error .badData

def readTexdatas (vitamin : Bool) (textures : List Nat) : List (List Val) → Except LumpErr (List TexDataV)
  | [] => .ok []
  | r :: rs =>
    match readTexdata vitamin textures r with
    | .error e => .error e
    | .ok d =>
      match readTexdatas vitamin textures rs with
      | .error e => .error e
      | .ok ds => .ok (d :: ds)

def f32sOf : List Val → Option (List UInt32)
  | [] => some []
  | .f32 x :: vs => (f32sOf vs).map (x :: ·)
  | _ => none

/-- Python `l[i]` (negative = from the end) for any list -/
def pyGet {α : Type} (l : List α) (i : Int) : Option α :=
  if 0 ≤ i then l[i.toNat]? else if (-i).toNat ≤ l.length then l[l.length - (-i).toNat]? else none

def readTexinfoRec (tds : List TexDataV) (r : List Val) : Except LumpErr TexInfoR :=
  match f32sOf (r.take 16), r.drop 16 with
  | some fs, [.int flags, .int ti] =>
    match pyGet tds ti with
    | some d => .ok { f := fs, flags := flags, td := d }
    | none => .error .badData
  | _, _ => .error .badData

def readTexinfoRecs (tds : List TexDataV) : List (List Val) → Except LumpErr (List TexInfoR)
  | [] => .ok []
  | r :: rs =>
    match readTexinfoRec tds r with
    | .error e => .error e
    | .ok x =>
      match readTexinfoRecs tds rs with
      | .error e => .error e
      | .ok xs => .ok (x :: xs)

/-- `_lmp_read_texinfo` -/
def readTexinfo (vitamin : Bool) (textures : List Nat) (infoRecs dataRecs : List (List Val)) : Except LumpErr (List TexInfoR) :=
  match readTexdatas vitamin textures dataRecs with
  | .error e => .error e
  | .ok tds => readTexinfoRecs tds infoRecs

/-! ## primitives (`_lmp_write_primitives` / `_lmp_read_primitives`): contiguous side arrays, no de-duplication -/

structure PrimV where
  /-- `is_tristrip`, packed as an integer -/
  typ : Int
  indices : List Int
  /-- vertices as three float bit patterns each -/
  verts : List (UInt32 × UInt32 × UInt32)
deriving Repr, DecidableEq

/-- records, PRIMINDICES, PRIMVERTS -/
def writePrims : List Int → List (UInt32 × UInt32 × UInt32) → List PrimV →
    List (List Val) × List Int × List (UInt32 × UInt32 × UInt32)
  | idx, vs, [] => ([], idx, vs)
  | idx, vs, p :: ps =>
    let t := writePrims (idx ++ p.indices) (vs ++ p.verts) ps
    ([.int p.typ, .int idx.length, .int p.indices.length, .int vs.length, .int p.verts.length] :: t.1, t.2)

def readPrim (idx : List Int) (vs : List (UInt32 × UInt32 × UInt32)) (r : List Val) : Except LumpErr PrimV :=
  match r with
  | [.int ty, .int fi, .int ni, .int fv, .int nv] =>
    .ok { typ := ty, indices := (idx.drop fi.toNat).take ni.toNat, verts := (vs.drop fv.toNat).take nv.toNat }
  | _ => .error .badData

def readPrims (idx : List Int) (vs : List (UInt32 × UInt32 × UInt32)) : List (List Val) → Except LumpErr (List PrimV)
  | [] => .ok []
  | r :: rs =>
    match readPrim idx vs r with
    | .error e => .error e
    | .ok p =>
      match readPrims idx vs rs with
      | .error e => .error e
      | .ok ps => .ok (p :: ps)


/-! ## overlays (`_lmp_write_overlays` / `_lmp_read_overlays`) -/

structure OverlayV where
  id : Int
  texinfo : Nat
  faces : List Int
  renderOrder : Nat
  /-- u/v min/max (4), the four uv handles, origin, normal (18): 22 float bit patterns -/
  floats : List UInt32
  fadeMin : UInt32
  fadeMax : UInt32
  minCpu : Int
  maxCpu : Int
  minGpu : Int
  maxGpu : Int
deriving Repr, DecidableEq

/-- the overlay record as the reader unpacks it: the face array always has `maxFaces` entries, the
unused ones are the writer's pad bytes, i.e. zeros -/
def overlayRec (maxFaces : Nat) (o : OverlayV) (texIdx : Nat) : List Val :=
  [.int o.id, .int texIdx, .int ((o.renderOrder <<< 14) ||| o.faces.length)]
    ++ o.faces.map Val.int ++ List.replicate (maxFaces - o.faces.length) (Val.int 0) ++ o.floats.map Val.f32

/-- records, OVERLAY_FADES records, OVERLAY_SYSTEM_LEVELS records, texinfo table afterwards -/
def writeOverlays (maxFaces : Nat) : IdFinder → List OverlayV →
    Except LumpErr (List (List Val) × List (List Val) × List (List Val) × IdFinder)
  | f, [] => .ok ([], [], [], f)
  | f, o :: os =>
    if maxFaces < o.faces.length then .error .tooLong
    else
      match writeOverlays maxFaces (f.call idKey o.texinfo).2 os with
      | .error e => .error e
      | .ok (rs, fs, ls, f') =>
        .ok (overlayRec maxFaces o (f.call idKey o.texinfo).1 :: rs,
             [.f32 o.fadeMin, .f32 o.fadeMax] :: fs,
             [.int o.minCpu, .int o.maxCpu, .int o.minGpu, .int o.maxGpu] :: ls, f')

def intsOf : List Val → Option (List Int)
  | [] => some []
  | .int x :: vs => (intsOf vs).map (x :: ·)
  | _ => none

/-- one overlay (the aux lumps are assumed present: `zip_longest` with equal lengths) -/
def readOverlay (maxFaces : Nat) (texinfo : List Nat) (r fade lev : List Val) : Except LumpErr OverlayV :=
  match r.take 3, intsOf ((r.drop 3).take maxFaces), f32sOf (r.drop (3 + maxFaces)), fade, lev with
  | [.int id, .int ti, .int fr], some fa, some fl, [.f32 fmin, .f32 fmax], [.int c0, .int c1, .int g0, .int g1] =>
    let cnt := fr.toNat &&& (1 <<< 14 - 1)
    if maxFaces < cnt then .error .badData
    else match pyIdx texinfo ti with
      | some t => .ok { id := id, texinfo := t, faces := fa.take cnt, renderOrder := fr.toNat >>> 14, floats := fl,
                        fadeMin := fmin, fadeMax := fmax, minCpu := c0, maxCpu := c1, minGpu := g0, maxGpu := g1 }
      | none => .error .badData
  | _, _, _, _, _ => .error .badData

def readOverlays (maxFaces : Nat) (texinfo : List Nat) : List (List Val) → List (List Val) → List (List Val) → Except LumpErr (List OverlayV)
  | r :: rs, f :: fs, l :: ls =>
    match readOverlay maxFaces texinfo r f l with
    | .error e => .error e
    | .ok o =>
      match readOverlays maxFaces texinfo rs fs ls with
      | .error e => .error e
      | .ok os => .ok (o :: os)
  | _, _, _ => .ok []

/-! ## surfedges + edges (`_lmp_write_surfedges` / `_lmp_read_surfedges`) -/

/-- a surfedge: an Edge object, or the RevEdge of that Edge -/
structure SurfEdgeV where
  edge : Nat
  reversed : Bool
deriving Repr, DecidableEq

/-- `first_vert`: the first vertex equal to `Vec()`, else a fresh one appended to the table -/
def firstVert (isZero : Nat → Bool) (fresh : Nat) (verts : List Nat) : Nat × List Nat :=
  match verts.find? isZero with
  | some v => (v, verts)
  | none => (fresh, verts ++ [fresh])

def writeSurfIdx : IdFinder → List SurfEdgeV → List Int × IdFinder
  | f, [] => ([], f)
  | f, s :: ss =>
    let r := f.call idKey s.edge
    let t := writeSurfIdx r.2 ss
    ((if s.reversed then -((r.1 : Nat) : Int) else ((r.1 : Nat) : Int)) :: t.1, t.2)

def writeEdgeRecs (ed : Nat → Nat × Nat) : IdFinder → List Nat → List (List Val) × IdFinder
  | f, [] => ([], f)
  | f, e :: es =>
    let ra := f.call idKey (ed e).1
    let rb := ra.2.call idKey (ed e).2
    let t := writeEdgeRecs ed rb.2 es
    ([.int ra.1, .int rb.1] :: t.1, t.2)

/-- `_lmp_write_surfedges`: (surfedge indices, edge records, vertex table afterwards).
`dummy` = the `Edge(first_vert, first_vert)` created for index 0, `fresh` = the `Vec()` created when
the table has no zero vertex; `ed dummy` must be `(first_vert, first_vert)`. -/
def writeSurfedges (isZero : Nat → Bool) (fresh dummy : Nat) (ed : Nat → Nat × Nat) (verts : List Nat) (ss : List SurfEdgeV) :
    List Int × List (List Val) × List Nat :=
  let fv := firstVert isZero fresh verts
  let r1 := writeSurfIdx (Finder.mk' idKey [dummy]) ss
  let r2 := writeEdgeRecs ed (Finder.mk' idKey fv.2) r1.2.list
  (r1.1, r2.1, r2.2.list)

/-- what the reader returns for a surfedge: the two vertex objects in its direction -/
def readEdgeRecs (verts : List Nat) : List (List Val) → Except LumpErr (List (Nat × Nat))
  | [] => .ok []
  | r :: rs =>
    match r with
    | [.int a, .int b] =>
      match pyIdx verts a, pyIdx verts b, readEdgeRecs verts rs with
      | some va, some vb, .ok es => .ok ((va, vb) :: es)
      | _, _, _ => .error .badData
    | _ => .error .badData

def readSurfIdx (edges : List (Nat × Nat)) : List Int → Except LumpErr (List (Nat × Nat))
  | [] => .ok []
  | i :: is =>
    match (if i < 0 then (edges[(-i).toNat]?).map (fun e => (e.2, e.1)) else edges[i.toNat]?), readSurfIdx edges is with
    | some e, .ok es => .ok (e :: es)
    | _, _ => .error .badData

def readSurfedges (verts : List Nat) (idx : List Int) (edgeRecs : List (List Val)) : Except LumpErr (List (Nat × Nat)) :=
  match readEdgeRecs verts edgeRecs with
  | .error e => .error e
  | .ok es => readSurfIdx es idx


/-! ## water leaf info (`_lmp_write_water_leaf_info` / `_lmp_read_water_leaf_info`) -/

structure WaterV where
  surfaceZ : UInt32
  minZ : UInt32
  texinfo : Nat
deriving Repr, DecidableEq

def writeWater : IdFinder → List WaterV → List (List Val) × IdFinder
  | f, [] => ([], f)
  | f, w :: ws =>
    ([.f32 w.surfaceZ, .f32 w.minZ, .int (f.call idKey w.texinfo).1] :: (writeWater (f.call idKey w.texinfo).2 ws).1,
     (writeWater (f.call idKey w.texinfo).2 ws).2)

def readWater (texinfo : List Nat) : List (List Val) → Except LumpErr (List WaterV)
  | [] => .ok []
  | r :: rs =>
    match r with
    | [.f32 sz, .f32 mz, .int ti] =>
      match pyIdx texinfo ti, readWater texinfo rs with
      | some t, .ok ws => .ok ({ surfaceZ := sz, minZ := mz, texinfo := t } :: ws)
      | _, _ => .error .badData
    | _ => .error .badData

/-! ## VitaminSource faces (`_write_faces_common` / `_read_faces_common`, `is_vitamin` branch) -/

structure VFaceV where
  plane : Nat
  texinfo : Option Nat
  dispinfo : Int
  edges : List Nat
  lmMinsX : Int
  lmMinsY : Int
  lmSizeX : Int
  lmSizeY : Int
  flags : Int
deriving Repr, DecidableEq

structure VFaceSt where
  fTex : IdFinder
  fPlane : IdFinder
  eEdges : IdEFinder

def writeVFace (bounded : Bool) (s : VFaceSt) (f : VFaceV) : List Val × VFaceSt :=
  let rt : Int × IdFinder :=
    match f.texinfo with
    | some t => (((s.fTex.call idKey t).1 : Nat), (s.fTex.call idKey t).2)
    | none => (-1, s.fTex)
  let rp := s.fPlane.call idKey f.plane
  let re := s.eEdges.call bounded idKey f.edges
  ([.int rp.1, .int rt.1, .int f.dispinfo, .int re.1, .int f.edges.length,
    .int f.lmMinsX, .int f.lmMinsY, .int f.lmSizeX, .int f.lmSizeY, .int f.flags],
   { fTex := rt.2, fPlane := rp.2, eEdges := re.2 })

def writeVFaces (bounded : Bool) : VFaceSt → List VFaceV → List (List Val) × VFaceSt
  | s, [] => ([], s)
  | s, f :: fs =>
    ((writeVFace bounded s f).1 :: (writeVFaces bounded (writeVFace bounded s f).2 fs).1,
     (writeVFaces bounded (writeVFace bounded s f).2 fs).2)

/-- the reader always indexes texinfo (`texinfo = self.texinfo[texinfo_ind]`) -/
def readVFace (texinfo planes surfedges : List Nat) (r : List Val) : Except LumpErr VFaceV :=
  match r with
  | [.int pl, .int ti, .int di, .int fe, .int ne, .int mx, .int my, .int sx, .int sy, .int fl] =>
    match pyIdx planes pl, pyIdx texinfo ti with
    | some p, some t =>
      .ok { plane := p, texinfo := some t, dispinfo := di, edges := pySlice surfedges fe.toNat ne.toNat,
            lmMinsX := mx, lmMinsY := my, lmSizeX := sx, lmSizeY := sy, flags := fl }
    | _, _ => .error .badData
  | _ => .error .badData

def readVFaces (texinfo planes surfedges : List Nat) : List (List Val) → Except LumpErr (List VFaceV)
  | [] => .ok []
  | r :: rs =>
    match readVFace texinfo planes surfedges r with
    | .error e => .error e
    | .ok f =>
      match readVFaces texinfo planes surfedges rs with
      | .error e => .error e
      | .ok fs => .ok (f :: fs)


/-! ## brush models + PHYSCOLLIDE (`_lmp_write_bmodels` / `_lmp_read_bmodels`)

The `model` key that entities borrow (`'*N'`) is C10's; here the entity side is just the list of the
brush-model objects of the non-world entities in dict order, mapped to indices into the model list. -/

structure BModelV where
  /-- mins, maxes, origin: 9 float bit patterns -/
  floats : List UInt32
  node : Nat
  faces : List Nat
  /-- `phys_keyvalues.serialise().encode('ascii')` (text, not modelled further), `none` = no keyvalues -/
  kv : Option Bytes
  solids : List Bytes
deriving Repr, DecidableEq

/-- `struct.pack('<i', v)` -/
def pi32 (v : Int) : Except LumpErr Bytes := (packInt 4 true v).mapError (fun _ => LumpErr.range)

/-- one section of the PHYSCOLLIDE lump as the reader returns it -/
structure PhysEntry where
  model : Nat
  solids : List Bytes
  /-- the text section without its terminating NULs -/
  kv : Bytes
deriving Repr, DecidableEq

def solidsBytes : List Bytes → Except LumpErr Bytes
  | [] => .ok []
  | s :: ss => (pi32 s.length).bind fun l => (solidsBytes ss).map fun r => l ++ s ++ r

def solidsSize : List Bytes → Nat
  | [] => 0
  | s :: ss => s.length + 4 + solidsSize ss

/-- the section written for model `i` (nothing when it has neither keyvalues nor solids) -/
def physSection (i : Nat) (m : BModelV) : Except LumpErr Bytes :=
  if m.kv = none ∧ m.solids = [] then .ok []
  else
    let kvs : Bytes := (m.kv.getD []) ++ [0]
    (pi32 i).bind fun a => (pi32 (solidsSize m.solids)).bind fun b => (pi32 kvs.length).bind fun c =>
      (pi32 m.solids.length).bind fun d => (solidsBytes m.solids).map fun ss => a ++ b ++ c ++ d ++ ss ++ kvs

def physSections (md : Nat → BModelV) : Nat → List Nat → Except LumpErr Bytes
  | _, [] => .ok []
  | i, m :: ms => (physSection i (md m)).bind fun a => (physSections md (i + 1) ms).map fun r => a ++ r

def physSentinel : Except LumpErr Bytes :=
  (pi32 (-1)).bind fun a => (pi32 0).map fun z => a ++ z ++ z ++ z

structure BModelSt where
  fNode : IdFinder
  eFaces : IdEFinder

def writeBModelRecs (bounded : Bool) (md : Nat → BModelV) : BModelSt → List Nat → List (List Val) × BModelSt
  | s, [] => ([], s)
  | s, m :: ms =>
    let rn := s.fNode.call idKey (md m).node
    let rf := s.eFaces.call bounded idKey (md m).faces
    let t := writeBModelRecs bounded md ⟨rn.2, rf.2⟩ ms
    (((md m).floats.map Val.f32 ++ [.int rn.1, .int rf.1, .int (md m).faces.length]) :: t.1, t.2)

/-- `_lmp_write_bmodels`: (index of each brush entity's model, model records, PHYSCOLLIDE bytes,
model list, node table, face table) -/
def writeBModels (bounded : Bool) (md : Nat → BModelV) (nodes faces : List Nat) (world : Nat) (entModels : List Nat) :
    Except LumpErr (List Nat × List (List Val) × Bytes × List Nat × List Nat × List Nat) :=
  let rm := Finder.callAll idKey (Finder.mk' idKey [world]) entModels
  let rr := writeBModelRecs bounded md ⟨Finder.mk' idKey nodes, EFinder.mk' idKey faces⟩ rm.2.list
  (physSections md 0 rm.2.list).bind fun ph => physSentinel.map fun se =>
    (rm.1, rr.1, ph ++ se, rm.2.list, rr.2.fNode.list, rr.2.eFaces.list)

/-- `[phys_buf.read(struct_read('<i')[0]) for _ in range(solid_count)]` -/
def readSolids : Nat → Bytes → Except LumpErr (List Bytes × Bytes)
  | 0, b => .ok ([], b)
  | n + 1, b =>
    if (b.take 4).length < 4 then .error .badData
    else
      let len := (unpackInt 4 true (b.take 4)).toNat
      match readSolids n ((b.drop 4).drop len) with
      | .error e => .error e
      | .ok (ss, rest) => .ok (((b.drop 4).take len) :: ss, rest)

/-- the `while True` loop over the PHYSCOLLIDE lump (fuel = an upper bound on the number of sections) -/
def readPhys : Nat → Bytes → Except LumpErr (List PhysEntry)
  | 0, _ => .error .badData
  | fuel + 1, b =>
    if (b.take 16).length < 16 then .error .badData
    else
      let mdl := unpackInt 4 true (b.take 4)
      let kvSize := (unpackInt 4 true ((b.drop 8).take 4)).toNat
      let count := (unpackInt 4 true ((b.drop 12).take 4)).toNat
      if mdl = -1 then .ok []
      else if mdl < 0 then .error .badData
      else
        match readSolids count (b.drop 16) with
        | .error e => .error e
        | .ok (ss, rest) =>
          match readPhys fuel (rest.drop kvSize) with
          | .error e => .error e
          | .ok es => .ok ({ model := mdl.toNat, solids := ss, kv := rstrip0 (rest.take kvSize) } :: es)

/-- attach the physics sections to the models (`Two physics definitions` is an error) -/
def applyPhys : List PhysEntry → List BModelV → Except LumpErr (List BModelV)
  | [], ms => .ok ms
  | e :: es, ms =>
    match ms[e.model]? with
    | none => .error .badData
    | some m =>
      if m.solids ≠ [] ∨ m.kv ≠ none then .error .badData
      else applyPhys es (ms.set e.model { m with solids := e.solids, kv := some e.kv })

def readBModelRec (nodes faces : List Nat) (r : List Val) : Except LumpErr BModelV :=
  match f32sOf (r.take 9), r.drop 9 with
  | some fl, [.int hn, .int ff, .int nf] =>
    match pyIdx nodes hn with
    | some n => .ok { floats := fl, node := n, faces := pySlice faces ff.toNat nf.toNat, kv := none, solids := [] }
    | none => .error .badData
  | _, _ => .error .badData

def readBModelRecs (nodes faces : List Nat) : List (List Val) → Except LumpErr (List BModelV)
  | [] => .ok []
  | r :: rs =>
    match readBModelRec nodes faces r with
    | .error e => .error e
    | .ok m =>
      match readBModelRecs nodes faces rs with
      | .error e => .error e
      | .ok ms => .ok (m :: ms)

/-- `_lmp_read_bmodels` without the entity part: the models in lump order -/
def readBModels (fuel : Nat) (nodes faces : List Nat) (recs : List (List Val)) (phys : Bytes) : Except LumpErr (List BModelV) :=
  match readBModelRecs nodes faces recs, readPhys fuel phys with
  | .ok ms, .ok es => applyPhys es ms
  | .error e, _ => .error e
  | _, .error e => .error e


/-! ## detail props (`_lmp_write_detail_props` / `_lmp_read_detail_props`): records, sprite table, model names -/

inductive DetailKind where
  | model (name : Nat)
  | sprite (rect : List UInt32) (scale : UInt32)
  | shape (rect : List UInt32) (scale : UInt32) (cross : Bool) (ang size : Int)
deriving Repr, DecidableEq

structure DetailV where
  /-- origin and angles: 6 float bit patterns -/
  f6 : List UInt32
  leaf : Int
  l0 : Int
  l1 : Int
  l2 : Int
  l3 : Int
  styles : Int
  styleCount : Int
  sway : Int
  orient : Int
  kind : DetailKind
deriving Repr, DecidableEq

abbrev RectFinder := Finder (List UInt32) (List UInt32)

def rectKey (r : List UInt32) : List UInt32 := r

def oneF : UInt32 := 0x3f800000

structure DetailSt where
  fModel : IdFinder
  fSprite : RectFinder

def detailRec (d : DetailV) (mdl : Nat) (dtype : Int) (ang size : Int) (scale : UInt32) : List Val :=
  d.f6.map Val.f32 ++ [.int mdl, .int d.leaf, .int d.l0, .int d.l1, .int d.l2, .int d.l3, .int d.styles, .int d.styleCount,
    .int d.sway, .int ang, .int size, .int d.orient, .int dtype, .f32 scale]

def writeDetail (s : DetailSt) (d : DetailV) : List Val × DetailSt :=
  match d.kind with
  | .model name => (detailRec d (s.fModel.call idKey name).1 0 0 1 oneF, ⟨(s.fModel.call idKey name).2, s.fSprite⟩)
  | .sprite rect scale => (detailRec d (s.fSprite.call rectKey rect).1 1 0 1 scale, ⟨s.fModel, (s.fSprite.call rectKey rect).2⟩)
  | .shape rect scale cross ang size =>
    (detailRec d (s.fSprite.call rectKey rect).1 (if cross then 3 else 2) ang size scale, ⟨s.fModel, (s.fSprite.call rectKey rect).2⟩)

/-- records, model-name dictionary, sprite table (both start empty) -/
def writeDetails : DetailSt → List DetailV → List (List Val) × DetailSt
  | s, [] => ([], s)
  | s, d :: ds => ((writeDetail s d).1 :: (writeDetails (writeDetail s d).2 ds).1, (writeDetails (writeDetail s d).2 ds).2)

def readDetail (models : List Nat) (sprites : List (List UInt32)) (r : List Val) : Except LumpErr DetailV :=
  match f32sOf (r.take 6), r.drop 6 with
  | some f6, [.int mdl, .int leaf, .int l0, .int l1, .int l2, .int l3, .int st, .int sc, .int sw, .int ang, .int size,
              .int orient, .int dtype, .f32 scale] =>
    let mk (k : DetailKind) : DetailV :=
      { f6 := f6, leaf := leaf, l0 := l0, l1 := l1, l2 := l2, l3 := l3, styles := st, styleCount := sc, sway := sw,
        orient := orient, kind := k }
    if dtype = 0 then
      match pyIdx models mdl with
      | some n => .ok (mk (.model n))
      | none => .error .badData
    else if dtype = 1 then
      match pyGet sprites mdl with
      | some rect => .ok (mk (.sprite rect scale))
      | none => .error .badData
    else if dtype = 2 ∨ dtype = 3 then
      match pyGet sprites mdl with
      | some rect => .ok (mk (.shape rect scale (dtype == 3) ang size))
      | none => .error .badData
    else .error .badEnum
  | _, _ => .error .badData

def readDetails (models : List Nat) (sprites : List (List UInt32)) : List (List Val) → Except LumpErr (List DetailV)
  | [] => .ok []
  | r :: rs =>
    match readDetail models sprites r with
    | .error e => .error e
    | .ok d =>
      match readDetails models sprites rs with
      | .error e => .error e
      | .ok ds => .ok (d :: ds)

/-! ## static props: model dictionary indices and the leaf-index array (`_lmp_write_props`, first loop) -/

structure PropRefV where
  model : Nat
  /-- the leafs of `prop.visleafs` in the order the set is iterated -/
  leafs : List Nat
deriving Repr, DecidableEq

structure PropIdxSt where
  fModel : IdFinder
  fLeaf : IdFinder
  leafArray : List Nat

/-- per prop: (offset into the leaf array, number of leafs, model index) -/
def writePropIdx : PropIdxSt → List PropRefV → List (Nat × Nat × Nat) × PropIdxSt
  | s, [] => ([], s)
  | s, p :: ps =>
    let rm := s.fModel.call idKey p.model
    let rl := Finder.callAll idKey s.fLeaf p.leafs
    let sorted := rl.1.mergeSort (fun a b => decide (a ≤ b))
    let t := writePropIdx ⟨rm.2, rl.2, s.leafArray ++ sorted⟩ ps
    ((s.leafArray.length, p.leafs.length, rm.1) :: t.1, t.2)

/-- the reader's view of one prop: model name, and the leaf list `visleaf_list[first : first + count]` -/
def readPropIdx (models leafList : List Nat) : List (Nat × Nat × Nat) → Except LumpErr (List PropRefV)
  | [] => .ok []
  | (first, count, mi) :: rs =>
    match models[mi]?, readPropIdx models leafList rs with
    | some m, .ok ps => .ok ({ model := m, leafs := pySlice leafList first count } :: ps)
    | _, _ => .error .badData

end C11
