import Srctools.Model.C14
/-!
# C14 — text forms of the integer / fixed-format value types (KeyValues2)

`TYPE_CONVERT[t, STRING]` and `TYPE_CONVERT[STRING, t]` of dmx.py for the types whose text form is
pure integer / fixed format: `int` (`str` / `int`), `bool` (`bool_as_int` / `BOOL_LOOKUP[casefold]`),
`color` (`"r g b a"` / split + `int` + clamp), `binary` (`bytes.hex(' ', 1).upper()` /
`bytes.fromhex`).  Only canonical spellings are parsed (Python's `int()` also accepts `+`, blanks and
underscores).  The float-based types (float, time, vectors, angle, quaternion, matrix) are *not* here:
their text is produced by CPython's float formatting and is carried as a canonical string. Core only.
-/
namespace C14.Text
open C14

def digitChar (d : Nat) : Char := Char.ofNat (48 + d)

/-- `str(n)` for a natural number. -/
def fmtNat (n : Nat) : Str :=
  if n < 10 then [digitChar n] else fmtNat (n / 10) ++ [digitChar (n % 10)]
termination_by n
decreasing_by omega

def digitVal? (c : Char) : Option Nat :=
  if 48 ≤ c.toNat ∧ c.toNat ≤ 57 then some (c.toNat - 48) else none

def parseNatAux : Nat → Str → Option Nat
  | acc, [] => some acc
  | acc, c :: cs =>
    match digitVal? c with
    | some d => parseNatAux (acc * 10 + d) cs
    | none => none

/-- decimal digits only, at least one. -/
def parseNat (s : Str) : Option Nat := if s.isEmpty then none else parseNatAux 0 s

/-- `str(i)`. -/
def fmtInt (i : Int) : Str := if i < 0 then '-' :: fmtNat (-i).toNat else fmtNat i.toNat

/-- `int(text)` on canonical text. -/
def parseInt : Str → Option Int
  | '-' :: ds => (parseNat ds).map fun n => -(n : Int)
  | ds => (parseNat ds).map fun n => (n : Int)

/-- `bool_as_int`. -/
def fmtBool (b : Bool) : Str := [if b then '1' else '0']

/-- `BOOL_LOOKUP[text.casefold()]`. -/
def parseBool (T : Tables) (fold : Str → Str) (s : Str) : Option Bool :=
  (T.boolLookup.find? (·.1 == fold s)).map (·.2)

def isWsChar (c : Char) : Bool := c == ' ' || c == '\t' || c == '\n' || c == '\r' || c == '\x0b' || c == '\x0c'

/-- `str.split()`: maximal runs of non-blank characters. `cur` is the current run, reversed. -/
def splitAux : Str → Str → List Str
  | [], cur => if cur.isEmpty then [] else [cur.reverse]
  | c :: cs, cur =>
    if isWsChar c then (if cur.isEmpty then splitAux cs [] else cur.reverse :: splitAux cs [])
    else splitAux cs (c :: cur)

def splitWs (s : Str) : List Str := splitAux s []

/-- `_clamp_color` on an integer. -/
def clamp (i : Int) : Nat := if i < 0 then 0 else if i > 255 then 255 else i.toNat

/-- `_conv_color_to_string`. -/
def fmtColor (r g b a : Nat) : Str :=
  fmtNat r ++ ' ' :: (fmtNat g ++ ' ' :: (fmtNat b ++ ' ' :: fmtNat a))

/-- `_conv_string_to_color`: three or four integers, alpha defaults to 255. -/
def parseColor (s : Str) : Option (Nat × Nat × Nat × Nat) :=
  match splitWs s with
  | [r, g, b] =>
    match parseInt r, parseInt g, parseInt b with
    | some r, some g, some b => some (clamp r, clamp g, clamp b, 255)
    | _, _, _ => none
  | [r, g, b, a] =>
    match parseInt r, parseInt g, parseInt b, parseInt a with
    | some r, some g, some b, some a => some (clamp r, clamp g, clamp b, clamp a)
    | _, _, _, _ => none
  | _ => none

def hexChar (d : Nat) : Char := if d < 10 then Char.ofNat (48 + d) else Char.ofNat (55 + d)

def hexVal? (c : Char) : Option Nat :=
  let n := c.toNat
  if 48 ≤ n ∧ n ≤ 57 then some (n - 48)
  else if 65 ≤ n ∧ n ≤ 70 then some (n - 55)
  else if 97 ≤ n ∧ n ≤ 102 then some (n - 87)
  else none

def hexByte (b : UInt8) : Str := [hexChar (b.toNat / 16), hexChar (b.toNat % 16)]

/-- `bytes.hex(' ', 1).upper()`. -/
def fmtHex : Bytes → Str
  | [] => []
  | [b] => hexByte b
  | b :: rest => hexByte b ++ ' ' :: fmtHex rest

/-- `bytes.fromhex`: pairs of hex digits, ASCII whitespace between pairs is skipped. -/
def parseHex : Str → Option Bytes
  | [] => some []
  | c :: cs =>
    if isWsChar c then parseHex cs
    else match cs with
      | [] => none
      | d :: rest =>
        match hexVal? c, hexVal? d with
        | some hi, some lo => (parseHex rest).map fun bs => UInt8.ofNat (hi * 16 + lo) :: bs
        | _, _ => none

end C14.Text
