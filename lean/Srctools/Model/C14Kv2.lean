import Srctools.Model.Tok
import Srctools.Model.C14
/-!
# C14 — KeyValues2 text form of a DMX element graph

`emit` models `Element.export_kv2` / `_export_kv2` (which elements are written at the top level,
UUID culling, nesting, quoting through `escape_text`), `parse` models `Element.parse_kv2` /
`_parse_kv2_element` on the token stream of the shared tokenizer model (`Tok.run`), followed by the
UUID fix-ups.  Values other than element references are carried as their *text*
(`TYPE_CONVERT[type, STRING]` / `TYPE_CONVERT[STRING, type]` are not modelled).
Core Lean only.
-/
namespace C14.Kv2
open C14

/-! ## indexed graph with textual values -/

inductive TRef
  | null
  | stub (uuid : Str)
  | idx (i : Nat)
deriving Repr, DecidableEq

inductive TVal
  | ref (r : TRef)
  | text (s : Str)
deriving Repr, DecidableEq

structure TAttr where
  name : Str
  type : VT
  isArray : Bool
  vals : List TVal
deriving Repr, DecidableEq

structure TElem where
  type : Str
  name : Str
  /-- `str(uuid)` -/
  uuid : Str
  attrs : List TAttr
deriving Repr, DecidableEq

structure TGraph where
  elems : List TElem
deriving Repr, DecidableEq

/-! ## export_kv2 -/

/-- `"` + escape_text(s) + `"`. -/
def quote (E : Tok.Tables) (s : Str) : Str := '"' :: (Tok.escapeText E false s ++ ['"'])

def crlf : Str := ['\r', '\n']

def isIdx (i : Nat) : TVal → Bool
  | .ref (.idx j) => i == j
  | _ => false

/-- `use_count[uuid]`: 1 for the root plus one per reference (every element of an indexed graph is
reachable, so the "first seen" case and the "+= 1" case add up to the number of references). -/
def useCount (g : TGraph) (i : Nat) : Nat :=
  (if i = 0 then 1 else 0) +
  (g.elems.flatMap fun e => e.attrs.flatMap fun a =>
    if a.type = .element then a.vals.filter (isIdx i) else []).length

/-- `uuid in roots` (`flat` makes every element a root). -/
def isRoot (g : TGraph) (flat : Bool) (i : Nat) : Bool :=
  flat || i == 0 || decide (useCount g i > 1)

def typeName (T : Tables) (t : VT) : Str :=
  ((T.kv2Names.find? (·.1 == t)).map (·.2)).getD []

def uuidAt (g : TGraph) (j : Nat) : Str := ((g.elems[j]?).map (·.uuid)).getD []

/-- one element reference: `"element" ""` (NULL), `"element" "<uuid>"` (stub, or an element written
at the top level), or the element itself inline (`child`). -/
def refText (g : TGraph) (flat : Bool) (child : Nat → Str → Str) (r : TRef) (ind : Str) : Str :=
  match r with
  | .null => ['"', 'e', 'l', 'e', 'm', 'e', 'n', 't', '"', ' ', '"', '"']
  | .stub u => ['"', 'e', 'l', 'e', 'm', 'e', 'n', 't', '"', ' ', '"'] ++ u ++ ['"']
  | .idx j =>
    if isRoot g flat j then ['"', 'e', 'l', 'e', 'm', 'e', 'n', 't', '"', ' ', '"'] ++ uuidAt g j ++ ['"']
    else child j ind

/-- the items of an array attribute, each on its own line at indentation `ia`, separated by commas
(`i == len(attr) - 1` ⇔ no item follows). -/
def emitItems (E : Tok.Tables) (g : TGraph) (flat : Bool) (child : Nat → Str → Str) (ia : Str) :
    List TVal → Str
  | [] => []
  | v :: rest =>
    ia ++ (match v with
      | .ref r => refText g flat child r ia
      | .text s => quote E s) ++
    (if rest.isEmpty then crlf else ',' :: crlf) ++ emitItems E g flat child ia rest

/-- one attribute (`ic` = indentation of the attribute, `ia` = of array items). -/
def emitAttr (E : Tok.Tables) (T : Tables) (g : TGraph) (flat : Bool) (child : Nat → Str → Str)
    (ic ia : Str) (a : TAttr) : Str :=
  ic ++ quote E a.name ++ [' '] ++
  (if a.isArray then
    ['"'] ++ typeName T a.type ++ ['_', 'a', 'r', 'r', 'a', 'y', '"'] ++ crlf ++ ic ++ ['['] ++ crlf ++
    emitItems E g flat child ia a.vals ++ ic ++ [']'] ++ crlf
  else match a.vals with
    | [.ref r] => refText g flat child r ic ++ crlf
    | [.text s] => ['"'] ++ typeName T a.type ++ ['"', ' '] ++ quote E s ++ crlf
    | _ => [])

/-- `_export_kv2` of element `i` at indentation `indent`. The fuel bounds the nesting depth (an
element that is not a root is referenced once, so the depth is at most the number of elements). -/
def emitElem (E : Tok.Tables) (T : Tables) (g : TGraph) (flat cull : Bool) :
    Nat → Str → Nat → Str
  | 0, _, _ => []
  | fuel + 1, indent, i =>
    match g.elems[i]? with
    | none => []
    | some e =>
      let ic := indent ++ ['\t']
      let ia := indent ++ ['\t', '\t']
      quote E e.type ++ crlf ++ indent ++ ['{'] ++ crlf ++
      (if !cull || isRoot g flat i then ic ++ ['"', 'i', 'd', '"', ' ', '"', 'e', 'l', 'e', 'm', 'e', 'n', 't', 'i', 'd', '"', ' ', '"'] ++ e.uuid ++ ['"'] ++ crlf else []) ++
      ic ++ ['"', 'n', 'a', 'm', 'e', '"', ' ', '"', 's', 't', 'r', 'i', 'n', 'g', '"', ' '] ++ quote E e.name ++ crlf ++
      (e.attrs.flatMap (emitAttr E T g flat (fun j ind => emitElem E T g flat cull fuel ind j) ic ia)) ++
      indent ++ ['}']

/-- The body of `export_kv2` after the header comment line. -/
def emit (E : Tok.Tables) (T : Tables) (flat cull : Bool) (g : TGraph) : Str :=
  (List.range g.elems.length).flatMap fun i =>
    if isRoot g flat i then
      (if i = 0 then [] else crlf) ++ emitElem E T g flat cull (g.elems.length + 1) [] i ++ crlf
    else []

/-! ## parse_kv2 -/

mutual
inductive PElem
  | mk (type name : Str) (uuid : Option Str) (attrs : List PAttr)
inductive PAttr
  | mk (name : Str) (type : VT) (isArray : Bool) (vals : List PVal)
inductive PVal
  | null
  | uuid (u : Str)
  | inline (e : PElem)
  | text (s : Str)
end

abbrev Toks := List (Nat × Str)

def kSTRING := 1
def kNEWLINE := 2
def kBRACE_OPEN := 6
def kBRACE_CLOSE := 7
def kBRACK_OPEN := 12
def kBRACK_CLOSE := 13
def kCOMMA := 17
def kEOF := 0

/-- drop NEWLINE tokens. -/
def skipNl : Toks → Toks
  | (k, v) :: rest => if k = kNEWLINE then skipNl rest else (k, v) :: rest
  | [] => []

/-- `tok.expect(kind)` with newline skipping. -/
def expect (kind : Nat) (what : String) (ts : Toks) : Except String (Str × Toks) :=
  match skipNl ts with
  | (k, v) :: rest => if k = kind then .ok (v, rest) else .error s!"expected {what}"
  | [] => .error s!"expected {what}, got end"

/-- after an array item: skip newlines, swallow one comma if present (the other token is pushed back). -/
def skipComma (ts : Toks) : Toks :=
  match skipNl ts with
  | (k, v) :: rest => if k = kCOMMA then rest else (k, v) :: rest
  | [] => []

/-- `UUID(text)` accepts it? (32 hex digits once dashes are removed) -/
def uuidOK (s : Str) : Bool :=
  let h := s.filter (· != '-')
  h.length == 32 && h.all fun c => c.isDigit || ('a' ≤ c && c ≤ 'f') || ('A' ≤ c && c ≤ 'F')

def endsWithArray (s : Str) : Option Str :=
  let suf := ['_', 'a', 'r', 'r', 'a', 'y']
  if s.length ≥ suf.length ∧ s.drop (s.length - suf.length) = suf then some (s.take (s.length - suf.length)) else none

/-- `ValueType(name)`. -/
def vtOfName (T : Tables) (s : Str) : Option VT :=
  (T.kv2Names.find? (·.2 == s)).map (·.1)

mutual
/-- `_parse_kv2_element` after the type name has been read. -/
def parseElement (T : Tables) (fold : Str → Str) : Nat → Str → Str → Toks → Except String (PElem × Toks)
  | 0, _, _, _ => .error "out of fuel"
  | fuel + 1, defName, typ, ts =>
    match expect kBRACE_OPEN "{" ts with
    | .error e => .error e
    | .ok (_, ts) => parseBlock T fuel fold typ defName none [] ts

/-- the `for attr_name in tok.block(name)` loop. `attrs` is reversed. -/
def parseBlock (T : Tables) (fuel : Nat) (fold : Str → Str) (typ name : Str) (uuid : Option Str)
    (attrs : List PAttr) : Toks → Except String (PElem × Toks) :=
  match fuel with
  | 0 => fun _ => .error "out of fuel"
  | fuel + 1 => fun ts =>
    match skipNl ts with
    | [] => .error "unclosed block"
    | (k, attrName) :: ts =>
      if k = kEOF then .error "unclosed block"
      else if k = kBRACE_CLOSE then .ok (.mk typ name uuid attrs.reverse, ts)
      else if k ≠ kSTRING then .error "unexpected token in block"
      else
      match expect kSTRING "type name" ts with
      | .error e => .error e
      | .ok (origTyp, ts) =>
        let typName := fold origTyp
        if attrName = ['i', 'd'] ∧ typName = ['e', 'l', 'e', 'm', 'e', 'n', 't', 'i', 'd'] then
          match expect kSTRING "uuid" ts with
          | .error e => .error e
          | .ok (u, ts) =>
            if uuid.isSome then .error "duplicate uuid"
            else if !uuidOK u then .error "invalid uuid"
            else parseBlock T fuel fold typ name (some u) attrs ts
        else if attrName = ['n', 'a', 'm', 'e'] then
          if typName ≠ ['s', 't', 'r', 'i', 'n', 'g'] then .error "name must be string"
          else match expect kSTRING "name" ts with
            | .error e => .error e
            | .ok (n, ts) => parseBlock T fuel fold typ n uuid attrs ts
        else
        let (isArr, base) := match endsWithArray typName with
          | some b => (true, b)
          | none => (false, typName)
        match vtOfName T base with
        | none =>
          -- inline compound element
          -- `cls(name=attr_name, …)`: the attribute name is the default element name
          match parseElement T fold fuel attrName origTyp ts with
          | .error e => .error e
          | .ok (e, ts) =>
            parseBlock T fuel fold typ name uuid (.mk attrName .element false [.inline e] :: attrs) ts
        | some vt =>
          if isArr then
            match expect kBRACK_OPEN "[" ts with
            | .error e => .error e
            | .ok (_, ts) =>
              match parseArray T fuel fold attrName vt [] ts with
              | .error e => .error e
              | .ok (vals, ts) => parseBlock T fuel fold typ name uuid (.mk attrName vt true vals :: attrs) ts
          else
            match expect kSTRING "value" ts with
            | .error e => .error e
            | .ok (s, ts) =>
              if vt = .element then
                if s.isEmpty then parseBlock T fuel fold typ name uuid (.mk attrName vt false [.null] :: attrs) ts
                else if !uuidOK s then .error "invalid uuid"
                else parseBlock T fuel fold typ name uuid (.mk attrName vt false [.uuid s] :: attrs) ts
              else parseBlock T fuel fold typ name uuid (.mk attrName vt false [.text s] :: attrs) ts

/-- the array loop (`for tok_typ, tok_value in tok.skipping_newlines()`); `vals` reversed. -/
def parseArray (T : Tables) (fuel : Nat) (fold : Str → Str) (attrName : Str) (vt : VT) (vals : List PVal) :
    Toks → Except String (List PVal × Toks) :=
  match fuel with
  | 0 => fun _ => .error "out of fuel"
  | fuel + 1 => fun ts =>
    match skipNl ts with
    | [] => .error "unterminated array"
    | (k, v) :: ts =>
      if k = kEOF then .error "unterminated array"
      else if k = kBRACK_CLOSE then .ok (vals.reverse, ts)
      else if k ≠ kSTRING then .error "unexpected token in array"
      else
      if vt = .element then
        if v = ['e', 'l', 'e', 'm', 'e', 'n', 't'] then
          match expect kSTRING "uuid" ts with
          | .error e => .error e
          | .ok (u, ts) =>
            if u.isEmpty then parseArray T fuel fold attrName vt (.null :: vals) (skipComma ts)
            else if !uuidOK u then .error "invalid uuid"
            else parseArray T fuel fold attrName vt (.uuid u :: vals) (skipComma ts)
        else
          match parseElement T fold fuel attrName v ts with
          | .error e => .error e
          | .ok (e, ts) => parseArray T fuel fold attrName vt (.inline e :: vals) (skipComma ts)
      else parseArray T fuel fold attrName vt (.text v :: vals) (skipComma ts)
end

/-- the top-level loop of `parse_kv2`. -/
def parseTop (T : Tables) (fold : Str → Str) : Nat → Toks → List PElem → Except String (List PElem)
  | 0, _, _ => .error "out of fuel"
  | fuel + 1, ts, acc =>
    match ts with
    | [] => .ok acc.reverse
    | (k, v) :: rest =>
      if k = kEOF then .ok acc.reverse
      else if k = kNEWLINE then parseTop T fold fuel rest acc
      else if k ≠ kSTRING then .error "unexpected token at top level"
      else match parseElement T fold (rest.length + 2) [] v rest with
        | .error e => .error e
        | .ok (e, rest') => parseTop T fold fuel rest' (e :: acc)

/-! ### flattening and UUID fix-ups -/

/-- a flat node: attributes refer to nodes by number, to UUIDs, or hold text. -/
inductive FVal
  | null | uuid (u : Str) | node (k : Nat) | text (s : Str)
deriving Repr, DecidableEq

structure FAttr where
  name : Str
  type : VT
  isArray : Bool
  vals : List FVal
deriving Repr, DecidableEq

structure FNode where
  type : Str
  name : Str
  uuid : Option Str
  attrs : List FAttr
deriving Repr, DecidableEq

mutual
/-- the nodes of a parsed element and its inline descendants in preorder; the element itself gets
number `base`, its inline descendants the following numbers. -/
def flatElem : PElem → Nat → List FNode
  | .mk ty nm u attrs, base =>
    let r := flatAttrs attrs (base + 1)
    { type := ty, name := nm, uuid := u, attrs := r.1 } :: r.2
/-- attributes with inline elements replaced by their numbers, and the nodes of those elements;
`next` is the first free number. -/
def flatAttrs : List PAttr → Nat → List FAttr × List FNode
  | [], _ => ([], [])
  | .mk n t arr vals :: rest, next =>
    let r1 := flatVals vals next
    let r2 := flatAttrs rest (next + r1.2.length)
    ({ name := n, type := t, isArray := arr, vals := r1.1 } :: r2.1, r1.2 ++ r2.2)
def flatVals : List PVal → Nat → List FVal × List FNode
  | [], _ => ([], [])
  | .null :: rest, next => let r := flatVals rest next; (.null :: r.1, r.2)
  | .uuid u :: rest, next => let r := flatVals rest next; (.uuid u :: r.1, r.2)
  | .text s :: rest, next => let r := flatVals rest next; (.text s :: r.1, r.2)
  | .inline e :: rest, next =>
    let k := flatElem e next
    let r := flatVals rest (next + k.length)
    (.node next :: r.1, k ++ r.2)
end

def flatTop : List PElem → Nat → List FNode
  | [], _ => []
  | e :: es, base => let k := flatElem e base; k ++ flatTop es (base + k.length)

/-- `id_to_elem[uuid]`: the last node defining that UUID. -/
def idOf (nodes : List FNode) (u : Str) : Option Nat :=
  (List.range nodes.length).reverse.find? fun k =>
    match nodes[k]? with
    | some n => n.uuid == some u
    | none => false

def fixVal (nodes : List FNode) : FVal → FVal
  | .uuid u => (match idOf nodes u with | some k => .node k | none => .uuid u)
  | v => v

/-- The result of `parse_kv2`: nodes in preorder (node 0 is the returned root), references
resolved: a UUID that names a parsed element (the last one defining it) becomes that node, any
other UUID stays a stub. -/
def resolve (tops : List PElem) : List FNode :=
  let nodes := flatTop tops 0
  nodes.map fun n => { n with attrs := n.attrs.map fun a => { a with vals := a.vals.map (fixVal nodes) } }

/-- `Element.parse_kv2` on the text after the header line. `cfold` is `str.casefold` per character. -/
def parse (E : Tok.Tables) (T : Tables) (cfold : Char → List Char) (text : Str) :
    Except String (List FNode) :=
  let run := Tok.run E {} cfold text
  match run.err with
  | some (e, line) => .error s!"tokenizer error {e.code.1} line {line}"
  | none =>
    let ts : Toks := run.toks.map fun o => (o.kind, o.value)
    match parseTop T (fun s => s.flatMap cfold) (ts.length + 1) ts [] with
    | .error e => .error e
    | .ok [] => .error "no elements"
    | .ok tops => .ok (resolve tops)

end C14.Kv2
