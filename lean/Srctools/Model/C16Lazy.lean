/-!
# C16 (iii) — the lazily parsed engine database as a state machine over blocks

Model of `srctools/_engine_db.py`: `EngineDB.get_ent`, `EngineDB._parse_block`, `EngineDB.get_fgd`.

The static part is the list of blocks (`unparsed` as produced by `unserialise`): block `i` holds the raw
entities `ent_unserialise` would produce for its class names, reduced to what matters for the laziness:
the (casefolded) class name, the base names stored in the file, and an opaque `payload` standing for
everything else `ent_unserialise` returns.  The mutable part is

* `parsed i`   ⇔ `self.unparsed[i] == ((), b'')`
* `slot n`     = `self.ent_map[n]`: missing, still a block index, or an entity object whose `bases` is
                 either still the list of *strings* read from the file or already the list of entity
                 *objects* (an object is identified with its class name: an entry of `ent_map` is
                 replaced by an entity exactly once when class names are unique).

`parseBlock` is `_parse_block` as coded: insert every entity of the block (no bases → `[CBaseEntity]`),
mark the block parsed, then for the entities that had bases resolve each base through `get_ent` —
which recursively parses the blocks of those bases — and store the resolved list.  The recursion
terminates because a block is marked parsed before its bases are followed; `fuel` bounds it
(the number of blocks + 1 always suffices).  A base naming a class that is not in the database
(`KeyError` in the code) is not modelled: the theorems assume every base exists.

Core Lean only (linked into drv_c16).
-/
namespace C16.Lazy

abbrev Name := Nat

/-- What `ent_unserialise` gives for one class of a block. -/
structure RawEnt where
  name : Name
  bases : List Name
  payload : Nat
deriving Repr, DecidableEq

/-- `EntityDef.bases` of a parsed entity: still strings, or resolved entity objects. -/
inductive Bases
  | names (l : List Name)
  | ents (l : List Name)
deriving Repr, DecidableEq

structure PEnt where
  name : Name
  payload : Nat
  bases : Bases
deriving Repr, DecidableEq

/-- A value of `ent_map`. -/
inductive Slot
  | block (i : Nat)
  | ent (e : PEnt)
deriving Repr, DecidableEq

/-- The immutable part: block contents and the name of CBaseEntity. -/
structure Static where
  blocks : List (List RawEnt)
  cbase : Name
deriving Repr

/-- The mutable part of `EngineDB`. -/
structure State where
  parsed : Nat → Bool
  slot : Name → Option Slot

def State.setSlot (s : State) (n : Name) (v : Slot) : State :=
  { s with slot := fun m => if m = n then some v else s.slot m }

def State.setParsed (s : State) (i : Nat) : State :=
  { s with parsed := fun j => if j = i then true else s.parsed j }

/-- `ent.bases = …` on the entity object stored under `n` (no effect when the slot holds no entity). -/
def State.setBases (s : State) (n : Name) (b : Bases) : State :=
  match s.slot n with
  | some (.ent e) => s.setSlot n (.ent { e with bases := b })
  | _ => s

/-- First loop of `_parse_block`: `self.ent_map[classname] = ent`, bases defaulting to CBaseEntity. -/
def insertEnt (S : Static) (s : State) (r : RawEnt) : State :=
  let b : Bases := if r.bases.isEmpty then .ents [S.cbase] else .names r.bases
  s.setSlot r.name (.ent ⟨r.name, r.payload, b⟩)

mutual
/-- `get_ent(classname)` for its effect on the state (the returned object is `slot classname`). -/
def getEntS (S : Static) : Nat → Name → State → State
  | 0, _, s => s
  | fuel + 1, n, s =>
    match s.slot n with
    | some (.block i) => parseBlock S fuel i s
    | _ => s                      -- already an entity; or KeyError (no state change)

/-- `_parse_block(index)`. -/
def parseBlock (S : Static) : Nat → Nat → State → State
  | 0, _, s => s
  | fuel + 1, i, s =>
    if s.parsed i then s
    else match S.blocks[i]? with
      | none => s
      | some ents =>
        let s1 := ents.foldl (insertEnt S) s
        let s2 := s1.setParsed i
        resolveAll S fuel (ents.filter fun r => !r.bases.isEmpty) s2

/-- Second loop of `_parse_block`: `for ent in apply_bases: ent.bases = [self.get_ent(base) …]`. -/
def resolveAll (S : Static) : Nat → List RawEnt → State → State
  | _, [], s => s
  | fuel, r :: rs, s =>
    let s' := resolveBases S fuel r.bases s
    resolveAll S fuel rs (s'.setBases r.name (.ents r.bases))

/-- The list comprehension: one `get_ent` per base, left to right. -/
def resolveBases (S : Static) : Nat → List Name → State → State
  | _, [], s => s
  | fuel, b :: bs, s => resolveBases S fuel bs (getEntS S fuel b s)
end

/-- Fuel that always suffices: every nested `_parse_block` call that does work marks a new block. -/
def fuelFor (S : Static) : Nat := 2 * S.blocks.length + 2

/-- `unserialise`: every class points at its block; CBaseEntity is parsed eagerly. -/
def initState (S : Static) (cbasePayload : Nat) : State :=
  let s0 : State := { parsed := fun _ => false, slot := fun _ => none }
  let rec go (i : Nat) (bs : List (List RawEnt)) (s : State) : State :=
    match bs with
    | [] => s
    | b :: rest => go (i + 1) rest (b.foldl (fun s r => s.setSlot r.name (.block i)) s)
  (go 0 S.blocks s0).setSlot S.cbase
    (.ent ⟨S.cbase, cbasePayload, .ents []⟩)

/-- `get_ent` at top level. -/
def getEnt (S : Static) (s : State) (n : Name) : State := getEntS S (fuelFor S) n s

/-- The loop of `get_fgd`: parse every block that still has data, in order. -/
def parseRemaining (S : Static) : Nat → Nat → State → State
  | 0, _, s => s
  | k + 1, i, s => parseRemaining S k (i + 1) (parseBlock S (fuelFor S) i s)

/-- `FGD.apply_bases()` on one slot: remaining strings become objects. -/
def applyBasesSlot : Option Slot → Option Slot
  | some (.ent e) => some (.ent { e with bases := match e.bases with | .names l => .ents l | b => b })
  | x => x

/-- `get_fgd()` (before the deep copy): all blocks parsed, then `apply_bases`. -/
def loadAll (S : Static) (s : State) : State :=
  let s' := parseRemaining S S.blocks.length 0 s
  { s' with slot := fun n => applyBasesSlot (s'.slot n) }

end C16.Lazy
