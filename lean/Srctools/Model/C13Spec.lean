import Srctools.Model.C13
/-!
# C13 — the specification the VPK model is compared with

The simple specification of a VPK: a finite map `name triple ⇀ bytes` in the open handle and a
committed copy "on disk", with the same operations and result codes as the model
(`C13.step`).  No preload limit, no archives, no offsets, no checksums, no encoding.
Also the decidable classes that the refinement theorem is stated for.
-/
namespace C13

abbrev KMap := Key → Option Bytes
def KMap.empty : KMap := fun _ => none
def KMap.update (m : KMap) (k : Key) (v : Option Bytes) : KMap := fun k' => if k = k' then v else m k'

structure Spec where
  /-- `none`: no file; `some none`: an empty (0 byte) file left by opening in w/a mode;
  `some (some m)`: the map written by the last `write_dirfile` -/
  disk : Option (Option KMap)
  /-- the open archive object: mode and current contents -/
  cur : Option (Mode × KMap)

def Spec.init : Spec := ⟨none, none⟩

def specStep (s : Spec) (op : Op) : Spec × Res :=
  match op with
  | .openVpk mode _ =>
    match mode with
    | .w => (⟨some none, some (.w, KMap.empty)⟩, .ok)
    | _ =>
      match s.disk with
      | none =>
        if mode = .a then (⟨some none, some (mode, KMap.empty)⟩, .ok)
        else ({ s with cur := none }, .err .nofile)
      | some none => ({ s with cur := none }, .err .struct)
      | some (some m) => ({ s with cur := some (mode, m) }, .ok)
  | _ =>
  match s.cur with
  | none => (s, .err .nohandle)
  | some (mode, m) =>
    match op with
    | .openVpk _ _ => (s, .ok)
    | .newFile n =>
      if ¬ mode.writable then (s, .err .readonly) else
      let k := getFileParts n
      if ¬ keyAscii k then (s, .err .nonascii) else
      if (m k).isSome then (s, .err .exists) else
      ({ s with cur := some (mode, m.update k (some [])) }, .ok)
    | .addFile n data _ =>
      if ¬ mode.writable then (s, .err .readonly) else
      let k := getFileParts n
      if ¬ keyAscii k then (s, .err .nonascii) else
      if (m k).isSome then (s, .err .exists) else
      ({ s with cur := some (mode, m.update k (some data)) }, .ok)
    | .write n data _ =>
      let k := getFileParts n
      if (m k).isNone then (s, .err .missing) else
      if ¬ mode.writable then (s, .err .readonly) else
      ({ s with cur := some (mode, m.update k (some data)) }, .ok)
    | .del n =>
      if ¬ mode.writable then (s, .err .readonly) else
      let k := getFileParts n
      if (m k).isNone then (s, .err .missing) else
      ({ s with cur := some (mode, m.update k none) }, .ok)
    | .flush =>
      if ¬ mode.writable then (s, .err .readonly) else
      ({ s with disk := some (some m) }, .ok)
    | .has n => if (m (getFileParts n)).isSome then (s, .yes) else (s, .no)
    | .exit exc =>
      -- leaving a `with` block: saved exactly when no exception was raised and the mode is writable
      if exc then (s, .ok) else
      if ¬ mode.writable then (s, .ok) else
      ({ s with disk := some (some m) }, .ok)

def specRun : Spec → List Op → Spec × List Res
  | s, [] => (s, [])
  | s, op :: ops =>
    let (s1, r) := specStep s op
    let (s2, rs) := specRun s1 ops
    (s2, r :: rs)

/-- what `read()` must return for a key of the open archive -/
def Spec.read (s : Spec) (k : Key) : Option (Except Err Bytes) :=
  match s.cur with
  | none => none
  | some (_, m) => (m k).map .ok

/-! ## the class of histories the refinement theorem covers (open known findings are outside) -/

/-- a name part inside the class: no NUL character, not the one-character string `" "` -/
def partOK (s : Str) : Bool := !s.contains 0 && s != [32]
def nameClass (k : Key) : Bool := partOK k.dir && partOK k.name && partOK k.ext
/-- the archive index is not the marker `DIR_ARCH_INDEX` -/
def idxOK (idx : Option Nat) : Bool := idx != some DIR_ARCH_INDEX

def opOK : Op → Bool
  | .newFile n => nameClass (getFileParts n)
  | .addFile n _ idx => nameClass (getFileParts n) && idxOK idx
  | .write _ _ idx => idxOK idx
  | _ => true

/-- `write_dirfile` does not hit `struct.error`: every field fits its 16/32-bit slot -/
def flushOK (w : World) (op : Op) : Bool :=
  match op, w.vpk with
  | .flush, some v => !v.mode.writable || decide (v.version > 1) || v.tree.fits
  | .exit false, some v => !v.mode.writable || decide (v.version > 1) || v.tree.fits
  | _, _ => true

/-- along the whole run of the model -/
def runFits (crc : Bytes → Nat) : World → List Op → Bool
  | _, [] => true
  | w, op :: ops => flushOK w op && runFits crc (step crc w op).1 ops

/-! ## a decidable size budget of a history that rules out `struct.error` -/

/-- bytes a new entry can add to the directory tree besides its preload: three name strings with their
terminators and block terminators, and the 18-byte record -/
def keyCost (k : Key) : Nat := k.ext.length + k.dir.length + k.name.length + 26

/-- an upper bound of what an operation can add to the directory tree, the directory tail or an archive -/
def opCost : Op → Nat
  | .newFile n => keyCost (getFileParts n)
  | .addFile n d _ => 2 * keyCost (getFileParts n) + d.length
  | .write n d _ => keyCost (getFileParts n) + d.length
  | _ => 0

def histCost (ops : List Op) : Nat := (ops.map opCost).sum

/-- the archive index fits the 16-bit field -/
def idxSmall : Op → Bool
  | .addFile _ _ idx => decide (idx.getD 0 < 65536)
  | .write _ _ idx => decide (idx.getD 0 < 65536)
  | _ => true

end C13
