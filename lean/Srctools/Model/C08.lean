/-!
# C08 — model of id allocation inside a VMF (srctools/vmf.py), AS CODED

* `IDMan` — `class IDMan`: the set of used ids + the `search_pos` hint, `get_id`, `discard`.
* `Fix`   — `class EntityFixup`: the replaceNN index of every `$fixup` variable
            (`__init__` de-duplication, `__setitem__` lowest unused index, `__delitem__`).
* `St`/`step` — a collection of maps (`VMF` objects) with their six id managers, the objects
  created in them (entities, brushes, faces, groups, visgroups), who references what, and the
  exact points at which the code releases an id (`Entity/Solid/Side.__del__`, `VMF.remove_ent`,
  `Entity.__setitem__/__delitem__` for `nodeid`).  Garbage collection is reference counting:
  after every operation each object that is no longer reachable from a caller's variable
  (a *register*), from `vmf.entities`/`vmf.brushes`/`vmf.spawn` or from a reachable parent is
  destroyed, which runs its `__del__`.

Which release sites exist is a parameter (`Cfg`), regenerated from the source by
`tools/gen_c08.py` into `Gen/C08.lean`; the driver runs the model under the extracted `Cfg`.
Core imports only (the driver is linked as an executable).
-/
namespace C08

/-! ## IDMan -/

structure IDMan where
  used : List Int
  searchPos : Int

def IDMan.empty : IDMan := ⟨[], 1⟩

/-- `while poss_id in self: poss_id += 1`, with fuel (never exhausted, see `C08_fresh`). -/
def probe (used : List Int) : Nat → Int → Int
  | 0, p => p
  | fuel + 1, p => if p ∈ used then probe used fuel (p + 1) else p

/-- `IDMan.get_id(desired)`. -/
def IDMan.getId (m : IDMan) (desired : Int) : Int × IDMan :=
  if 0 < desired ∧ desired ∉ m.used then
    (desired, { m with used := desired :: m.used })
  else
    let p := probe m.used (m.used.length + 1) m.searchPos
    (p, { used := p :: m.used, searchPos := p + 1 })

/-- `IDMan.discard(element)`.  `guard` = the source tests `0 < element < self.search_pos`
instead of `element < self.search_pos` (extracted). -/
def IDMan.discard (guard : Bool) (m : IDMan) (e : Int) : IDMan :=
  { used := m.used.filter (fun x => x != e),
    searchPos := if e < m.searchPos ∧ (guard = false ∨ 0 < e) then e else m.searchPos }

/-! ## EntityFixup indexes.  A variable is a number (its case-folded name). -/

abbrev Fix := List (Nat × Int)

def lowestUnused (ids : List Int) : Int := probe ids (ids.length + 1) 1

def fxHas (t : Fix) (v : Nat) : Bool := t.any (fun e => e.1 == v)

/-- `EntityFixup.__setitem__`: an existing variable keeps its index, a new one gets the lowest
unused index ≥ 1 and goes to the end of the dict. -/
def fxSet (t : Fix) (v : Nat) : Fix :=
  if fxHas t v then t else t ++ [(v, lowestUnused (t.map (·.2)))]

/-- `EntityFixup.__delitem__`. -/
def fxDel (t : Fix) (v : Nat) : Fix := t.filter (fun e => e.1 != v)

/-- `self._fixup[key] = fix` (dict assignment: replaces in place or appends). -/
def fxPut (t : Fix) (v : Nat) (i : Int) : Fix :=
  if fxHas t v then t.map (fun e => if e.1 == v then (v, i) else e) else t ++ [(v, i)]

/-- first loop of `EntityFixup.__init__`: state = (table, used_indexes, extra_vals). -/
def fxInitStep (acc : Fix × List Int × List Nat) (e : Nat × Int) : Fix × List Int × List Nat :=
  if e.2 ∈ acc.2.1 then (acc.1, acc.2.1, acc.2.2 ++ [e.1])
  else (fxPut acc.1 e.1 e.2, e.2 :: acc.2.1, acc.2.2)

/-- `EntityFixup.__init__(fixup)`. -/
def fxInit (l : List (Nat × Int)) : Fix :=
  let acc := l.foldl fxInitStep ([], [], [])
  acc.2.2.foldl fxSet acc.1

/-- several fixup tables side by side: `copy.copy` / `copy.deepcopy` / `EntityFixup(t.copy_values())`
make a new table from an existing one; afterwards the two are edited independently. -/
inductive FxOp
  | set (t v : Nat)                       -- `tables[t][v] = …`, also `setdefault` of an absent variable
  | del (t v : Nat)                       -- `del tables[t][v]`, also `pop`
  | clear (t : Nat)                       -- `tables[t].clear()`
  | copy (t' t : Nat) (viaInit : Bool)    -- `tables[t'] = copy.copy(tables[t])` / `EntityFixup(tables[t].copy_values())`

def fxTabStep (T : Nat → Option Fix) : FxOp → Nat → Option Fix
  | .set t v => fun i => if i = t then (T t).map (fun f => fxSet f v) else T i
  | .del t v => fun i => if i = t then (T t).map (fun f => fxDel f v) else T i
  | .clear t => fun i => if i = t then (T t).map (fun _ => []) else T i
  | .copy t' t viaInit =>
    match T t with
    | some f => fun i => if i = t' then some (if viaInit then fxInit f else f) else T i
    | none => T

def fxTabInit (l : List (Nat × Int)) : Nat → Option Fix := fun i => if i = 0 then some (fxInit l) else none

/-! ## Objects, maps, references -/

inductive Kind | ent | solid | face | group | vis | node
  deriving DecidableEq, Repr

def Kind.code : Kind → Nat
  | .ent => 0 | .solid => 1 | .face => 2 | .group => 3 | .vis => 4 | .node => 5

/-- value given for the `nodeid` key. -/
inductive NodeArg
  | absent            -- key not given
  | raw               -- a string `int()` rejects
  | int (n : Int)     -- anything `int()` accepts

structure Obj where
  kind : Kind
  map : Nat
  id : Int
  kids : List Nat       -- handles: solids of an entity, sides of a solid, children of a visgroup
  node : Option Int     -- entity: the integer its `nodeid` key denotes (none: absent / not an int)
  fix : Fix             -- entity: fixup table (variable, index) in dict order
  alive : Bool          -- `__del__` has not run

/-- Which release sites the source has (regenerated by tools/gen_c08.py). -/
structure Cfg where
  removeEntDiscardsEntId : Bool    -- `VMF.remove_ent` calls `self.ent_id.discard(item.id)`
  removeEntDiscardsNodeId : Bool   -- `VMF.remove_ent` calls `self.node_id.discard(node_id)`
  discardGuard : Bool              -- `IDMan.discard` lowers search_pos only for positive elements
  addEntAllocatesNode : Bool       -- `VMF.add_ent` calls `self.node_id.get_id(...)` and re-assigns the key
  popReleasesNode : Bool           -- `Entity.pop` deletes through `del self[k]` (so 'nodeid' is released)
  parseKeepsPlaceholder : Bool     -- `VMF.parse` leaves the spawn entity made by `VMF()` in by_class for ever
  removeSpawnRaises : Bool         -- `VMF.remove_ent(vmf.spawn)` raises before doing anything
  failedCtorReleases : Bool        -- `Solid.__del__` releases `self.id` even when the constructor raised before
                                   -- `__attrs_post_init__` registered it (the attribute then holds the DESIRED id)
  deriving DecidableEq, Repr

structure St where
  mans : Nat → Kind → IDMan
  objs : Nat → Option Obj
  next : Nat                 -- next object handle
  nmaps : Nat
  regs : Nat → Option Nat    -- caller's variables: register → handle
  regList : List Nat         -- registers ever bound
  ents : Nat → List Nat      -- vmf.entities
  brushes : Nat → List Nat   -- vmf.brushes
  pinned : List Nat          -- objects the map references for ever (spawn entities)
  spawn : Nat → Nat          -- vmf.spawn

def St.init : St :=
  { mans := fun _ _ => IDMan.empty, objs := fun _ => none, next := 0, nmaps := 0,
    regs := fun _ => none, regList := [], ents := fun _ => [], brushes := fun _ => [],
    pinned := [], spawn := fun _ => 0 }

/-! ### primitives (everything that touches `mans`/`objs` goes through these) -/

def setMan (s : St) (m : Nat) (k : Kind) (M : IDMan) : St :=
  { s with mans := fun m' k' => if m' = m ∧ k' = k then M else s.mans m' k' }

def setObj (s : St) (h : Nat) (o : Obj) : St :=
  { s with objs := fun h' => if h' = h then some o else s.objs h' }

/-- a constructor ran: `self.id = manager.get_id(desired)`. -/
def allocObj (s : St) (k : Kind) (m : Nat) (des : Int) (kids : List Nat) : St × Nat :=
  let r := (s.mans m k).getId des
  let s1 := setMan s m k r.2
  let h := s.next
  ({ setObj s1 h ⟨k, m, r.1, kids, none, [], true⟩ with next := h + 1 }, h)

/-- `manager.discard(e)` on a manager. -/
def manDiscard (c : Cfg) (s : St) (m : Nat) (k : Kind) (e : Int) : St :=
  setMan s m k ((s.mans m k).discard c.discardGuard e)

/-- `Entity.__setitem__('nodeid', v)` with `int(v)` = des: release the number the old value
denoted, then `self._keys[key] = str(node_id.get_id(des))`. -/
def nodeAssign (c : Cfg) (s : St) (h : Nat) (des : Int) : St :=
  match s.objs h with
  | none => s
  | some o =>
    let s1 := match o.node with
      | some old => manDiscard c s o.map .node old
      | none => s
    let r := (s1.mans o.map .node).getId des
    setObj (setMan s1 o.map .node r.2) h { o with node := some r.1 }

/-- the `nodeid` key stops denoting an integer: `__setitem__` with a non-integer value and
`__delitem__` release the old number (`rel = true`); `pop` does when it is written with
`del self[k]`. -/
def nodeClear (c : Cfg) (s : St) (h : Nat) (rel : Bool) : St :=
  match s.objs h with
  | none => s
  | some o =>
    let s1 := match o.node, rel with
      | some old, true => manDiscard c s o.map .node old
      | _, _ => s
    setObj s1 h { o with node := none }

/-- `node_id.get_id(des)` whose result is only passed on (add_ent). -/
def nodeGet (s : St) (m : Nat) (des : Int) : St × Int :=
  let r := (s.mans m .node).getId des
  (setMan s m .node r.2, r.1)

def setFix (s : St) (h : Nat) (f : Fix) : St :=
  match s.objs h with
  | none => s
  | some o => setObj s h { o with fix := f }

/-- `__del__` of an entity / brush / face: `manager.discard(self.id)`; runs once per object. -/
def kill (c : Cfg) (s : St) (h : Nat) : St :=
  match s.objs h with
  | none => s
  | some o =>
    if o.alive ∧ (o.kind = .ent ∨ o.kind = .solid ∨ o.kind = .face) then
      setObj (manDiscard c s o.map o.kind o.id) h { o with alive := false }
    else s

/-- the releases of `VMF.remove_ent(item)` (the list bookkeeping is done by the caller). -/
def removeEntRelease (c : Cfg) (s : St) (h : Nat) : St :=
  match s.objs h with
  | none => s
  | some o =>
    let s1 := match o.node, c.removeEntDiscardsNodeId with
      | some n, true => manDiscard c s o.map .node n
      | _, _ => s
    if c.removeEntDiscardsEntId then manDiscard c s1 o.map .ent o.id else s1

/-! ### reference counting -/

def kidsOf (s : St) (h : Nat) : List Nat :=
  match s.objs h with
  | some o => o.kids
  | none => []

/-- the children a caller sees: `vmf.spawn.solids` *is* the list `vmf.brushes`. -/
def kidsSeen (s : St) (h : Nat) (o : Obj) : List Nat :=
  if o.kind = .ent ∧ s.spawn o.map = h then s.brushes o.map else o.kids

def roots (s : St) : List Nat :=
  s.regList.filterMap s.regs
    ++ (List.range s.nmaps).flatMap (fun m => s.ents m ++ s.brushes m) ++ s.pinned

/-- entity → brushes → faces: two levels below the roots. -/
def reach (s : St) : List Nat :=
  let r0 := roots s
  let r1 := r0 ++ r0.flatMap (kidsOf s)
  r1 ++ r1.flatMap (kidsOf s)

def collect (c : Cfg) (s : St) : St :=
  let r := reach s
  (List.range s.next).foldl (fun s h => if h ∈ r then s else kill c s h) s

/-! ### operations -/

structure SolidDoc where
  id : Int
  sides : List Int

structure EntDoc where
  id : Int               -- -1: no (numeric) id key
  node : NodeArg
  solids : List SolidDoc
  fix : List (Nat × Int)

structure Doc where
  vis : List (Int × Nat)      -- visgroups in creation order (children first): (id, number of children)
  worldId : Int
  worldSolids : List SolidDoc
  groups : List Int
  ents : List EntDoc

inductive Op
  | newmap
  | ent (r m : Nat) (des : Int) (node : NodeArg) (solids : List Nat) (fix : List (Nat × Int))
  | addent (r : Nat)
  | rment (r : Nat)
  | side (r m : Nat) (des : Int)
  | solid (r m : Nat) (des : Int) (sides : List Nat)
  | addbrush (r : Nat)
  | rmbrush (r : Nat)
  | copy (r' r : Nat) (des : Int) (tgt : Option Nat)
  | drop (r : Nat)
  | kid (r' r i : Nat)
  | entat (r' m i : Nat)
  | brushat (r' m i : Nat)
  | spawn (r' m : Nat)
  | setnode (r : Nat) (v : NodeArg)
  | delnode (r : Nat)
  | popnode (r : Nat)
  | group (r m : Nat) (des : Int)
  | vis (r m : Nat) (des : Int) (kids : List Nat)
  | fxset (r v : Nat)
  | fxdel (r v : Nat)
  | parse (d : Doc)
  | failsolid (m : Nat) (des : Int)
  | failent (m : Nat) (des : Int)
  | failside (m : Nat) (des : Int)

def bind (s : St) (r h : Nat) : St :=
  { s with regs := fun r' => if r' = r then some h else s.regs r', regList := r :: s.regList }

/-- the object a register holds, if it is of kind `k`. -/
def regObj (s : St) (r : Nat) (k : Kind) : Option (Nat × Obj) :=
  match s.regs r with
  | none => none
  | some h => match s.objs h with
    | some o => if o.kind = k then some (h, o) else none
    | none => none

def regAny (s : St) (r : Nat) : Option (Nat × Obj) :=
  match s.regs r with
  | none => none
  | some h => match s.objs h with
    | some o => some (h, o)
    | none => none

/-- handles of the registers `rs` if all hold objects of kind `k`. -/
def regHandles (s : St) (rs : List Nat) (k : Kind) : Option (List Nat) :=
  rs.mapM (fun r => (regObj s r k).map (·.1))

/-- `VMF()`: six managers, the spawn entity. -/
def newMap (s : St) : St × Nat :=
  let m := s.nmaps
  let s0 := { s with nmaps := m + 1 }
  let (s1, h) := allocObj s0 .ent m (-1) []
  ({ s1 with pinned := h :: s1.pinned, spawn := fun m' => if m' = m then h else s1.spawn m' }, m)

/-- `Entity.__init__`: id, then the keys (nodeid), then the fixups. -/
def mkEnt (c : Cfg) (s : St) (m : Nat) (des : Int) (node : NodeArg) (kids : List Nat)
    (fix : List (Nat × Int)) : St × Nat :=
  let (s1, h) := allocObj s .ent m des kids
  let s2 := match node with
    | .int n => nodeAssign c s1 h n
    | _ => s1
  (setFix s2 h (fxInit fix), h)

/-- `VMF.add_ent`. -/
def addEnt (c : Cfg) (s : St) (h : Nat) (o : Obj) : St :=
  let s1 := { s with ents := fun m' => if m' = o.map then s.ents m' ++ [h] else s.ents m' }
  match o.node, c.addEntAllocatesNode with
  | some n, true =>
    let (s2, x) := nodeGet s1 o.map n
    nodeAssign c s2 h x
  | _, _ => s1

/-- `Side.copy(des_id, vmf_file)`. -/
def copySide (s : St) (o : Obj) (des : Int) (tgt : Option Nat) : St × Nat :=
  let des' := if tgt.isSome ∧ des = -1 then o.id else des
  allocObj s .face (tgt.getD o.map) des' []

def copySides (s : St) (sides : List Nat) (tgt : Option Nat) : St × List Nat :=
  sides.foldl (fun (acc : St × List Nat) f =>
    match acc.1.objs f with
    | some fo => let (s', h) := copySide acc.1 fo (-1) tgt; (s', acc.2 ++ [h])
    | none => acc) (s, [])

/-- `Solid.copy(des_id, vmf_file)`: the sides first, then the solid. -/
def copySolid (s : St) (o : Obj) (des : Int) (tgt : Option Nat) : St × Nat :=
  let (s1, sides) := copySides s o.kids tgt
  allocObj s1 .solid (tgt.getD o.map) des sides

def copySolids (s : St) (solids : List Nat) (tgt : Option Nat) : St × List Nat :=
  solids.foldl (fun (acc : St × List Nat) b =>
    match acc.1.objs b with
    | some bo => let (s', h) := copySolid acc.1 bo (-1) tgt; (s', acc.2 ++ [h])
    | none => acc) (s, [])

/-- `Entity.copy(des_id, vmf_file)`. -/
def copyEnt (c : Cfg) (s : St) (h : Nat) (o : Obj) (des : Int) (tgt : Option Nat) : St × Nat :=
  let (s1, solids) := copySolids s (kidsSeen s h o) tgt
  mkEnt c s1 (tgt.getD o.map) des (match o.node with | some n => .int n | none => .absent) solids o.fix

/-- `VisGroup.copy(vmf, mapping, des_id)`: children (recursively, no desired id), then the group. -/
def copyVis (s : St) : Nat → Nat → Int → Option Nat → St × Option Nat
  | 0, _, _, _ => (s, none)
  | fuel + 1, h, des, tgt =>
    match s.objs h with
    | none => (s, none)
    | some o =>
      let acc := o.kids.foldl (fun (acc : St × List Nat) ch =>
        match copyVis acc.1 fuel ch (-1) tgt with
        | (s', some h') => (s', acc.2 ++ [h'])
        | (s', none) => (s', acc.2)) (s, [])
      let (s2, h2) := allocObj acc.1 .vis (tgt.getD o.map) des acc.2
      (s2, some h2)

/-- `Solid.parse`: faces in order, then the brush. -/
def parseSolid (s : St) (m : Nat) (d : SolidDoc) : St × Nat :=
  let acc := d.sides.foldl (fun (acc : St × List Nat) i =>
    let (s', h) := allocObj acc.1 .face m i []; (s', acc.2 ++ [h])) (s, [])
  allocObj acc.1 .solid m d.id acc.2

def parseSolids (s : St) (m : Nat) (ds : List SolidDoc) : St × List Nat :=
  ds.foldl (fun (acc : St × List Nat) d =>
    let (s', h) := parseSolid acc.1 m d; (s', acc.2 ++ [h])) (s, [])

/-- visgroups in creation order; a group with `n` children takes the last `n` finished ones. -/
def parseVis (s : St) (m : Nat) (l : List (Int × Nat)) : St :=
  (l.foldl (fun (acc : St × List Nat) e =>
    let n := min e.2 acc.2.length
    let kids := (acc.2.take n).reverse
    let (s', h) := allocObj acc.1 .vis m e.1 kids
    (s', h :: acc.2.drop n)) (s, [])).1

/-- one `entity` block of a document: `map_obj.add_ent(Entity.parse(map_obj, ent))`. -/
def parseEnt (c : Cfg) (m : Nat) (s : St) (e : EntDoc) : St :=
  let (sa, solids) := parseSolids s m e.solids
  let (sb, h) := mkEnt c sa m e.id e.node solids e.fix
  match sb.objs h with
  | some o => addEnt c sb h o
  | none => sb

/-- `VMF.parse(doc)` with preserve_ids=False. -/
def parseDoc (c : Cfg) (s : St) (d : Doc) : St :=
  let (s0, m) := newMap s
  let s1 := parseVis s0 m d.vis
  -- world: its brushes, its group blocks, then the entity itself
  let (s2, wsolids) := parseSolids s1 m d.worldSolids
  let s3 := d.groups.foldl (fun s g => (allocObj s .group m g []).1) s2
  let (s4, w) := mkEnt c s3 m d.worldId .absent [] []
  let s5 := { s4 with pinned := w :: s4.pinned,
                      spawn := fun m' => if m' = m then w else s4.spawn m',
                      brushes := fun m' => if m' = m then wsolids else s4.brushes m' }
  let s6 := d.ents.foldl (parseEnt c m) s5
  -- the spawn entity made by `VMF()` is a local of `parse` (or indexed for ever, older source)
  if c.parseKeepsPlaceholder then s6 else { s6 with pinned := s6.pinned.erase (s0.spawn m) }

def tgtOk (s : St) (tgt : Option Nat) : Bool :=
  match tgt with
  | some t => decide (t < s.nmaps)
  | none => true

def eraseFirst (l : List Nat) (h : Nat) : List Nat := l.erase h

def stepCore (c : Cfg) (s : St) : Op → St
  | .newmap => (newMap s).1
  | .ent r m des node solids fix =>
    if m < s.nmaps then
      match regHandles s solids .solid with
      | some kids => let (s1, h) := mkEnt c s m des node kids fix; bind s1 r h
      | none => s
    else s
  | .addent r =>
    match regObj s r .ent with
    | some (h, o) => addEnt c s h o
    | none => s
  | .rment r =>
    match regObj s r .ent with
    | some (h, o) =>
      if c.removeSpawnRaises ∧ s.spawn o.map = h then s
      else removeEntRelease c { s with ents := fun m' => if m' = o.map then eraseFirst (s.ents m') h else s.ents m' } h
    | none => s
  | .side r m des =>
    if m < s.nmaps then let (s1, h) := allocObj s .face m des []; bind s1 r h else s
  | .solid r m des sides =>
    if m < s.nmaps then
      match regHandles s sides .face with
      | some kids => let (s1, h) := allocObj s .solid m des kids; bind s1 r h
      | none => s
    else s
  | .addbrush r =>
    match regObj s r .solid with
    | some (h, o) => { s with brushes := fun m' => if m' = o.map then s.brushes m' ++ [h] else s.brushes m' }
    | none => s
  | .rmbrush r =>
    match regObj s r .solid with
    | some (h, o) => { s with brushes := fun m' => if m' = o.map then eraseFirst (s.brushes m') h else s.brushes m' }
    | none => s
  | .copy r' r des tgt =>
    match regAny s r with
    | none => s
    | some (h, o) =>
      if tgtOk s tgt then
        match o.kind with
        | .ent => let (s1, h') := copyEnt c s h o des tgt; bind s1 r' h'
        | .solid => let (s1, h') := copySolid s o des tgt; bind s1 r' h'
        | .face => let (s1, h') := copySide s o des tgt; bind s1 r' h'
        | .group => let (s1, h') := allocObj s .group (tgt.getD o.map) o.id []; bind s1 r' h'
        | .vis =>
          match copyVis s 8 h des tgt with
          | (s1, some h') => bind s1 r' h'
          | (s1, none) => s1
        | .node => s
      else s
  | .drop r => { s with regs := fun r' => if r' = r then none else s.regs r' }
  | .kid r' r i =>
    match regAny s r with
    | some (h, o) => match (kidsSeen s h o)[i]? with
      | some h' => bind s r' h'
      | none => s
    | none => s
  | .entat r' m i => match (s.ents m)[i]? with
    | some h => bind s r' h
    | none => s
  | .brushat r' m i => match (s.brushes m)[i]? with
    | some h => bind s r' h
    | none => s
  | .spawn r' m => if m < s.nmaps then bind s r' (s.spawn m) else s
  | .setnode r v =>
    match regObj s r .ent with
    | some (h, _) => (match v with
      | .int n => nodeAssign c s h n
      | .raw => nodeClear c s h true
      | .absent => s)
    | none => s
  | .delnode r =>
    match regObj s r .ent with
    | some (h, _) => nodeClear c s h true
    | none => s
  | .popnode r =>
    match regObj s r .ent with
    | some (h, _) => nodeClear c s h c.popReleasesNode
    | none => s
  | .group r m des =>
    if m < s.nmaps then let (s1, h) := allocObj s .group m des []; bind s1 r h else s
  | .vis r m des kids =>
    if m < s.nmaps then
      match regHandles s kids .vis with
      | some ks => let (s1, h) := allocObj s .vis m des ks; bind s1 r h
      | none => s
    else s
  | .fxset r v =>
    match regObj s r .ent with
    | some (h, o) => setFix s h (fxSet o.fix v)
    | none => s
  | .fxdel r v =>
    match regObj s r .ent with
    | some (h, o) => setFix s h (fxDel o.fix v)
    | none => s
  | .parse d => parseDoc c s d
  | .failsolid m des =>
    -- `Solid(vmf, des, [], <not iterable>)`: the attrs __init__ stores the DESIRED id, then the
    -- visgroup_ids converter raises before __attrs_post_init__ asks the manager; the half-built
    -- object is destroyed and `__del__` runs.
    if m < s.nmaps ∧ c.failedCtorReleases then manDiscard c s m .solid des else s

  | .failent m des =>
    -- `Entity(vmf, ent_id=des, groups=<not iterable>)` raises AFTER `self.id = ent_id.get_id(des)`:
    -- the object owns a registered id and nothing references it (collected right away).
    if m < s.nmaps then (allocObj s .ent m des []).1 else s
  | .failside m des =>
    -- `Side(vmf, planes, des, disp_power=<str>)` raises after `self.id = face_id.get_id(des)`.
    if m < s.nmaps then (allocObj s .face m des []).1 else s

/-- one operation, then reference-count collection. -/
def step (c : Cfg) (s : St) (op : Op) : St := collect c (stepCore c s op)

def run (c : Cfg) (ops : List Op) : St := ops.foldl (step c) St.init

/-! ### observation helpers (also used in decidable statements) -/

def aliveObjs (s : St) : List (Nat × Obj) :=
  (List.range s.next).filterMap (fun h => match s.objs h with
    | some o => if o.alive then some (h, o) else none
    | none => none)

/-- two different live objects of one kind in one map with the same id. -/
def hasDupLive (s : St) : Bool :=
  let l := aliveObjs s
  l.any (fun a => l.any (fun b => a.1 != b.1 && a.2.kind == b.2.kind && a.2.map == b.2.map && a.2.id == b.2.id))

/-- two different live entities of one map whose `nodeid` keys denote the same number. -/
def hasDupNode (s : St) : Bool :=
  let l := aliveObjs s
  l.any (fun a => l.any (fun b => a.1 != b.1 && a.2.map == b.2.map && a.2.node.isSome && a.2.node == b.2.node))

/-- a live object with a non-positive id. -/
def hasNonPos (s : St) : Bool :=
  (aliveObjs s).any (fun a => decide (a.2.id ≤ 0) || (match a.2.node with | some n => decide (n ≤ 0) | none => false))

end C08
