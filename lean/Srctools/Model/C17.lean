/-!
# C17 — model of instance collapsing (`srctools/instancing.py`, geometry helpers of `vmf.py`/`math.py`)

Core Lean only (the driver `drv_c17` links this file and evaluates it over `Rat`).
Everything numeric is generic in the scalar type `α` and only asks for the operations it uses,
so that the theorems (Proofs/C17.lean, Props/C17.lean) can be stated over an arbitrary
commutative ring / field while the driver instantiates `α := Rat`.

As coded:
* `rot M v`            = `MatrixBase._vec_rot`  (`v @ M`, row-vector convention)
* `M3.mul A B`         = `MatrixBase._mat_mul`  (`A @ B`)
* `place P p`          = `Vec.localise` / `Vec @ orient + origin`
* `localiseAxis P ax`  = `UVAxis.localise`  (`offset - (axis'·origin)/scale`)
* `Side.localise`, `Solid.localise`
* `fixupName`          = `Instance.fixup_name`
* `substitute`         = `EntityFixup.substitute(text, default)` without `allow_invert`
* `fixupKey`/`collapseEnt`/`collapse` = the part of `collapse_one` that transforms brushes,
  typed keyvalues, output targets and the fixups of nested `func_instance` entities
* `collapseAll`        = the bounded loop of `collapse_all` as a counter machine
-/
namespace C17

/-! ## vectors, matrices, placements -/

structure V3 (α : Type) where
  x : α
  y : α
  z : α
  deriving Repr, BEq, DecidableEq

structure M3 (α : Type) where
  aa : α
  ab : α
  ac : α
  ba : α
  bb : α
  bc : α
  ca : α
  cb : α
  cc : α
  deriving Repr, BEq, DecidableEq

/-- An instance placement: orientation matrix and origin. -/
structure Placement (α : Type) where
  R : M3 α
  o : V3 α
  deriving Repr, BEq, DecidableEq

section AddMul
variable {α : Type} [Add α] [Mul α]

def V3.add (a b : V3 α) : V3 α := ⟨a.x + b.x, a.y + b.y, a.z + b.z⟩

/-- `Vec.dot` -/
def V3.dot (a b : V3 α) : α := a.x * b.x + a.y * b.y + a.z * b.z

/-- `MatrixBase._vec_rot`: the row vector `v` times `M`. -/
def rot (M : M3 α) (v : V3 α) : V3 α :=
  ⟨(v.x * M.aa) + (v.y * M.ba) + (v.z * M.ca),
   (v.x * M.ab) + (v.y * M.bb) + (v.z * M.cb),
   (v.x * M.ac) + (v.y * M.bc) + (v.z * M.cc)⟩

/-- `MatrixBase._mat_mul`: `A @ B`. -/
def M3.mul (A B : M3 α) : M3 α :=
  ⟨A.aa * B.aa + A.ab * B.ba + A.ac * B.ca,
   A.aa * B.ab + A.ab * B.bb + A.ac * B.cb,
   A.aa * B.ac + A.ab * B.bc + A.ac * B.cc,
   A.ba * B.aa + A.bb * B.ba + A.bc * B.ca,
   A.ba * B.ab + A.bb * B.bb + A.bc * B.cb,
   A.ba * B.ac + A.bb * B.bc + A.bc * B.cc,
   A.ca * B.aa + A.cb * B.ba + A.cc * B.ca,
   A.ca * B.ab + A.cb * B.bb + A.cc * B.cb,
   A.ca * B.ac + A.cb * B.bc + A.cc * B.cc⟩

def M3.transpose (A : M3 α) : M3 α :=
  ⟨A.aa, A.ba, A.ca, A.ab, A.bb, A.cb, A.ac, A.bc, A.cc⟩

/-- `p @ orient + origin` (`Vec.localise`). -/
def place (P : Placement α) (p : V3 α) : V3 α := (rot P.R p).add P.o

/-- First `P₁`, then `P₂` (a nested instance: `P₁` is the inner placement). -/
def Placement.comp (P₁ P₂ : Placement α) : Placement α := ⟨P₁.R.mul P₂.R, place P₂ P₁.o⟩

end AddMul

section Units
variable {α : Type} [Zero α] [One α]
def V3.zero : V3 α := ⟨0, 0, 0⟩
def M3.one : M3 α := ⟨1, 0, 0, 0, 1, 0, 0, 0, 1⟩
/-- The placement of `Manifest` sub-maps: `Vec(), Matrix()`. -/
def Placement.id : Placement α := ⟨M3.one, V3.zero⟩
end Units

section Sub
variable {α : Type} [Add α] [Mul α] [Sub α]
def V3.sub (a b : V3 α) : V3 α := ⟨a.x - b.x, a.y - b.y, a.z - b.z⟩
def V3.cross (a b : V3 α) : V3 α :=
  ⟨a.y * b.z - a.z * b.y, a.z * b.x - a.x * b.z, a.x * b.y - a.y * b.x⟩
/-- determinant with rows `a b c` = `(a × b) · c` -/
def det3 (a b c : V3 α) : α := (a.cross b).dot c
def M3.det (M : M3 α) : α := det3 ⟨M.aa, M.ab, M.ac⟩ ⟨M.ba, M.bb, M.bc⟩ ⟨M.ca, M.cb, M.cc⟩
/-- Plane equation of the plane through `p0 p1 p2` evaluated at `q`: zero iff `q` lies on it. -/
def planeEq3 (p0 p1 p2 q : V3 α) : α := det3 (p1.sub p0) (p2.sub p0) (q.sub p0)
end Sub

/-! ## `Matrix.from_angle` over the cosines / sines of the three angles -/

/-- The six numbers `Matrix.from_angle` computes first: cos/sin of pitch, yaw, roll. -/
structure Trig (α : Type) where
  cp : α
  sp : α
  cy : α
  sy : α
  cr : α
  sr : α
  deriving Repr, BEq, DecidableEq

section FromAngle
variable {α : Type} [Add α] [Mul α] [Sub α] [Neg α]

/-- `Matrix.from_angle` as coded. -/
def fromTrig (a : Trig α) : M3 α :=
  ⟨a.cp * a.cy, a.cp * a.sy, -a.sp,
   a.sp * (a.sr * a.cy) - (a.cr * a.sy), a.sp * (a.sr * a.sy) + (a.cr * a.cy), a.sr * a.cp,
   a.sp * (a.cr * a.cy) + (a.sr * a.sy), a.sp * (a.cr * a.sy) - (a.sr * a.cy), a.cr * a.cp⟩

variable [Zero α] [One α]
def yawM (a : Trig α) : M3 α := ⟨a.cy, a.sy, 0, -a.sy, a.cy, 0, 0, 0, 1⟩
def pitchM (a : Trig α) : M3 α := ⟨a.cp, 0, -a.sp, 0, 1, 0, a.sp, 0, a.cp⟩
def rollM (a : Trig α) : M3 α := ⟨1, 0, 0, 0, a.cr, a.sr, 0, -a.sr, a.cr⟩
end FromAngle

/-! ## texture axes, faces, brushes -/

/-- `vmf.UVAxis` -/
structure UVAxis (α : Type) where
  dir : V3 α
  offset : α
  scale : α
  deriving Repr, BEq, DecidableEq

/-- `vmf.DispVertex`: the three per-vertex vectors (directions) and the scalars that go with them. -/
structure DispVert (α : Type) where
  normal : V3 α
  offset : V3 α
  offsetNorm : V3 α
  distance : α
  alpha : α
  deriving Repr, BEq, DecidableEq

/-- Displacement data of a face: `disp_pos` (a position) and the vertex grid. -/
structure Disp (α : Type) where
  pos : V3 α
  verts : List (DispVert α)
  deriving Repr, BEq, DecidableEq

/-- `vmf.Side`: the three plane points, the two texture axes and the displacement data if any. -/
structure Side (α : Type) where
  p0 : V3 α
  p1 : V3 α
  p2 : V3 α
  u : UVAxis α
  v : UVAxis α
  disp : Option (Disp α)
  deriving Repr, BEq, DecidableEq

section DispGeom
variable {α : Type} [Add α] [Mul α]

/-- Directions are rotated without the offset: `v @ orient`. -/
def placeDir (P : Placement α) (v : V3 α) : V3 α := rot P.R v

/-- `vert.offset @= orient; vert.normal @= orient; vert.offset_norm @= orient` -/
def DispVert.localise (P : Placement α) (d : DispVert α) : DispVert α :=
  { d with normal := placeDir P d.normal, offset := placeDir P d.offset,
           offsetNorm := placeDir P d.offsetNorm }

/-- `self.disp_pos.localise(origin, orient)` and every vertex rotated. -/
def Disp.localise (P : Placement α) (d : Disp α) : Disp α :=
  ⟨place P d.pos, d.verts.map (DispVert.localise P)⟩

def V3.smul (c : α) (v : V3 α) : V3 α := ⟨c * v.x, c * v.y, c * v.z⟩

/-- World position of a displaced vertex whose flat position on the face is `base`
(Source: `base + distance·normal + offset`; the elevation term is along `offset_normal`). -/
def DispVert.point (d : DispVert α) (elev : α) (base : V3 α) : V3 α :=
  ((base.add (V3.smul d.distance d.normal)).add d.offset).add (V3.smul elev d.offsetNorm)
end DispGeom

abbrev Solid (α : Type) := List (Side α)

section UV
variable {α : Type} [Add α] [Mul α] [Sub α] [Div α]

/-- `UVAxis.localise(origin, angles)`: rotate the direction,
`offset - vec.dot(origin) / self.scale`, same scale. -/
def localiseAxis (P : Placement α) (ax : UVAxis α) : UVAxis α :=
  let vec := rot P.R ax.dir
  ⟨vec, ax.offset - vec.dot P.o / ax.scale, ax.scale⟩

/-- Texture coordinate of the world point `p` under axis `ax` (Source: `p·axis/scale + offset`). -/
def texCoord (ax : UVAxis α) (p : V3 α) : α := p.dot ax.dir / ax.scale + ax.offset

/-- `Side.localise`: plane points placed, both axes localised, displacement start position placed
and its per-vertex vectors rotated. -/
def Side.localise (P : Placement α) (s : Side α) : Side α :=
  ⟨place P s.p0, place P s.p1, place P s.p2, localiseAxis P s.u, localiseAxis P s.v,
   s.disp.map (Disp.localise P)⟩

/-- `Solid.localise` -/
def Solid.localise (P : Placement α) (b : Solid α) : Solid α := b.map (Side.localise P)

/-- Plane equation of a face evaluated at `q`: zero iff `q` is on the plane through the three
plane points. -/
def Side.planeEq (s : Side α) (q : V3 α) : α := planeEq3 s.p0 s.p1 s.p2 q

end UV

/-! ## names -/

/-- `instancing.FixupStyle` (codes 0,1,2). -/
inductive Style | pre | suf | none
  deriving Repr, BEq, DecidableEq

def Style.ofCode : Nat → Style
  | 0 => .pre
  | 1 => .suf
  | _ => .none

/-- `not name or name.startswith(('@', '!'))` -/
def passThrough : List Char → Bool
  | [] => true
  | c :: _ => c == '@' || c == '!'

/-- `Instance.fixup_name` -/
def fixupName (st : Style) (inst name : List Char) : List Char :=
  if passThrough name then name
  else match st with
    | .none => name
    | .pre => inst ++ '-' :: name
    | .suf => name ++ '-' :: inst

/-! ## `$variable` substitution -/

/-- The fixup table in dict order: (casefolded variable name, value). -/
abbrev FixTable := List (List Char × List Char)

/-- ASCII lower-casing (the tie is restricted to ASCII variable names; `re.IGNORECASE` on an ASCII
pattern letter accepts exactly its two ASCII cases apart from U+017F/U+212A which are excluded from
the generated texts). -/
def lowerAscii (c : Char) : Char :=
  if 'A' ≤ c ∧ c ≤ 'Z' then Char.ofNat (c.toNat + 32) else c

/-- The per-character simple case fold: how `re.IGNORECASE` compares a (casefolded) key character
with a text character (`a == lw b`), and how `str.casefold()` folds a matched name (`map lw`).
The default instance is ASCII lower-casing; the driver installs the table the harness extracted
from Python (`str.casefold`, checked against `re` for the characters of each request). -/
class CharFold where
  lw : Char → Char

instance (priority := low) CharFold.ascii : CharFold := ⟨lowerAscii⟩

section Subst
variable [CharFold]

/-- Does the (casefolded) key match case-insensitively at the start of `rest`? -/
def matchesCI : List Char → List Char → Bool
  | [], _ => true
  | _ :: _, [] => false
  | a :: k, b :: rest => a == CharFold.lw b && matchesCI k rest

/-- Stable insertion, longest first: `k` goes in front of the first element that is not longer. -/
def insKey (k : List Char) : List (List Char) → List (List Char)
  | [] => [k]
  | e :: l => if e.length ≤ k.length then k :: e :: l else e :: insKey k l

def sortByLen : List (List Char) → List (List Char)
  | [] => []
  | k :: rest => insKey k (sortByLen rest)

/-- `sorted(self._fixup.keys(), key=len, reverse=True)` — stable, longest first (a structural
insertion sort, so that closed instances evaluate in the kernel). -/
def sortKeys (t : FixTable) : List (List Char) := sortByLen (t.map (·.1))

/-- The alternatives of the regular expression before the identifier fall-back, in order.
`"|".join([])` is the empty string, so an empty table yields the single empty alternative. -/
def alternatives (t : FixTable) : List (List Char) :=
  if t.isEmpty then [[]] else sortKeys t

/-- Ordered alternation: the first alternative that matches. -/
def firstMatch : List (List Char) → List Char → Option (List Char)
  | [], _ => none
  | k :: ks, rest => if matchesCI k rest then some k else firstMatch ks rest

def isIdStart (c : Char) : Bool := let l := CharFold.lw c; ('a' ≤ l && l ≤ 'z') || l == '_'
def isIdCont (c : Char) : Bool := isIdStart c || ('0' ≤ c && c ≤ '9')

/-- Length of the longest `[a-z_][a-z0-9_]*` (ignoring case) at the start of `rest`; 0 = no match. -/
def identLen : List Char → Nat
  | [] => 0
  | c :: cs => if isIdStart c then 1 + (cs.takeWhile isIdCont).length else 0

def lookupFix (t : FixTable) (k : List Char) : Option (List Char) :=
  (t.find? (fun p => p.1 == k)).map (·.2)

/-- What follows a `$`: number of characters consumed and the replacement text.
`fixup[varname.casefold()].value`, or `default` on KeyError. -/
def matchVar (t : FixTable) (dflt : List Char) (rest : List Char) : Option (Nat × List Char) :=
  match firstMatch (alternatives t) rest with
  | some k => some (k.length, (lookupFix t k).getD dflt)
  | none =>
    match identLen rest with
    | 0 => none
    | n + 1 => some (n + 1, (lookupFix t ((rest.take (n + 1)).map CharFold.lw)).getD dflt)

/-- `re.sub` scan: `skip` characters of an already replaced variable name remain to be dropped. -/
def substGo (t : FixTable) (dflt : List Char) : Nat → List Char → List Char
  | _, [] => []
  | skip + 1, _ :: cs => substGo t dflt skip cs
  | 0, c :: cs =>
    if c = '$' then
      match matchVar t dflt cs with
      | some (n, val) => val ++ substGo t dflt n cs
      | none => '$' :: substGo t dflt 0 cs
    else c :: substGo t dflt 0 cs

/-- `EntityFixup.substitute(text, default)` (`allow_invert=False`: a leading `!` is matched by the
pattern and put back by the replacer, which is the same as copying it). -/
def substitute (t : FixTable) (dflt : List Char) (text : List Char) : List Char :=
  substGo t dflt 0 text

end Subst

/-! ## collapsing one instance -/

/-- An instance: `Instance.name`, `.fixup_type`, `.fixup`, `.orient`/`.pos`. -/
structure Inst (α : Type) where
  name : List Char
  style : Style
  fixup : FixTable
  P : Placement α

/-- A keyvalue after classification by the engine FGD (the classification itself is done by the
implementation's database and transmitted by the harness). -/
inductive KVal (α : Type) where
  /-- `origin`, VEC, VEC_ORIGIN, VEC_LINE: absolute positions -/
  | pos (v : V3 α)
  /-- EXT_VEC_DIRECTION: rotated only -/
  | dir (v : V3 α)
  /-- VEC_AXIS: two positions -/
  | axis (a b : V3 α)
  /-- `angles`, ANGLES: an orientation, carried as its matrix `Matrix.from_angle(value)` -/
  | orient (m : M3 α)
  /-- `is_ent_name` types: substituted then renamed -/
  | name (s : List Char)
  /-- TARG_DEST_CLASS: renamed unless it is a known classname -/
  | nameOrClass (s : List Char) (isClass : Bool)
  /-- every other type: substituted only -/
  | text (s : List Char)
  /-- classname / hammerid / spawnflags / keys unknown to the FGD: left exactly as they are -/
  | keep (s : List Char)
  deriving Repr, BEq

structure Ent (α : Type) where
  keys : List (List Char × KVal α)
  /-- output targets -/
  outs : List (List Char)
  /-- values of the `$fixup` table of a nested `func_instance` -/
  fixups : List (List Char)
  solids : List (Solid α)

/-- A parsed instance file: visible world brushes and visible entities. -/
structure Template (α : Type) where
  brushes : List (Solid α)
  ents : List (Ent α)

section Collapse
variable {α : Type} [Add α] [Mul α] [Sub α] [Div α] [CharFold]

/-- `Instance.fixup_key` after `inst.fixup.substitute(value, '')`. -/
def fixupKey (I : Inst α) : KVal α → KVal α
  | .pos v => .pos (place I.P v)
  | .dir v => .dir (rot I.P.R v)
  | .axis a b => .axis (place I.P a) (place I.P b)
  | .orient m => .orient (m.mul I.P.R)
  | .name s => .name (fixupName I.style I.name (substitute I.fixup [] s))
  | .nameOrClass s c =>
    .nameOrClass (if c then substitute I.fixup [] s
                  else fixupName I.style I.name (substitute I.fixup [] s)) c
  | .text s => .text (substitute I.fixup [] s)
  | .keep s => .keep s

/-- `value and value[0] not in '@!-.0123456789'` → `fixup_name(value)` -/
def renamesFixup (v : List Char) : Bool :=
  match v with
  | [] => false
  | c :: _ => !("@!-.0123456789".toList.contains c)

def fixupFix (I : Inst α) (v : List Char) : List Char :=
  if renamesFixup v then fixupName I.style I.name v else v

def collapseEnt (I : Inst α) (e : Ent α) : Ent α :=
  { keys := e.keys.map (fun kv => (kv.1, fixupKey I kv.2)),
    outs := e.outs.map (fun t => fixupName I.style I.name (substitute I.fixup [] t)),
    fixups := e.fixups.map (fixupFix I),
    solids := e.solids.map (Solid.localise I.P) }

/-- What `collapse_one` adds to the target map (ids aside). -/
def collapse (T : Template α) (I : Inst α) : Template α :=
  { brushes := T.brushes.map (Solid.localise I.P),
    ents := T.ents.map (collapseEnt I) }

/-! `mapGeometry`: apply a placement to the geometric content only. -/
def KVal.mapGeom (P : Placement α) : KVal α → KVal α
  | .pos v => .pos (place P v)
  | .dir v => .dir (rot P.R v)
  | .axis a b => .axis (place P a) (place P b)
  | .orient m => .orient (m.mul P.R)
  | k => k

def Ent.mapGeom (P : Placement α) (e : Ent α) : Ent α :=
  { e with keys := e.keys.map (fun kv => (kv.1, kv.2.mapGeom P)),
           solids := e.solids.map (Solid.localise P) }

def mapGeometry (P : Placement α) (T : Template α) : Template α :=
  { brushes := T.brushes.map (Solid.localise P), ents := T.ents.map (Ent.mapGeom P) }

end Collapse

/-! ## `collapse_all` as a counter machine

`files[f]` lists, for instance file `f`, the files referenced by its visible `func_instance`
entities (an index `≥ files.length` is a file that does not exist). The state is the list of
`func_instance` entities currently in the map (by file). One round of the `for _ in range(limit)`
loop removes every instance present at its start and adds the nested ones. -/

inductive Outcome | done | recursion | missing
  deriving Repr, BEq, DecidableEq

structure Run where
  collapses : Nat
  outcome : Outcome
  /-- number of `func_instance` entities left in the map at the end -/
  left : Nat
  deriving Repr, BEq, DecidableEq

def children (files : List (List Nat)) (f : Nat) : List Nat := files.getD f []

def collapseAll (files : List (List Nat)) : Nat → List Nat → Run
  | 0, insts => ⟨0, .recursion, insts.length⟩
  | limit + 1, insts =>
    if insts.isEmpty then ⟨0, .done, 0⟩
    else
      let ok := insts.takeWhile (· < files.length)
      if ok.length < insts.length then
        -- `fsys.read_kv1` raises FileNotFoundError; the instance entity is removed only after its
        -- file was loaded (fix `C17-missing-file-keeps-instance`), so it is still in the map
        ⟨ok.length, .missing, (insts.length - ok.length) + (ok.flatMap (children files)).length⟩
      else
        let r := collapseAll files limit (insts.flatMap (children files))
        { r with collapses := insts.length + r.collapses }

/-- `Σ_{k<n} b^k` -/
def geomSum (b : Nat) : Nat → Nat
  | 0 => 0
  | n + 1 => 1 + b * geomSum b n

/-! ## the shared-`FixupValue` aliasing of `Entity.copy` (minimal store model)

`FixupValue` objects are mutable cells. A template `func_instance` entity owns a list of cell
locations. `Entity.copy` either shares them (`copy_values()` returns the same objects — as coded in
2.5.0) or allocates fresh cells (the repaired code). `collapse_one` then assigns
`fixup_name(value)` through the *copy's* locations. -/

abbrev Store := List (List Char)

inductive CopyMode | shared | fresh
  deriving Repr, BEq, DecidableEq

/-- copy the cells at `locs`: returns the copy's locations and the new store -/
def copyCells (m : CopyMode) (st : Store) (locs : List Nat) : List Nat × Store :=
  match m with
  | .shared => (locs, st)
  | .fresh => (List.range' st.length locs.length, st ++ locs.map (fun l => st.getD l []))

def writeCells (f : List Char → List Char) (st : Store) (locs : List Nat) : Store :=
  locs.foldl (fun s l => s.set l (f (s.getD l []))) st

def readCells (st : Store) (locs : List Nat) : List (List Char) := locs.map (fun l => st.getD l [])

/-- One collapse of a template entity whose fixup cells are `locs`: returns the new entity's fixup
values and the store afterwards. -/
def collapseCells (m : CopyMode) (f : List Char → List Char) (st : Store) (locs : List Nat) :
    List (List Char) × Store :=
  let (nl, st1) := copyCells m st locs
  let st2 := writeCells f st1 nl
  (readCells st2 nl, st2)

end C17
