import Srctools.Model.C01
/-!
# C20 — soundscripts: `Sound.export` and `Sound.parse_one`, as coded

* `serA`: the text layout shared by the hand-written KeyValues writers of this library
  (`Sound.export`): the layout of `Keyvalues.serialise` (tab indent, indented braces) in which each
  name / value is written *bare*, *in plain quotes* or *in quotes through `escape_text`*, and
  sub-trees may be delegated to `Keyvalues.serialise` itself (`plain`).
* `exportSnd`: `Sound.export` as such an annotated tree; `exportSndText` its text;
  `exportSndKV` the Keyvalues tree that text denotes.
* `parseSnd`: `Sound.parse_one` on a Keyvalues tree (lookups as `Keyvalues.find_key`,
  `_get_value`, `__contains__`, `find_all` code them: last match / any match, names compared
  case-folded), `split_float`, the channel and version fields, operator stacks as opaque sub-trees.

Numbers are carried as the text `str(x)` the harness supplies (with Python's `==` of the two ends of
a range and the two "equals the default" tests as booleans); parsing a number back is the
table `canon` (what `str(conv_float(piece))` is, supplied by the harness from CPython).
`str.upper` / `str.strip` are modelled on ASCII.  Core only (linked into `drv_c20`).
-/
namespace C20.Snd
open C01 (KV)

/-! ## annotated layout -/

/-- how a string is written -/
inductive Q
  | bare   -- as is
  | raw    -- between quotes, unescaped
  | esc    -- between quotes, through `escape_text`
deriving Repr, DecidableEq

inductive AKV where
  | leaf (nq : Q) (n : List Char) (vq : Q) (v : List Char)
  | block (nq : Q) (n : List Char) (cs : List AKV)
  | plain (t : KV)
deriving Repr

def wr (T : Tok.Tables) : Q → List Char → List Char
  | .bare, s => s
  | .raw, s => '"' :: (s ++ ['"'])
  | .esc, s => '"' :: (Tok.escapeText T false s ++ ['"'])

/-- `Keyvalues.serialise()` defaults: tab indent, indented braces. -/
def serOpts : C01.SerOpts := { indent := ['\t'], indentBraces := true, startIndent := [] }

mutual
def serA (T : Tok.Tables) (c : C01.SerCfg) (cur : List Char) : AKV → List Char
  | .leaf nq n vq v => cur ++ (wr T nq n ++ ' ' :: (wr T vq v ++ ['\n']))
  | .block nq n cs =>
    cur ++ (wr T nq n ++ '\n' :: (cur ++ '\t' :: '{' :: '\n' ::
      (serAList T c (cur ++ ['\t']) cs ++ (cur ++ ['\t', '}', '\n']))))
  | .plain t => C01.serKV T c serOpts cur t
def serAList (T : Tok.Tables) (c : C01.SerCfg) (cur : List Char) : List AKV → List Char
  | [] => []
  | a :: as => serA T c cur a ++ serAList T c cur as
end

mutual
/-- the Keyvalues tree the text denotes -/
def erase : AKV → KV
  | .leaf _ n _ v => KV.leaf n v
  | .block _ n cs => KV.block n (eraseList cs)
  | .plain t => t
def eraseList : List AKV → List KV
  | [] => []
  | a :: as => erase a :: eraseList as
end

/-! ## values -/

inductive Val
  | enum (name : List Char)
  | num (txt : List Char)
deriving Repr, DecidableEq

def Val.txt : Val → List Char
  | .enum n => n
  | .num t => t

/-- a (low, high) pair with Python's `low == high` as decided by CPython. -/
structure Pair where
  lo : Val
  hi : Val
  same : Bool
deriving Repr, DecidableEq

inductive Chan
  | enum (value : List Char)    -- `Channel` member, by value (`CHAN_AUTO` …)
  | int (txt : List Char)       -- `str(int)`
deriving Repr, DecidableEq

def Chan.txt : Chan → List Char
  | .enum v => v
  | .int t => t

/-- The sound as the writer sees it. -/
structure SoundIn where
  name : List Char
  waves : List (List Char)
  volume : Pair
  /-- `self.volume == (1, 1)` -/
  volDefault : Bool
  pitch : Pair
  /-- `self.pitch == (100, 100)` -/
  pitchDefault : Bool
  level : Pair
  channel : Chan
  forceV2 : Bool
  /-- children of the three operator stacks (`[]` for a missing or empty stack) -/
  start : List KV
  update : List KV
  stop : List KV
deriving Repr

/-- The sound as `parse_one` returns it. -/
structure SoundOut where
  name : List Char
  waves : List (List Char)
  volume : Val × Val
  pitch : Val × Val
  level : Val × Val
  channel : Chan
  v2 : Bool
  /-- `None` without an `operator_stacks` block -/
  stacks : Option (List KV × List KV × List KV)
deriving Repr

/-! ## export -/

def kChannel : List Char := ['c', 'h', 'a', 'n', 'n', 'e', 'l']
def kSoundlevel : List Char := ['s', 'o', 'u', 'n', 'd', 'l', 'e', 'v', 'e', 'l']
def kVolume : List Char := ['v', 'o', 'l', 'u', 'm', 'e']
def kPitch : List Char := ['p', 'i', 't', 'c', 'h']
def kRndwave : List Char := ['r', 'n', 'd', 'w', 'a', 'v', 'e']
def kWave : List Char := ['w', 'a', 'v', 'e']
def kVersion : List Char :=
  ['s', 'o', 'u', 'n', 'd', 'e', 'n', 't', 'r', 'y', '_', 'v', 'e', 'r', 's', 'i', 'o', 'n']
def kStacks : List Char := ['o', 'p', 'e', 'r', 'a', 't', 'o', 'r', '_', 's', 't', 'a', 'c', 'k', 's']
def kStart : List Char := ['s', 't', 'a', 'r', 't', '_', 's', 't', 'a', 'c', 'k']
def kUpdate : List Char := ['u', 'p', 'd', 'a', 't', 'e', '_', 's', 't', 'a', 'c', 'k']
def kStop : List Char := ['s', 't', 'o', 'p', '_', 's', 't', 'a', 'c', 'k']
def kAttenuation : List Char := ['a', 't', 't', 'e', 'n', 'u', 'a', 't', 'i', 'o', 'n']
def two : List Char := ['2']

/-- `join_float`. -/
def join (p : Pair) : List Char :=
  if p.same then p.lo.txt else p.lo.txt ++ (',' :: ' ' :: p.hi.txt)

def stackA (k : List Char) (cs : List KV) : List AKV :=
  if cs.isEmpty then [] else [.block .bare k (cs.map .plain)]

def isV2 (s : SoundIn) : Bool :=
  s.forceV2 || !s.start.isEmpty || !s.stop.isEmpty || !s.update.isEmpty

def wavesA (s : SoundIn) : List AKV :=
  match s.waves with
  | [w] => [.leaf .bare kWave .esc w]
  | ws => [.block .bare kRndwave (ws.map fun w => .leaf .bare kWave .esc w)]

/-- `Sound.export` as an annotated tree. -/
def exportSnd (s : SoundIn) : AKV :=
  .block .esc s.name (
    [.leaf .bare kChannel .bare s.channel.txt, .leaf .bare kSoundlevel .raw (join s.level)] ++
    (if s.volDefault then [] else [.leaf .bare kVolume .raw (join s.volume)]) ++
    (if s.pitchDefault then [] else [.leaf .bare kPitch .raw (join s.pitch)]) ++
    wavesA s ++
    (if isV2 s then
      [.leaf .bare kVersion .bare two,
       .block .bare kStacks (stackA kStart s.start ++ stackA kUpdate s.update ++ stackA kStop s.stop)]
     else []))

def exportSndText (T : Tok.Tables) (c : C01.SerCfg) (s : SoundIn) : List Char := serA T c [] (exportSnd s)

def exportSndKV (s : SoundIn) : KV := erase (exportSnd s)

/-! ## parse -/

inductive Err
  | notBlock            -- the sound is a leaf keyvalue (LeafKeyvalueError)
  | blockOption         -- 'Keyvalues block used for "…" option'
  | split               -- `s_low, s_high = value.split(',')` with more than one comma (ValueError)
  | channel             -- unknown `CHAN_…` / not an integer
  | waveBlock           -- `.value` of a block
  | stacksV1            -- operator stacks with version 1
  | unsupported         -- `attenuation` (not produced by the writer, not modelled)
deriving Repr, DecidableEq

/-- ASCII `str.upper`. -/
def upperC (c : Char) : Char := if 'a' ≤ c ∧ c ≤ 'z' then Char.ofNat (c.toNat - 32) else c
def upper (s : List Char) : List Char := s.map upperC

def isSpace (c : Char) : Bool := c = ' ' || c = '\t' || c = '\n' || c = '\r' || c = '\x0b' || c = '\x0c'

/-- ASCII `str.strip`. -/
def strip (s : List Char) : List Char := ((s.dropWhile isSpace).reverse.dropWhile isSpace).reverse

/-- Tables the reader consults. -/
structure Env where
  /-- the case-folded form of a key, as `str.casefold` (supplied per character like in C01) -/
  fold : Char → List Char
  /-- `VOLUME[...]`: upper-cased name ↦ member name -/
  volumes : List (List Char × List Char)
  pitches : List (List Char × List Char)
  /-- `SOUND_LEVELS`: upper-cased name ↦ member name -/
  levels : List (List Char × List Char)
  /-- `Channel(...)`: values -/
  channels : List (List Char)
  /-- `str(conv_float(piece, default))` for the pieces that are floats (from CPython) -/
  canon : List (List Char × List Char)

def foldStr (E : Env) (s : List Char) : List Char := s.flatMap E.fold

def kvName : KV → List Char
  | KV.leaf n _ => n
  | KV.block n _ => n

def nameIs (E : Env) (k : List Char) (t : KV) : Bool := foldStr E (kvName t) == k

/-- `kv.find_key(key)`: the last child with that (folded) name. -/
def findKey (E : Env) (k : List Char) (cs : List KV) : Option KV := cs.reverse.find? (nameIs E k)

/-- `key in kv` -/
def hasKey (E : Env) (k : List Char) (cs : List KV) : Bool := cs.any (nameIs E k)

/-- `kv._get_value(key)`: the value of the last *leaf* child with that name. -/
def getValue (E : Env) (k : List Char) (cs : List KV) : Option (List Char) :=
  (cs.reverse.find? fun t => nameIs E k t && (match t with | KV.leaf .. => true | KV.block .. => false)).bind
    fun t => match t with | KV.leaf _ v => some v | KV.block .. => none

def lookup (tbl : List (List Char × List Char)) (k : List Char) : Option (List Char) :=
  (tbl.find? (·.1 == k)).map (·.2)

/-- one end of a range: `enum(s.strip().upper())`, else `conv_float(s, default)`. -/
def parseVal (E : Env) (tbl : List (List Char × List Char)) (dflt : Val) (piece : List Char) : Val :=
  match lookup tbl (upper (strip piece)) with
  | some n => .enum n
  | none => match lookup E.canon piece with
    | some t => .num t
    | none => dflt

def splitComma (s : List Char) : List (List Char) :=
  s.foldr (fun c acc => if c = ',' then [] :: acc else
    match acc with
    | [] => [[c]]
    | h :: t => (c :: h) :: t) [[]]

/-- `split_float(value, enum, default)`. -/
def splitFloat (E : Env) (tbl : List (List Char × List Char)) (dflt : Val) (value : List Char) :
    Except Err (Val × Val) :=
  if value.contains ',' then
    match splitComma value with
    | [a, b] => Except.ok (parseVal E tbl dflt a, parseVal E tbl dflt b)
    | _ => Except.error Err.split
  else Except.ok (parseVal E tbl dflt value, parseVal E tbl dflt value)

/-- `parse_split_float(kv, key, enum, default)`. -/
def parseSplit (E : Env) (tbl : List (List Char × List Char)) (dflt : Val) (k : List Char)
    (cs : List KV) : Except Err (Val × Val) :=
  match findKey E k cs with
  | none => Except.ok (dflt, dflt)
  | some (KV.block ..) => Except.error Err.blockOption
  | some (KV.leaf _ v) => splitFloat E tbl dflt v

def rndChildren : List KV → Except Err (List (List Char))
  | [] => Except.ok []
  | KV.leaf _ v :: ts => (rndChildren ts).map (v :: ·)
  | KV.block .. :: _ => Except.error Err.waveBlock

def waveHere (E : Env) (t : KV) : Except Err (List (List Char)) :=
  if nameIs E kWave t then
    (match t with
      | KV.leaf _ v => Except.ok [v]
      | KV.block .. => Except.error Err.waveBlock)
  else if nameIs E kRndwave t then
    (match t with
      | KV.leaf .. => Except.error Err.notBlock
      | KV.block _ cs => rndChildren cs)
  else Except.ok []

/-- the wave list: `wave` leaves and every child of `rndwave` blocks, in order. -/
def wavesOf (E : Env) : List KV → Except Err (List (List Char))
  | [] => Except.ok []
  | t :: ts => (waveHere E t).bind fun here => (wavesOf E ts).map fun rest => here ++ rest

/-- digits with single underscores between them (`1_000`); `start`: a digit must come next. -/
def intDigitsOK (start : Bool) : List Char → Bool
  | [] => !start
  | c :: cs => if c.isDigit then intDigitsOK false cs else if c = '_' && !start then intDigitsOK true cs else false

/-- `int(text)` for `[+-]?digits` with surrounding blanks; `none` = ValueError. -/
def parseInt (s : List Char) : Option Int :=
  let t := strip s
  let (neg, ds) := match t with
    | '-' :: r => (true, r)
    | '+' :: r => (false, r)
    | r => (false, r)
  if !intDigitsOK true ds then none
  else
    let n : Nat := (ds.filter (· != '_')).foldl (fun a c => a * 10 + (c.toNat - 48)) 0
    some (if neg then -(n : Int) else (n : Int))

def intTxt (i : Int) : List Char := (toString i).toList

def startsWith (p s : List Char) : Bool := s.take p.length == p

def chanPrefix : List Char := ['C', 'H', 'A', 'N', '_']
def chanAuto : List Char := ['C', 'H', 'A', 'N', '_', 'A', 'U', 'T', 'O']

/-- the `channel` value: `Channel(text.upper())` for `CHAN_…`, else `int(text.upper())`. -/
def parseChanTxt (E : Env) (txt : List Char) : Except Err Chan :=
  let u := upper txt
  if startsWith chanPrefix u then
    if E.channels.contains u then Except.ok (Chan.enum u) else Except.error Err.channel
  else match parseInt u with
    | some i => Except.ok (Chan.int (intTxt i))
    | none => Except.error Err.channel

def parseChan (E : Env) (cs : List KV) : Except Err Chan :=
  parseChanTxt E ((getValue E kChannel cs).getD chanAuto)

/-- children of the `k2` blocks among `us`; a *leaf* named `k2` cannot be iterated (LeafKeyvalueError). -/
def stackKids (E : Env) (k2 : List Char) : List KV → Except Err (List KV)
  | [] => Except.ok []
  | KV.block m kids :: us =>
    (stackKids E k2 us).map fun rest => if foldStr E m == k2 then kids ++ rest else rest
  | KV.leaf m _ :: us => if foldStr E m == k2 then Except.error Err.notBlock else stackKids E k2 us

/-- children of every `k1/k2` block, in order (`find_children(k1, k2)`). -/
def findChildren2 (E : Env) (k1 k2 : List Char) : List KV → Except Err (List KV)
  | [] => Except.ok []
  | KV.block n sub :: ts =>
    if foldStr E n == k1 then
      (stackKids E k2 sub).bind fun a => (findChildren2 E k1 k2 ts).map fun rest => a ++ rest
    else findChildren2 E k1 k2 ts
  | KV.leaf .. :: ts => findChildren2 E k1 k2 ts

def volDefault : Val := .num ['1', '.', '0']
def pitchDefault : Val := .num ['1', '0', '0', '.', '0']
def levelDefault : Val := .enum ['S', 'N', 'D', 'L', 'V', 'L', '_', 'N', 'O', 'R', 'M']

def parseLevel (E : Env) (cs : List KV) : Except Err (Val × Val) :=
  if hasKey E kSoundlevel cs then parseSplit E E.levels levelDefault kSoundlevel cs
  else if hasKey E kAttenuation cs then Except.error Err.unsupported
  else Except.ok (levelDefault, levelDefault)

def parseVersion (E : Env) (cs : List KV) : Int :=
  match (getValue E kVersion cs).bind parseInt with
  | some i => i
  | none => 1

def parseStacks (E : Env) (version : Int) (cs : List KV) :
    Except Err (Option (List KV × List KV × List KV)) :=
  if hasKey E kStacks cs then
    (if version = 1 then Except.error Err.stacksV1
     else (findChildren2 E kStacks kStart cs).bind fun a =>
          (findChildren2 E kStacks kUpdate cs).bind fun b =>
          (findChildren2 E kStacks kStop cs).bind fun c => Except.ok (some (a, b, c)))
  else Except.ok none

/-- `Sound.parse_one(sound_kv)`. -/
def parseSnd (E : Env) : KV → Except Err SoundOut
  | KV.leaf .. => Except.error Err.notBlock
  | KV.block name cs =>
    (parseSplit E E.volumes volDefault kVolume cs).bind fun volume =>
    (parseSplit E E.pitches pitchDefault kPitch cs).bind fun pitch =>
    (parseLevel E cs).bind fun level =>
    (wavesOf E cs).bind fun waves =>
    (parseChan E cs).bind fun channel =>
    (parseStacks E (parseVersion E cs) cs).bind fun stacks =>
    Except.ok { name, waves, volume, pitch, level, channel, v2 := parseVersion E cs = 2, stacks }

/-! ## what survives -/

def normPair (p : Pair) : Val × Val := if p.same then (p.lo, p.lo) else (p.lo, p.hi)

/-- `normSnd`: a range whose ends compare equal is written once; default volume / pitch are
not written and read back as 1.0 / 100.0; operator stacks exist exactly in version-2 sounds. -/
def normSnd (s : SoundIn) : SoundOut :=
  { name := s.name, waves := s.waves,
    volume := if s.volDefault then (volDefault, volDefault) else normPair s.volume,
    pitch := if s.pitchDefault then (pitchDefault, pitchDefault) else normPair s.pitch,
    level := normPair s.level, channel := s.channel, v2 := isV2 s,
    stacks := if isV2 s then some (s.start, s.update, s.stop) else none }

end C20.Snd
