import Srctools.Model.C06
/-!
# C06 — histories on one live map

`exportTree` is a function of the map VALUE.  The live Python object is exported many times in its
life, with in-place edits in between (`Solid.translate`, `side.uaxis.offset = …`, key edits, …).
This file says what a history is at the level of the model:

* an `edit` is any function on the map value (what a call of the public API does to the fields that
  `c06_gen.dump_map` reads);
* `export o` returns `exportTree o m` of the CURRENT value `m` and leaves the object with the value
  `afterExport o m` — the three things `VMF.export` itself writes to the object, as coded:
  `map_ver += 1` (when `inc_version`), `spawn['classname'] = 'worldspawn'` together with
  `spawn['mapversion'] = …` followed by `del spawn['mapversion']`, and `active_cam = -1` when the
  camera list is empty and the export is not minimal.

Nothing else is carried from one export to the next.  That the CODE has this property (no text
cached inside the objects, no state left by an earlier export) is not provable here: it is
established by the tie — the harness runs histories on live objects and after every export compares
the text with `exportText` of a fresh dump of the object, and the dump after the export with
`afterExport` of the dump before it.
-/
namespace C06

/-- `del ent[k]`: the keys are stored under their case-folded name. -/
def entDelKey (keys : List (Str × Str)) (k : Str) : List (Str × Str) :=
  keys.filter (fun kv => !(lower kv.1 == lower k))

/-- worldspawn's keys when `export` returns. -/
def spawnKeysAfter (o : ExportOpts) (m : VMap) : List (Str × Str) :=
  entDelKey (spawnForExport o m).keys (lit "mapversion")

/-- The value of the live map when `VMF.export` returns. -/
def afterExport (o : ExportOpts) (m : VMap) : VMap :=
  let sp : Ent := { m.spawn with keys := spawnKeysAfter o m }
  let ac : Int := if !o.minimal && m.cams.isEmpty then -1 else m.activeCam
  { m with mapVer := exportedVer o m, spawn := sp, activeCam := ac }

/-- One step of the life of a map object. -/
inductive HOp where
  | edit (f : VMap → VMap)
  | exp (o : ExportOpts)

/-- Run a history: the final value and the trees written by its exports, in order. -/
def runHist : VMap → List HOp → VMap × List (List KV)
  | m, [] => (m, [])
  | m, .edit f :: r => runHist (f m) r
  | m, .exp o :: r => ((runHist (afterExport o m) r).1, exportTree o m :: (runHist (afterExport o m) r).2)

/-- The value the map has at each export of a history (edits and `afterExport` only; no trees). -/
def histPoints : VMap → List HOp → List (ExportOpts × VMap)
  | _, [] => []
  | m, .edit f :: r => histPoints (f m) r
  | m, .exp o :: r => (o, m) :: histPoints (afterExport o m) r

/-- The value at the end of a history. -/
def valueAfter : VMap → List HOp → VMap
  | m, [] => m
  | m, .edit f :: r => valueAfter (f m) r
  | m, .exp o :: r => valueAfter (afterExport o m) r

/-! ## the arguments of `VMF.parse` are values

`VMF.parse(tree, preserve_ids)` receives a `Keyvalues` OBJECT. In the model a call returns the map
and leaves the tree as it was; a caller may therefore parse one tree any number of times, with either
setting, in any order. (That the code neither consumes nor edits the tree is, again, the tie: the
harness snapshots the tree around every `VMF.parse`, parses one tree object several times with both
settings in both orders and compares with parses of fresh trees and with `parseTree`.) -/

/-- A call as the caller sees it: the result and the tree afterwards. -/
def parseCall (p : Bool) (t : List KV) : Except Err VMap × List KV := (parseTree p t, t)

/-- Successive parses of one tree object with the given `preserve_ids` settings. -/
def parseMany : List KV → List Bool → List (Except Err VMap) × List KV
  | t, [] => ([], t)
  | t, p :: ps => ((parseCall p t).1 :: (parseMany (parseCall p t).2 ps).1, (parseMany (parseCall p t).2 ps).2)

end C06
