import Srctools.Model.C16Bin

/-!
# C16 (ii) — round-trip theorems for the binary engine-database records

All statements hold for ALL inputs and an arbitrary trailing byte list `rest`.
-/
namespace C16.Bin

/-! ## generic lemmas: `idxOf?`, `pack8`, `pack16`, `catOpts`, `readN` -/

theorem idxOf?_some {l : List Str} {s : Str} {i : Nat} (h : idxOf? l s = some i) :
    i < l.length ∧ l[i]? = some s := by
  unfold idxOf? at h
  simp only at h
  split at h
  · rename_i hlt
    have hi : l.idxOf s = i := by simpa using h
    subst hi
    refine ⟨hlt, ?_⟩
    rw [List.getElem?_eq_getElem hlt]
    simp
  · simp at h

theorem idxOf?_of_mem {l : List Str} {s : Str} (h : s ∈ l) : ∃ i, idxOf? l s = some i := by
  refine ⟨l.idxOf s, ?_⟩
  unfold idxOf?
  simp [List.idxOf_lt_length_iff.mpr h]

theorem idxOf?_none {l : List Str} {s : Str} (h : idxOf? l s = none) : s ∉ l := by
  intro hm
  obtain ⟨i, hi⟩ := idxOf?_of_mem hm
  rw [h] at hi
  simp at hi

theorem idxOf?_mem {l : List Str} {s : Str} {i : Nat} (h : idxOf? l s = some i) : s ∈ l := by
  have := (idxOf?_some h).2
  exact List.mem_of_getElem? this

theorem pack8_some {n : Nat} {bs : Bytes} (h : pack8 n = some bs) : n < 256 ∧ bs = [n] := by
  unfold pack8 at h
  split at h
  · simp at h; exact ⟨‹_›, h.symm⟩
  · simp at h

theorem pack16_some {n : Nat} {bs : Bytes} (h : pack16 n = some bs) :
    n < 65536 ∧ bs = [n % 256, n / 256] := by
  unfold pack16 at h
  split at h
  · simp at h; exact ⟨‹_›, h.symm⟩
  · simp at h

@[simp] theorem catOpts_nil : catOpts [] = some [] := rfl

theorem catOpts_cons_some {o : Option Bytes} {os : List (Option Bytes)} {bs : Bytes} :
    catOpts (o :: os) = some bs ↔ ∃ a b, o = some a ∧ catOpts os = some b ∧ bs = a ++ b := by
  cases o with
  | none => simp [catOpts]
  | some a =>
    simp only [catOpts, Option.map_eq_some_iff]
    constructor
    · rintro ⟨b, hb, rfl⟩; exact ⟨a, b, rfl, hb, rfl⟩
    · rintro ⟨a', b, ha, hb, rfl⟩
      cases ha
      exact ⟨b, hb, rfl⟩

theorem catOpts_append_some {xs ys : List (Option Bytes)} {bs : Bytes} :
    catOpts (xs ++ ys) = some bs ↔
      ∃ a b, catOpts xs = some a ∧ catOpts ys = some b ∧ bs = a ++ b := by
  induction xs generalizing bs with
  | nil => simp
  | cons o os ih =>
    rw [List.cons_append, catOpts_cons_some]
    constructor
    · rintro ⟨a, b, rfl, hb, rfl⟩
      obtain ⟨a', b', ha', hb', rfl⟩ := ih.mp hb
      exact ⟨a ++ a', b', catOpts_cons_some.mpr ⟨a, a', rfl, ha', rfl⟩, hb', by simp⟩
    · rintro ⟨a, b, ha, hb, rfl⟩
      obtain ⟨a1, a2, rfl, ha2, rfl⟩ := catOpts_cons_some.mp ha
      exact ⟨a1, a2 ++ b, rfl, ih.mpr ⟨a2, b, ha2, hb, rfl⟩, by simp⟩

theorem catOpts_singleton_some {o : Option Bytes} {bs : Bytes} :
    catOpts [o] = some bs ↔ o = some bs := by
  rw [catOpts_cons_some]
  constructor
  · rintro ⟨a, b, rfl, hb, rfl⟩
    simp at hb
    subst hb
    simp
  · rintro rfl
    exact ⟨bs, [], rfl, rfl, by simp⟩

@[simp] theorem readN_zero {α : Type} (r : Rd α) (bs : Bytes) : readN r 0 bs = some ([], bs) := rfl

theorem readN_succ_of {α : Type} {r : Rd α} {n : Nat} {bs bs' bs'' : Bytes} {a : α} {as : List α}
    (h1 : r bs = some (a, bs')) (h2 : readN r n bs' = some (as, bs'')) :
    readN r (n + 1) bs = some (a :: as, bs'') := by
  rw [readN, h1]
  simp only
  rw [h2]

/-- (3) Reading back `l.length` records written one after the other. -/
theorem readN_map {α β : Type} (ser : α → Option Bytes) (rd : Rd β) (strip : α → β) (l : List α) :
    ∀ bs, catOpts (l.map ser) = some bs →
      (∀ a ∈ l, ∀ b, ser a = some b → ∀ rest, rd (b ++ rest) = some (strip a, rest)) →
      ∀ rest, readN rd l.length (bs ++ rest) = some (l.map strip, rest) := by
  induction l with
  | nil =>
    intro bs h _ rest
    simp at h
    subst h
    simp
  | cons x xs ih =>
    intro bs h hrd rest
    rw [List.map_cons, catOpts_cons_some] at h
    obtain ⟨a, b, ha, hb, rfl⟩ := h
    have h1 := hrd x (by simp) a ha (b ++ rest)
    have h2 := ih b hb (fun y hy => hrd y (by simp [hy])) rest
    rw [List.append_assoc, List.length_cons, List.map_cons]
    exact readN_succ_of h1 h2

/-- The bytes written for a list are the concatenation of the bytes of the elements. -/
theorem catOpts_map_some {α : Type} (ser : α → Option Bytes) (enc : α → Bytes) (l : List α)
    (h : ∀ a ∈ l, ser a = some (enc a)) : catOpts (l.map ser) = some (l.flatMap enc) := by
  induction l with
  | nil => rfl
  | cons x xs ih =>
    rw [List.map_cons, catOpts_cons_some]
    exact ⟨enc x, xs.flatMap enc, h x (by simp), ih (fun a ha => h a (by simp [ha])), by simp⟩

/-! ## (1) the string dictionary -/

/-- `assert len(base_strings) == SHARED_STRINGS`: the only fact the round trip needs. -/
def StrDict.Aligned (d : StrDict) : Prop := d.isBase = false → d.base.length = d.shared

def StrDict.WF (d : StrDict) : Prop :=
  d.own.Nodup ∧ d.base.Nodup ∧ (d.isBase = false → d.base.length = d.shared) ∧ d.table.length ≤ 65536

theorem StrDict.WF.aligned {d : StrDict} (h : d.WF) : d.Aligned := h.2.2.1

theorem StrDict.mem_table {d : StrDict} {s : Str} :
    s ∈ d.table ↔ (if d.isBase then s ∈ d.own else s ∈ d.base ∨ s ∈ d.own) := by
  unfold StrDict.table
  cases d.isBase <;> simp

theorem StrDict.index_some {d : StrDict} (hd : d.Aligned) {s : Str} {i : Nat}
    (h : d.index s = some i) : i < d.table.length ∧ d.table[i]? = some s := by
  unfold StrDict.index at h
  unfold StrDict.table
  cases hb : d.isBase with
  | true =>
    simp only [hb, if_true] at h ⊢
    exact idxOf?_some h
  | false =>
    have hlen := hd hb
    simp only [hb, Bool.false_eq_true, if_false] at h ⊢
    split at h
    · rename_i j hj
      cases h
      obtain ⟨h1, h2⟩ := idxOf?_some hj
      refine ⟨by simp; omega, ?_⟩
      rw [List.getElem?_append_left h1]
      exact h2
    · rename_i hj
      rw [Option.map_eq_some_iff] at h
      obtain ⟨j, hj', rfl⟩ := h
      obtain ⟨h1, h2⟩ := idxOf?_some hj'
      refine ⟨by simp; omega, ?_⟩
      rw [← hlen, List.getElem?_append_right (by omega)]
      simpa using h2

theorem StrDict.index_of_mem {d : StrDict} {s : Str} (h : s ∈ d.table) : ∃ i, d.index s = some i := by
  rw [StrDict.mem_table] at h
  unfold StrDict.index
  cases hb : d.isBase with
  | true =>
    simp only [hb, if_true] at h ⊢
    exact idxOf?_of_mem h
  | false =>
    simp only [hb, Bool.false_eq_true, if_false] at h ⊢
    cases hj : idxOf? d.base s with
    | some j => exact ⟨j, rfl⟩
    | none =>
      have hn := idxOf?_none hj
      have ho : s ∈ d.own := by
        cases h with
        | inl h => exact absurd h hn
        | inr h => exact h
      obtain ⟨k, hk⟩ := idxOf?_of_mem ho
      exact ⟨d.shared + k, by simp [hk]⟩

theorem readStr_pack16 (tbl : List Str) {i : Nat} (rest : Bytes) :
    readStr tbl ([i % 256, i / 256] ++ rest) = (tbl[i]?).map (·, rest) := by
  simp only [List.cons_append, List.nil_append, readStr]
  have : i % 256 + 256 * (i / 256) = i := by omega
  rw [this]

/-- Whatever `encode` writes is two bytes that `readStr` maps back to the string (needs only alignment). -/
theorem StrDict.encode_read {d : StrDict} (hd : d.Aligned) {s : Str} {bs : Bytes}
    (h : d.encode s = some bs) :
    bs.length = 2 ∧ (∀ b ∈ bs, b < 256) ∧ s ∈ d.table ∧
      ∀ rest, readStr d.table (bs ++ rest) = some (s, rest) := by
  unfold StrDict.encode at h
  rw [Option.bind_eq_some_iff] at h
  obtain ⟨i, hi, hp⟩ := h
  obtain ⟨hlt, rfl⟩ := pack16_some hp
  obtain ⟨_, hget⟩ := StrDict.index_some hd hi
  refine ⟨rfl, ?_, List.mem_of_getElem? hget, ?_⟩
  · intro b hb
    simp at hb
    omega
  · intro rest
    rw [readStr_pack16, hget]
    rfl

theorem StrDict.encode_mem {d : StrDict} (hd : d.WF) {s : Str} {bs : Bytes}
    (h : d.encode s = some bs) : s ∈ d.table :=
  (StrDict.encode_read hd.aligned h).2.2.1

/-- (1) Every string of the table is encodable, as two bytes, and is read back. -/
theorem strdict_roundtrip {d : StrDict} (hd : d.WF) {s : Str} (hs : s ∈ d.table) :
    ∃ bs, d.encode s = some bs ∧ bs.length = 2 ∧ (∀ b ∈ bs, b < 256) ∧
      ∀ rest, readStr d.table (bs ++ rest) = some (s, rest) := by
  obtain ⟨i, hi⟩ := StrDict.index_of_mem hs
  have hlt : i < 65536 := by
    have := (StrDict.index_some hd.aligned hi).1
    have := hd.2.2.2
    omega
  have henc : d.encode s = some [i % 256, i / 256] := by
    unfold StrDict.encode
    rw [hi]
    simp [pack16, hlt]
  obtain ⟨h1, h2, _, h4⟩ := StrDict.encode_read hd.aligned henc
  exact ⟨_, henc, h1, h2, h4⟩

/-! ## (2) spawnflag entries -/

theorem bits128' : ∀ x : Fin 128, (x.val ||| 128) &&& 127 = x.val ∧ (x.val ||| 128) &&& 128 = 128 ∧
    x.val &&& 127 = x.val ∧ x.val &&& 128 = 0 ∧ (x.val ||| 128) < 256 := by decide +kernel

theorem bits128 {x : Nat} (h : x < 128) : (x ||| 128) &&& 127 = x ∧ (x ||| 128) &&& 128 = 128 ∧
    x &&& 127 = x ∧ x &&& 128 = 0 ∧ (x ||| 128) < 256 := bits128' ⟨x, h⟩

theorem bits8' : ∀ x : Fin 8, (x.val ||| 8) &&& 7 = x.val ∧ (x.val ||| 8) &&& 8 = 8 ∧
    x.val &&& 7 = x.val ∧ x.val &&& 8 = 0 := by decide +kernel

theorem bits8 {x : Nat} (h : x < 8) : (x ||| 8) &&& 7 = x ∧ (x ||| 8) &&& 8 = 8 ∧
    x &&& 7 = x ∧ x &&& 8 = 0 := bits8' ⟨x, h⟩

/-- The byte `vt`/`fi` that carries a 7-bit index plus a flag in bit 7. -/
theorem flagByte {x : Nat} (h : x < 128) (b : Bool) :
    (if b then x ||| 128 else x) &&& 127 = x ∧ ((if b then x ||| 128 else x) &&& 128 != 0) = b := by
  obtain ⟨h1, h2, h3, h4, _⟩ := bits128 h
  cases b <;> simp [h1, h2, h3, h4]

theorem flagSer_some {d : StrDict} {f : Flag} {bs : Bytes} (h : flagSer d f = some bs) :
    f.tagged = false ∧ f.mask ≠ 0 ∧ Nat.log2 f.mask < 128 ∧
      ∃ enc, d.encode f.name = some enc ∧
        bs = (if f.dflt then Nat.log2 f.mask ||| 128 else Nat.log2 f.mask) :: enc := by
  unfold flagSer at h
  split at h
  · simp at h
  · rename_i h0
    simp only at h
    split at h
    · simp at h
    · rename_i h1
      obtain ⟨a, b, ha, hb, rfl⟩ := catOpts_cons_some.mp h
      rw [catOpts_singleton_some] at hb
      obtain ⟨_, rfl⟩ := pack8_some ha
      have h0' : f.tagged = false ∧ ¬f.mask = 0 := by simpa using h0
      refine ⟨h0'.1, h0'.2, by omega, b, hb, rfl⟩

theorem flagUnser_cons (tbl : List Str) (b : Nat) (bs : Bytes) :
    flagUnser tbl (b :: bs) = match readStr tbl bs with
      | none => none
      | some (nm, bs2) => some ({ mask := 1 <<< (b &&& 127), name := nm, dflt := b &&& 128 != 0 }, bs2) := rfl

/-- (2) A written spawnflag entry whose mask is a power of two is read back. -/
theorem flag_roundtrip {d : StrDict} (hd : d.WF) {f : Flag} {bs : Bytes} {p : Nat}
    (h : flagSer d f = some bs) (hp : f.mask = 2 ^ p) (rest : Bytes) :
    flagUnser d.table (bs ++ rest) = some (f, rest) := by
  obtain ⟨ht, _, hlog, enc, henc, rfl⟩ := flagSer_some h
  rw [hp, Nat.log2_two_pow] at hlog
  have hrd := (StrDict.encode_read hd.aligned henc).2.2.2 rest
  rw [List.cons_append, flagUnser_cons, hrd]
  simp only
  obtain ⟨h1, h2⟩ := flagByte hlog f.dflt
  rw [hp, Nat.log2_two_pow, h1, h2, Nat.one_shiftLeft]
  cases f
  simp_all

/-- `flagSer` succeeding forces `tagged = false`, so nothing is lost. -/
theorem flagSer_not_tagged {d : StrDict} {f : Flag} {bs : Bytes} (h : flagSer d f = some bs) :
    f.tagged = false := (flagSer_some h).1

/-! ## (4) keyvalues -/

theorem kv_roundtrip {c : TypeCfg} {d : StrDict} (hd : d.WF) (hc : c.nTypes ≤ 128) {kv : KV} {bs : Bytes}
    (ht : kv.typ < c.nTypes) (hf : ∀ f ∈ kv.flags, ∃ p, f.mask = 2 ^ p)
    (h : kvSer c d kv = some bs) (rest : Bytes) :
    kvUnser c d.table (bs ++ rest) = some (kvStrip c kv, rest) := by
  have h128 : kv.typ < 128 := by omega
  obtain ⟨hb1, hb2⟩ := flagByte h128 kv.readonly
  unfold kvSer at h
  simp only at h
  split at h
  · rename_i hsp
    obtain ⟨hdr, fbs, hhdr, hfbs, rfl⟩ := catOpts_append_some.mp h
    obtain ⟨n, r1, hn, hr1, rfl⟩ := catOpts_cons_some.mp hhdr
    obtain ⟨ds, r2, hds, hr2, rfl⟩ := catOpts_cons_some.mp hr1
    obtain ⟨v, r3, hv, hr3, rfl⟩ := catOpts_cons_some.mp hr2
    rw [catOpts_singleton_some] at hr3
    obtain ⟨_, rfl⟩ := pack8_some hv
    obtain ⟨_, rfl⟩ := pack8_some hr3
    have rn := (StrDict.encode_read hd.aligned hn).2.2.2
    have rds := (StrDict.encode_read hd.aligned hds).2.2.2
    have rfl' := readN_map (flagSer d) (flagUnser d.table) id kv.flags fbs hfbs
      (fun f hfm b hb rest => by
        obtain ⟨p, hp⟩ := hf f hfm
        exact flag_roundtrip hd hb hp rest) rest
    simp only [List.append_assoc, List.cons_append, List.nil_append]
    unfold kvUnser
    simp only [rn, rds, readByte, hb1, hb2, rfl']
    simp [kvStrip, hsp, Nat.not_le.mpr (hsp ▸ ht)]
  · rename_i hsp
    split at h
    · simp at h
    · obtain ⟨n, r1, hn, hr1, rfl⟩ := catOpts_cons_some.mp h
      obtain ⟨ds, r2, hds, hr2, rfl⟩ := catOpts_cons_some.mp hr1
      obtain ⟨v, r3, hv, hr3, rfl⟩ := catOpts_cons_some.mp hr2
      rw [catOpts_singleton_some] at hr3
      obtain ⟨_, rfl⟩ := pack8_some hv
      have rn := (StrDict.encode_read hd.aligned hn).2.2.2
      have rds := (StrDict.encode_read hd.aligned hds).2.2.2
      have rdf := (StrDict.encode_read hd.aligned hr3).2.2.2
      simp only [List.append_assoc, List.cons_append, List.nil_append]
      unfold kvUnser
      simp only [rn, rds, readByte, hb1, hb2, rdf]
      simp [kvStrip, hsp, Nat.not_le.mpr ht]

/-! ## (5) inputs/outputs, resources, entities -/

def ioStrip (io : IO) : IO := { io with desc := [] }

theorem io_roundtrip {c : TypeCfg} {d : StrDict} (hd : d.WF) {io : IO} {bs : Bytes}
    (ht : io.typ < c.nTypes) (h : ioSer d io = some bs) (rest : Bytes) :
    ioUnser c d.table (bs ++ rest) = some (ioStrip io, rest) := by
  unfold ioSer at h
  obtain ⟨n, r1, hn, hr1, rfl⟩ := catOpts_cons_some.mp h
  rw [catOpts_singleton_some] at hr1
  obtain ⟨_, rfl⟩ := pack8_some hr1
  have rn := (StrDict.encode_read hd.aligned hn).2.2.2
  simp only [List.append_assoc, List.cons_append, List.nil_append]
  unfold ioUnser
  simp only [rn, readByte]
  simp [ioStrip, Nat.not_le.mpr ht]

theorem res_roundtrip {c : TypeCfg} {d : StrDict} (hd : d.WF) (hc : c.nFileTypes ≤ 128) {r : Res}
    {bs : Bytes} (ht : r.typ < c.nFileTypes) (h : resSer d r = some bs) (rest : Bytes) :
    resUnser c d.table (bs ++ rest) = some (r, rest) := by
  have h128 : r.typ < 128 := by omega
  obtain ⟨h1, h2, h3, h4, _⟩ := bits128 h128
  unfold resSer at h
  split at h
  · rename_i hemp
    have hemp' : r.tags = [] := by simpa using hemp
    obtain ⟨v, r1, hv, hr1, rfl⟩ := catOpts_cons_some.mp h
    rw [catOpts_singleton_some] at hr1
    obtain ⟨_, rfl⟩ := pack8_some hv
    have rf := (StrDict.encode_read hd.aligned hr1).2.2.2
    simp only [List.cons_append, List.nil_append]
    unfold resUnser
    simp only [readByte, h3, h4, rf]
    cases r
    simp_all
  · obtain ⟨pre, fb, hpre, hfb, rfl⟩ := catOpts_append_some.mp h
    obtain ⟨hdr, tb, hhdr, htb, rfl⟩ := catOpts_append_some.mp hpre
    rw [catOpts_singleton_some] at hfb
    obtain ⟨v, r1, hv, hr1, rfl⟩ := catOpts_cons_some.mp hhdr
    rw [catOpts_singleton_some] at hr1
    obtain ⟨_, rfl⟩ := pack8_some hv
    obtain ⟨_, rfl⟩ := pack8_some hr1
    have rf := (StrDict.encode_read hd.aligned hfb).2.2.2
    have rt := readN_map d.encode (readStr d.table) id r.tags tb htb
      (fun s _ b hb rest => (StrDict.encode_read hd.aligned hb).2.2.2 rest) (fb ++ rest)
    simp only [List.append_assoc, List.cons_append, List.nil_append]
    unfold resUnser
    simp only [readByte, h1, h2, rt, rf]
    cases r
    simp_all

/-- The range/shape side conditions under which an entity is read back. -/
structure Ent.Ok (c : TypeCfg) (e : Ent) : Prop where
  kvTyp : ∀ kv ∈ e.kvs, kv.typ < c.nTypes
  kvMask : ∀ kv ∈ e.kvs, ∀ f ∈ kv.flags, ∃ p, f.mask = 2 ^ p
  inTyp : ∀ io ∈ e.inputs, io.typ < c.nTypes
  outTyp : ∀ io ∈ e.outputs, io.typ < c.nTypes
  resTyp : ∀ r ∈ e.res, r.typ < c.nFileTypes

theorem entStrip_eq (c : TypeCfg) (e : Ent) :
    entStrip c e = { e with kvs := e.kvs.map (kvStrip c), inputs := e.inputs.map ioStrip,
                            outputs := e.outputs.map ioStrip } := rfl

theorem ent_roundtrip {c : TypeCfg} {d : StrDict} (hd : d.WF) (hc : c.nTypes ≤ 128)
    (hcf : c.nFileTypes ≤ 128) {e : Ent} {bs : Bytes} (hok : e.Ok c)
    (h : entSer c d e = some bs) (rest : Bytes) :
    entUnser c d.table (bs ++ rest) = some (entStrip c e, rest) := by
  unfold entSer at h
  split at h
  · simp at h
  · rename_i hk
    have hk8 : e.kind < 8 := by omega
    obtain ⟨k1, k2, k3, k4⟩ := bits8 hk8
    obtain ⟨p4, rb, hp4, hrb, rfl⟩ := catOpts_append_some.mp h
    obtain ⟨p3, ob, hp3, hob, rfl⟩ := catOpts_append_some.mp hp4
    obtain ⟨p2, ib, hp2, hib, rfl⟩ := catOpts_append_some.mp hp3
    obtain ⟨p1, kb, hp1, hkb, rfl⟩ := catOpts_append_some.mp hp2
    obtain ⟨hdr, bb, hhdr, hbb, rfl⟩ := catOpts_append_some.mp hp1
    obtain ⟨b0, r0, hb0, hr0, rfl⟩ := catOpts_cons_some.mp hhdr
    obtain ⟨b1, r1, hb1, hr1, rfl⟩ := catOpts_cons_some.mp hr0
    obtain ⟨b2, r2, hb2, hr2, rfl⟩ := catOpts_cons_some.mp hr1
    obtain ⟨b3, r3, hb3, hr3, rfl⟩ := catOpts_cons_some.mp hr2
    obtain ⟨b4, r4, hb4, hr4, rfl⟩ := catOpts_cons_some.mp hr3
    rw [catOpts_singleton_some] at hr4
    obtain ⟨_, rfl⟩ := pack8_some hb0
    obtain ⟨_, rfl⟩ := pack8_some hb1
    obtain ⟨_, rfl⟩ := pack8_some hb2
    obtain ⟨_, rfl⟩ := pack8_some hb3
    obtain ⟨_, rfl⟩ := pack8_some hb4
    obtain ⟨_, rfl⟩ := pack8_some hr4
    have rdB := readN_map d.encode (readStr d.table) id e.bases bb hbb
      (fun s _ b hb rest => (StrDict.encode_read hd.aligned hb).2.2.2 rest)
      (kb ++ (ib ++ (ob ++ (rb ++ rest))))
    have rdK := readN_map (kvSer c d) (kvUnser c d.table) (kvStrip c) e.kvs kb hkb
      (fun kv hm b hb rest => kv_roundtrip hd hc (hok.kvTyp kv hm) (hok.kvMask kv hm) hb rest)
      (ib ++ (ob ++ (rb ++ rest)))
    have rdI := readN_map (ioSer d) (ioUnser c d.table) ioStrip e.inputs ib hib
      (fun io hm b hb rest => io_roundtrip hd (hok.inTyp io hm) hb rest) (ob ++ (rb ++ rest))
    have rdO := readN_map (ioSer d) (ioUnser c d.table) ioStrip e.outputs ob hob
      (fun io hm b hb rest => io_roundtrip hd (hok.outTyp io hm) hb rest) (rb ++ rest)
    have rdR := readN_map (resSer d) (resUnser c d.table) id e.res rb hrb
      (fun r hm b hb rest => res_roundtrip hd hcf (hok.resTyp r hm) hb rest) rest
    simp only [List.append_assoc, List.cons_append, List.nil_append]
    unfold entUnser
    simp only [rdB, rdK, rdI, rdO, rdR, List.map_id]
    rw [entStrip_eq]
    cases hal : e.alias <;> simp [k1, k2, k3, k4]

/-! ## the alignment hypothesis is essential -/

/-- Without `base.length = shared` (the `assert len(base_strings) == SHARED_STRINGS`) the law fails:
`'b'` is own string 0, written as index `shared + 0 = 5`, but the reader's table has length 2. -/
example :
    let d : StrDict := { shared := 5, base := [['a']], own := [['b']], isBase := false }
    d.own.Nodup ∧ d.base.Nodup ∧ d.table.length ≤ 65536 ∧ ['b'] ∈ d.table ∧
      d.encode ['b'] = some [5, 0] ∧ readStr d.table ([5, 0] ++ []) = none := by decide +kernel

/-- … and it can also read back a *different* string. -/
example :
    let d : StrDict := { shared := 0, base := [['a']], own := [['b']], isBase := false }
    d.own.Nodup ∧ d.base.Nodup ∧ d.table.length ≤ 65536 ∧ ['b'] ∈ d.table ∧
      d.encode ['b'] = some [0, 0] ∧ readStr d.table ([0, 0] ++ [7]) = some (['a'], [7]) := by
  decide +kernel

/-! ## non-vacuity -/

def exDict : StrDict :=
  { shared := 2, base := [['a'], ['b','c']], own := [['x'], ['s','f'], ['y']], isBase := false }
def exCfg : TypeCfg := { choices := 3, spawnflags := 4, nTypes := 10, nFileTypes := 5 }
def exKV : KV := { name := ['x'], disp := ['a'], typ := 1, readonly := true, default := ['b','c'],
                   flags := [], desc := ['d','o','c'], reportable := true }
def exSF : KV := { name := ['s','f'], disp := ['s','f'], typ := 4, readonly := false, default := ['y'],
                   flags := [{ mask := 1, name := ['a'], dflt := true },
                             { mask := 4096, name := ['y'], dflt := false }] }
def exEnt : Ent :=
  { kind := 3, alias := true, bases := [['b','c']], kvs := [exKV, exSF],
    inputs := [{ name := ['x'], typ := 2, desc := ['d'] }], outputs := [],
    res := [{ file := ['y'], typ := 4, tags := [['a'], ['x']] }, { file := ['a'], typ := 0, tags := [] }] }

theorem exDict_wf : exDict.WF := by
  refine ⟨by decide +kernel, by decide +kernel, fun _ => rfl, by decide +kernel⟩

example : exDict.encode ['y'] = some [4, 0] ∧ readStr exDict.table [4, 0, 9] = some (['y'], [9]) := by
  decide +kernel

example : kvSer exCfg exDict exKV = some [2, 0, 0, 0, 129, 1, 0] ∧
    kvUnser exCfg exDict.table [2, 0, 0, 0, 129, 1, 0, 77] = some (kvStrip exCfg exKV, [77]) := by
  decide +kernel

example : kvSer exCfg exDict exSF = some [3, 0, 3, 0, 4, 2, 128, 0, 0, 12, 4, 0] ∧
    kvUnser exCfg exDict.table [3, 0, 3, 0, 4, 2, 128, 0, 0, 12, 4, 0] = some (kvStrip exCfg exSF, []) := by
  decide +kernel

example : ∃ bs, entSer exCfg exDict exEnt = some bs ∧ bs.length = 41 ∧
    entUnser exCfg exDict.table (bs ++ [1, 2]) = some (entStrip exCfg exEnt, [1, 2]) ∧
    entStrip exCfg exEnt ≠ exEnt := by
  refine ⟨_, rfl, ?_⟩
  decide +kernel

/-- A tagged flag and a CHOICES keyvalue make the writer fail (the `ValueError`s). -/
example : flagSer exDict { mask := 1, name := ['a'], dflt := true, tagged := true } = none ∧
    kvSer exCfg exDict { exKV with typ := 3 } = none ∧
    exDict.encode ['n','o'] = none := by decide +kernel

end C16.Bin
