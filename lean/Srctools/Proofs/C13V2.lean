import Srctools.Proofs.C13Codec
/-! Helper lemmas for C13, part 7: reading a version-2 directory (28-byte header, same tree). -/
namespace C13

theorem decodeDir_v2 (tl : Nat) (htl : tl < 4294967296) (x body : Bytes) (hx : x.length = 16) :
    decodeDir (le32 VPK_SIG ++ (le32 2 ++ (le32 tl ++ (x ++ body)))) =
      match parseExts (28 + tl) (28 + body.length) (28 + body.length + 1) body with
      | .error e => .error e
      | .ok (raw, foot) => .ok ⟨buildTree raw [], foot, 2⟩ := by
  have hlen : (le32 VPK_SIG ++ (le32 2 ++ (le32 tl ++ (x ++ body)))).length = 28 + body.length := by
    simp [length_le32, hx]; omega
  have hd4 : List.drop 4 (le32 VPK_SIG ++ (le32 2 ++ (le32 tl ++ (x ++ body)))) = le32 2 ++ (le32 tl ++ (x ++ body)) :=
    drop4_le32 _ _
  have hd8 : List.drop 8 (le32 VPK_SIG ++ (le32 2 ++ (le32 tl ++ (x ++ body)))) = le32 tl ++ (x ++ body) := by
    have : (8 : Nat) = 4 + 4 := rfl
    rw [this, ← List.drop_drop, hd4, drop4_le32]
  have hd28 : List.drop 28 (le32 VPK_SIG ++ (le32 2 ++ (le32 tl ++ (x ++ body)))) = body := by
    have : (28 : Nat) = 8 + (4 + 16) := rfl
    rw [this, ← List.drop_drop, hd8, ← List.drop_drop, drop4_le32, ← hx, List.drop_left]
  unfold decodeDir
  simp only [hlen, hd4, hd8]
  rw [rd32_le32 VPK_SIG (by decide), rd32_le32 2 (by decide), rd32_le32 tl htl]
  have c1 : ¬ (28 + body.length < 12) := by omega
  have c2 : ¬ (28 + body.length < 28) := by omega
  simp only [c1, c2, if_false, if_true, ne_eq, not_true_eq_false, and_false, Nat.reduceEqDiff, hd28]
  rfl

/-- a version-2 directory with the same tree reads like the version-1 one -/
theorem decodeDir_encode_v2 (t : Tree) (f x : Bytes) (hx : x.length = 16) (hwf : TreeWF t) (hfit : t.fits = true) :
    decodeDir (le32 VPK_SIG ++ (le32 2 ++ (le32 (encTree t).length ++ (x ++ (encTree t ++ f)))))
      = .ok ⟨rawTree t, f, 2⟩ := by
  simp only [Tree.fits, Bool.and_eq_true, decide_eq_true_eq] at hfit
  have hE := rawTree_extOK t hwf hfit.1
  rw [decodeDir_v2 _ hfit.2 x _ hx]
  have hbody : encTree t ++ f = (rawTree t).flatMap encExtItem ++ 0 :: f := by
    rw [encTree_eq]; simp
  have hfuel : ((rawTree t).flatMap encExtItem ++ 0 :: f).length < 28 + (encTree t ++ f).length + 1 := by
    rw [← hbody]; omega
  rw [hbody] at hfuel ⊢
  rw [parseExts_enc _ _ (rawTree t) hE f ?_ _ hfuel]
  · have := buildTree_append (rawTree t) [] (by simpa using distinct_rawTree t hwf.1) (rawTree_inner_distinct t hwf)
    simp only [this, List.nil_append]
  · rw [encTree_eq]; simp; omega

end C13
