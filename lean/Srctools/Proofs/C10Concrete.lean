import Srctools.Proofs.C10
import Srctools.Props.C11
import Srctools.Gen.Bsp
/-!
# C10 with concrete lump codecs (from the C11 models)

`C10_content` is generic in an abstract codec per view.  Here the views whose lumps C11 modelled
*at byte level and without cross references* get their real reader / writer (`planesRead`, `recsRead`
/ `recsWrite` over the format strings of `Gen.Bspfmt`, `visRead` / `visWrite`), the remaining views
keep an abstract codec; the laws of the concrete views are discharged from C11's theorems.
-/
namespace C10
open StructCodec C11

/-- parsed values: what the concrete readers return, or an abstract value for the other views. -/
inductive CVal (A : Type) where
  /-- planes / vertexes / cubemaps: the records -/
  | recs (r : List (List Val))
  /-- textures: the names -/
  | names (n : List Bytes)
  /-- visibility: `None` (VVIS has not run) or the PVS / PAS rows -/
  | vis (v : Option (List Bytes × List Bytes))
  /-- the parser raised -/
  | bad
  | other (a : A)

/-- reader and writer of one view: `dec` sees the raw lumps, `enc` produces the new bytes of the view's lumps
(`none`: the writer raises). -/
structure Spec (A : Type) where
  dec : (Nat → Bytes) → CVal A
  enc : CVal A → Option (Nat → Bytes)

variable {A : Type}

/-- the codec that uses `spec v` where there is one and the abstract codec `Ca` elsewhere. -/
def concrete (T : Tables) (spec : Nat → Option (Spec A)) (Ca : Codec Bytes (CVal A)) : Codec Bytes (CVal A) where
  empty := []
  dflt := .bad
  rd := fun v raw env => match spec v with
    | some S => S.dec raw
    | none => Ca.rd v raw env
  wr := fun v x env raw => match spec v with
    | some S => (match S.enc x with
      | some nb => fun l => if l ∈ (T.view v).clears then nb l else raw l
      | none => raw)
    | none => Ca.wr v x env raw

/-- a concrete reader looks only at the lumps of its view. -/
def SpecFrame (T : Tables) (spec : Nat → Option (Spec A)) : Prop :=
  ∀ v S, spec v = some S → ∀ raw raw', (∀ l ∈ (T.view v).clears, raw l = raw' l) → S.dec raw = S.dec raw'

/-- the true value of a concrete view can be written, and whatever has those bytes in the view's lumps reads as it. -/
def SpecGood (T : Tables) (spec : Nat → Option (Spec A)) (E : Nat → CVal A) : Prop :=
  ∀ v S, spec v = some S → ∃ nb, S.enc (E v) = some nb ∧
    ∀ raw, (∀ l ∈ (T.view v).clears, raw l = nb l) → S.dec raw = E v

/-- what is still assumed about the abstract codec — only at the views WITHOUT a concrete codec. -/
structure AbstractOK (T : Tables) (spec : Nat → Option (Spec A)) (Ca : Codec Bytes (CVal A))
    (aux : Nat → Bytes) (E : Nat → CVal A) : Prop where
  rd_frame : ∀ v, v < T.n → spec v = none → ∀ raw raw' env env',
    (∀ l, l ∈ (T.view v).clears ++ (T.view v).rraw → raw l = raw' l) →
    (∀ w, w ∈ (T.view v).rdeps → env w = env' w) → Ca.rd v raw env = Ca.rd v raw' env'
  wr_frame : ∀ v, v < T.n → spec v = none → ∀ x env env' raw,
    (∀ w, w ∈ (T.view v).wdeps → env w = env' w) → Ca.wr v x env raw = Ca.wr v x env' raw
  roundtrip : ∀ v, v < T.n → spec v = none → ∀ raw₁,
    (∀ l, l ∈ (T.view v).rraw → l ∉ (T.view v).clears → raw₁ l = aux l) →
    Ca.rd v (applyWr T Ca v (E v) E raw₁) E = E v
  aux_stable : ∀ v, v < T.n → spec v = none → ∀ raw₁,
    (∀ l, l ∈ (T.view v).rraw → l ∉ (T.view v).clears → raw₁ l = aux l) →
    ∀ l, l ∈ (T.view v).wraw → l ∉ (T.view v).clears → Ca.wr v (E v) E raw₁ l = raw₁ l

theorem concrete_frame (T : Tables) (spec : Nat → Option (Spec A)) (Ca : Codec Bytes (CVal A))
    (aux : Nat → Bytes) (E : Nat → CVal A) (hs : SpecFrame T spec) (ha : AbstractOK T spec Ca aux E) :
    FrameLaws T (concrete T spec Ca) where
  rd_frame := fun v hv raw raw' env env' hr he => by
    cases hsp : spec v with
    | none => simp only [concrete, hsp]; exact ha.rd_frame v hv hsp raw raw' env env' hr he
    | some S =>
      simp only [concrete, hsp]
      exact hs v S hsp raw raw' (fun l hl => hr l (by simp [hl]))
  wr_frame := fun v hv x env env' raw he => by
    cases hsp : spec v with
    | none => simp only [concrete, hsp]; exact ha.wr_frame v hv hsp x env env' raw he
    | some S => simp only [concrete, hsp]

theorem applyWr_concrete_none (T : Tables) (spec : Nat → Option (Spec A)) (Ca : Codec Bytes (CVal A)) (v : Nat)
    (hsp : spec v = none) (x : CVal A) (env : Nat → CVal A) (raw : Nat → Bytes) :
    applyWr T (concrete T spec Ca) v x env raw = applyWr T Ca v x env raw := by
  funext l; simp [applyWr, concrete, hsp]

theorem concrete_roundtrip (T : Tables) (hw : WritesAll T = true) (spec : Nat → Option (Spec A))
    (Ca : Codec Bytes (CVal A)) (aux : Nat → Bytes) (E : Nat → CVal A)
    (hg : SpecGood T spec E) (ha : AbstractOK T spec Ca aux E) :
    RoundTripAt T (concrete T spec Ca) aux E where
  roundtrip := fun v hv raw₁ h => by
    cases hsp : spec v with
    | none =>
      rw [applyWr_concrete_none T spec Ca v hsp]
      simp only [concrete, hsp]
      exact ha.roundtrip v hv hsp raw₁ h
    | some S =>
      obtain ⟨nb, he, hd⟩ := hg v S hsp
      simp only [concrete, hsp]
      apply hd
      intro l hl
      have hws := writesAll_spec T hw v hv l hl
      simp [applyWr, hsp, he, hws, hl]
  aux_stable := fun v hv raw₁ h l hl hnc => by
    cases hsp : spec v with
    | none => simp only [concrete, hsp]; exact ha.aux_stable v hv hsp raw₁ h l hl hnc
    | some S =>
      simp only [concrete, hsp]
      cases S.enc (E v) with
      | none => rfl
      | some nb => simp [hnc]

/-! ## the concrete views of the current source -/

/-- wire layout of a format string of the source (`[]` if it does not parse — excluded by `formats_ok`). -/
def fmtOf (s : List Char) : Fmt := (wireOf s).getD []

def planesFmt : Fmt := fmtOf ['<', 'f', 'f', 'f', 'f', 'i']
def vertexFmt : Fmt := fmtOf ['<', 'f', 'f', 'f']
def cubemapFmt : Fmt := fmtOf ['<', 'i', 'i', 'i', 'i']

/-- the (record, layout) pair of `Gen.Bspfmt` for a flat lump, by name. -/
def pairOf (name : String) : Option Gen.Bspfmt.Pair := Gen.Bspfmt.pairs.find? (fun p => p.record == name)

/-- the source reads and writes the records of lump `name` with the format `fmt`. -/
def pairFmtOK (name : String) (fmt : Fmt) : Bool :=
  match pairOf name with
  | some p => wireCat p.reader == some fmt && wireCat p.writer == some fmt && !p.writer.isEmpty
  | none => false

theorem pair_of_ok (name : String) (fmt : Fmt) (h : pairFmtOK name fmt = true) :
    ∃ p, p ∈ Gen.Bspfmt.pairs ∧ wireCat p.reader = some fmt ∧ wireCat p.writer = some fmt ∧ p.writer.isEmpty = false := by
  unfold pairFmtOK at h
  cases hp : pairOf name with
  | none => rw [hp] at h; cases h
  | some p =>
    rw [hp] at h
    simp only [Bool.and_eq_true, beq_iff_eq, Bool.not_eq_true'] at h
    exact ⟨p, List.mem_of_find?_eq_some hp, h.1.1, h.1.2, h.2⟩

/-- reader / writer of a lump that is an array of one record (`struct.iter_unpack` / `b''.join(pack …)`). -/
def flatSpec (lump : Nat) (fmt : Fmt) : Spec A where
  dec := fun raw => match recsRead fmt (raw lump) with
    | .ok rs => .recs rs
    | .error _ => .bad
  enc := fun x => match x with
    | .recs rs => (match recsWrite fmt rs with
      | .ok b => some fun _ => b
      | .error _ => none)
    | _ => none

/-- `_lmp_read_planes` / `_lmp_write_planes`. -/
def planesSpec : Spec A where
  dec := fun raw => match planesRead planesFmt (raw 1) with
    | .ok rs => .recs rs
    | .error _ => .bad
  enc := fun x => match x with
    | .recs rs => (match recsWrite planesFmt rs with
      | .ok b => some fun _ => b
      | .error _ => none)
    | _ => none

/-- `_lmp_read_visibility` / `_lmp_write_visibility` (empty lump ⇔ `None`). -/
def visSpec : Spec A where
  dec := fun raw => if raw 4 = [] then .vis none else match visRead (raw 4) with
    | .ok r => .vis (some r)
    | .error _ => .bad
  enc := fun x => match x with
    | .vis none => some fun _ => []
    | .vis (some r) => (match visWrite r.1 r.2 with
      | .ok b => some fun _ => b
      | .error _ => none)
    | _ => none

/-- `struct.unpack('<Ni', table)`: the offsets of the texture-name table. -/
def offsRead : Nat → Bytes → List Nat
  | 0, _ => []
  | k + 1, bs => if bs.length < 4 then [] else (unpackInt 4 true (bs.take 4)).toNat :: offsRead k (bs.drop 4)

theorem offsRead_offsTable (offs : List Nat) (tbl : Bytes) (fuel : Nat) (h : offsTable offs = .ok tbl)
    (hf : offs.length ≤ fuel) : offsRead fuel tbl = offs := by
  induction offs generalizing tbl fuel with
  | nil =>
    simp [offsTable, catOk] at h; subst h
    cases fuel <;> simp [offsRead]
  | cons o os ih =>
    unfold offsTable at h
    simp only [List.map_cons] at h
    obtain ⟨b, r, hb, hr, ht⟩ := catOk_cons_ok h
    obtain ⟨hl, hu⟩ := pack32_spec hb
    subst ht
    cases fuel with
    | zero => simp at hf
    | succ k =>
      have h4 : ¬ (b ++ r).length < 4 := by simp [hl]
      have htake : (b ++ r).take 4 = b := by rw [← hl]; simp
      have hdrop : (b ++ r).drop 4 = r := by rw [← hl]; simp
      simp only [offsRead, h4, if_false, htake, hdrop, hu]
      rw [ih r k hr (by simpa using hf)]
      simp
/-- `_lmp_read_textures` / `_lmp_write_textures`: TEXDATA_STRING_DATA (43) + TEXDATA_STRING_TABLE (44). -/
def texSpec : Spec A where
  dec := fun raw => match texRead Gen.Bspfmt.textureReadLimit (raw 43) (offsRead (raw 44).length (raw 44)) with
    | .ok ns => .names ns
    | .error _ => .bad
  enc := fun x => match x with
    | .names ns => (match texWrite Gen.Bspfmt.textureWriteLimit ns with
      | .ok (data, offs) => (match offsTable offs with
        | .ok tbl => some fun l => if l = 43 then data else tbl
        | .error _ => none)
      | .error _ => none)
    | _ => none

/-- views of `Gen.Bsp.tables` with a concrete codec: textures (2), cubemaps (4), visibility (11), vertexes (12), planes (14). -/
def specOf : Nat → Option (Spec A)
  | 2 => some texSpec
  | 4 => some (flatSpec 42 cubemapFmt)
  | 11 => some visSpec
  | 12 => some (flatSpec 3 vertexFmt)
  | 14 => some planesSpec
  | _ => none

/-- the lumps of the four views are where the codecs look. -/
theorem spec_lumps :
    (Gen.Bsp.tables.view 4).clears = [42] ∧ (Gen.Bsp.tables.view 11).clears = [4] ∧
    (Gen.Bsp.tables.view 12).clears = [3] ∧ (Gen.Bsp.tables.view 14).clears = [1] ∧
    ((Gen.Bsp.tables.view 2).clears = [43, 44] ∧ (Gen.Bsp.tables.view 2).name = "textures") ∧
    (Gen.Bsp.tables.view 4).name = "cubemaps" ∧ (Gen.Bsp.tables.view 11).name = "visibility" ∧
    (Gen.Bsp.tables.view 12).name = "vertexes" ∧ (Gen.Bsp.tables.view 14).name = "planes" := by decide +kernel

theorem spec_frame : SpecFrame (A := A) Gen.Bsp.tables specOf := by
  obtain ⟨h4, h11, h12, h14, ⟨h2, _⟩, _⟩ := spec_lumps
  intro v S hsp raw raw' hr
  unfold specOf at hsp
  split at hsp
  · injection hsp with hsp; subst hsp
    have a := hr 43 (by rw [h2]; simp)
    have b := hr 44 (by rw [h2]; simp)
    simp [texSpec, a, b]
  · injection hsp with hsp; subst hsp
    have := hr 42 (by rw [h4]; simp)
    simp [flatSpec, this]
  · injection hsp with hsp; subst hsp
    have := hr 4 (by rw [h11]; simp)
    simp [visSpec, this]
  · injection hsp with hsp; subst hsp
    have := hr 3 (by rw [h12]; simp)
    simp [flatSpec, this]
  · injection hsp with hsp; subst hsp
    have := hr 1 (by rw [h14]; simp)
    simp [planesSpec, this]
  · cases hsp

/-- the format strings used above are the ones the source has for these lumps (reader = writer), and they parse. -/
theorem formats_ok :
    pairFmtOK "planes" planesFmt = true ∧ pairFmtOK "vertexes" vertexFmt = true ∧ pairFmtOK "cubemaps" cubemapFmt = true ∧
    0 < size planesFmt ∧ 0 < size vertexFmt ∧ 0 < size cubemapFmt := by decide +kernel

/-- **What is assumed about the file**, lump by lump (the hypotheses of C11's theorems): the lump is what the
writer produces for canonical records (floats as float32 bit patterns, integers in range); plane types
are `PlaneType` members; the visibility lump is empty or what the writer produces for rows of
`ceil(n/8)` bytes. -/
structure FileOK (raw₀ : Nat → Bytes) : Prop where
  planes : ∃ recs, recsWrite planesFmt recs = .ok (raw₀ 1) ∧ (∀ r ∈ recs, canonical planesFmt r = true) ∧
    recs.all planeTypeOk = true
  vertexes : ∃ recs, recsWrite vertexFmt recs = .ok (raw₀ 3) ∧ (∀ r ∈ recs, canonical vertexFmt r = true)
  cubemaps : ∃ recs, recsWrite cubemapFmt recs = .ok (raw₀ 42) ∧ (∀ r ∈ recs, canonical cubemapFmt r = true)
  textures : ∃ names offs, (∀ n ∈ names, n.length < Gen.Bspfmt.textureWriteLimit ∧ (0 : UInt8) ∉ n) ∧
    texWrite Gen.Bspfmt.textureWriteLimit names = .ok (raw₀ 43, offs) ∧ offsTable offs = .ok (raw₀ 44)
  visibility : raw₀ 4 = [] ∨ (raw₀ 4 ≠ [] ∧ ∃ pvs pas, visWrite pvs pas = .ok (raw₀ 4) ∧
    (∀ r ∈ pvs, r.length = (pvs.length + 7) / 8) ∧ (∀ r ∈ pas, r.length = (pvs.length + 7) / 8))

theorem flat_good (p : Gen.Bspfmt.Pair) (hp : p ∈ Gen.Bspfmt.pairs) (fmt : Fmt)
    (hr : wireCat p.reader = some fmt) (hw : wireCat p.writer = some fmt) (hne : p.writer.isEmpty = false)
    (hs : 0 < size fmt) (lump : Nat) (recs : List (List Val)) (b : Bytes)
    (h : recsWrite fmt recs = .ok b) (hc : ∀ r ∈ recs, canonical fmt r = true) :
    (flatSpec (A := A) lump fmt).enc (.recs recs) = some (fun _ => b) ∧
    ∀ raw : Nat → Bytes, raw lump = b → (flatSpec (A := A) lump fmt).dec raw = .recs recs := by
  refine ⟨by simp [flatSpec, h], fun raw hraw => ?_⟩
  have := C11_flat_lump p hp fmt fmt hr hw hne hs recs b h hc
  simp [flatSpec, hraw, this]

theorem offsTable_length (offs : List Nat) (tbl : Bytes) (h : offsTable offs = .ok tbl) : tbl.length = 4 * offs.length := by
  induction offs generalizing tbl with
  | nil => simp [offsTable, catOk] at h; subst h; rfl
  | cons o os ih =>
    unfold offsTable at h
    simp only [List.map_cons] at h
    obtain ⟨b, r, hb, hr, ht⟩ := catOk_cons_ok h
    have := ih r hr
    subst ht
    simp [(pack32_spec hb).1, this]; omega

theorem tex_read_of_file (raw₀ : Nat → Bytes) (names : List Bytes) (offs : List Nat)
    (hn : ∀ n ∈ names, n.length < Gen.Bspfmt.textureWriteLimit ∧ (0 : UInt8) ∉ n)
    (hwr : texWrite Gen.Bspfmt.textureWriteLimit names = .ok (raw₀ 43, offs)) (htb : offsTable offs = .ok (raw₀ 44)) :
    texRead Gen.Bspfmt.textureReadLimit (raw₀ 43) (offsRead (raw₀ 44).length (raw₀ 44)) = .ok names := by
  obtain ⟨data, offs', h1, h2⟩ := (C11_textures names).1 hn
  rw [hwr] at h1
  injection h1 with h1
  injection h1 with hd ho
  subst hd; subst ho
  have hlen : offs.length ≤ (raw₀ 44).length := by rw [offsTable_length offs _ htb]; omega
  rw [offsRead_offsTable offs (raw₀ 44) _ htb hlen]
  exact h2

/-- the parse of a file that is `FileOK` satisfies `SpecGood` — from `C11_planes`, `C11_flat_lump`, `C11_visibility`. -/
theorem spec_good (Ca : Codec Bytes (CVal A)) (raw₀ : Nat → Bytes) (E : Nat → CVal A) (hf : FileOK raw₀)
    (hE : IsEnv Gen.Bsp.tables (concrete Gen.Bsp.tables specOf Ca) raw₀ E) :
    SpecGood Gen.Bsp.tables specOf E := by
  obtain ⟨h4, h11, h12, h14, ⟨h2, _⟩, _⟩ := spec_lumps
  obtain ⟨okp, okv, okc, sp, sv, sc⟩ := formats_ok
  obtain ⟨pv, pvm, wv, wv', nv⟩ := pair_of_ok _ _ okv
  obtain ⟨pc, pcm, wc, wc', nc⟩ := pair_of_ok _ _ okc
  have hn : Gen.Bsp.tables.n = 21 := by decide +kernel
  intro v S hsp
  unfold specOf at hsp
  split at hsp
  · -- textures
    injection hsp with hsp; subst hsp
    obtain ⟨names, offs, hn', hwr, htb⟩ := hf.textures
    have hrd := tex_read_of_file raw₀ names offs hn' hwr htb
    have he : E 2 = .names names := by
      have := hE 2 (by rw [hn]; decide)
      simp only [concrete, specOf] at this
      rw [← this]; simp [texSpec, hrd]
    rw [he]
    refine ⟨fun l => if l = 43 then raw₀ 43 else raw₀ 44, by simp [texSpec, hwr, htb], fun raw hraw => ?_⟩
    have a := hraw 43 (by rw [h2]; simp)
    have b := hraw 44 (by rw [h2]; simp)
    simp only [if_true] at a
    simp only [show (44 : Nat) ≠ 43 by decide, if_false] at b
    simp [texSpec, a, b, hrd]
  · -- cubemaps
    injection hsp with hsp; subst hsp
    obtain ⟨recs, hwr, hc⟩ := hf.cubemaps
    obtain ⟨g1, g2⟩ := flat_good (A := A) pc pcm cubemapFmt wc wc' nc sc 42 recs _ hwr hc
    have he : E 4 = .recs recs := by
      have := hE 4 (by rw [hn]; decide)
      simp only [concrete, specOf] at this
      rw [← this]; exact g2 raw₀ rfl
    rw [he]
    exact ⟨_, g1, fun raw hraw => g2 raw (hraw 42 (by rw [h4]; simp))⟩
  · -- visibility
    injection hsp with hsp; subst hsp
    have hev := hE 11 (by rw [hn]; decide)
    simp only [concrete, specOf] at hev
    rcases hf.visibility with h0 | ⟨hne, pvs, pas, hwr, hp, ha⟩
    · have he : E 11 = .vis none := by rw [← hev]; simp [visSpec, h0]
      rw [he]
      refine ⟨fun _ => [], by simp [visSpec], fun raw hraw => ?_⟩
      have := hraw 4 (by rw [h11]; simp)
      simp [visSpec, this]
    · have hrd := C11_visibility pvs pas _ hp ha hwr
      have he : E 11 = .vis (some (pvs, pas)) := by rw [← hev]; simp [visSpec, hne, hrd]
      rw [he]
      refine ⟨fun _ => raw₀ 4, by simp [visSpec, hwr], fun raw hraw => ?_⟩
      have := hraw 4 (by rw [h11]; simp)
      simp [visSpec, this, hne, hrd]
  · -- vertexes
    injection hsp with hsp; subst hsp
    obtain ⟨recs, hwr, hc⟩ := hf.vertexes
    obtain ⟨g1, g2⟩ := flat_good (A := A) pv pvm vertexFmt wv wv' nv sv 3 recs _ hwr hc
    have he : E 12 = .recs recs := by
      have := hE 12 (by rw [hn]; decide)
      simp only [concrete, specOf] at this
      rw [← this]; exact g2 raw₀ rfl
    rw [he]
    exact ⟨_, g1, fun raw hraw => g2 raw (hraw 3 (by rw [h12]; simp))⟩
  · -- planes
    injection hsp with hsp; subst hsp
    obtain ⟨recs, hwr, hc, ht⟩ := hf.planes
    have hrd := C11_planes planesFmt sp recs _ hwr hc ht
    have he : E 14 = .recs recs := by
      have := hE 14 (by rw [hn]; decide)
      simp only [concrete, specOf] at this
      rw [← this]; simp [planesSpec, hrd]
    rw [he]
    refine ⟨fun _ => raw₀ 1, by simp [planesSpec, hwr], fun raw hraw => ?_⟩
    have := hraw 1 (by rw [h14]; simp)
    simp [planesSpec, this, hrd]
  · cases hsp

end C10
