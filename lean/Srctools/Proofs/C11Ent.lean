import Srctools.Model.C11Ent
import Srctools.Proofs.C01
/-! Proofs for the entity lump model: lexing of a written lump (`run_entWrite`), the reader's loop on
that token stream (`readLoop_written`), the round trip `entRead_entWrite`, and the `Output.parse` split. -/
namespace C11Ent
open Tok

/-! ## quoted strings made of escaped and raw pieces -/

/-- characters `_handle_string` copies verbatim -/
def rawOk (c : Char) : Bool := c != '"' && c != '\\' && c != '\r' && c != '\n'

inductive Piece where
  | esc (ml : Bool) (s : List Char)
  | raw (s : List Char)

def Piece.text (T : Tables) : Piece → List Char
  | .esc ml s => escapeText T ml s
  | .raw s => s

def Piece.val : Piece → List Char
  | .esc _ s => s
  | .raw s => s

def Piece.ok : Piece → Prop
  | .esc _ _ => True
  | .raw s => ∀ c ∈ s, rawOk c = true

def piecesText (T : Tables) : List Piece → List Char
  | [] => []
  | p :: ps => p.text T ++ piecesText T ps

def piecesVal : List Piece → List Char
  | [] => []
  | p :: ps => p.val ++ piecesVal ps

theorem hs_escapeText_open {T : Tables} (F : EscFacts T) (ml : Bool) (s t acc : List Char) (line : Nat) :
    handleString T true (escapeText T ml s ++ t) acc false line
      = handleString T true t (s.reverse ++ acc) false (line + (escapeText T ml s).count '\n') := by
  induction s generalizing acc line with
  | nil => simp [escapeText]
  | cons c cs ih =>
    simp only [escapeText, List.append_assoc]
    rw [handleString_escChar F, ih]
    simp [List.count_append, Nat.add_assoc]

theorem hs_raw_open (T : Tables) (s t acc : List Char) (line : Nat) (h : ∀ c ∈ s, rawOk c = true) :
    handleString T true (s ++ t) acc false line = handleString T true t (s.reverse ++ acc) false line := by
  induction s generalizing acc with
  | nil => simp
  | cons c cs ih =>
    have hc := h c (by simp)
    simp only [rawOk, Bool.and_eq_true, bne_iff_ne, ne_eq] at hc
    obtain ⟨⟨⟨h1, h2⟩, h3⟩, h4⟩ := hc
    rw [List.cons_append, handleString_cons]
    simp only [h1, h2, h3, h4, if_false, false_and]
    rw [ih _ (fun d hd => h d (by simp [hd]))]
    simp

theorem count_nl_raw (s : List Char) (h : ∀ c ∈ s, rawOk c = true) : s.count '\n' = 0 := by
  apply List.count_eq_zero.mpr
  intro hm
  have := h _ hm
  simp [rawOk] at this

theorem hs_pieces {T : Tables} (F : EscFacts T) (ps : List Piece) (hp : ∀ p ∈ ps, p.ok)
    (rest acc : List Char) (line : Nat) :
    handleString T true (piecesText T ps ++ '"' :: rest) acc false line
      = .ok (acc.reverse ++ piecesVal ps) (line + (piecesText T ps).count '\n') rest := by
  induction ps generalizing acc line with
  | nil => simp [piecesText, piecesVal, handleString_cons]
  | cons p ps ih =>
    have hps : ∀ q ∈ ps, q.ok := fun q hq => hp q (by simp [hq])
    cases p with
    | esc ml s =>
      simp only [piecesText, piecesVal, Piece.text, Piece.val, List.append_assoc]
      rw [hs_escapeText_open F, ih hps]
      simp [List.count_append, Nat.add_assoc]
    | raw s =>
      have hs : ∀ c ∈ s, rawOk c = true := hp (.raw s) (by simp)
      simp only [piecesText, piecesVal, Piece.text, Piece.val, List.append_assoc]
      rw [hs_raw_open T s _ acc line hs, ih hps]
      simp [List.count_append, count_nl_raw s hs]

/-- a quoted string of pieces is one STRING token -/
theorem next_quoted (T : Tables) (h : escOK T = true) (o : Opts) (ho : o.allowEscapes = true)
    (fold : Char → List Char) (ps : List Piece) (hp : ∀ p ∈ ps, p.ok) (rest : List Char) (st : St) (fuel : Nat) :
    nextToken T o fold (fuel + 1) st ('"' :: (piecesText T ps ++ '"' :: rest))
      = .tok .string (piecesVal ps)
          { line := st.line + (piecesText T ps).count '\n', lastCr := false } rest := by
  have F := escFacts h
  rw [nextToken]
  simp only [F.quoteNoOp]
  have e1 : ('"' : Char) ≠ '\r' := by decide
  have e2 : ('"' : Char) ≠ '\n' := by decide
  have e3 : ¬ (('"' : Char) = ' ' ∨ ('"' : Char) = '\t') := by decide
  have e4 : ('"' : Char) ≠ '/' := by decide
  simp only [e1, e2, e3, e4, if_false, ho, if_true]
  rw [hs_pieces F ps hp]
  simp

/-! ## token streams, line numbers hidden -/

/-- `text` is lexed (from a state with `lastCr = false`, whatever follows) into exactly the tokens
`tks`, one unit of fuel each, ending in such a state again. -/
def Lexes (T : Tables) (fold : Char → List Char) (text : List Char) (tks : List TK) : Prop :=
  ∀ (n l : Nat) (acc : List Obs) (rest : List Char), ∃ (l' : Nat) (obs : List Obs),
    obs.map tkOf = tks ∧
    runAux T {} fold (n + tks.length) ⟨l, false⟩ (text ++ rest) acc
      = runAux T {} fold n ⟨l', false⟩ rest (obs.reverse ++ acc)

theorem Lexes.nil {T : Tables} {fold : Char → List Char} : Lexes T fold [] [] := fun n l acc rest => ⟨l, [], rfl, by simp⟩

theorem Lexes.append {T : Tables} {fold : Char → List Char} {a b : List Char} {ta tb : List TK} (ha : Lexes T fold a ta) (hb : Lexes T fold b tb) :
    Lexes T fold (a ++ b) (ta ++ tb) := by
  intro n l acc rest
  obtain ⟨l1, o1, h1, e1⟩ := ha (n + tb.length) l acc (b ++ rest)
  obtain ⟨l2, o2, h2, e2⟩ := hb n l1 (o1.reverse ++ acc) rest
  refine ⟨l2, o1 ++ o2, by simp [h1, h2], ?_⟩
  have : n + (ta ++ tb).length = n + tb.length + ta.length := by simp; omega
  rw [this, List.append_assoc, e1, e2]
  simp

section lex
variable {T : Tables} (hE : escOK T = true) (F : C01.KvFacts T) (fold : Char → List Char)

include hE F in
theorem lexes_quoted (ps : List Piece) (hp : ∀ p ∈ ps, p.ok) (ws : List Char) (hws : C01.isWs ws) :
    Lexes T fold (ws ++ '"' :: (piecesText T ps ++ ['"'])) [(1, piecesVal ps)] := by
  intro n l acc rest
  refine ⟨l + (piecesText T ps).count '\n', [⟨1, piecesVal ps, l + (piecesText T ps).count '\n'⟩], rfl, ?_⟩
  simp only [List.length_singleton, List.append_assoc, List.cons_append, List.nil_append]
  rw [runAux, List.length_append, Nat.add_assoc, C01.next_skipWs F {} fold ws hws]
  rw [List.length_cons, next_quoted T hE {} rfl fold ps hp rest ⟨l, false⟩]
  simp [Kind.code]

include F in
theorem lexes_newline : Lexes T fold ['\n'] [(2, ['\n'])] := by
  intro n l acc rest
  refine ⟨l + 1, [⟨2, ['\n'], l + 1⟩], rfl, ?_⟩
  simpa using C01.run_newline F {} fold rest n l acc

include F in
theorem lexes_braceOpen : Lexes T fold ['{'] [(6, ['{'])] := by
  intro n l acc rest
  refine ⟨l, [⟨6, ['{'], l⟩], rfl, ?_⟩
  simpa using C01.run_braceOpen F {} fold [] [] C01.isWs_nil C01.isWs_nil rest n l acc

include F in
theorem lexes_braceClose : Lexes T fold ['}'] [(7, ['}'])] := by
  intro n l acc rest
  refine ⟨l, [⟨7, ['}'], l⟩], rfl, ?_⟩
  simpa using C01.run_braceClose F {} fold [] [] C01.isWs_nil C01.isWs_nil rest n l acc


/-! ## the tokens of lines and entities -/

def keyPieces : Line → List Piece
  | .kv k _ => [.esc true k]
  | .out o => [.esc false o.name]

def valPieces : Line → List Piece
  | .kv _ v => [.esc true v]
  | .out o => [.esc false o.target, .raw [o.sep], .esc false o.input, .raw [o.sep], .esc true o.params,
               .raw [o.sep], .raw o.delay, .raw [o.sep], .raw o.times]

/-- what the reader stores for a line -/
def rlineOf : Line → RLine
  | .kv k v => { key := k, value := v, kind := classify v }
  | .out o => { key := o.name, value := o.value, kind := classify o.value }

/-- the number texts of an output contain no quote, backslash, CR or LF (`%g`, `str(int)`) -/
def Line.ok : Line → Prop
  | .kv _ _ => True
  | .out o => (∀ c ∈ o.delay, rawOk c = true) ∧ (∀ c ∈ o.times, rawOk c = true)

def nl : TK := (2, ['\n'])

def toksLine (l : Line) : List TK := [(1, (rlineOf l).key), (1, (rlineOf l).value), nl]

def toksLines : List Line → List TK
  | [] => []
  | l :: ls => toksLine l ++ toksLines ls

def toksEnt (e : List Line) : List TK := (6, ['{']) :: nl :: (toksLines e ++ [(7, ['}']), nl])

def toksEnts : List (List Line) → List TK
  | [] => []
  | e :: es => toksEnt e ++ toksEnts es

theorem sep_rawOk (o : OutFields) : rawOk o.sep = true := by
  unfold OutFields.sep; split <;> decide

theorem writeLine_eq (T : Tables) (l : Line) :
    writeLine T l = ([] ++ '"' :: (piecesText T (keyPieces l) ++ ['"']))
      ++ (([' '] ++ '"' :: (piecesText T (valPieces l) ++ ['"'])) ++ ['\n']) := by
  cases l <;> simp [writeLine, keyPieces, valPieces, piecesText, Piece.text, OutFields.valueText]

theorem keyPieces_val (l : Line) : piecesVal (keyPieces l) = (rlineOf l).key := by
  cases l <;> simp [keyPieces, piecesVal, Piece.val, rlineOf]

theorem valPieces_val (l : Line) : piecesVal (valPieces l) = (rlineOf l).value := by
  cases l <;> simp [valPieces, piecesVal, Piece.val, rlineOf, OutFields.value]

theorem keyPieces_ok (l : Line) : ∀ p ∈ keyPieces l, p.ok := by
  cases l <;> simp [keyPieces, Piece.ok]

theorem valPieces_ok (l : Line) (h : l.ok) : ∀ p ∈ valPieces l, p.ok := by
  cases l with
  | kv k v => simp [valPieces, Piece.ok]
  | out o =>
    obtain ⟨hd, ht⟩ := h
    intro p hp
    simp only [valPieces, List.mem_cons, List.mem_nil_iff, or_false] at hp
    rcases hp with rfl | rfl | rfl | rfl | rfl | rfl | rfl | rfl | rfl <;>
      first
        | exact trivial
        | exact hd
        | exact ht
        | (intro c hc; simp only [List.mem_singleton] at hc; subst hc; exact sep_rawOk o)

include hE F in
theorem lexes_line (l : Line) (h : l.ok) : Lexes T fold (writeLine T l) (toksLine l) := by
  rw [writeLine_eq]
  have h1 := lexes_quoted hE F fold (keyPieces l) (keyPieces_ok l) [] C01.isWs_nil
  have h2 := lexes_quoted hE F fold (valPieces l) (valPieces_ok l h) [' ']
    (by intro c hc; simp at hc; exact Or.inl hc)
  rw [keyPieces_val] at h1
  rw [valPieces_val] at h2
  exact (h1.append (h2.append (lexes_newline F fold)))

include hE F in
theorem lexes_lines (ls : List Line) (h : ∀ l ∈ ls, l.ok) : Lexes T fold (writeLines T ls) (toksLines ls) := by
  induction ls with
  | nil => exact Lexes.nil
  | cons l ls ih =>
    exact (lexes_line hE F fold l (h l (by simp))).append (ih (fun x hx => h x (by simp [hx])))

include hE F in
theorem lexes_ent (e : List Line) (h : ∀ l ∈ e, l.ok) : Lexes T fold (writeEnt T e) (toksEnt e) := by
  have := (lexes_braceOpen F fold).append ((lexes_newline F fold).append
    ((lexes_lines hE F fold e h).append ((lexes_braceClose F fold).append (lexes_newline F fold))))
  simpa [writeEnt, toksEnt, nl] using this

include hE F in
theorem lexes_ents (es : List (List Line)) (h : ∀ e ∈ es, ∀ l ∈ e, l.ok) :
    Lexes T fold (writeEnts T es) (toksEnts es) := by
  induction es with
  | nil => exact Lexes.nil
  | cons e es ih =>
    exact (lexes_ent hE F fold e (h e (by simp))).append (ih (fun x hx => h x (by simp [hx])))

/-! each token takes at least one character -/

theorem toksLines_len (T : Tables) (ls : List Line) : (toksLines ls).length ≤ (writeLines T ls).length := by
  induction ls with
  | nil => simp [toksLines, writeLines]
  | cons l ls ih =>
    have : 3 ≤ (writeLine T l).length := by rw [writeLine_eq]; simp; omega
    simp [toksLines, writeLines, toksLine] at *; omega

theorem toksEnts_len (T : Tables) (es : List (List Line)) : (toksEnts es).length ≤ (writeEnts T es).length := by
  induction es with
  | nil => simp [toksEnts, writeEnts]
  | cons e es ih =>
    have := toksLines_len T e
    simp [toksEnts, writeEnts, toksEnt, writeEnt] at *; omega

/-- what the tables must say about the NUL character: not an operator, allowed in bare strings -/
def nulOK (T : Tables) : Bool := (T.operator nul).isNone && !T.bareDisallowed.contains nul

include hE F in
/-- **The token stream of a written entity lump.** -/
theorem run_entWrite (hN : nulOK T = true) (es : List (List Line)) (h : ∀ e ∈ es, ∀ l ∈ e, l.ok) :
    ∃ obs : List Obs, obs.map tkOf = toksEnts es ++ [(1, [nul]), (0, [])] ∧
      run T {} fold (entWrite T es) = { toks := obs, err := none } := by
  have hlen := toksEnts_len T es
  obtain ⟨l', obs, hobs, hrun⟩ := lexes_ents hE F fold es h
    ((writeEnts T es).length + 3 - (toksEnts es).length) 1 [] [nul]
  unfold run entWrite
  have hf : (writeEnts T es ++ [nul]).length + 2
      = (writeEnts T es).length + 3 - (toksEnts es).length + (toksEnts es).length := by simp; omega
  have hst : ({} : St) = ⟨1, false⟩ := rfl
  rw [hf, hst, hrun]
  -- the NUL token, then EOF
  have hm : (writeEnts T es).length + 3 - (toksEnts es).length = ((writeEnts T es).length + 1 - (toksEnts es).length) + 1 + 1 := by omega
  rw [hm, runAux]
  simp only [nulOK, Bool.and_eq_true, Option.isNone_iff_eq_none, Bool.not_eq_true'] at hN
  have hnext : nextToken T {} fold ([nul].length + 1) ⟨l', false⟩ [nul] = .tok .string [nul] ⟨l', false⟩ [] := by
    rw [nextToken]
    simp only [hN.1]
    have d1 : nul ≠ '\r' := by decide
    have d2 : nul ≠ '\n' := by decide
    have d3 : ¬ (nul = ' ' ∨ nul = '\t') := by decide
    have d4 : nul ≠ '/' := by decide
    have d5 : nul ≠ '"' := by decide
    have d6 : nul ≠ '[' := by decide
    have d7 : nul ≠ '(' := by decide
    have d8 : nul ≠ Char.ofNat 0xFEFF := by decide
    have d9 : nul ≠ ':' := by decide
    have d10 : nul ≠ '+' := by decide
    have d11 : nul ≠ ']' := by decide
    have d12 : nul ≠ ')' := by decide
    have d13 : nul ≠ '#' := by decide
    have hmem : ¬ nul ∈ T.bareDisallowed := by simpa using hN.2
    simp [d1, d2, d3, d4, d5, d6, d7, d8, d9, d10, d11, d12, d13, hmem, scanBare]
  rw [hnext]
  simp only [reduceCtorEq, if_false]
  rw [C01.run_eof]
  refine ⟨obs ++ [⟨1, [nul], l'⟩, ⟨0, [], l'⟩], by simp [hobs, tkOf, Kind.code], ?_⟩
  simp [Kind.code]

end lex

/-! ## the reader's loop on that token stream -/

/-- hypotheses on one line: the key is not the NUL end marker; in the worldspawn entity a
`classname` key carries exactly `worldspawn` (`Entity.__setitem__` raises otherwise) -/
def lineOk (spawn : Bool) (l : Line) : Prop :=
  (rlineOf l).key ≠ [nul] ∧
  (spawn = true → (rlineOf l).key.map asciiLower = classnameKey → (rlineOf l).value = worldspawn)

theorem worldspawn_lower : worldspawn.map asciiLower = worldspawn := by decide

theorem step_newline (f : Nat) (v : List Char) (ts : List TK) (cur : Option (List RLine)) (ents : List (List RLine)) :
    readLoop (f + 1) ((2, v) :: ts) cur ents = readLoop f ts cur ents := by
  rw [readLoop.eq_def]; simp [Kind.code]

theorem step_open (f : Nat) (v : List Char) (ts : List TK) (ents : List (List RLine)) :
    readLoop (f + 1) ((6, v) :: ts) none ents
      = readLoop f ts (some (if ents.isEmpty then defaultSpawn else [])) ents := by
  rw [readLoop.eq_def]; simp [Kind.code]

theorem step_close (f : Nat) (v : List Char) (ts : List TK) (e : List RLine) (ents : List (List RLine)) :
    readLoop (f + 1) ((7, v) :: ts) (some e) ents
      = if ents.isEmpty && classnameOf e.reverse != worldspawn then .error .notWorldspawn
        else readLoop f ts none (e.reverse :: ents) := by
  rw [readLoop.eq_def]; simp [Kind.code]

theorem step_kv (f : Nat) (k v : List Char) (ts : List TK) (e : List RLine) (ents : List (List RLine))
    (hk : k ≠ [nul]) :
    readLoop (f + 1) ((1, k) :: (1, v) :: ts) (some e) ents
      = if ents.isEmpty && classify v = 0 && k.map asciiLower == classnameKey && v.map asciiLower != worldspawn
        then .error .notWorldspawn
        else readLoop f ts (some ({ key := k, value := v, kind := classify v } :: e)) ents := by
  rw [readLoop.eq_def]; simp [Kind.code, hk, expectTok]

theorem step_nul (f : Nat) (ts : List TK) (ents : List (List RLine)) :
    readLoop (f + 1) ((1, [nul]) :: (0, []) :: ts) none ents = .ok (finish none ents) := by
  rw [readLoop.eq_def]; simp [Kind.code, expectTok]

theorem loop_lines (spawn : Bool) : ∀ (ls : List Line) (cur : List RLine) (ents : List (List RLine))
    (fuel : Nat) (rest : List TK), ents.isEmpty = spawn → (∀ l ∈ ls, lineOk spawn l) →
    readLoop (fuel + 2 * ls.length) (toksLines ls ++ rest) (some cur) ents
      = readLoop fuel rest (some ((ls.map rlineOf).reverse ++ cur)) ents := by
  intro ls
  induction ls with
  | nil => intro cur ents fuel rest _ _; simp [toksLines]
  | cons l ls ih =>
    intro cur ents fuel rest hs hok
    obtain ⟨hk, hc⟩ := hok l (by simp)
    have hf : fuel + 2 * (l :: ls).length = (fuel + 2 * ls.length) + 1 + 1 := by simp; omega
    rw [hf]
    simp only [toksLines, toksLine, List.cons_append, List.nil_append, nl]
    have hguard : (ents.isEmpty && classify (rlineOf l).value = 0 && (rlineOf l).key.map asciiLower == classnameKey
        && (rlineOf l).value.map asciiLower != worldspawn) = false := by
      cases hsp : spawn with
      | false => simp [hs, hsp]
      | true =>
        by_cases hkey : (rlineOf l).key.map asciiLower = classnameKey
        · have := hc hsp hkey
          simp [this, worldspawn_lower]
        · simp [hkey]
    rw [step_kv _ _ _ _ _ _ hk, hguard]
    simp only [Bool.false_eq_true, if_false]
    rw [step_newline, ih _ ents _ rest hs (fun x hx => hok x (by simp [hx]))]
    have heta : ({ key := (rlineOf l).key, value := (rlineOf l).value, kind := classify (rlineOf l).value } : RLine) = rlineOf l := by
      cases l <;> rfl
    simp [heta]

/-- `cur_ent['classname']` of the closed worldspawn entity -/
theorem classnameOf_spawn (rl : List RLine)
    (h : ∀ r ∈ rl, r.key.map asciiLower = classnameKey → r.value = worldspawn) :
    classnameOf (defaultSpawn ++ rl) = worldspawn := by
  unfold classnameOf
  have hall : ∀ r ∈ defaultSpawn ++ rl, r.key.map asciiLower = classnameKey → r.value = worldspawn := by
    intro r hr
    rcases List.mem_append.mp hr with h1 | h2
    · simp [defaultSpawn] at h1; subst h1; intro _; rfl
    · exact h r h2
  cases hf : ((defaultSpawn ++ rl).reverse.filter (fun l => l.kind = 0 ∨ l.kind = 2)).find?
      (fun l => l.key.map asciiLower == classnameKey) with
  | some r =>
    have hm := List.mem_of_find?_eq_some hf
    have hp := List.find?_some hf
    simp only [List.mem_filter, List.mem_reverse] at hm
    exact hall r hm.1 (by simpa using hp)
  | none =>
    exfalso
    rw [List.find?_eq_none] at hf
    have := hf ⟨classnameKey, worldspawn, 0⟩ (by simp [defaultSpawn])
    exact this (by decide)

def startLines (first : Bool) : List RLine := if first then defaultSpawn else []

theorem loop_ent (e : List Line) (ents : List (List RLine)) (fuel : Nat) (rest : List TK)
    (hok : ∀ l ∈ e, lineOk ents.isEmpty l) :
    readLoop (fuel + (2 * e.length + 4)) (toksEnt e ++ rest) none ents
      = readLoop fuel rest none ((startLines ents.isEmpty ++ e.map rlineOf) :: ents) := by
  have hf : fuel + (2 * e.length + 4) = (fuel + 1 + 1 + 2 * e.length) + 1 + 1 := by omega
  rw [hf]
  simp only [toksEnt, List.cons_append, nl]
  rw [step_open, step_newline, List.append_assoc, loop_lines ents.isEmpty e _ ents _ _ rfl hok]
  simp only [List.cons_append, List.nil_append]
  rw [step_close]
  have hrev : ((e.map rlineOf).reverse ++ (if ents.isEmpty = true then defaultSpawn else [])).reverse
      = startLines ents.isEmpty ++ e.map rlineOf := by
    unfold startLines; split <;> simp [defaultSpawn]
  rw [hrev]
  have hcls : (ents.isEmpty && classnameOf (startLines ents.isEmpty ++ e.map rlineOf) != worldspawn) = false := by
    cases hsp : ents.isEmpty with
    | false => simp
    | true =>
      have : classnameOf (defaultSpawn ++ e.map rlineOf) = worldspawn := by
        apply classnameOf_spawn
        intro r hr hkey
        obtain ⟨l, hl, rfl⟩ := List.mem_map.mp hr
        exact (hok l hl).2 hsp hkey
      simp [startLines, this]
  rw [hcls]
  simp only [Bool.false_eq_true, if_false]
  rw [step_newline]

def costEnts : List (List Line) → Nat
  | [] => 0
  | e :: es => (2 * e.length + 4) + costEnts es

/-- entities after the first one -/
theorem loop_ents : ∀ (es : List (List Line)) (ents : List (List RLine)) (fuel : Nat) (rest : List TK),
    ents.isEmpty = false → (∀ e ∈ es, ∀ l ∈ e, lineOk false l) →
    readLoop (fuel + costEnts es) (toksEnts es ++ rest) none ents
      = readLoop fuel rest none ((es.map (·.map rlineOf)).reverse ++ ents) := by
  intro es
  induction es with
  | nil => intro ents fuel rest _ _; simp [toksEnts, costEnts]
  | cons e es ih =>
    intro ents fuel rest hne hok
    have hf : fuel + costEnts (e :: es) = (fuel + costEnts es) + (2 * e.length + 4) := by simp [costEnts]; omega
    rw [hf]
    simp only [toksEnts, List.append_assoc]
    rw [loop_ent e ents _ _ (by rw [hne]; exact hok e (by simp))]
    rw [ih _ fuel rest rfl (fun x hx => hok x (by simp [hx]))]
    simp [startLines, hne]

theorem toksLines_length (ls : List Line) : (toksLines ls).length = 3 * ls.length := by
  induction ls with
  | nil => rfl
  | cons l ls ih => simp [toksLines, toksLine, ih]; omega

theorem costEnts_le (es : List (List Line)) : costEnts es ≤ (toksEnts es).length := by
  induction es with
  | nil => simp [costEnts, toksEnts]
  | cons e es ih => simp [costEnts, toksEnts, toksEnt, toksLines_length]; omega

/-- hypotheses of the round trip on a whole lump: worldspawn first -/
def entsOk (spawn : List Line) (others : List (List Line)) : Prop :=
  (∀ l ∈ spawn, l.ok ∧ lineOk true l) ∧ (∀ e ∈ others, ∀ l ∈ e, l.ok ∧ lineOk false l)

/-- what `_lmp_read_ents` returns for a written lump -/
def readBack (spawn : List Line) (others : List (List Line)) : List (List RLine) :=
  (defaultSpawn ++ spawn.map rlineOf) :: others.map (·.map rlineOf)

theorem readLoop_written (spawn : List Line) (others : List (List Line)) (h : entsOk spawn others) (extra : Nat) :
    readLoop ((toksEnts (spawn :: others) ++ [(1, [nul]), (0, [])]).length + 1 + extra)
      (toksEnts (spawn :: others) ++ [(1, [nul]), (0, [])]) none []
      = .ok (readBack spawn others) := by
  have hc := costEnts_le (spawn :: others)
  have hf : (toksEnts (spawn :: others) ++ [(1, [nul]), (0, [])]).length + 1 + extra
      = ((toksEnts (spawn :: others)).length + 3 + extra - costEnts (spawn :: others) + costEnts others)
        + (2 * spawn.length + 4) := by
    have hC : costEnts (spawn :: others) = (2 * spawn.length + 4) + costEnts others := rfl
    simp only [List.length_append, List.length_cons, List.length_nil]
    omega
  rw [hf]
  simp only [toksEnts, List.append_assoc]
  rw [loop_ent spawn [] _ _ (fun l hl => (h.1 l hl).2)]
  rw [loop_ents others _ _ _ rfl (fun e he l hl => (h.2 e he l hl).2)]
  have hpos : 0 < (toksEnts (spawn :: others)).length + 3 + extra - costEnts (spawn :: others) := by omega
  obtain ⟨m, hm⟩ := Nat.exists_eq_succ_of_ne_zero (Nat.ne_of_gt hpos)
  simp only [toksEnts] at hm
  rw [hm, step_nul]
  simp [finish, readBack, startLines]

section final
variable {T : Tables} (hE : escOK T = true) (F : C01.KvFacts T) (fold : Char → List Char)
include hE F in
/-- **Entity lump round trip** (model level). -/
theorem entRead_entWrite (hN : nulOK T = true) (spawn : List Line) (others : List (List Line))
    (h : entsOk spawn others) :
    entRead T fold (entWrite T (spawn :: others)) = .ok (readBack spawn others) := by
  obtain ⟨obs, hobs, hrun⟩ := run_entWrite hE F fold hN (spawn :: others)
    (by intro e he l hl
        rcases List.mem_cons.mp he with rfl | he'
        · exact (h.1 l hl).1
        · exact (h.2 e he' l hl).1)
  unfold entRead
  simp only [hrun, hobs]
  have hl : obs.length = (toksEnts (spawn :: others) ++ [(1, [nul]), (0, [])]).length := by
    rw [← hobs, List.length_map]
  rw [hl]
  exact readLoop_written spawn others h 0
end final

/-! ## `Output.parse` split -/

theorem splitOn_ne_nil (sep : Char) (s : List Char) : splitOn sep s ≠ [] := by
  induction s with
  | nil => simp [splitOn]
  | cons c cs ih =>
    simp only [splitOn]
    split
    · simp
    · split <;> simp

theorem splitOn_nosep (sep : Char) (s : List Char) (h : sep ∉ s) : splitOn sep s = [s] := by
  induction s with
  | nil => rfl
  | cons c cs ih =>
    have hc : c ≠ sep := fun e => h (by simp [e])
    have := ih (fun hm => h (by simp [hm]))
    simp [splitOn, this, hc]

theorem splitOn_append (sep : Char) (a rest : List Char) (h : sep ∉ a) :
    splitOn sep (a ++ sep :: rest) = a :: splitOn sep rest := by
  induction a with
  | nil =>
    simp only [List.nil_append, splitOn]
    cases hr : splitOn sep rest with
    | nil => exact absurd hr (splitOn_ne_nil sep rest)
    | cons p ps => simp
  | cons c cs ih =>
    have hc : c ≠ sep := fun e => h (by simp [e])
    have := ih (fun hm => h (by simp [hm]))
    simp [splitOn, this, hc]

/-- the fields of an output contain no separator of either kind / no separator in use -/
def OutFields.fieldsOk (o : OutFields) : Prop :=
  let fs := [o.target, o.input, o.params, o.delay, o.times]
  if o.commaSep then ∀ f ∈ fs, ',' ∉ f ∧ sepEsc ∉ f else ∀ f ∈ fs, sepEsc ∉ f

theorem count_nosep (sep : Char) (s : List Char) (h : sep ∉ s) : s.count sep = 0 :=
  List.count_eq_zero.mpr h

/-- **Outputs, either separator.** With the `0x1b` separator the value is recognised as an output
and split back into its fields whenever no field contains `0x1b`; with the comma separator
whenever no field contains a comma or `0x1b` (the reader's "exactly four commas" heuristic). -/
theorem parseOut_value (o : OutFields) (h : o.fieldsOk) :
    classify o.value = (if o.commaSep then 2 else 1) ∧
    parseOut o.value = some (o.target, o.input, o.params, o.delay, o.times, o.commaSep) := by
  unfold OutFields.fieldsOk at h
  cases hc : o.commaSep with
  | false =>
    simp only [hc, Bool.false_eq_true, if_false, List.mem_cons, List.mem_nil_iff, or_false, forall_eq_or_imp, forall_eq] at h
    obtain ⟨h1, h2, h3, h4, h5⟩ := h
    have hv : o.value = o.target ++ sepEsc :: (o.input ++ sepEsc :: (o.params ++ sepEsc :: (o.delay ++ sepEsc :: o.times))) := by
      simp [OutFields.value, OutFields.sep, hc]
    have hcont : o.value.contains sepEsc = true := by rw [hv]; simp
    refine ⟨by unfold classify; rw [hcont]; rfl, ?_⟩
    unfold parseOut
    rw [hcont, hv]
    simp [splitOn_append _ _ _ h1, splitOn_append _ _ _ h2, splitOn_append _ _ _ h3, splitOn_append _ _ _ h4,
      splitOn_nosep _ _ h5]
  | true =>
    simp only [hc, if_true, List.mem_cons, List.mem_nil_iff, or_false, forall_eq_or_imp, forall_eq] at h
    obtain ⟨⟨c1, e1⟩, ⟨c2, e2⟩, ⟨c3, e3⟩, ⟨c4, e4⟩, ⟨c5, e5⟩⟩ := h
    have hv : o.value = o.target ++ ',' :: (o.input ++ ',' :: (o.params ++ ',' :: (o.delay ++ ',' :: o.times))) := by
      simp [OutFields.value, OutFields.sep, hc]
    have hne : sepEsc ≠ ',' := by decide
    have hcont : o.value.contains sepEsc = false := by
      rw [hv]; simp [e1, e2, e3, e4, e5, hne]
    have hcount : o.value.count ',' = 4 := by
      rw [hv]
      simp [List.count_append, List.count_cons, count_nosep _ _ c1, count_nosep _ _ c2, count_nosep _ _ c3,
        count_nosep _ _ c4, count_nosep _ _ c5]
    refine ⟨by unfold classify; rw [hcont, hcount]; rfl, ?_⟩
    unfold parseOut
    rw [hcont, hv]
    simp [splitOn_append _ _ _ c1, splitOn_append _ _ _ c2, splitOn_append _ _ _ c3, splitOn_append _ _ _ c4,
      splitOn_nosep _ _ c5]

end C11Ent
