import Srctools.Model.C08
import Mathlib.Data.List.Nodup
import Mathlib.Tactic.Linarith
/-! Helper lemmas for C08: `probe` (pigeonhole), `IDMan.getId/discard`, the fixup index table,
and the state invariant `Inv` of the object life-cycle model with its preservation by every
primitive and every operation. -/
set_option linter.unusedSimpArgs false
set_option linter.unusedVariables false
namespace C08

/-! ### probe -/

theorem filter_le_succ (used : List Int) (p : Int) :
    (used.filter (fun x => decide (p + 1 ≤ x))).length ≤ (used.filter (fun x => decide (p ≤ x))).length := by
  induction used with
  | nil => simp
  | cons a t ih =>
    simp only [List.filter_cons]
    by_cases h1 : p + 1 ≤ a
    · have h2 : p ≤ a := by omega
      simp [h1, h2, ih]
    · by_cases h2 : p ≤ a
      · simp [h1, h2]; omega
      · simp [h1, h2, ih]

theorem filter_lt_of_mem (used : List Int) (p : Int) (h : p ∈ used) :
    (used.filter (fun x => decide (p + 1 ≤ x))).length < (used.filter (fun x => decide (p ≤ x))).length := by
  induction used with
  | nil => simp at h
  | cons a t ih =>
    simp only [List.filter_cons]
    rcases List.mem_cons.mp h with rfl | h'
    · have := filter_le_succ t p
      simp; omega
    · have := ih h'
      by_cases h1 : p + 1 ≤ a
      · have h2 : p ≤ a := by omega
        simp [h1, h2, this]
      · by_cases h2 : p ≤ a
        · simp [h1, h2]; omega
        · simp [h1, h2, this]

theorem probe_spec (used : List Int) : ∀ (fuel : Nat) (p : Int),
    (used.filter (fun x => decide (p ≤ x))).length < fuel →
    probe used fuel p ∉ used ∧ p ≤ probe used fuel p ∧
      (∀ q, p ≤ q → q < probe used fuel p → q ∈ used) ∧
      probe used fuel p ≤ p + (used.filter (fun x => decide (p ≤ x))).length := by
  intro fuel
  induction fuel with
  | zero => intro p h; omega
  | succ n ih =>
    intro p h
    unfold probe
    by_cases hp : p ∈ used
    · rw [if_pos hp]
      have hlt := filter_lt_of_mem used p hp
      have := ih (p + 1) (by omega)
      refine ⟨this.1, by omega, ?_, by omega⟩
      intro q hq1 hq2
      by_cases hqp : q = p
      · subst hqp; exact hp
      · exact this.2.2.1 q (by omega) hq2
    · rw [if_neg hp]
      refine ⟨hp, le_refl _, ?_, by omega⟩
      intro q h1 h2; omega

theorem filter_length_le (used : List Int) (p : Int) :
    (used.filter (fun x => decide (p ≤ x))).length ≤ used.length := List.length_filter_le _ _


/-! ### IDMan -/

/-- the documented meaning of `search_pos`: every id in `1 .. search_pos-1` is in use. -/
def Hint (m : IDMan) : Prop := 1 ≤ m.searchPos ∧ ∀ j, 1 ≤ j → j < m.searchPos → j ∈ m.used

theorem hint_empty : Hint IDMan.empty := by
  refine ⟨by simp [IDMan.empty], ?_⟩
  intro j h1 h2; simp [IDMan.empty] at h2; omega

theorem getId_spec (m : IDMan) (d : Int) (hm : Hint m) :
    (m.getId d).1 ∉ m.used ∧ 0 < (m.getId d).1 ∧ Hint (m.getId d).2 ∧
      (∀ x, x ∈ (m.getId d).2.used ↔ x = (m.getId d).1 ∨ x ∈ m.used) := by
  unfold IDMan.getId
  by_cases h : 0 < d ∧ d ∉ m.used
  · rw [if_pos h]
    refine ⟨h.2, h.1, ⟨hm.1, ?_⟩, ?_⟩
    · intro j h1 h2; exact List.mem_cons_of_mem _ (hm.2 j h1 h2)
    · intro x; simp
  · rw [if_neg h]
    have hs := probe_spec m.used (m.used.length + 1) m.searchPos
      (by have := filter_length_le m.used m.searchPos; omega)
    have h1p := hm.1
    refine ⟨hs.1, by dsimp only; omega, ⟨by dsimp only; omega, ?_⟩, ?_⟩
    · intro j h1 h2
      dsimp only at h2 ⊢
      by_cases hj : j < m.searchPos
      · exact List.mem_cons_of_mem _ (hm.2 j h1 hj)
      · by_cases hje : j = probe m.used (m.used.length + 1) m.searchPos
        · rw [hje]; exact List.mem_cons_self
        · exact List.mem_cons_of_mem _ (hs.2.2.1 j (by omega) (by omega))
    · intro x; simp

theorem getId_probes (m : IDMan) (d : Int) :
    (m.getId d).1 = d ∨ (m.searchPos ≤ (m.getId d).1 ∧ (m.getId d).1 ≤ m.searchPos + m.used.length) := by
  unfold IDMan.getId
  by_cases h : 0 < d ∧ d ∉ m.used
  · rw [if_pos h]; exact Or.inl rfl
  · rw [if_neg h]
    have hs := probe_spec m.used (m.used.length + 1) m.searchPos
      (by have := filter_length_le m.used m.searchPos; omega)
    have := filter_length_le m.used m.searchPos
    right; simp only []; omega

theorem discard_mem (g : Bool) (m : IDMan) (e x : Int) :
    x ∈ (m.discard g e).used ↔ x ∈ m.used ∧ x ≠ e := by
  simp [IDMan.discard]

theorem discard_hint (g : Bool) (m : IDMan) (e : Int) (hm : Hint m) (hg : g = true ∨ 0 < e) :
    Hint (m.discard g e) := by
  unfold IDMan.discard
  by_cases h : e < m.searchPos ∧ (g = false ∨ 0 < e)
  · have hpos : 0 < e := by
      rcases hg with hg | hg
      · rcases h.2 with h2 | h2
        · simp [hg] at h2
        · exact h2
      · exact hg
    simp only [if_pos h]
    refine ⟨by dsimp only; omega, ?_⟩
    intro j h1 h2
    dsimp only at h2 ⊢
    simp only [List.mem_filter, bne_iff_ne, ne_eq]
    exact ⟨hm.2 j h1 (by omega), by omega⟩
  · simp only [if_neg h]
    refine ⟨hm.1, ?_⟩
    intro j h1 h2
    dsimp only at h2 ⊢
    simp only [List.mem_filter, bne_iff_ne, ne_eq]
    refine ⟨hm.2 j h1 h2, ?_⟩
    intro hje
    subst hje
    apply h
    refine ⟨h2, ?_⟩
    right; omega

/-! ### EntityFixup -/

def FxInv (t : Fix) : Prop := (t.map (·.2)).Nodup ∧ (t.map (·.1)).Nodup
def FxPos (t : Fix) : Prop := ∀ e ∈ t, 0 < e.2

theorem lowestUnused_spec (ids : List Int) : lowestUnused ids ∉ ids ∧ 1 ≤ lowestUnused ids := by
  have hs := probe_spec ids (ids.length + 1) 1 (by have := filter_length_le ids 1; omega)
  exact ⟨hs.1, hs.2.1⟩

theorem fxHas_iff (t : Fix) (v : Nat) : fxHas t v = true ↔ v ∈ t.map (·.1) := by
  simp [fxHas, List.any_eq_true]

theorem fxSet_inv (t : Fix) (v : Nat) (h : FxInv t) : FxInv (fxSet t v) := by
  unfold fxSet
  by_cases hv : fxHas t v = true
  · rw [if_pos hv]; exact h
  · rw [if_neg hv]
    have hv' : v ∉ t.map (·.1) := fun hx => hv ((fxHas_iff t v).2 hx)
    have hl := (lowestUnused_spec (t.map (·.2))).1
    refine ⟨?_, ?_⟩
    · simp only [List.map_append, List.map_cons, List.map_nil]
      rw [List.nodup_append]
      refine ⟨h.1, List.nodup_singleton _, ?_⟩
      intro a ha b hb
      simp at hb; subst hb
      intro hab; subst hab; exact hl ha
    · simp only [List.map_append, List.map_cons, List.map_nil]
      rw [List.nodup_append]
      refine ⟨h.2, List.nodup_singleton _, ?_⟩
      intro a ha b hb
      simp at hb; subst hb
      intro hab; subst hab; exact hv' ha

theorem fxSet_pos (t : Fix) (v : Nat) (h : FxPos t) : FxPos (fxSet t v) := by
  unfold fxSet
  by_cases hv : fxHas t v = true
  · rw [if_pos hv]; exact h
  · rw [if_neg hv]
    intro e he
    rcases List.mem_append.mp he with he | he
    · exact h e he
    · simp at he; subst he
      have := (lowestUnused_spec (t.map (·.2))).2
      simp only; omega

theorem fxDel_inv (t : Fix) (v : Nat) (h : FxInv t) : FxInv (fxDel t v) := by
  unfold fxDel
  exact ⟨h.1.sublist (List.Sublist.map _ List.filter_sublist), h.2.sublist (List.Sublist.map _ List.filter_sublist)⟩

theorem fxDel_pos (t : Fix) (v : Nat) (h : FxPos t) : FxPos (fxDel t v) := by
  intro e he
  exact h e (List.mem_of_mem_filter he)

theorem map_replace_noop (t : Fix) (v : Nat) (i : Int) (hv : v ∉ t.map (·.1)) :
    t.map (fun e => if e.1 == v then (v, i) else e) = t := by
  induction t with
  | nil => rfl
  | cons e t ih =>
    simp only [List.map_cons, List.mem_cons, not_or] at hv ⊢
    have : (e.1 == v) = false := by simp; exact fun h => hv.1 h.symm
    rw [this, ih hv.2]; rfl

theorem replace_spec (t : Fix) (v : Nat) (i : Int) (h : FxInv t) (hi : i ∉ t.map (·.2)) :
    FxInv (t.map (fun e => if e.1 == v then (v, i) else e)) ∧
    ∀ x ∈ (t.map (fun e => if e.1 == v then (v, i) else e)).map (·.2), x = i ∨ x ∈ t.map (·.2) := by
  induction t with
  | nil => exact ⟨⟨List.nodup_nil, List.nodup_nil⟩, by simp⟩
  | cons e t ih =>
    have h1 := List.nodup_cons.mp h.1
    have h2 := List.nodup_cons.mp h.2
    simp only [List.map_cons, List.mem_cons, not_or] at hi
    by_cases hev : (e.1 == v) = true
    · have hev' : e.1 = v := by simpa using hev
      have hvt : v ∉ t.map (·.1) := by rw [← hev']; exact h2.1
      simp only [List.map_cons, hev, if_true]
      rw [map_replace_noop t v i hvt]
      refine ⟨⟨?_, ?_⟩, ?_⟩
      · exact List.nodup_cons.mpr ⟨hi.2, h1.2⟩
      · exact List.nodup_cons.mpr ⟨hvt, h2.2⟩
      · intro x hx
        rcases List.mem_cons.mp hx with hx | hx
        · exact Or.inl hx
        · exact Or.inr (List.mem_cons_of_mem _ hx)
    · have hev' : (e.1 == v) = false := by simpa using hev
      have ih' := ih ⟨h1.2, h2.2⟩ hi.2
      simp only [List.map_cons, hev', Bool.false_eq_true, if_false]
      refine ⟨⟨?_, ?_⟩, ?_⟩
      · refine List.nodup_cons.mpr ⟨?_, ih'.1.1⟩
        intro hx
        rcases ih'.2 _ hx with hx | hx
        · exact hi.1 hx.symm
        · exact h1.1 hx
      · refine List.nodup_cons.mpr ⟨?_, ih'.1.2⟩
        intro hx
        simp only [List.mem_map] at hx
        rcases hx with ⟨a, ⟨b, hb, rfl⟩, ha⟩
        by_cases hb1 : (b.1 == v) = true
        · simp only [hb1, if_true] at ha
          have : e.1 = v := ha.symm
          simp [this] at hev'
        · have hb1' : (b.1 == v) = false := by simpa using hb1
          simp only [hb1', Bool.false_eq_true, if_false] at ha
          exact h2.1 (List.mem_map.mpr ⟨b, hb, ha⟩)
      · intro x hx
        rcases List.mem_cons.mp hx with hx | hx
        · exact Or.inr (List.mem_cons.mpr (Or.inl hx))
        · rcases ih'.2 x hx with hx | hx
          · exact Or.inl hx
          · exact Or.inr (List.mem_cons_of_mem _ hx)

theorem fxPut_spec (t : Fix) (v : Nat) (i : Int) (h : FxInv t) (hi : i ∉ t.map (·.2)) :
    FxInv (fxPut t v i) ∧ ∀ x ∈ (fxPut t v i).map (·.2), x = i ∨ x ∈ t.map (·.2) := by
  unfold fxPut
  by_cases hv : fxHas t v = true
  · rw [if_pos hv]; exact replace_spec t v i h hi
  · rw [if_neg hv]
    have hv' : v ∉ t.map (·.1) := fun hx => hv ((fxHas_iff t v).2 hx)
    refine ⟨⟨?_, ?_⟩, ?_⟩
    · simp only [List.map_append, List.map_cons, List.map_nil]
      rw [List.nodup_append]
      refine ⟨h.1, List.nodup_singleton _, ?_⟩
      intro a ha b hb
      simp at hb; subst hb
      intro hab; subst hab; exact hi ha
    · simp only [List.map_append, List.map_cons, List.map_nil]
      rw [List.nodup_append]
      refine ⟨h.2, List.nodup_singleton _, ?_⟩
      intro a ha b hb
      simp at hb; subst hb
      intro hab; subst hab; exact hv' ha
    · intro x hx
      simp only [List.map_append, List.map_cons, List.map_nil, List.mem_append, List.mem_singleton] at hx
      rcases hx with hx | hx
      · exact Or.inr hx
      · exact Or.inl hx

theorem fxPut_mem (t : Fix) (v : Nat) (i : Int) (e : Nat × Int) (he : e ∈ fxPut t v i) :
    e ∈ t ∨ e = (v, i) := by
  unfold fxPut at he
  by_cases hv : fxHas t v = true
  · rw [if_pos hv] at he
    rcases List.mem_map.mp he with ⟨b, hb, rfl⟩
    by_cases hb1 : (b.1 == v) = true
    · simp [hb1]
    · have hb1' : (b.1 == v) = false := by simpa using hb1
      simp [hb1', hb]
  · rw [if_neg hv] at he
    rcases List.mem_append.mp he with he | he
    · exact Or.inl he
    · simp at he; exact Or.inr he

theorem foldl_fxSet_inv (vs : List Nat) : ∀ t, FxInv t → FxInv (vs.foldl fxSet t) := by
  induction vs with
  | nil => intro t h; exact h
  | cons v vs ih => intro t h; exact ih _ (fxSet_inv t v h)

theorem foldl_fxSet_pos (vs : List Nat) : ∀ t, FxPos t → FxPos (vs.foldl fxSet t) := by
  induction vs with
  | nil => intro t h; exact h
  | cons v vs ih => intro t h; exact ih _ (fxSet_pos t v h)

theorem fxInit_loop (l : List (Nat × Int)) : ∀ acc : Fix × List Int × List Nat,
    (FxInv acc.1 ∧ ∀ x ∈ acc.1.map (·.2), x ∈ acc.2.1) →
    (FxInv (l.foldl fxInitStep acc).1 ∧ ∀ x ∈ (l.foldl fxInitStep acc).1.map (·.2), x ∈ (l.foldl fxInitStep acc).2.1) := by
  induction l with
  | nil => intro acc h; exact h
  | cons e l ih =>
    intro acc h
    simp only [List.foldl_cons]
    apply ih
    unfold fxInitStep
    by_cases he : e.2 ∈ acc.2.1
    · rw [if_pos he]; exact h
    · rw [if_neg he]
      have hi : e.2 ∉ acc.1.map (·.2) := fun hx => he (h.2 _ hx)
      have hp := fxPut_spec acc.1 e.1 e.2 h.1 hi
      refine ⟨hp.1, ?_⟩
      intro x hx
      rcases hp.2 x hx with hx | hx
      · subst hx; exact List.mem_cons_self
      · exact List.mem_cons_of_mem _ (h.2 x hx)

theorem fxInit_inv (l : List (Nat × Int)) : FxInv (fxInit l) := by
  unfold fxInit
  apply foldl_fxSet_inv
  exact (fxInit_loop l ([], [], []) ⟨⟨List.nodup_nil, List.nodup_nil⟩, by simp⟩).1

theorem fxInit_loop_pos (l : List (Nat × Int)) (hl : ∀ e ∈ l, 0 < e.2) : ∀ acc : Fix × List Int × List Nat,
    FxPos acc.1 → FxPos (l.foldl fxInitStep acc).1 := by
  induction l with
  | nil => intro acc h; exact h
  | cons e l ih =>
    intro acc h
    simp only [List.foldl_cons]
    apply ih (fun x hx => hl x (List.mem_cons_of_mem _ hx))
    unfold fxInitStep
    by_cases he : e.2 ∈ acc.2.1
    · rw [if_pos he]; exact h
    · rw [if_neg he]
      intro x hx
      rcases fxPut_mem _ _ _ _ hx with hx | hx
      · exact h x hx
      · subst hx; exact hl e List.mem_cons_self

theorem fxInit_pos (l : List (Nat × Int)) (hl : ∀ e ∈ l, 0 < e.2) : FxPos (fxInit l) := by
  unfold fxInit
  apply foldl_fxSet_pos
  exact fxInit_loop_pos l hl _ (by intro e he; simp at he)

/-! ### the state invariant -/

structure Inv (s : St) : Prop where
  hint : ∀ m k, Hint (s.mans m k)
  bound : ∀ h o, s.objs h = some o → h < s.next
  notNode : ∀ h o, s.objs h = some o → o.kind ≠ .node
  mem : ∀ h o, s.objs h = some o → o.alive = true →
    o.id ∈ (s.mans o.map o.kind).used ∧ 0 < o.id
  uniq : ∀ h1 h2 o1 o2, s.objs h1 = some o1 → s.objs h2 = some o2 → o1.alive = true →
    o2.alive = true → o1.kind = o2.kind → o1.map = o2.map → o1.id = o2.id → h1 = h2
  nmem : ∀ h o n, s.objs h = some o → o.node = some n →
    n ∈ (s.mans o.map .node).used ∧ 0 < n
  nuniq : ∀ h1 h2 o1 o2 n, s.objs h1 = some o1 → s.objs h2 = some o2 → o1.node = some n →
    o2.node = some n → o1.map = o2.map → h1 = h2
  fix : ∀ h o, s.objs h = some o → FxInv o.fix

theorem inv_init : Inv St.init := by
  constructor <;> simp [St.init, hint_empty]

theorem inv_congr {s s' : St} (hm : s'.mans = s.mans) (ho : s'.objs = s.objs) (hn : s'.next = s.next)
    (h : Inv s) : Inv s' := by
  constructor
  · rw [hm]; exact h.hint
  · rw [ho, hn]; exact h.bound
  · rw [ho]; exact h.notNode
  · rw [ho, hm]; exact h.mem
  · rw [ho]; exact h.uniq
  · rw [ho, hm]; exact h.nmem
  · rw [ho]; exact h.nuniq
  · rw [ho]; exact h.fix

theorem allocObj_inv (s : St) (k : Kind) (m : Nat) (des : Int) (kids : List Nat) (hk : k ≠ .node)
    (h : Inv s) : Inv (allocObj s k m des kids).1 := by
  have hg := getId_spec (s.mans m k) des (h.hint m k)
  have hnone : s.objs s.next = none := by
    cases hx : s.objs s.next with
    | none => rfl
    | some o => exact absurd (h.bound _ _ hx) (lt_irrefl _)
  constructor
  · intro m' k'
    show Hint (if m' = m ∧ k' = k then _ else _)
    split
    · exact hg.2.2.1
    · exact h.hint m' k'
  · intro h' o ho
    show h' < s.next + 1
    change (if h' = s.next then _ else s.objs h') = some o at ho
    split at ho
    · omega
    · have := h.bound _ _ ho; omega
  · intro h' o ho
    change (if h' = s.next then _ else s.objs h') = some o at ho
    split at ho
    · cases ho; exact hk
    · exact h.notNode _ _ ho
  · intro h' o ho ha
    change (if h' = s.next then _ else s.objs h') = some o at ho
    show o.id ∈ (if o.map = m ∧ o.kind = k then _ else s.mans o.map o.kind).used ∧ 0 < o.id
    split at ho
    · cases ho
      simp only [and_self, if_true]
      exact ⟨(hg.2.2.2 _).2 (Or.inl rfl), hg.2.1⟩
    · have hm := h.mem _ _ ho ha
      split
      · rename_i hc
        rw [hc.1, hc.2] at hm
        exact ⟨(hg.2.2.2 _).2 (Or.inr hm.1), hm.2⟩
      · exact hm
  · intro h1 h2 o1 o2 ho1 ho2 ha1 ha2 hkk hmm hid
    change (if h1 = s.next then _ else s.objs h1) = some o1 at ho1
    change (if h2 = s.next then _ else s.objs h2) = some o2 at ho2
    split at ho1 <;> split at ho2
    · omega
    · cases ho1
      have hm := h.mem _ _ ho2 ha2
      simp only at hkk hmm hid
      rw [← hkk, ← hmm, ← hid] at hm
      exact absurd hm.1 hg.1
    · cases ho2
      have hm := h.mem _ _ ho1 ha1
      simp only at hkk hmm hid
      rw [hkk, hmm, hid] at hm
      exact absurd hm.1 hg.1
    · exact h.uniq _ _ _ _ ho1 ho2 ha1 ha2 hkk hmm hid
  · intro h' o n ho hn
    change (if h' = s.next then _ else s.objs h') = some o at ho
    show n ∈ (if o.map = m ∧ Kind.node = k then _ else s.mans o.map .node).used ∧ 0 < n
    split at ho
    · cases ho; simp at hn
    · have : ¬ (o.map = m ∧ Kind.node = k) := fun hc => hk hc.2.symm
      rw [if_neg this]
      exact h.nmem _ _ _ ho hn
  · intro h1 h2 o1 o2 n ho1 ho2 hn1 hn2 hmm
    change (if h1 = s.next then _ else s.objs h1) = some o1 at ho1
    change (if h2 = s.next then _ else s.objs h2) = some o2 at ho2
    split at ho1
    · cases ho1; simp at hn1
    · split at ho2
      · cases ho2; simp at hn2
      · exact h.nuniq _ _ _ _ _ ho1 ho2 hn1 hn2 hmm
  · intro h' o ho
    change (if h' = s.next then _ else s.objs h') = some o at ho
    split at ho
    · cases ho; exact ⟨List.nodup_nil, List.nodup_nil⟩
    · exact h.fix _ _ ho


theorem kill_inv (c : Cfg) (hc : c.discardGuard = true) (s : St) (h : Nat) (hi : Inv s) :
    Inv (kill c s h) := by
  unfold kill
  cases ho : s.objs h with
  | none => exact hi
  | some o =>
    simp only
    split
    · rename_i hcond
      have hal : o.alive = true := hcond.1
      have hkn : o.kind ≠ .node := hi.notNode _ _ ho
      have hmem := hi.mem _ _ ho hal
      constructor
      · intro m' k'
        show Hint (if m' = o.map ∧ k' = o.kind then _ else _)
        split
        · exact discard_hint _ _ _ (hi.hint _ _) (Or.inl hc)
        · exact hi.hint m' k'
      · intro h' o' ho'
        change (if h' = h then _ else s.objs h') = some o' at ho'
        show h' < s.next
        split at ho'
        · rename_i he; rw [he]; exact hi.bound _ _ ho
        · exact hi.bound _ _ ho'
      · intro h' o' ho'
        change (if h' = h then _ else s.objs h') = some o' at ho'
        split at ho'
        · cases ho'; exact hkn
        · exact hi.notNode _ _ ho'
      · intro h' o' ho' ha'
        change (if h' = h then _ else s.objs h') = some o' at ho'
        show o'.id ∈ (if o'.map = o.map ∧ o'.kind = o.kind then _ else s.mans o'.map o'.kind).used ∧ 0 < o'.id
        split at ho'
        · cases ho'; simp at ha'
        · rename_i hne
          have hm := hi.mem _ _ ho' ha'
          split
          · rename_i hcc
            refine ⟨(discard_mem _ _ _ _).2 ⟨?_, ?_⟩, hm.2⟩
            · rw [← hcc.1, ← hcc.2]; exact hm.1
            · intro hid
              exact hne (hi.uniq _ _ _ _ ho' ho ha' hal hcc.2 hcc.1 hid)
          · exact hm
      · intro h1 h2 o1 o2 ho1 ho2 ha1 ha2 hkk hmm hid
        change (if h1 = h then _ else s.objs h1) = some o1 at ho1
        change (if h2 = h then _ else s.objs h2) = some o2 at ho2
        split at ho1
        · cases ho1; simp at ha1
        · split at ho2
          · cases ho2; simp at ha2
          · exact hi.uniq _ _ _ _ ho1 ho2 ha1 ha2 hkk hmm hid
      · intro h' o' n ho' hn
        change (if h' = h then _ else s.objs h') = some o' at ho'
        show n ∈ (if o'.map = o.map ∧ Kind.node = o.kind then _ else s.mans o'.map .node).used ∧ 0 < n
        have : ¬ (o'.map = o.map ∧ Kind.node = o.kind) := fun hcc => hkn hcc.2.symm
        rw [if_neg this]
        split at ho'
        · cases ho'
          exact hi.nmem h o n ho hn
        · exact hi.nmem _ _ _ ho' hn
      · intro h1 h2 o1 o2 n ho1 ho2 hn1 hn2 hmm
        change (if h1 = h then _ else s.objs h1) = some o1 at ho1
        change (if h2 = h then _ else s.objs h2) = some o2 at ho2
        split at ho1 <;> split at ho2
        · omega
        · rename_i he _
          cases ho1
          rw [he]
          exact hi.nuniq h h2 o o2 n ho ho2 hn1 hn2 hmm
        · rename_i _ he
          cases ho2
          rw [he]
          exact hi.nuniq h1 h o1 o n ho1 ho hn1 hn2 hmm
        · exact hi.nuniq _ _ _ _ _ ho1 ho2 hn1 hn2 hmm
      · intro h' o' ho'
        change (if h' = h then _ else s.objs h') = some o' at ho'
        split at ho'
        · cases ho'; exact hi.fix h o ho
        · exact hi.fix _ _ ho'
    · exact hi


/-- general step for the `nodeid` key of one entity: the node manager of its map becomes `M'`,
its node value becomes `nv`, nothing else changes. -/
theorem nodeUpdate_inv (s s' : St) (h : Nat) (o : Obj) (M' : IDMan) (nv : Option Int)
    (hi : Inv s) (ho : s.objs h = some o)
    (hnext : s'.next = s.next)
    (hobjs : ∀ h', s'.objs h' = if h' = h then some { o with node := nv } else s.objs h')
    (hmans : ∀ m' k', ¬ (m' = o.map ∧ k' = Kind.node) → s'.mans m' k' = s.mans m' k')
    (hman : s'.mans o.map .node = M')
    (hH : Hint M')
    (hkeep : ∀ h' o' n', h' ≠ h → s.objs h' = some o' → o'.map = o.map → o'.node = some n' → n' ∈ M'.used)
    (hnew : ∀ r, nv = some r → r ∈ M'.used ∧ 0 < r ∧
      ∀ h' o', h' ≠ h → s.objs h' = some o' → o'.map = o.map → o'.node ≠ some r) :
    Inv s' := by
  have hkn : o.kind ≠ .node := hi.notNode _ _ ho
  constructor
  · intro m' k'
    by_cases hc : m' = o.map ∧ k' = Kind.node
    · rw [hc.1, hc.2, hman]; exact hH
    · rw [hmans _ _ hc]; exact hi.hint _ _
  · intro h' o' ho'
    rw [hobjs] at ho'; rw [hnext]
    split at ho'
    · rename_i he; rw [he]; exact hi.bound _ _ ho
    · exact hi.bound _ _ ho'
  · intro h' o' ho'
    rw [hobjs] at ho'
    split at ho'
    · cases ho'; exact hkn
    · exact hi.notNode _ _ ho'
  · intro h' o' ho' ha'
    rw [hobjs] at ho'
    split at ho'
    · cases ho'
      have : ¬ (o.map = o.map ∧ o.kind = Kind.node) := fun hc => hkn hc.2
      show o.id ∈ (s'.mans o.map o.kind).used ∧ 0 < o.id
      rw [hmans _ _ this]
      exact hi.mem h o ho ha'
    · have hk' := hi.notNode _ _ ho'
      have : ¬ (o'.map = o.map ∧ o'.kind = Kind.node) := fun hc => hk' hc.2
      rw [hmans _ _ this]
      exact hi.mem _ _ ho' ha'
  · intro h1 h2 o1 o2 ho1 ho2 ha1 ha2 hkk hmm hid
    rw [hobjs] at ho1 ho2
    split at ho1 <;> split at ho2
    · omega
    · rename_i he _
      cases ho1; rw [he]
      exact hi.uniq h h2 o o2 ho ho2 ha1 ha2 hkk hmm hid
    · rename_i _ he
      cases ho2; rw [he]
      exact hi.uniq h1 h o1 o ho1 ho ha1 ha2 hkk hmm hid
    · exact hi.uniq _ _ _ _ ho1 ho2 ha1 ha2 hkk hmm hid
  · intro h' o' n ho' hn
    rw [hobjs] at ho'
    split at ho'
    · cases ho'
      show n ∈ (s'.mans o.map .node).used ∧ 0 < n
      rw [hman]
      have := hnew n hn
      exact ⟨this.1, this.2.1⟩
    · rename_i hne
      by_cases hm : o'.map = o.map
      · rw [hm, hman]
        exact ⟨hkeep _ _ _ hne ho' hm hn, (hi.nmem _ _ _ ho' hn).2⟩
      · have : ¬ (o'.map = o.map ∧ Kind.node = Kind.node) := fun hc => hm hc.1
        rw [hmans _ _ this]
        exact hi.nmem _ _ _ ho' hn
  · intro h1 h2 o1 o2 n ho1 ho2 hn1 hn2 hmm
    rw [hobjs] at ho1 ho2
    split at ho1 <;> split at ho2
    · omega
    · rename_i he hne
      cases ho1
      exact absurd hn2 ((hnew n hn1).2.2 h2 o2 hne ho2 hmm.symm)
    · rename_i hne he
      cases ho2
      exact absurd hn1 ((hnew n hn2).2.2 h1 o1 hne ho1 hmm)
    · exact hi.nuniq _ _ _ _ _ ho1 ho2 hn1 hn2 hmm
  · intro h' o' ho'
    rw [hobjs] at ho'
    split at ho'
    · cases ho'; exact hi.fix h o ho
    · exact hi.fix _ _ ho'


theorem nodeSet_inv (s s' : St) (h : Nat) (o : Obj) (D : IDMan) (des : Int)
    (hi : Inv s) (ho : s.objs h = some o)
    (hnext : s'.next = s.next)
    (hobjs : ∀ h', s'.objs h' = if h' = h then some { o with node := some (D.getId des).1 } else s.objs h')
    (hmans : ∀ m' k', ¬ (m' = o.map ∧ k' = Kind.node) → s'.mans m' k' = s.mans m' k')
    (hman : s'.mans o.map .node = (D.getId des).2)
    (hD : Hint D)
    (hkeepD : ∀ h' o' n', h' ≠ h → s.objs h' = some o' → o'.map = o.map → o'.node = some n' → n' ∈ D.used) :
    Inv s' := by
  have hg := getId_spec D des hD
  refine nodeUpdate_inv s s' h o _ _ hi ho hnext hobjs hmans hman hg.2.2.1 ?_ ?_
  · intro h' o' n' hne ho' hm hn
    exact (hg.2.2.2 _).2 (Or.inr (hkeepD _ _ _ hne ho' hm hn))
  · intro r hr
    cases hr
    refine ⟨(hg.2.2.2 _).2 (Or.inl rfl), hg.2.1, ?_⟩
    intro h' o' hne ho' hm hn
    exact hg.1 (hkeepD _ _ _ hne ho' hm hn)

theorem discard_keep (c : Cfg) (s : St) (h : Nat) (o : Obj) (old : Int) (hi : Inv s)
    (ho : s.objs h = some o) (hold : o.node = some old) :
    ∀ h' o' n', h' ≠ h → s.objs h' = some o' → o'.map = o.map → o'.node = some n' →
      n' ∈ ((s.mans o.map .node).discard c.discardGuard old).used := by
  intro h' o' n' hne ho' hm hn
  refine (discard_mem _ _ _ _).2 ⟨?_, ?_⟩
  · rw [← hm]; exact (hi.nmem _ _ _ ho' hn).1
  · intro he
    subst he
    exact hne (hi.nuniq _ _ _ _ _ ho' ho hn hold hm)

theorem nodeAssign_inv (c : Cfg) (hc : c.discardGuard = true) (s : St) (h : Nat) (des : Int)
    (hi : Inv s) : Inv (nodeAssign c s h des) := by
  unfold nodeAssign
  cases ho : s.objs h with
  | none => exact hi
  | some o =>
    simp only
    cases hold : o.node with
    | none =>
      simp only
      refine nodeSet_inv s _ h o (s.mans o.map .node) des hi ho rfl ?_ ?_ ?_ (hi.hint _ _) ?_
      · intro h'; rfl
      · intro m' k' hcc
        show (if m' = o.map ∧ k' = Kind.node then _ else s.mans m' k') = _
        rw [if_neg hcc]
      · show (if o.map = o.map ∧ Kind.node = Kind.node then _ else _) = _
        simp
      · intro h' o' n' hne ho' hm hn
        rw [← hm]; exact (hi.nmem _ _ _ ho' hn).1
    | some old =>
      simp only [manDiscard]
      refine nodeSet_inv s _ h o ((s.mans o.map .node).discard c.discardGuard old) des hi ho rfl ?_ ?_ ?_
        (discard_hint _ _ _ (hi.hint _ _) (Or.inl hc)) (discard_keep c s h o old hi ho hold)
      · intro h'
        show (if h' = h then _ else s.objs h') = _
        simp [setMan]
      · intro m' k' hcc
        show (if m' = o.map ∧ k' = Kind.node then _ else (if m' = o.map ∧ k' = Kind.node then _ else s.mans m' k')) = _
        rw [if_neg hcc, if_neg hcc]
      · show (if o.map = o.map ∧ Kind.node = Kind.node then _ else _) = _
        simp [setMan]

theorem nodeClear_inv (c : Cfg) (hc : c.discardGuard = true) (s : St) (h : Nat) (rel : Bool)
    (hi : Inv s) : Inv (nodeClear c s h rel) := by
  unfold nodeClear
  cases ho : s.objs h with
  | none => exact hi
  | some o =>
    simp only
    cases hold : o.node with
    | none =>
      simp only
      refine nodeUpdate_inv s _ h o (s.mans o.map .node) none hi ho rfl ?_ ?_ rfl (hi.hint _ _) ?_ ?_
      · intro h'; rfl
      · intro m' k' _; rfl
      · intro h' o' n' hne ho' hm hn
        rw [← hm]; exact (hi.nmem _ _ _ ho' hn).1
      · intro r hr; cases hr
    | some old =>
      cases rel with
      | false =>
        simp only
        refine nodeUpdate_inv s _ h o (s.mans o.map .node) none hi ho rfl ?_ ?_ rfl (hi.hint _ _) ?_ ?_
        · intro h'; rfl
        · intro m' k' _; rfl
        · intro h' o' n' hne ho' hm hn
          rw [← hm]; exact (hi.nmem _ _ _ ho' hn).1
        · intro r hr; cases hr
      | true =>
        simp only [manDiscard]
        refine nodeUpdate_inv s _ h o ((s.mans o.map .node).discard c.discardGuard old) none hi ho rfl ?_ ?_ ?_
          (discard_hint _ _ _ (hi.hint _ _) (Or.inl hc)) (discard_keep c s h o old hi ho hold) ?_
        · intro h'; rfl
        · intro m' k' hcc
          show (if m' = o.map ∧ k' = Kind.node then _ else s.mans m' k') = _
          rw [if_neg hcc]
        · show (if o.map = o.map ∧ Kind.node = Kind.node then _ else _) = _
          simp
        · intro r hr; cases hr


theorem setFix_inv (s : St) (h : Nat) (f : Fix) (hf : FxInv f) (hi : Inv s) : Inv (setFix s h f) := by
  unfold setFix
  cases ho : s.objs h with
  | none => exact hi
  | some o =>
    simp only
    constructor
    · exact hi.hint
    · intro h' o' ho'
      change (if h' = h then _ else s.objs h') = some o' at ho'
      show h' < s.next
      split at ho'
      · rename_i he; rw [he]; exact hi.bound _ _ ho
      · exact hi.bound _ _ ho'
    · intro h' o' ho'
      change (if h' = h then _ else s.objs h') = some o' at ho'
      split at ho'
      · cases ho'; exact hi.notNode h o ho
      · exact hi.notNode _ _ ho'
    · intro h' o' ho' ha'
      change (if h' = h then _ else s.objs h') = some o' at ho'
      split at ho'
      · cases ho'; exact hi.mem h o ho ha'
      · exact hi.mem _ _ ho' ha'
    · intro h1 h2 o1 o2 ho1 ho2 ha1 ha2 hkk hmm hid
      change (if h1 = h then _ else s.objs h1) = some o1 at ho1
      change (if h2 = h then _ else s.objs h2) = some o2 at ho2
      split at ho1 <;> split at ho2
      · omega
      · rename_i he _; cases ho1; rw [he]
        exact hi.uniq h h2 o o2 ho ho2 ha1 ha2 hkk hmm hid
      · rename_i _ he; cases ho2; rw [he]
        exact hi.uniq h1 h o1 o ho1 ho ha1 ha2 hkk hmm hid
      · exact hi.uniq _ _ _ _ ho1 ho2 ha1 ha2 hkk hmm hid
    · intro h' o' n ho' hn
      change (if h' = h then _ else s.objs h') = some o' at ho'
      split at ho'
      · cases ho'; exact hi.nmem h o n ho hn
      · exact hi.nmem _ _ _ ho' hn
    · intro h1 h2 o1 o2 n ho1 ho2 hn1 hn2 hmm
      change (if h1 = h then _ else s.objs h1) = some o1 at ho1
      change (if h2 = h then _ else s.objs h2) = some o2 at ho2
      split at ho1 <;> split at ho2
      · omega
      · rename_i he _; cases ho1; rw [he]
        exact hi.nuniq h h2 o o2 n ho ho2 hn1 hn2 hmm
      · rename_i _ he; cases ho2; rw [he]
        exact hi.nuniq h1 h o1 o n ho1 ho hn1 hn2 hmm
      · exact hi.nuniq _ _ _ _ _ ho1 ho2 hn1 hn2 hmm
    · intro h' o' ho'
      change (if h' = h then _ else s.objs h') = some o' at ho'
      split at ho'
      · cases ho'; exact hf
      · exact hi.fix _ _ ho'

/-- a manager is replaced by one that still contains every id it had to contain. -/
theorem setMan_inv (s : St) (m : Nat) (k : Kind) (M' : IDMan) (hi : Inv s) (hH : Hint M')
    (hobj : ∀ h o, s.objs h = some o → o.alive = true → o.map = m → o.kind = k → o.id ∈ M'.used)
    (hnode : k = .node → ∀ h o n, s.objs h = some o → o.map = m → o.node = some n → n ∈ M'.used) :
    Inv (setMan s m k M') := by
  constructor
  · intro m' k'
    show Hint (if m' = m ∧ k' = k then _ else _)
    split
    · exact hH
    · exact hi.hint _ _
  · exact hi.bound
  · exact hi.notNode
  · intro h o ho ha
    show o.id ∈ (if o.map = m ∧ o.kind = k then _ else s.mans o.map o.kind).used ∧ 0 < o.id
    have hm := hi.mem _ _ ho ha
    split
    · rename_i hcc; exact ⟨hobj _ _ ho ha hcc.1 hcc.2, hm.2⟩
    · exact hm
  · exact hi.uniq
  · intro h o n ho hn
    show n ∈ (if o.map = m ∧ Kind.node = k then _ else s.mans o.map .node).used ∧ 0 < n
    have hm := hi.nmem _ _ _ ho hn
    split
    · rename_i hcc; exact ⟨hnode hcc.2.symm _ _ _ ho hcc.1 hn, hm.2⟩
    · exact hm
  · exact hi.nuniq
  · exact hi.fix

theorem nodeGet_inv (s : St) (m : Nat) (des : Int) (hi : Inv s) : Inv (nodeGet s m des).1 := by
  have hg := getId_spec (s.mans m .node) des (hi.hint _ _)
  refine setMan_inv s m .node _ hi hg.2.2.1 ?_ ?_
  · intro h o ho _ _ hk
    exact absurd hk (hi.notNode _ _ ho)
  · intro _ h o n ho hm hn
    refine (hg.2.2.2 _).2 (Or.inr ?_)
    rw [← hm]; exact (hi.nmem _ _ _ ho hn).1

theorem failsolid_inv (c : Cfg) (hc : c.discardGuard = true) (s : St) (m : Nat) (hi : Inv s) :
    Inv (manDiscard c s m .solid (-1)) := by
  refine setMan_inv s m .solid _ hi (discard_hint _ _ _ (hi.hint _ _) (Or.inl hc)) ?_ ?_
  · intro h o ho ha hm hk
    have := hi.mem _ _ ho ha
    refine (discard_mem _ _ _ _).2 ⟨?_, by omega⟩
    rw [← hm, ← hk]; exact this.1
  · intro hk; cases hk

theorem removeEntRelease_inv (c : Cfg) (h1 : c.removeEntDiscardsEntId = false)
    (h2 : c.removeEntDiscardsNodeId = false) (s : St) (h : Nat) :
    removeEntRelease c s h = s := by
  unfold removeEntRelease
  cases s.objs h with
  | none => rfl
  | some o =>
    simp only [h1, h2]
    cases o.node <;> simp

theorem foldl_inv {α : Type} (P : St → Prop) (f : St → α → St) (hf : ∀ s a, P s → P (f s a)) (l : List α) :
    ∀ s, P s → P (l.foldl f s) := by
  induction l with
  | nil => intro s h; exact h
  | cons a l ih => intro s h; exact ih _ (hf s a h)

theorem foldl_inv_pair {α β : Type} (P : St → Prop) (f : St × β → α → St × β)
    (hf : ∀ acc a, P acc.1 → P (f acc a).1) (l : List α) :
    ∀ acc, P acc.1 → P (l.foldl f acc).1 := by
  induction l with
  | nil => intro s h; exact h
  | cons a l ih => intro s h; exact ih _ (hf s a h)

theorem collect_inv (c : Cfg) (hc : c.discardGuard = true) (s : St) (hi : Inv s) : Inv (collect c s) := by
  unfold collect
  apply foldl_inv Inv
  · intro s' h' hs'
    split
    · exact hs'
    · exact kill_inv c hc s' h' hs'
  · exact hi


theorem bind_inv (s : St) (r h : Nat) (hi : Inv s) : Inv (bind s r h) :=
  inv_congr (s := s) (s' := bind s r h) rfl rfl rfl hi

theorem newMap_inv (s : St) (hi : Inv s) : Inv (newMap s).1 := by
  have h0 : Inv { s with nmaps := s.nmaps + 1 } :=
    inv_congr (s := s) (s' := { s with nmaps := s.nmaps + 1 }) rfl rfl rfl hi
  have ha := allocObj_inv { s with nmaps := s.nmaps + 1 } .ent s.nmaps (-1) [] (by decide) h0
  exact inv_congr (s := (allocObj { s with nmaps := s.nmaps + 1 } .ent s.nmaps (-1) []).1)
    (s' := (newMap s).1) rfl rfl rfl ha

theorem mkEnt_inv (c : Cfg) (hc : c.discardGuard = true) (s : St) (m : Nat) (des : Int)
    (node : NodeArg) (kids : List Nat) (fix : List (Nat × Int)) (hi : Inv s) :
    Inv (mkEnt c s m des node kids fix).1 := by
  unfold mkEnt
  have ha := allocObj_inv s .ent m des kids (by decide) hi
  rcases hm : allocObj s .ent m des kids with ⟨s1, h⟩
  simp only [hm] at ha
  simp only
  apply setFix_inv _ _ _ (fxInit_inv fix)
  cases node with
  | int n => exact nodeAssign_inv c hc s1 h n ha
  | absent => exact ha
  | raw => exact ha

theorem addEnt_inv (c : Cfg) (hc : c.discardGuard = true) (s : St) (h : Nat) (o : Obj) (hi : Inv s) :
    Inv (addEnt c s h o) := by
  unfold addEnt
  have h1 : Inv { s with ents := fun m' => if m' = o.map then s.ents m' ++ [h] else s.ents m' } :=
    inv_congr (s := s) rfl rfl rfl hi
  simp only
  split
  · rename_i n _ _
    have hg := nodeGet_inv _ o.map n h1
    rcases hm : nodeGet { s with ents := fun m' => if m' = o.map then s.ents m' ++ [h] else s.ents m' } o.map n with ⟨s2, x⟩
    simp only [hm] at hg
    simp only
    exact nodeAssign_inv c hc s2 h x hg
  · exact h1

theorem copySide_inv (s : St) (o : Obj) (des : Int) (tgt : Option Nat) (hi : Inv s) :
    Inv (copySide s o des tgt).1 := by
  unfold copySide
  exact allocObj_inv _ _ _ _ _ (by decide) hi

theorem copySides_inv (s : St) (sides : List Nat) (tgt : Option Nat) (hi : Inv s) :
    Inv (copySides s sides tgt).1 := by
  unfold copySides
  apply foldl_inv_pair Inv
  · intro acc f hacc
    cases hf : acc.1.objs f with
    | none => simpa [hf] using hacc
    | some fo =>
      simp only [hf]
      have := copySide_inv acc.1 fo (-1) tgt hacc
      rcases hm : copySide acc.1 fo (-1) tgt with ⟨s', h'⟩
      simp only [hm] at this
      exact this
  · exact hi

theorem copySolid_inv (s : St) (o : Obj) (des : Int) (tgt : Option Nat) (hi : Inv s) :
    Inv (copySolid s o des tgt).1 := by
  unfold copySolid
  have := copySides_inv s o.kids tgt hi
  rcases hm : copySides s o.kids tgt with ⟨s1, sides⟩
  simp only [hm] at this
  simp only
  exact allocObj_inv _ _ _ _ _ (by decide) this

theorem copySolids_inv (s : St) (solids : List Nat) (tgt : Option Nat) (hi : Inv s) :
    Inv (copySolids s solids tgt).1 := by
  unfold copySolids
  apply foldl_inv_pair Inv
  · intro acc b hacc
    cases hb : acc.1.objs b with
    | none => simpa [hb] using hacc
    | some bo =>
      simp only [hb]
      have := copySolid_inv acc.1 bo (-1) tgt hacc
      rcases hm : copySolid acc.1 bo (-1) tgt with ⟨s', h'⟩
      simp only [hm] at this
      exact this
  · exact hi

theorem copyEnt_inv (c : Cfg) (hc : c.discardGuard = true) (s : St) (h : Nat) (o : Obj) (des : Int)
    (tgt : Option Nat) (hi : Inv s) : Inv (copyEnt c s h o des tgt).1 := by
  unfold copyEnt
  have := copySolids_inv s (kidsSeen s h o) tgt hi
  rcases hm : copySolids s (kidsSeen s h o) tgt with ⟨s1, solids⟩
  simp only [hm] at this
  simp only
  exact mkEnt_inv c hc _ _ _ _ _ _ this

theorem copyVis_inv : ∀ (fuel : Nat) (s : St) (h : Nat) (des : Int) (tgt : Option Nat), Inv s →
    Inv (copyVis s fuel h des tgt).1 := by
  intro fuel
  induction fuel with
  | zero => intro s h des tgt hi; simpa [copyVis] using hi
  | succ n ih =>
    intro s h des tgt hi
    unfold copyVis
    cases ho : s.objs h with
    | none => simpa using hi
    | some o =>
      simp only
      have hfold : Inv (o.kids.foldl (fun (acc : St × List Nat) ch =>
          match copyVis acc.1 n ch (-1) tgt with
          | (s', some h') => (s', acc.2 ++ [h'])
          | (s', none) => (s', acc.2)) (s, [])).1 := by
        apply foldl_inv_pair Inv
        · intro acc ch hacc
          have := ih acc.1 ch (-1) tgt hacc
          rcases hm : copyVis acc.1 n ch (-1) tgt with ⟨s', r⟩
          simp only [hm] at this
          cases r <;> simpa using this
        · exact hi
      have := allocObj_inv _ .vis (tgt.getD o.map) des
        (o.kids.foldl (fun (acc : St × List Nat) ch =>
          match copyVis acc.1 n ch (-1) tgt with
          | (s', some h') => (s', acc.2 ++ [h'])
          | (s', none) => (s', acc.2)) (s, [])).2 (by decide) hfold
      exact this

theorem parseSolid_inv (s : St) (m : Nat) (d : SolidDoc) (hi : Inv s) : Inv (parseSolid s m d).1 := by
  unfold parseSolid
  apply allocObj_inv _ _ _ _ _ (by decide)
  apply foldl_inv_pair Inv
  · intro acc i hacc
    have := allocObj_inv acc.1 .face m i [] (by decide) hacc
    rcases hm : allocObj acc.1 .face m i [] with ⟨s', h'⟩
    simp only [hm] at this
    simpa using this
  · exact hi

theorem parseSolids_inv (s : St) (m : Nat) (ds : List SolidDoc) (hi : Inv s) :
    Inv (parseSolids s m ds).1 := by
  unfold parseSolids
  apply foldl_inv_pair Inv
  · intro acc d hacc
    have := parseSolid_inv acc.1 m d hacc
    rcases hm : parseSolid acc.1 m d with ⟨s', h'⟩
    simp only [hm] at this
    simpa using this
  · exact hi

theorem parseVis_inv (s : St) (m : Nat) (l : List (Int × Nat)) (hi : Inv s) : Inv (parseVis s m l) := by
  unfold parseVis
  apply foldl_inv_pair Inv
  · intro acc e hacc
    have := allocObj_inv acc.1 .vis m e.1 ((acc.2.take (min e.2 acc.2.length)).reverse) (by decide) hacc
    rcases hm : allocObj acc.1 .vis m e.1 ((acc.2.take (min e.2 acc.2.length)).reverse) with ⟨s', h'⟩
    simp only [hm] at this
    simpa [hm] using this
  · exact hi


theorem parseEnt_inv (c : Cfg) (hc : c.discardGuard = true) (m : Nat) (s : St) (e : EntDoc) (hi : Inv s) :
    Inv (parseEnt c m s e) := by
  unfold parseEnt
  have ha := parseSolids_inv s m e.solids hi
  rcases hma : parseSolids s m e.solids with ⟨sa, solids⟩
  simp only [hma] at ha
  simp only
  have hb := mkEnt_inv c hc sa m e.id e.node solids e.fix ha
  rcases hmb : mkEnt c sa m e.id e.node solids e.fix with ⟨sb, h⟩
  simp only [hmb] at hb
  simp only
  cases sb.objs h with
  | none => exact hb
  | some o => exact addEnt_inv c hc sb h o hb

theorem parseDoc_inv (c : Cfg) (hc : c.discardGuard = true) (s : St) (d : Doc) (hi : Inv s) :
    Inv (parseDoc c s d) := by
  unfold parseDoc
  have h0 := newMap_inv s hi
  rcases hm0 : newMap s with ⟨s0, m⟩
  simp only [hm0] at h0
  simp only
  have h1 := parseVis_inv s0 m d.vis h0
  have h2 := parseSolids_inv _ m d.worldSolids h1
  rcases hm2 : parseSolids (parseVis s0 m d.vis) m d.worldSolids with ⟨s2, ws⟩
  simp only [hm2] at h2
  simp only
  have h3 : Inv (d.groups.foldl (fun s g => (allocObj s .group m g []).1) s2) :=
    foldl_inv Inv _ (fun s g hs => allocObj_inv s .group m g [] (by decide) hs) _ _ h2
  have h4 := mkEnt_inv c hc _ m d.worldId .absent [] [] h3
  rcases hm4 : mkEnt c (d.groups.foldl (fun s g => (allocObj s .group m g []).1) s2) m d.worldId .absent [] [] with ⟨s4, w⟩
  simp only [hm4] at h4
  simp only
  have h5 : Inv { s4 with pinned := w :: s4.pinned,
                          spawn := fun m' => if m' = m then w else s4.spawn m',
                          brushes := fun m' => if m' = m then ws else s4.brushes m' } :=
    inv_congr (s := s4) rfl rfl rfl h4
  have h6 := foldl_inv Inv _ (fun s e hs => parseEnt_inv c hc m s e hs) d.ents _ h5
  split
  · exact h6
  · exact inv_congr (s := List.foldl (parseEnt c m) _ d.ents) rfl rfl rfl h6


/-- the release sites / guards under which the invariant is inductive (the fixed source). -/
def Cfg.Sound (c : Cfg) : Prop :=
  c.removeEntDiscardsEntId = false ∧ c.removeEntDiscardsNodeId = false ∧ c.discardGuard = true ∧
    c.failedCtorReleases = false

theorem stepCore_inv (c : Cfg) (hs : c.Sound) (s : St) (op : Op) (hi : Inv s) : Inv (stepCore c s op) := by
  have hc := hs.2.2.1
  cases op with
  | newmap => exact newMap_inv s hi
  | ent r m des node solids fix =>
    simp only [stepCore]
    split
    · cases regHandles s solids .solid with
      | none => exact hi
      | some kids =>
        simp only
        have := mkEnt_inv c hc s m des node kids fix hi
        rcases hm : mkEnt c s m des node kids fix with ⟨s1, h⟩
        simp only [hm] at this
        exact bind_inv _ _ _ this
    · exact hi
  | addent r =>
    simp only [stepCore]
    cases regObj s r .ent with
    | none => exact hi
    | some p => exact addEnt_inv c hc s p.1 p.2 hi
  | rment r =>
    simp only [stepCore]
    cases regObj s r .ent with
    | none => exact hi
    | some p =>
      simp only
      split
      · exact hi
      · rw [removeEntRelease_inv c hs.1 hs.2.1]
        exact inv_congr (s := s) rfl rfl rfl hi
  | side r m des =>
    simp only [stepCore]
    split
    · have := allocObj_inv s .face m des [] (by decide) hi
      rcases hm : allocObj s .face m des [] with ⟨s1, h⟩
      simp only [hm] at this
      exact bind_inv _ _ _ this
    · exact hi
  | solid r m des sides =>
    simp only [stepCore]
    split
    · cases regHandles s sides .face with
      | none => exact hi
      | some kids =>
        simp only
        have := allocObj_inv s .solid m des kids (by decide) hi
        rcases hm : allocObj s .solid m des kids with ⟨s1, h⟩
        simp only [hm] at this
        exact bind_inv _ _ _ this
    · exact hi
  | addbrush r =>
    simp only [stepCore]
    cases regObj s r .solid with
    | none => exact hi
    | some p => exact inv_congr (s := s) rfl rfl rfl hi
  | rmbrush r =>
    simp only [stepCore]
    cases regObj s r .solid with
    | none => exact hi
    | some p => exact inv_congr (s := s) rfl rfl rfl hi
  | copy r' r des tgt =>
    simp only [stepCore]
    cases hr : regAny s r with
    | none => exact hi
    | some p =>
      rcases p with ⟨h, o⟩
      simp only
      split
      · cases hk : o.kind with
        | ent =>
          simp only
          have := copyEnt_inv c hc s h o des tgt hi
          rcases hm : copyEnt c s h o des tgt with ⟨s1, h'⟩
          simp only [hm] at this
          exact bind_inv _ _ _ this
        | solid =>
          simp only
          have := copySolid_inv s o des tgt hi
          rcases hm : copySolid s o des tgt with ⟨s1, h'⟩
          simp only [hm] at this
          exact bind_inv _ _ _ this
        | face =>
          simp only
          have := copySide_inv s o des tgt hi
          rcases hm : copySide s o des tgt with ⟨s1, h'⟩
          simp only [hm] at this
          exact bind_inv _ _ _ this
        | group =>
          simp only
          have := allocObj_inv s .group (tgt.getD o.map) o.id [] (by decide) hi
          rcases hm : allocObj s .group (tgt.getD o.map) o.id [] with ⟨s1, h'⟩
          simp only [hm] at this
          exact bind_inv _ _ _ this
        | vis =>
          simp only
          have := copyVis_inv 8 s h des tgt hi
          rcases hm : copyVis s 8 h des tgt with ⟨s1, r1⟩
          simp only [hm] at this
          cases r1 with
          | none => exact this
          | some h' => exact bind_inv _ _ _ this
        | node => exact hi
      · exact hi
  | drop r => exact inv_congr (s := s) rfl rfl rfl hi
  | kid r' r i =>
    simp only [stepCore]
    cases regAny s r with
    | none => exact hi
    | some p =>
      simp only
      cases (kidsSeen s p.1 p.2)[i]? with
      | none => exact hi
      | some h' => exact bind_inv _ _ _ hi
  | entat r' m i =>
    simp only [stepCore]
    cases (s.ents m)[i]? with
    | none => exact hi
    | some h => exact bind_inv _ _ _ hi
  | brushat r' m i =>
    simp only [stepCore]
    cases (s.brushes m)[i]? with
    | none => exact hi
    | some h => exact bind_inv _ _ _ hi
  | spawn r' m =>
    simp only [stepCore]
    split
    · exact bind_inv _ _ _ hi
    · exact hi
  | setnode r v =>
    simp only [stepCore]
    cases regObj s r .ent with
    | none => exact hi
    | some p =>
      cases v with
      | int n => exact nodeAssign_inv c hc s p.1 n hi
      | raw => exact nodeClear_inv c hc s p.1 true hi
      | absent => exact hi
  | delnode r =>
    simp only [stepCore]
    cases regObj s r .ent with
    | none => exact hi
    | some p => exact nodeClear_inv c hc s p.1 true hi
  | popnode r =>
    simp only [stepCore]
    cases regObj s r .ent with
    | none => exact hi
    | some p => exact nodeClear_inv c hc s p.1 _ hi
  | group r m des =>
    simp only [stepCore]
    split
    · have := allocObj_inv s .group m des [] (by decide) hi
      rcases hm : allocObj s .group m des [] with ⟨s1, h⟩
      simp only [hm] at this
      exact bind_inv _ _ _ this
    · exact hi
  | vis r m des kids =>
    simp only [stepCore]
    split
    · cases regHandles s kids .vis with
      | none => exact hi
      | some ks =>
        simp only
        have := allocObj_inv s .vis m des ks (by decide) hi
        rcases hm : allocObj s .vis m des ks with ⟨s1, h⟩
        simp only [hm] at this
        exact bind_inv _ _ _ this
    · exact hi
  | fxset r v =>
    simp only [stepCore]
    cases hr : regObj s r .ent with
    | none => exact hi
    | some p =>
      rcases p with ⟨h, o⟩
      have ho : s.objs h = some o := by
        unfold regObj at hr
        cases hreg : s.regs r with
        | none => simp [hreg] at hr
        | some h0 =>
          simp only [hreg] at hr
          cases hobj : s.objs h0 with
          | none => simp [hobj] at hr
          | some o0 =>
            simp only [hobj] at hr
            split at hr
            · cases hr; exact hobj
            · cases hr
      exact setFix_inv s h _ (fxSet_inv _ _ (hi.fix _ _ ho)) hi
  | fxdel r v =>
    simp only [stepCore]
    cases hr : regObj s r .ent with
    | none => exact hi
    | some p =>
      rcases p with ⟨h, o⟩
      have ho : s.objs h = some o := by
        unfold regObj at hr
        cases hreg : s.regs r with
        | none => simp [hreg] at hr
        | some h0 =>
          simp only [hreg] at hr
          cases hobj : s.objs h0 with
          | none => simp [hobj] at hr
          | some o0 =>
            simp only [hobj] at hr
            split at hr
            · cases hr; exact hobj
            · cases hr
      exact setFix_inv s h _ (fxDel_inv _ _ (hi.fix _ _ ho)) hi
  | parse d => exact parseDoc_inv c hc s d hi
  | failsolid m des =>
    simp only [stepCore]
    split
    · rename_i hcond
      rw [hs.2.2.2] at hcond
      exact absurd hcond.2 (by decide)
    · exact hi

  | failent m des =>
    simp only [stepCore]
    split
    · exact allocObj_inv s .ent m des [] (by decide) hi
    · exact hi
  | failside m des =>
    simp only [stepCore]
    split
    · exact allocObj_inv s .face m des [] (by decide) hi
    · exact hi

theorem step_inv (c : Cfg) (hs : c.Sound) (s : St) (op : Op) (hi : Inv s) : Inv (step c s op) :=
  collect_inv c hs.2.2.1 _ (stepCore_inv c hs s op hi)

theorem run_inv (c : Cfg) (hs : c.Sound) (ops : List Op) : Inv (run c ops) := by
  unfold run
  exact foldl_inv Inv (step c) (fun s op h => step_inv c hs s op h) ops _ inv_init

theorem mem_aliveObjs (s : St) (p : Nat × Obj) (hp : p ∈ aliveObjs s) :
    s.objs p.1 = some p.2 ∧ p.2.alive = true := by
  unfold aliveObjs at hp
  rcases List.mem_filterMap.mp hp with ⟨h, _, hh⟩
  cases ho : s.objs h with
  | none => simp [ho] at hh
  | some o =>
    simp only [ho] at hh
    split at hh
    · cases hh; exact ⟨ho, by assumption⟩
    · cases hh

end C08
