import Srctools.Model.C06
/-! # C06 — helper lemmas for the tree-level round trip -/
open C06
namespace C06


/-! ### integers -/

theorem showNat_all_digit (n : Nat) : (showNat n).all Char.isDigit = true := by
  simp only [showNat, List.all_eq_true]
  intro c hc
  exact Nat.isDigit_of_mem_toDigits (by decide) (by decide) hc

theorem showNat_ne_nil (n : Nat) : showNat n ≠ [] := Nat.toDigits_ne_nil

theorem parseNat_showNat (n : Nat) : parseNat? (showNat n) = some n := by
  have h1 := showNat_all_digit n
  have h2 : (showNat n).isEmpty = false := by
    cases h : showNat n with
    | nil => exact absurd h (showNat_ne_nil n)
    | cons a b => rfl
  unfold parseNat?
  rw [h1, h2]
  simp [showNat, Nat.ofDigitChars_ten_toDigits]

theorem showNat_head_digit (n : Nat) : ∃ c r, showNat n = c :: r ∧ c.isDigit = true := by
  cases h : showNat n with
  | nil => exact absurd h (showNat_ne_nil n)
  | cons a b =>
    refine ⟨a, b, rfl, ?_⟩
    have := showNat_all_digit n
    rw [h] at this
    simp at this
    exact this.1

theorem parseInt_showInt (i : Int) : parseInt? (showInt i) = some i := by
  cases i with
  | ofNat n =>
    obtain ⟨c, r, h, hd⟩ := showNat_head_digit n
    have hp := parseNat_showNat n
    simp only [showInt]
    rw [h] at hp ⊢
    have h1 : c ≠ '-' := by intro e; subst e; simp at hd
    have h2 : c ≠ '+' := by intro e; subst e; simp at hd
    unfold parseInt?
    split
    · rename_i heq; cases heq; exact absurd rfl h1
    · rename_i heq; cases heq; exact absurd rfl h2
    · simp [hp]
  | negSucc n =>
    simp only [showInt, parseInt?, parseNat_showNat]
    simp [Int.negSucc_eq]



/-! ### tokens and whitespace -/

/-- A numeric token: accepted by `float()`, non-empty, free of whitespace and brackets. -/
def TokOK (t : Str) : Bool :=
  isNum t && !t.isEmpty && t.all (fun c => !isWs c && !isOpenBr c && !isCloseBr c)

def NoWs (t : Str) : Prop := ∀ c ∈ t, isWs c = false

theorem tok_isNum {t} (h : TokOK t = true) : C06.isNum t = true := by
  simp [TokOK] at h; exact h.1.1
theorem tok_ne_nil {t} (h : TokOK t = true) : t ≠ [] := by
  simp [TokOK] at h; intro e; simp [e] at h
theorem tok_noWs {t} (h : TokOK t = true) : NoWs t := by
  simp [TokOK] at h; intro c hc; exact (h.2 c hc).1.1
theorem tok_noOpen {t} (h : TokOK t = true) : ∀ c ∈ t, isOpenBr c = false := by
  simp [TokOK] at h; intro c hc; exact (h.2 c hc).1.2
theorem tok_noClose {t} (h : TokOK t = true) : ∀ c ∈ t, isCloseBr c = false := by
  simp [TokOK] at h; intro c hc; exact (h.2 c hc).2

theorem splitWsAux_tok (t : Str) (ht : NoWs t) (rest cur : Str) :
    splitWsAux (t ++ rest) cur = splitWsAux rest (t.reverse ++ cur) := by
  induction t generalizing cur with
  | nil => rfl
  | cons c cs ih =>
    have hc : isWs c = false := ht c (by simp)
    have hcs : NoWs cs := fun d hd => ht d (by simp [hd])
    simp only [List.cons_append, splitWsAux, hc, Bool.false_eq_true, if_false]
    rw [ih hcs]
    simp

theorem splitWs_unwords (toks : List Str) (h : ∀ t ∈ toks, t ≠ [] ∧ NoWs t) :
    splitWs (unwords toks) = toks := by
  unfold splitWs
  induction toks with
  | nil => rfl
  | cons a r ih =>
    have ha := h a (by simp)
    have hr : ∀ t ∈ r, t ≠ [] ∧ NoWs t := fun t ht => h t (by simp [ht])
    cases r with
    | nil =>
      simp only [unwords, joinWith]
      have := splitWsAux_tok a ha.2 [] []
      simp only [List.append_nil] at this
      rw [this]
      cases hrev : a.reverse with
      | nil => simp at hrev; exact absurd hrev ha.1
      | cons x y => simp [splitWsAux, ← hrev, ha.1]
    | cons b r' =>
      simp only [unwords, joinWith, sp] at ih ⊢
      rw [List.append_assoc, splitWsAux_tok a ha.2]
      simp only [List.append_nil, List.cons_append, List.nil_append]
      have hws : isWs ' ' = true := by decide
      cases hrev : a.reverse with
      | nil => simp at hrev; exact absurd hrev ha.1
      | cons x y =>
        simp only [splitWsAux, hws, if_true, List.isEmpty_cons, Bool.false_eq_true, if_false]
        rw [ih hr, ← hrev]
        simp

theorem stripL_cons {c : Char} {r : Str} (h : isWs c = false) : stripL (c :: r) = c :: r := by
  simp [stripL, List.dropWhile, h]

theorem strip_of_ends (s : Str) (c : Char) (r : Str) (d : Char) (q : Str)
    (h1 : s = c :: r) (h2 : s.reverse = d :: q) (hc : isWs c = false) (hd : isWs d = false) :
    strip s = s := by
  unfold strip
  rw [h1, stripL_cons hc, ← h1, h2, stripL_cons hd, ← h2]
  simp

theorem head_of_append {a : Str} (h : a ≠ []) (rest : Str) : ∃ c r, a ++ rest = c :: r ∧ c ∈ a := by
  cases a with
  | nil => exact absurd rfl h
  | cons c cs => exact ⟨c, cs ++ rest, rfl, by simp⟩

theorem last_of_append {z : Str} (h : z ≠ []) (pre : Str) :
    ∃ d q, (pre ++ z).reverse = d :: q ∧ d ∈ z := by
  have hz : z.reverse ≠ [] := by simpa using h
  obtain ⟨d, q, hq, hd⟩ := head_of_append hz pre.reverse
  exact ⟨d, q, by simpa using hq, by simpa using hd⟩

def V3OK (v : V3) : Bool := TokOK v.x && TokOK v.y && TokOK v.z

theorem v3ok_parts {v : V3} (h : V3OK v = true) : TokOK v.x = true ∧ TokOK v.y = true ∧ TokOK v.z = true := by
  simp [V3OK] at h; exact ⟨h.1.1, h.1.2, h.2⟩

theorem V3.str_eq (v : V3) : v.str = v.x ++ (' ' :: (v.y ++ (' ' :: v.z))) := by
  simp [V3.str, V3.toks, unwords, joinWith, sp]

theorem splitWs_v3 {v : V3} (h : V3OK v = true) : splitWs v.str = [v.x, v.y, v.z] := by
  obtain ⟨hx, hy, hz⟩ := v3ok_parts h
  have := splitWs_unwords [v.x, v.y, v.z] (by
    intro t ht
    simp at ht
    rcases ht with rfl | rfl | rfl
    · exact ⟨(tok_ne_nil hx), (tok_noWs hx)⟩
    · exact ⟨(tok_ne_nil hy), (tok_noWs hy)⟩
    · exact ⟨(tok_ne_nil hz), (tok_noWs hz)⟩)
  simpa [V3.str, V3.toks] using this

theorem vec3Of_split (d v : V3) (h : V3OK v = true) : vec3Of d (splitWs v.str) = v := by
  obtain ⟨hx, hy, hz⟩ := v3ok_parts h
  rw [splitWs_v3 h]
  simp [vec3Of, (tok_isNum hx), (tok_isNum hy), (tok_isNum hz)]

theorem parseV3_str (d v : V3) (h : V3OK v = true) : parseV3 d v.str = v := by
  obtain ⟨hx, hy, hz⟩ := v3ok_parts h
  obtain ⟨c, r, h1, hc⟩ := head_of_append (tok_ne_nil hx) (' ' :: (v.y ++ (' ' :: v.z)))
  obtain ⟨e, q, h2, he⟩ := last_of_append (tok_ne_nil hz) (v.x ++ (' ' :: (v.y ++ [' '])))
  have hs : v.str = c :: r := by rw [V3.str_eq]; exact h1
  have hr : v.str.reverse = e :: q := by
    rw [V3.str_eq]; simpa using h2
  unfold parseV3
  rw [strip_of_ends v.str c r e q hs hr ((tok_noWs hx) c hc) ((tok_noWs hz) e he)]
  have step1 : dropOpenBr v.str = v.str := by
    rw [hs]; simp [dropOpenBr, (tok_noOpen hx) c hc]
  have step2 : dropLastIf isCloseBr v.str = v.str := by
    unfold dropLastIf; rw [hr]; simp [(tok_noClose hz) e he]
  rw [step1, step2]
  exact vec3Of_split d v h

theorem parseV3_wrap (d v : V3) (o c : Char) (h : V3OK v = true)
    (ho : isOpenBr o = true) (hc : isCloseBr c = true) (wo : isWs o = false) (wc : isWs c = false) :
    parseV3 d (wrap o c v.str) = v := by
  unfold parseV3
  rw [strip_of_ends (wrap o c v.str) o (v.str ++ [c]) c (v.str.reverse ++ [o]) rfl (by simp [wrap]) wo wc]
  have step1 : dropOpenBr (wrap o c v.str) = v.str ++ [c] := by
    simp [wrap, dropOpenBr, ho]
  have step2 : dropLastIf isCloseBr (v.str ++ [c]) = v.str := by
    unfold dropLastIf; simp [hc]
  rw [step1, step2]
  exact vec3Of_split d v h




/-! ### generic list lemmas -/

theorem findLast_append {α} (p : α → Bool) (a b : List α) :
    findLast p (a ++ b) = match findLast p b with
      | some r => some r
      | none => findLast p a := by
  induction a with
  | nil => simp [findLast]; cases findLast p b <;> rfl
  | cons x xs ih =>
    simp only [List.cons_append, findLast, ih]
    cases findLast p b <;> rfl

theorem findLast_none_of_all {α} (p : α → Bool) (l : List α) (h : ∀ x ∈ l, p x = false) :
    findLast p l = none := by
  induction l with
  | nil => rfl
  | cons x xs ih =>
    simp only [findLast, ih (fun y hy => h y (by simp [hy])), h x (by simp)]
    simp

theorem findLast_append_right_none {α} (p : α → Bool) (a b : List α) (h : ∀ x ∈ b, p x = false) :
    findLast p (a ++ b) = findLast p a := by
  rw [findLast_append, findLast_none_of_all p b h]

theorem findLast_append_left_none {α} (p : α → Bool) (a b : List α) (h : ∀ x ∈ a, p x = false) :
    findLast p (a ++ b) = findLast p b := by
  rw [findLast_append, findLast_none_of_all p a h]
  cases findLast p b <;> rfl

theorem mapM_map_ok {α β γ} (f : α → β) (g : β → Except Err γ) (h : α → γ) (l : List α)
    (hl : ∀ a ∈ l, g (f a) = .ok (h a)) : (l.map f).mapM g = .ok (l.map h) := by
  induction l with
  | nil => rfl
  | cons a r ih =>
    simp only [List.map_cons, List.mapM_cons, hl a (by simp), ih (fun b hb => hl b (by simp [hb]))]
    rfl

theorem filter_map_all {α β} (f : α → β) (p : β → Bool) (l : List α) (h : ∀ a ∈ l, p (f a) = true) :
    (l.map f).filter p = l.map f := by
  induction l with
  | nil => rfl
  | cons a r ih => simp [h a (by simp), ih (fun b hb => h b (by simp [hb]))]

theorem filter_map_none {α β} (f : α → β) (p : β → Bool) (l : List α) (h : ∀ a ∈ l, p (f a) = false) :
    (l.map f).filter p = [] := by
  induction l with
  | nil => rfl
  | cons a r ih => simp [h a (by simp), ih (fun b hb => h b (by simp [hb]))]



/-- unfolding set for lookups on literal keys -/
macro "kv_simp" : tactic => `(tactic|
  simp [getV3, getInt, getBool, getFloat, getLeaf, getBlock, hasBlock, findKey, findLast, named, KV.fname, KV.name,
        KV.kids, kLeaf, kBlock, kInt, kBool, KV.isBlock, lower])

def CamOK (c : Cam) : Bool := V3OK c.pos && V3OK c.look

theorem parseCam_export (c : Cam) (h : CamOK c = true) : parseCam (exportCam c) = .ok c := by
  simp [CamOK] at h
  simp only [exportCam, kBlock, parseCam]
  have e1 : getV3 "position" v3zero [kLeaf "position" (wrap '[' ']' c.pos.str), kLeaf "look" (wrap '[' ']' c.look.str)] = c.pos := by
    kv_simp
    exact parseV3_wrap _ _ _ _ h.1 (by decide) (by decide) (by decide) (by decide)
  have e2 : getV3 "look" (mkV3 0 64 0) [kLeaf "position" (wrap '[' ']' c.pos.str), kLeaf "look" (wrap '[' ']' c.look.str)] = c.look := by
    kv_simp
    exact parseV3_wrap _ _ _ _ h.2 (by decide) (by decide) (by decide) (by decide)
  rw [e1, e2]




def CordonOK (c : Cordon) : Bool := V3OK c.min && V3OK c.max

theorem boolLookup_boolStr (b : Bool) : boolLookup (boolStr b) = some b := by
  cases b <;> decide

theorem parseCordon_export (c : Cordon) (h : CordonOK c = true) : parseCordon (exportCordon c) = .ok c := by
  simp [CordonOK] at h
  simp only [exportCordon, kBlock, parseCordon]
  have e0 : getBlock "box" [kLeaf "name" c.name, kBool "active" c.active,
      KV.block "box".toList [kLeaf "mins" (wrap '(' ')' c.min.str), kLeaf "maxs" (wrap '(' ')' c.max.str)]]
      = [kLeaf "mins" (wrap '(' ')' c.min.str), kLeaf "maxs" (wrap '(' ')' c.max.str)] := by kv_simp
  rw [e0]
  have e1 : getV3 "mins" v3zero [kLeaf "mins" (wrap '(' ')' c.min.str), kLeaf "maxs" (wrap '(' ')' c.max.str)] = c.min := by
    kv_simp
    exact parseV3_wrap _ _ _ _ h.1 (by decide) (by decide) (by decide) (by decide)
  have e2 : getV3 "maxs" (mkV3 128 128 128) [kLeaf "mins" (wrap '(' ')' c.min.str), kLeaf "maxs" (wrap '(' ')' c.max.str)] = c.max := by
    kv_simp
    exact parseV3_wrap _ _ _ _ h.2 (by decide) (by decide) (by decide) (by decide)
  rw [e1, e2]
  have e3 : getLeaf "name" [kLeaf "name" c.name, kBool "active" c.active,
      KV.block "box".toList [kLeaf "mins" (wrap '(' ')' c.min.str), kLeaf "maxs" (wrap '(' ')' c.max.str)]] = some c.name := by kv_simp
  have e4 : getBool "active" false [kLeaf "name" c.name, kBool "active" c.active,
      KV.block "box".toList [kLeaf "mins" (wrap '(' ')' c.min.str), kLeaf "maxs" (wrap '(' ')' c.max.str)]] = c.active := by
    kv_simp
    simp [boolLookup_boolStr]
  rw [e3, e4]
  rfl

def GroupOK (g : Group) : Bool := V3OK g.color

theorem parseGroup_export (g : Group) (h : GroupOK g = true) : parseGroup (exportGroup g) = .ok g := by
  simp only [GroupOK] at h
  simp only [exportGroup, kBlock, parseGroup]
  have e0 : getBlock "editor" [kInt "id" g.id, KV.block "editor".toList
      [kBool "visgroupshown" g.shown, kBool "visgroupautoshown" g.auto, kLeaf "color" g.color.str]]
      = [kBool "visgroupshown" g.shown, kBool "visgroupautoshown" g.auto, kLeaf "color" g.color.str] := by kv_simp
  rw [e0]
  have e1 : getInt "id" (-1) [kInt "id" g.id, KV.block "editor".toList
      [kBool "visgroupshown" g.shown, kBool "visgroupautoshown" g.auto, kLeaf "color" g.color.str]] = g.id := by
    kv_simp
    simp [parseInt_showInt]
  have e2 : getBool "visgroupshown" true [kBool "visgroupshown" g.shown, kBool "visgroupautoshown" g.auto, kLeaf "color" g.color.str] = g.shown := by
    kv_simp; simp [boolLookup_boolStr]
  have e3 : getBool "visgroupautoshown" true [kBool "visgroupshown" g.shown, kBool "visgroupautoshown" g.auto, kLeaf "color" g.color.str] = g.auto := by
    kv_simp; simp [boolLookup_boolStr]
  have e4 : getV3 "color" v3white [kBool "visgroupshown" g.shown, kBool "visgroupautoshown" g.auto, kLeaf "color" g.color.str] = g.color := by
    kv_simp; exact parseV3_str _ _ h
  rw [e1, e2, e3, e4]



mutual
def VisOK : Vis → Bool
  | .mk _ _ color children => V3OK color && VisListOK children
def VisListOK : List Vis → Bool
  | [] => true
  | v :: vs => VisOK v && VisListOK vs
end

theorem exportVisList_blocks (vs : List Vis) :
    ∀ k ∈ exportVisAux.exportVisList vs, k.isBlock = true ∧ named "visgroup" k = true := by
  induction vs with
  | nil => intro k hk; simp [exportVisAux.exportVisList] at hk
  | cons v r ih =>
    intro k hk
    simp only [exportVisAux.exportVisList, List.mem_cons] at hk
    rcases hk with rfl | hk
    · cases v with
      | mk n i c ch => simp [exportVisAux, KV.isBlock, named, KV.fname, KV.name, lit, lower]
    · exact ih k hk

theorem getLeaf_append_blocks (key : String) (a b : List KV) (hb : ∀ k ∈ b, k.isBlock = true) :
    getLeaf key (a ++ b) = getLeaf key a := by
  unfold getLeaf
  rw [findLast_append_right_none]
  intro x hx
  simp [hb x hx]

mutual
theorem parseVis_export : (v : Vis) → VisOK v = true → parseVisAux (exportVisAux v) = .ok v
  | .mk name id color children, h => by
    simp only [VisOK, Bool.and_eq_true] at h
    have hb := exportVisList_blocks children
    have hbl : ∀ k ∈ exportVisAux.exportVisList children, k.isBlock = true := fun k hk => (hb k hk).1
    simp only [exportVisAux, parseVisAux]
    have e1 : getInt "visgroupid" (-1) (kLeaf "name" name :: kInt "visgroupid" id :: kLeaf "color" color.str ::
        exportVisAux.exportVisList children) = id := by
      unfold getInt
      have := getLeaf_append_blocks "visgroupid" [kLeaf "name" name, kInt "visgroupid" id, kLeaf "color" color.str] _ hbl
      simp only [List.cons_append, List.nil_append] at this
      rw [this]
      kv_simp
      simp [parseInt_showInt]
    have e2 : getLeaf "name" (kLeaf "name" name :: kInt "visgroupid" id :: kLeaf "color" color.str ::
        exportVisAux.exportVisList children) = some name := by
      have := getLeaf_append_blocks "name" [kLeaf "name" name, kInt "visgroupid" id, kLeaf "color" color.str] _ hbl
      simp only [List.cons_append, List.nil_append] at this
      rw [this]
      kv_simp
    have e3 : getV3 "color" v3white (kLeaf "name" name :: kInt "visgroupid" id :: kLeaf "color" color.str ::
        exportVisAux.exportVisList children) = color := by
      unfold getV3
      have := getLeaf_append_blocks "color" [kLeaf "name" name, kInt "visgroupid" id, kLeaf "color" color.str] _ hbl
      simp only [List.cons_append, List.nil_append] at this
      rw [this]
      kv_simp
      exact parseV3_str _ _ h.1
    rw [e1, e2, e3]
    have e4 : parseVisAux.parseVisList (kLeaf "name" name :: kInt "visgroupid" id :: kLeaf "color" color.str ::
        exportVisAux.exportVisList children) = .ok children := by
      simp only [parseVisAux.parseVisList]
      have n1 : named "visgroup" (kLeaf "name" name) = false := by kv_simp
      have n2 : named "visgroup" (kInt "visgroupid" id) = false := by kv_simp
      have n3 : named "visgroup" (kLeaf "color" color.str) = false := by kv_simp
      simp only [n1, n2, n3, Bool.false_eq_true, if_false]
      exact parseVisList_export children h.2
    rw [e4]
    rfl
theorem parseVisList_export : (vs : List Vis) → VisListOK vs = true →
    parseVisAux.parseVisList (exportVisAux.exportVisList vs) = .ok vs
  | [], _ => rfl
  | v :: vs, h => by
    simp only [VisListOK, Bool.and_eq_true] at h
    have hn : named "visgroup" (exportVisAux v) = true := (exportVisList_blocks [v] _ (by simp [exportVisAux.exportVisList])).2
    simp only [exportVisAux.exportVisList, parseVisAux.parseVisList, hn, if_true]
    rw [parseVis_export v h.1, parseVisList_export vs h.2]
    rfl
end



theorem splitOnAux_pre (sep : Char) (s rest cur : Str) (h : sep ∉ s) :
    splitOnAux sep (s ++ rest) cur = splitOnAux sep rest (s.reverse ++ cur) := by
  induction s generalizing cur with
  | nil => rfl
  | cons c cs ih =>
    have hc : (c == sep) = false := by
      simp only [beq_eq_false_iff_ne, ne_eq]; intro e; exact h (by simp [e])
    have hcs : sep ∉ cs := fun hm => h (by simp [hm])
    simp only [List.cons_append, splitOnAux, hc, Bool.false_eq_true, if_false]
    rw [ih _ hcs]; simp

theorem splitOn_single (sep : Char) (s : Str) (h : sep ∉ s) : splitOn sep s = [s] := by
  have := splitOnAux_pre sep s [] [] h
  simp only [List.append_nil] at this
  simp [splitOn, this, splitOnAux]

theorem splitOn_cons (sep : Char) (a rest : Str) (h : sep ∉ a) :
    splitOn sep (a ++ sep :: rest) = a :: splitOn sep rest := by
  unfold splitOn
  rw [splitOnAux_pre sep a _ [] h]
  simp [splitOnAux]

theorem splitFirst_pre (sep : Char) (s rest cur : Str) (h : sep ∉ s) :
    splitFirst sep (s ++ sep :: rest) cur = ((s.reverse ++ cur).reverse, some rest) := by
  induction s generalizing cur with
  | nil => simp [splitFirst]
  | cons c cs ih =>
    have hc : (c == sep) = false := by
      simp only [beq_eq_false_iff_ne, ne_eq]; intro e; exact h (by simp [e])
    have hcs : sep ∉ cs := fun hm => h (by simp [hm])
    simp only [List.cons_append, splitFirst, hc, Bool.false_eq_true, if_false]
    rw [ih _ hcs]; simp

theorem showInt_chars (i : Int) : ∀ c ∈ showInt i, c.isDigit = true ∨ c = '-' := by
  intro c hc
  cases i with
  | ofNat n =>
    left
    have := showNat_all_digit n
    simp only [List.all_eq_true] at this
    exact this c hc
  | negSucc n =>
    simp only [showInt, List.mem_cons] at hc
    rcases hc with rfl | hc
    · right; rfl
    · left
      have := showNat_all_digit (n + 1)
      simp only [List.all_eq_true] at this
      exact this c hc

theorem notMem_showInt (c : Char) (i : Int) (h1 : c.isDigit = false) (h2 : c ≠ '-') : c ∉ showInt i := by
  intro hm
  rcases showInt_chars i c hm with h | h
  · simp [h] at h1
  · exact h2 h

/-- A name that `Output.parse_name` reads back unchanged: no `instance:` prefix. -/
def PlainName (n : Str) : Bool := !(lit "instance:").isPrefixOf (lower n)

/-- An instance-name part: non-empty, no `;`. -/
def InstOK (i : Str) : Bool := !i.contains ';'

def nameOK (inst : Option Str) (name : Str) : Bool :=
  match inst with
  | some i => if i.isEmpty then PlainName name else InstOK i
  | none => PlainName name

def normInst (inst : Option Str) : Option Str :=
  match inst with
  | some i => if i.isEmpty then none else some i
  | none => none

theorem lower_append (a b : Str) : lower (a ++ b) = lower a ++ lower b := by simp [lower]

theorem parseName_expName (inst : Option Str) (name : Str) (h : nameOK inst name = true) :
    parseName (expName inst name) = .ok (normInst inst, name) := by
  cases inst with
  | none =>
    simp only [nameOK, PlainName, Bool.not_eq_true'] at h
    simp [expName, parseName, h, normInst]
  | some i =>
    by_cases hi : i.isEmpty = true
    · simp only [nameOK, hi, if_true, PlainName, Bool.not_eq_true'] at h
      simp [expName, parseName, h, normInst, hi]
    · simp only [nameOK, hi, Bool.false_eq_true, if_false, InstOK, Bool.not_eq_true'] at h
      have hi' : i.isEmpty = false := by simpa using hi
      simp only [expName, hi', Bool.false_eq_true, if_false, parseName, normInst]
      have hp : (lit "instance:").isPrefixOf (lower (lit "instance:" ++ i ++ ';' :: name)) = true := by
        rw [List.append_assoc, lower_append]
        have : lower (lit "instance:") = lit "instance:" := by decide
        rw [this]
        simp [List.isPrefixOf_iff_prefix]
      rw [hp]
      simp only [if_true]
      have hs : ';' ∉ lit "instance:" ++ i := by
        simp only [List.mem_append, not_or]
        refine ⟨by decide, ?_⟩
        simpa [List.contains_iff_mem] using h
      rw [splitFirst_pre ';' (lit "instance:" ++ i) name [] hs]
      simp [lit]




def expIn (o : Out) : Str := expName o.instIn o.input

def OutOK (o : Out) : Bool :=
  nameOK o.instOut o.output && nameOK o.instIn o.input && isNum o.delay &&
  [o.target, expIn o, o.params, o.delay].all (fun f => !f.contains '\x1b' && (!o.comma || !f.contains ','))

theorem projOut_eq (o : Out) : projOut o = { o with instOut := normInst o.instOut, instIn := normInst o.instIn } := by
  cases o with
  | mk output instOut target input instIn params delay times comma =>
    cases instOut <;> cases instIn <;> simp [projOut, normInst]

theorem parseOut_export (o : Out) (h : OutOK o = true) : parseOut (exportOut o) = .ok (projOut o) := by
  simp only [OutOK, Bool.and_eq_true, List.all_cons, List.all_nil, Bool.and_true, Bool.not_eq_true',
    Bool.or_eq_true, List.contains_eq_mem, decide_eq_false_iff_not] at h
  obtain ⟨⟨⟨hn1, hn2⟩, hd⟩, ⟨ht1, ht2⟩, ⟨hi1, hi2⟩, ⟨hp1, hp2⟩, ⟨hd1, hd2⟩⟩ := h
  have hte : ('\x1b' : Char) ∉ showInt o.times := notMem_showInt _ _ (by decide) (by decide)
  have htc : (',' : Char) ∉ showInt o.times := notMem_showInt _ _ (by decide) (by decide)
  rw [projOut_eq]
  unfold exportOut parseOut
  simp only [expIn] at hi1 hi2
  cases hc : o.comma with
  | false =>
    have hsep : outSep false = '\x1b' := rfl
    simp only [hsep, List.append_assoc, List.singleton_append]
    have hesc : outEsc (o.target ++ '\x1b' :: (expName o.instIn o.input ++ '\x1b' :: (o.params ++ '\x1b' :: (o.delay ++ '\x1b' :: showInt o.times)))) = true := by
      simp [outEsc]
    have hv : outVals (o.target ++ '\x1b' :: (expName o.instIn o.input ++ '\x1b' :: (o.params ++ '\x1b' :: (o.delay ++ '\x1b' :: showInt o.times))))
        = [o.target, expName o.instIn o.input, o.params, o.delay, showInt o.times] := by
      unfold outVals
      rw [hesc]
      simp only [if_true]
      rw [splitOn_cons _ _ _ ht1, splitOn_cons _ _ _ hi1, splitOn_cons _ _ _ hp1, splitOn_cons _ _ _ hd1,
        splitOn_single _ _ hte]
    simp only [List.cons_append]
    rw [hv, hesc]
    simp only [outFields, outBuild]
    rw [parseName_expName _ _ hn1]
    simp only []
    rw [parseName_expName _ _ hn2]
    simp [hd, parseInt_showInt]
  | true =>
    have hsep : outSep true = ',' := rfl
    replace ht2 : ',' ∉ o.target := by simpa [hc] using ht2
    replace hi2 : ',' ∉ expName o.instIn o.input := by simpa [hc] using hi2
    replace hp2 : ',' ∉ o.params := by simpa [hc] using hp2
    replace hd2 : ',' ∉ o.delay := by simpa [hc] using hd2
    simp only [hsep, List.append_assoc, List.singleton_append]
    have hesc : outEsc (o.target ++ ',' :: (expName o.instIn o.input ++ ',' :: (o.params ++ ',' :: (o.delay ++ ',' :: showInt o.times)))) = false := by
      simp [outEsc, ht1, hi1, hp1, hd1, hte]
    have hv : outVals (o.target ++ ',' :: (expName o.instIn o.input ++ ',' :: (o.params ++ ',' :: (o.delay ++ ',' :: showInt o.times))))
        = [o.target, expName o.instIn o.input, o.params, o.delay, showInt o.times] := by
      unfold outVals
      rw [hesc]
      simp only [Bool.false_eq_true, if_false]
      rw [splitOn_cons _ _ _ ht2, splitOn_cons _ _ _ hi2, splitOn_cons _ _ _ hp2, splitOn_cons _ _ _ hd2,
        splitOn_single _ _ htc]
    simp only [List.cons_append]
    rw [hv, hesc]
    simp only [outFields, outBuild]
    rw [parseName_expName _ _ hn1]
    simp only []
    rw [parseName_expName _ _ hn2]
    simp [hd, parseInt_showInt]




theorem splitSubAux_pre (p : Char) (ps : Str) (s rest cur : Str) (n : Nat) (h : p ∉ s) :
    splitSubAux (p :: ps) (n + s.length) (s ++ rest) cur = splitSubAux (p :: ps) n rest (s.reverse ++ cur) := by
  induction s generalizing cur with
  | nil => rfl
  | cons c cs ih =>
    have hc : c ≠ p := fun e => h (by simp [e])
    have hcs : p ∉ cs := fun hm => h (by simp [hm])
    have hpre : (p :: ps).isPrefixOf (c :: (cs ++ rest)) = false := by
      simp [List.isPrefixOf, Ne.symm hc]
    simp only [List.length_cons, ← Nat.add_assoc, List.cons_append, splitSubAux, hpre, Bool.false_eq_true, if_false]
    rw [ih _ hcs]; simp

theorem splitSubAux_match (pat rest cur : Str) (n : Nat) (hp : pat ≠ []) :
    splitSubAux pat (n + 1) (pat ++ rest) cur = cur.reverse :: splitSubAux pat n rest [] := by
  cases pat with
  | nil => exact absurd rfl hp
  | cons p ps =>
    have hpre : (p :: ps).isPrefixOf (p :: (ps ++ rest)) = true := by
      simp [List.isPrefixOf_iff_prefix]
    simp only [List.cons_append, splitSubAux, hpre, if_true]
    simp

theorem splitSubAux_end (p : Char) (ps : Str) (s cur : Str) (n : Nat) (h : p ∉ s) :
    splitSubAux (p :: ps) (n + s.length) s cur = [(s.reverse ++ cur).reverse] := by
  have := splitSubAux_pre p ps s [] cur n h
  simp only [List.append_nil] at this
  rw [this]
  cases n <;> simp [splitSubAux]

theorem splitSub_three (p : Char) (ps : Str) (a b c : Str) (ha : p ∉ a) (hb : p ∉ b) (hc : p ∉ c) :
    splitSub (p :: ps) (a ++ ((p :: ps) ++ (b ++ ((p :: ps) ++ c)))) = [a, b, c] := by
  unfold splitSub
  have hl : (a ++ ((p :: ps) ++ (b ++ ((p :: ps) ++ c)))).length + 1
      = ((((c.length + 1) + 1 + b.length) + 1) + a.length) + (2 * ps.length) := by
    simp only [List.length_append, List.length_cons]; omega
  rw [hl]
  -- extra fuel is harmless: generalise the surplus
  have key : ∀ extra : Nat,
      splitSubAux (p :: ps) (((((extra + c.length) + 1) + b.length) + 1) + a.length)
        (a ++ ((p :: ps) ++ (b ++ ((p :: ps) ++ c)))) [] = [a, b, c] := by
    intro extra
    rw [splitSubAux_pre p ps a _ [] _ ha]
    rw [splitSubAux_match (p :: ps) _ _ _ (by simp)]
    rw [splitSubAux_pre p ps b _ [] _ hb]
    rw [splitSubAux_match (p :: ps) _ _ _ (by simp)]
    rw [splitSubAux_end p ps c [] _ hc]
    simp
  have := key (2 * ps.length + 1)
  have e : ((((c.length + 1) + 1 + b.length) + 1) + a.length) + (2 * ps.length)
      = ((((2 * ps.length + 1 + c.length) + 1) + b.length) + 1) + a.length := by omega
  rw [e]; exact this



def UVOK (a : UV) : Bool := TokOK a.x && TokOK a.y && TokOK a.z && TokOK a.offset && TokOK a.scale

theorem dropWhile_eq_self_of_head {p : Char → Bool} {s : Str} {c : Char} {r : Str} (h : s = c :: r) (hc : p c = false) :
    s.dropWhile p = s := by
  subst h; simp [List.dropWhile, hc]

theorem lstripC_bracket (x : Str) (hx : TokOK x = true) : lstripC '[' ('[' :: x) = x := by
  obtain ⟨c, r, h1, hc⟩ := head_of_append (tok_ne_nil hx) []
  simp only [List.append_nil] at h1
  have ho := tok_noOpen hx c hc
  have : (c == '[') = false := by
    simp only [beq_eq_false_iff_ne, ne_eq]; intro e; subst e; simp [isOpenBr] at ho
  simp only [lstripC, List.dropWhile, beq_self_eq_true]
  exact dropWhile_eq_self_of_head h1 this

theorem rstripC_bracket (x : Str) (hx : TokOK x = true) : rstripC ']' (x ++ [']']) = x := by
  obtain ⟨c, r, h1, hc⟩ := last_of_append (tok_ne_nil hx) []
  simp only [List.nil_append] at h1
  have ho := tok_noClose hx c hc
  have : (c == ']') = false := by
    simp only [beq_eq_false_iff_ne, ne_eq]; intro e; subst e; simp [isCloseBr] at ho
  simp only [rstripC, List.reverse_append, List.reverse_cons, List.reverse_nil, List.nil_append,
    List.singleton_append, List.dropWhile, beq_self_eq_true]
  rw [dropWhile_eq_self_of_head h1 this]
  simp

theorem noWs_cons {c : Char} {x : Str} (hc : isWs c = false) (hx : NoWs x) : NoWs (c :: x) := by
  intro d hd
  simp only [List.mem_cons] at hd
  rcases hd with rfl | hd
  · exact hc
  · exact hx d hd

theorem noWs_snoc {c : Char} {x : Str} (hc : isWs c = false) (hx : NoWs x) : NoWs (x ++ [c]) := by
  intro d hd
  simp only [List.mem_append, List.mem_singleton] at hd
  rcases hd with hd | rfl
  · exact hx d hd
  · exact hc

theorem UV.str_eq (a : UV) : a.str = unwords ['[' :: a.x, a.y, a.z, a.offset ++ [']'], a.scale] := by
  simp [UV.str, wrap, unwords, joinWith, sp]

theorem parseUV_str (a : UV) (h : UVOK a = true) : parseUV a.str = .ok a := by
  simp only [UVOK, Bool.and_eq_true] at h
  obtain ⟨⟨⟨⟨hx, hy⟩, hz⟩, ho⟩, hs⟩ := h
  rw [UV.str_eq, parseUV, splitWs_unwords]
  · simp only []
    rw [lstripC_bracket _ hx, rstripC_bracket _ ho]
    simp [tok_isNum hx, tok_isNum hy, tok_isNum hz, tok_isNum ho, tok_isNum hs]
  · intro t ht
    simp only [List.mem_cons, List.mem_nil_iff, or_false] at ht
    rcases ht with rfl | rfl | rfl | rfl | rfl
    · exact ⟨by simp, noWs_cons (by decide) (tok_noWs hx)⟩
    · exact ⟨tok_ne_nil hy, tok_noWs hy⟩
    · exact ⟨tok_ne_nil hz, tok_noWs hz⟩
    · exact ⟨by simp, noWs_snoc (by decide) (tok_noWs ho)⟩
    · exact ⟨tok_ne_nil hs, tok_noWs hs⟩

/-- `)` does not occur in the text of a vector of tokens. -/
theorem v3_no_close (v : V3) (h : V3OK v = true) : ')' ∉ v.str := by
  obtain ⟨hx, hy, hz⟩ := v3ok_parts h
  rw [V3.str_eq]
  intro hm
  simp only [List.mem_append, List.mem_cons] at hm
  have nc : ∀ t, TokOK t = true → ')' ∉ t := by
    intro t ht hm
    have := tok_noClose ht _ hm
    simp [isCloseBr] at this
  rcases hm with hm | hm | hm | hm | hm
  · exact nc _ hx hm
  · exact absurd hm (by decide)
  · exact nc _ hy hm
  · exact absurd hm (by decide)
  · exact nc _ hz hm




/-- v1: a face without displacement and without Strata point data. -/
def SideOK1 (s : Side) : Bool :=
  V3OK s.p0 && V3OK s.p1 && V3OK s.p2 && UVOK s.uaxis && UVOK s.vaxis && isNum s.rot &&
  s.points.isNone && s.disp.isNone

def sideLeaves (s : Side) : List KV := [
    kInt "id" s.id,
    kLeaf "plane" (wrap '(' ')' s.p0.str ++ ' ' :: wrap '(' ')' s.p1.str ++ ' ' :: wrap '(' ')' s.p2.str),
    kLeaf "material" s.mat,
    kLeaf "uaxis" s.uaxis.str,
    kLeaf "vaxis" s.vaxis.str,
    kLeaf "rotation" s.rot,
    kInt "lightmapscale" s.lightmap,
    kInt "smoothing_groups" s.smooth]

theorem parsePlanes_leaves (s : Side) (h0 : V3OK s.p0 = true) (h1 : V3OK s.p1 = true) (h2 : V3OK s.p2 = true) :
    parsePlanes (sideLeaves s) = .ok (s.p0, s.p1, s.p2) := by
  have e : getLeaf "plane" (sideLeaves s) =
      some (wrap '(' ')' s.p0.str ++ ' ' :: wrap '(' ')' s.p1.str ++ ' ' :: wrap '(' ')' s.p2.str) := by
    unfold sideLeaves; kv_simp
  unfold parsePlanes
  rw [e]
  have full : (wrap '(' ')' s.p0.str ++ ' ' :: wrap '(' ')' s.p1.str ++ ' ' :: wrap '(' ')' s.p2.str)
      = '(' :: ((s.p0.str ++ ((lit ") (") ++ (s.p1.str ++ ((lit ") (") ++ s.p2.str)))) ++ [')']) := by
    simp [wrap, lit]
  have e2 : ((wrap '(' ')' s.p0.str ++ ' ' :: wrap '(' ')' s.p1.str ++ ' ' :: wrap '(' ')' s.p2.str).drop 1).dropLast
      = s.p0.str ++ ((lit ") (") ++ (s.p1.str ++ ((lit ") (") ++ s.p2.str))) := by
    rw [full]
    simp only [List.drop_succ_cons, List.drop_zero, List.dropLast_concat]
  simp only [Option.getD_some]
  rw [e2]
  have : lit ") (" = ')' :: [' ', '('] := rfl
  rw [this, splitSub_three ')' [' ', '('] _ _ _ (v3_no_close _ h0) (v3_no_close _ h1) (v3_no_close _ h2)]
  simp only []
  rw [parseV3_str _ _ h0, parseV3_str _ _ h1, parseV3_str _ _ h2]

theorem parseSide_export1 (mb : Bool) (s : Side) (h : SideOK1 s = true) :
    parseSide (exportSide mb s) = .ok s := by
  simp only [SideOK1, Bool.and_eq_true, Option.isNone_iff_eq_none] at h
  obtain ⟨⟨⟨⟨⟨⟨⟨h0, h1⟩, h2⟩, hu⟩, hv⟩, hr⟩, hp⟩, hd⟩ := h
  have hexp : exportSide mb s = KV.block "side".toList (sideLeaves s) := by
    simp [exportSide, hp, hd, sideLeaves, kBlock]
  rw [hexp]
  simp only [parseSide]
  rw [parsePlanes_leaves s h0 h1 h2]
  simp only []
  have eu : getLeaf "uaxis" (sideLeaves s) = some s.uaxis.str := by unfold sideLeaves; kv_simp
  have ev : getLeaf "vaxis" (sideLeaves s) = some s.vaxis.str := by unfold sideLeaves; kv_simp
  rw [eu, ev]
  simp only [Option.getD_some]
  rw [parseUV_str _ hu, parseUV_str _ hv]
  simp only []
  have ed : parseSideDisp (sideLeaves s) = .ok none := by
    unfold parseSideDisp sideLeaves; kv_simp
  have ep : parseSidePoints (sideLeaves s) = .ok none := by
    unfold parseSidePoints sideLeaves; kv_simp
  rw [ed, ep]
  simp only []
  have e1 : getInt "id" (-1) (sideLeaves s) = s.id := by
    unfold sideLeaves; kv_simp; simp [parseInt_showInt]
  have e2 : getLeaf "material" (sideLeaves s) = some s.mat := by unfold sideLeaves; kv_simp
  have e3 : getFloat "rotation" ['0'] (sideLeaves s) = s.rot := by
    unfold sideLeaves; kv_simp; simp [hr]
  have e4 : getInt "lightmapscale" 16 (sideLeaves s) = s.lightmap := by
    unfold sideLeaves; kv_simp; simp [parseInt_showInt]
  have e5 : getInt "smoothing_groups" 0 (sideLeaves s) = s.smooth := by
    unfold sideLeaves; kv_simp; simp [parseInt_showInt]
  rw [e1, e2, e3, e4, e5]
  cases s
  simp_all




theorem foldE_append {σ} (step : σ → KV → Except Err σ) (st : σ) (a b : List KV) :
    foldE step st (a ++ b) = match foldE step st a with
      | .error e => .error e
      | .ok st' => foldE step st' b := by
  induction a generalizing st with
  | nil => rfl
  | cons k ks ih =>
    simp only [List.cons_append, foldE]
    cases step st k with
    | error e => rfl
    | ok st' => exact ih st'

theorem convBool_boolStr (b d : Bool) : convBool (boolStr b) d = b := by
  simp [convBool, boolLookup_boolStr]

/-! ### solids -/

theorem named_side_export (mb : Bool) (s : Side) : named "side" (exportSide mb s) = true := by
  simp [exportSide, kBlock, named, KV.fname, KV.name, lower]

theorem named_editor_export_side (mb : Bool) (s : Side) : named "editor" (exportSide mb s) = false := by
  simp [exportSide, kBlock, named, KV.fname, KV.name, lower]

theorem isBlock_export_side (mb : Bool) (s : Side) : (exportSide mb s).isBlock = true := by
  simp [exportSide, kBlock, KV.isBlock]

def SolidOK1 (s : Solid) : Bool := s.sides.all SideOK1 && V3OK s.color

theorem parseSides_export (mb : Bool) (sides : List Side) (rest : List KV)
    (h : ∀ s ∈ sides, SideOK1 s = true) (hr : parseSides rest = .ok []) :
    parseSides (sides.map (exportSide mb) ++ rest) = .ok sides := by
  induction sides with
  | nil => simpa using hr
  | cons s ss ih =>
    simp only [List.map_cons, List.cons_append, parseSides, named_side_export, if_true]
    rw [parseSide_export1 mb s (h s (by simp)), ih (fun t ht => h t (by simp [ht]))]

theorem editorKids_skip (l rest : List KV) (h : ∀ k ∈ l, named "editor" k = false) :
    editorKids (l ++ rest) = editorKids rest := by
  induction l with
  | nil => rfl
  | cons k ks ih =>
    simp only [List.cons_append, editorKids, h k (by simp), Bool.false_eq_true, if_false]
    exact ih (fun j hj => h j (by simp [hj]))

theorem solidEd_color (st : SolidEd) (v : Str) :
    solidEdStep st (kLeaf "color" v) = .ok { st with color := parseV3 v3white v } := by
  simp [solidEdStep, kLeaf, named, KV.fname, KV.name, lower, KV.isBlock]

theorem solidEd_groupid (st : SolidEd) (g : Int) :
    solidEdStep st (kInt "groupid" g) = .ok { st with group := some g } := by
  simp [solidEdStep, kInt, kLeaf, named, KV.fname, KV.name, lower, KV.isBlock, parseInt_showInt]

theorem solidEd_visgroupid (st : SolidEd) (g : Int) :
    solidEdStep st (kInt "visgroupid" g) = .ok { st with visIds := st.visIds ++ [g] } := by
  simp [solidEdStep, kInt, kLeaf, named, KV.fname, KV.name, lower, KV.isBlock, parseInt_showInt]

theorem solidEd_shown (st : SolidEd) (b : Bool) :
    solidEdStep st (kBool "visgroupshown" b) = .ok { st with visShown := b } := by
  simp [solidEdStep, kBool, kLeaf, named, KV.fname, KV.name, lower, KV.isBlock, convBool_boolStr]

theorem solidEd_auto (st : SolidEd) (b : Bool) :
    solidEdStep st (kBool "visgroupautoshown" b) = .ok { st with visAuto := b } := by
  simp [solidEdStep, kBool, kLeaf, named, KV.fname, KV.name, lower, KV.isBlock, convBool_boolStr]

theorem solidEd_cordon (st : SolidEd) :
    solidEdStep st (kLeaf "cordonsolid" ['1']) = .ok { st with cordon := true } := by
  simp [solidEdStep, kLeaf, named, KV.fname, KV.name, lower, KV.isBlock]

theorem foldE_solid_visids (st : SolidEd) (ids : List Int) :
    foldE solidEdStep st (ids.map (kInt "visgroupid")) = .ok { st with visIds := st.visIds ++ ids } := by
  induction ids generalizing st with
  | nil => simp [foldE]
  | cons i is ih =>
    simp only [List.map_cons, foldE, solidEd_visgroupid]
    rw [ih]
    simp

/-- what a re-parse makes of a solid (v1: faces without displacement are unchanged). -/
def solidRT (ig hidden : Bool) (s : Solid) : Solid :=
  { s with hidden, visIds := if ig then isort intLe s.visIds else [], group := if ig then s.group else none }

theorem foldE_solidEditor (ig : Bool) (s : Solid) (hc : V3OK s.color = true) :
    foldE solidEdStep {} (solidEditor ig s) =
      .ok { visIds := if ig then isort intLe s.visIds else [], group := if ig then s.group else none,
            visShown := s.visShown, visAuto := s.visAuto, cordon := s.cordon, color := s.color } := by
  unfold solidEditor
  simp only [foldE_append, List.singleton_append, List.cons_append, List.nil_append, foldE, solidEd_color,
    parseV3_str _ _ hc]
  cases ig with
  | false =>
    simp only [Bool.false_eq_true, if_false, foldE, solidEd_shown, solidEd_auto]
    cases hcd : s.cordon <;> simp [foldE, solidEd_cordon]
  | true =>
    simp only [if_true]
    cases hg : s.group with
    | none =>
      simp only [List.nil_append, foldE_solid_visids, foldE, solidEd_shown, solidEd_auto]
      cases hcd : s.cordon <;> simp [foldE, solidEd_cordon]
    | some g =>
      simp only [List.singleton_append, foldE, solidEd_groupid, foldE_solid_visids, solidEd_shown, solidEd_auto]
      cases hcd : s.cordon <;> simp [foldE, solidEd_cordon]

theorem parseSolid_block (mb ig hidden : Bool) (s : Solid) (h : SolidOK1 s = true) :
    parseSolid hidden (solidBlock mb ig s) = .ok (solidRT ig hidden s) := by
  simp only [SolidOK1, Bool.and_eq_true, List.all_eq_true] at h
  obtain ⟨hs, hc⟩ := h
  simp only [solidBlock, kBlock, parseSolid]
  have e1 : parseSides (kInt "id" s.id :: (s.sides.map (exportSide mb) ++ [KV.block "editor".toList (solidEditor ig s)])) = .ok s.sides := by
    have hid : named "side" (kInt "id" s.id) = false := by kv_simp
    simp only [parseSides, hid, Bool.false_eq_true, if_false]
    exact parseSides_export mb s.sides _ hs (by
      simp [parseSides, named, KV.fname, KV.name, lower])
  have e2 : editorKids (kInt "id" s.id :: (s.sides.map (exportSide mb) ++ [KV.block "editor".toList (solidEditor ig s)])) = .ok (solidEditor ig s) := by
    have hid : named "editor" (kInt "id" s.id) = false := by kv_simp
    simp only [editorKids, hid, Bool.false_eq_true, if_false]
    rw [editorKids_skip _ _ (by
      intro k hk
      simp only [List.mem_map] at hk
      obtain ⟨t, _, rfl⟩ := hk
      exact named_editor_export_side mb t)]
    simp [editorKids, named, KV.fname, KV.name, lower, blockKids]
  have e3 : getInt "id" (-1) (kInt "id" s.id :: (s.sides.map (exportSide mb) ++ [KV.block "editor".toList (solidEditor ig s)])) = s.id := by
    unfold getInt
    have := getLeaf_append_blocks "id" [kInt "id" s.id] (s.sides.map (exportSide mb) ++ [KV.block "editor".toList (solidEditor ig s)]) (by
      intro k hk
      simp only [List.mem_append, List.mem_map, List.mem_singleton] at hk
      rcases hk with ⟨t, _, rfl⟩ | rfl
      · exact isBlock_export_side mb t
      · rfl)
    simp only [List.singleton_append] at this
    rw [this]
    kv_simp
    simp [parseInt_showInt]
  rw [e1]
  simp only []
  rw [e2]
  simp only []
  rw [foldE_solidEditor ig s hc]
  simp only []
  rw [e3]
  cases s
  simp [solidOf, solidRT]




/-! ### sorting -/

theorem insertBy_perm {α} (le : α → α → Bool) (x : α) (l : List α) : (insertBy le x l).Perm (x :: l) := by
  induction l with
  | nil => exact List.Perm.refl _
  | cons y ys ih =>
    simp only [insertBy]
    split
    · exact List.Perm.refl _
    · exact (List.Perm.cons y ih).trans (List.Perm.swap x y ys)

theorem isort_perm {α} (le : α → α → Bool) (l : List α) : (isort le l).Perm l := by
  induction l with
  | nil => exact List.Perm.refl _
  | cons x xs ih => exact (insertBy_perm le x _).trans (List.Perm.cons x ih)

theorem mem_isort {α} (le : α → α → Bool) (l : List α) (x : α) : x ∈ isort le l ↔ x ∈ l :=
  (isort_perm le l).mem_iff

/-! ### dictionaries -/

theorem dictSet_new (d : List (Str × Str)) (k v : Str) (h : ∀ kv ∈ d, kv.1 ≠ k) :
    dictSet d k v = d ++ [(k, v)] := by
  have : d.any (·.1 == k) = false := by
    simp only [List.any_eq_false, beq_iff_eq]
    intro kv hkv; exact h kv hkv
  simp [dictSet, this]

theorem entSetKey_new (d : List (Str × Str)) (k v : Str) (h : ∀ kv ∈ d, lower kv.1 ≠ lower k) :
    entSetKey d k v = d ++ [(k, v)] := by
  have : d.any (fun kv => lower kv.1 == lower k) = false := by
    simp only [List.any_eq_false, beq_iff_eq]
    intro kv hkv; exact h kv hkv
  simp [entSetKey, this]

/-- keys pairwise different ignoring case (the invariant `Entity.__setitem__` maintains) -/
def KeysDistinct (l : List (Str × Str)) : Prop := l.Pairwise (fun a b => lower a.1 ≠ lower b.1)

theorem foldl_entSetKey (acc l : List (Str × Str)) (h : KeysDistinct (acc ++ l)) :
    l.foldl (fun ks kv => entSetKey ks kv.1 kv.2) acc = acc ++ l := by
  induction l generalizing acc with
  | nil => simp
  | cons kv r ih =>
    simp only [List.foldl_cons]
    have h1 : ∀ a ∈ acc, lower a.1 ≠ lower kv.1 := by
      intro a ha
      have := List.pairwise_append.mp h
      exact this.2.2 a ha kv (by simp)
    rw [entSetKey_new acc kv.1 kv.2 h1]
    have : KeysDistinct ((acc ++ [(kv.1, kv.2)]) ++ r) := by
      simpa [KeysDistinct] using h
    rw [ih _ this]
    simp

theorem lower_ne_of_ne {a b : Str} (h : lower a ≠ lower b) : a ≠ b := fun e => h (by rw [e])




theorem fixSplit_nodup (seen : List Int) (l : List Fix)
    (h1 : (l.map (·.id)).Nodup) (h2 : ∀ f ∈ l, f.id ∉ seen) : fixSplit seen l = (l, []) := by
  induction l generalizing seen with
  | nil => rfl
  | cons f r ih =>
    simp only [List.map_cons, List.nodup_cons] at h1
    have := ih (f.id :: seen) h1.2 (by
      intro g hg
      simp only [List.mem_cons, not_or]
      refine ⟨?_, h2 g (by simp [hg])⟩
      intro e
      exact h1.1 (by simp only [List.mem_map]; exact ⟨g, hg, e⟩))
    have hf' : f.id ∉ seen := h2 f (by simp)
    simp [fixSplit, hf', this]

def VarsDistinct (l : List Fix) : Prop := l.Pairwise (fun a b => lower a.var ≠ lower b.var)

theorem fixPut_new (d : List Fix) (f : Fix) (h : ∀ g ∈ d, lower g.var ≠ lower f.var) : fixPut d f = d ++ [f] := by
  have : d.any (fun g => lower g.var == lower f.var) = false := by
    simp only [List.any_eq_false, beq_iff_eq]
    intro g hg; exact h g hg
  simp [fixPut, this]

theorem foldl_fixPut (acc l : List Fix) (h : VarsDistinct (acc ++ l)) : l.foldl fixPut acc = acc ++ l := by
  induction l generalizing acc with
  | nil => simp
  | cons f r ih =>
    simp only [List.foldl_cons]
    have h1 : ∀ a ∈ acc, lower a.var ≠ lower f.var := by
      intro a ha
      exact (List.pairwise_append.mp h).2.2 a ha f (by simp)
    rw [fixPut_new acc f h1]
    have : VarsDistinct ((acc ++ [f]) ++ r) := by simpa [VarsDistinct] using h
    rw [ih _ this]; simp

theorem fixInit_id (l : List Fix) (h1 : (l.map (·.id)).Nodup) (h2 : VarsDistinct l) : fixInit l = l := by
  unfold fixInit
  rw [fixSplit_nodup [] l h1 (by simp)]
  simp only [List.foldl_nil]
  have := foldl_fixPut [] l (by simpa using h2)
  simpa using this



theorem isNumeric_showNat (n : Nat) : isNumeric (showNat n) = true := by
  have h1 := showNat_all_digit n
  have h2 : (showNat n).isEmpty = false := by
    cases h : showNat n with
    | nil => exact absurd h (showNat_ne_nil n)
    | cons a b => rfl
  simp [isNumeric, h1, h2]

theorem entStep_id (w : Bool) (st : EntSt) (n : Nat) :
    entStep w st (kInt "id" (Int.ofNat n)) = .ok { st with id := Int.ofNat n } := by
  have hp := parseInt_showInt (Int.ofNat n)
  simp only [showInt] at hp
  show entStep w st (KV.leaf ['i', 'd'] (showNat n)) = _
  have hn : named "id" (KV.leaf ['i', 'd'] (showNat n)) = true := by
    simp [named, KV.fname, KV.name, lower]
  unfold entStep
  simp only [hn, isNumeric_showNat, Bool.and_self, if_true, hp, Option.getD_some]

/-- an entity key that is neither the `id` line nor a `replaceNN` line -/
def KeyNameOK (k : Str) : Bool := lower k != lit "id" && !(lit "replace").isPrefixOf (lower k)

theorem entStep_key (w : Bool) (st : EntSt) (k v : Str) (h : KeyNameOK k = true) :
    entStep w st (.leaf k v) = .ok { st with keys := dictSet st.keys k v } := by
  simp only [KeyNameOK, Bool.and_eq_true, bne_iff_ne, ne_eq, Bool.not_eq_true'] at h
  have h1 : named "id" (KV.leaf k v) = false := by
    simp only [named, KV.fname, KV.name]
    have : lower "id".toList = lit "id" := by decide
    rw [this]
    simpa using h.1
  have h2 : (lit "replace").isPrefixOf (KV.leaf k v).fname = false := by
    simpa [KV.fname, KV.name] using h.2
  simp [entStep, h1, h2]

theorem replace_names : ∀ n, n < 100 →
    (lower (lit "replace" ++ pad2 (showNat n)) == lit "id") = false ∧
    (lit "replace").isPrefixOf (lower (lit "replace" ++ pad2 (showNat n))) = true ∧
    parseInt? (last2 (lower (lit "replace" ++ pad2 (showNat n)))) = some (Int.ofNat n) := by
  decide +kernel

def FixOK (f : Fix) : Bool :=
  decide (0 ≤ f.id) && decide (f.id < 100) && !f.var.contains ' ' && f.var.head? != some '$'

theorem entStep_fix (w : Bool) (st : EntSt) (f : Fix) (h : FixOK f = true) :
    entStep w st (exportFix f) = .ok { st with fixup := st.fixup ++ [f] } := by
  cases f with
  | mk var value id =>
  simp only [FixOK, Bool.and_eq_true, decide_eq_true_eq, Bool.not_eq_true', bne_iff_ne, ne_eq] at h
  obtain ⟨⟨⟨h0, h1⟩, hsp⟩, hd⟩ := h
  obtain ⟨n, rfl⟩ : ∃ n : Nat, id = Int.ofNat n := ⟨id.toNat, by simp; omega⟩
  have hn100 : n < 100 := Int.ofNat_lt.mp h1
  obtain ⟨r1, r2, r3⟩ := replace_names n hn100
  have hexp : exportFix ⟨var, value, Int.ofNat n⟩
      = KV.leaf (lit "replace" ++ pad2 (showNat n)) ('$' :: (var ++ ' ' :: value)) := rfl
  rw [hexp]
  have hname : named "id" (KV.leaf (lit "replace" ++ pad2 (showNat n)) ('$' :: (var ++ ' ' :: value))) = false := by
    simp only [named, KV.fname, KV.name]
    have : lower "id".toList = lit "id" := by decide
    rw [this]; exact r1
  have hsplit : splitFirst ' ' ('$' :: (var ++ ' ' :: value)) [] = ('$' :: var, some value) := by
    have hns : ' ' ∉ ('$' :: var) := by
      simp only [List.mem_cons, not_or]
      exact ⟨by decide, by simpa using hsp⟩
    have := splitFirst_pre ' ' ('$' :: var) value [] hns
    simpa using this
  have hstrip : lstripC '$' ('$' :: var) = var := by
    cases hv : var with
    | nil => simp [lstripC, List.dropWhile]
    | cons c r =>
      have hc : (c == '$') = false := by
        simp only [beq_eq_false_iff_ne, ne_eq]
        intro e; apply hd; simp [hv, e]
      simp [lstripC, List.dropWhile, hc]
  unfold entStep
  simp only [hname, Bool.false_and, Bool.false_eq_true, if_false]
  have hf : (KV.leaf (lit "replace" ++ pad2 (showNat n)) ('$' :: (var ++ ' ' :: value))).fname
      = lower (lit "replace" ++ pad2 (showNat n)) := rfl
  rw [hf, r2]
  simp only [if_true, r3, fixOfLeaf, hsplit, hstrip, Option.getD_some]




theorem entStep_solid (mb w : Bool) (st : EntSt) (s : Solid) (h : SolidOK1 s = true) :
    entStep w st (exportSolid mb w s) = .ok { st with solids := st.solids ++ [solidRT w s.hidden s] } := by
  cases hh : s.hidden with
  | false =>
    have e : exportSolid mb w s = solidBlock mb w s := by simp [exportSolid, maybeHidden, hh]
    rw [e]
    have hp := parseSolid_block mb w false s h
    have hn : named "solid" (solidBlock mb w s) = true := by
      simp [solidBlock, kBlock, named, KV.fname, KV.name, lower]
    simp only [solidBlock, kBlock] at hp hn ⊢
    simp only [entStep, hn, if_true, hp]
  | true =>
    have e : exportSolid mb w s = kBlock "hidden" [solidBlock mb w s] := by simp [exportSolid, maybeHidden, hh]
    rw [e]
    have hp := parseSolid_block mb w true s h
    have hn : named "solid" (solidBlock mb w s) = true := by
      simp [solidBlock, kBlock, named, KV.fname, KV.name, lower]
    have h1 : named "solid" (kBlock "hidden" [solidBlock mb w s]) = false := by
      simp [kBlock, named, KV.fname, KV.name, lower]
    have h2 : named "connections" (kBlock "hidden" [solidBlock mb w s]) = false := by
      simp [kBlock, named, KV.fname, KV.name, lower]
    have h3 : named "editor" (kBlock "hidden" [solidBlock mb w s]) = false := by
      simp [kBlock, named, KV.fname, KV.name, lower]
    have h4 : named "hidden" (kBlock "hidden" [solidBlock mb w s]) = true := by
      simp [kBlock, named, KV.fname, KV.name, lower]
    simp only [kBlock] at h1 h2 h3 h4 ⊢
    simp only [entStep, h1, h2, h3, h4, Bool.false_eq_true, if_false, if_true, foldE, hiddenStep, hn, hp]

theorem parseOuts_export (outs : List Out) (h : ∀ o ∈ outs, OutOK o = true) :
    parseOuts (outs.map exportOut) = .ok (outs.map projOut) := by
  induction outs with
  | nil => rfl
  | cons o os ih =>
    simp only [List.map_cons, parseOuts, parseOut_export o (h o (by simp)), ih (fun p hp => h p (by simp [hp]))]

theorem entStep_connections (w : Bool) (st : EntSt) (outs : List Out) (h : ∀ o ∈ outs, OutOK o = true) :
    entStep w st (kBlock "connections" (outs.map exportOut)) =
      .ok { st with outputs := st.outputs ++ outs.map projOut } := by
  have h1 : named "solid" (kBlock "connections" (outs.map exportOut)) = false := by
    simp [kBlock, named, KV.fname, KV.name, lower]
  have h2 : named "connections" (kBlock "connections" (outs.map exportOut)) = true := by
    simp [kBlock, named, KV.fname, KV.name, lower]
  simp only [kBlock] at h1 h2 ⊢
  simp only [entStep, h1, h2, Bool.false_eq_true, if_false, if_true, parseOuts_export outs h]

theorem entStep_group (st : EntSt) (g : Group) (h : GroupOK g = true) :
    entStep true st (exportGroup g) = .ok { st with groups := st.groups ++ [g] } := by
  have hp := parseGroup_export g h
  have h1 : named "solid" (exportGroup g) = false := by simp [exportGroup, kBlock, named, KV.fname, KV.name, lower]
  have h2 : named "connections" (exportGroup g) = false := by simp [exportGroup, kBlock, named, KV.fname, KV.name, lower]
  have h3 : named "editor" (exportGroup g) = false := by simp [exportGroup, kBlock, named, KV.fname, KV.name, lower]
  have h4 : named "hidden" (exportGroup g) = false := by simp [exportGroup, kBlock, named, KV.fname, KV.name, lower]
  have h5 : named "group" (exportGroup g) = true := by simp [exportGroup, kBlock, named, KV.fname, KV.name, lower]
  simp only [exportGroup, kBlock] at hp h1 h2 h3 h4 h5 ⊢
  simp only [entStep, h1, h2, h3, h4, h5, Bool.false_eq_true, if_false, if_true, Bool.not_true, hp]

theorem foldE_groups (st : EntSt) (gs : List Group) (h : ∀ g ∈ gs, GroupOK g = true) :
    foldE (entStep true) st (gs.map exportGroup) = .ok { st with groups := st.groups ++ gs } := by
  induction gs generalizing st with
  | nil => simp [foldE]
  | cons g r ih =>
    simp only [List.map_cons, foldE, entStep_group st g (h g (by simp))]
    rw [ih _ (fun x hx => h x (by simp [hx]))]
    simp

theorem foldE_solids (mb w : Bool) (st : EntSt) (ss : List Solid) (h : ∀ s ∈ ss, SolidOK1 s = true) :
    foldE (entStep w) st (ss.map (exportSolid mb w)) =
      .ok { st with solids := st.solids ++ ss.map (fun s => solidRT w s.hidden s) } := by
  induction ss generalizing st with
  | nil => simp [foldE]
  | cons s r ih =>
    simp only [List.map_cons, foldE, entStep_solid mb w st s (h s (by simp))]
    rw [ih _ (fun x hx => h x (by simp [hx]))]
    simp

theorem foldE_fixes (w : Bool) (st : EntSt) (fs : List Fix) (h : ∀ f ∈ fs, FixOK f = true) :
    foldE (entStep w) st (fs.map exportFix) = .ok { st with fixup := st.fixup ++ fs } := by
  induction fs generalizing st with
  | nil => simp [foldE]
  | cons f r ih =>
    simp only [List.map_cons, foldE, entStep_fix w st f (h f (by simp))]
    rw [ih _ (fun x hx => h x (by simp [hx]))]
    simp

theorem foldE_keys (w : Bool) (st : EntSt) (ks : List (Str × Str))
    (h : ∀ kv ∈ ks, KeyNameOK kv.1 = true)
    (hd : (st.keys ++ ks).Pairwise (fun a b => a.1 ≠ b.1)) :
    foldE (entStep w) st (ks.map (fun kv => KV.leaf kv.1 kv.2)) = .ok { st with keys := st.keys ++ ks } := by
  induction ks generalizing st with
  | nil => simp [foldE]
  | cons kv r ih =>
    simp only [List.map_cons, foldE, entStep_key w st kv.1 kv.2 (h kv (by simp))]
    have hnew : ∀ a ∈ st.keys, a.1 ≠ kv.1 := by
      intro a ha
      exact (List.pairwise_append.mp hd).2.2 a ha kv (by simp)
    rw [dictSet_new st.keys kv.1 kv.2 hnew]
    rw [ih _ (fun x hx => h x (by simp [hx])) (by simpa using hd)]
    simp




theorem entEd_color (st : EntSt) (v : Str) :
    entEdStep st (kLeaf "color" v) = .ok { st with color := parseV3 v3white v } := by
  simp [entEdStep, kLeaf, named, KV.fname, KV.name, lower, KV.isBlock]

theorem entEd_groupid (st : EntSt) (g : Int) :
    entEdStep st (kInt "groupid" g) = .ok { st with groupIds := st.groupIds ++ [g] } := by
  simp [entEdStep, kInt, kLeaf, named, KV.fname, KV.name, lower, KV.isBlock, parseInt_showInt]

theorem entEd_visgroupid (st : EntSt) (g : Int) :
    entEdStep st (kInt "visgroupid" g) = .ok { st with visIds := st.visIds ++ [g] } := by
  simp [entEdStep, kInt, kLeaf, named, KV.fname, KV.name, lower, KV.isBlock, parseInt_showInt]

theorem entEd_shown (st : EntSt) (b : Bool) :
    entEdStep st (kBool "visgroupshown" b) = .ok { st with visShown := b } := by
  simp [entEdStep, kBool, kLeaf, named, KV.fname, KV.name, lower, KV.isBlock, convBool_boolStr]

theorem entEd_auto (st : EntSt) (b : Bool) :
    entEdStep st (kBool "visgroupautoshown" b) = .ok { st with visAuto := b } := by
  simp [entEdStep, kBool, kLeaf, named, KV.fname, KV.name, lower, KV.isBlock, convBool_boolStr]

theorem entEd_logical (st : EntSt) (v : Str) :
    entEdStep st (kLeaf "logicalpos" v) = .ok { st with logicalPos := v } := by
  simp [entEdStep, kLeaf, named, KV.fname, KV.name, lower, KV.isBlock]

theorem entEd_comments (st : EntSt) (v : Str) :
    entEdStep st (kLeaf "comments" v) = .ok { st with comments := v } := by
  simp [entEdStep, kLeaf, named, KV.fname, KV.name, lower, KV.isBlock]

theorem foldE_ent_groupids (st : EntSt) (ids : List Int) :
    foldE entEdStep st (ids.map (kInt "groupid")) = .ok { st with groupIds := st.groupIds ++ ids } := by
  induction ids generalizing st with
  | nil => simp [foldE]
  | cons i is ih =>
    simp only [List.map_cons, foldE, entEd_groupid]
    rw [ih]; simp

theorem foldE_ent_visids (st : EntSt) (ids : List Int) :
    foldE entEdStep st (ids.map (kInt "visgroupid")) = .ok { st with visIds := st.visIds ++ ids } := by
  induction ids generalizing st with
  | nil => simp [foldE]
  | cons i is ih =>
    simp only [List.map_cons, foldE, entEd_visgroupid]
    rw [ih]; simp

theorem foldE_entEditor (w : Bool) (st : EntSt) (e : Ent) (hc : V3OK e.color = true)
    (h0 : st.groupIds = []) (h1 : st.visIds = []) (h2 : st.visShown = true) (h3 : st.visAuto = true)
    (h4 : st.logicalPos = []) (h5 : st.comments = []) :
    foldE entEdStep st (entEditor w e) =
      .ok { st with color := e.color,
                    groupIds := if w then [] else isort intLe e.groups,
                    visIds := if w then [] else isort intLe e.visIds,
                    visShown := if w then true else e.visShown,
                    visAuto := if w then true else e.visAuto,
                    logicalPos := if w then [] else e.logicalPos,
                    comments := e.comments } := by
  unfold entEditor
  simp only [foldE_append, List.cons_append, List.nil_append, foldE, entEd_color, parseV3_str _ _ hc]
  cases w with
  | true =>
    simp only [if_true, foldE]
    cases hcm : e.comments with
    | nil => simp [foldE, h0, h1, h2, h3, h4, h5]
    | cons c r => simp [foldE, entEd_comments, h0, h1, h2, h3, h4]
  | false =>
    simp only [Bool.false_eq_true, if_false, foldE_append, foldE_ent_groupids, foldE_ent_visids, foldE,
      entEd_shown, entEd_auto, entEd_logical]
    cases hcm : e.comments with
    | nil => simp [foldE, h0, h1, h5]
    | cons c r => simp [foldE, entEd_comments, h0, h1]




/-- v1 well-formedness of an entity (faces without displacement / Strata point data). -/
structure EntOK1 (e : Ent) : Prop where
  idNonneg : 0 ≤ e.id
  keyNames : ∀ kv ∈ e.keys, KeyNameOK kv.1 = true
  keysDistinct : KeysDistinct e.keys
  fixes : ∀ f ∈ e.fixup, FixOK f = true
  fixIds : (e.fixup.map (·.id)).Nodup
  fixVars : VarsDistinct e.fixup
  outs : ∀ o ∈ e.outputs, OutOK o = true
  solids : ∀ s ∈ e.solids, SolidOK1 s = true
  color : V3OK e.color = true

/-- what `Entity.parse` (before id allocation) makes of an exported entity. -/
def entRT (w hidden : Bool) (e : Ent) : Ent :=
  { id := e.id, keys := isort keyLe e.keys, fixup := isort fixLe e.fixup,
    outputs := e.outputs.map projOut, solids := e.solids.map (fun s => solidRT w s.hidden s),
    hidden, groups := if w then [] else isort intLe e.groups,
    visIds := if w then [] else isort intLe e.visIds,
    visShown := if w then true else e.visShown, visAuto := if w then true else e.visAuto,
    color := e.color, logicalPos := if w then [] else e.logicalPos, comments := e.comments }

theorem keysDistinct_isort {l : List (Str × Str)} (h : KeysDistinct l) : KeysDistinct (isort keyLe l) :=
  ((isort_perm keyLe l).pairwise_iff (fun hab => Ne.symm hab)).mpr h

theorem varsDistinct_isort {l : List Fix} (h : VarsDistinct l) : VarsDistinct (isort fixLe l) :=
  ((isort_perm fixLe l).pairwise_iff (fun hab => Ne.symm hab)).mpr h

theorem entStep_editor (w : Bool) (st : EntSt) (kids : List KV) :
    entStep w st (kBlock "editor" kids) = foldE entEdStep st kids := by
  have h1 : named "solid" (kBlock "editor" kids) = false := by simp [kBlock, named, KV.fname, KV.name, lower]
  have h2 : named "connections" (kBlock "editor" kids) = false := by simp [kBlock, named, KV.fname, KV.name, lower]
  have h3 : named "editor" (kBlock "editor" kids) = true := by simp [kBlock, named, KV.fname, KV.name, lower]
  simp only [kBlock] at h1 h2 h3 ⊢
  simp only [entStep, h1, h2, h3, Bool.false_eq_true, if_false, if_true]

theorem parseEnt_block (mb w hidden : Bool) (groups : List Group) (e : Ent) (h : EntOK1 e)
    (hg : ∀ g ∈ groups, GroupOK g = true) :
    parseEnt w hidden (entBlock mb w groups e) = .ok (entRT w hidden e, if w then groups else []) := by
  obtain ⟨n, hn⟩ : ∃ n : Nat, e.id = Int.ofNat n := ⟨e.id.toNat, by have := h.idNonneg; simp; omega⟩
  have hk : ∀ kv ∈ isort keyLe e.keys, KeyNameOK kv.1 = true :=
    fun kv hkv => h.keyNames kv ((mem_isort _ _ _).mp hkv)
  have hkd : KeysDistinct (isort keyLe e.keys) := keysDistinct_isort h.keysDistinct
  have hkd' : (([] : List (Str × Str)) ++ isort keyLe e.keys).Pairwise (fun (a b : Str × Str) => a.1 ≠ b.1) := by
    simp only [List.nil_append]
    exact hkd.imp (fun hab => lower_ne_of_ne hab)
  have hf : ∀ f ∈ isort fixLe e.fixup, FixOK f = true :=
    fun f hf => h.fixes f ((mem_isort _ _ _).mp hf)
  have hfid : ((isort fixLe e.fixup).map (·.id)).Nodup :=
    ((isort_perm fixLe e.fixup).map (·.id)).nodup_iff.mpr h.fixIds
  have hfv := varsDistinct_isort h.fixVars
  have hfold : foldE (entStep w) {} (entKids mb w groups e) =
      .ok { id := e.id, solids := e.solids.map (fun s => solidRT w s.hidden s),
            keys := isort keyLe e.keys, outputs := e.outputs.map projOut,
            fixup := isort fixLe e.fixup,
            groupIds := if w then [] else isort intLe e.groups,
            visIds := if w then [] else isort intLe e.visIds,
            visShown := if w then true else e.visShown, visAuto := if w then true else e.visAuto,
            logicalPos := if w then [] else e.logicalPos, comments := e.comments, color := e.color,
            groups := if w then groups else [] } := by
    unfold entKids
    rw [hn]
    simp only [foldE, entStep_id]
    rw [foldE_append, foldE_keys w _ _ hk hkd']
    simp only []
    rw [foldE_append, foldE_fixes w _ _ hf]
    simp only []
    rw [foldE_append, foldE_solids mb w _ _ h.solids]
    simp only []
    rw [foldE_append]
    have hconn : foldE (entStep w)
        { id := Int.ofNat n, keys := [] ++ isort keyLe e.keys, fixup := [] ++ isort fixLe e.fixup,
          solids := [] ++ e.solids.map (fun s => solidRT w s.hidden s) }
        (if e.outputs.isEmpty then [] else [kBlock "connections" (e.outputs.map exportOut)]) =
        .ok { id := Int.ofNat n, keys := [] ++ isort keyLe e.keys, fixup := [] ++ isort fixLe e.fixup,
              solids := [] ++ e.solids.map (fun s => solidRT w s.hidden s),
              outputs := e.outputs.map projOut } := by
      cases ho : e.outputs with
      | nil => simp [foldE]
      | cons o os =>
        simp only [List.isEmpty_cons, Bool.false_eq_true, if_false, foldE]
        rw [entStep_connections w _ (o :: os) (by rw [← ho]; exact h.outs)]
        simp
    rw [hconn]
    simp only []
    rw [foldE_append]
    cases w with
    | true =>
      simp only [if_true]
      rw [foldE_groups _ _ hg]
      simp only [foldE, entStep_editor]
      rw [foldE_entEditor true _ e h.color rfl rfl rfl rfl rfl rfl]
      simp
    | false =>
      simp only [Bool.false_eq_true, if_false, foldE, entStep_editor]
      rw [foldE_entEditor false _ e h.color rfl rfl rfl rfl rfl rfl]
      simp
  simp only [entBlock, kBlock, parseEnt]
  rw [hfold]
  simp only [entOfSt, entRT]
  have e1 := foldl_entSetKey [] (isort keyLe e.keys) (by simpa using hkd)
  simp only [List.nil_append] at e1
  rw [e1, fixInit_id _ hfid hfv]


end C06
