import Srctools.Model.C06
/-! # C06 — helper lemmas for the tree-level round trip -/
open C06
namespace C06


/-! ### integers -/

theorem showNat_all_digit (n : Nat) : (showNat n).all Char.isDigit = true := by
  simp only [showNat, List.all_eq_true]
  intro c hc
  exact Nat.isDigit_of_mem_toDigits (by decide) (by decide) hc

theorem showNat_ne_nil (n : Nat) : showNat n ≠ [] := Nat.toDigits_ne_nil

theorem parseNat_showNat (n : Nat) : parseNat? (showNat n) = some n := by
  have h1 := showNat_all_digit n
  have h2 : (showNat n).isEmpty = false := by
    cases h : showNat n with
    | nil => exact absurd h (showNat_ne_nil n)
    | cons a b => rfl
  unfold parseNat?
  rw [h1, h2]
  simp [showNat, Nat.ofDigitChars_ten_toDigits]

theorem showNat_head_digit (n : Nat) : ∃ c r, showNat n = c :: r ∧ c.isDigit = true := by
  cases h : showNat n with
  | nil => exact absurd h (showNat_ne_nil n)
  | cons a b =>
    refine ⟨a, b, rfl, ?_⟩
    have := showNat_all_digit n
    rw [h] at this
    simp at this
    exact this.1

theorem parseInt_showInt (i : Int) : parseInt? (showInt i) = some i := by
  cases i with
  | ofNat n =>
    obtain ⟨c, r, h, hd⟩ := showNat_head_digit n
    have hp := parseNat_showNat n
    simp only [showInt]
    rw [h] at hp ⊢
    have h1 : c ≠ '-' := by intro e; subst e; simp at hd
    have h2 : c ≠ '+' := by intro e; subst e; simp at hd
    unfold parseInt?
    split
    · rename_i heq; cases heq; exact absurd rfl h1
    · rename_i heq; cases heq; exact absurd rfl h2
    · simp [hp]
  | negSucc n =>
    simp only [showInt, parseInt?, parseNat_showNat]
    simp [Int.negSucc_eq]



/-! ### tokens and whitespace -/

/-- A numeric token: accepted by `float()`, non-empty, free of whitespace and brackets. -/
def TokOK (t : Str) : Bool :=
  isNum t && !t.isEmpty && t.all (fun c => !isWs c && !isOpenBr c && !isCloseBr c)

def NoWs (t : Str) : Prop := ∀ c ∈ t, isWs c = false

theorem tok_isNum {t} (h : TokOK t = true) : C06.isNum t = true := by
  simp [TokOK] at h; exact h.1.1
theorem tok_ne_nil {t} (h : TokOK t = true) : t ≠ [] := by
  simp [TokOK] at h; intro e; simp [e] at h
theorem tok_noWs {t} (h : TokOK t = true) : NoWs t := by
  simp [TokOK] at h; intro c hc; exact (h.2 c hc).1.1
theorem tok_noOpen {t} (h : TokOK t = true) : ∀ c ∈ t, isOpenBr c = false := by
  simp [TokOK] at h; intro c hc; exact (h.2 c hc).1.2
theorem tok_noClose {t} (h : TokOK t = true) : ∀ c ∈ t, isCloseBr c = false := by
  simp [TokOK] at h; intro c hc; exact (h.2 c hc).2

theorem splitWsAux_tok (t : Str) (ht : NoWs t) (rest cur : Str) :
    splitWsAux (t ++ rest) cur = splitWsAux rest (t.reverse ++ cur) := by
  induction t generalizing cur with
  | nil => rfl
  | cons c cs ih =>
    have hc : isWs c = false := ht c (by simp)
    have hcs : NoWs cs := fun d hd => ht d (by simp [hd])
    simp only [List.cons_append, splitWsAux, hc, Bool.false_eq_true, if_false]
    rw [ih hcs]
    simp

theorem splitWs_unwords (toks : List Str) (h : ∀ t ∈ toks, t ≠ [] ∧ NoWs t) :
    splitWs (unwords toks) = toks := by
  unfold splitWs
  induction toks with
  | nil => rfl
  | cons a r ih =>
    have ha := h a (by simp)
    have hr : ∀ t ∈ r, t ≠ [] ∧ NoWs t := fun t ht => h t (by simp [ht])
    cases r with
    | nil =>
      simp only [unwords, joinWith]
      have := splitWsAux_tok a ha.2 [] []
      simp only [List.append_nil] at this
      rw [this]
      cases hrev : a.reverse with
      | nil => simp at hrev; exact absurd hrev ha.1
      | cons x y => simp [splitWsAux, ← hrev, ha.1]
    | cons b r' =>
      simp only [unwords, joinWith, sp] at ih ⊢
      rw [List.append_assoc, splitWsAux_tok a ha.2]
      simp only [List.append_nil, List.cons_append, List.nil_append]
      have hws : isWs ' ' = true := by decide
      cases hrev : a.reverse with
      | nil => simp at hrev; exact absurd hrev ha.1
      | cons x y =>
        simp only [splitWsAux, hws, if_true, List.isEmpty_cons, Bool.false_eq_true, if_false]
        rw [ih hr, ← hrev]
        simp

theorem stripL_cons {c : Char} {r : Str} (h : isWs c = false) : stripL (c :: r) = c :: r := by
  simp [stripL, List.dropWhile, h]

theorem strip_of_ends (s : Str) (c : Char) (r : Str) (d : Char) (q : Str)
    (h1 : s = c :: r) (h2 : s.reverse = d :: q) (hc : isWs c = false) (hd : isWs d = false) :
    strip s = s := by
  unfold strip
  rw [h1, stripL_cons hc, ← h1, h2, stripL_cons hd, ← h2]
  simp

theorem head_of_append {a : Str} (h : a ≠ []) (rest : Str) : ∃ c r, a ++ rest = c :: r ∧ c ∈ a := by
  cases a with
  | nil => exact absurd rfl h
  | cons c cs => exact ⟨c, cs ++ rest, rfl, by simp⟩

theorem last_of_append {z : Str} (h : z ≠ []) (pre : Str) :
    ∃ d q, (pre ++ z).reverse = d :: q ∧ d ∈ z := by
  have hz : z.reverse ≠ [] := by simpa using h
  obtain ⟨d, q, hq, hd⟩ := head_of_append hz pre.reverse
  exact ⟨d, q, by simpa using hq, by simpa using hd⟩

def V3OK (v : V3) : Bool := TokOK v.x && TokOK v.y && TokOK v.z

theorem v3ok_parts {v : V3} (h : V3OK v = true) : TokOK v.x = true ∧ TokOK v.y = true ∧ TokOK v.z = true := by
  simp [V3OK] at h; exact ⟨h.1.1, h.1.2, h.2⟩

theorem V3.str_eq (v : V3) : v.str = v.x ++ (' ' :: (v.y ++ (' ' :: v.z))) := by
  simp [V3.str, V3.toks, unwords, joinWith, sp]

theorem splitWs_v3 {v : V3} (h : V3OK v = true) : splitWs v.str = [v.x, v.y, v.z] := by
  obtain ⟨hx, hy, hz⟩ := v3ok_parts h
  have := splitWs_unwords [v.x, v.y, v.z] (by
    intro t ht
    simp at ht
    rcases ht with rfl | rfl | rfl
    · exact ⟨(tok_ne_nil hx), (tok_noWs hx)⟩
    · exact ⟨(tok_ne_nil hy), (tok_noWs hy)⟩
    · exact ⟨(tok_ne_nil hz), (tok_noWs hz)⟩)
  simpa [V3.str, V3.toks] using this

theorem vec3Of_split (d v : V3) (h : V3OK v = true) : vec3Of d (splitWs v.str) = v := by
  obtain ⟨hx, hy, hz⟩ := v3ok_parts h
  rw [splitWs_v3 h]
  simp [vec3Of, (tok_isNum hx), (tok_isNum hy), (tok_isNum hz)]

theorem parseV3_str (d v : V3) (h : V3OK v = true) : parseV3 d v.str = v := by
  obtain ⟨hx, hy, hz⟩ := v3ok_parts h
  obtain ⟨c, r, h1, hc⟩ := head_of_append (tok_ne_nil hx) (' ' :: (v.y ++ (' ' :: v.z)))
  obtain ⟨e, q, h2, he⟩ := last_of_append (tok_ne_nil hz) (v.x ++ (' ' :: (v.y ++ [' '])))
  have hs : v.str = c :: r := by rw [V3.str_eq]; exact h1
  have hr : v.str.reverse = e :: q := by
    rw [V3.str_eq]; simpa using h2
  unfold parseV3
  rw [strip_of_ends v.str c r e q hs hr ((tok_noWs hx) c hc) ((tok_noWs hz) e he)]
  have step1 : dropOpenBr v.str = v.str := by
    rw [hs]; simp [dropOpenBr, (tok_noOpen hx) c hc]
  have step2 : dropLastIf isCloseBr v.str = v.str := by
    unfold dropLastIf; rw [hr]; simp [(tok_noClose hz) e he]
  rw [step1, step2]
  exact vec3Of_split d v h

theorem parseV3_wrap (d v : V3) (o c : Char) (h : V3OK v = true)
    (ho : isOpenBr o = true) (hc : isCloseBr c = true) (wo : isWs o = false) (wc : isWs c = false) :
    parseV3 d (wrap o c v.str) = v := by
  unfold parseV3
  rw [strip_of_ends (wrap o c v.str) o (v.str ++ [c]) c (v.str.reverse ++ [o]) rfl (by simp [wrap]) wo wc]
  have step1 : dropOpenBr (wrap o c v.str) = v.str ++ [c] := by
    simp [wrap, dropOpenBr, ho]
  have step2 : dropLastIf isCloseBr (v.str ++ [c]) = v.str := by
    unfold dropLastIf; simp [hc]
  rw [step1, step2]
  exact vec3Of_split d v h




/-! ### generic list lemmas -/

theorem findLast_append {α} (p : α → Bool) (a b : List α) :
    findLast p (a ++ b) = match findLast p b with
      | some r => some r
      | none => findLast p a := by
  induction a with
  | nil => simp [findLast]; cases findLast p b <;> rfl
  | cons x xs ih =>
    simp only [List.cons_append, findLast, ih]
    cases findLast p b <;> rfl

theorem findLast_none_of_all {α} (p : α → Bool) (l : List α) (h : ∀ x ∈ l, p x = false) :
    findLast p l = none := by
  induction l with
  | nil => rfl
  | cons x xs ih =>
    simp only [findLast, ih (fun y hy => h y (by simp [hy])), h x (by simp)]
    simp

theorem findLast_append_right_none {α} (p : α → Bool) (a b : List α) (h : ∀ x ∈ b, p x = false) :
    findLast p (a ++ b) = findLast p a := by
  rw [findLast_append, findLast_none_of_all p b h]

theorem findLast_append_left_none {α} (p : α → Bool) (a b : List α) (h : ∀ x ∈ a, p x = false) :
    findLast p (a ++ b) = findLast p b := by
  rw [findLast_append, findLast_none_of_all p a h]
  cases findLast p b <;> rfl

theorem mapM_map_ok {α β γ} (f : α → β) (g : β → Except Err γ) (h : α → γ) (l : List α)
    (hl : ∀ a ∈ l, g (f a) = .ok (h a)) : (l.map f).mapM g = .ok (l.map h) := by
  induction l with
  | nil => rfl
  | cons a r ih =>
    simp only [List.map_cons, List.mapM_cons, hl a (by simp), ih (fun b hb => hl b (by simp [hb]))]
    rfl

theorem filter_map_all {α β} (f : α → β) (p : β → Bool) (l : List α) (h : ∀ a ∈ l, p (f a) = true) :
    (l.map f).filter p = l.map f := by
  induction l with
  | nil => rfl
  | cons a r ih => simp [h a (by simp), ih (fun b hb => h b (by simp [hb]))]

theorem filter_map_none {α β} (f : α → β) (p : β → Bool) (l : List α) (h : ∀ a ∈ l, p (f a) = false) :
    (l.map f).filter p = [] := by
  induction l with
  | nil => rfl
  | cons a r ih => simp [h a (by simp), ih (fun b hb => h b (by simp [hb]))]



/-- unfolding set for lookups on literal keys -/
macro "kv_simp" : tactic => `(tactic|
  simp [getV3, getInt, getBool, getFloat, getLeaf, getBlock, hasBlock, findKey, findLast, named, KV.fname, KV.name,
        KV.kids, kLeaf, kBlock, kInt, kBool, KV.isBlock, lower])

def CamOK (c : Cam) : Bool := V3OK c.pos && V3OK c.look

theorem parseCam_export (c : Cam) (h : CamOK c = true) : parseCam (exportCam c) = .ok c := by
  simp [CamOK] at h
  simp only [exportCam, kBlock, parseCam]
  have e1 : getV3 "position" v3zero [kLeaf "position" (wrap '[' ']' c.pos.str), kLeaf "look" (wrap '[' ']' c.look.str)] = c.pos := by
    kv_simp
    exact parseV3_wrap _ _ _ _ h.1 (by decide) (by decide) (by decide) (by decide)
  have e2 : getV3 "look" (mkV3 0 64 0) [kLeaf "position" (wrap '[' ']' c.pos.str), kLeaf "look" (wrap '[' ']' c.look.str)] = c.look := by
    kv_simp
    exact parseV3_wrap _ _ _ _ h.2 (by decide) (by decide) (by decide) (by decide)
  rw [e1, e2]




def CordonOK (c : Cordon) : Bool := V3OK c.min && V3OK c.max

theorem boolLookup_boolStr (b : Bool) : boolLookup (boolStr b) = some b := by
  cases b <;> decide

theorem parseCordon_export (c : Cordon) (h : CordonOK c = true) : parseCordon (exportCordon c) = .ok c := by
  simp [CordonOK] at h
  simp only [exportCordon, kBlock, parseCordon]
  have e0 : getBlock "box" [kLeaf "name" c.name, kBool "active" c.active,
      KV.block "box".toList [kLeaf "mins" (wrap '(' ')' c.min.str), kLeaf "maxs" (wrap '(' ')' c.max.str)]]
      = [kLeaf "mins" (wrap '(' ')' c.min.str), kLeaf "maxs" (wrap '(' ')' c.max.str)] := by kv_simp
  rw [e0]
  have e1 : getV3 "mins" v3zero [kLeaf "mins" (wrap '(' ')' c.min.str), kLeaf "maxs" (wrap '(' ')' c.max.str)] = c.min := by
    kv_simp
    exact parseV3_wrap _ _ _ _ h.1 (by decide) (by decide) (by decide) (by decide)
  have e2 : getV3 "maxs" (mkV3 128 128 128) [kLeaf "mins" (wrap '(' ')' c.min.str), kLeaf "maxs" (wrap '(' ')' c.max.str)] = c.max := by
    kv_simp
    exact parseV3_wrap _ _ _ _ h.2 (by decide) (by decide) (by decide) (by decide)
  rw [e1, e2]
  have e3 : getLeaf "name" [kLeaf "name" c.name, kBool "active" c.active,
      KV.block "box".toList [kLeaf "mins" (wrap '(' ')' c.min.str), kLeaf "maxs" (wrap '(' ')' c.max.str)]] = some c.name := by kv_simp
  have e4 : getBool "active" false [kLeaf "name" c.name, kBool "active" c.active,
      KV.block "box".toList [kLeaf "mins" (wrap '(' ')' c.min.str), kLeaf "maxs" (wrap '(' ')' c.max.str)]] = c.active := by
    kv_simp
    simp [boolLookup_boolStr]
  rw [e3, e4]
  rfl

def GroupOK (g : Group) : Bool := V3OK g.color

theorem parseGroup_export (g : Group) (h : GroupOK g = true) : parseGroup (exportGroup g) = .ok g := by
  simp only [GroupOK] at h
  simp only [exportGroup, kBlock, parseGroup]
  have e0 : getBlock "editor" [kInt "id" g.id, KV.block "editor".toList
      [kBool "visgroupshown" g.shown, kBool "visgroupautoshown" g.auto, kLeaf "color" g.color.str]]
      = [kBool "visgroupshown" g.shown, kBool "visgroupautoshown" g.auto, kLeaf "color" g.color.str] := by kv_simp
  rw [e0]
  have e1 : getInt "id" (-1) [kInt "id" g.id, KV.block "editor".toList
      [kBool "visgroupshown" g.shown, kBool "visgroupautoshown" g.auto, kLeaf "color" g.color.str]] = g.id := by
    kv_simp
    simp [parseInt_showInt]
  have e2 : getBool "visgroupshown" true [kBool "visgroupshown" g.shown, kBool "visgroupautoshown" g.auto, kLeaf "color" g.color.str] = g.shown := by
    kv_simp; simp [boolLookup_boolStr]
  have e3 : getBool "visgroupautoshown" true [kBool "visgroupshown" g.shown, kBool "visgroupautoshown" g.auto, kLeaf "color" g.color.str] = g.auto := by
    kv_simp; simp [boolLookup_boolStr]
  have e4 : getV3 "color" v3white [kBool "visgroupshown" g.shown, kBool "visgroupautoshown" g.auto, kLeaf "color" g.color.str] = g.color := by
    kv_simp; exact parseV3_str _ _ h
  rw [e1, e2, e3, e4]



mutual
def VisOK : Vis → Bool
  | .mk _ _ color children => V3OK color && VisListOK children
def VisListOK : List Vis → Bool
  | [] => true
  | v :: vs => VisOK v && VisListOK vs
end

theorem exportVisList_blocks (vs : List Vis) :
    ∀ k ∈ exportVisAux.exportVisList vs, k.isBlock = true ∧ named "visgroup" k = true := by
  induction vs with
  | nil => intro k hk; simp [exportVisAux.exportVisList] at hk
  | cons v r ih =>
    intro k hk
    simp only [exportVisAux.exportVisList, List.mem_cons] at hk
    rcases hk with rfl | hk
    · cases v with
      | mk n i c ch => simp [exportVisAux, KV.isBlock, named, KV.fname, KV.name, lit, lower]
    · exact ih k hk

theorem getLeaf_append_blocks (key : String) (a b : List KV) (hb : ∀ k ∈ b, k.isBlock = true) :
    getLeaf key (a ++ b) = getLeaf key a := by
  unfold getLeaf
  rw [findLast_append_right_none]
  intro x hx
  simp [hb x hx]

mutual
theorem parseVis_export : (v : Vis) → VisOK v = true → parseVisAux (exportVisAux v) = .ok v
  | .mk name id color children, h => by
    simp only [VisOK, Bool.and_eq_true] at h
    have hb := exportVisList_blocks children
    have hbl : ∀ k ∈ exportVisAux.exportVisList children, k.isBlock = true := fun k hk => (hb k hk).1
    simp only [exportVisAux, parseVisAux]
    have e1 : getInt "visgroupid" (-1) (kLeaf "name" name :: kInt "visgroupid" id :: kLeaf "color" color.str ::
        exportVisAux.exportVisList children) = id := by
      unfold getInt
      have := getLeaf_append_blocks "visgroupid" [kLeaf "name" name, kInt "visgroupid" id, kLeaf "color" color.str] _ hbl
      simp only [List.cons_append, List.nil_append] at this
      rw [this]
      kv_simp
      simp [parseInt_showInt]
    have e2 : getLeaf "name" (kLeaf "name" name :: kInt "visgroupid" id :: kLeaf "color" color.str ::
        exportVisAux.exportVisList children) = some name := by
      have := getLeaf_append_blocks "name" [kLeaf "name" name, kInt "visgroupid" id, kLeaf "color" color.str] _ hbl
      simp only [List.cons_append, List.nil_append] at this
      rw [this]
      kv_simp
    have e3 : getV3 "color" v3white (kLeaf "name" name :: kInt "visgroupid" id :: kLeaf "color" color.str ::
        exportVisAux.exportVisList children) = color := by
      unfold getV3
      have := getLeaf_append_blocks "color" [kLeaf "name" name, kInt "visgroupid" id, kLeaf "color" color.str] _ hbl
      simp only [List.cons_append, List.nil_append] at this
      rw [this]
      kv_simp
      exact parseV3_str _ _ h.1
    rw [e1, e2, e3]
    have e4 : parseVisAux.parseVisList (kLeaf "name" name :: kInt "visgroupid" id :: kLeaf "color" color.str ::
        exportVisAux.exportVisList children) = .ok children := by
      simp only [parseVisAux.parseVisList]
      have n1 : named "visgroup" (kLeaf "name" name) = false := by kv_simp
      have n2 : named "visgroup" (kInt "visgroupid" id) = false := by kv_simp
      have n3 : named "visgroup" (kLeaf "color" color.str) = false := by kv_simp
      simp only [n1, n2, n3, Bool.false_eq_true, if_false]
      exact parseVisList_export children h.2
    rw [e4]
    rfl
theorem parseVisList_export : (vs : List Vis) → VisListOK vs = true →
    parseVisAux.parseVisList (exportVisAux.exportVisList vs) = .ok vs
  | [], _ => rfl
  | v :: vs, h => by
    simp only [VisListOK, Bool.and_eq_true] at h
    have hn : named "visgroup" (exportVisAux v) = true := (exportVisList_blocks [v] _ (by simp [exportVisAux.exportVisList])).2
    simp only [exportVisAux.exportVisList, parseVisAux.parseVisList, hn, if_true]
    rw [parseVis_export v h.1, parseVisList_export vs h.2]
    rfl
end



theorem splitOnAux_pre (sep : Char) (s rest cur : Str) (h : sep ∉ s) :
    splitOnAux sep (s ++ rest) cur = splitOnAux sep rest (s.reverse ++ cur) := by
  induction s generalizing cur with
  | nil => rfl
  | cons c cs ih =>
    have hc : (c == sep) = false := by
      simp only [beq_eq_false_iff_ne, ne_eq]; intro e; exact h (by simp [e])
    have hcs : sep ∉ cs := fun hm => h (by simp [hm])
    simp only [List.cons_append, splitOnAux, hc, Bool.false_eq_true, if_false]
    rw [ih _ hcs]; simp

theorem splitOn_single (sep : Char) (s : Str) (h : sep ∉ s) : splitOn sep s = [s] := by
  have := splitOnAux_pre sep s [] [] h
  simp only [List.append_nil] at this
  simp [splitOn, this, splitOnAux]

theorem splitOn_cons (sep : Char) (a rest : Str) (h : sep ∉ a) :
    splitOn sep (a ++ sep :: rest) = a :: splitOn sep rest := by
  unfold splitOn
  rw [splitOnAux_pre sep a _ [] h]
  simp [splitOnAux]

theorem splitFirst_pre (sep : Char) (s rest cur : Str) (h : sep ∉ s) :
    splitFirst sep (s ++ sep :: rest) cur = ((s.reverse ++ cur).reverse, some rest) := by
  induction s generalizing cur with
  | nil => simp [splitFirst]
  | cons c cs ih =>
    have hc : (c == sep) = false := by
      simp only [beq_eq_false_iff_ne, ne_eq]; intro e; exact h (by simp [e])
    have hcs : sep ∉ cs := fun hm => h (by simp [hm])
    simp only [List.cons_append, splitFirst, hc, Bool.false_eq_true, if_false]
    rw [ih _ hcs]; simp

theorem showInt_chars (i : Int) : ∀ c ∈ showInt i, c.isDigit = true ∨ c = '-' := by
  intro c hc
  cases i with
  | ofNat n =>
    left
    have := showNat_all_digit n
    simp only [List.all_eq_true] at this
    exact this c hc
  | negSucc n =>
    simp only [showInt, List.mem_cons] at hc
    rcases hc with rfl | hc
    · right; rfl
    · left
      have := showNat_all_digit (n + 1)
      simp only [List.all_eq_true] at this
      exact this c hc

theorem notMem_showInt (c : Char) (i : Int) (h1 : c.isDigit = false) (h2 : c ≠ '-') : c ∉ showInt i := by
  intro hm
  rcases showInt_chars i c hm with h | h
  · simp [h] at h1
  · exact h2 h

/-- A name that `Output.parse_name` reads back unchanged: no `instance:` prefix. -/
def PlainName (n : Str) : Bool := !(lit "instance:").isPrefixOf (lower n)

/-- An instance-name part: non-empty, no `;`. -/
def InstOK (i : Str) : Bool := !i.contains ';'

def nameOK (inst : Option Str) (name : Str) : Bool :=
  match inst with
  | some i => if i.isEmpty then PlainName name else InstOK i
  | none => PlainName name

def normInst (inst : Option Str) : Option Str :=
  match inst with
  | some i => if i.isEmpty then none else some i
  | none => none

theorem lower_append (a b : Str) : lower (a ++ b) = lower a ++ lower b := by simp [lower]

theorem parseName_expName (inst : Option Str) (name : Str) (h : nameOK inst name = true) :
    parseName (expName inst name) = .ok (normInst inst, name) := by
  cases inst with
  | none =>
    simp only [nameOK, PlainName, Bool.not_eq_true'] at h
    simp [expName, parseName, h, normInst]
  | some i =>
    by_cases hi : i.isEmpty = true
    · simp only [nameOK, hi, if_true, PlainName, Bool.not_eq_true'] at h
      simp [expName, parseName, h, normInst, hi]
    · simp only [nameOK, hi, Bool.false_eq_true, if_false, InstOK, Bool.not_eq_true'] at h
      have hi' : i.isEmpty = false := by simpa using hi
      simp only [expName, hi', Bool.false_eq_true, if_false, parseName, normInst]
      have hp : (lit "instance:").isPrefixOf (lower (lit "instance:" ++ i ++ ';' :: name)) = true := by
        rw [List.append_assoc, lower_append]
        have : lower (lit "instance:") = lit "instance:" := by decide
        rw [this]
        simp [List.isPrefixOf_iff_prefix]
      rw [hp]
      simp only [if_true]
      have hs : ';' ∉ lit "instance:" ++ i := by
        simp only [List.mem_append, not_or]
        refine ⟨by decide, ?_⟩
        simpa [List.contains_iff_mem] using h
      rw [splitFirst_pre ';' (lit "instance:" ++ i) name [] hs]
      simp [lit]




def expIn (o : Out) : Str := expName o.instIn o.input

def OutOK (o : Out) : Bool :=
  nameOK o.instOut o.output && nameOK o.instIn o.input && isNum o.delay &&
  [o.target, expIn o, o.params, o.delay].all (fun f => !f.contains '\x1b' && (!o.comma || !f.contains ','))

theorem projOut_eq (o : Out) : projOut o = { o with instOut := normInst o.instOut, instIn := normInst o.instIn } := by
  cases o with
  | mk output instOut target input instIn params delay times comma =>
    cases instOut <;> cases instIn <;> simp [projOut, normInst]

theorem parseOut_export (o : Out) (h : OutOK o = true) : parseOut (exportOut o) = .ok (projOut o) := by
  simp only [OutOK, Bool.and_eq_true, List.all_cons, List.all_nil, Bool.and_true, Bool.not_eq_true',
    Bool.or_eq_true, List.contains_eq_mem, decide_eq_false_iff_not] at h
  obtain ⟨⟨⟨hn1, hn2⟩, hd⟩, ⟨ht1, ht2⟩, ⟨hi1, hi2⟩, ⟨hp1, hp2⟩, ⟨hd1, hd2⟩⟩ := h
  have hte : ('\x1b' : Char) ∉ showInt o.times := notMem_showInt _ _ (by decide) (by decide)
  have htc : (',' : Char) ∉ showInt o.times := notMem_showInt _ _ (by decide) (by decide)
  rw [projOut_eq]
  unfold exportOut parseOut
  simp only [expIn] at hi1 hi2
  cases hc : o.comma with
  | false =>
    have hsep : outSep false = '\x1b' := rfl
    simp only [hsep, List.append_assoc, List.singleton_append]
    have hesc : outEsc (o.target ++ '\x1b' :: (expName o.instIn o.input ++ '\x1b' :: (o.params ++ '\x1b' :: (o.delay ++ '\x1b' :: showInt o.times)))) = true := by
      simp [outEsc]
    have hv : outVals (o.target ++ '\x1b' :: (expName o.instIn o.input ++ '\x1b' :: (o.params ++ '\x1b' :: (o.delay ++ '\x1b' :: showInt o.times))))
        = [o.target, expName o.instIn o.input, o.params, o.delay, showInt o.times] := by
      unfold outVals
      rw [hesc]
      simp only [if_true]
      rw [splitOn_cons _ _ _ ht1, splitOn_cons _ _ _ hi1, splitOn_cons _ _ _ hp1, splitOn_cons _ _ _ hd1,
        splitOn_single _ _ hte]
    simp only [List.cons_append]
    rw [hv, hesc]
    simp only [outFields, outBuild]
    rw [parseName_expName _ _ hn1]
    simp only []
    rw [parseName_expName _ _ hn2]
    simp [hd, parseInt_showInt]
  | true =>
    have hsep : outSep true = ',' := rfl
    replace ht2 : ',' ∉ o.target := by simpa [hc] using ht2
    replace hi2 : ',' ∉ expName o.instIn o.input := by simpa [hc] using hi2
    replace hp2 : ',' ∉ o.params := by simpa [hc] using hp2
    replace hd2 : ',' ∉ o.delay := by simpa [hc] using hd2
    simp only [hsep, List.append_assoc, List.singleton_append]
    have hesc : outEsc (o.target ++ ',' :: (expName o.instIn o.input ++ ',' :: (o.params ++ ',' :: (o.delay ++ ',' :: showInt o.times)))) = false := by
      simp [outEsc, ht1, hi1, hp1, hd1, hte]
    have hv : outVals (o.target ++ ',' :: (expName o.instIn o.input ++ ',' :: (o.params ++ ',' :: (o.delay ++ ',' :: showInt o.times))))
        = [o.target, expName o.instIn o.input, o.params, o.delay, showInt o.times] := by
      unfold outVals
      rw [hesc]
      simp only [Bool.false_eq_true, if_false]
      rw [splitOn_cons _ _ _ ht2, splitOn_cons _ _ _ hi2, splitOn_cons _ _ _ hp2, splitOn_cons _ _ _ hd2,
        splitOn_single _ _ htc]
    simp only [List.cons_append]
    rw [hv, hesc]
    simp only [outFields, outBuild]
    rw [parseName_expName _ _ hn1]
    simp only []
    rw [parseName_expName _ _ hn2]
    simp [hd, parseInt_showInt]




theorem splitSubAux_pre (p : Char) (ps : Str) (s rest cur : Str) (n : Nat) (h : p ∉ s) :
    splitSubAux (p :: ps) (n + s.length) (s ++ rest) cur = splitSubAux (p :: ps) n rest (s.reverse ++ cur) := by
  induction s generalizing cur with
  | nil => rfl
  | cons c cs ih =>
    have hc : c ≠ p := fun e => h (by simp [e])
    have hcs : p ∉ cs := fun hm => h (by simp [hm])
    have hpre : (p :: ps).isPrefixOf (c :: (cs ++ rest)) = false := by
      simp [List.isPrefixOf, Ne.symm hc]
    simp only [List.length_cons, ← Nat.add_assoc, List.cons_append, splitSubAux, hpre, Bool.false_eq_true, if_false]
    rw [ih _ hcs]; simp

theorem splitSubAux_match (pat rest cur : Str) (n : Nat) (hp : pat ≠ []) :
    splitSubAux pat (n + 1) (pat ++ rest) cur = cur.reverse :: splitSubAux pat n rest [] := by
  cases pat with
  | nil => exact absurd rfl hp
  | cons p ps =>
    have hpre : (p :: ps).isPrefixOf (p :: (ps ++ rest)) = true := by
      simp [List.isPrefixOf_iff_prefix]
    simp only [List.cons_append, splitSubAux, hpre, if_true]
    simp

theorem splitSubAux_end (p : Char) (ps : Str) (s cur : Str) (n : Nat) (h : p ∉ s) :
    splitSubAux (p :: ps) (n + s.length) s cur = [(s.reverse ++ cur).reverse] := by
  have := splitSubAux_pre p ps s [] cur n h
  simp only [List.append_nil] at this
  rw [this]
  cases n <;> simp [splitSubAux]

theorem splitSub_three (p : Char) (ps : Str) (a b c : Str) (ha : p ∉ a) (hb : p ∉ b) (hc : p ∉ c) :
    splitSub (p :: ps) (a ++ ((p :: ps) ++ (b ++ ((p :: ps) ++ c)))) = [a, b, c] := by
  unfold splitSub
  have hl : (a ++ ((p :: ps) ++ (b ++ ((p :: ps) ++ c)))).length + 1
      = ((((c.length + 1) + 1 + b.length) + 1) + a.length) + (2 * ps.length) := by
    simp only [List.length_append, List.length_cons]; omega
  rw [hl]
  -- extra fuel is harmless: generalise the surplus
  have key : ∀ extra : Nat,
      splitSubAux (p :: ps) (((((extra + c.length) + 1) + b.length) + 1) + a.length)
        (a ++ ((p :: ps) ++ (b ++ ((p :: ps) ++ c)))) [] = [a, b, c] := by
    intro extra
    rw [splitSubAux_pre p ps a _ [] _ ha]
    rw [splitSubAux_match (p :: ps) _ _ _ (by simp)]
    rw [splitSubAux_pre p ps b _ [] _ hb]
    rw [splitSubAux_match (p :: ps) _ _ _ (by simp)]
    rw [splitSubAux_end p ps c [] _ hc]
    simp
  have := key (2 * ps.length + 1)
  have e : ((((c.length + 1) + 1 + b.length) + 1) + a.length) + (2 * ps.length)
      = ((((2 * ps.length + 1 + c.length) + 1) + b.length) + 1) + a.length := by omega
  rw [e]; exact this



def UVOK (a : UV) : Bool := TokOK a.x && TokOK a.y && TokOK a.z && TokOK a.offset && TokOK a.scale

theorem dropWhile_eq_self_of_head {p : Char → Bool} {s : Str} {c : Char} {r : Str} (h : s = c :: r) (hc : p c = false) :
    s.dropWhile p = s := by
  subst h; simp [List.dropWhile, hc]

theorem lstripC_bracket (x : Str) (hx : TokOK x = true) : lstripC '[' ('[' :: x) = x := by
  obtain ⟨c, r, h1, hc⟩ := head_of_append (tok_ne_nil hx) []
  simp only [List.append_nil] at h1
  have ho := tok_noOpen hx c hc
  have : (c == '[') = false := by
    simp only [beq_eq_false_iff_ne, ne_eq]; intro e; subst e; simp [isOpenBr] at ho
  simp only [lstripC, List.dropWhile, beq_self_eq_true]
  exact dropWhile_eq_self_of_head h1 this

theorem rstripC_bracket (x : Str) (hx : TokOK x = true) : rstripC ']' (x ++ [']']) = x := by
  obtain ⟨c, r, h1, hc⟩ := last_of_append (tok_ne_nil hx) []
  simp only [List.nil_append] at h1
  have ho := tok_noClose hx c hc
  have : (c == ']') = false := by
    simp only [beq_eq_false_iff_ne, ne_eq]; intro e; subst e; simp [isCloseBr] at ho
  simp only [rstripC, List.reverse_append, List.reverse_cons, List.reverse_nil, List.nil_append,
    List.singleton_append, List.dropWhile, beq_self_eq_true]
  rw [dropWhile_eq_self_of_head h1 this]
  simp

theorem noWs_cons {c : Char} {x : Str} (hc : isWs c = false) (hx : NoWs x) : NoWs (c :: x) := by
  intro d hd
  simp only [List.mem_cons] at hd
  rcases hd with rfl | hd
  · exact hc
  · exact hx d hd

theorem noWs_snoc {c : Char} {x : Str} (hc : isWs c = false) (hx : NoWs x) : NoWs (x ++ [c]) := by
  intro d hd
  simp only [List.mem_append, List.mem_singleton] at hd
  rcases hd with hd | rfl
  · exact hx d hd
  · exact hc

theorem UV.str_eq (a : UV) : a.str = unwords ['[' :: a.x, a.y, a.z, a.offset ++ [']'], a.scale] := by
  simp [UV.str, wrap, unwords, joinWith, sp]

theorem parseUV_str (a : UV) (h : UVOK a = true) : parseUV a.str = .ok a := by
  simp only [UVOK, Bool.and_eq_true] at h
  obtain ⟨⟨⟨⟨hx, hy⟩, hz⟩, ho⟩, hs⟩ := h
  rw [UV.str_eq, parseUV, splitWs_unwords]
  · simp only []
    rw [lstripC_bracket _ hx, rstripC_bracket _ ho]
    simp [tok_isNum hx, tok_isNum hy, tok_isNum hz, tok_isNum ho, tok_isNum hs]
  · intro t ht
    simp only [List.mem_cons, List.mem_nil_iff, or_false] at ht
    rcases ht with rfl | rfl | rfl | rfl | rfl
    · exact ⟨by simp, noWs_cons (by decide) (tok_noWs hx)⟩
    · exact ⟨tok_ne_nil hy, tok_noWs hy⟩
    · exact ⟨tok_ne_nil hz, tok_noWs hz⟩
    · exact ⟨by simp, noWs_snoc (by decide) (tok_noWs ho)⟩
    · exact ⟨tok_ne_nil hs, tok_noWs hs⟩

/-- `)` does not occur in the text of a vector of tokens. -/
theorem v3_no_close (v : V3) (h : V3OK v = true) : ')' ∉ v.str := by
  obtain ⟨hx, hy, hz⟩ := v3ok_parts h
  rw [V3.str_eq]
  intro hm
  simp only [List.mem_append, List.mem_cons] at hm
  have nc : ∀ t, TokOK t = true → ')' ∉ t := by
    intro t ht hm
    have := tok_noClose ht _ hm
    simp [isCloseBr] at this
  rcases hm with hm | hm | hm | hm | hm
  · exact nc _ hx hm
  · exact absurd hm (by decide)
  · exact nc _ hy hm
  · exact absurd hm (by decide)
  · exact nc _ hz hm




/-- v1: a face without displacement and without Strata point data. -/
def SideOK1 (s : Side) : Bool :=
  V3OK s.p0 && V3OK s.p1 && V3OK s.p2 && UVOK s.uaxis && UVOK s.vaxis && isNum s.rot &&
  s.points.isNone && s.disp.isNone

def sideLeaves (s : Side) : List KV := [
    kInt "id" s.id,
    kLeaf "plane" (wrap '(' ')' s.p0.str ++ ' ' :: wrap '(' ')' s.p1.str ++ ' ' :: wrap '(' ')' s.p2.str),
    kLeaf "material" s.mat,
    kLeaf "uaxis" s.uaxis.str,
    kLeaf "vaxis" s.vaxis.str,
    kLeaf "rotation" s.rot,
    kInt "lightmapscale" s.lightmap,
    kInt "smoothing_groups" s.smooth]

theorem parsePlanes_leaves (s : Side) (h0 : V3OK s.p0 = true) (h1 : V3OK s.p1 = true) (h2 : V3OK s.p2 = true) :
    parsePlanes (sideLeaves s) = .ok (s.p0, s.p1, s.p2) := by
  have e : getLeaf "plane" (sideLeaves s) =
      some (wrap '(' ')' s.p0.str ++ ' ' :: wrap '(' ')' s.p1.str ++ ' ' :: wrap '(' ')' s.p2.str) := by
    unfold sideLeaves; kv_simp
  unfold parsePlanes
  rw [e]
  have full : (wrap '(' ')' s.p0.str ++ ' ' :: wrap '(' ')' s.p1.str ++ ' ' :: wrap '(' ')' s.p2.str)
      = '(' :: ((s.p0.str ++ ((lit ") (") ++ (s.p1.str ++ ((lit ") (") ++ s.p2.str)))) ++ [')']) := by
    simp [wrap, lit]
  have e2 : ((wrap '(' ')' s.p0.str ++ ' ' :: wrap '(' ')' s.p1.str ++ ' ' :: wrap '(' ')' s.p2.str).drop 1).dropLast
      = s.p0.str ++ ((lit ") (") ++ (s.p1.str ++ ((lit ") (") ++ s.p2.str))) := by
    rw [full]
    simp only [List.drop_succ_cons, List.drop_zero, List.dropLast_concat]
  simp only [Option.getD_some]
  rw [e2]
  have : lit ") (" = ')' :: [' ', '('] := rfl
  rw [this, splitSub_three ')' [' ', '('] _ _ _ (v3_no_close _ h0) (v3_no_close _ h1) (v3_no_close _ h2)]
  simp only []
  rw [parseV3_str _ _ h0, parseV3_str _ _ h1, parseV3_str _ _ h2]

theorem parseSide_export1 (mb : Bool) (s : Side) (h : SideOK1 s = true) :
    parseSide (exportSide mb s) = .ok s := by
  simp only [SideOK1, Bool.and_eq_true, Option.isNone_iff_eq_none] at h
  obtain ⟨⟨⟨⟨⟨⟨⟨h0, h1⟩, h2⟩, hu⟩, hv⟩, hr⟩, hp⟩, hd⟩ := h
  have hexp : exportSide mb s = KV.block "side".toList (sideLeaves s) := by
    simp [exportSide, hp, hd, sideLeaves, kBlock]
  rw [hexp]
  simp only [parseSide]
  rw [parsePlanes_leaves s h0 h1 h2]
  simp only []
  have eu : getLeaf "uaxis" (sideLeaves s) = some s.uaxis.str := by unfold sideLeaves; kv_simp
  have ev : getLeaf "vaxis" (sideLeaves s) = some s.vaxis.str := by unfold sideLeaves; kv_simp
  rw [eu, ev]
  simp only [Option.getD_some]
  rw [parseUV_str _ hu, parseUV_str _ hv]
  simp only []
  have ed : parseSideDisp (sideLeaves s) = .ok none := by
    unfold parseSideDisp sideLeaves; kv_simp
  have ep : parseSidePoints (sideLeaves s) = .ok none := by
    unfold parseSidePoints sideLeaves; kv_simp
  rw [ed, ep]
  simp only []
  have e1 : getInt "id" (-1) (sideLeaves s) = s.id := by
    unfold sideLeaves; kv_simp; simp [parseInt_showInt]
  have e2 : getLeaf "material" (sideLeaves s) = some s.mat := by unfold sideLeaves; kv_simp
  have e3 : getFloat "rotation" ['0'] (sideLeaves s) = s.rot := by
    unfold sideLeaves; kv_simp; simp [hr]
  have e4 : getInt "lightmapscale" 16 (sideLeaves s) = s.lightmap := by
    unfold sideLeaves; kv_simp; simp [parseInt_showInt]
  have e5 : getInt "smoothing_groups" 0 (sideLeaves s) = s.smooth := by
    unfold sideLeaves; kv_simp; simp [parseInt_showInt]
  rw [e1, e2, e3, e4, e5]
  cases s
  simp_all


end C06
