import Srctools.Model.C06
/-! # C06 — helper lemmas for the tree-level round trip -/
set_option linter.unusedSimpArgs false
set_option linter.unusedVariables false
open C06
namespace C06


/-! ### integers -/

theorem showNat_all_digit (n : Nat) : (showNat n).all Char.isDigit = true := by
  simp only [showNat, List.all_eq_true]
  intro c hc
  exact Nat.isDigit_of_mem_toDigits (by decide) (by decide) hc

theorem showNat_ne_nil (n : Nat) : showNat n ≠ [] := Nat.toDigits_ne_nil

theorem parseNat_showNat (n : Nat) : parseNat? (showNat n) = some n := by
  have h1 := showNat_all_digit n
  have h2 : (showNat n).isEmpty = false := by
    cases h : showNat n with
    | nil => exact absurd h (showNat_ne_nil n)
    | cons a b => rfl
  unfold parseNat?
  rw [h1, h2]
  simp [showNat, Nat.ofDigitChars_ten_toDigits]

theorem showNat_head_digit (n : Nat) : ∃ c r, showNat n = c :: r ∧ c.isDigit = true := by
  cases h : showNat n with
  | nil => exact absurd h (showNat_ne_nil n)
  | cons a b =>
    refine ⟨a, b, rfl, ?_⟩
    have := showNat_all_digit n
    rw [h] at this
    simp at this
    exact this.1

theorem parseInt_showInt (i : Int) : parseInt? (showInt i) = some i := by
  cases i with
  | ofNat n =>
    obtain ⟨c, r, h, hd⟩ := showNat_head_digit n
    have hp := parseNat_showNat n
    simp only [showInt]
    rw [h] at hp ⊢
    have h1 : c ≠ '-' := by intro e; subst e; simp at hd
    have h2 : c ≠ '+' := by intro e; subst e; simp at hd
    unfold parseInt?
    split
    · rename_i heq; cases heq; exact absurd rfl h1
    · rename_i heq; cases heq; exact absurd rfl h2
    · simp [hp]
  | negSucc n =>
    simp only [showInt, parseInt?, parseNat_showNat]
    simp [Int.negSucc_eq]



/-! ### tokens and whitespace -/

/-- a character `escape_text` leaves alone in both modes (not one of the escaped images) -/
def plainC (c : Char) : Bool :=
  !(c == '"' || c == '\\' || c == '\n' || c == '\t' || c == '\x0b' || c == '\x08' || c == '\r' ||
    c == '\x0c' || c == '\x07' || c == '\'')

def plainStr (s : Str) : Bool := s.all plainC

/-- no CR / LF: what `Keyvalues.parse` demands of a key (`newline_keys=False`) -/
def noNlStr (s : Str) : Bool := !(s.contains '\n' || s.contains '\r')

/-- A numeric token: accepted by `float()`, non-empty, free of whitespace, brackets and of the
characters `escape_text` would rewrite (numbers are written without escaping). -/
def TokOK (t : Str) : Bool :=
  isNum t && !t.isEmpty && t.all (fun c => !isWs c && !isOpenBr c && !isCloseBr c && plainC c)

def NoWs (t : Str) : Prop := ∀ c ∈ t, isWs c = false

theorem tok_isNum {t} (h : TokOK t = true) : C06.isNum t = true := by
  simp only [TokOK, Bool.and_eq_true] at h; exact h.1.1
theorem tok_ne_nil {t} (h : TokOK t = true) : t ≠ [] := by
  simp only [TokOK, Bool.and_eq_true] at h; intro e; simp [e] at h
theorem tok_chars {t} (h : TokOK t = true) :
    ∀ c ∈ t, isWs c = false ∧ isOpenBr c = false ∧ isCloseBr c = false ∧ plainC c = true := by
  simp only [TokOK, Bool.and_eq_true, List.all_eq_true, Bool.not_eq_true'] at h
  intro c hc
  have := h.2 c hc
  exact ⟨this.1.1.1, this.1.1.2, this.1.2, this.2⟩
theorem tok_noWs {t} (h : TokOK t = true) : NoWs t := fun c hc => (tok_chars h c hc).1
theorem tok_noOpen {t} (h : TokOK t = true) : ∀ c ∈ t, isOpenBr c = false := fun c hc => (tok_chars h c hc).2.1
theorem tok_noClose {t} (h : TokOK t = true) : ∀ c ∈ t, isCloseBr c = false := fun c hc => (tok_chars h c hc).2.2.1
theorem tok_plain {t} (h : TokOK t = true) : plainStr t = true := by
  simp only [plainStr, List.all_eq_true]
  exact fun c hc => (tok_chars h c hc).2.2.2

theorem splitWsAux_tok (t : Str) (ht : NoWs t) (rest cur : Str) :
    splitWsAux (t ++ rest) cur = splitWsAux rest (t.reverse ++ cur) := by
  induction t generalizing cur with
  | nil => rfl
  | cons c cs ih =>
    have hc : isWs c = false := ht c (by simp)
    have hcs : NoWs cs := fun d hd => ht d (by simp [hd])
    simp only [List.cons_append, splitWsAux, hc, Bool.false_eq_true, if_false]
    rw [ih hcs]
    simp

theorem splitWs_unwords (toks : List Str) (h : ∀ t ∈ toks, t ≠ [] ∧ NoWs t) :
    splitWs (unwords toks) = toks := by
  unfold splitWs
  induction toks with
  | nil => rfl
  | cons a r ih =>
    have ha := h a (by simp)
    have hr : ∀ t ∈ r, t ≠ [] ∧ NoWs t := fun t ht => h t (by simp [ht])
    cases r with
    | nil =>
      simp only [unwords, joinWith]
      have := splitWsAux_tok a ha.2 [] []
      simp only [List.append_nil] at this
      rw [this]
      cases hrev : a.reverse with
      | nil => simp at hrev; exact absurd hrev ha.1
      | cons x y => simp [splitWsAux, ← hrev, ha.1]
    | cons b r' =>
      simp only [unwords, joinWith, sp] at ih ⊢
      rw [List.append_assoc, splitWsAux_tok a ha.2]
      simp only [List.append_nil, List.cons_append, List.nil_append]
      have hws : isWs ' ' = true := by decide
      cases hrev : a.reverse with
      | nil => simp at hrev; exact absurd hrev ha.1
      | cons x y =>
        simp only [splitWsAux, hws, if_true, List.isEmpty_cons, Bool.false_eq_true, if_false]
        rw [ih hr, ← hrev]
        simp

theorem stripL_cons {c : Char} {r : Str} (h : isWs c = false) : stripL (c :: r) = c :: r := by
  simp [stripL, List.dropWhile, h]

theorem strip_of_ends (s : Str) (c : Char) (r : Str) (d : Char) (q : Str)
    (h1 : s = c :: r) (h2 : s.reverse = d :: q) (hc : isWs c = false) (hd : isWs d = false) :
    strip s = s := by
  unfold strip
  rw [h1, stripL_cons hc, ← h1, h2, stripL_cons hd, ← h2]
  simp

theorem head_of_append {a : Str} (h : a ≠ []) (rest : Str) : ∃ c r, a ++ rest = c :: r ∧ c ∈ a := by
  cases a with
  | nil => exact absurd rfl h
  | cons c cs => exact ⟨c, cs ++ rest, rfl, by simp⟩

theorem last_of_append {z : Str} (h : z ≠ []) (pre : Str) :
    ∃ d q, (pre ++ z).reverse = d :: q ∧ d ∈ z := by
  have hz : z.reverse ≠ [] := by simpa using h
  obtain ⟨d, q, hq, hd⟩ := head_of_append hz pre.reverse
  exact ⟨d, q, by simpa using hq, by simpa using hd⟩

def V3OK (v : V3) : Bool := TokOK v.x && TokOK v.y && TokOK v.z

theorem v3ok_parts {v : V3} (h : V3OK v = true) : TokOK v.x = true ∧ TokOK v.y = true ∧ TokOK v.z = true := by
  simp [V3OK] at h; exact ⟨h.1.1, h.1.2, h.2⟩

theorem V3.str_eq (v : V3) : v.str = v.x ++ (' ' :: (v.y ++ (' ' :: v.z))) := by
  simp [V3.str, V3.toks, unwords, joinWith, sp]

theorem splitWs_v3 {v : V3} (h : V3OK v = true) : splitWs v.str = [v.x, v.y, v.z] := by
  obtain ⟨hx, hy, hz⟩ := v3ok_parts h
  have := splitWs_unwords [v.x, v.y, v.z] (by
    intro t ht
    simp at ht
    rcases ht with rfl | rfl | rfl
    · exact ⟨(tok_ne_nil hx), (tok_noWs hx)⟩
    · exact ⟨(tok_ne_nil hy), (tok_noWs hy)⟩
    · exact ⟨(tok_ne_nil hz), (tok_noWs hz)⟩)
  simpa [V3.str, V3.toks] using this

theorem vec3Of_split (d v : V3) (h : V3OK v = true) : vec3Of d (splitWs v.str) = v := by
  obtain ⟨hx, hy, hz⟩ := v3ok_parts h
  rw [splitWs_v3 h]
  simp [vec3Of, (tok_isNum hx), (tok_isNum hy), (tok_isNum hz)]

theorem parseV3_str (d v : V3) (h : V3OK v = true) : parseV3 d v.str = v := by
  obtain ⟨hx, hy, hz⟩ := v3ok_parts h
  obtain ⟨c, r, h1, hc⟩ := head_of_append (tok_ne_nil hx) (' ' :: (v.y ++ (' ' :: v.z)))
  obtain ⟨e, q, h2, he⟩ := last_of_append (tok_ne_nil hz) (v.x ++ (' ' :: (v.y ++ [' '])))
  have hs : v.str = c :: r := by rw [V3.str_eq]; exact h1
  have hr : v.str.reverse = e :: q := by
    rw [V3.str_eq]; simpa using h2
  unfold parseV3
  rw [strip_of_ends v.str c r e q hs hr ((tok_noWs hx) c hc) ((tok_noWs hz) e he)]
  have step1 : dropOpenBr v.str = v.str := by
    rw [hs]; simp [dropOpenBr, (tok_noOpen hx) c hc]
  have step2 : dropLastIf isCloseBr v.str = v.str := by
    unfold dropLastIf; rw [hr]; simp [(tok_noClose hz) e he]
  rw [step1, step2]
  exact vec3Of_split d v h

theorem parseV3_wrap (d v : V3) (o c : Char) (h : V3OK v = true)
    (ho : isOpenBr o = true) (hc : isCloseBr c = true) (wo : isWs o = false) (wc : isWs c = false) :
    parseV3 d (wrap o c v.str) = v := by
  unfold parseV3
  rw [strip_of_ends (wrap o c v.str) o (v.str ++ [c]) c (v.str.reverse ++ [o]) rfl (by simp [wrap]) wo wc]
  have step1 : dropOpenBr (wrap o c v.str) = v.str ++ [c] := by
    simp [wrap, dropOpenBr, ho]
  have step2 : dropLastIf isCloseBr (v.str ++ [c]) = v.str := by
    unfold dropLastIf; simp [hc]
  rw [step1, step2]
  exact vec3Of_split d v h




/-! ### generic list lemmas -/

theorem findLast_append {α} (p : α → Bool) (a b : List α) :
    findLast p (a ++ b) = match findLast p b with
      | some r => some r
      | none => findLast p a := by
  induction a with
  | nil => simp [findLast]; cases findLast p b <;> rfl
  | cons x xs ih =>
    simp only [List.cons_append, findLast, ih]
    cases findLast p b <;> rfl

theorem findLast_none_of_all {α} (p : α → Bool) (l : List α) (h : ∀ x ∈ l, p x = false) :
    findLast p l = none := by
  induction l with
  | nil => rfl
  | cons x xs ih =>
    simp only [findLast, ih (fun y hy => h y (by simp [hy])), h x (by simp)]
    simp

theorem findLast_append_right_none {α} (p : α → Bool) (a b : List α) (h : ∀ x ∈ b, p x = false) :
    findLast p (a ++ b) = findLast p a := by
  rw [findLast_append, findLast_none_of_all p b h]

theorem findLast_append_left_none {α} (p : α → Bool) (a b : List α) (h : ∀ x ∈ a, p x = false) :
    findLast p (a ++ b) = findLast p b := by
  rw [findLast_append, findLast_none_of_all p a h]
  cases findLast p b <;> rfl

theorem mapM_map_ok {α β γ} (f : α → β) (g : β → Except Err γ) (h : α → γ) (l : List α)
    (hl : ∀ a ∈ l, g (f a) = .ok (h a)) : (l.map f).mapM g = .ok (l.map h) := by
  induction l with
  | nil => rfl
  | cons a r ih =>
    simp only [List.map_cons, List.mapM_cons, hl a (by simp), ih (fun b hb => hl b (by simp [hb]))]
    rfl

theorem filter_map_all {α β} (f : α → β) (p : β → Bool) (l : List α) (h : ∀ a ∈ l, p (f a) = true) :
    (l.map f).filter p = l.map f := by
  induction l with
  | nil => rfl
  | cons a r ih => simp [h a (by simp), ih (fun b hb => h b (by simp [hb]))]

theorem filter_map_none {α β} (f : α → β) (p : β → Bool) (l : List α) (h : ∀ a ∈ l, p (f a) = false) :
    (l.map f).filter p = [] := by
  induction l with
  | nil => rfl
  | cons a r ih => simp [h a (by simp), ih (fun b hb => h b (by simp [hb]))]



/-- unfolding set for lookups on literal keys -/
macro "kv_simp" : tactic => `(tactic|
  simp [getV3, getInt, getBool, getFloat, getLeaf, getBlock, hasBlock, findKey, findLast, named, KV.fname, KV.name,
        KV.kids, kLeaf, kBlock, kInt, kBool, KV.isBlock, lower])

def CamOK (c : Cam) : Bool := V3OK c.pos && V3OK c.look

theorem parseCam_export (c : Cam) (h : CamOK c = true) : parseCam (exportCam c) = .ok c := by
  simp [CamOK] at h
  simp only [exportCam, kBlock, parseCam]
  have e1 : getV3 "position" v3zero [kLeaf "position" (wrap '[' ']' c.pos.str), kLeaf "look" (wrap '[' ']' c.look.str)] = c.pos := by
    kv_simp
    exact parseV3_wrap _ _ _ _ h.1 (by decide) (by decide) (by decide) (by decide)
  have e2 : getV3 "look" (mkV3 0 64 0) [kLeaf "position" (wrap '[' ']' c.pos.str), kLeaf "look" (wrap '[' ']' c.look.str)] = c.look := by
    kv_simp
    exact parseV3_wrap _ _ _ _ h.2 (by decide) (by decide) (by decide) (by decide)
  rw [e1, e2]




def CordonOK (c : Cordon) : Bool := V3OK c.min && V3OK c.max

theorem boolLookup_boolStr (b : Bool) : boolLookup (boolStr b) = some b := by
  cases b <;> decide

theorem parseCordon_export (c : Cordon) (h : CordonOK c = true) : parseCordon (exportCordon c) = .ok c := by
  simp [CordonOK] at h
  simp only [exportCordon, kBlock, parseCordon]
  have e0 : getBlock "box" [kLeaf "name" c.name, kBool "active" c.active,
      KV.block "box".toList [kLeaf "mins" (wrap '(' ')' c.min.str), kLeaf "maxs" (wrap '(' ')' c.max.str)]]
      = [kLeaf "mins" (wrap '(' ')' c.min.str), kLeaf "maxs" (wrap '(' ')' c.max.str)] := by kv_simp
  rw [e0]
  have e1 : getV3 "mins" v3zero [kLeaf "mins" (wrap '(' ')' c.min.str), kLeaf "maxs" (wrap '(' ')' c.max.str)] = c.min := by
    kv_simp
    exact parseV3_wrap _ _ _ _ h.1 (by decide) (by decide) (by decide) (by decide)
  have e2 : getV3 "maxs" (mkV3 128 128 128) [kLeaf "mins" (wrap '(' ')' c.min.str), kLeaf "maxs" (wrap '(' ')' c.max.str)] = c.max := by
    kv_simp
    exact parseV3_wrap _ _ _ _ h.2 (by decide) (by decide) (by decide) (by decide)
  rw [e1, e2]
  have e3 : getLeaf "name" [kLeaf "name" c.name, kBool "active" c.active,
      KV.block "box".toList [kLeaf "mins" (wrap '(' ')' c.min.str), kLeaf "maxs" (wrap '(' ')' c.max.str)]] = some c.name := by kv_simp
  have e4 : getBool "active" false [kLeaf "name" c.name, kBool "active" c.active,
      KV.block "box".toList [kLeaf "mins" (wrap '(' ')' c.min.str), kLeaf "maxs" (wrap '(' ')' c.max.str)]] = c.active := by
    kv_simp
    simp [boolLookup_boolStr]
  rw [e3, e4]
  rfl

def GroupOK (g : Group) : Bool := V3OK g.color

theorem parseGroup_export (g : Group) (h : GroupOK g = true) : parseGroup (exportGroup g) = .ok g := by
  simp only [GroupOK] at h
  simp only [exportGroup, kBlock, parseGroup]
  have e0 : getBlock "editor" [kInt "id" g.id, KV.block "editor".toList
      [kBool "visgroupshown" g.shown, kBool "visgroupautoshown" g.auto, kLeaf "color" g.color.str]]
      = [kBool "visgroupshown" g.shown, kBool "visgroupautoshown" g.auto, kLeaf "color" g.color.str] := by kv_simp
  rw [e0]
  have e1 : getInt "id" (-1) [kInt "id" g.id, KV.block "editor".toList
      [kBool "visgroupshown" g.shown, kBool "visgroupautoshown" g.auto, kLeaf "color" g.color.str]] = g.id := by
    kv_simp
    simp [parseInt_showInt]
  have e2 : getBool "visgroupshown" true [kBool "visgroupshown" g.shown, kBool "visgroupautoshown" g.auto, kLeaf "color" g.color.str] = g.shown := by
    kv_simp; simp [boolLookup_boolStr]
  have e3 : getBool "visgroupautoshown" true [kBool "visgroupshown" g.shown, kBool "visgroupautoshown" g.auto, kLeaf "color" g.color.str] = g.auto := by
    kv_simp; simp [boolLookup_boolStr]
  have e4 : getV3 "color" v3white [kBool "visgroupshown" g.shown, kBool "visgroupautoshown" g.auto, kLeaf "color" g.color.str] = g.color := by
    kv_simp; exact parseV3_str _ _ h
  rw [e1, e2, e3, e4]



mutual
def VisOK : Vis → Bool
  | .mk _ _ color children => V3OK color && VisListOK children
def VisListOK : List Vis → Bool
  | [] => true
  | v :: vs => VisOK v && VisListOK vs
end

theorem exportVisList_blocks (vs : List Vis) :
    ∀ k ∈ exportVisAux.exportVisList vs, k.isBlock = true ∧ named "visgroup" k = true := by
  induction vs with
  | nil => intro k hk; simp [exportVisAux.exportVisList] at hk
  | cons v r ih =>
    intro k hk
    simp only [exportVisAux.exportVisList, List.mem_cons] at hk
    rcases hk with rfl | hk
    · cases v with
      | mk n i c ch => simp [exportVisAux, KV.isBlock, named, KV.fname, KV.name, lit, lower]
    · exact ih k hk

theorem getLeaf_append_blocks (key : String) (a b : List KV) (hb : ∀ k ∈ b, k.isBlock = true) :
    getLeaf key (a ++ b) = getLeaf key a := by
  unfold getLeaf
  rw [findLast_append_right_none]
  intro x hx
  simp [hb x hx]

mutual
theorem parseVis_export : (v : Vis) → VisOK v = true → parseVisAux (exportVisAux v) = .ok v
  | .mk name id color children, h => by
    simp only [VisOK, Bool.and_eq_true] at h
    have hb := exportVisList_blocks children
    have hbl : ∀ k ∈ exportVisAux.exportVisList children, k.isBlock = true := fun k hk => (hb k hk).1
    simp only [exportVisAux, parseVisAux]
    have e1 : getInt "visgroupid" (-1) (kLeaf "name" name :: kInt "visgroupid" id :: kLeaf "color" color.str ::
        exportVisAux.exportVisList children) = id := by
      unfold getInt
      have := getLeaf_append_blocks "visgroupid" [kLeaf "name" name, kInt "visgroupid" id, kLeaf "color" color.str] _ hbl
      simp only [List.cons_append, List.nil_append] at this
      rw [this]
      kv_simp
      simp [parseInt_showInt]
    have e2 : getLeaf "name" (kLeaf "name" name :: kInt "visgroupid" id :: kLeaf "color" color.str ::
        exportVisAux.exportVisList children) = some name := by
      have := getLeaf_append_blocks "name" [kLeaf "name" name, kInt "visgroupid" id, kLeaf "color" color.str] _ hbl
      simp only [List.cons_append, List.nil_append] at this
      rw [this]
      kv_simp
    have e3 : getV3 "color" v3white (kLeaf "name" name :: kInt "visgroupid" id :: kLeaf "color" color.str ::
        exportVisAux.exportVisList children) = color := by
      unfold getV3
      have := getLeaf_append_blocks "color" [kLeaf "name" name, kInt "visgroupid" id, kLeaf "color" color.str] _ hbl
      simp only [List.cons_append, List.nil_append] at this
      rw [this]
      kv_simp
      exact parseV3_str _ _ h.1
    rw [e1, e2, e3]
    have e4 : parseVisAux.parseVisList (kLeaf "name" name :: kInt "visgroupid" id :: kLeaf "color" color.str ::
        exportVisAux.exportVisList children) = .ok children := by
      simp only [parseVisAux.parseVisList]
      have n1 : named "visgroup" (kLeaf "name" name) = false := by kv_simp
      have n2 : named "visgroup" (kInt "visgroupid" id) = false := by kv_simp
      have n3 : named "visgroup" (kLeaf "color" color.str) = false := by kv_simp
      simp only [n1, n2, n3, Bool.false_eq_true, if_false]
      exact parseVisList_export children h.2
    rw [e4]
    rfl
theorem parseVisList_export : (vs : List Vis) → VisListOK vs = true →
    parseVisAux.parseVisList (exportVisAux.exportVisList vs) = .ok vs
  | [], _ => rfl
  | v :: vs, h => by
    simp only [VisListOK, Bool.and_eq_true] at h
    have hn : named "visgroup" (exportVisAux v) = true := (exportVisList_blocks [v] _ (by simp [exportVisAux.exportVisList])).2
    simp only [exportVisAux.exportVisList, parseVisAux.parseVisList, hn, if_true]
    rw [parseVis_export v h.1, parseVisList_export vs h.2]
    rfl
end



theorem splitOnAux_pre (sep : Char) (s rest cur : Str) (h : sep ∉ s) :
    splitOnAux sep (s ++ rest) cur = splitOnAux sep rest (s.reverse ++ cur) := by
  induction s generalizing cur with
  | nil => rfl
  | cons c cs ih =>
    have hc : (c == sep) = false := by
      simp only [beq_eq_false_iff_ne, ne_eq]; intro e; exact h (by simp [e])
    have hcs : sep ∉ cs := fun hm => h (by simp [hm])
    simp only [List.cons_append, splitOnAux, hc, Bool.false_eq_true, if_false]
    rw [ih _ hcs]; simp

theorem splitOn_single (sep : Char) (s : Str) (h : sep ∉ s) : splitOn sep s = [s] := by
  have := splitOnAux_pre sep s [] [] h
  simp only [List.append_nil] at this
  simp [splitOn, this, splitOnAux]

theorem splitOn_cons (sep : Char) (a rest : Str) (h : sep ∉ a) :
    splitOn sep (a ++ sep :: rest) = a :: splitOn sep rest := by
  unfold splitOn
  rw [splitOnAux_pre sep a _ [] h]
  simp [splitOnAux]

theorem splitFirst_pre (sep : Char) (s rest cur : Str) (h : sep ∉ s) :
    splitFirst sep (s ++ sep :: rest) cur = ((s.reverse ++ cur).reverse, some rest) := by
  induction s generalizing cur with
  | nil => simp [splitFirst]
  | cons c cs ih =>
    have hc : (c == sep) = false := by
      simp only [beq_eq_false_iff_ne, ne_eq]; intro e; exact h (by simp [e])
    have hcs : sep ∉ cs := fun hm => h (by simp [hm])
    simp only [List.cons_append, splitFirst, hc, Bool.false_eq_true, if_false]
    rw [ih _ hcs]; simp

theorem showInt_chars (i : Int) : ∀ c ∈ showInt i, c.isDigit = true ∨ c = '-' := by
  intro c hc
  cases i with
  | ofNat n =>
    left
    have := showNat_all_digit n
    simp only [List.all_eq_true] at this
    exact this c hc
  | negSucc n =>
    simp only [showInt, List.mem_cons] at hc
    rcases hc with rfl | hc
    · right; rfl
    · left
      have := showNat_all_digit (n + 1)
      simp only [List.all_eq_true] at this
      exact this c hc

theorem notMem_showInt (c : Char) (i : Int) (h1 : c.isDigit = false) (h2 : c ≠ '-') : c ∉ showInt i := by
  intro hm
  rcases showInt_chars i c hm with h | h
  · simp [h] at h1
  · exact h2 h

/-- A name that `Output.parse_name` reads back unchanged: no `instance:` prefix. -/
def PlainName (n : Str) : Bool := !(lit "instance:").isPrefixOf (lower n)

/-- An instance-name part: non-empty, no `;`. -/
def InstOK (i : Str) : Bool := !i.contains ';'

def nameOK (inst : Option Str) (name : Str) : Bool :=
  match inst with
  | some i => if i.isEmpty then PlainName name else InstOK i
  | none => PlainName name

def normInst (inst : Option Str) : Option Str :=
  match inst with
  | some i => if i.isEmpty then none else some i
  | none => none

theorem lower_append (a b : Str) : lower (a ++ b) = lower a ++ lower b := by simp [lower]

theorem parseName_expName (inst : Option Str) (name : Str) (h : nameOK inst name = true) :
    parseName (expName inst name) = .ok (normInst inst, name) := by
  cases inst with
  | none =>
    simp only [nameOK, PlainName, Bool.not_eq_true'] at h
    simp [expName, parseName, h, normInst]
  | some i =>
    by_cases hi : i.isEmpty = true
    · simp only [nameOK, hi, if_true, PlainName, Bool.not_eq_true'] at h
      simp [expName, parseName, h, normInst, hi]
    · simp only [nameOK, hi, Bool.false_eq_true, if_false, InstOK, Bool.not_eq_true'] at h
      have hi' : i.isEmpty = false := by simpa using hi
      simp only [expName, hi', Bool.false_eq_true, if_false, parseName, normInst]
      have hp : (lit "instance:").isPrefixOf (lower (lit "instance:" ++ i ++ ';' :: name)) = true := by
        rw [List.append_assoc, lower_append]
        have : lower (lit "instance:") = lit "instance:" := by decide
        rw [this]
        simp [List.isPrefixOf_iff_prefix]
      rw [hp]
      simp only [if_true]
      have hs : ';' ∉ lit "instance:" ++ i := by
        simp only [List.mem_append, not_or]
        refine ⟨by decide, ?_⟩
        simpa [List.contains_iff_mem] using h
      rw [splitFirst_pre ';' (lit "instance:" ++ i) name [] hs]
      simp [lit]




def expIn (o : Out) : Str := expName o.instIn o.input



theorem splitOnAux_ne_nil (sep : Char) (s cur : Str) : splitOnAux sep s cur ≠ [] := by
  induction s generalizing cur with
  | nil => simp [splitOnAux]
  | cons c cs ih =>
    simp only [splitOnAux]
    split
    · simp
    · exact ih _

theorem splitOnAux_append (sep : Char) (a b cur : Str) :
    splitOnAux sep (a ++ sep :: b) cur = splitOnAux sep a cur ++ splitOn sep b := by
  induction a generalizing cur with
  | nil => simp [splitOnAux, splitOn]
  | cons c cs ih =>
    simp only [List.cons_append, splitOnAux]
    split
    · rw [ih]; simp
    · exact ih _

theorem splitOn_append (sep : Char) (a b : Str) :
    splitOn sep (a ++ sep :: b) = splitOn sep a ++ splitOn sep b := splitOnAux_append sep a b []

theorem joinWith_cons_ne (sep a : Str) (l : List Str) (h : l ≠ []) :
    joinWith sep (a :: l) = a ++ sep ++ joinWith sep l := by
  cases l with
  | nil => exact absurd rfl h
  | cons b r => rfl

theorem join_splitAux (sep : Char) (s cur : Str) :
    joinWith [sep] (splitOnAux sep s cur) = cur.reverse ++ s := by
  induction s generalizing cur with
  | nil => simp [splitOnAux, joinWith]
  | cons c cs ih =>
    simp only [splitOnAux]
    split
    · rename_i hc
      have : c = sep := by simpa using hc
      subst this
      rw [joinWith_cons_ne _ _ _ (splitOnAux_ne_nil _ _ _), ih]
      simp
    · rw [ih]; simp

theorem join_split (sep : Char) (s : Str) : joinWith [sep] (splitOn sep s) = s := by
  have := join_splitAux sep s []
  simpa [splitOn] using this


/-- an output whose fields survive: instance parts well formed, a numeric delay, no ESC anywhere;
with the comma separator no comma in target / input / delay (commas in the *parameter* are
re-joined by the reader). -/
def OutOK (o : Out) : Bool :=
  nameOK o.instOut o.output && nameOK o.instIn o.input && TokOK o.delay &&
  [o.target, expIn o, o.params, o.delay].all (fun f => !f.contains '\x1b') &&
  (!o.comma || [o.target, expIn o, o.delay].all (fun f => !f.contains ',')) &&
  noNlStr (expName o.instOut o.output)

theorem projOut_eq (o : Out) : projOut o = { o with instOut := normInst o.instOut, instIn := normInst o.instIn } := by
  cases o with
  | mk output instOut target input instIn params delay times comma =>
    cases instOut <;> cases instIn <;> simp [projOut, normInst]

theorem parseOut_export (o : Out) (h : OutOK o = true) : parseOut (exportOut o) = .ok (projOut o) := by
  simp only [OutOK, Bool.and_eq_true, List.all_cons, List.all_nil, Bool.and_true, Bool.not_eq_true',
    Bool.or_eq_true, List.contains_eq_mem, decide_eq_false_iff_not] at h
  obtain ⟨⟨⟨⟨⟨hn1, hn2⟩, hd⟩, ht1, hi1, hp1, hd1⟩, hcomma⟩, _hnl⟩ := h
  have hte : ('\x1b' : Char) ∉ showInt o.times := notMem_showInt _ _ (by decide) (by decide)
  have htc : (',' : Char) ∉ showInt o.times := notMem_showInt _ _ (by decide) (by decide)
  rw [projOut_eq]
  unfold exportOut parseOut
  simp only [expIn] at hi1 hcomma
  cases hc : o.comma with
  | false =>
    have hsep : outSep false = '\x1b' := rfl
    simp only [hsep, List.append_assoc, List.singleton_append]
    have hesc : outEsc (o.target ++ '\x1b' :: (expName o.instIn o.input ++ '\x1b' :: (o.params ++ '\x1b' :: (o.delay ++ '\x1b' :: showInt o.times)))) = true := by
      simp [outEsc]
    have hv : outVals (o.target ++ '\x1b' :: (expName o.instIn o.input ++ '\x1b' :: (o.params ++ '\x1b' :: (o.delay ++ '\x1b' :: showInt o.times))))
        = [o.target, expName o.instIn o.input, o.params, o.delay, showInt o.times] := by
      unfold outVals
      rw [hesc]
      simp only [if_true]
      rw [splitOn_cons _ _ _ ht1, splitOn_cons _ _ _ hi1, splitOn_cons _ _ _ hp1, splitOn_cons _ _ _ hd1,
        splitOn_single _ _ hte]
    simp only [List.cons_append]
    rw [hv, hesc]
    simp only [outFields, outBuild, List.length_cons, List.length_nil, Nat.reduceAdd, beq_self_eq_true, if_true]
    rw [parseName_expName _ _ hn1]
    simp only []
    rw [parseName_expName _ _ hn2]
    simp [tok_isNum hd, parseInt_showInt]
  | true =>
    have hsep : outSep true = ',' := rfl
    have hcm : ',' ∉ o.target ∧ ',' ∉ expName o.instIn o.input ∧ ',' ∉ o.delay := by
      rcases hcomma with hcf | hcf
      · rw [hc] at hcf; cases hcf
      · exact hcf
    obtain ⟨ht2, hi2, hd2⟩ := hcm
    simp only [hsep, List.append_assoc, List.singleton_append]
    have hesc : outEsc (o.target ++ ',' :: (expName o.instIn o.input ++ ',' :: (o.params ++ ',' :: (o.delay ++ ',' :: showInt o.times)))) = false := by
      simp [outEsc, ht1, hi1, hp1, hd1, hte]
    have hv : outVals (o.target ++ ',' :: (expName o.instIn o.input ++ ',' :: (o.params ++ ',' :: (o.delay ++ ',' :: showInt o.times))))
        = o.target :: expName o.instIn o.input :: (splitOn ',' o.params ++ [o.delay, showInt o.times]) := by
      unfold outVals
      rw [hesc]
      simp only [Bool.false_eq_true, if_false]
      rw [splitOn_cons _ _ _ ht2, splitOn_cons _ _ _ hi2, splitOn_append, splitOn_cons _ _ _ hd2,
        splitOn_single _ _ htc]
    simp only [List.cons_append]
    rw [hv, hesc]
    have hjoin : joinComma (splitOn ',' o.params) = o.params := join_split ',' o.params
    have hne : splitOn ',' o.params ≠ [] := splitOnAux_ne_nil _ _ _
    have hfields : outFields false (o.target :: expName o.instIn o.input :: (splitOn ',' o.params ++ [o.delay, showInt o.times]))
        = .ok (o.target, expName o.instIn o.input, o.params, o.delay, showInt o.times) := by
      cases hps : splitOn ',' o.params with
      | nil => exact absurd hps hne
      | cons p r =>
        cases r with
        | nil =>
          rw [hps] at hjoin
          simp only [joinComma, joinWith] at hjoin
          simp [outFields, hjoin]
        | cons p2 r2 =>
          rw [hps] at hjoin
          have hlen : ((o.target :: expName o.instIn o.input :: ((p :: p2 :: r2) ++ [o.delay, showInt o.times])).length == 5) = false := by
            simp only [List.length_cons, List.length_append, List.length_nil, beq_eq_false_iff_ne, ne_eq]; omega
          have hgt : decide ((o.target :: expName o.instIn o.input :: ((p :: p2 :: r2) ++ [o.delay, showInt o.times])).length > 5) = true := by
            simp only [List.length_cons, List.length_append, List.length_nil, decide_eq_true_eq]; omega
          simp only [outFields, hlen, Bool.false_eq_true, if_false, Bool.not_false, Bool.true_and, hgt, if_true]
          simp only [List.reverse_append, List.reverse_cons, List.reverse_nil, List.nil_append, List.cons_append,
            List.singleton_append]
          simp only [List.reverse_append, List.reverse_cons, List.reverse_nil, List.nil_append, List.reverse_reverse,
            List.append_assoc, List.cons_append, List.singleton_append]
          have : (r2.reverse ++ [p2, p]).reverse = p :: p2 :: r2 := by simp
          simp [this, hjoin]
    rw [hfields]
    simp only [outBuild]
    rw [parseName_expName _ _ hn1]
    simp only []
    rw [parseName_expName _ _ hn2]
    simp [tok_isNum hd, parseInt_showInt]

theorem splitSubAux_pre (p : Char) (ps : Str) (s rest cur : Str) (n : Nat) (h : p ∉ s) :
    splitSubAux (p :: ps) (n + s.length) (s ++ rest) cur = splitSubAux (p :: ps) n rest (s.reverse ++ cur) := by
  induction s generalizing cur with
  | nil => rfl
  | cons c cs ih =>
    have hc : c ≠ p := fun e => h (by simp [e])
    have hcs : p ∉ cs := fun hm => h (by simp [hm])
    have hpre : (p :: ps).isPrefixOf (c :: (cs ++ rest)) = false := by
      simp [List.isPrefixOf, Ne.symm hc]
    simp only [List.length_cons, ← Nat.add_assoc, List.cons_append, splitSubAux, hpre, Bool.false_eq_true, if_false]
    rw [ih _ hcs]; simp

theorem splitSubAux_match (pat rest cur : Str) (n : Nat) (hp : pat ≠ []) :
    splitSubAux pat (n + 1) (pat ++ rest) cur = cur.reverse :: splitSubAux pat n rest [] := by
  cases pat with
  | nil => exact absurd rfl hp
  | cons p ps =>
    have hpre : (p :: ps).isPrefixOf (p :: (ps ++ rest)) = true := by
      simp [List.isPrefixOf_iff_prefix]
    simp only [List.cons_append, splitSubAux, hpre, if_true]
    simp

theorem splitSubAux_end (p : Char) (ps : Str) (s cur : Str) (n : Nat) (h : p ∉ s) :
    splitSubAux (p :: ps) (n + s.length) s cur = [(s.reverse ++ cur).reverse] := by
  have := splitSubAux_pre p ps s [] cur n h
  simp only [List.append_nil] at this
  rw [this]
  cases n <;> simp [splitSubAux]

theorem splitSub_three (p : Char) (ps : Str) (a b c : Str) (ha : p ∉ a) (hb : p ∉ b) (hc : p ∉ c) :
    splitSub (p :: ps) (a ++ ((p :: ps) ++ (b ++ ((p :: ps) ++ c)))) = [a, b, c] := by
  unfold splitSub
  have hl : (a ++ ((p :: ps) ++ (b ++ ((p :: ps) ++ c)))).length + 1
      = ((((c.length + 1) + 1 + b.length) + 1) + a.length) + (2 * ps.length) := by
    simp only [List.length_append, List.length_cons]; omega
  rw [hl]
  -- extra fuel is harmless: generalise the surplus
  have key : ∀ extra : Nat,
      splitSubAux (p :: ps) (((((extra + c.length) + 1) + b.length) + 1) + a.length)
        (a ++ ((p :: ps) ++ (b ++ ((p :: ps) ++ c)))) [] = [a, b, c] := by
    intro extra
    rw [splitSubAux_pre p ps a _ [] _ ha]
    rw [splitSubAux_match (p :: ps) _ _ _ (by simp)]
    rw [splitSubAux_pre p ps b _ [] _ hb]
    rw [splitSubAux_match (p :: ps) _ _ _ (by simp)]
    rw [splitSubAux_end p ps c [] _ hc]
    simp
  have := key (2 * ps.length + 1)
  have e : ((((c.length + 1) + 1 + b.length) + 1) + a.length) + (2 * ps.length)
      = ((((2 * ps.length + 1 + c.length) + 1) + b.length) + 1) + a.length := by omega
  rw [e]; exact this



def UVOK (a : UV) : Bool := TokOK a.x && TokOK a.y && TokOK a.z && TokOK a.offset && TokOK a.scale

theorem dropWhile_eq_self_of_head {p : Char → Bool} {s : Str} {c : Char} {r : Str} (h : s = c :: r) (hc : p c = false) :
    s.dropWhile p = s := by
  subst h; simp [List.dropWhile, hc]

theorem lstripC_bracket (x : Str) (hx : TokOK x = true) : lstripC '[' ('[' :: x) = x := by
  obtain ⟨c, r, h1, hc⟩ := head_of_append (tok_ne_nil hx) []
  simp only [List.append_nil] at h1
  have ho := tok_noOpen hx c hc
  have : (c == '[') = false := by
    simp only [beq_eq_false_iff_ne, ne_eq]; intro e; subst e; simp [isOpenBr] at ho
  simp only [lstripC, List.dropWhile, beq_self_eq_true]
  exact dropWhile_eq_self_of_head h1 this

theorem rstripC_bracket (x : Str) (hx : TokOK x = true) : rstripC ']' (x ++ [']']) = x := by
  obtain ⟨c, r, h1, hc⟩ := last_of_append (tok_ne_nil hx) []
  simp only [List.nil_append] at h1
  have ho := tok_noClose hx c hc
  have : (c == ']') = false := by
    simp only [beq_eq_false_iff_ne, ne_eq]; intro e; subst e; simp [isCloseBr] at ho
  simp only [rstripC, List.reverse_append, List.reverse_cons, List.reverse_nil, List.nil_append,
    List.singleton_append, List.dropWhile, beq_self_eq_true]
  rw [dropWhile_eq_self_of_head h1 this]
  simp

theorem noWs_cons {c : Char} {x : Str} (hc : isWs c = false) (hx : NoWs x) : NoWs (c :: x) := by
  intro d hd
  simp only [List.mem_cons] at hd
  rcases hd with rfl | hd
  · exact hc
  · exact hx d hd

theorem noWs_snoc {c : Char} {x : Str} (hc : isWs c = false) (hx : NoWs x) : NoWs (x ++ [c]) := by
  intro d hd
  simp only [List.mem_append, List.mem_singleton] at hd
  rcases hd with hd | rfl
  · exact hx d hd
  · exact hc

theorem UV.str_eq (a : UV) : a.str = unwords ['[' :: a.x, a.y, a.z, a.offset ++ [']'], a.scale] := by
  simp [UV.str, wrap, unwords, joinWith, sp]

theorem parseUV_str (a : UV) (h : UVOK a = true) : parseUV a.str = .ok a := by
  simp only [UVOK, Bool.and_eq_true] at h
  obtain ⟨⟨⟨⟨hx, hy⟩, hz⟩, ho⟩, hs⟩ := h
  rw [UV.str_eq, parseUV, splitWs_unwords]
  · simp only []
    rw [lstripC_bracket _ hx, rstripC_bracket _ ho]
    simp [tok_isNum hx, tok_isNum hy, tok_isNum hz, tok_isNum ho, tok_isNum hs]
  · intro t ht
    simp only [List.mem_cons, List.mem_nil_iff, or_false] at ht
    rcases ht with rfl | rfl | rfl | rfl | rfl
    · exact ⟨by simp, noWs_cons (by decide) (tok_noWs hx)⟩
    · exact ⟨tok_ne_nil hy, tok_noWs hy⟩
    · exact ⟨tok_ne_nil hz, tok_noWs hz⟩
    · exact ⟨by simp, noWs_snoc (by decide) (tok_noWs ho)⟩
    · exact ⟨tok_ne_nil hs, tok_noWs hs⟩

/-- `)` does not occur in the text of a vector of tokens. -/
theorem v3_no_close (v : V3) (h : V3OK v = true) : ')' ∉ v.str := by
  obtain ⟨hx, hy, hz⟩ := v3ok_parts h
  rw [V3.str_eq]
  intro hm
  simp only [List.mem_append, List.mem_cons] at hm
  have nc : ∀ t, TokOK t = true → ')' ∉ t := by
    intro t ht hm
    have := tok_noClose ht _ hm
    simp [isCloseBr] at this
  rcases hm with hm | hm | hm | hm | hm
  · exact nc _ hx hm
  · exact absurd hm (by decide)
  · exact nc _ hy hm
  · exact absurd hm (by decide)
  · exact nc _ hz hm




def sideLeaves (s : Side) : List KV := [
    kInt "id" s.id,
    kLeaf "plane" (wrap '(' ')' s.p0.str ++ ' ' :: wrap '(' ')' s.p1.str ++ ' ' :: wrap '(' ')' s.p2.str),
    kLeaf "material" s.mat,
    kLeaf "uaxis" s.uaxis.str,
    kLeaf "vaxis" s.vaxis.str,
    kLeaf "rotation" s.rot,
    kInt "lightmapscale" s.lightmap,
    kInt "smoothing_groups" s.smooth]

theorem parsePlanes_leaves (s : Side) (h0 : V3OK s.p0 = true) (h1 : V3OK s.p1 = true) (h2 : V3OK s.p2 = true) :
    parsePlanes (sideLeaves s) = .ok (s.p0, s.p1, s.p2) := by
  have e : getLeaf "plane" (sideLeaves s) =
      some (wrap '(' ')' s.p0.str ++ ' ' :: wrap '(' ')' s.p1.str ++ ' ' :: wrap '(' ')' s.p2.str) := by
    unfold sideLeaves; kv_simp
  unfold parsePlanes
  rw [e]
  have full : (wrap '(' ')' s.p0.str ++ ' ' :: wrap '(' ')' s.p1.str ++ ' ' :: wrap '(' ')' s.p2.str)
      = '(' :: ((s.p0.str ++ ((lit ") (") ++ (s.p1.str ++ ((lit ") (") ++ s.p2.str)))) ++ [')']) := by
    simp [wrap, lit]
  have e2 : ((wrap '(' ')' s.p0.str ++ ' ' :: wrap '(' ')' s.p1.str ++ ' ' :: wrap '(' ')' s.p2.str).drop 1).dropLast
      = s.p0.str ++ ((lit ") (") ++ (s.p1.str ++ ((lit ") (") ++ s.p2.str))) := by
    rw [full]
    simp only [List.drop_succ_cons, List.drop_zero, List.dropLast_concat]
  simp only [Option.getD_some]
  rw [e2]
  have : lit ") (" = ')' :: [' ', '('] := rfl
  rw [this, splitSub_three ')' [' ', '('] _ _ _ (v3_no_close _ h0) (v3_no_close _ h1) (v3_no_close _ h2)]
  simp only []
  rw [parseV3_str _ _ h0, parseV3_str _ _ h1, parseV3_str _ _ h2]



theorem toLower_of_isDigit (c : Char) (h : c.isDigit = true) : c.toLower = c := by
  simp only [Char.isDigit, Bool.and_eq_true, decide_eq_true_eq] at h
  unfold Char.toLower
  have : ¬ (c.val ≥ 65 ∧ c.val ≤ 90) := by
    intro ⟨h1, h2⟩
    have h3 : c.val ≤ 57 := h.2
    have : (65 : UInt32) ≤ 57 := UInt32.le_trans h1 h3
    exact absurd this (by decide)
  simp only [ge_iff_le] at this
  simp [this]

theorem lower_showInt (i : Int) : lower (showInt i) = showInt i := by
  unfold lower
  have : ∀ c ∈ showInt i, c.toLower = c := by
    intro c hc
    rcases showInt_chars i c hc with h | rfl
    · exact toLower_of_isDigit c h
    · rfl
  have := List.map_congr_left (l := showInt i) (f := Char.toLower) (g := id) this
  simpa using this

theorem lower_pad2_showInt (i : Int) : lower (pad2 (showInt i)) = pad2 (showInt i) := by
  unfold pad2
  split
  · show lower ('0' :: showInt i) = _
    simp only [lower, List.map_cons] 
    have := lower_showInt i
    simp only [lower] at this
    rw [this]; rfl
  · exact lower_showInt i

theorem parseInt_pad2 (i : Int) : parseInt? (pad2 (showInt i)) = some i := by
  unfold pad2
  split
  · rename_i hlen
    cases i with
    | ofNat n =>
      have hp := parseNat_showNat n
      have hd := showNat_all_digit n
      simp only [showInt] at hlen ⊢
      unfold parseInt?
      have hpn : parseNat? ('0' :: showNat n) = some n := by
        unfold parseNat? at hp ⊢
        have hne : (showNat n).isEmpty = false := by
          cases h : showNat n with
          | nil => exact absurd h (showNat_ne_nil n)
          | cons a b => rfl
        simp only [hd, hne, Bool.not_false, Bool.and_self, if_true, Option.some.injEq] at hp
        have h0 : ('0' : Char).isDigit = true := by decide
        simp only [List.isEmpty_cons, Bool.not_false, List.all_cons, h0, hd, Bool.and_self, if_true, Option.some.injEq]
        rw [Nat.ofDigitChars_cons]
        simpa using hp
      simp [hpn]
    | negSucc n =>
      exfalso
      simp only [showInt, List.length_cons] at hlen
      have := showNat_ne_nil (n + 1)
      cases h : showNat (n + 1) with
      | nil => exact this h
      | cons a b => rw [h] at hlen; simp only [List.length_cons] at hlen; omega
  · exact parseInt_showInt i


/-! ### Strata `point_data` -/

theorem notMem_showNat_space (n : Nat) : ' ' ∉ showNat n := by
  intro h
  have := showNat_all_digit n
  simp only [List.all_eq_true] at this
  have := this ' ' h
  simp at this

theorem getElem?_map_some_append_none (a : List V3) (r : List (Option V3)) :
    (a.map some ++ none :: r)[a.length]? = some none := by
  have : a.length = (a.map some).length := by simp
  rw [this, List.getElem?_append_right (Nat.le_refl _)]
  simp

theorem setAt_map_some_append (a : List V3) (r : List (Option V3)) (p : V3) :
    setAt (a.map some ++ none :: r) a.length (fun _ => some p) = (a ++ [p]).map some ++ r := by
  induction a with
  | nil => simp [setAt]
  | cons x xs ih => simp [setAt, ih]

theorem pointStep_point (done : List V3) (r : List (Option V3)) (p : V3) (hp : V3OK p = true) :
    pointStep (done.map some ++ none :: r) (kLeaf "point" (showNat done.length ++ ' ' :: p.str))
      = .ok ((done ++ [p]).map some ++ r) := by
  have hn : named "point" (kLeaf "point" (showNat done.length ++ ' ' :: p.str)) = true := by kv_simp
  have hs := splitFirst_pre ' ' (showNat done.length) p.str [] (notMem_showNat_space _)
  simp only [List.append_nil, List.reverse_reverse] at hs
  have hi : parseInt? (showNat done.length) = some (Int.ofNat done.length) := parseInt_showInt (Int.ofNat done.length)
  simp only [kLeaf] at hn
  simp only [pointStep, kLeaf, hn, if_true, hs, hi, getElem?_map_some_append_none, parseV3_str _ _ hp,
    setAt_map_some_append]

theorem foldE_points (done rest : List V3) (h : ∀ p ∈ rest, V3OK p = true) :
    foldE pointStep (done.map some ++ List.replicate rest.length none) (pointLeaves done.length rest)
      = .ok ((done ++ rest).map some) := by
  induction rest generalizing done with
  | nil => simp [pointLeaves, foldE]
  | cons p ps ih =>
    simp only [List.length_cons, List.replicate_succ, pointLeaves, foldE]
    rw [pointStep_point done _ p (h p (by simp))]
    simp only []
    have := ih (done ++ [p]) (fun q hq => h q (by simp [hq]))
    simp only [List.length_append, List.length_cons, List.length_nil, Nat.zero_add, List.append_assoc,
      List.singleton_append] at this
    exact this

theorem collectPoints_some (l : List V3) : collectPoints (l.map some) = .ok l := by
  induction l with
  | nil => rfl
  | cons a r ih => simp [collectPoints, ih]

theorem pointLeaves_shape (i : Nat) (ps : List V3) :
    ∀ k ∈ pointLeaves i ps, named "numpts" k = false := by
  induction ps generalizing i with
  | nil => intro k hk; simp [pointLeaves] at hk
  | cons p r ih =>
    intro k hk
    simp only [pointLeaves, List.mem_cons] at hk
    rcases hk with rfl | hk
    · kv_simp
    · exact ih _ k hk

theorem parsePoints_export (pts : List V3) (h : ∀ p ∈ pts, V3OK p = true) :
    parsePoints (kInt "numpts" pts.length :: pointLeaves 0 pts) = .ok pts := by
  have hn : getInt "numpts" 0 (kInt "numpts" (pts.length : Int) :: pointLeaves 0 pts) = pts.length := by
    unfold getInt getLeaf
    have : findLast (fun k => named "numpts" k && !k.isBlock) ([kInt "numpts" (pts.length : Int)] ++ pointLeaves 0 pts)
        = findLast (fun k => named "numpts" k && !k.isBlock) [kInt "numpts" (pts.length : Int)] :=
      findLast_append_right_none _ _ _ (fun x hx => by simp [pointLeaves_shape 0 pts x hx])
    simp only [List.singleton_append] at this
    rw [this]
    kv_simp
    simp [parseInt_showInt]
  unfold parsePoints
  rw [hn]
  have hstep : pointStep (List.replicate pts.length none) (kInt "numpts" (pts.length : Int))
      = .ok (List.replicate pts.length none) := by
    have : named "point" (kInt "numpts" (pts.length : Int)) = false := by kv_simp
    simp [pointStep, this]
  simp only [Int.toNat_natCast, foldE, hstep]
  have := foldE_points [] pts h
  simp only [List.map_nil, List.nil_append, List.length_nil] at this
  rw [this]
  exact collectPoints_some pts



/-! ### displacement rows: names and tokens -/

theorem lower_showNat (n : Nat) : lower (showNat n) = showNat n := lower_showInt (Int.ofNat n)

theorem rowName_lower (y : Nat) : lower (rowName y) = rowName y := by
  unfold rowName
  rw [lower_append, lower_showNat]
  have : lower (lit "row") = lit "row" := by decide
  rw [this]

theorem rowName_prefix (y : Nat) : (lit "row").isPrefixOf (rowName y) = true := by
  simp [rowName, List.isPrefixOf_iff_prefix]

theorem rowName_index (y : Nat) : parseInt? ((rowName y).drop 3) = some (Int.ofNat y) := by
  have : (rowName y).drop 3 = showNat y := by simp [rowName, lit]
  rw [this]
  exact parseInt_showInt (Int.ofNat y)

/-- `(y, r0), (y+1, r1), …` -/
def idxFrom (y : Nat) : List (List Str) → List (Nat × List Str)
  | [] => []
  | r :: rs => (y, r) :: idxFrom (y + 1) rs

def TokList (r : List Str) : Prop := ∀ t ∈ r, t ≠ [] ∧ NoWs t

theorem rowsOfBlock_leaves (width y : Nat) (rows : List (List Str))
    (h : ∀ r ∈ rows, r.length = width ∧ TokList r) :
    rowsOfBlock width (rowLeavesFrom y rows) = .ok (idxFrom y rows) := by
  induction rows generalizing y with
  | nil => rfl
  | cons r rs ih =>
    have hr := h r (by simp)
    have hf : (KV.leaf (rowName y) (unwords r)).fname = rowName y := by
      simp [KV.fname, KV.name, rowName_lower]
    simp only [rowLeavesFrom, rowsOfBlock, hf, rowName_prefix, if_true, rowName_index]
    rw [splitWs_unwords r hr.2]
    simp only [hr.1, bne_self_eq_false, Bool.false_eq_true, if_false]
    rw [ih (y + 1) (fun q hq => h q (by simp [hq]))]
    rfl

theorem dispRows_skip (name : String) (width : Nat) (pre rest : List KV)
    (h : ∀ k ∈ pre, named name k = false) :
    dispRows name width (pre ++ rest) = dispRows name width rest := by
  induction pre with
  | nil => rfl
  | cons k ks ih =>
    simp only [List.cons_append, dispRows, h k (by simp), Bool.false_eq_true, if_false]
    exact ih (fun j hj => h j (by simp [hj]))

theorem dispRows_hit (name : String) (width : Nat) (pre post kids : List KV) (rows : List (Nat × List Str))
    (hpre : ∀ k ∈ pre, named name k = false) (hpost : ∀ k ∈ post, named name k = false)
    (hk : rowsOfBlock width kids = .ok rows) :
    dispRows name width (pre ++ kBlock name kids :: post) = .ok rows := by
  rw [dispRows_skip name width pre _ hpre]
  have hn : named name (kBlock name kids) = true := by simp [named, kBlock, KV.fname, KV.name]
  have hrest : dispRows name width post = .ok [] := by
    have := dispRows_skip name width post [] hpost
    simpa [dispRows] using this
  simp only [kBlock] at hn ⊢
  simp only [dispRows, hn, if_true, blockKids, hk, hrest, List.append_nil]




/-! ### indexed maps -/

theorem mapIdx_length {α β} (f : Nat → α → β) (k : Nat) (l : List α) : (mapIdx f k l).length = l.length := by
  induction l generalizing k with
  | nil => rfl
  | cons a r ih => simp [mapIdx, ih]

theorem mapIdx_getElem? {α β} (f : Nat → α → β) (k : Nat) (l : List α) (j : Nat) :
    (mapIdx f k l)[j]? = (l[j]?).map (f (k + j)) := by
  induction l generalizing k j with
  | nil => simp [mapIdx]
  | cons a r ih =>
    cases j with
    | zero => simp [mapIdx]
    | succ j =>
      simp only [mapIdx, List.getElem?_cons_succ, ih]
      have : k + 1 + j = k + (j + 1) := by omega
      rw [this]

theorem mapIdx_congr {α β} (f g : Nat → α → β) (k : Nat) (l : List α)
    (h : ∀ j a, l[j]? = some a → f (k + j) a = g (k + j) a) : mapIdx f k l = mapIdx g k l := by
  induction l generalizing k with
  | nil => rfl
  | cons a r ih =>
    simp only [mapIdx]
    have h0 := h 0 a (by simp)
    simp only [Nat.add_zero] at h0
    rw [h0, ih (k + 1) (fun j b hb => by
      have := h (j + 1) b (by simpa using hb)
      have e : k + (j + 1) = k + 1 + j := by omega
      rw [e] at this; exact this)]

theorem setAt_mapIdx {α β} (f h : Nat → α → β) (k : Nat) (l : List α) (j : Nat) (w : β)
    (hw : ∀ a, l[j]? = some a → w = h (k + j) a) :
    setAt (mapIdx f k l) j (fun _ => w) = mapIdx (fun i a => if i = k + j then h i a else f i a) k l := by
  induction l generalizing k j with
  | nil => simp [mapIdx, setAt]
  | cons a r ih =>
    cases j with
    | zero =>
      simp only [mapIdx, setAt, Nat.add_zero, if_true]
      rw [hw a (by simp)]
      simp only [Nat.add_zero]
      congr 1
      apply mapIdx_congr
      intro j b _
      have : k + 1 + j ≠ k := by omega
      simp [this]
    | succ j =>
      simp only [mapIdx, setAt]
      have hne : k ≠ k + (j + 1) := by omega
      simp only [hne, if_false]
      have e : k + (j + 1) = k + 1 + j := by omega
      rw [ih (k + 1) j (fun b hb => by
        have := hw b (by simpa using hb)
        rw [e] at this; exact this)]
      rw [e]

theorem mapIdx_id {α} (k : Nat) (l : List α) : mapIdx (fun _ a => a) k l = l := by
  induction l generalizing k with
  | nil => rfl
  | cons a r ih => simp [mapIdx, ih]

theorem mapIdx_mapIdx {α β γ} (f : Nat → α → β) (g : Nat → β → γ) (k : Nat) (l : List α) :
    mapIdx g k (mapIdx f k l) = mapIdx (fun i a => g i (f i a)) k l := by
  induction l generalizing k with
  | nil => rfl
  | cons a r ih => simp [mapIdx, ih]

theorem mapIdx_map {α β γ} (f : α → β) (g : Nat → β → γ) (k : Nat) (l : List α) :
    mapIdx g k (l.map f) = mapIdx (fun i a => g i (f a)) k l := by
  induction l generalizing k with
  | nil => rfl
  | cons a r ih => simp [mapIdx, ih]

/-! ### row/column arithmetic -/

theorem idx_div (size y x : Nat) (hx : x < size) : (y * size + x) / size = y := by
  have hs : 0 < size := by omega
  rw [Nat.mul_comm, Nat.mul_add_div hs, Nat.div_eq_of_lt hx]; simp

theorem idx_mod (size y x : Nat) (hx : x < size) : (y * size + x) % size = x := by
  rw [Nat.mul_comm, Nat.mul_add_mod, Nat.mod_eq_of_lt hx]

theorem idx_eq_iff (size y x i : Nat) (hx : x < size) :
    i = y * size + x ↔ (i / size = y ∧ i % size = x) := by
  constructor
  · rintro rfl; exact ⟨idx_div size y x hx, idx_mod size y x hx⟩
  · rintro ⟨rfl, rfl⟩
    have := Nat.div_add_mod i size
    rw [Nat.mul_comm] at this; exact this.symm

theorem idx_lt (size y x : Nat) (hy : y < size) (hx : x < size) : y * size + x < size * size := by
  have : (y + 1) * size ≤ size * size := Nat.mul_le_mul_right size hy
  have e : (y + 1) * size = y * size + size := by rw [Nat.add_mul]; simp
  omega




/-! ### one displacement array applied to the vertex list -/

/-- vertex `i` has been written once rows `< y` and columns `< x` of row `y` are done
(`cnt` vertices per row are written) -/
def inDone (size cnt y x i : Nat) : Bool :=
  decide (i % size < cnt) && (decide (i / size < y) || (decide (i / size = y) && decide (i % size < x)))

def stP (size cnt : Nat) (setF : DVert → DVert → DVert) (src vs : List DVert) (y x : Nat) : List DVert :=
  mapIdx (fun i v => if inDone size cnt y x i then setF v (src.getD i blankVert) else v) 0 vs

theorem flatMap_slice (toks : DVert → List Str) (per : Nat) (hper : ∀ s, (toks s).length = per)
    (l : List DVert) (x : Nat) (s : DVert) (hx : l[x]? = some s) :
    ((l.flatMap toks).drop (per * x)).take per = toks s := by
  induction l generalizing x with
  | nil => simp at hx
  | cons a r ih =>
    cases x with
    | zero =>
      simp only [List.getElem?_cons_zero, Option.some.injEq] at hx
      subst hx
      simp only [Nat.mul_zero, List.drop_zero, List.flatMap_cons]
      have h1 : per ≤ (toks a).length := by rw [hper]; exact Nat.le_refl _
      have h2 : (toks a).length ≤ per := by rw [hper]; exact Nat.le_refl _
      rw [List.take_append_of_le_length h1, List.take_of_length_le h2]
    | succ x =>
      simp only [List.getElem?_cons_succ] at hx
      simp only [List.flatMap_cons]
      have e : per * (x + 1) = (toks a).length + per * x := by rw [hper]; rw [Nat.mul_add]; omega
      rw [e, List.drop_append]
      have h0 : (toks a).drop ((toks a).length + per * x) = [] := by
        apply List.drop_of_length_le; omega
      have h1 : (toks a).length + per * x - (toks a).length = per * x := by omega
      rw [h0, h1, List.nil_append]
      exact ih x hx

section
variable (size per cnt : Nat) (upd : DVert → List Str → Except Err DVert) (setF : DVert → DVert → DVert)
  (toks : DVert → List Str) (src vs : List DVert)

theorem applyRowFrom_spec (hc : cnt ≤ size) (hlen : vs.length = size * size) (hsrc : src.length = size * size)
    (hupd : ∀ v, ∀ s ∈ src, upd v (toks s) = .ok (setF v s))
    (y : Nat) (hy : y < size) (rowToks : List Str)
    (hrow : ∀ x s, x < cnt → src[y * size + x]? = some s → (rowToks.drop (per * x)).take per = toks s)
    (n x0 : Nat) (hn : x0 + n = cnt) :
    applyRowFrom size per upd y rowToks x0 n (stP size cnt setF src vs y x0) = .ok (stP size cnt setF src vs y cnt) := by
  induction n generalizing x0 with
  | zero =>
    have : x0 = cnt := by omega
    subst this
    rfl
  | succ n ih =>
    have hx : x0 < cnt := by omega
    have hxs : x0 < size := by omega
    have hidx : y * size + x0 < size * size := idx_lt size y x0 hy hxs
    obtain ⟨v, hv⟩ : ∃ v, vs[y * size + x0]? = some v := by
      have : y * size + x0 < vs.length := by rw [hlen]; exact hidx
      exact ⟨vs[y * size + x0], by simp [this]⟩
    obtain ⟨s, hs⟩ : ∃ s, src[y * size + x0]? = some s := by
      have : y * size + x0 < src.length := by rw [hsrc]; exact hidx
      exact ⟨src[y * size + x0], by simp [this]⟩
    have hnot : inDone size cnt y x0 (y * size + x0) = false := by
      simp [inDone, idx_div size y x0 hxs, idx_mod size y x0 hxs]
    have hget : (stP size cnt setF src vs y x0)[y * size + x0]? = some v := by
      unfold stP
      rw [mapIdx_getElem?, hv]
      simp [hnot]
    have hsd : src.getD (y * size + x0) blankVert = s := by
      simp [List.getD, hs]
    simp only [applyRowFrom, hget, hrow x0 s hx hs, hupd v s (List.mem_of_getElem? hs)]
    have hstep : setAt (stP size cnt setF src vs y x0) (y * size + x0) (fun _ => setF v s)
        = stP size cnt setF src vs y (x0 + 1) := by
      unfold stP
      rw [setAt_mapIdx _ (fun i a => setF a (src.getD i blankVert)) 0 vs (y * size + x0) (setF v s) (by
        intro a ha
        rw [hv] at ha
        simp only [Option.some.injEq] at ha
        subst ha
        rw [← hsd]; simp [List.getD])]
      apply mapIdx_congr
      intro j a _
      simp only [Nat.zero_add]
      by_cases hj : j = y * size + x0
      · subst hj
        simp [inDone, idx_div size y x0 hxs, idx_mod size y x0 hxs, hx]
      · have hiff : ¬ (j / size = y ∧ j % size = x0) := fun h => hj ((idx_eq_iff size y x0 j hxs).mpr h)
        simp only [hj, if_false]
        have : inDone size cnt y (x0 + 1) j = inDone size cnt y x0 j := by
          simp only [inDone]
          by_cases h1 : j / size = y
          · have h2 : j % size ≠ x0 := fun e => hiff ⟨h1, e⟩
            have : (j % size < x0 + 1) = (j % size < x0) := by
              apply propext; omega
            simp [h1, this]
          · simp [h1]
        rw [this]
    rw [hstep]
    exact ih (x0 + 1) (by omega)

theorem stP_row_end (y : Nat) : stP size cnt setF src vs y cnt = stP size cnt setF src vs (y + 1) 0 := by
  unfold stP
  apply mapIdx_congr
  intro j a _
  have : inDone size cnt y cnt (0 + j) = inDone size cnt (y + 1) 0 (0 + j) := by
    simp only [inDone, Nat.zero_add, Nat.not_lt_zero, decide_false, Bool.and_false, Bool.or_false]
    by_cases h1 : j % size < cnt <;> by_cases h2 : j / size < y <;> by_cases h3 : j / size = y <;>
      simp [h1, h2, h3] <;> omega
  rw [this]

end




/-- the token rows of one array as the writer produces them: `nrows` rows, the first `cnt`
vertices of each -/
def rowsetToks (size nrows cnt : Nat) (toks : DVert → List Str) (src : List DVert) : List (List Str) :=
  (rowsOf size nrows src).map fun r => (r.take cnt).flatMap toks

theorem rowsOf_drop (size n : Nat) (l : List DVert) :
    rowsOf size (n + 1) l = l.take size :: rowsOf size n (l.drop size) := rfl

section
variable (size per cnt : Nat) (upd : DVert → List Str → Except Err DVert) (setF : DVert → DVert → DVert)
  (toks : DVert → List Str) (src vs : List DVert)

theorem row_slice (hc : cnt ≤ size) (y x : Nat) (hx : x < cnt) :
    (((src.drop (y * size)).take size).take cnt)[x]? = src[y * size + x]? := by
  rw [List.getElem?_take_of_lt hx, List.getElem?_take_of_lt (by omega), List.getElem?_drop]

theorem applyRows_spec (hc : cnt ≤ size) (hlen : vs.length = size * size) (hsrc : src.length = size * size)
    (hper : ∀ s, (toks s).length = per)
    (hupd : ∀ v, ∀ s ∈ src, upd v (toks s) = .ok (setF v s))
    (nr y0 : Nat) (hy : y0 + nr ≤ size) :
    applyRows size per cnt upd (idxFrom y0 (rowsetToks size nr cnt toks (src.drop (y0 * size))))
        (stP size cnt setF src vs y0 0)
      = .ok (stP size cnt setF src vs (y0 + nr) 0) := by
  induction nr generalizing y0 with
  | zero => simp [rowsetToks, rowsOf, idxFrom, applyRows]
  | succ nr ih =>
    simp only [rowsetToks, rowsOf_drop, List.map_cons, idxFrom, applyRows]
    have hrow : ∀ x s, x < cnt → src[y0 * size + x]? = some s →
        (((((src.drop (y0 * size)).take size).take cnt).flatMap toks).drop (per * x)).take per = toks s := by
      intro x s hx hs
      apply flatMap_slice toks per hper
      rw [row_slice size cnt src hc y0 x hx]; exact hs
    rw [applyRowFrom_spec size per cnt upd setF toks src vs hc hlen hsrc hupd y0 (by omega) _ hrow cnt 0 (by omega)]
    simp only []
    rw [stP_row_end]
    have hd : (src.drop (y0 * size)).drop size = src.drop ((y0 + 1) * size) := by
      rw [List.drop_drop]; congr 1; rw [Nat.add_mul]; omega
    rw [hd]
    have := ih (y0 + 1) (by omega)
    simp only [rowsetToks] at this
    rw [this]
    congr 2; omega

theorem stP_zero : stP size cnt setF src vs 0 0 = vs := by
  unfold stP
  have : mapIdx (fun i v => if inDone size cnt 0 0 i = true then setF v (src.getD i blankVert) else v) 0 vs
      = mapIdx (fun _ a => a) 0 vs := by
    apply mapIdx_congr
    intro j a _
    simp [inDone]
  rw [this, mapIdx_id]

/-- the vertices an array writes: rows `< nrows`, columns `< cnt` -/
def inRegion (size nrows cnt i : Nat) : Bool := decide (i / size < nrows) && decide (i % size < cnt)

theorem stP_final (nrows : Nat) :
    stP size cnt setF src vs nrows 0
      = mapIdx (fun i v => if inRegion size nrows cnt i then setF v (src.getD i blankVert) else v) 0 vs := by
  unfold stP
  apply mapIdx_congr
  intro j a _
  have : inDone size cnt nrows 0 (0 + j) = inRegion size nrows cnt (0 + j) := by
    simp only [inDone, inRegion, Nat.zero_add, Nat.not_lt_zero, decide_false, Bool.and_false, Bool.or_false]
    exact Bool.and_comm _ _
  rw [this]

theorem rowsOf_lengths (size n : Nat) (l : List DVert) (h : n * size ≤ l.length) :
    ∀ r ∈ rowsOf size n l, r.length = size := by
  induction n generalizing l with
  | zero => intro r hr; simp [rowsOf] at hr
  | succ n ih =>
    intro r hr
    have e : (n + 1) * size = n * size + size := by rw [Nat.add_mul]; simp
    simp only [rowsOf, List.mem_cons] at hr
    rcases hr with rfl | hr
    · simp only [List.length_take]; omega
    · exact ih (l.drop size) (by simp only [List.length_drop]; omega) r hr

theorem rowsOf_mem (size n : Nat) (l : List DVert) : ∀ r ∈ rowsOf size n l, ∀ s ∈ r, s ∈ l := by
  induction n generalizing l with
  | zero => intro r hr; simp [rowsOf] at hr
  | succ n ih =>
    intro r hr s hs
    simp only [rowsOf, List.mem_cons] at hr
    rcases hr with rfl | hr
    · exact List.mem_of_mem_take hs
    · exact List.mem_of_mem_drop (ih (l.drop size) r hr s hs)

theorem flatMap_length_const (toks : DVert → List Str) (per : Nat) (hper : ∀ s, (toks s).length = per)
    (l : List DVert) : (l.flatMap toks).length = per * l.length := by
  induction l with
  | nil => simp
  | cons a r ih => simp [hper, ih, Nat.mul_add]; omega

/-- **One array.** If the array name selects the block the exporter wrote from `src` (`nrows`
rows, `cnt` vertices each), applying it to `vs` sets exactly those vertices. -/
theorem applyRowset_spec (name : String) (nrows : Nat) (cs : List KV)
    (hc : cnt ≤ size) (hn : nrows ≤ size) (hlen : vs.length = size * size) (hsrc : src.length = size * size)
    (hper : ∀ s, (toks s).length = per)
    (htok : ∀ s ∈ src, TokList (toks s))
    (hupd : ∀ v, ∀ s ∈ src, upd v (toks s) = .ok (setF v s))
    (hd : dispRows name (per * cnt) cs = rowsOfBlock (per * cnt) (rowLeaves (rowsetToks size nrows cnt toks src))) :
    applyRowset name size per cnt upd cs vs
      = .ok (mapIdx (fun i v => if inRegion size nrows cnt i then setF v (src.getD i blankVert) else v) 0 vs) := by
  have hrows : rowsOfBlock (per * cnt) (rowLeaves (rowsetToks size nrows cnt toks src))
      = .ok (idxFrom 0 (rowsetToks size nrows cnt toks src)) := by
    apply rowsOfBlock_leaves
    intro r hr
    simp only [rowsetToks, List.mem_map] at hr
    obtain ⟨row, hrow, rfl⟩ := hr
    have hl := rowsOf_lengths size nrows src (by
      rw [hsrc]; exact Nat.mul_le_mul_right size hn) row hrow
    refine ⟨?_, ?_⟩
    · rw [flatMap_length_const toks per hper, List.length_take, hl, Nat.min_eq_left hc]
    · intro t ht
      simp only [List.mem_flatMap] at ht
      obtain ⟨s, hs, hts⟩ := ht
      exact htok s (rowsOf_mem size nrows src row hrow s (List.mem_of_mem_take hs)) t hts
  unfold applyRowset
  rw [hd, hrows]
  simp only []
  have := applyRows_spec size per cnt upd setF toks src vs hc hlen hsrc hper hupd nrows 0 (by omega)
  simp only [Nat.zero_mul, List.drop_zero, Nat.zero_add, stP_zero] at this
  rw [this, stP_final]

end




/-! ### displacement: well-formedness and the per-field updates -/

def V4OK (v : V4) : Bool := TokOK v.x && TokOK v.y && TokOK v.z && TokOK v.w
def triOK (t : Int) : Bool := t == 0 || t == 1 || t == 9

def DVertOK (v : DVert) : Bool :=
  V3OK v.normal && TokOK v.dist && V3OK v.offset && V3OK v.offsetNorm && TokOK v.alpha &&
  triOK v.triA && triOK v.triB && V4OK v.blend && V4OK v.malpha &&
  (match v.colors with
   | some cs => cs.all V3OK
   | none => true)

def DispOK (d : Disp) : Bool :=
  decide (1 ≤ d.power) && decide (d.power ≤ 4) && V3OK d.pos && TokOK d.elev && decide (d.coll < 8) &&
  decide (d.allowed.length = 10) && decide (d.verts.length = dispSize d.power * dispSize d.power) &&
  d.verts.all DVertOK

theorem tokList_of_tokOK {l : List Str} (h : ∀ t ∈ l, TokOK t = true) : TokList l :=
  fun t ht => ⟨tok_ne_nil (h t ht), tok_noWs (h t ht)⟩

theorem v3_tokList {v : V3} (h : V3OK v = true) : TokList v.toks := by
  obtain ⟨hx, hy, hz⟩ := v3ok_parts h
  apply tokList_of_tokOK
  intro t ht
  simp only [V3.toks, List.mem_cons, List.mem_nil_iff, or_false] at ht
  rcases ht with rfl | rfl | rfl <;> assumption

theorem num3_toks {v : V3} (h : V3OK v = true) : num3 v.toks = .ok v := by
  obtain ⟨hx, hy, hz⟩ := v3ok_parts h
  simp [num3, V3.toks, tok_isNum hx, tok_isNum hy, tok_isNum hz]

theorem v4ok_parts {v : V4} (h : V4OK v = true) :
    TokOK v.x = true ∧ TokOK v.y = true ∧ TokOK v.z = true ∧ TokOK v.w = true := by
  simp [V4OK] at h; exact ⟨h.1.1.1, h.1.1.2, h.1.2, h.2⟩

theorem v4_tokList {v : V4} (h : V4OK v = true) : TokList v.toks := by
  obtain ⟨hx, hy, hz, hw⟩ := v4ok_parts h
  apply tokList_of_tokOK
  intro t ht
  simp only [V4.toks, List.mem_cons, List.mem_nil_iff, or_false] at ht
  rcases ht with rfl | rfl | rfl | rfl <;> assumption

theorem num4_toks {v : V4} (h : V4OK v = true) : num4 v.toks = .ok v := by
  obtain ⟨hx, hy, hz, hw⟩ := v4ok_parts h
  simp [num4, V4.toks, tok_isNum hx, tok_isNum hy, tok_isNum hz, tok_isNum hw]

theorem num1_tok {t : Str} (h : TokOK t = true) : num1 [t] = .ok t := by
  simp [num1, tok_isNum h]

theorem showInt_tok (i : Int) : showInt i ≠ [] ∧ NoWs (showInt i) := by
  refine ⟨?_, ?_⟩
  · cases i with
    | ofNat n => exact showNat_ne_nil n
    | negSucc n => simp [showInt]
  · intro c hc
    rcases showInt_chars i c hc with h | rfl
    · simp only [Char.isDigit, Bool.and_eq_true, decide_eq_true_eq] at h
      simp only [isWs, Bool.or_eq_false_iff, beq_eq_false_iff_ne, ne_eq]
      refine ⟨⟨⟨⟨⟨⟨⟨⟨⟨⟨⟨?_, ?_⟩, ?_⟩, ?_⟩, ?_⟩, ?_⟩, ?_⟩, ?_⟩, ?_⟩, ?_⟩, ?_⟩, ?_⟩ <;>
        (intro e; subst e; revert h; decide)
    · decide

theorem triTag_show {t : Int} (h : triOK t = true) : triTag (showInt t) = .ok t := by
  simp only [triOK, Bool.or_eq_true, beq_iff_eq] at h
  simp only [triTag, parseInt_showInt]
  rcases h with (rfl | rfl) | rfl <;> rfl

def colorOf (i : Nat) (s : DVert) : V3 := (s.colors.getD []).getD i v3one

theorem colorToks_eq (i : Nat) (s : DVert) : colorToks i s = (colorOf i s).toks := by
  cases hc : s.colors <;> simp [colorToks, colorOf, hc]

theorem v3one_ok : V3OK v3one = true := by decide

theorem colorOf_ok (i : Nat) (s : DVert) (h : DVertOK s = true) : V3OK (colorOf i s) = true := by
  simp only [DVertOK, Bool.and_eq_true] at h
  have hc := h.2
  unfold colorOf
  cases hcs : s.colors with
  | none => simp [v3one_ok]
  | some cs =>
    rw [hcs] at hc
    simp only [List.all_eq_true] at hc
    simp only [Option.getD_some]
    simp only [List.getD_eq_getElem?_getD]
    cases hg : cs[i]? with
    | none => simp [v3one_ok]
    | some c =>
      simp only [Option.getD_some]
      exact hc c (List.mem_of_getElem? hg)




/-! ### displacement: which block an array name selects -/

theorem rowsetKids_eq (size : Nat) (verts : List DVert) (toks : DVert → List Str)
    (h : verts.length = size * size) :
    rowsetKids size verts toks = rowLeaves (rowsetToks size size size toks verts) := by
  unfold rowsetKids rowsetToks
  congr 1
  apply List.map_congr_left
  intro r hr
  have := rowsOf_lengths size size verts (by rw [h]; exact Nat.le_refl _) r hr
  rw [List.take_of_length_le (by omega)]

theorem triKids_eq (size : Nat) (verts : List DVert) :
    triKids size verts = rowLeaves (rowsetToks size (size - 1) (size - 1) triToks verts) := rfl

macro "disp_rows" : tactic => `(tactic| (
  simp [dispKidsOf, dispHead, dispRows, named, KV.fname, KV.name, kLeaf, kInt, kBool, kBlock, lower, blockKids]
  <;> (split <;> simp_all)))

section
variable (d : Disp) (w : Nat) (K1 K2 K3 K4 K5 K6 K7 : List KV)
  (m : Option (List KV × List KV × List KV × List KV × List KV × List KV))

theorem dispRows_normals : dispRows "normals" w (dispKidsOf (dispHead d) K1 K2 K3 K4 K5 K6 K7 m) = rowsOfBlock w K1 := by
  rcases m with _ | ⟨M1, M2, M3, M4, M5, M6⟩ <;> disp_rows
theorem dispRows_distances : dispRows "distances" w (dispKidsOf (dispHead d) K1 K2 K3 K4 K5 K6 K7 m) = rowsOfBlock w K2 := by
  rcases m with _ | ⟨M1, M2, M3, M4, M5, M6⟩ <;> disp_rows
theorem dispRows_offsets : dispRows "offsets" w (dispKidsOf (dispHead d) K1 K2 K3 K4 K5 K6 K7 m) = rowsOfBlock w K3 := by
  rcases m with _ | ⟨M1, M2, M3, M4, M5, M6⟩ <;> disp_rows
theorem dispRows_offset_normals : dispRows "offset_normals" w (dispKidsOf (dispHead d) K1 K2 K3 K4 K5 K6 K7 m) = rowsOfBlock w K4 := by
  rcases m with _ | ⟨M1, M2, M3, M4, M5, M6⟩ <;> disp_rows
theorem dispRows_alphas : dispRows "alphas" w (dispKidsOf (dispHead d) K1 K2 K3 K4 K5 K6 K7 m) = rowsOfBlock w K5 := by
  rcases m with _ | ⟨M1, M2, M3, M4, M5, M6⟩ <;> disp_rows
theorem dispRows_tris : dispRows "triangle_tags" w (dispKidsOf (dispHead d) K1 K2 K3 K4 K5 K6 K7 m) = rowsOfBlock w K6 := by
  rcases m with _ | ⟨M1, M2, M3, M4, M5, M6⟩ <;> disp_rows

variable (M1 M2 M3 M4 M5 M6 : List KV)
theorem dispRows_multiblend : dispRows "multiblend" w (dispKidsOf (dispHead d) K1 K2 K3 K4 K5 K6 K7 (some (M1, M2, M3, M4, M5, M6))) = rowsOfBlock w M1 := by
  disp_rows
theorem dispRows_alphablend : dispRows "alphablend" w (dispKidsOf (dispHead d) K1 K2 K3 K4 K5 K6 K7 (some (M1, M2, M3, M4, M5, M6))) = rowsOfBlock w M2 := by
  disp_rows
theorem dispRows_color0 : dispRows "multiblend_color_0" w (dispKidsOf (dispHead d) K1 K2 K3 K4 K5 K6 K7 (some (M1, M2, M3, M4, M5, M6))) = rowsOfBlock w M3 := by
  disp_rows
theorem dispRows_color1 : dispRows "multiblend_color_1" w (dispKidsOf (dispHead d) K1 K2 K3 K4 K5 K6 K7 (some (M1, M2, M3, M4, M5, M6))) = rowsOfBlock w M4 := by
  disp_rows
theorem dispRows_color2 : dispRows "multiblend_color_2" w (dispKidsOf (dispHead d) K1 K2 K3 K4 K5 K6 K7 (some (M1, M2, M3, M4, M5, M6))) = rowsOfBlock w M5 := by
  disp_rows
theorem dispRows_color3 : dispRows "multiblend_color_3" w (dispKidsOf (dispHead d) K1 K2 K3 K4 K5 K6 K7 (some (M1, M2, M3, M4, M5, M6))) = rowsOfBlock w M6 := by
  disp_rows
end




/-! ### displacement: the vertex arrays, assembled -/

/-- a vertex after the six arrays every displacement has -/
def baseVert (size i : Nat) (a : DVert) : DVert :=
  { blankVert with
    normal := a.normal, offset := a.offset, offsetNorm := a.offsetNorm, alpha := a.alpha, dist := a.dist,
    triA := if inRegion size (size - 1) (size - 1) i then a.triA else 9,
    triB := if inRegion size (size - 1) (size - 1) i then a.triB else 9 }

/-- … and after the multiblend arrays -/
def multiVert (size i : Nat) (a : DVert) : DVert :=
  { baseVert size i a with
    colors := some [colorOf 0 a, colorOf 1 a, colorOf 2 a, colorOf 3 a], blend := a.blend, malpha := a.malpha }

theorem replicate_eq_map {α β} (l : List α) (n : Nat) (b : β) (h : l.length = n) :
    List.replicate n b = l.map (fun _ => b) := by
  subst h
  induction l with
  | nil => rfl
  | cons a r ih => simp [List.replicate_succ, ih]

theorem inRegion_full (size i : Nat) (h : i < size * size) : inRegion size size size i = true := by
  have hs : 0 < size := by
    rcases Nat.eq_zero_or_pos size with h0 | h0
    · subst h0; simp at h
    · exact h0
  have h1 : i / size < size := (Nat.div_lt_iff_lt_mul hs).mpr h
  have h2 : i % size < size := Nat.mod_lt _ hs
  simp [inRegion, h1, h2]

theorem getD_of_getElem? {l : List DVert} {j : Nat} {a : DVert} (h : l[j]? = some a) :
    l.getD j blankVert = a := by simp [List.getD, h]

theorem lt_of_getElem? {l : List DVert} {j : Nat} {a : DVert} (h : l[j]? = some a) : j < l.length := by
  rcases Nat.lt_or_ge j l.length with h1 | h1
  · exact h1
  · rw [List.getElem?_eq_none h1] at h; cases h

section
variable (d : Disp) (K7 : List KV) (m : Option (List KV × List KV × List KV × List KV × List KV × List KV))

theorem dispVertsBase_export (h : DispOK d = true) :
    dispVertsBase (dispSize d.power) (dispSize d.power - 1)
      (dispKidsOf (dispHead d)
        (rowLeaves (rowsetToks (dispSize d.power) (dispSize d.power) (dispSize d.power) (·.normal.toks) d.verts))
        (rowLeaves (rowsetToks (dispSize d.power) (dispSize d.power) (dispSize d.power) (fun v => [v.dist]) d.verts))
        (rowLeaves (rowsetToks (dispSize d.power) (dispSize d.power) (dispSize d.power) (·.offset.toks) d.verts))
        (rowLeaves (rowsetToks (dispSize d.power) (dispSize d.power) (dispSize d.power) (·.offsetNorm.toks) d.verts))
        (rowLeaves (rowsetToks (dispSize d.power) (dispSize d.power) (dispSize d.power) (fun v => [v.alpha]) d.verts))
        (rowLeaves (rowsetToks (dispSize d.power) (dispSize d.power - 1) (dispSize d.power - 1) triToks d.verts))
        K7 m)
      = .ok (mapIdx (baseVert (dispSize d.power)) 0 d.verts) := by
  simp only [DispOK, Bool.and_eq_true, decide_eq_true_eq, List.all_eq_true] at h
  obtain ⟨⟨⟨⟨⟨⟨⟨hp1, hp4⟩, hpos⟩, helev⟩, hcoll⟩, hal⟩, hlen⟩, hv⟩ := h
  generalize hsz : dispSize d.power = size at *
  have hvo : ∀ s ∈ d.verts, DVertOK s = true := hv
  have parts : ∀ s ∈ d.verts, V3OK s.normal = true ∧ TokOK s.dist = true ∧ V3OK s.offset = true ∧
      V3OK s.offsetNorm = true ∧ TokOK s.alpha = true ∧ triOK s.triA = true ∧ triOK s.triB = true := by
    intro s hs
    have := hvo s hs
    simp only [DVertOK, Bool.and_eq_true] at this
    obtain ⟨⟨⟨⟨⟨⟨⟨⟨⟨a1, a2⟩, a3⟩, a4⟩, a5⟩, a6⟩, a7⟩, _⟩, _⟩, _⟩ := this
    exact ⟨a1, a2, a3, a4, a5, a6, a7⟩
  unfold dispVertsBase
  -- normals
  rw [applyRowset_spec size 3 size updNormal (fun v s => { v with normal := s.normal }) (·.normal.toks) d.verts _
    "normals" size _ (Nat.le_refl _) (Nat.le_refl _) (by simp) hlen (by intro s; rfl)
    (fun s hs => v3_tokList (parts s hs).1)
    (fun v s hs => by simp [updNormal, num3_toks (parts s hs).1])
    (dispRows_normals d _ _ _ _ _ _ _ _ _)]
  simp only [Except.bind]
  -- offsets
  rw [applyRowset_spec size 3 size updOffset (fun v s => { v with offset := s.offset }) (·.offset.toks) d.verts _
    "offsets" size _ (Nat.le_refl _) (Nat.le_refl _) (by simp [mapIdx_length]) hlen (by intro s; rfl)
    (fun s hs => v3_tokList (parts s hs).2.2.1)
    (fun v s hs => by simp [updOffset, num3_toks (parts s hs).2.2.1])
    (dispRows_offsets d _ _ _ _ _ _ _ _ _)]
  simp only [Except.bind]
  -- offset normals
  rw [applyRowset_spec size 3 size updOffsetNorm (fun v s => { v with offsetNorm := s.offsetNorm }) (·.offsetNorm.toks) d.verts _
    "offset_normals" size _ (Nat.le_refl _) (Nat.le_refl _) (by simp [mapIdx_length]) hlen (by intro s; rfl)
    (fun s hs => v3_tokList (parts s hs).2.2.2.1)
    (fun v s hs => by simp [updOffsetNorm, num3_toks (parts s hs).2.2.2.1])
    (dispRows_offset_normals d _ _ _ _ _ _ _ _ _)]
  simp only [Except.bind]
  -- alphas
  rw [applyRowset_spec size 1 size updAlpha (fun v s => { v with alpha := s.alpha }) (fun v => [v.alpha]) d.verts _
    "alphas" size _ (Nat.le_refl _) (Nat.le_refl _) (by simp [mapIdx_length]) hlen (by intro s; rfl)
    (fun s hs => tokList_of_tokOK (by intro t ht; simp at ht; subst ht; exact (parts s hs).2.2.2.2.1))
    (fun v s hs => by simp [updAlpha, num1_tok (parts s hs).2.2.2.2.1])
    (by simpa using dispRows_alphas d (1 * size) _ _ _ _ _ _ _ _)]
  simp only [Except.bind]
  -- distances
  rw [applyRowset_spec size 1 size updDist (fun v s => { v with dist := s.dist }) (fun v => [v.dist]) d.verts _
    "distances" size _ (Nat.le_refl _) (Nat.le_refl _) (by simp [mapIdx_length]) hlen (by intro s; rfl)
    (fun s hs => tokList_of_tokOK (by intro t ht; simp at ht; subst ht; exact (parts s hs).2.1))
    (fun v s hs => by simp [updDist, num1_tok (parts s hs).2.1])
    (by simpa using dispRows_distances d (1 * size) _ _ _ _ _ _ _ _)]
  simp only [Except.bind]
  -- triangle tags
  rw [applyRowset_spec size 2 (size - 1) updTri (fun v s => { v with triA := s.triA, triB := s.triB }) triToks d.verts _
    "triangle_tags" (size - 1) _ (Nat.sub_le _ _) (Nat.sub_le _ _) (by simp [mapIdx_length]) hlen (by intro s; rfl)
    (fun s hs => by
      intro t ht
      simp only [triToks, List.mem_cons, List.mem_nil_iff, or_false] at ht
      rcases ht with rfl | rfl <;> exact showInt_tok _)
    (fun v s hs => by simp [updTri, triToks, triTag_show (parts s hs).2.2.2.2.2.1, triTag_show (parts s hs).2.2.2.2.2.2])
    (dispRows_tris d _ _ _ _ _ _ _ _ _)]
  -- collapse the six maps
  congr 1
  rw [replicate_eq_map d.verts (size * size) blankVert hlen]
  simp only [mapIdx_mapIdx, mapIdx_map]
  apply mapIdx_congr
  intro j a ha
  have hj : j < size * size := by rw [← hlen]; exact lt_of_getElem? ha
  simp only [Nat.zero_add, inRegion_full size j hj, if_true, getD_of_getElem? ha, baseVert]
  by_cases hr : inRegion size (size - 1) (size - 1) j = true <;> simp [hr, blankVert]

end




theorem map_mapIdx {α β γ} (f : β → γ) (g : Nat → α → β) (k : Nat) (l : List α) :
    (mapIdx g k l).map f = mapIdx (fun i a => f (g i a)) k l := by
  induction l generalizing k with
  | nil => rfl
  | cons a r ih => simp [mapIdx, ih]

section
variable (d : Disp) (K1 K2 K3 K4 K5 K6 K7 : List KV)

theorem dispVertsMulti_export (h : DispOK d = true) :
    dispVertsMulti (dispSize d.power)
      (dispKidsOf (dispHead d) K1 K2 K3 K4 K5 K6 K7
        (some (rowLeaves (rowsetToks (dispSize d.power) (dispSize d.power) (dispSize d.power) (·.blend.toks) d.verts),
               rowLeaves (rowsetToks (dispSize d.power) (dispSize d.power) (dispSize d.power) (·.malpha.toks) d.verts),
               rowLeaves (rowsetToks (dispSize d.power) (dispSize d.power) (dispSize d.power) (colorToks 0) d.verts),
               rowLeaves (rowsetToks (dispSize d.power) (dispSize d.power) (dispSize d.power) (colorToks 1) d.verts),
               rowLeaves (rowsetToks (dispSize d.power) (dispSize d.power) (dispSize d.power) (colorToks 2) d.verts),
               rowLeaves (rowsetToks (dispSize d.power) (dispSize d.power) (dispSize d.power) (colorToks 3) d.verts))))
      (mapIdx (baseVert (dispSize d.power)) 0 d.verts)
      = .ok (mapIdx (multiVert (dispSize d.power)) 0 d.verts) := by
  simp only [DispOK, Bool.and_eq_true, decide_eq_true_eq, List.all_eq_true] at h
  obtain ⟨⟨⟨⟨⟨⟨⟨hp1, hp4⟩, hpos⟩, helev⟩, hcoll⟩, hal⟩, hlen⟩, hv⟩ := h
  generalize hsz : dispSize d.power = size at *
  have hvo : ∀ s ∈ d.verts, DVertOK s = true := hv
  have hb : ∀ s ∈ d.verts, V4OK s.blend = true ∧ V4OK s.malpha = true := by
    intro s hs
    have := hvo s hs
    simp only [DVertOK, Bool.and_eq_true] at this
    exact ⟨this.1.1.2, this.1.2⟩
  have hcol : ∀ i, ∀ s ∈ d.verts, V3OK (colorOf i s) = true := fun i s hs => colorOf_ok i s (hvo s hs)
  have colStep : ∀ (i : Nat) (name : String) (vs : List DVert), vs.length = size * size →
      dispRows name (3 * size) (dispKidsOf (dispHead d) K1 K2 K3 K4 K5 K6 K7
        (some (rowLeaves (rowsetToks size size size (·.blend.toks) d.verts),
               rowLeaves (rowsetToks size size size (·.malpha.toks) d.verts),
               rowLeaves (rowsetToks size size size (colorToks 0) d.verts),
               rowLeaves (rowsetToks size size size (colorToks 1) d.verts),
               rowLeaves (rowsetToks size size size (colorToks 2) d.verts),
               rowLeaves (rowsetToks size size size (colorToks 3) d.verts))))
        = rowsOfBlock (3 * size) (rowLeaves (rowsetToks size size size (colorToks i) d.verts)) →
      applyRowset name size 3 size (updColor i) (dispKidsOf (dispHead d) K1 K2 K3 K4 K5 K6 K7
        (some (rowLeaves (rowsetToks size size size (·.blend.toks) d.verts),
               rowLeaves (rowsetToks size size size (·.malpha.toks) d.verts),
               rowLeaves (rowsetToks size size size (colorToks 0) d.verts),
               rowLeaves (rowsetToks size size size (colorToks 1) d.verts),
               rowLeaves (rowsetToks size size size (colorToks 2) d.verts),
               rowLeaves (rowsetToks size size size (colorToks 3) d.verts)))) vs
        = .ok (mapIdx (fun j v => if inRegion size size size j then
            { v with colors := v.colors.map fun l => setAt l i fun _ => colorOf i (d.verts.getD j blankVert) } else v) 0 vs) := by
    intro i name vs hvs hd
    exact applyRowset_spec size 3 size (updColor i)
      (fun v s => { v with colors := v.colors.map fun l => setAt l i fun _ => colorOf i s }) (colorToks i) d.verts vs
      name size _ (Nat.le_refl _) (Nat.le_refl _) hvs hlen (by intro s; rw [colorToks_eq]; rfl)
      (fun s hs => by rw [colorToks_eq]; exact v3_tokList (hcol i s hs))
      (fun v s hs => by simp [updColor, colorToks_eq, num3_toks (hcol i s hs)]) hd
  unfold dispVertsMulti
  rw [colStep 0 "multiblend_color_0" _ (by simp [mapIdx_length, hlen]) (dispRows_color0 d _ _ _ _ _ _ _ _ _ _ _ _ _ _)]
  simp only [Except.bind]
  rw [colStep 1 "multiblend_color_1" _ (by simp [mapIdx_length, hlen]) (dispRows_color1 d _ _ _ _ _ _ _ _ _ _ _ _ _ _)]
  simp only [Except.bind]
  rw [colStep 2 "multiblend_color_2" _ (by simp [mapIdx_length, hlen]) (dispRows_color2 d _ _ _ _ _ _ _ _ _ _ _ _ _ _)]
  simp only [Except.bind]
  rw [colStep 3 "multiblend_color_3" _ (by simp [mapIdx_length, hlen]) (dispRows_color3 d _ _ _ _ _ _ _ _ _ _ _ _ _ _)]
  simp only [Except.bind]
  rw [applyRowset_spec size 4 size updBlend (fun v s => { v with blend := s.blend }) (·.blend.toks) d.verts _
    "multiblend" size _ (Nat.le_refl _) (Nat.le_refl _) (by simp [mapIdx_length, hlen]) hlen (by intro s; rfl)
    (fun s hs => v4_tokList (hb s hs).1)
    (fun v s hs => by simp [updBlend, num4_toks (hb s hs).1])
    (dispRows_multiblend d _ _ _ _ _ _ _ _ _ _ _ _ _ _)]
  simp only [Except.bind]
  rw [applyRowset_spec size 4 size updMalpha (fun v s => { v with malpha := s.malpha }) (·.malpha.toks) d.verts _
    "alphablend" size _ (Nat.le_refl _) (Nat.le_refl _) (by simp [mapIdx_length, hlen]) hlen (by intro s; rfl)
    (fun s hs => v4_tokList (hb s hs).2)
    (fun v s hs => by simp [updMalpha, num4_toks (hb s hs).2])
    (dispRows_alphablend d _ _ _ _ _ _ _ _ _ _ _ _ _ _)]
  congr 1
  simp only [map_mapIdx, mapIdx_mapIdx]
  apply mapIdx_congr
  intro j a ha
  have hj : j < size * size := by rw [← hlen]; exact lt_of_getElem? ha
  simp only [Nat.zero_add, inRegion_full size j hj, if_true, getD_of_getElem? ha, multiVert, whiteColors, baseVert,
    Option.map_some, setAt]

end




/-! ### displacement: the whole `dispinfo` block -/

theorem flag_roundtrip : ∀ c, c < 8 → flagToColl (collToFlag c) = c ∧ collToFlag c ≤ 15 := by decide

theorem intTokens_show (l : List Int) : intTokens (l.map showInt) = .ok l := by
  induction l with
  | nil => rfl
  | cons a r ih => simp [intTokens, parseInt_showInt, ih]

theorem dispKidsOf_split (head K1 K2 K3 K4 K5 K6 K7 : List KV)
    (m : Option (List KV × List KV × List KV × List KV × List KV × List KV)) :
    ∃ blocks, dispKidsOf head K1 K2 K3 K4 K5 K6 K7 m = head ++ blocks ∧ (∀ k ∈ blocks, k.isBlock = true) ∧
      findKey "allowed_verts" (head ++ blocks) = some (kBlock "allowed_verts" K7) ∧
      (head ++ blocks).any (named "multiblend") = (head.any (named "multiblend") || m.isSome) := by
  rcases m with _ | ⟨M1, M2, M3, M4, M5, M6⟩
  · refine ⟨_, rfl, ?_, ?_, ?_⟩
    · intro k hk; simp at hk
      rcases hk with rfl | rfl | rfl | rfl | rfl | rfl | rfl <;> rfl
    · unfold findKey; rw [findLast_append]
      simp [findLast, kBlock, named, KV.fname, KV.name, lower]
    · simp [kBlock, named, KV.fname, KV.name, lower]
  · refine ⟨_, rfl, ?_, ?_, ?_⟩
    · intro k hk; simp at hk
      rcases hk with rfl | rfl | rfl | rfl | rfl | rfl | rfl | rfl | rfl | rfl | rfl | rfl | rfl <;> rfl
    · unfold findKey; rw [findLast_append]
      simp [findLast, kBlock, named, KV.fname, KV.name, lower]
    · simp [kBlock, named, KV.fname, KV.name, lower]

theorem edge_eq (size j : Nat) (hj : j < size * size) :
    (j % size == size - 1 || j / size == size - 1) = !(inRegion size (size - 1) (size - 1) j) := by
  have hs : 0 < size := by
    rcases Nat.eq_zero_or_pos size with h0 | h0
    · subst h0; simp at hj
    · exact h0
  have h1 : j / size < size := (Nat.div_lt_iff_lt_mul hs).mpr hj
  have h2 : j % size < size := Nat.mod_lt _ hs
  have key : (j % size = size - 1 ∨ j / size = size - 1) ↔ ¬ (j / size < size - 1 ∧ j % size < size - 1) := by
    omega
  by_cases hr : (j / size < size - 1 ∧ j % size < size - 1)
  · have hk : ¬ (j % size = size - 1 ∨ j / size = size - 1) := fun h => (key.mp h) hr
    simp only [not_or] at hk
    simp [inRegion, hr.1, hr.2, hk.1, hk.2]
  · have hk := key.mpr hr
    have : inRegion size (size - 1) (size - 1) j = false := by
      simp only [inRegion, Bool.and_eq_false_iff, decide_eq_false_iff_not]
      by_cases h3 : j / size < size - 1
      · right; exact fun h4 => hr ⟨h3, h4⟩
      · left; exact h3
    rw [this]
    rcases hk with hk | hk <;> simp [hk]

theorem projVert_base (size j : Nat) (a : DVert) (hj : j < size * size) :
    projVert false size j a = baseVert size j a := by
  cases a
  simp only [projVert, baseVert, blankVert, edge_eq size j hj, Bool.false_eq_true, if_false]
  by_cases hr : inRegion size (size - 1) (size - 1) j = true <;> simp [hr]

theorem projVert_multi (size j : Nat) (a : DVert) (hj : j < size * size) :
    projVert true size j a = multiVert size j a := by
  cases a
  simp only [projVert, multiVert, baseVert, blankVert, edge_eq size j hj, if_true, colorOf]
  by_cases hr : inRegion size (size - 1) (size - 1) j = true <;> simp [hr, List.range, List.range.loop]




theorem dispSize_pos (p : Nat) : 2 ^ p = dispSize p - 1 := by simp [dispSize]

theorem parseDisp_export (mb : Bool) (d : Disp) (h : DispOK d = true) :
    parseDisp (exportDisp mb d).kids = .ok (projDisp mb d) := by
  have hh := h
  simp only [DispOK, Bool.and_eq_true, decide_eq_true_eq, List.all_eq_true] at hh
  obtain ⟨⟨⟨⟨⟨⟨⟨hp1, hp4⟩, hpos⟩, helev⟩, hcoll⟩, hal⟩, hlen⟩, hv⟩ := hh
  -- the children, with the arrays in `rowsetToks` form
  have hkids : (exportDisp mb d).kids =
      dispKidsOf (dispHead d)
        (rowLeaves (rowsetToks (dispSize d.power) (dispSize d.power) (dispSize d.power) (·.normal.toks) d.verts))
        (rowLeaves (rowsetToks (dispSize d.power) (dispSize d.power) (dispSize d.power) (fun v => [v.dist]) d.verts))
        (rowLeaves (rowsetToks (dispSize d.power) (dispSize d.power) (dispSize d.power) (·.offset.toks) d.verts))
        (rowLeaves (rowsetToks (dispSize d.power) (dispSize d.power) (dispSize d.power) (·.offsetNorm.toks) d.verts))
        (rowLeaves (rowsetToks (dispSize d.power) (dispSize d.power) (dispSize d.power) (fun v => [v.alpha]) d.verts))
        (rowLeaves (rowsetToks (dispSize d.power) (dispSize d.power - 1) (dispSize d.power - 1) triToks d.verts))
        [kLeaf "10" (unwords (d.allowed.map showInt))]
        (if mb && hasBlend d.verts then
          some (rowLeaves (rowsetToks (dispSize d.power) (dispSize d.power) (dispSize d.power) (·.blend.toks) d.verts),
                rowLeaves (rowsetToks (dispSize d.power) (dispSize d.power) (dispSize d.power) (·.malpha.toks) d.verts),
                rowLeaves (rowsetToks (dispSize d.power) (dispSize d.power) (dispSize d.power) (colorToks 0) d.verts),
                rowLeaves (rowsetToks (dispSize d.power) (dispSize d.power) (dispSize d.power) (colorToks 1) d.verts),
                rowLeaves (rowsetToks (dispSize d.power) (dispSize d.power) (dispSize d.power) (colorToks 2) d.verts),
                rowLeaves (rowsetToks (dispSize d.power) (dispSize d.power) (dispSize d.power) (colorToks 3) d.verts))
         else none) := by
    simp only [exportDisp, kBlock, KV.kids, rowsetKids_eq _ _ _ hlen, triKids_eq]
  rw [hkids]
  generalize hm : (if mb && hasBlend d.verts then
          some (rowLeaves (rowsetToks (dispSize d.power) (dispSize d.power) (dispSize d.power) (·.blend.toks) d.verts),
                rowLeaves (rowsetToks (dispSize d.power) (dispSize d.power) (dispSize d.power) (·.malpha.toks) d.verts),
                rowLeaves (rowsetToks (dispSize d.power) (dispSize d.power) (dispSize d.power) (colorToks 0) d.verts),
                rowLeaves (rowsetToks (dispSize d.power) (dispSize d.power) (dispSize d.power) (colorToks 1) d.verts),
                rowLeaves (rowsetToks (dispSize d.power) (dispSize d.power) (dispSize d.power) (colorToks 2) d.verts),
                rowLeaves (rowsetToks (dispSize d.power) (dispSize d.power) (dispSize d.power) (colorToks 3) d.verts))
         else none) = m
  obtain ⟨blocks, hsplit, hblocks, hfk, hany⟩ := dispKidsOf_split (dispHead d)
    (rowLeaves (rowsetToks (dispSize d.power) (dispSize d.power) (dispSize d.power) (·.normal.toks) d.verts))
    (rowLeaves (rowsetToks (dispSize d.power) (dispSize d.power) (dispSize d.power) (fun v => [v.dist]) d.verts))
    (rowLeaves (rowsetToks (dispSize d.power) (dispSize d.power) (dispSize d.power) (·.offset.toks) d.verts))
    (rowLeaves (rowsetToks (dispSize d.power) (dispSize d.power) (dispSize d.power) (·.offsetNorm.toks) d.verts))
    (rowLeaves (rowsetToks (dispSize d.power) (dispSize d.power) (dispSize d.power) (fun v => [v.alpha]) d.verts))
    (rowLeaves (rowsetToks (dispSize d.power) (dispSize d.power - 1) (dispSize d.power - 1) triToks d.verts))
    [kLeaf "10" (unwords (d.allowed.map showInt))] m
  have gl : ∀ key, getLeaf key (dispHead d ++ blocks) = getLeaf key (dispHead d) :=
    fun key => getLeaf_append_blocks key _ _ hblocks
  have hpow : getInt "power" 4 (dispHead d ++ blocks) = (d.power : Int) := by
    unfold getInt; rw [gl]; unfold dispHead; kv_simp; simp [parseInt_showInt]
  have hfl : getInt "flags" 0 (dispHead d ++ blocks) = (collToFlag d.coll : Int) := by
    unfold getInt; rw [gl]; unfold dispHead; kv_simp; simp [parseInt_showInt]
  have hposv : getV3 "startposition" v3zero (dispHead d ++ blocks) = d.pos := by
    unfold getV3; rw [gl]; unfold dispHead; kv_simp
    exact parseV3_wrap _ _ _ _ hpos (by decide) (by decide) (by decide) (by decide)
  have hel : getFloat "elevation" (lit "0.0") (dispHead d ++ blocks) = d.elev := by
    unfold getFloat; rw [gl]; unfold dispHead; kv_simp; simp [tok_isNum helev]
  have hsub : getBool "subdiv" false (dispHead d ++ blocks) = d.subdiv := by
    unfold getBool; rw [gl]; unfold dispHead; kv_simp; simp [boolLookup_boolStr]
  obtain ⟨hfr, hfb⟩ := flag_roundtrip d.coll hcoll
  have hallowed : parseAllowed (dispHead d ++ blocks) = .ok d.allowed := by
    unfold parseAllowed
    rw [hfk]
    have h10 : named "10" (kLeaf "10" (unwords (d.allowed.map showInt))) = true := by kv_simp
    have hg : getLeaf "10" [kLeaf "10" (unwords (d.allowed.map showInt))] = some (unwords (d.allowed.map showInt)) := by
      kv_simp
    simp only [kBlock, blockKids, List.any_cons, h10, Bool.true_or, if_true, hg]
    rw [splitWs_unwords _ (by
      intro t ht
      simp only [List.mem_map] at ht
      obtain ⟨i, _, rfl⟩ := ht
      exact showInt_tok i)]
    exact intTokens_show d.allowed
  have hanyHead : (dispHead d).any (named "multiblend") = false := by
    unfold dispHead; kv_simp
  rw [hsplit]
  unfold parseDisp
  simp only [hpow, hfl, hposv, hel, hsub, hallowed, hal]
  have c1 : (0 ≤ (d.power : Int) && (d.power : Int) ≤ 4) = true := by
    simp only [Bool.and_eq_true, decide_eq_true_eq]; omega
  have c2 : (0 ≤ (collToFlag d.coll : Int) && (collToFlag d.coll : Int) ≤ 15) = true := by
    simp only [Bool.and_eq_true, decide_eq_true_eq]; omega
  have c3 : (d.power == 0) = false := by
    simp only [beq_eq_false_iff_ne, ne_eq]; omega
  simp only [c1, c2, c3, Bool.not_true, Bool.false_eq_true, if_false, bne_self_eq_false, Int.toNat_natCast, hfr]
  rw [dispSize_pos d.power]
  unfold parseDispVerts
  rw [← hsplit, dispVertsBase_export d _ m h]
  simp only [Except.bind]
  rw [hsplit, hany, hanyHead, Bool.false_or, ← hsplit]
  by_cases hk : (mb && hasBlend d.verts) = true
  · rw [hk] at hm
    simp only [if_true] at hm
    subst hm
    simp only [Option.isSome_some, if_true]
    rw [dispVertsMulti_export d _ _ _ _ _ _ _ h]
    simp only [projDisp, hk]
    congr 2
    apply mapIdx_congr
    intro j a ha
    have hj : j < dispSize d.power * dispSize d.power := by rw [← hlen]; exact lt_of_getElem? ha
    simp only [Nat.zero_add]
    exact (projVert_multi _ j a hj).symm
  · have hk' : (mb && hasBlend d.verts) = false := by simpa using hk
    rw [hk'] at hm
    simp only [Bool.false_eq_true, if_false] at hm
    subst hm
    simp only [Option.isSome_none, Bool.false_eq_true, if_false]
    simp only [projDisp, hk']
    congr 2
    apply mapIdx_congr
    intro j a ha
    have hj : j < dispSize d.power * dispSize d.power := by rw [← hlen]; exact lt_of_getElem? ha
    simp only [Nat.zero_add]
    exact (projVert_base _ j a hj).symm



/-- the face fields other than point data and displacement -/
def SideCoreOK (s : Side) : Bool :=
  V3OK s.p0 && V3OK s.p1 && V3OK s.p2 && UVOK s.uaxis && UVOK s.vaxis && TokOK s.rot

theorem parseSide_core (nm : Str) (s : Side) (extra : List KV) (hb : ∀ k ∈ extra, k.isBlock = true)
    (disp : Option Disp) (points : Option (List V3))
    (hd : parseSideDisp (sideLeaves s ++ extra) = .ok disp)
    (hp : parseSidePoints (sideLeaves s ++ extra) = .ok points)
    (h : SideCoreOK s = true) :
    parseSide (KV.block nm (sideLeaves s ++ extra)) = .ok { s with points := points, disp := disp } := by
  simp only [SideCoreOK, Bool.and_eq_true] at h
  obtain ⟨⟨⟨⟨⟨h0, h1⟩, h2⟩, hu⟩, hv⟩, hr⟩ := h
  have gl : ∀ key, getLeaf key (sideLeaves s ++ extra) = getLeaf key (sideLeaves s) :=
    fun key => getLeaf_append_blocks key _ _ hb
  have hpl : parsePlanes (sideLeaves s ++ extra) = .ok (s.p0, s.p1, s.p2) := by
    have := parsePlanes_leaves s h0 h1 h2
    unfold parsePlanes at this ⊢
    rw [gl]; exact this
  simp only [parseSide]
  rw [hpl]
  simp only []
  have eu : getLeaf "uaxis" (sideLeaves s) = some s.uaxis.str := by unfold sideLeaves; kv_simp
  have ev : getLeaf "vaxis" (sideLeaves s) = some s.vaxis.str := by unfold sideLeaves; kv_simp
  rw [gl, gl, eu, ev]
  simp only [Option.getD_some]
  rw [parseUV_str _ hu, parseUV_str _ hv]
  simp only []
  rw [hd, hp]
  simp only []
  have e1 : getInt "id" (-1) (sideLeaves s ++ extra) = s.id := by
    unfold getInt; rw [gl]; unfold sideLeaves; kv_simp; simp [parseInt_showInt]
  have e2 : getLeaf "material" (sideLeaves s) = some s.mat := by unfold sideLeaves; kv_simp
  have e3 : getFloat "rotation" ['0'] (sideLeaves s ++ extra) = s.rot := by
    unfold getFloat; rw [gl]; unfold sideLeaves; kv_simp; simp [tok_isNum hr]
  have e4 : getInt "lightmapscale" 16 (sideLeaves s ++ extra) = s.lightmap := by
    unfold getInt; rw [gl]; unfold sideLeaves; kv_simp; simp [parseInt_showInt]
  have e5 : getInt "smoothing_groups" 0 (sideLeaves s ++ extra) = s.smooth := by
    unfold getInt; rw [gl]; unfold sideLeaves; kv_simp; simp [parseInt_showInt]
  rw [e1, gl, e2, e3, e4, e5]
  cases s
  simp_all

/-- a well-formed face: core fields, Strata point data and displacement data (if any) -/
def SideOK1 (s : Side) : Bool :=
  SideCoreOK s && (match s.points with
    | some pts => pts.all V3OK
    | none => true) && (match s.disp with
    | some d => DispOK d
    | none => true)

def pointsPart (s : Side) : List KV :=
  match s.points with
  | some pts => [exportPoints pts]
  | none => []

def dispPart (mb : Bool) (s : Side) : List KV :=
  match s.disp with
  | some d => if d.power > 0 then [exportDisp mb d] else []
  | none => []

theorem exportSide_eq (mb : Bool) (s : Side) :
    exportSide mb s = KV.block "side".toList (sideLeaves s ++ (pointsPart s ++ dispPart mb s)) := by
  cases hp : s.points <;> cases hd : s.disp <;>
    simp [exportSide, sideLeaves, kBlock, pointsPart, dispPart, hp, hd]

theorem sideLeaves_noBlock (s : Side) : ∀ k ∈ sideLeaves s, k.isBlock = false := by
  intro k hk
  simp only [sideLeaves, List.mem_cons, List.mem_nil_iff, or_false] at hk
  rcases hk with rfl | rfl | rfl | rfl | rfl | rfl | rfl | rfl <;> rfl

theorem pointsPart_props (s : Side) :
    (∀ k ∈ pointsPart s, k.isBlock = true) ∧ (∀ k ∈ pointsPart s, named "dispinfo" k = false) := by
  unfold pointsPart
  cases s.points with
  | none => simp
  | some pts => simp [exportPoints, kBlock, KV.isBlock, named, KV.fname, KV.name, lower]

theorem dispPart_props (mb : Bool) (s : Side) :
    (∀ k ∈ dispPart mb s, k.isBlock = true) ∧ (∀ k ∈ dispPart mb s, named "point_data" k = false) := by
  unfold dispPart
  cases s.disp with
  | none => simp
  | some d =>
    by_cases hp : d.power > 0 <;>
      simp [hp, exportDisp, kBlock, KV.isBlock, named, KV.fname, KV.name, lower]

theorem parseSidePoints_export (mb : Bool) (s : Side)
    (hp : match s.points with
      | some pts => ∀ p ∈ pts, V3OK p = true
      | none => True) :
    parseSidePoints (sideLeaves s ++ (pointsPart s ++ dispPart mb s)) = .ok s.points := by
  have hleaf : ∀ k ∈ sideLeaves s, (named "point_data" k && k.isBlock) = false := by
    intro k hk; simp [sideLeaves_noBlock s k hk]
  have hdisp : ∀ k ∈ dispPart mb s, (named "point_data" k && k.isBlock) = false := by
    intro k hk; simp [(dispPart_props mb s).2 k hk]
  have hfind : findLast (fun k => named "point_data" k && k.isBlock) (sideLeaves s ++ (pointsPart s ++ dispPart mb s))
      = findLast (fun k => named "point_data" k && k.isBlock) (pointsPart s) := by
    rw [findLast_append_left_none _ _ _ hleaf, findLast_append_right_none _ _ _ hdisp]
  unfold parseSidePoints hasBlock getBlock
  rw [hfind]
  cases hpts : s.points with
  | none => simp [pointsPart, hpts, findLast]
  | some pts =>
    rw [hpts] at hp
    simp only [pointsPart, hpts, findLast, exportPoints, kBlock, named, KV.fname, KV.name, KV.isBlock, KV.kids]
    simp only [show (lower "point_data".toList == lower "point_data".toList) = true by decide, Bool.and_self, if_true,
      Option.isSome_some]
    rw [parsePoints_export pts hp]

theorem parseSideDisp_export (mb : Bool) (s : Side)
    (hd : match s.disp with
      | some d => DispOK d = true
      | none => True) :
    parseSideDisp (sideLeaves s ++ (pointsPart s ++ dispPart mb s)) = .ok (projSide mb s).disp := by
  have hleaf : ∀ k ∈ sideLeaves s, named "dispinfo" k = false := by
    intro k hk
    simp only [sideLeaves, List.mem_cons, List.mem_nil_iff, or_false] at hk
    rcases hk with rfl | rfl | rfl | rfl | rfl | rfl | rfl | rfl <;> kv_simp
  have hfind : findLast (named "dispinfo") (sideLeaves s ++ (pointsPart s ++ dispPart mb s))
      = findLast (named "dispinfo") (dispPart mb s) := by
    rw [findLast_append_left_none _ _ _ hleaf, findLast_append_left_none _ _ _ (pointsPart_props s).2]
  unfold parseSideDisp findKey
  rw [hfind]
  unfold dispPart projSide
  cases hds : s.disp with
  | none => simp [findLast]
  | some d =>
    rw [hds] at hd
    have hpw : d.power > 0 := by
      simp only [DispOK, Bool.and_eq_true, decide_eq_true_eq] at hd
      omega
    have hn : named "dispinfo" (exportDisp mb d) = true := by
      simp [exportDisp, kBlock, named, KV.fname, KV.name, lower]
    have hk : blockKids (exportDisp mb d) = .ok (exportDisp mb d).kids := by
      simp [exportDisp, kBlock, blockKids, KV.kids]
    simp only [hpw, if_true, findLast, hn, hk, parseDisp_export mb d hd]

theorem parseSide_export1 (mb : Bool) (s : Side) (h : SideOK1 s = true) :
    parseSide (exportSide mb s) = .ok (projSide mb s) := by
  simp only [SideOK1, Bool.and_eq_true] at h
  obtain ⟨⟨hc, hp⟩, hd⟩ := h
  have hp' : match s.points with
      | some pts => ∀ p ∈ pts, V3OK p = true
      | none => True := by
    cases hpts : s.points with
    | none => trivial
    | some pts => rw [hpts] at hp; simpa using hp
  have hd' : match s.disp with
      | some d => DispOK d = true
      | none => True := by
    cases hds : s.disp with
    | none => trivial
    | some d => rw [hds] at hd; simpa using hd
  rw [exportSide_eq, parseSide_core _ s _ (by
      intro k hk
      simp only [List.mem_append] at hk
      rcases hk with hk | hk
      · exact (pointsPart_props s).1 k hk
      · exact (dispPart_props mb s).1 k hk) _ _ (parseSideDisp_export mb s hd') (parseSidePoints_export mb s hp') hc]
  cases s
  simp [projSide]

theorem foldE_append {σ} (step : σ → KV → Except Err σ) (st : σ) (a b : List KV) :
    foldE step st (a ++ b) = match foldE step st a with
      | .error e => .error e
      | .ok st' => foldE step st' b := by
  induction a generalizing st with
  | nil => rfl
  | cons k ks ih =>
    simp only [List.cons_append, foldE]
    cases step st k with
    | error e => rfl
    | ok st' => exact ih st'

theorem convBool_boolStr (b d : Bool) : convBool (boolStr b) d = b := by
  simp [convBool, boolLookup_boolStr]

/-! ### solids -/

theorem named_side_export (mb : Bool) (s : Side) : named "side" (exportSide mb s) = true := by
  simp [exportSide, kBlock, named, KV.fname, KV.name, lower]

theorem named_editor_export_side (mb : Bool) (s : Side) : named "editor" (exportSide mb s) = false := by
  simp [exportSide, kBlock, named, KV.fname, KV.name, lower]

theorem isBlock_export_side (mb : Bool) (s : Side) : (exportSide mb s).isBlock = true := by
  simp [exportSide, kBlock, KV.isBlock]

def SolidOK1 (s : Solid) : Bool := s.sides.all SideOK1 && V3OK s.color

theorem parseSides_export (mb : Bool) (sides : List Side) (rest : List KV)
    (h : ∀ s ∈ sides, SideOK1 s = true) (hr : parseSides rest = .ok []) :
    parseSides (sides.map (exportSide mb) ++ rest) = .ok (sides.map (projSide mb)) := by
  induction sides with
  | nil => simpa using hr
  | cons s ss ih =>
    simp only [List.map_cons, List.cons_append, parseSides, named_side_export, if_true]
    rw [parseSide_export1 mb s (h s (by simp)), ih (fun t ht => h t (by simp [ht]))]

theorem editorKids_skip (l rest : List KV) (h : ∀ k ∈ l, named "editor" k = false) :
    editorKids (l ++ rest) = editorKids rest := by
  induction l with
  | nil => rfl
  | cons k ks ih =>
    simp only [List.cons_append, editorKids, h k (by simp), Bool.false_eq_true, if_false]
    exact ih (fun j hj => h j (by simp [hj]))

theorem solidEd_color (st : SolidEd) (v : Str) :
    solidEdStep st (kLeaf "color" v) = .ok { st with color := parseV3 v3white v } := by
  simp [solidEdStep, kLeaf, named, KV.fname, KV.name, lower, KV.isBlock]

theorem solidEd_groupid (st : SolidEd) (g : Int) :
    solidEdStep st (kInt "groupid" g) = .ok { st with group := some g } := by
  simp [solidEdStep, kInt, kLeaf, named, KV.fname, KV.name, lower, KV.isBlock, parseInt_showInt]

theorem solidEd_visgroupid (st : SolidEd) (g : Int) :
    solidEdStep st (kInt "visgroupid" g) = .ok { st with visIds := st.visIds ++ [g] } := by
  simp [solidEdStep, kInt, kLeaf, named, KV.fname, KV.name, lower, KV.isBlock, parseInt_showInt]

theorem solidEd_shown (st : SolidEd) (b : Bool) :
    solidEdStep st (kBool "visgroupshown" b) = .ok { st with visShown := b } := by
  simp [solidEdStep, kBool, kLeaf, named, KV.fname, KV.name, lower, KV.isBlock, convBool_boolStr]

theorem solidEd_auto (st : SolidEd) (b : Bool) :
    solidEdStep st (kBool "visgroupautoshown" b) = .ok { st with visAuto := b } := by
  simp [solidEdStep, kBool, kLeaf, named, KV.fname, KV.name, lower, KV.isBlock, convBool_boolStr]

theorem solidEd_cordon (st : SolidEd) :
    solidEdStep st (kLeaf "cordonsolid" ['1']) = .ok { st with cordon := true } := by
  simp [solidEdStep, kLeaf, named, KV.fname, KV.name, lower, KV.isBlock]

theorem foldE_solid_visids (st : SolidEd) (ids : List Int) :
    foldE solidEdStep st (ids.map (kInt "visgroupid")) = .ok { st with visIds := st.visIds ++ ids } := by
  induction ids generalizing st with
  | nil => simp [foldE]
  | cons i is ih =>
    simp only [List.map_cons, foldE, solidEd_visgroupid]
    rw [ih]
    simp

/-- what a re-parse makes of a solid (v1: faces without displacement are unchanged). -/
def solidRT (mb ig hidden : Bool) (s : Solid) : Solid :=
  { s with sides := s.sides.map (projSide mb), hidden, visIds := if ig then isort intLe s.visIds else [], group := if ig then s.group else none }

theorem foldE_solidEditor (ig : Bool) (s : Solid) (hc : V3OK s.color = true) :
    foldE solidEdStep {} (solidEditor ig s) =
      .ok { visIds := if ig then isort intLe s.visIds else [], group := if ig then s.group else none,
            visShown := s.visShown, visAuto := s.visAuto, cordon := s.cordon, color := s.color } := by
  unfold solidEditor
  simp only [foldE_append, List.singleton_append, List.cons_append, List.nil_append, foldE, solidEd_color,
    parseV3_str _ _ hc]
  cases ig with
  | false =>
    simp only [Bool.false_eq_true, if_false, foldE, solidEd_shown, solidEd_auto]
    cases hcd : s.cordon <;> simp [foldE, solidEd_cordon]
  | true =>
    simp only [if_true]
    cases hg : s.group with
    | none =>
      simp only [List.nil_append, foldE_solid_visids, foldE, solidEd_shown, solidEd_auto]
      cases hcd : s.cordon <;> simp [foldE, solidEd_cordon]
    | some g =>
      simp only [List.singleton_append, foldE, solidEd_groupid, foldE_solid_visids, solidEd_shown, solidEd_auto]
      cases hcd : s.cordon <;> simp [foldE, solidEd_cordon]

theorem parseSolid_block (mb ig hidden : Bool) (s : Solid) (h : SolidOK1 s = true) :
    parseSolid hidden (solidBlock mb ig s) = .ok (solidRT mb ig hidden s) := by
  simp only [SolidOK1, Bool.and_eq_true, List.all_eq_true] at h
  obtain ⟨hs, hc⟩ := h
  simp only [solidBlock, kBlock, parseSolid]
  have e1 : parseSides (kInt "id" s.id :: (s.sides.map (exportSide mb) ++ [KV.block "editor".toList (solidEditor ig s)])) = .ok (s.sides.map (projSide mb)) := by
    have hid : named "side" (kInt "id" s.id) = false := by kv_simp
    simp only [parseSides, hid, Bool.false_eq_true, if_false]
    exact parseSides_export mb s.sides _ hs (by
      simp [parseSides, named, KV.fname, KV.name, lower])
  have e2 : editorKids (kInt "id" s.id :: (s.sides.map (exportSide mb) ++ [KV.block "editor".toList (solidEditor ig s)])) = .ok (solidEditor ig s) := by
    have hid : named "editor" (kInt "id" s.id) = false := by kv_simp
    simp only [editorKids, hid, Bool.false_eq_true, if_false]
    rw [editorKids_skip _ _ (by
      intro k hk
      simp only [List.mem_map] at hk
      obtain ⟨t, _, rfl⟩ := hk
      exact named_editor_export_side mb t)]
    simp [editorKids, named, KV.fname, KV.name, lower, blockKids]
  have e3 : getInt "id" (-1) (kInt "id" s.id :: (s.sides.map (exportSide mb) ++ [KV.block "editor".toList (solidEditor ig s)])) = s.id := by
    unfold getInt
    have := getLeaf_append_blocks "id" [kInt "id" s.id] (s.sides.map (exportSide mb) ++ [KV.block "editor".toList (solidEditor ig s)]) (by
      intro k hk
      simp only [List.mem_append, List.mem_map, List.mem_singleton] at hk
      rcases hk with ⟨t, _, rfl⟩ | rfl
      · exact isBlock_export_side mb t
      · rfl)
    simp only [List.singleton_append] at this
    rw [this]
    kv_simp
    simp [parseInt_showInt]
  rw [e1]
  simp only []
  rw [e2]
  simp only []
  rw [foldE_solidEditor ig s hc]
  simp only []
  rw [e3]
  cases s
  simp [solidOf, solidRT]




/-! ### sorting -/

theorem insertBy_perm {α} (le : α → α → Bool) (x : α) (l : List α) : (insertBy le x l).Perm (x :: l) := by
  induction l with
  | nil => exact List.Perm.refl _
  | cons y ys ih =>
    simp only [insertBy]
    split
    · exact List.Perm.refl _
    · exact (List.Perm.cons y ih).trans (List.Perm.swap x y ys)

theorem isort_perm {α} (le : α → α → Bool) (l : List α) : (isort le l).Perm l := by
  induction l with
  | nil => exact List.Perm.refl _
  | cons x xs ih => exact (insertBy_perm le x _).trans (List.Perm.cons x ih)

theorem mem_isort {α} (le : α → α → Bool) (l : List α) (x : α) : x ∈ isort le l ↔ x ∈ l :=
  (isort_perm le l).mem_iff

/-! ### dictionaries -/

theorem dictSet_new (d : List (Str × Str)) (k v : Str) (h : ∀ kv ∈ d, kv.1 ≠ k) :
    dictSet d k v = d ++ [(k, v)] := by
  have : d.any (·.1 == k) = false := by
    simp only [List.any_eq_false, beq_iff_eq]
    intro kv hkv; exact h kv hkv
  simp [dictSet, this]

theorem entSetKey_new (d : List (Str × Str)) (k v : Str) (h : ∀ kv ∈ d, lower kv.1 ≠ lower k) :
    entSetKey d k v = d ++ [(k, v)] := by
  have : d.any (fun kv => lower kv.1 == lower k) = false := by
    simp only [List.any_eq_false, beq_iff_eq]
    intro kv hkv; exact h kv hkv
  simp [entSetKey, this]

/-- keys pairwise different ignoring case (the invariant `Entity.__setitem__` maintains) -/
def KeysDistinct (l : List (Str × Str)) : Prop := l.Pairwise (fun a b => lower a.1 ≠ lower b.1)

theorem foldl_entSetKey (acc l : List (Str × Str)) (h : KeysDistinct (acc ++ l)) :
    l.foldl (fun ks kv => entSetKey ks kv.1 kv.2) acc = acc ++ l := by
  induction l generalizing acc with
  | nil => simp
  | cons kv r ih =>
    simp only [List.foldl_cons]
    have h1 : ∀ a ∈ acc, lower a.1 ≠ lower kv.1 := by
      intro a ha
      have := List.pairwise_append.mp h
      exact this.2.2 a ha kv (by simp)
    rw [entSetKey_new acc kv.1 kv.2 h1]
    have : KeysDistinct ((acc ++ [(kv.1, kv.2)]) ++ r) := by
      simpa [KeysDistinct] using h
    rw [ih _ this]
    simp

theorem lower_ne_of_ne {a b : Str} (h : lower a ≠ lower b) : a ≠ b := fun e => h (by rw [e])




theorem fixSplit_nodup (seen : List Int) (l : List Fix)
    (h1 : (l.map (·.id)).Nodup) (h2 : ∀ f ∈ l, f.id ∉ seen) : fixSplit seen l = (l, []) := by
  induction l generalizing seen with
  | nil => rfl
  | cons f r ih =>
    simp only [List.map_cons, List.nodup_cons] at h1
    have := ih (f.id :: seen) h1.2 (by
      intro g hg
      simp only [List.mem_cons, not_or]
      refine ⟨?_, h2 g (by simp [hg])⟩
      intro e
      exact h1.1 (by simp only [List.mem_map]; exact ⟨g, hg, e⟩))
    have hf' : f.id ∉ seen := h2 f (by simp)
    simp [fixSplit, hf', this]

def VarsDistinct (l : List Fix) : Prop := l.Pairwise (fun a b => lower a.var ≠ lower b.var)

theorem fixPut_new (d : List Fix) (f : Fix) (h : ∀ g ∈ d, lower g.var ≠ lower f.var) : fixPut d f = d ++ [f] := by
  have : d.any (fun g => lower g.var == lower f.var) = false := by
    simp only [List.any_eq_false, beq_iff_eq]
    intro g hg; exact h g hg
  simp [fixPut, this]

theorem foldl_fixPut (acc l : List Fix) (h : VarsDistinct (acc ++ l)) : l.foldl fixPut acc = acc ++ l := by
  induction l generalizing acc with
  | nil => simp
  | cons f r ih =>
    simp only [List.foldl_cons]
    have h1 : ∀ a ∈ acc, lower a.var ≠ lower f.var := by
      intro a ha
      exact (List.pairwise_append.mp h).2.2 a ha f (by simp)
    rw [fixPut_new acc f h1]
    have : VarsDistinct ((acc ++ [f]) ++ r) := by simpa [VarsDistinct] using h
    rw [ih _ this]; simp

theorem fixInit_id (l : List Fix) (h1 : (l.map (·.id)).Nodup) (h2 : VarsDistinct l) : fixInit l = l := by
  unfold fixInit
  rw [fixSplit_nodup [] l h1 (by simp)]
  simp only [List.foldl_nil]
  have := foldl_fixPut [] l (by simpa using h2)
  simpa using this



theorem isNumeric_showNat (n : Nat) : isNumeric (showNat n) = true := by
  have h1 := showNat_all_digit n
  have h2 : (showNat n).isEmpty = false := by
    cases h : showNat n with
    | nil => exact absurd h (showNat_ne_nil n)
    | cons a b => rfl
  simp [isNumeric, h1, h2]

theorem entStep_id (w : Bool) (st : EntSt) (n : Nat) :
    entStep w st (kInt "id" (Int.ofNat n)) = .ok { st with id := Int.ofNat n } := by
  have hp := parseInt_showInt (Int.ofNat n)
  simp only [showInt] at hp
  show entStep w st (KV.leaf ['i', 'd'] (showNat n)) = _
  have hn : named "id" (KV.leaf ['i', 'd'] (showNat n)) = true := by
    simp [named, KV.fname, KV.name, lower]
  unfold entStep
  simp only [hn, isNumeric_showNat, Bool.and_self, if_true, hp, Option.getD_some]

/-- an entity key that is neither the `id` line nor a `replaceNN` line -/
def KeyNameOK (k : Str) : Bool := lower k != lit "id" && !(lit "replace").isPrefixOf (lower k)

theorem entStep_key (w : Bool) (st : EntSt) (k v : Str) (h : KeyNameOK k = true) :
    entStep w st (.leaf k v) = .ok { st with keys := dictSet st.keys k v } := by
  simp only [KeyNameOK, Bool.and_eq_true, bne_iff_ne, ne_eq, Bool.not_eq_true'] at h
  have h1 : named "id" (KV.leaf k v) = false := by
    simp only [named, KV.fname, KV.name]
    have : lower "id".toList = lit "id" := by decide
    rw [this]
    simpa using h.1
  have h2 : (lit "replace").isPrefixOf (KV.leaf k v).fname = false := by
    simpa [KV.fname, KV.name] using h.2
  simp [entStep, h1, h2]

def FixOK (f : Fix) : Bool := !f.var.contains ' ' && f.var.head? != some '$' && plainStr f.var

theorem entStep_fix (w : Bool) (st : EntSt) (f : Fix) (h : FixOK f = true) :
    entStep w st (exportFix f) = .ok { st with fixup := st.fixup ++ [f] } := by
  cases f with
  | mk var value id =>
  simp only [FixOK, Bool.and_eq_true, Bool.not_eq_true', bne_iff_ne, ne_eq] at h
  obtain ⟨⟨hsp, hd⟩, _hplain⟩ := h
  have hexp : exportFix ⟨var, value, id⟩
      = KV.leaf (lit "replace" ++ pad2 (showInt id)) ('$' :: (var ++ ' ' :: value)) := rfl
  rw [hexp]
  have hlow : lower (lit "replace" ++ pad2 (showInt id)) = lit "replace" ++ pad2 (showInt id) := by
    rw [lower_append, lower_pad2_showInt]
    have : lower (lit "replace") = lit "replace" := by decide
    rw [this]
  have hname : named "id" (KV.leaf (lit "replace" ++ pad2 (showInt id)) ('$' :: (var ++ ' ' :: value))) = false := by
    simp only [named, KV.fname, KV.name, hlow]
    have : lower "id".toList = lit "id" := by decide
    rw [this]
    simp [lit]
  have hsplit : splitFirst ' ' ('$' :: (var ++ ' ' :: value)) [] = ('$' :: var, some value) := by
    have hns : ' ' ∉ ('$' :: var) := by
      simp only [List.mem_cons, not_or]
      exact ⟨by decide, by simpa using hsp⟩
    have := splitFirst_pre ' ' ('$' :: var) value [] hns
    simpa using this
  have hstrip : lstripC '$' ('$' :: var) = var := by
    cases hv : var with
    | nil => simp [lstripC, List.dropWhile]
    | cons c r =>
      have hc : (c == '$') = false := by
        simp only [beq_eq_false_iff_ne, ne_eq]
        intro e; apply hd; simp [hv, e]
      simp [lstripC, List.dropWhile, hc]
  unfold entStep
  simp only [hname, Bool.false_and, Bool.false_eq_true, if_false]
  have hf : (KV.leaf (lit "replace" ++ pad2 (showInt id)) ('$' :: (var ++ ' ' :: value))).fname
      = lit "replace" ++ pad2 (showInt id) := hlow
  rw [hf]
  have hpre : (lit "replace").isPrefixOf (lit "replace" ++ pad2 (showInt id)) = true := by
    simp [List.isPrefixOf_iff_prefix]
  have hdrop : (lit "replace" ++ pad2 (showInt id)).drop 7 = pad2 (showInt id) := by
    simp [lit]
  rw [hpre, hdrop, parseInt_pad2]
  simp only [if_true, fixOfLeaf, hsplit, hstrip, Option.getD_some]

theorem entStep_solid (mb w : Bool) (st : EntSt) (s : Solid) (h : SolidOK1 s = true) :
    entStep w st (exportSolid mb w s) = .ok { st with solids := st.solids ++ [solidRT mb w s.hidden s] } := by
  cases hh : s.hidden with
  | false =>
    have e : exportSolid mb w s = solidBlock mb w s := by simp [exportSolid, maybeHidden, hh]
    rw [e]
    have hp := parseSolid_block mb w false s h
    have hn : named "solid" (solidBlock mb w s) = true := by
      simp [solidBlock, kBlock, named, KV.fname, KV.name, lower]
    simp only [solidBlock, kBlock] at hp hn ⊢
    simp only [entStep, hn, if_true, hp]
  | true =>
    have e : exportSolid mb w s = kBlock "hidden" [solidBlock mb w s] := by simp [exportSolid, maybeHidden, hh]
    rw [e]
    have hp := parseSolid_block mb w true s h
    have hn : named "solid" (solidBlock mb w s) = true := by
      simp [solidBlock, kBlock, named, KV.fname, KV.name, lower]
    have h1 : named "solid" (kBlock "hidden" [solidBlock mb w s]) = false := by
      simp [kBlock, named, KV.fname, KV.name, lower]
    have h2 : named "connections" (kBlock "hidden" [solidBlock mb w s]) = false := by
      simp [kBlock, named, KV.fname, KV.name, lower]
    have h3 : named "editor" (kBlock "hidden" [solidBlock mb w s]) = false := by
      simp [kBlock, named, KV.fname, KV.name, lower]
    have h4 : named "hidden" (kBlock "hidden" [solidBlock mb w s]) = true := by
      simp [kBlock, named, KV.fname, KV.name, lower]
    simp only [kBlock] at h1 h2 h3 h4 ⊢
    simp only [entStep, h1, h2, h3, h4, Bool.false_eq_true, if_false, if_true, foldE, hiddenStep, hn, hp]

theorem parseOuts_export (outs : List Out) (h : ∀ o ∈ outs, OutOK o = true) :
    parseOuts (outs.map exportOut) = .ok (outs.map projOut) := by
  induction outs with
  | nil => rfl
  | cons o os ih =>
    simp only [List.map_cons, parseOuts, parseOut_export o (h o (by simp)), ih (fun p hp => h p (by simp [hp]))]

theorem entStep_connections (w : Bool) (st : EntSt) (outs : List Out) (h : ∀ o ∈ outs, OutOK o = true) :
    entStep w st (kBlock "connections" (outs.map exportOut)) =
      .ok { st with outputs := st.outputs ++ outs.map projOut } := by
  have h1 : named "solid" (kBlock "connections" (outs.map exportOut)) = false := by
    simp [kBlock, named, KV.fname, KV.name, lower]
  have h2 : named "connections" (kBlock "connections" (outs.map exportOut)) = true := by
    simp [kBlock, named, KV.fname, KV.name, lower]
  simp only [kBlock] at h1 h2 ⊢
  simp only [entStep, h1, h2, Bool.false_eq_true, if_false, if_true, parseOuts_export outs h]

theorem entStep_group (st : EntSt) (g : Group) (h : GroupOK g = true) :
    entStep true st (exportGroup g) = .ok { st with groups := st.groups ++ [g] } := by
  have hp := parseGroup_export g h
  have h1 : named "solid" (exportGroup g) = false := by simp [exportGroup, kBlock, named, KV.fname, KV.name, lower]
  have h2 : named "connections" (exportGroup g) = false := by simp [exportGroup, kBlock, named, KV.fname, KV.name, lower]
  have h3 : named "editor" (exportGroup g) = false := by simp [exportGroup, kBlock, named, KV.fname, KV.name, lower]
  have h4 : named "hidden" (exportGroup g) = false := by simp [exportGroup, kBlock, named, KV.fname, KV.name, lower]
  have h5 : named "group" (exportGroup g) = true := by simp [exportGroup, kBlock, named, KV.fname, KV.name, lower]
  simp only [exportGroup, kBlock] at hp h1 h2 h3 h4 h5 ⊢
  simp only [entStep, h1, h2, h3, h4, h5, Bool.false_eq_true, if_false, if_true, Bool.not_true, hp]

theorem foldE_groups (st : EntSt) (gs : List Group) (h : ∀ g ∈ gs, GroupOK g = true) :
    foldE (entStep true) st (gs.map exportGroup) = .ok { st with groups := st.groups ++ gs } := by
  induction gs generalizing st with
  | nil => simp [foldE]
  | cons g r ih =>
    simp only [List.map_cons, foldE, entStep_group st g (h g (by simp))]
    rw [ih _ (fun x hx => h x (by simp [hx]))]
    simp

theorem foldE_solids (mb w : Bool) (st : EntSt) (ss : List Solid) (h : ∀ s ∈ ss, SolidOK1 s = true) :
    foldE (entStep w) st (ss.map (exportSolid mb w)) =
      .ok { st with solids := st.solids ++ ss.map (fun s => solidRT mb w s.hidden s) } := by
  induction ss generalizing st with
  | nil => simp [foldE]
  | cons s r ih =>
    simp only [List.map_cons, foldE, entStep_solid mb w st s (h s (by simp))]
    rw [ih _ (fun x hx => h x (by simp [hx]))]
    simp

theorem foldE_fixes (w : Bool) (st : EntSt) (fs : List Fix) (h : ∀ f ∈ fs, FixOK f = true) :
    foldE (entStep w) st (fs.map exportFix) = .ok { st with fixup := st.fixup ++ fs } := by
  induction fs generalizing st with
  | nil => simp [foldE]
  | cons f r ih =>
    simp only [List.map_cons, foldE, entStep_fix w st f (h f (by simp))]
    rw [ih _ (fun x hx => h x (by simp [hx]))]
    simp

theorem foldE_keys (w : Bool) (st : EntSt) (ks : List (Str × Str))
    (h : ∀ kv ∈ ks, KeyNameOK kv.1 = true)
    (hd : (st.keys ++ ks).Pairwise (fun a b => a.1 ≠ b.1)) :
    foldE (entStep w) st (ks.map (fun kv => KV.leaf kv.1 kv.2)) = .ok { st with keys := st.keys ++ ks } := by
  induction ks generalizing st with
  | nil => simp [foldE]
  | cons kv r ih =>
    simp only [List.map_cons, foldE, entStep_key w st kv.1 kv.2 (h kv (by simp))]
    have hnew : ∀ a ∈ st.keys, a.1 ≠ kv.1 := by
      intro a ha
      exact (List.pairwise_append.mp hd).2.2 a ha kv (by simp)
    rw [dictSet_new st.keys kv.1 kv.2 hnew]
    rw [ih _ (fun x hx => h x (by simp [hx])) (by simpa using hd)]
    simp




theorem entEd_color (st : EntSt) (v : Str) :
    entEdStep st (kLeaf "color" v) = .ok { st with color := parseV3 v3white v } := by
  simp [entEdStep, kLeaf, named, KV.fname, KV.name, lower, KV.isBlock]

theorem entEd_groupid (st : EntSt) (g : Int) :
    entEdStep st (kInt "groupid" g) = .ok { st with groupIds := st.groupIds ++ [g] } := by
  simp [entEdStep, kInt, kLeaf, named, KV.fname, KV.name, lower, KV.isBlock, parseInt_showInt]

theorem entEd_visgroupid (st : EntSt) (g : Int) :
    entEdStep st (kInt "visgroupid" g) = .ok { st with visIds := st.visIds ++ [g] } := by
  simp [entEdStep, kInt, kLeaf, named, KV.fname, KV.name, lower, KV.isBlock, parseInt_showInt]

theorem entEd_shown (st : EntSt) (b : Bool) :
    entEdStep st (kBool "visgroupshown" b) = .ok { st with visShown := b } := by
  simp [entEdStep, kBool, kLeaf, named, KV.fname, KV.name, lower, KV.isBlock, convBool_boolStr]

theorem entEd_auto (st : EntSt) (b : Bool) :
    entEdStep st (kBool "visgroupautoshown" b) = .ok { st with visAuto := b } := by
  simp [entEdStep, kBool, kLeaf, named, KV.fname, KV.name, lower, KV.isBlock, convBool_boolStr]

theorem entEd_logical (st : EntSt) (v : Str) :
    entEdStep st (kLeaf "logicalpos" v) = .ok { st with logicalPos := v } := by
  simp [entEdStep, kLeaf, named, KV.fname, KV.name, lower, KV.isBlock]

theorem entEd_comments (st : EntSt) (v : Str) :
    entEdStep st (kLeaf "comments" v) = .ok { st with comments := v } := by
  simp [entEdStep, kLeaf, named, KV.fname, KV.name, lower, KV.isBlock]

theorem foldE_ent_groupids (st : EntSt) (ids : List Int) :
    foldE entEdStep st (ids.map (kInt "groupid")) = .ok { st with groupIds := st.groupIds ++ ids } := by
  induction ids generalizing st with
  | nil => simp [foldE]
  | cons i is ih =>
    simp only [List.map_cons, foldE, entEd_groupid]
    rw [ih]; simp

theorem foldE_ent_visids (st : EntSt) (ids : List Int) :
    foldE entEdStep st (ids.map (kInt "visgroupid")) = .ok { st with visIds := st.visIds ++ ids } := by
  induction ids generalizing st with
  | nil => simp [foldE]
  | cons i is ih =>
    simp only [List.map_cons, foldE, entEd_visgroupid]
    rw [ih]; simp

theorem foldE_entEditor (w : Bool) (st : EntSt) (e : Ent) (hc : V3OK e.color = true)
    (h0 : st.groupIds = []) (h1 : st.visIds = []) (h2 : st.visShown = true) (h3 : st.visAuto = true)
    (h4 : st.logicalPos = []) (h5 : st.comments = []) :
    foldE entEdStep st (entEditor w e) =
      .ok { st with color := e.color,
                    groupIds := if w then [] else isort intLe e.groups,
                    visIds := if w then [] else isort intLe e.visIds,
                    visShown := if w then true else e.visShown,
                    visAuto := if w then true else e.visAuto,
                    logicalPos := if w then [] else e.logicalPos,
                    comments := e.comments } := by
  unfold entEditor
  simp only [foldE_append, List.cons_append, List.nil_append, foldE, entEd_color, parseV3_str _ _ hc]
  cases w with
  | true =>
    simp only [if_true, foldE]
    cases hcm : e.comments with
    | nil => simp [foldE, h0, h1, h2, h3, h4, h5]
    | cons c r => simp [foldE, entEd_comments, h0, h1, h2, h3, h4]
  | false =>
    simp only [Bool.false_eq_true, if_false, foldE_append, foldE_ent_groupids, foldE_ent_visids, foldE,
      entEd_shown, entEd_auto, entEd_logical]
    cases hcm : e.comments with
    | nil => simp [foldE, h0, h1, h5]
    | cons c r => simp [foldE, entEd_comments, h0, h1]




/-- v1 well-formedness of an entity (faces without displacement / Strata point data). -/
structure EntOK1 (e : Ent) : Prop where
  idNonneg : 0 ≤ e.id
  keyNames : ∀ kv ∈ e.keys, KeyNameOK kv.1 = true
  keyNl : ∀ kv ∈ e.keys, noNlStr kv.1 = true
  keysDistinct : KeysDistinct e.keys
  fixes : ∀ f ∈ e.fixup, FixOK f = true
  fixIds : (e.fixup.map (·.id)).Nodup
  fixVars : VarsDistinct e.fixup
  outs : ∀ o ∈ e.outputs, OutOK o = true
  solids : ∀ s ∈ e.solids, SolidOK1 s = true
  color : V3OK e.color = true

/-- what `Entity.parse` (before id allocation) makes of an exported entity. -/
def entRT (mb w hidden : Bool) (e : Ent) : Ent :=
  { id := e.id, keys := isort keyLe e.keys, fixup := isort fixLe e.fixup,
    outputs := e.outputs.map projOut, solids := e.solids.map (fun s => solidRT mb w s.hidden s),
    hidden, groups := if w then [] else isort intLe e.groups,
    visIds := if w then [] else isort intLe e.visIds,
    visShown := if w then true else e.visShown, visAuto := if w then true else e.visAuto,
    color := e.color, logicalPos := if w then [] else e.logicalPos, comments := e.comments }

theorem keysDistinct_isort {l : List (Str × Str)} (h : KeysDistinct l) : KeysDistinct (isort keyLe l) :=
  ((isort_perm keyLe l).pairwise_iff (fun hab => Ne.symm hab)).mpr h

theorem varsDistinct_isort {l : List Fix} (h : VarsDistinct l) : VarsDistinct (isort fixLe l) :=
  ((isort_perm fixLe l).pairwise_iff (fun hab => Ne.symm hab)).mpr h

theorem entStep_editor (w : Bool) (st : EntSt) (kids : List KV) :
    entStep w st (kBlock "editor" kids) = foldE entEdStep st kids := by
  have h1 : named "solid" (kBlock "editor" kids) = false := by simp [kBlock, named, KV.fname, KV.name, lower]
  have h2 : named "connections" (kBlock "editor" kids) = false := by simp [kBlock, named, KV.fname, KV.name, lower]
  have h3 : named "editor" (kBlock "editor" kids) = true := by simp [kBlock, named, KV.fname, KV.name, lower]
  simp only [kBlock] at h1 h2 h3 ⊢
  simp only [entStep, h1, h2, h3, Bool.false_eq_true, if_false, if_true]

theorem parseEnt_block (mb w hidden : Bool) (groups : List Group) (e : Ent) (h : EntOK1 e)
    (hg : ∀ g ∈ groups, GroupOK g = true) :
    parseEnt w hidden (entBlock mb w groups e) = .ok (entRT mb w hidden e, if w then groups else []) := by
  obtain ⟨n, hn⟩ : ∃ n : Nat, e.id = Int.ofNat n := ⟨e.id.toNat, by have := h.idNonneg; simp; omega⟩
  have hk : ∀ kv ∈ isort keyLe e.keys, KeyNameOK kv.1 = true :=
    fun kv hkv => h.keyNames kv ((mem_isort _ _ _).mp hkv)
  have hkd : KeysDistinct (isort keyLe e.keys) := keysDistinct_isort h.keysDistinct
  have hkd' : (([] : List (Str × Str)) ++ isort keyLe e.keys).Pairwise (fun (a b : Str × Str) => a.1 ≠ b.1) := by
    simp only [List.nil_append]
    exact hkd.imp (fun hab => lower_ne_of_ne hab)
  have hf : ∀ f ∈ isort fixLe e.fixup, FixOK f = true :=
    fun f hf => h.fixes f ((mem_isort _ _ _).mp hf)
  have hfid : ((isort fixLe e.fixup).map (·.id)).Nodup :=
    ((isort_perm fixLe e.fixup).map (·.id)).nodup_iff.mpr h.fixIds
  have hfv := varsDistinct_isort h.fixVars
  have hfold : foldE (entStep w) {} (entKids mb w groups e) =
      .ok { id := e.id, solids := e.solids.map (fun s => solidRT mb w s.hidden s),
            keys := isort keyLe e.keys, outputs := e.outputs.map projOut,
            fixup := isort fixLe e.fixup,
            groupIds := if w then [] else isort intLe e.groups,
            visIds := if w then [] else isort intLe e.visIds,
            visShown := if w then true else e.visShown, visAuto := if w then true else e.visAuto,
            logicalPos := if w then [] else e.logicalPos, comments := e.comments, color := e.color,
            groups := if w then groups else [] } := by
    unfold entKids
    rw [hn]
    simp only [foldE, entStep_id]
    rw [foldE_append, foldE_keys w _ _ hk hkd']
    simp only []
    rw [foldE_append, foldE_fixes w _ _ hf]
    simp only []
    rw [foldE_append, foldE_solids mb w _ _ h.solids]
    simp only []
    rw [foldE_append]
    have hconn : foldE (entStep w)
        { id := Int.ofNat n, keys := [] ++ isort keyLe e.keys, fixup := [] ++ isort fixLe e.fixup,
          solids := [] ++ e.solids.map (fun s => solidRT mb w s.hidden s) }
        (if e.outputs.isEmpty then [] else [kBlock "connections" (e.outputs.map exportOut)]) =
        .ok { id := Int.ofNat n, keys := [] ++ isort keyLe e.keys, fixup := [] ++ isort fixLe e.fixup,
              solids := [] ++ e.solids.map (fun s => solidRT mb w s.hidden s),
              outputs := e.outputs.map projOut } := by
      cases ho : e.outputs with
      | nil => simp [foldE]
      | cons o os =>
        simp only [List.isEmpty_cons, Bool.false_eq_true, if_false, foldE]
        rw [entStep_connections w _ (o :: os) (by rw [← ho]; exact h.outs)]
        simp
    rw [hconn]
    simp only []
    rw [foldE_append]
    cases w with
    | true =>
      simp only [if_true]
      rw [foldE_groups _ _ hg]
      simp only [foldE, entStep_editor]
      rw [foldE_entEditor true _ e h.color rfl rfl rfl rfl rfl rfl]
      simp
    | false =>
      simp only [Bool.false_eq_true, if_false, foldE, entStep_editor]
      rw [foldE_entEditor false _ e h.color rfl rfl rfl rfl rfl rfl]
      simp
  simp only [entBlock, kBlock, parseEnt]
  rw [hfold]
  simp only [entOfSt, entRT]
  have e1 := foldl_entSetKey [] (isort keyLe e.keys) (by simpa using hkd)
  simp only [List.nil_append] at e1
  rw [e1, fixInit_id _ hfid hfv]




/-! ### `Entity.__setitem__` on the key list -/

theorem go_map_keys (k v : Str) (l : List (Str × Str)) :
    (entSetKey.go k v l).map (fun kv => lower kv.1) = l.map (fun kv => lower kv.1) := by
  induction l with
  | nil => rfl
  | cons a r ih =>
    simp only [entSetKey.go]
    split
    · simp
    · simp [ih]

theorem keysDistinct_iff (l : List (Str × Str)) :
    KeysDistinct l ↔ (l.map (fun kv => lower kv.1)).Pairwise (· ≠ ·) := by
  simp [KeysDistinct, List.pairwise_map]

theorem keysDistinct_entSetKey (ks : List (Str × Str)) (k v : Str) (h : KeysDistinct ks) :
    KeysDistinct (entSetKey ks k v) := by
  unfold entSetKey
  split
  · rw [keysDistinct_iff, go_map_keys, ← keysDistinct_iff]; exact h
  · rename_i hno
    simp only [List.any_eq_true, beq_iff_eq, not_exists, not_and] at hno
    simp only [KeysDistinct, List.pairwise_append, List.pairwise_cons, List.mem_singleton]
    refine ⟨h, by simp, ?_⟩
    intro a ha b hb
    subst hb
    exact hno a ha

theorem go_mem (k v : Str) (l : List (Str × Str)) :
    ∀ kv ∈ entSetKey.go k v l, kv ∈ l ∨ (lower kv.1 = lower k ∧ kv.2 = v) := by
  induction l with
  | nil => intro kv h; simp [entSetKey.go] at h
  | cons a r ih =>
    intro kv h
    simp only [entSetKey.go] at h
    split at h
    · rename_i heq
      simp only [List.mem_cons] at h
      rcases h with rfl | h
      · right; exact ⟨by simpa using heq, rfl⟩
      · left; simp [h]
    · simp only [List.mem_cons] at h
      rcases h with rfl | h
      · left; simp
      · rcases ih kv h with h' | h'
        · left; simp [h']
        · right; exact h'

theorem entSetKey_mem (ks : List (Str × Str)) (k v : Str) :
    ∀ kv ∈ entSetKey ks k v, kv ∈ ks ∨ (lower kv.1 = lower k ∧ kv.2 = v) := by
  intro kv h
  unfold entSetKey at h
  split at h
  · exact go_mem k v ks kv h
  · simp only [List.mem_append, List.mem_singleton] at h
    rcases h with h | rfl
    · left; exact h
    · right; exact ⟨rfl, rfl⟩

theorem go_has (k v : Str) (l : List (Str × Str)) (h : l.any (fun kv => lower kv.1 == lower k) = true) :
    ∃ kv ∈ entSetKey.go k v l, lower kv.1 = lower k ∧ kv.2 = v := by
  induction l with
  | nil => simp at h
  | cons a r ih =>
    simp only [entSetKey.go]
    split
    · rename_i heq
      exact ⟨(a.1, v), by simp, by simpa using heq, rfl⟩
    · rename_i hne
      simp only [List.any_cons, Bool.or_eq_true] at h
      rcases h with h | h
      · exact absurd h hne
      · obtain ⟨kv, hm, hp⟩ := ih h
        exact ⟨kv, by simp [hm], hp⟩

theorem entSetKey_has (ks : List (Str × Str)) (k v : Str) :
    ∃ kv ∈ entSetKey ks k v, lower kv.1 = lower k ∧ kv.2 = v := by
  unfold entSetKey
  split
  · rename_i h; exact go_has k v ks h
  · exact ⟨(k, v), by simp, rfl, rfl⟩

theorem go_idem (k v : Str) (l : List (Str × Str)) (hd : KeysDistinct l)
    (hm : ∃ kv ∈ l, lower kv.1 = lower k ∧ kv.2 = v) : entSetKey.go k v l = l := by
  induction l with
  | nil => rfl
  | cons a r ih =>
    simp only [KeysDistinct, List.pairwise_cons] at hd
    obtain ⟨kv, hmem, hk, hv⟩ := hm
    simp only [entSetKey.go]
    split
    · rename_i heq
      have heq' : lower a.1 = lower k := by simpa using heq
      simp only [List.mem_cons] at hmem
      rcases hmem with rfl | hmem
      · cases kv; simp_all
      · exact absurd (heq'.trans hk.symm) (hd.1 kv hmem)
    · rename_i hne
      have hne' : lower a.1 ≠ lower k := by simpa using hne
      simp only [List.mem_cons] at hmem
      rcases hmem with rfl | hmem
      · exact absurd hk hne'
      · rw [ih hd.2 ⟨kv, hmem, hk, hv⟩]

theorem entSetKey_idem (l : List (Str × Str)) (k v : Str) (hd : KeysDistinct l)
    (hm : ∃ kv ∈ l, lower kv.1 = lower k ∧ kv.2 = v) : entSetKey l k v = l := by
  unfold entSetKey
  have : l.any (fun kv => lower kv.1 == lower k) = true := by
    obtain ⟨kv, hmem, hk, _⟩ := hm
    simp only [List.any_eq_true, beq_iff_eq]
    exact ⟨kv, hmem, hk⟩
  rw [this]
  simp only [if_true]
  exact go_idem k v l hd hm




/-! ### Strata viewports -/

def ViewOK : View → Bool
  | .v2 a u v z => decide (a < 3) && TokOK u && TokOK v && TokOK z && !isBig u && !isBig v
  | .v3 p a => V3OK p && V3OK a

theorem tokOK_big1 : TokOK (lit "65536") = true := by decide
theorem tokOK_big2 : TokOK (lit "-65536") = true := by decide

theorem parseViewKids_export (title : String) (is0 : Bool) (d : Nat) (v : View) (h : ViewOK v = true) :
    parseViewKids is0 d (exportView title v).kids = .ok v := by
  cases v with
  | v3 p a =>
    simp only [ViewOK, Bool.and_eq_true] at h
    simp only [exportView, kBlock, KV.kids]
    have e1 : getBool "3d" is0 [kLeaf "3d" ['1'], kLeaf "position" (wrap '(' ')' p.str), kLeaf "angle" (wrap '[' ']' a.str)] = true := by
      kv_simp; simp [show boolLookup ['1'] = some true by decide]
    have e2 : getV3 "position" v3zero [kLeaf "3d" ['1'], kLeaf "position" (wrap '(' ')' p.str), kLeaf "angle" (wrap '[' ']' a.str)] = p := by
      kv_simp; exact parseV3_wrap _ _ _ _ h.1 (by decide) (by decide) (by decide) (by decide)
    have e3 : getLeaf "angle" [kLeaf "3d" ['1'], kLeaf "position" (wrap '(' ')' p.str), kLeaf "angle" (wrap '[' ']' a.str)] = some (wrap '[' ']' a.str) := by
      kv_simp
    simp only [parseViewKids, e1, e2, e3, if_true, Option.getD_some]
    rw [parseV3_wrap _ _ _ _ h.2 (by decide) (by decide) (by decide) (by decide)]
  | v2 ax u w z =>
    simp only [ViewOK, Bool.and_eq_true, decide_eq_true_eq, Bool.not_eq_true'] at h
    obtain ⟨⟨⟨⟨⟨hax, hu⟩, hw⟩, hz⟩, hbu⟩, hbw⟩ := h
    have hzu : isZeroTok (lit "65536") = false := by decide
    have hzn : isZeroTok (lit "-65536") = false := by decide
    have hb1 : isBig (lit "65536") = true := by decide
    have hb2 : isBig (lit "-65536") = true := by decide
    have key : ∀ (pos : V3) (hp : V3OK pos = true),
        parseViewKids is0 d [kLeaf "3d" ['0'], kLeaf "position" (wrap '(' ')' pos.str), kLeaf "zoom" z]
          = (if pos.toks.all isZeroTok then .ok (.v2 d ['0'] ['0'] z) else viewFromVector pos z) := by
      intro pos hp
      have e1 : getBool "3d" is0 [kLeaf "3d" ['0'], kLeaf "position" (wrap '(' ')' pos.str), kLeaf "zoom" z] = false := by
        kv_simp; simp [show boolLookup ['0'] = some false by decide]
      have e2 : getV3 "position" v3zero [kLeaf "3d" ['0'], kLeaf "position" (wrap '(' ')' pos.str), kLeaf "zoom" z] = pos := by
        kv_simp; exact parseV3_wrap _ _ _ _ hp (by decide) (by decide) (by decide) (by decide)
      have e3 : getFloat "zoom" ['1'] [kLeaf "3d" ['0'], kLeaf "position" (wrap '(' ')' pos.str), kLeaf "zoom" z] = z := by
        kv_simp; simp [tok_isNum hz]
      simp only [parseViewKids, e1, e2, e3, Bool.false_eq_true, if_false]
    have ax3 : ax = 0 ∨ ax = 1 ∨ ax = 2 := by omega
    rcases ax3 with rfl | rfl | rfl
    · have hp : V3OK ⟨lit "65536", u, w⟩ = true := by simp [V3OK, tokOK_big1, hu, hw]
      have := key ⟨lit "65536", u, w⟩ hp
      simp only [V3.str, V3.toks] at this
      simp only [exportView, kBlock, KV.kids, beq_self_eq_true, if_true, List.cons_append, List.nil_append]
      rw [this]
      simp [hzu, viewFromVector, pickAxis, hb1, hbu, hbw, mkView2]
    · have hp : V3OK ⟨u, lit "-65536", w⟩ = true := by simp [V3OK, tokOK_big2, hu, hw]
      have := key ⟨u, lit "-65536", w⟩ hp
      simp only [V3.str, V3.toks] at this
      simp only [exportView, kBlock, KV.kids, Nat.reduceBEq, Bool.false_eq_true, if_false, beq_self_eq_true, if_true,
        List.cons_append, List.nil_append]
      rw [this]
      simp [hzn, viewFromVector, pickAxis, hb2, hbu, hbw, mkView2]
    · have hp : V3OK ⟨u, w, lit "65536"⟩ = true := by simp [V3OK, tokOK_big1, hu, hw]
      have := key ⟨u, w, lit "65536"⟩ hp
      simp only [V3.str, V3.toks] at this
      simp only [exportView, kBlock, KV.kids, Nat.reduceBEq, Bool.false_eq_true, if_false, beq_self_eq_true, if_true,
        List.cons_append, List.nil_append]
      rw [this]
      simp [hzu, viewFromVector, pickAxis, hb1, hbu, hbw, mkView2]

theorem exportView_block (title : String) (v : View) :
    exportView title v = KV.block title.toList (exportView title v).kids := by
  cases v <;> simp [exportView, kBlock, KV.kids]

theorem parseViews_export (pre : List KV) (a b c d : View)
    (ha : ViewOK a = true) (hb : ViewOK b = true) (hc : ViewOK c = true) (hd : ViewOK d = true) :
    parseViews (pre ++ [kBlock "views" (exportViews viewTitles [a, b, c, d])]) = .ok (some [a, b, c, d]) := by
  have hfk : findKey "views" (pre ++ [kBlock "views" (exportViews viewTitles [a, b, c, d])])
      = some (kBlock "views" (exportViews viewTitles [a, b, c, d])) := by
    unfold findKey
    rw [findLast_append]
    simp [findLast, kBlock, named, KV.fname, KV.name, lower]
  unfold parseViews
  rw [hfk]
  simp only [kBlock, blockKids, exportViews, viewTitles]
  have s0 : viewSub "v0" [exportView "v0" a, exportView "v1" b, exportView "v2" c, exportView "v3" d] = .ok (exportView "v0" a).kids := by
    rw [exportView_block "v0" a, exportView_block "v1" b, exportView_block "v2" c, exportView_block "v3" d]
    simp [viewSub, findKey, findLast, named, KV.fname, KV.name, lower, blockKids, KV.kids]
  have s1 : viewSub "v1" [exportView "v0" a, exportView "v1" b, exportView "v2" c, exportView "v3" d] = .ok (exportView "v1" b).kids := by
    rw [exportView_block "v0" a, exportView_block "v1" b, exportView_block "v2" c, exportView_block "v3" d]
    simp [viewSub, findKey, findLast, named, KV.fname, KV.name, lower, blockKids, KV.kids]
  have s2 : viewSub "v2" [exportView "v0" a, exportView "v1" b, exportView "v2" c, exportView "v3" d] = .ok (exportView "v2" c).kids := by
    rw [exportView_block "v0" a, exportView_block "v1" b, exportView_block "v2" c, exportView_block "v3" d]
    simp [viewSub, findKey, findLast, named, KV.fname, KV.name, lower, blockKids, KV.kids]
  have s3 : viewSub "v3" [exportView "v0" a, exportView "v1" b, exportView "v2" c, exportView "v3" d] = .ok (exportView "v3" d).kids := by
    rw [exportView_block "v0" a, exportView_block "v1" b, exportView_block "v2" c, exportView_block "v3" d]
    simp [viewSub, findKey, findLast, named, KV.fname, KV.name, lower, blockKids, KV.kids]
  simp only [parseView, s0, s1, s2, s3, parseViewKids_export _ _ _ _ ha, parseViewKids_export _ _ _ _ hb,
    parseViewKids_export _ _ _ _ hc, parseViewKids_export _ _ _ _ hd]




/-! ### the root level -/

/-- the exported entity blocks: blocks named `entity` or `hidden` -/
def EntsShape (ents : List KV) : Prop :=
  ∀ x ∈ ents, x.isBlock = true ∧ (x.fname = lit "entity" ∨ x.fname = lit "hidden")

theorem ents_not_named (key : String) (ents : List KV) (h : EntsShape ents)
    (h1 : lower key.toList ≠ lit "entity") (h2 : lower key.toList ≠ lit "hidden") :
    ∀ x ∈ ents, named key x = false := by
  intro x hx
  simp only [named, beq_eq_false_iff_ne, ne_eq]
  rcases (h x hx).2 with e | e <;> rw [e] <;> intro c
  · exact h1 c.symm
  · exact h2 c.symm

theorem findLast_mid {α} (p : α → Bool) (pre ents post : List α) (he : ∀ x ∈ ents, p x = false) :
    findLast p (pre ++ (ents ++ post)) = match findLast p post with
      | some r => some r
      | none => findLast p pre := by
  rw [findLast_append, findLast_append_left_none p ents post he]
  all_goals (cases findLast p post <;> rfl)

section
variable (minimal hasQuick : Bool) (verK visK viewK wk : List KV) (ents camK cordK quickK : List KV)

theorem rootOf_assoc :
    rootOf minimal hasQuick verK visK viewK (kBlock "world" wk) ents camK cordK quickK =
      ([kBlock "versioninfo" verK, kBlock "visgroups" visK] ++
        ((if minimal then [] else [kBlock "viewsettings" viewK]) ++ [kBlock "world" wk])) ++
      (ents ++ ((if minimal then [] else [kBlock "cameras" camK, kBlock "cordons" cordK]) ++
        (if hasQuick then [kBlock "quickhide" quickK] else []))) := by
  simp [rootOf]

macro "root_block" k:term:max hs:term:max : tactic => `(tactic| (
  unfold getBlock
  rw [rootOf_assoc, findLast_mid _ _ _ _ (by
    intro x hx
    have := ents_not_named $k _ $hs (by decide) (by decide) x hx
    simp [this])]
  cases minimal <;> cases hasQuick <;>
    simp [findLast, kBlock, named, KV.fname, KV.name, KV.isBlock, KV.kids, lower]))

theorem root_versioninfo (hs : EntsShape ents) :
    getBlock "versioninfo" (rootOf minimal hasQuick verK visK viewK (kBlock "world" wk) ents camK cordK quickK) = verK := by
  root_block "versioninfo" hs

theorem root_viewsettings (hs : EntsShape ents) :
    getBlock "viewsettings" (rootOf minimal hasQuick verK visK viewK (kBlock "world" wk) ents camK cordK quickK)
      = if minimal then [] else viewK := by
  root_block "viewsettings" hs

theorem root_cameras (hs : EntsShape ents) :
    getBlock "cameras" (rootOf minimal hasQuick verK visK viewK (kBlock "world" wk) ents camK cordK quickK)
      = if minimal then [] else camK := by
  root_block "cameras" hs

theorem root_cordons (hs : EntsShape ents) :
    getBlock "cordons" (rootOf minimal hasQuick verK visK viewK (kBlock "world" wk) ents camK cordK quickK)
      = if minimal then [] else cordK := by
  root_block "cordons" hs

theorem root_quickhide (hs : EntsShape ents) :
    getBlock "quickhide" (rootOf minimal hasQuick verK visK viewK (kBlock "world" wk) ents camK cordK quickK)
      = if hasQuick then quickK else [] := by
  root_block "quickhide" hs

theorem root_world (hs : EntsShape ents) :
    worldKv (rootOf minimal hasQuick verK visK viewK (kBlock "world" wk) ents camK cordK quickK) = kBlock "world" wk := by
  unfold worldKv
  rw [rootOf_assoc, findLast_mid _ _ _ _ (by
    intro x hx
    have := ents_not_named "world" _ hs (by decide) (by decide) x hx
    simp [this])]
  cases minimal <;> cases hasQuick <;>
    simp [findLast, kBlock, named, KV.fname, KV.name, KV.isBlock, lower]

theorem filter_none {α} (p : α → Bool) (l : List α) (h : ∀ x ∈ l, p x = false) : l.filter p = [] := by
  induction l with
  | nil => rfl
  | cons a r ih => simp [h a (by simp), ih (fun x hx => h x (by simp [hx]))]

theorem root_visgroups (hs : EntsShape ents) :
    allVisgroups (rootOf minimal hasQuick verK visK viewK (kBlock "world" wk) ents camK cordK quickK)
      = visK.filter (named "visgroup") := by
  unfold allVisgroups
  rw [rootOf_assoc]
  simp only [List.filter_append]
  rw [filter_none _ ents (ents_not_named "visgroups" _ hs (by decide) (by decide))]
  cases minimal <;> cases hasQuick <;>
    simp [kBlock, named, KV.fname, KV.name, KV.kids, lower]

theorem parseRootEnts_skip (pre rest : List KV)
    (h : ∀ x ∈ pre, named "entity" x = false ∧ named "hidden" x = false) :
    parseRootEnts (pre ++ rest) = parseRootEnts rest := by
  induction pre with
  | nil => rfl
  | cons k ks ih =>
    have hk := h k (by simp)
    simp only [List.cons_append, parseRootEnts, hk.1, hk.2, Bool.false_eq_true, if_false]
    exact ih (fun x hx => h x (by simp [hx]))

theorem parseRootEnts_append_nil (l post : List KV)
    (h : ∀ x ∈ post, named "entity" x = false ∧ named "hidden" x = false) :
    parseRootEnts (l ++ post) = parseRootEnts l := by
  induction l with
  | nil =>
    have := parseRootEnts_skip post [] h
    simpa [parseRootEnts] using this
  | cons k ks ih =>
    simp only [List.cons_append, parseRootEnts, ih]

theorem root_ents :
    parseRootEnts (rootOf minimal hasQuick verK visK viewK (kBlock "world" wk) ents camK cordK quickK)
      = parseRootEnts ents := by
  rw [rootOf_assoc, parseRootEnts_skip _ _ (by
    cases minimal <;> simp [kBlock, named, KV.fname, KV.name, lower])]
  exact parseRootEnts_append_nil _ _ (by
    cases minimal <;> cases hasQuick <;> simp [kBlock, named, KV.fname, KV.name, lower])

end




theorem named_visgroup_exportVis (v : Vis) : named "visgroup" (exportVis v) = true := by
  cases v with
  | mk n i c ch => simp [exportVis, exportVisAux, named, KV.fname, KV.name, lit, lower]

theorem visListOK_mem {vs : List Vis} (h : VisListOK vs = true) : ∀ v ∈ vs, VisOK v = true := by
  induction vs with
  | nil => intro v hv; simp at hv
  | cons a r ih =>
    simp only [VisListOK, Bool.and_eq_true] at h
    intro v hv
    simp only [List.mem_cons] at hv
    rcases hv with rfl | hv
    · exact h.1
    · exact ih h.2 v hv

theorem parseVisAll_export (vs : List Vis) (h : VisListOK vs = true) :
    parseVisAll ((vs.map exportVis).filter (named "visgroup")) = .ok vs := by
  rw [filter_map_all _ _ _ (fun v _ => named_visgroup_exportVis v)]
  have hm := visListOK_mem h
  clear h
  induction vs with
  | nil => rfl
  | cons v r ih =>
    simp only [List.map_cons, parseVisAll]
    have hv : parseVis (exportVis v) = .ok v := parseVis_export v (hm v (by simp))
    rw [hv]
    have := ih (fun x hx => hm x (by simp [hx]))
    rw [this]

theorem parseCams_export (a : Int) (cams : List Cam) (h : ∀ c ∈ cams, CamOK c = true) :
    parseCams (kInt "activecamera" a :: cams.map exportCam) = .ok cams := by
  have h0 : named "activecamera" (kInt "activecamera" a) = true := by kv_simp
  simp only [parseCams, h0, if_true]
  induction cams with
  | nil => rfl
  | cons c r ih =>
    have hn : named "activecamera" (exportCam c) = false := by
      simp [exportCam, kBlock, named, KV.fname, KV.name, lower]
    simp only [List.map_cons, parseCams, hn, Bool.false_eq_true, if_false,
      parseCam_export c (h c (by simp)), ih (fun x hx => h x (by simp [hx]))]

theorem parseCordons_export (b : Bool) (cs : List Cordon) (h : ∀ c ∈ cs, CordonOK c = true) :
    parseCordons (kBool "active" b :: cs.map exportCordon) = .ok cs := by
  have h0 : named "cordon" (kBool "active" b) = false := by kv_simp
  simp only [parseCordons, h0, Bool.false_eq_true, if_false]
  induction cs with
  | nil => rfl
  | cons c r ih =>
    have hn : named "cordon" (exportCordon c) = true := by
      simp [exportCordon, kBlock, named, KV.fname, KV.name, lower]
    simp only [List.map_cons, parseCordons, hn, if_true,
      parseCordon_export c (h c (by simp)), ih (fun x hx => h x (by simp [hx]))]

/-- v1 well-formedness of the entity list element (not worldspawn) -/
theorem exportEnt_shape (mb : Bool) (es : List Ent) : EntsShape (es.map (exportEnt mb false [])) := by
  intro x hx
  simp only [List.mem_map] at hx
  obtain ⟨e, _, rfl⟩ := hx
  cases hh : e.hidden <;>
    simp [exportEnt, maybeHidden, hh, entBlock, kBlock, KV.isBlock, KV.fname, KV.name, lower, lit]

theorem parseRootEnts_export (mb : Bool) (es : List Ent) (h : ∀ e ∈ es, EntOK1 e) :
    parseRootEnts (es.map (exportEnt mb false [])) = .ok (es.map (fun e => entRT mb false e.hidden e)) := by
  induction es with
  | nil => rfl
  | cons e r ih =>
    have he := h e (by simp)
    have ihr := ih (fun x hx => h x (by simp [hx]))
    cases hh : e.hidden with
    | false =>
      have e1 : exportEnt mb false [] e = entBlock mb false [] e := by simp [exportEnt, maybeHidden, hh]
      have hn : named "entity" (entBlock mb false [] e) = true := by
        simp [entBlock, kBlock, named, KV.fname, KV.name, lower]
      have hp := parseEnt_block mb false false [] e he (by simp)
      simp only [List.map_cons, e1, parseRootEnts, hn, if_true, hp, ihr]
      simp [hh]
    | true =>
      have e1 : exportEnt mb false [] e = kBlock "hidden" [entBlock mb false [] e] := by
        simp [exportEnt, maybeHidden, hh]
      have hn1 : named "entity" (kBlock "hidden" [entBlock mb false [] e]) = false := by
        simp [kBlock, named, KV.fname, KV.name, lower]
      have hn2 : named "hidden" (kBlock "hidden" [entBlock mb false [] e]) = true := by
        simp [kBlock, named, KV.fname, KV.name, lower]
      have hp := parseEnt_block mb false true [] e he (by simp)
      simp only [List.map_cons, e1, parseRootEnts, hn1, hn2, Bool.false_eq_true, if_false, if_true]
      simp only [kBlock, blockKids, parseHiddenEnts, hp, ihr]
      simp [hh]




def ViewsOK : Option (List View) → Prop
  | none => True
  | some vs => ∃ a b c d, vs = [a, b, c, d] ∧ ViewOK a = true ∧ ViewOK b = true ∧ ViewOK c = true ∧ ViewOK d = true

def InstVisOK : Option Int → Prop
  | none => True
  | some v => v = 0 ∨ v = 1 ∨ v = 2

/-- v1 well-formedness of a map: what the tree-level round trip needs (faces without
displacement / Strata point data; see `EntOK1`). -/
structure MapOK1 (m : VMap) : Prop where
  format : m.formatVer = 100
  instVis : InstVisOK m.instVis
  views : ViewsOK m.views
  vis : VisListOK m.vis = true
  spawn : EntOK1 m.spawn
  spawnVisible : m.spawn.hidden = false
  groups : ∀ g ∈ m.groups, GroupOK g = true
  ents : ∀ e ∈ m.ents, EntOK1 e
  cams : ∀ c ∈ m.cams, CamOK c = true
  cordons : ∀ c ∈ m.cordons, CordonOK c = true

/-- the view-settings part of a re-parsed map -/
structure ViewPart where
  snap : Bool
  grid : Bool
  logic : Bool
  spacing : Int
  grid3d : Bool
  instVis : Option Int
  views : Option (List View)

theorem viewKids_parse (m : VMap) (hi : InstVisOK m.instVis) (hv : ViewsOK m.views) :
    getBool "bSnapToGrid" true (viewKids m) = m.snap ∧
    getBool "bShowGrid" true (viewKids m) = m.grid ∧
    getBool "bShowLogicalGrid" false (viewKids m) = m.logic ∧
    getInt "nGridSpacing" 64 (viewKids m) = m.spacing ∧
    getBool "bShow3DGrid" false (viewKids m) = m.grid3d ∧
    parseInstVis (viewKids m) = m.instVis ∧
    parseViews (viewKids m) = .ok m.views := by
  unfold viewKids
  cases hiv : m.instVis with
  | none =>
    cases hvv : m.views with
    | none =>
      refine ⟨?_, ?_, ?_, ?_, ?_, ?_, ?_⟩ <;>
        simp [getBool, getInt, getLeaf, findLast, findKey, parseInstVis, parseViews, named, KV.fname, KV.name, kLeaf, kBool,
          kInt, KV.isBlock, lower, boolLookup_boolStr, parseInt_showInt]
    | some vs =>
      rw [hvv] at hv
      obtain ⟨a, b, c, d, rfl, ha, hb, hc, hd⟩ := hv
      refine ⟨?_, ?_, ?_, ?_, ?_, ?_, ?_⟩
      · simp [getBool, getLeaf, findLast, named, KV.fname, KV.name, kLeaf, kBool, kInt, kBlock, KV.isBlock, lower, boolLookup_boolStr]
      · simp [getBool, getLeaf, findLast, named, KV.fname, KV.name, kLeaf, kBool, kInt, kBlock, KV.isBlock, lower, boolLookup_boolStr]
      · simp [getBool, getLeaf, findLast, named, KV.fname, KV.name, kLeaf, kBool, kInt, kBlock, KV.isBlock, lower, boolLookup_boolStr]
      · simp [getInt, getLeaf, findLast, named, KV.fname, KV.name, kLeaf, kBool, kInt, kBlock, KV.isBlock, lower, parseInt_showInt]
      · simp [getBool, getLeaf, findLast, named, KV.fname, KV.name, kLeaf, kBool, kInt, kBlock, KV.isBlock, lower, boolLookup_boolStr]
      · simp [parseInstVis, getLeaf, findLast, named, KV.fname, KV.name, kLeaf, kBool, kInt, kBlock, KV.isBlock, lower]
      · simp only [List.nil_append]
        exact parseViews_export _ a b c d ha hb hc hd
  | some iv =>
    rw [hiv] at hi
    have hpi : parseInstVis ([kBool "bSnapToGrid" m.snap, kBool "bShowGrid" m.grid, kBool "bShowLogicalGrid" m.logic,
        kInt "nGridSpacing" m.spacing, kBool "bShow3DGrid" m.grid3d] ++ [kInt "nInstanceVisibility" iv]) = some iv := by
      simp only [parseInstVis]
      have : getLeaf "nInstanceVisibility" ([kBool "bSnapToGrid" m.snap, kBool "bShowGrid" m.grid, kBool "bShowLogicalGrid" m.logic,
        kInt "nGridSpacing" m.spacing, kBool "bShow3DGrid" m.grid3d] ++ [kInt "nInstanceVisibility" iv]) = some (showInt iv) := by
        simp [getLeaf, findLast, named, KV.fname, KV.name, kLeaf, kBool, kInt, KV.isBlock, lower]
      rw [this]
      simp only [parseInt_showInt]
      rcases hi with rfl | rfl | rfl <;> rfl
    cases hvv : m.views with
    | none =>
      refine ⟨?_, ?_, ?_, ?_, ?_, ?_, ?_⟩
      · simp [getBool, getLeaf, findLast, named, KV.fname, KV.name, kLeaf, kBool, kInt, kBlock, KV.isBlock, lower, boolLookup_boolStr]
      · simp [getBool, getLeaf, findLast, named, KV.fname, KV.name, kLeaf, kBool, kInt, kBlock, KV.isBlock, lower, boolLookup_boolStr]
      · simp [getBool, getLeaf, findLast, named, KV.fname, KV.name, kLeaf, kBool, kInt, kBlock, KV.isBlock, lower, boolLookup_boolStr]
      · simp [getInt, getLeaf, findLast, named, KV.fname, KV.name, kLeaf, kBool, kInt, kBlock, KV.isBlock, lower, parseInt_showInt]
      · simp [getBool, getLeaf, findLast, named, KV.fname, KV.name, kLeaf, kBool, kInt, kBlock, KV.isBlock, lower, boolLookup_boolStr]
      · simpa using hpi
      · simp [parseViews, findKey, findLast, named, KV.fname, KV.name, kLeaf, kBool, kInt, lower]
    | some vs =>
      rw [hvv] at hv
      obtain ⟨a, b, c, d, rfl, ha, hb, hc, hd⟩ := hv
      refine ⟨?_, ?_, ?_, ?_, ?_, ?_, ?_⟩
      · simp [getBool, getLeaf, findLast, named, KV.fname, KV.name, kLeaf, kBool, kInt, kBlock, KV.isBlock, lower, boolLookup_boolStr]
      · simp [getBool, getLeaf, findLast, named, KV.fname, KV.name, kLeaf, kBool, kInt, kBlock, KV.isBlock, lower, boolLookup_boolStr]
      · simp [getBool, getLeaf, findLast, named, KV.fname, KV.name, kLeaf, kBool, kInt, kBlock, KV.isBlock, lower, boolLookup_boolStr]
      · simp [getInt, getLeaf, findLast, named, KV.fname, KV.name, kLeaf, kBool, kInt, kBlock, KV.isBlock, lower, parseInt_showInt]
      · simp [getBool, getLeaf, findLast, named, KV.fname, KV.name, kLeaf, kBool, kInt, kBlock, KV.isBlock, lower, boolLookup_boolStr]
      · have : getLeaf "nInstanceVisibility" ([kBool "bSnapToGrid" m.snap, kBool "bShowGrid" m.grid, kBool "bShowLogicalGrid" m.logic,
            kInt "nGridSpacing" m.spacing, kBool "bShow3DGrid" m.grid3d] ++
            ([kInt "nInstanceVisibility" iv] ++ [kBlock "views" (exportViews viewTitles [a, b, c, d])])) = some (showInt iv) := by
          simp [getLeaf, findLast, named, KV.fname, KV.name, kLeaf, kBool, kInt, kBlock, KV.isBlock, lower]
        simp only [parseInstVis, this, parseInt_showInt]
        rcases hi with rfl | rfl | rfl <;> rfl
      · rw [← List.append_assoc]
        exact parseViews_export _ a b c d ha hb hc hd




/-- the map `parseRaw` reads from `exportTree o m` (ids as written, before `assignIds`). -/
def rawRT (o : ExportOpts) (m : VMap) : VMap :=
  { hammerVer := m.hammerVer, hammerBuild := m.hammerBuild, mapVer := exportedVer o m, formatVer := 100,
    prefab := m.prefab, vis := m.vis,
    snap := if o.minimal then true else m.snap, grid := if o.minimal then true else m.grid,
    logic := if o.minimal then false else m.logic, spacing := if o.minimal then 64 else m.spacing,
    grid3d := if o.minimal then false else m.grid3d,
    instVis := if o.minimal then none else m.instVis, views := if o.minimal then none else m.views,
    spawn := entRT o.multiblend true false (spawnForExport o m), groups := m.groups,
    ents := m.ents.map (fun e => entRT o.multiblend false e.hidden e),
    activeCam := if o.minimal then -1 else (if m.cams.isEmpty then -1 else m.activeCam),
    cams := if o.minimal then [] else m.cams,
    cordonOn := if o.minimal then false else (if m.cordons.isEmpty then false else m.cordonOn),
    cordons := if o.minimal then [] else m.cordons,
    quickhide := if m.quickhide > 0 then m.quickhide else 0 }

theorem keyNameOK_mapversion : KeyNameOK (lit "mapversion") = true := by decide
theorem keyNameOK_classname : KeyNameOK (lit "classname") = true := by decide

theorem go_mem_key (k v : Str) (l : List (Str × Str)) :
    ∀ kv ∈ entSetKey.go k v l, ∃ kv' ∈ l, kv'.1 = kv.1 := by
  induction l with
  | nil => intro kv h; simp [entSetKey.go] at h
  | cons a r ih =>
    intro kv h
    simp only [entSetKey.go] at h
    split at h
    · simp only [List.mem_cons] at h
      rcases h with rfl | h
      · exact ⟨a, by simp, rfl⟩
      · exact ⟨kv, by simp [h], rfl⟩
    · simp only [List.mem_cons] at h
      rcases h with rfl | h
      · exact ⟨kv, by simp, rfl⟩
      · obtain ⟨kv', hm, e⟩ := ih kv h
        exact ⟨kv', by simp [hm], e⟩

/-- every key of the result is an old key (same spelling) or the new one -/
theorem entSetKey_mem_key (ks : List (Str × Str)) (k v : Str) :
    ∀ kv ∈ entSetKey ks k v, (∃ kv' ∈ ks, kv'.1 = kv.1) ∨ kv.1 = k := by
  intro kv h
  unfold entSetKey at h
  split at h
  · exact Or.inl (go_mem_key k v ks kv h)
  · simp only [List.mem_append, List.mem_singleton] at h
    rcases h with h | rfl
    · exact Or.inl ⟨kv, h, rfl⟩
    · exact Or.inr rfl

theorem entOK1_spawnForExport (o : ExportOpts) (m : VMap) (h : EntOK1 m.spawn) : EntOK1 (spawnForExport o m) := by
  refine { h with keyNames := ?_, keyNl := ?_, keysDistinct := ?_ }
  · intro kv hkv
    simp only [spawnForExport] at hkv
    rcases entSetKey_mem _ _ _ kv hkv with h1 | ⟨h1, _⟩
    · rcases entSetKey_mem _ _ _ kv h1 with h2 | ⟨h2, _⟩
      · exact h.keyNames kv h2
      · simp only [KeyNameOK, h2]; decide
    · simp only [KeyNameOK, h1]; decide
  · intro kv hkv
    simp only [spawnForExport] at hkv
    rcases entSetKey_mem_key _ _ _ kv hkv with ⟨kv1, h1, e1⟩ | e1
    · rcases entSetKey_mem_key _ _ _ kv1 h1 with ⟨kv2, h2, e2⟩ | e2
      · rw [← e1, ← e2]; exact h.keyNl kv2 h2
      · rw [← e1, e2]; decide
    · rw [e1]; decide
  · simp only [spawnForExport]
    exact keysDistinct_entSetKey _ _ _ (keysDistinct_entSetKey _ _ _ h.keysDistinct)

theorem spawn_classname_idem (o : ExportOpts) (m : VMap) (h : EntOK1 m.spawn) :
    entSetKey (isort keyLe (spawnForExport o m).keys) (lit "classname") (lit "worldspawn")
      = isort keyLe (spawnForExport o m).keys := by
  apply entSetKey_idem
  · exact keysDistinct_isort (entOK1_spawnForExport o m h).keysDistinct
  · obtain ⟨kv, hm, hk⟩ := entSetKey_has
      (entSetKey m.spawn.keys (lit "mapversion") (showInt (exportedVer o m))) (lit "classname") (lit "worldspawn")
    exact ⟨kv, (mem_isort _ _ _).mpr (by simpa [spawnForExport] using hm), hk⟩

theorem parseRaw_export (o : ExportOpts) (m : VMap) (h : MapOK1 m) :
    parseRaw (exportTree o m) = .ok (rawRT o m) := by
  have hshape := exportEnt_shape o.multiblend m.ents
  have hsp := entOK1_spawnForExport o m h.spawn
  have hworld : exportEnt o.multiblend true m.groups (spawnForExport o m)
      = kBlock "world" (entKids o.multiblend true m.groups (spawnForExport o m)) := by
    have : (spawnForExport o m).hidden = false := h.spawnVisible
    simp [exportEnt, maybeHidden, this, entBlock]
  obtain ⟨v1, v2, v3, v4, v5, v6, v7⟩ := viewKids_parse m h.instVis h.views
  unfold parseRaw exportTree
  rw [hworld]
  simp only [root_versioninfo _ _ _ _ _ _ _ _ _ _ hshape, root_viewsettings _ _ _ _ _ _ _ _ _ _ hshape,
    root_cameras _ _ _ _ _ _ _ _ _ _ hshape, root_cordons _ _ _ _ _ _ _ _ _ _ hshape,
    root_quickhide _ _ _ _ _ _ _ _ _ _ hshape, root_world _ _ _ _ _ _ _ _ _ _ hshape,
    root_visgroups _ _ _ _ _ _ _ _ _ _ hshape, root_ents]
  have hfv : getLeaf "formatversion" (verKids o m) = some (lit "100") := by
    unfold verKids
    rw [h.format]
    kv_simp
    decide
  rw [hfv]
  simp only [Option.getD_some, bne_self_eq_false, Bool.false_eq_true, if_false]
  rw [parseVisAll_export m.vis h.vis]
  have hw := parseEnt_block o.multiblend true false m.groups (spawnForExport o m) hsp h.groups
  simp only [entBlock, if_true] at hw
  have hents := parseRootEnts_export o.multiblend m.ents h.ents
  have hv : getInt "editorversion" 400 (verKids o m) = m.hammerVer ∧
      getInt "editorbuild" 5304 (verKids o m) = m.hammerBuild ∧
      getInt "mapversion" 0 (verKids o m) = exportedVer o m ∧
      getBool "prefab" false (verKids o m) = m.prefab := by
    unfold verKids
    refine ⟨?_, ?_, ?_, ?_⟩ <;>
      simp [getInt, getBool, getLeaf, findLast, named, KV.fname, KV.name, kLeaf, kBool, kInt, KV.isBlock, lower,
        boolLookup_boolStr, parseInt_showInt]
  obtain ⟨hv1, hv2, hv3, hv4⟩ := hv
  have hq : getInt "count" 0 (if decide (m.quickhide > 0) = true then [kInt "count" m.quickhide] else [])
      = (if m.quickhide > 0 then m.quickhide else 0) := by
    by_cases hq : m.quickhide > 0
    · simp [hq, getInt, getLeaf, findLast, named, KV.fname, KV.name, kLeaf, kInt, KV.isBlock, lower, parseInt_showInt]
    · simp [hq, getInt, getLeaf, findLast]
  cases hmin : o.minimal with
  | true =>
    simp only [if_true]
    have hpv : parseViews [] = .ok none := by simp [parseViews, findKey, findLast]
    rw [hpv]
    simp only [parseCams, parseCordons, hw, hents, hv1, hv2, hv3, hv4, hq]
    simp [rawRT, hmin, getBool, getInt, getLeaf, findLast, parseInstVis, spawn_classname_idem o m h.spawn, entRT]
  | false =>
    simp only [Bool.false_eq_true, if_false]
    rw [v7]
    simp only []
    have hcam : parseCams (camKids m) = .ok m.cams := parseCams_export _ _ h.cams
    have hcord : parseCordons (cordonKids m) = .ok m.cordons := by
      unfold cordonKids
      cases hc : m.cordons with
      | nil => simp [parseCordons, named, KV.fname, KV.name, kLeaf, lower]
      | cons c r =>
        simp only [List.isEmpty_cons, Bool.false_eq_true, if_false]
        exact parseCordons_export _ _ (by rw [← hc]; exact h.cordons)
    rw [hcam, hcord]
    simp only [hw, hents, hv1, hv2, hv3, hv4, hq, v1, v2, v3, v4, v5, v6]
    have hac : getInt "activecamera" (-1) (camKids m) = (if m.cams.isEmpty then -1 else m.activeCam) := by
      unfold camKids getInt
      have := getLeaf_append_blocks "activecamera" [kInt "activecamera" (if m.cams.isEmpty then -1 else m.activeCam)]
        (m.cams.map exportCam) (by
          intro k hk
          simp only [List.mem_map] at hk
          obtain ⟨c, _, rfl⟩ := hk
          simp [exportCam, kBlock, KV.isBlock])
      simp only [List.singleton_append] at this
      rw [this]
      kv_simp
      simp [parseInt_showInt]
    have hco : getBool "active" false (cordonKids m) = (if m.cordons.isEmpty then false else m.cordonOn) := by
      unfold cordonKids getBool
      cases hc : m.cordons with
      | nil => simp [getLeaf, findLast, named, KV.fname, KV.name, kLeaf, KV.isBlock, lower]; decide
      | cons c r =>
        simp only [List.isEmpty_cons, Bool.false_eq_true, if_false]
        have := getLeaf_append_blocks "active" [kBool "active" m.cordonOn] ((c :: r).map exportCordon) (by
          intro k hk
          simp only [List.mem_map] at hk
          obtain ⟨c, _, rfl⟩ := hk
          simp [exportCordon, kBlock, KV.isBlock])
        simp only [List.singleton_append] at this
        rw [this]
        kv_simp
        simp [boolLookup_boolStr]
    rw [hac, hco]
    simp [rawRT, hmin, spawn_classname_idem o m h.spawn, entRT]




/-! ### id allocation with `preserve_ids = True` -/

theorem get_preserve (m : IdMan) (d : Int) (h : d ≠ -1) : (m.get true d).1 = d := by
  have : (d == -1) = false := by simpa using h
  simp [IdMan.get, this]

mutual
def VisIdsOK : Vis → Bool
  | .mk _ id _ children => decide (id ≠ -1) && VisListIdsOK children
def VisListIdsOK : List Vis → Bool
  | [] => true
  | v :: vs => VisIdsOK v && VisListIdsOK vs
end

mutual
theorem assignVis_preserve : (v : Vis) → (m : IdMan) → VisIdsOK v = true → (assignVisAux true v m).1 = v
  | .mk name id color children, m, h => by
    simp only [VisIdsOK, Bool.and_eq_true, decide_eq_true_eq] at h
    simp only [assignVisAux]
    rw [assignVisList_preserve children m h.2, get_preserve _ _ h.1]
theorem assignVisList_preserve : (vs : List Vis) → (m : IdMan) → VisListIdsOK vs = true →
    (assignVisAux.assignVisList true vs m).1 = vs
  | [], _, _ => rfl
  | v :: vs, m, h => by
    simp only [VisListIdsOK, Bool.and_eq_true] at h
    simp only [assignVisAux.assignVisList]
    rw [assignVis_preserve v m h.1, assignVisList_preserve vs _ h.2]
end

theorem assignSides_preserve (ss : List Side) (m : IdMan) (h : ∀ s ∈ ss, s.id ≠ -1) :
    (assignSides true ss m).1 = ss := by
  induction ss generalizing m with
  | nil => rfl
  | cons s r ih =>
    simp only [assignSides]
    rw [get_preserve _ _ (h s (by simp)), ih _ (fun x hx => h x (by simp [hx]))]

abbrev SolidIdsOK (s : Solid) : Prop := s.id ≠ -1 ∧ ∀ sd ∈ s.sides, sd.id ≠ -1

theorem assignSolids_preserve (ss : List Solid) (st : Ids) (h : ∀ s ∈ ss, SolidIdsOK s) :
    (assignSolids true ss st).1 = ss := by
  induction ss generalizing st with
  | nil => rfl
  | cons s r ih =>
    have hs := h s (by simp)
    simp only [assignSolids]
    rw [assignSides_preserve _ _ hs.2, get_preserve _ _ hs.1, ih _ (fun x hx => h x (by simp [hx]))]

def fixLogical (e : Ent) : Ent :=
  { e with logicalPos := if e.logicalPos.isEmpty then defaultLogical e.id else e.logicalPos }

abbrev EntIdsOK (e : Ent) : Prop := e.id ≠ -1 ∧ ∀ s ∈ e.solids, SolidIdsOK s

theorem assignEnt_preserve (e : Ent) (st : Ids) (h : EntIdsOK e) : (assignEnt true e st).1 = fixLogical e := by
  simp only [assignEnt, fixLogical]
  rw [assignSolids_preserve _ _ h.2, get_preserve _ _ h.1]

theorem assignEnts_preserve (es : List Ent) (st : Ids) (h : ∀ e ∈ es, EntIdsOK e) :
    (assignEnts true es st).1 = es.map fixLogical := by
  induction es generalizing st with
  | nil => rfl
  | cons e r ih =>
    simp only [assignEnts, List.map_cons]
    rw [assignEnt_preserve _ _ (h e (by simp)), ih _ (fun x hx => h x (by simp [hx]))]

theorem assignGroups_preserve (gs : List Group) (m : IdMan) (acc : List Group)
    (h1 : ∀ g ∈ gs, g.id ≠ -1) (h2 : ((acc ++ gs).map (·.id)).Nodup) :
    (assignGroups true gs m acc).1 = acc ++ gs := by
  induction gs generalizing m acc with
  | nil => simp [assignGroups]
  | cons g r ih =>
    simp only [assignGroups]
    rw [get_preserve _ _ (h1 g (by simp))]
    have hnot : acc.any (fun x => x.id == g.id) = false := by
      simp only [List.any_eq_false, beq_iff_eq]
      intro x hx e
      simp only [List.map_append, List.map_cons, List.nodup_append] at h2
      exact h2.2.2 x.id (by simp only [List.mem_map]; exact ⟨x, hx, rfl⟩) g.id (by simp) e
    have hg : ({ g with id := g.id } : Group) = g := by cases g; rfl
    simp only [hnot, Bool.false_eq_true, if_false, hg]
    rw [ih _ _ (fun x hx => h1 x (by simp [hx])) (by simpa using h2)]
    simp

/-- ids that `preserve_ids=True` keeps: none is the "allocate" marker `-1`; group ids distinct
(they key the `groups` dict). -/
structure IdsOK (m : VMap) : Prop where
  vis : VisListIdsOK m.vis = true
  groups : ∀ g ∈ m.groups, g.id ≠ -1
  groupsDistinct : (m.groups.map (·.id)).Nodup
  spawn : EntIdsOK m.spawn
  ents : ∀ e ∈ m.ents, EntIdsOK e

theorem assignIds_preserve (m : VMap) (h : IdsOK m) :
    assignIds true m = { m with spawn := fixLogical m.spawn, ents := m.ents.map fixLogical } := by
  simp only [assignIds]
  rw [assignVisList_preserve _ _ h.vis, assignGroups_preserve _ _ [] h.groups (by simpa using h.groupsDistinct),
    assignEnt_preserve _ _ h.spawn, assignEnts_preserve _ _ h.ents]
  simp




theorem projSide_of_nodisp (mb : Bool) (s : Side) (h : s.disp = none) : projSide mb s = s := by
  cases s
  simp_all [projSide]

theorem projSolid_eq (mb w : Bool) (s : Solid) : projSolid mb w s = solidRT mb w s.hidden s := by
  cases s
  simp [projSolid, solidRT]

theorem projEnt_eq (mb w : Bool) (e : Ent) (h : EntOK1 e) :
    fixLogical (entRT mb w (if w then false else e.hidden) e) = projEnt mb w e := by
  have hs : e.solids.map (projSolid mb w) = e.solids.map (fun s => solidRT mb w s.hidden s) :=
    List.map_congr_left (fun s _ => projSolid_eq mb w s)
  cases w <;> cases hl : e.logicalPos <;>
    simp [fixLogical, entRT, projEnt, hs, hl]

theorem idsOK_rawRT (o : ExportOpts) (m : VMap) (h : IdsOK m) : IdsOK (rawRT o m) := by
  have solidsOK : ∀ (mb w : Bool) (ss : List Solid), (∀ s ∈ ss, SolidIdsOK s) →
      ∀ s ∈ ss.map (fun s => solidRT mb w s.hidden s), SolidIdsOK s := by
    intro mb w ss hss s hs
    simp only [List.mem_map] at hs
    obtain ⟨t, ht, rfl⟩ := hs
    refine ⟨(hss t ht).1, ?_⟩
    intro sd hsd
    simp only [solidRT, List.mem_map] at hsd
    obtain ⟨sd0, hsd0, rfl⟩ := hsd
    have := (hss t ht).2 sd0 hsd0
    cases sd0
    simpa [projSide] using this
  refine ⟨h.vis, h.groups, h.groupsDistinct, ⟨h.spawn.1, ?_⟩, ?_⟩
  · exact solidsOK _ true _ h.spawn.2
  · intro e he
    simp only [rawRT, List.mem_map] at he
    obtain ⟨t, ht, rfl⟩ := he
    exact ⟨(h.ents t ht).1, solidsOK _ false _ (h.ents t ht).2⟩

theorem fix_rawRT_eq_project (o : ExportOpts) (m : VMap) (h : MapOK1 m) :
    ({ rawRT o m with spawn := fixLogical (rawRT o m).spawn, ents := (rawRT o m).ents.map fixLogical } : VMap)
      = project o m := by
  have hsp := entOK1_spawnForExport o m h.spawn
  have e1 : fixLogical (rawRT o m).spawn = projEnt o.multiblend true (spawnForExport o m) := by
    have := projEnt_eq o.multiblend true (spawnForExport o m) hsp
    simpa [rawRT] using this
  have e2 : (rawRT o m).ents.map fixLogical = m.ents.map (projEnt o.multiblend false) := by
    simp only [rawRT, List.map_map]
    apply List.map_congr_left
    intro e he
    have := projEnt_eq o.multiblend false e (h.ents e he)
    simpa using this
  rw [e1, e2]
  cases hmin : o.minimal <;> simp [rawRT, project, hmin]




/-! ### sortedness -/

structure LeOK {α} (le : α → α → Bool) : Prop where
  total : ∀ a b, le a b = true ∨ le b a = true
  trans : ∀ a b c, le a b = true → le b c = true → le a c = true

theorem insertBy_sorted {α} {le : α → α → Bool} (ok : LeOK le) (x : α) (l : List α)
    (h : l.Pairwise (fun a b => le a b = true)) : (insertBy le x l).Pairwise (fun a b => le a b = true) := by
  induction l with
  | nil => simp [insertBy]
  | cons y ys ih =>
    simp only [insertBy]
    have hy := List.pairwise_cons.mp h
    split
    · rename_i hxy
      refine List.pairwise_cons.mpr ⟨?_, h⟩
      intro z hz
      simp only [List.mem_cons] at hz
      rcases hz with rfl | hz
      · exact hxy
      · exact ok.trans _ _ _ hxy (hy.1 z hz)
    · rename_i hxy
      have hyx : le y x = true := by
        rcases ok.total x y with h1 | h1
        · exact absurd h1 hxy
        · exact h1
      refine List.pairwise_cons.mpr ⟨?_, ih hy.2⟩
      intro z hz
      have := (insertBy_perm le x ys).mem_iff.mp hz
      simp only [List.mem_cons] at this
      rcases this with rfl | hz'
      · exact hyx
      · exact hy.1 z hz'

theorem isort_sorted {α} {le : α → α → Bool} (ok : LeOK le) (l : List α) :
    (isort le l).Pairwise (fun a b => le a b = true) := by
  induction l with
  | nil => simp [isort]
  | cons x xs ih => exact insertBy_sorted ok x _ ih

theorem isort_of_sorted {α} (le : α → α → Bool) (l : List α) (h : l.Pairwise (fun a b => le a b = true)) :
    isort le l = l := by
  induction l with
  | nil => rfl
  | cons x xs ih =>
    have hx := List.pairwise_cons.mp h
    simp only [isort, ih hx.2]
    cases xs with
    | nil => rfl
    | cons y ys => simp [insertBy, hx.1 y (by simp)]

theorem isort_idem {α} {le : α → α → Bool} (ok : LeOK le) (l : List α) : isort le (isort le l) = isort le l :=
  isort_of_sorted le _ (isort_sorted ok l)

theorem strLe_total : ∀ a b : Str, strLe a b = true ∨ strLe b a = true
  | [], _ => by simp [strLe]
  | _ :: _, [] => by simp [strLe]
  | a :: as, b :: bs => by
    simp only [strLe]
    by_cases h1 : a.toNat < b.toNat
    · simp [h1]
    · by_cases h2 : b.toNat < a.toNat
      · simp [h2]
      · simp only [h1, h2, if_false]
        exact strLe_total as bs

theorem strLe_trans : ∀ a b c : Str, strLe a b = true → strLe b c = true → strLe a c = true
  | [], _, _, _, _ => by simp [strLe]
  | _ :: _, [], _, h, _ => by simp [strLe] at h
  | _ :: _, _ :: _, [], _, h => by simp [strLe] at h
  | a :: as, b :: bs, c :: cs, h1, h2 => by
    simp only [strLe] at h1 h2 ⊢
    by_cases hab : a.toNat < b.toNat
    · by_cases hbc : b.toNat < c.toNat
      · have : a.toNat < c.toNat := by omega
        simp [this]
      · by_cases hcb : c.toNat < b.toNat
        · simp [hbc, hcb] at h2
        · have : a.toNat < c.toNat := by omega
          simp [this]
    · by_cases hba : b.toNat < a.toNat
      · simp [hab, hba] at h1
      · simp only [hab, hba, if_false] at h1
        have hEq : a.toNat = b.toNat := by omega
        by_cases hbc : b.toNat < c.toNat
        · have : a.toNat < c.toNat := by omega
          simp [this]
        · by_cases hcb : c.toNat < b.toNat
          · simp [hbc, hcb] at h2
          · simp only [hbc, hcb, if_false] at h2
            have h3 : ¬ a.toNat < c.toNat := by omega
            have h4 : ¬ c.toNat < a.toNat := by omega
            simp only [h3, h4, if_false]
            exact strLe_trans as bs cs h1 h2

theorem keyLe_ok : LeOK keyLe :=
  ⟨fun a b => strLe_total a.1 b.1, fun a b c => strLe_trans a.1 b.1 c.1⟩

theorem intLe_ok : LeOK intLe :=
  ⟨fun a b => by simp only [intLe, decide_eq_true_eq]; omega,
   fun a b c => by simp only [intLe, decide_eq_true_eq]; omega⟩

theorem fixLe_ok : LeOK fixLe :=
  ⟨fun a b => by simp only [fixLe, decide_eq_true_eq]; omega,
   fun a b c => by simp only [fixLe, decide_eq_true_eq]; omega⟩




/-! ### the second export -/

theorem expName_normInst (i : Option Str) (n : Str) : expName (normInst i) n = expName i n := by
  cases i with
  | none => rfl
  | some s => by_cases h : s.isEmpty = true <;> simp [normInst, expName, h]

theorem exportOut_projOut (x : Out) : exportOut (projOut x) = exportOut x := by
  rw [projOut_eq]
  simp [exportOut, expName_normInst]



/-! ### the second export of a displacement -/

theorem mapIdx_eq_map {α β} (f : α → β) (k : Nat) (l : List α) : mapIdx (fun _ a => f a) k l = l.map f := by
  induction l generalizing k with
  | nil => rfl
  | cons a r ih => simp [mapIdx, ih]

theorem mapIdx_take {α β} (g : Nat → α → β) (k n : Nat) (l : List α) :
    (mapIdx g k l).take n = mapIdx g k (l.take n) := by
  induction l generalizing k n with
  | nil => simp [mapIdx]
  | cons a r ih =>
    cases n with
    | zero => simp [mapIdx]
    | succ n => simp [mapIdx, ih]

theorem mapIdx_drop {α β} (g : Nat → α → β) (k n : Nat) (l : List α) :
    (mapIdx g k l).drop n = mapIdx g (k + n) (l.drop n) := by
  induction l generalizing k n with
  | nil => simp [mapIdx]
  | cons a r ih =>
    cases n with
    | zero => simp [mapIdx]
    | succ n =>
      simp only [mapIdx, List.drop_succ_cons, ih]
      congr 1; omega

theorem rowsOf_map {α β} (f : α → β) (size n : Nat) (l : List α) :
    rowsOf size n (l.map f) = (rowsOf size n l).map (·.map f) := by
  induction n generalizing l with
  | zero => rfl
  | succ n ih =>
    simp only [rowsOf, List.map_cons, List.map_take]
    rw [← List.map_drop, ih]

theorem rowsetKids_congr (size : Nat) (l1 l2 : List DVert) (toks : DVert → List Str)
    (h : l1.map toks = l2.map toks) : rowsetKids size l1 toks = rowsetKids size l2 toks := by
  unfold rowsetKids
  congr 1
  have e : ∀ l : List DVert, (rowsOf size size l).map (fun r => r.flatMap toks)
      = (rowsOf size size (l.map toks)).map List.flatten := by
    intro l
    rw [rowsOf_map, List.map_map]
    apply List.map_congr_left
    intro r _
    simp [List.flatMap_def]
  rw [e l1, e l2, h]

theorem map_mapIdx_toks (g : Nat → DVert → DVert) (toks : DVert → List Str) (l : List DVert)
    (h : ∀ i a, toks (g i a) = toks a) : (mapIdx g 0 l).map toks = l.map toks := by
  rw [map_mapIdx]
  have : mapIdx (fun i a => toks (g i a)) 0 l = mapIdx (fun _ a => toks a) 0 l :=
    mapIdx_congr _ _ 0 l (fun j a _ => h _ a)
  rw [this, mapIdx_eq_map]

theorem flatMap_mapIdx_congr (g : Nat → DVert → DVert) (t : DVert → List Str) (k : Nat) (r : List DVert)
    (h : ∀ x a, r[x]? = some a → t (g (k + x) a) = t a) : (mapIdx g k r).flatMap t = r.flatMap t := by
  induction r generalizing k with
  | nil => rfl
  | cons a rs ih =>
    simp only [mapIdx, List.flatMap_cons]
    have h0 := h 0 a (by simp)
    simp only [Nat.add_zero] at h0
    rw [h0, ih (k + 1) (fun x b hb => by
      have := h (x + 1) b (by simpa using hb)
      have e : k + (x + 1) = k + 1 + x := by omega
      rw [e] at this; exact this)]

theorem triRows_congr (size c : Nat) (hc : c ≤ size) (g : Nat → DVert → DVert) (t : DVert → List Str)
    (n y : Nat) (l : List DVert)
    (H : ∀ y' x a, y ≤ y' → y' < y + n → x < c → t (g (y' * size + x) a) = t a) :
    (rowsOf size n (mapIdx g (y * size) l)).map (fun r => (r.take c).flatMap t)
      = (rowsOf size n l).map (fun r => (r.take c).flatMap t) := by
  induction n generalizing y l with
  | zero => rfl
  | succ n ih =>
    simp only [rowsOf, List.map_cons]
    congr 1
    · rw [mapIdx_take, mapIdx_take]
      apply flatMap_mapIdx_congr
      intro x a ha
      have hx : x < c := by
        have := lt_of_getElem? ha
        simp only [List.length_take] at this
        omega
      exact H y x a (Nat.le_refl _) (by omega) hx
    · rw [mapIdx_drop]
      have e : y * size + size = (y + 1) * size := by rw [Nat.add_mul]; simp
      rw [e]
      exact ih (y + 1) (l.drop size) (fun y' x a h1 h2 h3 => H y' x a (by omega) (by omega) h3)

theorem triKids_proj (keep : Bool) (size : Nat) (l : List DVert) :
    triKids size (mapIdx (projVert keep size) 0 l) = triKids size l := by
  unfold triKids
  congr 1
  have := triRows_congr size (size - 1) (Nat.sub_le _ _) (projVert keep size) triToks (size - 1) 0 l (by
    intro y' x a _ hy hx
    have hxs : x < size := by omega
    have h1 := idx_mod size y' x hxs
    have h2 := idx_div size y' x hxs
    have hx1 : (x == size - 1) = false := by simp only [beq_eq_false_iff_ne, ne_eq]; omega
    have hy1 : (y' == size - 1) = false := by simp only [beq_eq_false_iff_ne, ne_eq]; omega
    simp only [projVert, triToks, h1, h2, hx1, hy1, Bool.or_self, Bool.false_eq_true, if_false])
  simpa using this

theorem hasBlend_proj (keep : Bool) (size : Nat) (l : List DVert) :
    hasBlend (mapIdx (projVert keep size) 0 l) = (keep && hasBlend l) := by
  unfold hasBlend
  have : ∀ k, (mapIdx (projVert keep size) k l).any (fun v => !(v.blend.toks.all isZeroTok))
      = (keep && l.any (fun v => !(v.blend.toks.all isZeroTok))) := by
    induction l with
    | nil => intro k; simp [mapIdx]
    | cons a r ih =>
      intro k
      simp only [mapIdx, List.any_cons, ih]
      cases keep
      · simp [projVert, v4zero, V4.toks, isZeroTok]
      · simp [projVert]
  exact this 0

theorem colorToks_proj (size j i : Nat) (a : DVert) (hi : i < 4) :
    colorToks i (projVert true size j a) = colorToks i a := by
  rw [colorToks_eq, colorToks_eq]
  simp only [projVert, if_true, colorOf, Option.getD_some]
  have : i = 0 ∨ i = 1 ∨ i = 2 ∨ i = 3 := by omega
  rcases this with rfl | rfl | rfl | rfl <;> simp [List.range, List.range.loop]

theorem exportDisp_projDisp (mb : Bool) (d : Disp) : exportDisp mb (projDisp mb d) = exportDisp mb d := by
  have hproj : ∀ (keep : Bool) (toks : DVert → List Str) (h : ∀ i a, toks (projVert keep (dispSize d.power) i a) = toks a),
      rowsetKids (dispSize d.power) (mapIdx (projVert keep (dispSize d.power)) 0 d.verts) toks
        = rowsetKids (dispSize d.power) d.verts toks :=
    fun keep toks h => rowsetKids_congr _ _ _ _ (map_mapIdx_toks _ toks d.verts h)
  have base : ∀ keep : Bool,
      rowsetKids (dispSize d.power) (mapIdx (projVert keep (dispSize d.power)) 0 d.verts) (·.normal.toks)
        = rowsetKids (dispSize d.power) d.verts (·.normal.toks) ∧
      rowsetKids (dispSize d.power) (mapIdx (projVert keep (dispSize d.power)) 0 d.verts) (fun v => [v.dist])
        = rowsetKids (dispSize d.power) d.verts (fun v => [v.dist]) ∧
      rowsetKids (dispSize d.power) (mapIdx (projVert keep (dispSize d.power)) 0 d.verts) (·.offset.toks)
        = rowsetKids (dispSize d.power) d.verts (·.offset.toks) ∧
      rowsetKids (dispSize d.power) (mapIdx (projVert keep (dispSize d.power)) 0 d.verts) (·.offsetNorm.toks)
        = rowsetKids (dispSize d.power) d.verts (·.offsetNorm.toks) ∧
      rowsetKids (dispSize d.power) (mapIdx (projVert keep (dispSize d.power)) 0 d.verts) (fun v => [v.alpha])
        = rowsetKids (dispSize d.power) d.verts (fun v => [v.alpha]) := by
    intro keep
    exact ⟨hproj _ _ (by intro i a; simp [projVert]), hproj _ _ (by intro i a; simp [projVert]),
      hproj _ _ (by intro i a; simp [projVert]), hproj _ _ (by intro i a; simp [projVert]),
      hproj _ _ (by intro i a; simp [projVert])⟩
  cases mb with
  | false =>
    obtain ⟨b1, b2, b3, b4, b5⟩ := base false
    simp only [exportDisp, projDisp, dispHead, Bool.false_and, Bool.false_eq_true, if_false, b1, b2, b3, b4, b5,
      triKids_proj]
  | true =>
    cases hb : hasBlend d.verts with
    | false =>
      obtain ⟨b1, b2, b3, b4, b5⟩ := base false
      simp only [exportDisp, projDisp, dispHead, Bool.true_and, hb, Bool.false_eq_true, if_false, b1, b2, b3, b4, b5,
        triKids_proj, hasBlend_proj, Bool.false_and]
    | true =>
      obtain ⟨b1, b2, b3, b4, b5⟩ := base true
      simp only [exportDisp, projDisp, dispHead, Bool.true_and, hb, if_true, b1, b2, b3, b4, b5,
        triKids_proj, hasBlend_proj, Bool.and_self]
      rw [hproj true (·.blend.toks) (by intro i a; simp [projVert]),
        hproj true (·.malpha.toks) (by intro i a; simp [projVert]),
        hproj true (colorToks 0) (fun i a => colorToks_proj _ i 0 a (by omega)),
        hproj true (colorToks 1) (fun i a => colorToks_proj _ i 1 a (by omega)),
        hproj true (colorToks 2) (fun i a => colorToks_proj _ i 2 a (by omega)),
        hproj true (colorToks 3) (fun i a => colorToks_proj _ i 3 a (by omega))]


theorem exportSide_projSide (mb : Bool) (s : Side) : exportSide mb (projSide mb s) = exportSide mb s := by
  cases hd : s.disp with
  | none => simp [projSide, exportSide, hd]
  | some d =>
    by_cases hp : d.power > 0
    · have : (projDisp mb d).power > 0 := hp
      simp [projSide, exportSide, hd, hp, this, exportDisp_projDisp]
    · simp [projSide, exportSide, hd, hp]

theorem exportSolid_projSolid (mb w : Bool) (s : Solid) :
    exportSolid mb w (projSolid mb w s) = exportSolid mb w s := by
  rw [projSolid_eq mb w s]
  have hsides : (s.sides.map (projSide mb)).map (exportSide mb) = s.sides.map (exportSide mb) := by
    rw [List.map_map]
    exact List.map_congr_left (fun x _ => exportSide_projSide mb x)
  cases w <;> simp [exportSolid, solidRT, solidBlock, solidEditor, isort_idem intLe_ok, hsides]

theorem go_keeps (k v : Str) (ks : List (Str × Str)) (kv : Str × Str) (hm : kv ∈ ks)
    (hne : lower kv.1 ≠ lower k) : kv ∈ entSetKey.go k v ks := by
  induction ks with
  | nil => simp at hm
  | cons a r ih =>
    simp only [entSetKey.go]
    simp only [List.mem_cons] at hm
    split
    · rename_i heq
      rcases hm with rfl | hm
      · exact absurd (by simpa using heq) hne
      · simp [hm]
    · rcases hm with rfl | hm
      · simp
      · simp [ih hm]

theorem entSetKey_keeps (ks : List (Str × Str)) (k v : Str) (kv : Str × Str) (hm : kv ∈ ks)
    (hne : lower kv.1 ≠ lower k) : kv ∈ entSetKey ks k v := by
  unfold entSetKey
  split
  · exact go_keeps k v ks kv hm hne
  · exact List.mem_append_left _ hm

/-- the editor fields of an entity that a second export writes again unchanged -/
def EntFP (w : Bool) (e : Ent) : Prop := if w then e.hidden = false else e.logicalPos ≠ []

/-- no face of the entity carries displacement data (the second-export theorem does not cover it yet) -/
abbrev EntNoDisp (e : Ent) : Prop := ∀ s ∈ e.solids, ∀ sd ∈ s.sides, sd.disp = none

theorem exportEnt_projEnt (mb w : Bool) (groups : List Group) (e : Ent) (h : EntOK1 e) (hf : EntFP w e) :
    exportEnt mb w groups (projEnt mb w e) = exportEnt mb w groups e := by
  have hs : (e.solids.map (projSolid mb w)).map (exportSolid mb w) = e.solids.map (exportSolid mb w) := by
    rw [List.map_map]
    exact List.map_congr_left (fun s hs => exportSolid_projSolid mb w s)
  have ho : (e.outputs.map projOut).map exportOut = e.outputs.map exportOut := by
    rw [List.map_map]
    exact List.map_congr_left (fun s _ => exportOut_projOut s)
  have hoe : (e.outputs.map projOut).isEmpty = e.outputs.isEmpty := by cases e.outputs <;> rfl
  cases w with
  | true =>
    simp only [EntFP, if_true] at hf
    simp [exportEnt, projEnt, entBlock, entKids, entEditor, hs, ho, hoe, hf, isort_idem keyLe_ok, isort_idem fixLe_ok]
  | false =>
    simp only [EntFP, Bool.false_eq_true, if_false] at hf
    have hl : e.logicalPos.isEmpty = false := by cases hlp : e.logicalPos <;> simp_all
    simp [exportEnt, projEnt, entBlock, entKids, entEditor, hs, ho, hoe, hl, isort_idem keyLe_ok, isort_idem fixLe_ok,
      isort_idem intLe_ok]

theorem spawnForExport_project (o : ExportOpts) (m : VMap) (h : MapOK1 m) :
    spawnForExport { o with incVersion := false } (project o m) = projEnt o.multiblend true (spawnForExport o m) := by
  have hsp := entOK1_spawnForExport o m h.spawn
  have hd := keysDistinct_isort hsp.keysDistinct
  have hps : (project o m).spawn = projEnt o.multiblend true (spawnForExport o m) := by
    cases hmin : o.minimal <;> simp [project, hmin]
  have hver : exportedVer { o with incVersion := false } (project o m) = exportedVer o m := by
    cases hmin : o.minimal <;> simp [exportedVer, project, hmin]
  have hkeys : (projEnt o.multiblend true (spawnForExport o m)).keys = isort keyLe (spawnForExport o m).keys := rfl
  -- the mapversion and classname entries are already there
  obtain ⟨kv1, hm1, hk1, hv1⟩ := entSetKey_has m.spawn.keys (lit "mapversion") (showInt (exportedVer o m))
  have hm1' : kv1 ∈ (spawnForExport o m).keys := by
    simp only [spawnForExport]
    exact entSetKey_keeps _ _ _ kv1 hm1 (by rw [hk1]; decide)
  obtain ⟨kv2, hm2, hk2, hv2⟩ := entSetKey_has
    (entSetKey m.spawn.keys (lit "mapversion") (showInt (exportedVer o m))) (lit "classname") (lit "worldspawn")
  have e1 : entSetKey (isort keyLe (spawnForExport o m).keys) (lit "mapversion") (showInt (exportedVer o m))
      = isort keyLe (spawnForExport o m).keys :=
    entSetKey_idem _ _ _ hd ⟨kv1, (mem_isort _ _ _).mpr hm1', hk1, hv1⟩
  have e2 := spawn_classname_idem o m h.spawn
  have step : ∀ (P : Ent) (ks : List (Str × Str)), ks = P.keys → ({ P with keys := ks } : Ent) = P := by
    intro P ks h1
    rw [h1]
  have lhs : spawnForExport { o with incVersion := false } (project o m)
      = { (project o m).spawn with keys := (spawnForExport { o with incVersion := false } (project o m)).keys } := rfl
  have hk : (spawnForExport { o with incVersion := false } (project o m)).keys
      = (projEnt o.multiblend true (spawnForExport o m)).keys := by
    show entSetKey (entSetKey (project o m).spawn.keys (lit "mapversion")
      (showInt (exportedVer { o with incVersion := false } (project o m)))) (lit "classname") (lit "worldspawn") = _
    rw [hver, hps, hkeys, e1, e2]
  rw [lhs, hk, hps]

theorem exportTree_project (o : ExportOpts) (m : VMap) (h : MapOK1 m)
    (hl : ∀ e ∈ m.ents, e.logicalPos ≠ []) :
    exportTree { o with incVersion := false } (project o m) = exportTree o m := by
  have hsp := entOK1_spawnForExport o m h.spawn
  have hw : exportEnt o.multiblend true m.groups (spawnForExport { o with incVersion := false } (project o m))
      = exportEnt o.multiblend true m.groups (spawnForExport o m) := by
    rw [spawnForExport_project o m h]
    exact exportEnt_projEnt _ _ _ _ hsp (by simp only [EntFP, if_true]; exact h.spawnVisible)
  have he : (m.ents.map (projEnt o.multiblend false)).map (exportEnt o.multiblend false [])
      = m.ents.map (exportEnt o.multiblend false []) := by
    rw [List.map_map]
    exact List.map_congr_left (fun e he => exportEnt_projEnt _ _ _ e (h.ents e he)
      (by simp only [EntFP, Bool.false_eq_true, if_false]; exact hl e he))
  have hver : exportedVer { o with incVersion := false } (project o m) = exportedVer o m := by
    cases hmin : o.minimal <;> simp [exportedVer, project, hmin]
  have hgroups : (project o m).groups = m.groups := by cases hmin : o.minimal <;> simp [project, hmin]
  have hents : (project o m).ents = m.ents.map (projEnt o.multiblend false) := by
    cases hmin : o.minimal <;> simp [project, hmin]
  have hvis : (project o m).vis = m.vis := by cases hmin : o.minimal <;> simp [project, hmin]
  have hq : (project o m).quickhide = if m.quickhide > 0 then m.quickhide else 0 := by
    cases hmin : o.minimal <;> simp [project, hmin]
  have hverK : verKids { o with incVersion := false } (project o m) = verKids o m := by
    simp only [verKids, hver]
    cases hmin : o.minimal <;> simp [project, hmin, h.format]
  unfold exportTree
  simp only [hgroups, hents, hvis, hverK]
  rw [hw, he]
  have hqd : decide ((project o m).quickhide > 0) = decide (m.quickhide > 0) := by
    rw [hq]; by_cases hq0 : m.quickhide > 0 <;> simp [hq0]
  rw [hqd]
  cases hmin : o.minimal with
  | true =>
    by_cases hq0 : m.quickhide > 0
    · simp [rootOf, hq0, hq]
    · simp [rootOf, hq0]
  | false =>
    have hvk : viewKids (project o m) = viewKids m := by simp [viewKids, project, hmin]
    have hck : camKids (project o m) = camKids m := by
      cases hc : m.cams <;> simp [camKids, project, hmin, hc]
    have hok : cordonKids (project o m) = cordonKids m := by
      cases hc : m.cordons <;> simp [cordonKids, project, hmin, hc]
    rw [hvk, hck, hok]
    by_cases hq0 : m.quickhide > 0
    · simp [rootOf, hq0, hq]
    · simp [rootOf, hq0]




/-! ### id allocation with `preserve_ids = False` -/

theorem findFree_ge (used : List Int) (fuel : Nat) (pos : Int) : pos ≤ findFree used fuel pos := by
  induction fuel generalizing pos with
  | zero => simp [findFree]
  | succ n ih =>
    simp only [findFree]
    split
    · have := ih (pos + 1); omega
    · exact Int.le_refl _

theorem filter_len_le (used : List Int) (p q : Int → Bool) (h : ∀ x, q x = true → p x = true) :
    (used.filter q).length ≤ (used.filter p).length := by
  induction used with
  | nil => simp
  | cons a r ih =>
    simp only [List.filter]
    cases hq : q a with
    | true => simp only [h a hq, List.length_cons]; omega
    | false =>
      cases hp : p a with
      | true => simp only [List.length_cons]; omega
      | false => exact ih

theorem filter_len_lt (used : List Int) (p q : Int → Bool) (h : ∀ x, q x = true → p x = true)
    (a : Int) (ha : a ∈ used) (hpa : p a = true) (hqa : q a = false) :
    (used.filter q).length < (used.filter p).length := by
  induction used with
  | nil => simp at ha
  | cons b r ih =>
    simp only [List.mem_cons] at ha
    simp only [List.filter]
    rcases ha with rfl | ha
    · simp only [hpa, hqa, List.length_cons]
      have := filter_len_le r p q h
      omega
    · have := ih ha
      cases hq : q b with
      | true => simp only [h b hq, List.length_cons]; omega
      | false =>
        cases hp : p b with
        | true => simp only [List.length_cons]; omega
        | false => exact this

theorem findFree_fresh (used : List Int) (fuel : Nat) (pos : Int)
    (h : (used.filter (fun x => decide (pos ≤ x))).length < fuel) : findFree used fuel pos ∉ used := by
  induction fuel generalizing pos with
  | zero => omega
  | succ n ih =>
    simp only [findFree]
    split
    · rename_i hc
      have hmem : pos ∈ used := by simpa using hc
      apply ih
      have := filter_len_lt used (fun x => decide (pos ≤ x)) (fun x => decide (pos + 1 ≤ x))
        (by intro x hx; simp only [decide_eq_true_eq] at hx ⊢; omega) pos hmem (by simp) (by simp only [decide_eq_false_iff_not]; omega)
      omega
    · rename_i hc
      simpa using hc

/-- the manager hands out positive numbers: the search position never drops below 1 -/
def IdMan.Inv (m : IdMan) : Prop := 1 ≤ m.searchPos

theorem alloc_spec (m : IdMan) (h : m.Inv) :
    (m.alloc).1 ∉ m.used ∧ 0 < (m.alloc).1 ∧ (m.alloc).2.Inv ∧ (m.alloc).2.used = (m.alloc).1 :: m.used := by
  have hge := findFree_ge m.used (m.used.length + 1) m.searchPos
  have hfr : findFree m.used (m.used.length + 1) m.searchPos ∉ m.used := by
    apply findFree_fresh
    have := List.length_filter_le (fun x => decide (m.searchPos ≤ x)) m.used
    omega
  unfold IdMan.Inv at h
  refine ⟨hfr, ?_, ?_, rfl⟩
  · show 0 < findFree m.used (m.used.length + 1) m.searchPos
    omega
  · show 1 ≤ findFree m.used (m.used.length + 1) m.searchPos + 1
    omega

theorem get_false_spec (m : IdMan) (d : Int) (h : m.Inv) :
    (m.get false d).1 ∉ m.used ∧ 0 < (m.get false d).1 ∧ (m.get false d).2.Inv ∧
    (m.get false d).2.used = (m.get false d).1 :: m.used := by
  unfold IdMan.get
  simp only [Bool.false_eq_true, if_false]
  split
  · rename_i hc
    simp only [Bool.and_eq_true, decide_eq_true_eq, Bool.not_eq_true', List.contains_eq_mem,
      decide_eq_false_iff_not] at hc
    exact ⟨hc.2, hc.1, h, rfl⟩
  · exact alloc_spec m h

/-- `ids` were handed out by the manager on the way from `m` to `m'` -/
structure Fresh (m m' : IdMan) (ids : List Int) : Prop where
  nodup : ids.Nodup
  pos : ∀ i ∈ ids, 0 < i
  new : ∀ i ∈ ids, i ∉ m.used
  used : ∀ x, x ∈ m'.used ↔ (x ∈ ids ∨ x ∈ m.used)
  inv : m'.Inv

theorem Fresh.nil (m : IdMan) (h : m.Inv) : Fresh m m [] :=
  ⟨List.nodup_nil, by simp, by simp, by simp, h⟩

theorem Fresh.trans {m m' m'' : IdMan} {a b : List Int} (h1 : Fresh m m' a) (h2 : Fresh m' m'' b) :
    Fresh m m'' (a ++ b) := by
  refine ⟨?_, ?_, ?_, ?_, h2.inv⟩
  · rw [List.nodup_append]
    refine ⟨h1.nodup, h2.nodup, ?_⟩
    intro x hx y hy e
    subst e
    exact h2.new x hy ((h1.used x).mpr (Or.inl hx))
  · intro i hi
    simp only [List.mem_append] at hi
    rcases hi with hi | hi
    · exact h1.pos i hi
    · exact h2.pos i hi
  · intro i hi
    simp only [List.mem_append] at hi
    rcases hi with hi | hi
    · exact h1.new i hi
    · intro hm; exact h2.new i hi ((h1.used i).mpr (Or.inr hm))
  · intro x
    rw [h2.used, h1.used]
    simp only [List.mem_append]
    constructor
    · rintro (h | h | h)
      · exact Or.inl (Or.inr h)
      · exact Or.inl (Or.inl h)
      · exact Or.inr h
    · rintro ((h | h) | h)
      · exact Or.inr (Or.inl h)
      · exact Or.inl h
      · exact Or.inr (Or.inr h)

theorem Fresh.get (m : IdMan) (d : Int) (h : m.Inv) : Fresh m (m.get false d).2 [(m.get false d).1] := by
  obtain ⟨h1, h2, h3, h4⟩ := get_false_spec m d h
  refine ⟨by simp, by simpa using h2, by simpa using h1, ?_, h3⟩
  intro x
  rw [h4]
  simp




mutual
def visIdsA : Vis → List Int
  | .mk _ id _ ch => visIdsLA ch ++ [id]
def visIdsLA : List Vis → List Int
  | [] => []
  | v :: vs => visIdsA v ++ visIdsLA vs
end

mutual
theorem assignVis_fresh : (v : Vis) → (m : IdMan) → m.Inv →
    Fresh m (assignVisAux false v m).2 (visIdsA (assignVisAux false v m).1)
  | .mk name id color children, m, h => by
    simp only [assignVisAux, visIdsA]
    have h1 := assignVisList_fresh children m h
    exact h1.trans (Fresh.get _ id h1.inv)
theorem assignVisList_fresh : (vs : List Vis) → (m : IdMan) → m.Inv →
    Fresh m (assignVisAux.assignVisList false vs m).2 (visIdsLA (assignVisAux.assignVisList false vs m).1)
  | [], m, h => by simpa [assignVisAux.assignVisList, visIdsLA] using Fresh.nil m h
  | v :: vs, m, h => by
    simp only [assignVisAux.assignVisList, visIdsLA]
    have h1 := assignVis_fresh v m h
    exact h1.trans (assignVisList_fresh vs _ h1.inv)
end

def faceIds (ss : List Side) : List Int := ss.map (·.id)

theorem assignSides_fresh (ss : List Side) (m : IdMan) (h : m.Inv) :
    Fresh m (assignSides false ss m).2 (faceIds (assignSides false ss m).1) := by
  induction ss generalizing m with
  | nil => simpa [assignSides, faceIds] using Fresh.nil m h
  | cons s r ih =>
    simp only [assignSides, faceIds, List.map_cons]
    have h1 := Fresh.get m s.id h
    have := h1.trans (ih _ h1.inv)
    simpa [faceIds] using this

def solidIds (ss : List Solid) : List Int := ss.map (·.id)
def solidFaceIds (ss : List Solid) : List Int := ss.flatMap (fun s => faceIds s.sides)

theorem assignSolids_fresh (ss : List Solid) (st : Ids) (hf : st.face.Inv) (hs : st.solid.Inv) :
    Fresh st.face (assignSolids false ss st).2.face (solidFaceIds (assignSolids false ss st).1) ∧
    Fresh st.solid (assignSolids false ss st).2.solid (solidIds (assignSolids false ss st).1) ∧
    (assignSolids false ss st).2.ent = st.ent ∧ (assignSolids false ss st).2.group = st.group ∧
    (assignSolids false ss st).2.vis = st.vis := by
  induction ss generalizing st with
  | nil =>
    simp only [assignSolids, solidFaceIds, solidIds, List.flatMap_nil, List.map_nil]
    exact ⟨Fresh.nil _ hf, Fresh.nil _ hs, trivial, trivial, trivial⟩
  | cons s r ih =>
    simp only [assignSolids, solidFaceIds, solidIds, List.flatMap_cons, List.map_cons]
    have h1 := assignSides_fresh s.sides st.face hf
    have h2 := Fresh.get st.solid s.id hs
    obtain ⟨i1, i2, i3, i4, i5⟩ := ih { st with face := (assignSides false s.sides st.face).2,
                                                  solid := (st.solid.get false s.id).2 } h1.inv h2.inv
    refine ⟨?_, ?_, i3, i4, i5⟩
    · simpa [solidFaceIds] using h1.trans i1
    · simpa [solidIds] using h2.trans i2




theorem assignEnt_fresh (e : Ent) (st : Ids) (hf : st.face.Inv) (hs : st.solid.Inv) (he : st.ent.Inv) :
    Fresh st.face (assignEnt false e st).2.face (solidFaceIds (assignEnt false e st).1.solids) ∧
    Fresh st.solid (assignEnt false e st).2.solid (solidIds (assignEnt false e st).1.solids) ∧
    Fresh st.ent (assignEnt false e st).2.ent [(assignEnt false e st).1.id] ∧
    (assignEnt false e st).2.group = st.group ∧ (assignEnt false e st).2.vis = st.vis := by
  obtain ⟨i1, i2, i3, i4, i5⟩ := assignSolids_fresh e.solids st hf hs
  simp only [assignEnt]
  refine ⟨i1, i2, ?_, i4, i5⟩
  rw [i3]
  exact Fresh.get st.ent e.id he

def entSolids (es : List Ent) : List Solid := es.flatMap (·.solids)

theorem solidFaceIds_append (a b : List Solid) : solidFaceIds (a ++ b) = solidFaceIds a ++ solidFaceIds b := by
  simp [solidFaceIds]

theorem solidIds_append (a b : List Solid) : solidIds (a ++ b) = solidIds a ++ solidIds b := by
  simp [solidIds]

theorem assignEnts_fresh (es : List Ent) (st : Ids) (hf : st.face.Inv) (hs : st.solid.Inv) (he : st.ent.Inv) :
    Fresh st.face (assignEnts false es st).2.face (solidFaceIds (entSolids (assignEnts false es st).1)) ∧
    Fresh st.solid (assignEnts false es st).2.solid (solidIds (entSolids (assignEnts false es st).1)) ∧
    Fresh st.ent (assignEnts false es st).2.ent ((assignEnts false es st).1.map (·.id)) := by
  induction es generalizing st with
  | nil =>
    simp only [assignEnts, entSolids, List.flatMap_nil, List.map_nil, solidFaceIds, solidIds]
    exact ⟨Fresh.nil _ hf, Fresh.nil _ hs, Fresh.nil _ he⟩
  | cons e r ih =>
    obtain ⟨a1, a2, a3, _, _⟩ := assignEnt_fresh e st hf hs he
    obtain ⟨b1, b2, b3⟩ := ih (assignEnt false e st).2 a1.inv a2.inv a3.inv
    simp only [assignEnts, entSolids, List.flatMap_cons, List.map_cons, solidFaceIds_append, solidIds_append]
    exact ⟨a1.trans b1, a2.trans b2, by simpa using a3.trans b3⟩

theorem assignGroups_fresh (gs : List Group) (m : IdMan) (acc : List Group) (h : m.Inv)
    (hacc : ∀ g ∈ acc, g.id ∈ m.used) :
    ∃ gs', (assignGroups false gs m acc).1 = acc ++ gs' ∧
      Fresh m (assignGroups false gs m acc).2 (gs'.map (·.id)) := by
  induction gs generalizing m acc with
  | nil => exact ⟨[], by simp [assignGroups], by simpa [assignGroups] using Fresh.nil m h⟩
  | cons g r ih =>
    obtain ⟨h1, h2, h3, h4⟩ := get_false_spec m g.id h
    have hf := Fresh.get m g.id h
    have hnot : acc.any (fun x => x.id == (m.get false g.id).1) = false := by
      simp only [List.any_eq_false, beq_iff_eq]
      intro x hx e
      exact h1 (e ▸ hacc x hx)
    simp only [assignGroups, hnot, Bool.false_eq_true, if_false]
    obtain ⟨gs', e1, e2⟩ := ih (m.get false g.id).2 (acc ++ [{ g with id := (m.get false g.id).1 }]) h3 (by
      intro x hx
      rw [h4]
      simp only [List.mem_append, List.mem_singleton] at hx
      rcases hx with hx | rfl
      · exact List.mem_cons_of_mem _ (hacc x hx)
      · simp)
    refine ⟨{ g with id := (m.get false g.id).1 } :: gs', by simp [e1], ?_⟩
    simpa using hf.trans e2

/-- after `preserve_ids=False`, every kind of id is pairwise distinct and positive -/
structure IdsInjective (m : VMap) : Prop where
  vis : (visIdsLA m.vis).Nodup ∧ ∀ i ∈ visIdsLA m.vis, 0 < i
  groups : (m.groups.map (·.id)).Nodup ∧ ∀ i ∈ m.groups.map (·.id), 0 < i
  ents : ((m.spawn :: m.ents).map (·.id)).Nodup ∧ ∀ i ∈ (m.spawn :: m.ents).map (·.id), 0 < i
  solids : (solidIds (entSolids (m.spawn :: m.ents))).Nodup ∧ ∀ i ∈ solidIds (entSolids (m.spawn :: m.ents)), 0 < i
  faces : (solidFaceIds (entSolids (m.spawn :: m.ents))).Nodup ∧
    ∀ i ∈ solidFaceIds (entSolids (m.spawn :: m.ents)), 0 < i

theorem inv_default : ({} : IdMan).Inv := by simp [IdMan.Inv]

theorem assignIds_injective (m : VMap) : IdsInjective (assignIds false m) := by
  have hph := Fresh.get ({} : IdMan) (-1) inv_default
  have hvis := assignVisList_fresh m.vis {} inv_default
  obtain ⟨gs', hg1, hg2⟩ := assignGroups_fresh m.groups {} [] inv_default (by simp)
  -- worldspawn, with the entity manager that already handed out the placeholder's id
  obtain ⟨a1, a2, a3, _, _⟩ := assignEnt_fresh m.spawn
    { solid := {}, face := {}, ent := (({} : IdMan).get false (-1)).2,
      group := (assignGroups false m.groups {} []).2,
      vis := (assignVisAux.assignVisList false m.vis {}).2 } inv_default inv_default hph.inv
  obtain ⟨b1, b2, b3⟩ := assignEnts_fresh m.ents _ a1.inv a2.inv a3.inv
  have hf := a1.trans b1
  have hs := a2.trans b2
  have he := a3.trans b3
  refine ⟨⟨hvis.nodup, hvis.pos⟩, ?_, ?_, ?_, ?_⟩
  · simp only [assignIds, hg1, List.nil_append]
    exact ⟨hg2.nodup, hg2.pos⟩
  · simp only [assignIds, List.map_cons]
    exact ⟨by simpa using he.nodup, by simpa using he.pos⟩
  · simp only [assignIds, entSolids, List.flatMap_cons, solidIds_append]
    exact ⟨hs.nodup, hs.pos⟩
  · simp only [assignIds, entSolids, List.flatMap_cons, solidFaceIds_append]
    exact ⟨hf.nodup, hf.pos⟩







/-! ### renumbering changes ids only -/

mutual
def eraseVis : Vis → Vis
  | .mk n _ c ch => .mk n 0 c (eraseVisL ch)
def eraseVisL : List Vis → List Vis
  | [] => []
  | v :: vs => eraseVis v :: eraseVisL vs
end

def eraseSide (s : Side) : Side := { s with id := 0 }
def eraseSolid (s : Solid) : Solid := { s with id := 0, sides := s.sides.map eraseSide }
/-- an entity without its ids and without its logical position (which defaults to `[0 <id>]`) -/
def eraseEnt (e : Ent) : Ent := { e with id := 0, solids := e.solids.map eraseSolid, logicalPos := [] }
def eraseGroup (g : Group) : Group := { g with id := 0 }

mutual
theorem assignVis_erase (p : Bool) : (v : Vis) → (m : IdMan) → eraseVis (assignVisAux p v m).1 = eraseVis v
  | .mk n id c ch, m => by
    simp only [assignVisAux, eraseVis]
    rw [assignVisList_erase p ch m]
theorem assignVisList_erase (p : Bool) : (vs : List Vis) → (m : IdMan) →
    eraseVisL (assignVisAux.assignVisList p vs m).1 = eraseVisL vs
  | [], _ => rfl
  | v :: vs, m => by
    simp only [assignVisAux.assignVisList, eraseVisL]
    rw [assignVis_erase p v m, assignVisList_erase p vs _]
end

theorem assignSides_erase (p : Bool) (ss : List Side) (m : IdMan) :
    (assignSides p ss m).1.map eraseSide = ss.map eraseSide := by
  induction ss generalizing m with
  | nil => rfl
  | cons s r ih => simp [assignSides, ih, eraseSide]

theorem assignSolids_erase (p : Bool) (ss : List Solid) (st : Ids) :
    (assignSolids p ss st).1.map eraseSolid = ss.map eraseSolid := by
  induction ss generalizing st with
  | nil => rfl
  | cons s r ih => simp [assignSolids, ih, eraseSolid, assignSides_erase]

theorem assignEnt_erase (p : Bool) (e : Ent) (st : Ids) :
    eraseEnt (assignEnt p e st).1 = eraseEnt e ∧
    (assignEnt p e st).1.logicalPos
      = (if e.logicalPos.isEmpty then defaultLogical (assignEnt p e st).1.id else e.logicalPos) := by
  simp [assignEnt, eraseEnt, assignSolids_erase]

theorem assignEnts_erase (p : Bool) (es : List Ent) (st : Ids) :
    (assignEnts p es st).1.map eraseEnt = es.map eraseEnt := by
  induction es generalizing st with
  | nil => rfl
  | cons e r ih => simp [assignEnts, ih, (assignEnt_erase p e st).1]

theorem assignGroups_erase (gs : List Group) (m : IdMan) (acc : List Group) (h : m.Inv)
    (hacc : ∀ g ∈ acc, g.id ∈ m.used) :
    (assignGroups false gs m acc).1.map eraseGroup = acc.map eraseGroup ++ gs.map eraseGroup := by
  induction gs generalizing m acc with
  | nil => simp [assignGroups]
  | cons g r ih =>
    obtain ⟨h1, h2, h3, h4⟩ := get_false_spec m g.id h
    have hnot : acc.any (fun x => x.id == (m.get false g.id).1) = false := by
      simp only [List.any_eq_false, beq_iff_eq]
      intro x hx e
      exact h1 (e ▸ hacc x hx)
    simp only [assignGroups, hnot, Bool.false_eq_true, if_false]
    have hacc' : ∀ x ∈ acc ++ [({ id := (m.get false g.id).1, shown := g.shown, auto := g.auto, color := g.color } : Group)],
        x.id ∈ (m.get false g.id).2.used := by
      intro x hx
      rw [h4]
      simp only [List.mem_append, List.mem_singleton] at hx
      rcases hx with hx | rfl
      · exact List.mem_cons_of_mem _ (hacc x hx)
      · simp
    rw [ih (m.get false g.id).2 _ h3 hacc']
    simp [eraseGroup]

/-- **Renumbering changes ids only.** Whatever `preserve_ids` is, allocation leaves every non-id
field alone (an empty logical position becomes `[0 <new id>]`, as the constructor does); without
`preserve_ids` no group is lost either (their fresh ids never collide in the `groups` dict). -/
theorem assignIds_content (p : Bool) (m : VMap) :
    eraseVisL (assignIds p m).vis = eraseVisL m.vis ∧
    eraseEnt (assignIds p m).spawn = eraseEnt m.spawn ∧
    (assignIds p m).ents.map eraseEnt = m.ents.map eraseEnt ∧
    (p = false → (assignIds p m).groups.map eraseGroup = m.groups.map eraseGroup) ∧
    (assignIds p m).cams = m.cams ∧ (assignIds p m).cordons = m.cordons ∧ (assignIds p m).views = m.views ∧
    (assignIds p m).mapVer = m.mapVer ∧ (assignIds p m).quickhide = m.quickhide := by
  refine ⟨?_, ?_, ?_, ?_, rfl, rfl, rfl, rfl, rfl⟩
  · simp only [assignIds]; exact assignVisList_erase p m.vis _
  · simp only [assignIds]; exact (assignEnt_erase p m.spawn _).1
  · simp only [assignIds]; exact assignEnts_erase p m.ents _
  · intro hp
    subst hp
    simp only [assignIds]
    have := assignGroups_erase m.groups {} [] inv_default (by simp)
    simpa using this


end C06
