import Srctools.Model.C16Lazy

/-!
# C16 (iii) — correctness of the lazily parsed engine database

Proofs about the state machine of `Srctools/Model/C16Lazy.lean` (`getEntS / parseBlock / resolveAll /
resolveBases`, `getEnt`, `loadAll`).  States contain functions, so they are always compared pointwise.

The core is a DFS-style invariant `Inv S p Pend s`, parameterised by the set `Pend` of class names whose
bases are still waiting to be resolved (entities of blocks that are on the `_parse_block` recursion stack),
and one induction on the fuel for `getEntS` and `parseBlock` simultaneously (`main`).
-/
namespace C16.Lazy

/-! ## Static notions -/

/-- Raw entity `r` is stored in block `i`. -/
def InBlock (S : Static) (i : Nat) (r : RawEnt) : Prop :=
  ∃ ents, S.blocks[i]? = some ents ∧ r ∈ ents

/-- All class names of the database (without CBaseEntity). -/
def names (S : Static) : List Name := S.blocks.flatten.map (·.name)

/-- Well-formedness: class names unique, CBaseEntity is not in a block, every base exists. -/
structure WF (S : Static) : Prop where
  nodup : (names S).Nodup
  cbase : S.cbase ∉ names S
  bases : ∀ r ∈ S.blocks.flatten, ∀ b ∈ r.bases, b ∈ names S

/-- The raw entity of a class name. -/
def raw (S : Static) (n : Name) : Option RawEnt := S.blocks.flatten.find? (fun r => r.name == n)

/-- Index of the block holding a class name. -/
def blockOf (S : Static) (n : Name) : Option Nat :=
  S.blocks.findIdx? (fun b => b.any (fun r => r.name == n))

/-- The fully resolved entity object. -/
def final (S : Static) (r : RawEnt) : Slot :=
  .ent ⟨r.name, r.payload, if r.bases.isEmpty then .ents [S.cbase] else .ents r.bases⟩

/-- The CBaseEntity object. -/
def cbaseSlot (S : Static) (p : Nat) : Slot := .ent ⟨S.cbase, p, .ents []⟩

theorem InBlock.lt {S : Static} {i : Nat} {r : RawEnt} (h : InBlock S i r) : i < S.blocks.length := by
  obtain ⟨ents, he, _⟩ := h
  exact (List.getElem?_eq_some_iff.mp he).1

theorem InBlock.mem_flatten {S : Static} {i : Nat} {r : RawEnt} (h : InBlock S i r) :
    r ∈ S.blocks.flatten := by
  obtain ⟨ents, he, hr⟩ := h
  exact List.mem_flatten.mpr ⟨ents, List.mem_of_getElem? he, hr⟩

theorem InBlock.name_mem {S : Static} {i : Nat} {r : RawEnt} (h : InBlock S i r) :
    r.name ∈ names S :=
  List.mem_map.mpr ⟨r, h.mem_flatten, rfl⟩

theorem mem_names_iff {S : Static} {n : Name} :
    n ∈ names S ↔ ∃ i r, InBlock S i r ∧ r.name = n := by
  constructor
  · intro h
    obtain ⟨r, hr, rfl⟩ := List.mem_map.mp h
    obtain ⟨ents, he, hr'⟩ := List.mem_flatten.mp hr
    obtain ⟨i, hi⟩ := List.mem_iff_getElem?.mp he
    exact ⟨i, r, ⟨ents, hi, hr'⟩, rfl⟩
  · rintro ⟨i, r, h, rfl⟩
    exact h.name_mem

theorem nodup_map_inj {α β : Type} (f : α → β) :
    ∀ (l : List α), (l.map f).Nodup → ∀ x y, x ∈ l → y ∈ l → f x = f y → x = y := by
  intro l
  induction l with
  | nil => intro _ x y hx; simp at hx
  | cons c cs ih =>
    intro hnd x y hx hy hxy
    rw [List.map_cons, List.nodup_cons] at hnd
    obtain ⟨hc, hcs⟩ := hnd
    rcases List.mem_cons.mp hx with rfl | hx'
    · rcases List.mem_cons.mp hy with rfl | hy'
      · rfl
      · exact absurd (hxy ▸ List.mem_map.mpr ⟨y, hy', rfl⟩) hc
    · rcases List.mem_cons.mp hy with rfl | hy'
      · exact absurd (hxy ▸ List.mem_map.mpr ⟨x, hx', rfl⟩) hc
      · exact ih hcs x y hx' hy' hxy

/-- Uniqueness of class names, in the form used everywhere. -/
theorem uniq_aux {α β : Type} (f : α → β) :
    ∀ (bl : List (List α)), (bl.flatten.map f).Nodup →
      ∀ (i j : Nat) (a b : List α) (x y : α), bl[i]? = some a → bl[j]? = some b → x ∈ a → y ∈ b →
        f x = f y → i = j ∧ x = y := by
  intro bl
  induction bl with
  | nil => intro _ i j a b x y ha; simp at ha
  | cons c cs ih =>
    intro hnd i j a b x y ha hb hx hy hxy
    rw [List.flatten_cons, List.map_append, List.nodup_append] at hnd
    obtain ⟨hc, hcs, hdis⟩ := hnd
    cases i with
    | zero =>
      cases j with
      | zero =>
        simp at ha hb
        subst ha hb
        refine ⟨rfl, ?_⟩
        exact nodup_map_inj f _ hc x y hx hy hxy
      | succ j =>
        exfalso
        simp at ha hb
        subst ha
        have h1 : f x ∈ c.map f := List.mem_map.mpr ⟨x, hx, rfl⟩
        have h2 : f y ∈ cs.flatten.map f :=
          List.mem_map.mpr ⟨y, List.mem_flatten.mpr ⟨b, List.mem_of_getElem? hb, hy⟩, rfl⟩
        exact hdis _ h1 _ h2 hxy
    | succ i =>
      cases j with
      | zero =>
        exfalso
        simp at ha hb
        subst hb
        have h1 : f y ∈ c.map f := List.mem_map.mpr ⟨y, hy, rfl⟩
        have h2 : f x ∈ cs.flatten.map f :=
          List.mem_map.mpr ⟨x, List.mem_flatten.mpr ⟨a, List.mem_of_getElem? ha, hx⟩, rfl⟩
        exact hdis _ h1 _ h2 hxy.symm
      | succ j =>
        simp at ha hb
        obtain ⟨h1, h2⟩ := ih hcs i j a b x y ha hb hx hy hxy
        exact ⟨by omega, h2⟩

theorem uniq {S : Static} (wf : WF S) {i j : Nat} {r r' : RawEnt}
    (h : InBlock S i r) (h' : InBlock S j r') (hn : r.name = r'.name) : i = j ∧ r = r' := by
  obtain ⟨a, ha, hr⟩ := h
  obtain ⟨b, hb, hr'⟩ := h'
  exact uniq_aux (fun r : RawEnt => r.name) S.blocks wf.nodup i j a b r r' ha hb hr hr' hn

theorem cbase_ne {S : Static} (wf : WF S) {i : Nat} {r : RawEnt} (h : InBlock S i r) :
    r.name ≠ S.cbase := fun e => wf.cbase (e ▸ h.name_mem)

theorem base_exists {S : Static} (wf : WF S) {i : Nat} {r : RawEnt} (h : InBlock S i r)
    {b : Name} (hb : b ∈ r.bases) : ∃ j r', InBlock S j r' ∧ r'.name = b :=
  mem_names_iff.mp (wf.bases r h.mem_flatten b hb)

/-! ## Counting the unparsed blocks -/

/-- Number of `i < k` with `p i = false`. -/
def cnt (p : Nat → Bool) : Nat → Nat
  | 0 => 0
  | k + 1 => cnt p k + (if p k then 0 else 1)

/-- Number of blocks not yet parsed. -/
def U (S : Static) (s : State) : Nat := cnt s.parsed S.blocks.length

theorem cnt_le (p : Nat → Bool) (k : Nat) : cnt p k ≤ k := by
  induction k with
  | zero => simp [cnt]
  | succ k ih => simp only [cnt]; split <;> omega

theorem cnt_step_le (p : Nat → Bool) (k : Nat) : cnt p (k + 1) ≤ cnt p k + 1 := by
  simp only [cnt]; split <;> omega

theorem cnt_succ_true {p : Nat → Bool} {k : Nat} (h : p k = true) : cnt p (k + 1) = cnt p k := by
  simp [cnt, h]

theorem cnt_succ_false {p : Nat → Bool} {k : Nat} (h : p k = false) :
    cnt p (k + 1) = cnt p k + 1 := by
  simp [cnt, h]

theorem cnt_mono {p q : Nat → Bool} (h : ∀ i, p i = true → q i = true) (k : Nat) :
    cnt q k ≤ cnt p k := by
  induction k with
  | zero => simp [cnt]
  | succ k ih =>
    cases hp : p k with
    | true => rw [cnt_succ_true hp, cnt_succ_true (h k hp)]; exact ih
    | false =>
      rw [cnt_succ_false hp]
      have := cnt_step_le q k
      omega

theorem cnt_set {p : Nat → Bool} {j : Nat} (hj : p j = false) :
    ∀ k, j < k → cnt (fun x => if x = j then true else p x) k + 1 ≤ cnt p k := by
  intro k
  induction k with
  | zero => intro h; omega
  | succ k ih =>
    intro hk
    by_cases hjk : j = k
    · subst hjk
      have := cnt_mono (p := p) (q := fun x => if x = j then true else p x)
        (by intro i hi; simp [hi]) j
      rw [cnt_succ_false hj, cnt_succ_true (by simp)]
      omega
    · have := ih (by omega)
      have hkj : ¬ k = j := fun e => hjk e.symm
      cases hp : p k with
      | true => rw [cnt_succ_true hp, cnt_succ_true (by simp [hp])]; exact this
      | false => rw [cnt_succ_false hp, cnt_succ_false (by simp [hp, hkj])]; omega

theorem cnt_pos {p : Nat → Bool} {j : Nat} (hj : p j = false) : ∀ k, j < k → 1 ≤ cnt p k := by
  intro k hk
  have := cnt_set hj k hk
  omega

theorem U_le (S : Static) (s : State) : U S s ≤ S.blocks.length := cnt_le _ _

theorem U_mono {S : Static} {s s' : State} (h : ∀ i, s.parsed i = true → s'.parsed i = true) :
    U S s' ≤ U S s := cnt_mono h _

theorem U_pos {S : Static} {s : State} {j : Nat} (hj : s.parsed j = false)
    (hl : j < S.blocks.length) : 1 ≤ U S s := cnt_pos hj _ hl

theorem U_setParsed {S : Static} {s : State} {j : Nat} (hj : s.parsed j = false)
    (hl : j < S.blocks.length) : U S (s.setParsed j) + 1 ≤ U S s :=
  cnt_set hj _ hl

/-! ## Elementary state operations -/

@[simp] theorem setSlot_parsed (s : State) (n : Name) (v : Slot) : (s.setSlot n v).parsed = s.parsed := rfl
@[simp] theorem setSlot_slot (s : State) (n : Name) (v : Slot) (m : Name) :
    (s.setSlot n v).slot m = if m = n then some v else s.slot m := rfl
@[simp] theorem setParsed_slot (s : State) (i : Nat) : (s.setParsed i).slot = s.slot := rfl
@[simp] theorem setParsed_parsed (s : State) (i j : Nat) :
    (s.setParsed i).parsed j = if j = i then true else s.parsed j := rfl

theorem setBases_parsed (s : State) (n : Name) (b : Bases) : (s.setBases n b).parsed = s.parsed := by
  unfold State.setBases; split <;> rfl

theorem setBases_slot_ne (s : State) (n : Name) (b : Bases) {m : Name} (h : m ≠ n) :
    (s.setBases n b).slot m = s.slot m := by
  unfold State.setBases; split <;> simp [h]

theorem setBases_slot_self (s : State) (n : Name) (b : Bases) {e : PEnt}
    (h : s.slot n = some (.ent e)) :
    (s.setBases n b).slot n = some (.ent { e with bases := b }) := by
  unfold State.setBases; rw [h]; simp

theorem insertEnt_parsed (S : Static) (s : State) (r : RawEnt) : (insertEnt S s r).parsed = s.parsed := rfl

theorem insertEnt_slot (S : Static) (s : State) (r : RawEnt) (m : Name) :
    (insertEnt S s r).slot m =
      if m = r.name then
        some (.ent ⟨r.name, r.payload, if r.bases.isEmpty then .ents [S.cbase] else .names r.bases⟩)
      else s.slot m := rfl

theorem foldl_insert_parsed (S : Static) : ∀ (ents : List RawEnt) (s : State),
    (ents.foldl (insertEnt S) s).parsed = s.parsed := by
  intro ents
  induction ents with
  | nil => intro s; rfl
  | cons x xs ih => intro s; rw [List.foldl_cons, ih, insertEnt_parsed]

theorem foldl_insert_notin (S : Static) (m : Name) : ∀ (ents : List RawEnt) (s : State),
    (∀ r ∈ ents, r.name ≠ m) → (ents.foldl (insertEnt S) s).slot m = s.slot m := by
  intro ents
  induction ents with
  | nil => intro s _; rfl
  | cons x xs ih =>
    intro s h
    rw [List.foldl_cons, ih _ (fun r hr => h r (List.mem_cons_of_mem _ hr)), insertEnt_slot]
    have : m ≠ x.name := fun e => h x (List.mem_cons_self) e.symm
    simp [this]

theorem foldl_insert_in (S : Static) (r : RawEnt) : ∀ (ents : List RawEnt) (s : State),
    (∀ r' ∈ ents, r'.name = r.name → r' = r) → r ∈ ents →
    (ents.foldl (insertEnt S) s).slot r.name =
      some (.ent ⟨r.name, r.payload, if r.bases.isEmpty then .ents [S.cbase] else .names r.bases⟩) := by
  intro ents
  induction ents with
  | nil => intro s _ h; simp at h
  | cons x xs ih =>
    intro s hu hr
    rw [List.foldl_cons]
    by_cases hx : ∃ r' ∈ xs, r'.name = r.name
    · obtain ⟨r', hr', hn⟩ := hx
      have : r' = r := hu r' (List.mem_cons_of_mem _ hr') hn
      subst this
      exact ih _ (fun r'' h'' => hu r'' (List.mem_cons_of_mem _ h'')) hr'
    · have hnot : ∀ r' ∈ xs, r'.name ≠ r.name := fun r' h' e => hx ⟨r', h', e⟩
      rw [foldl_insert_notin S _ xs _ hnot]
      rcases List.mem_cons.mp hr with rfl | hr'
      · rw [insertEnt_slot]; simp
      · exact absurd rfl (hnot r hr')

/-! ## The invariant -/

/-- `Pend` extended by the names of a to-do list. -/
def PendL (Pend : Name → Prop) (rs : List RawEnt) (n : Name) : Prop := Pend n ∨ ∃ r ∈ rs, r.name = n

/-- The unresolved form of an inserted entity (bases still strings). -/
def unres (r : RawEnt) : Slot := .ent ⟨r.name, r.payload, .names r.bases⟩

/-- Invariant of all states occurring during the recursion.  `Pend` is the set of class names that may
still carry string bases (their `_parse_block` call is still running). -/
structure Inv (S : Static) (p : Nat) (Pend : Name → Prop) (s : State) : Prop where
  unparsed : ∀ i r, InBlock S i r → s.parsed i = false → s.slot r.name = some (.block i)
  parsed : ∀ i r, InBlock S i r → s.parsed i = true →
    s.slot r.name = some (final S r) ∨ (Pend r.name ∧ r.bases ≠ [] ∧ s.slot r.name = some (unres r))
  closed : ∀ i r, InBlock S i r → s.parsed i = true → ¬ Pend r.name →
    ∀ b ∈ r.bases, ∀ j r', InBlock S j r' → r'.name = b → s.parsed j = true
  cbase : s.slot S.cbase = some (cbaseSlot S p)
  other : ∀ n, n ∉ names S → n ≠ S.cbase → s.slot n = none
  range : ∀ j, S.blocks.length ≤ j → s.parsed j = false

theorem Inv.congr {S : Static} {p : Nat} {P Q : Name → Prop} {s : State}
    (h : ∀ n, P n ↔ Q n) (hi : Inv S p P s) : Inv S p Q s where
  unparsed := hi.unparsed
  parsed := fun i r hr hp => by
    rcases hi.parsed i r hr hp with h1 | ⟨h1, h2, h3⟩
    · exact Or.inl h1
    · exact Or.inr ⟨(h _).mp h1, h2, h3⟩
  closed := fun i r hr hp hq => hi.closed i r hr hp (fun hP => hq ((h _).mp hP))
  cbase := hi.cbase
  other := hi.other
  range := hi.range

/-- The block of class `n` (if `n` is in the database) is parsed. -/
def Comp (S : Static) (n : Name) (s : State) : Prop :=
  ∀ j r, InBlock S j r → r.name = n → s.parsed j = true

/-- Parsed flags only ever go from false to true. -/
def Mono (s s' : State) : Prop := ∀ i, s.parsed i = true → s'.parsed i = true

theorem Mono.refl (s : State) : Mono s s := fun _ h => h
theorem Mono.trans {a b c : State} (h1 : Mono a b) (h2 : Mono b c) : Mono a c :=
  fun i h => h2 i (h1 i h)

theorem Comp.mono {S : Static} {n : Name} {s s' : State} (h : Comp S n s) (hm : Mono s s') :
    Comp S n s' := fun j r hr hn => hm j (h j r hr hn)

/-- With no unparsed block left every class is complete. -/
theorem comp_of_U_zero {S : Static} {s : State} (h : U S s = 0) (n : Name) : Comp S n s := by
  intro j r hr _
  cases hp : s.parsed j with
  | true => rfl
  | false => have := U_pos hp hr.lt; omega

/-! ## The two state changes of `_parse_block` preserve the invariant -/

theorem final_of_ne (S : Static) {r : RawEnt} (h : r.bases ≠ []) :
    final S r = .ent ⟨r.name, r.payload, .ents r.bases⟩ := by
  have : r.bases.isEmpty = false := by
    cases hb : r.bases with
    | nil => exact absurd hb h
    | cons _ _ => rfl
  simp [final, this]

theorem final_of_nil (S : Static) {r : RawEnt} (h : r.bases = []) :
    final S r = .ent ⟨r.name, r.payload, .ents [S.cbase]⟩ := by
  simp [final, h]

/-- First loop of `_parse_block` followed by marking the block as parsed. -/
theorem insert_phase {S : Static} (wf : WF S) {p : Nat} {Pend : Name → Prop} {s : State} {i : Nat}
    {ents : List RawEnt} (hinv : Inv S p Pend s) (hi : s.parsed i = false)
    (he : S.blocks[i]? = some ents) :
    Inv S p (PendL Pend (ents.filter fun r => !r.bases.isEmpty))
      ((ents.foldl (insertEnt S) s).setParsed i) := by
  have hin : ∀ r, r ∈ ents → InBlock S i r := fun r hr => ⟨ents, he, hr⟩
  have hmem : ∀ {j r}, InBlock S j r → j = i → r ∈ ents := by
    intro j r hr hj
    subst hj
    obtain ⟨e', he', hr'⟩ := hr
    rw [he] at he'
    cases he'
    exact hr'
  -- slots of classes outside the block are untouched
  have hout : ∀ m, (∀ r ∈ ents, r.name ≠ m) →
      ((ents.foldl (insertEnt S) s).setParsed i).slot m = s.slot m := by
    intro m hm
    rw [setParsed_slot, foldl_insert_notin S m ents s hm]
  have hother : ∀ {j r}, InBlock S j r → j ≠ i → ∀ r' ∈ ents, r'.name ≠ r.name := by
    intro j r hr hj r' hr' e
    exact hj (uniq wf hr (hin r' hr') e.symm).1
  have hself : ∀ r ∈ ents, ((ents.foldl (insertEnt S) s).setParsed i).slot r.name =
      some (.ent ⟨r.name, r.payload, if r.bases.isEmpty then .ents [S.cbase] else .names r.bases⟩) := by
    intro r hr
    rw [setParsed_slot]
    exact foldl_insert_in S r ents s
      (fun r' hr' e => (uniq wf (hin r' hr') (hin r hr) e).2) hr
  have hpar : ∀ j, ((ents.foldl (insertEnt S) s).setParsed i).parsed j =
      if j = i then true else s.parsed j := by
    intro j
    rw [setParsed_parsed, foldl_insert_parsed]
  refine ⟨?_, ?_, ?_, ?_, ?_, ?_⟩
  · intro j r hr hp
    rw [hpar] at hp
    by_cases hj : j = i
    · simp [hj] at hp
    · simp only [hj, if_false] at hp
      rw [hout _ (hother hr hj)]
      exact hinv.unparsed j r hr hp
  · intro j r hr hp
    rw [hpar] at hp
    by_cases hj : j = i
    · have hre := hmem hr hj
      rw [hself r hre]
      cases hb : r.bases with
      | nil => left; rw [final_of_nil S hb]; simp
      | cons b bs =>
        right
        have hne : r.bases ≠ [] := by rw [hb]; simp
        refine ⟨Or.inr ⟨r, ?_, rfl⟩, by simp, ?_⟩
        · rw [List.mem_filter]; exact ⟨hre, by simp [hb]⟩
        · simp [unres, hb]
    · simp only [hj, if_false] at hp
      rw [hout _ (hother hr hj)]
      rcases hinv.parsed j r hr hp with h1 | ⟨h1, h2, h3⟩
      · exact Or.inl h1
      · exact Or.inr ⟨Or.inl h1, h2, h3⟩
  · intro j r hr hp hnp b hb j' r' hr' hn
    rw [hpar] at hp
    rw [hpar]
    by_cases hj : j = i
    · exfalso
      apply hnp
      refine Or.inr ⟨r, ?_, rfl⟩
      rw [List.mem_filter]
      refine ⟨hmem hr hj, ?_⟩
      cases hbb : r.bases with
      | nil => rw [hbb] at hb; simp at hb
      | cons _ _ => rfl
    · simp only [hj, if_false] at hp
      have := hinv.closed j r hr hp (fun h => hnp (Or.inl h)) b hb j' r' hr' hn
      split
      · rfl
      · exact this
  · rw [hout]
    · exact hinv.cbase
    · intro r hr; exact cbase_ne wf (hin r hr)
  · intro n hn hc
    rw [hout]
    · exact hinv.other n hn hc
    · intro r hr e; exact hn (e ▸ (hin r hr).name_mem)
  · intro j hj
    rw [hpar]
    have : i < S.blocks.length := (List.getElem?_eq_some_iff.mp he).1
    have hji : j ≠ i := by omega
    simp only [hji, if_false]
    exact hinv.range j hj

/-- `ent.bases = [...]` for one entity of the to-do list whose bases have all been looked up. -/
theorem setBases_step {S : Static} (wf : WF S) {p : Nat} {Pend : Name → Prop} {r : RawEnt}
    {rs : List RawEnt} {s : State} {i : Nat}
    (hinv : Inv S p (PendL Pend (r :: rs)) s) (hr : InBlock S i r) (hp : s.parsed i = true)
    (hb : r.bases ≠ []) (hc : ∀ b ∈ r.bases, Comp S b s) :
    Inv S p (PendL Pend rs) (s.setBases r.name (.ents r.bases)) := by
  have hself : (s.setBases r.name (.ents r.bases)).slot r.name = some (final S r) := by
    rcases hinv.parsed i r hr hp with h1 | ⟨_, _, h3⟩
    · rw [setBases_slot_self _ _ _ (by rw [h1]; rfl), final_of_ne S hb]
    · rw [setBases_slot_self _ _ _ (by rw [h3]; rfl), final_of_ne S hb]
  have hne : ∀ m, m ≠ r.name → (s.setBases r.name (.ents r.bases)).slot m = s.slot m :=
    fun m hm => setBases_slot_ne _ _ _ hm
  have hpar : (s.setBases r.name (.ents r.bases)).parsed = s.parsed := setBases_parsed _ _ _
  refine ⟨?_, ?_, ?_, ?_, ?_, ?_⟩
  · intro j r0 hr0 hp0
    rw [hpar] at hp0
    have : r0.name ≠ r.name := by
      intro e
      have := (uniq wf hr0 hr e).1
      subst this
      rw [hp] at hp0; cases hp0
    rw [hne _ this]
    exact hinv.unparsed j r0 hr0 hp0
  · intro j r0 hr0 hp0
    rw [hpar] at hp0
    by_cases e : r0.name = r.name
    · have := (uniq wf hr0 hr e).2
      subst this
      exact Or.inl hself
    · rw [hne _ e]
      rcases hinv.parsed j r0 hr0 hp0 with h1 | ⟨h1, h2, h3⟩
      · exact Or.inl h1
      · refine Or.inr ⟨?_, h2, h3⟩
        rcases h1 with h1 | ⟨r1, hr1, hn1⟩
        · exact Or.inl h1
        · rcases List.mem_cons.mp hr1 with rfl | hr1'
          · exact absurd hn1.symm e
          · exact Or.inr ⟨r1, hr1', hn1⟩
  · intro j r0 hr0 hp0 hnp b hb0 j' r' hr' hn
    rw [hpar] at hp0
    rw [hpar]
    by_cases e : r0.name = r.name
    · have := (uniq wf hr0 hr e).2
      subst this
      exact hc b hb0 j' r' hr' hn
    · refine hinv.closed j r0 hr0 hp0 ?_ b hb0 j' r' hr' hn
      rintro (h1 | ⟨r1, hr1, hn1⟩)
      · exact hnp (Or.inl h1)
      · rcases List.mem_cons.mp hr1 with rfl | hr1'
        · exact e hn1.symm
        · exact hnp (Or.inr ⟨r1, hr1', hn1⟩)
  · rw [hne _ (fun e => cbase_ne wf hr e.symm)]
    exact hinv.cbase
  · intro n hn hcb
    rw [hne _ (fun e : n = r.name => hn (e ▸ hr.name_mem))]
    exact hinv.other n hn hcb
  · intro j hj
    rw [hpar]
    exact hinv.range j hj

/-! ## The main induction on the fuel -/

/-- Specification of `getEntS` at a given fuel. -/
def GetSpec (S : Static) (p : Nat) (f : Nat) : Prop :=
  ∀ (Pend : Name → Prop) (n : Name) (s : State), Inv S p Pend s → 2 * U S s ≤ f →
    Inv S p Pend (getEntS S f n s) ∧ Mono s (getEntS S f n s) ∧ Comp S n (getEntS S f n s)

/-- Specification of `parseBlock` at a given fuel. -/
def ParseSpec (S : Static) (p : Nat) (f : Nat) : Prop :=
  ∀ (Pend : Name → Prop) (i : Nat) (s : State), Inv S p Pend s → 2 * U S s ≤ f + 1 →
    Inv S p Pend (parseBlock S f i s) ∧ Mono s (parseBlock S f i s) ∧
      (i < S.blocks.length → (parseBlock S f i s).parsed i = true)

theorem resolveBases_spec {S : Static} {p f : Nat} (hg : GetSpec S p f) :
    ∀ (bs : List Name) (Pend : Name → Prop) (s : State), Inv S p Pend s → 2 * U S s ≤ f →
      Inv S p Pend (resolveBases S f bs s) ∧ Mono s (resolveBases S f bs s) ∧
        ∀ b ∈ bs, Comp S b (resolveBases S f bs s) := by
  intro bs
  induction bs with
  | nil =>
    intro Pend s hinv _
    rw [resolveBases.eq_1]
    exact ⟨hinv, Mono.refl s, fun b hb => by simp at hb⟩
  | cons b bs ih =>
    intro Pend s hinv hf
    rw [resolveBases.eq_2]
    obtain ⟨h1, h2, h3⟩ := hg Pend b s hinv hf
    have hf' : 2 * U S (getEntS S f b s) ≤ f := by
      have := U_mono (S := S) h2; omega
    obtain ⟨k1, k2, k3⟩ := ih Pend _ h1 hf'
    refine ⟨k1, h2.trans k2, ?_⟩
    intro b' hb'
    rcases List.mem_cons.mp hb' with rfl | hb''
    · exact h3.mono k2
    · exact k3 b' hb''

theorem resolveAll_spec {S : Static} (wf : WF S) {p f : Nat} (hg : GetSpec S p f) :
    ∀ (rs : List RawEnt) (Pend : Name → Prop) (s : State), Inv S p (PendL Pend rs) s →
      (∀ r ∈ rs, r.bases ≠ [] ∧ ∃ i, InBlock S i r ∧ s.parsed i = true) → 2 * U S s ≤ f →
      Inv S p Pend (resolveAll S f rs s) ∧ Mono s (resolveAll S f rs s) := by
  intro rs
  induction rs with
  | nil =>
    intro Pend s hinv _ _
    rw [resolveAll.eq_1]
    refine ⟨hinv.congr ?_, Mono.refl s⟩
    intro n
    simp [PendL]
  | cons r rs ih =>
    intro Pend s hinv hrs hf
    rw [resolveAll.eq_2]
    obtain ⟨hb, i, hr, hp⟩ := hrs r List.mem_cons_self
    obtain ⟨h1, h2, h3⟩ := resolveBases_spec hg r.bases _ s hinv hf
    have hstep := setBases_step wf h1 hr (h2 i hp) hb h3
    have hm : Mono s ((resolveBases S f r.bases s).setBases r.name (.ents r.bases)) := by
      intro j hj
      rw [setBases_parsed]
      exact h2 j hj
    have hf' : 2 * U S ((resolveBases S f r.bases s).setBases r.name (.ents r.bases)) ≤ f := by
      have := U_mono (S := S) hm; omega
    obtain ⟨k1, k2⟩ := ih Pend _ hstep
      (fun r' hr' => by
        obtain ⟨hb', i', hr'', hp'⟩ := hrs r' (List.mem_cons_of_mem _ hr')
        exact ⟨hb', i', hr'', hm i' hp'⟩) hf'
    exact ⟨k1, hm.trans k2⟩

theorem parse_succ {S : Static} (wf : WF S) {p f : Nat} (hg : GetSpec S p f) :
    ParseSpec S p (f + 1) := by
  intro Pend i s hinv hf
  rw [parseBlock.eq_2]
  by_cases hp : s.parsed i = true
  · rw [if_pos hp]
    exact ⟨hinv, Mono.refl s, fun _ => hp⟩
  · rw [if_neg hp]
    have hp' : s.parsed i = false := by simpa using hp
    cases he : S.blocks[i]? with
    | none =>
      refine ⟨hinv, Mono.refl s, fun hi => ?_⟩
      have := List.getElem?_eq_none_iff.mp he
      omega
    | some ents =>
      simp only
      have hil : i < S.blocks.length := (List.getElem?_eq_some_iff.mp he).1
      have h2 := insert_phase wf hinv hp' he
      have hm : Mono s ((ents.foldl (insertEnt S) s).setParsed i) := by
        intro j hj
        rw [setParsed_parsed, foldl_insert_parsed]
        split
        · rfl
        · exact hj
      have hU : U S ((ents.foldl (insertEnt S) s).setParsed i) + 1 ≤ U S s := by
        have := U_setParsed (S := S) (s := ents.foldl (insertEnt S) s) (j := i)
          (by rw [foldl_insert_parsed]; exact hp') hil
        have e : U S (ents.foldl (insertEnt S) s) = U S s := by
          unfold U; rw [foldl_insert_parsed]
        omega
      have hpi : ((ents.foldl (insertEnt S) s).setParsed i).parsed i = true := by simp
      obtain ⟨k1, k2⟩ := resolveAll_spec wf hg _ Pend _ h2
        (fun r hr => by
          rw [List.mem_filter] at hr
          refine ⟨?_, i, ⟨ents, he, hr.1⟩, hpi⟩
          intro e
          have := hr.2
          simp [e] at this) (by omega)
      exact ⟨k1, hm.trans k2, fun _ => k2 i hpi⟩

theorem get_succ {S : Static} {p f : Nat} (hp : ParseSpec S p f) : GetSpec S p (f + 1) := by
  intro Pend n s hinv hf
  rw [getEntS.eq_2]
  have hstay : (∀ i, s.slot n ≠ some (.block i)) → Comp S n s := by
    intro h j r hr hn
    cases hpj : s.parsed j with
    | true => rfl
    | false =>
      have := hinv.unparsed j r hr hpj
      rw [hn] at this
      exact absurd this (h j)
  cases hs : s.slot n with
  | none =>
    exact ⟨hinv, Mono.refl s, hstay (fun i => by rw [hs]; simp)⟩
  | some v =>
    cases v with
    | ent e =>
      exact ⟨hinv, Mono.refl s, hstay (fun i => by rw [hs]; simp)⟩
    | block i =>
      simp only
      obtain ⟨h1, h2, h3⟩ := hp Pend i s hinv hf
      refine ⟨h1, h2, ?_⟩
      intro j r hr hn
      cases hpj : s.parsed j with
      | true => exact h2 j hpj
      | false =>
        have := hinv.unparsed j r hr hpj
        rw [hn, hs] at this
        cases this
        exact h3 hr.lt

theorem main {S : Static} (wf : WF S) (p : Nat) : ∀ f, GetSpec S p f ∧ ParseSpec S p f := by
  intro f
  induction f with
  | zero =>
    constructor
    · intro Pend n s hinv hf
      rw [getEntS.eq_1]
      exact ⟨hinv, Mono.refl s, comp_of_U_zero (by omega) n⟩
    · intro Pend i s hinv hf
      rw [parseBlock.eq_1]
      refine ⟨hinv, Mono.refl s, fun hi => ?_⟩
      cases hp : s.parsed i with
      | true => rfl
      | false => have := U_pos (S := S) hp hi; omega
  | succ f ih =>
    exact ⟨get_succ ih.2, parse_succ wf ih.1⟩

/-! ## The initial state -/

/-- The invariant of the states visible between top-level calls: nothing pending. -/
def Inv0 (S : Static) (p : Nat) (s : State) : Prop := Inv S p (fun _ => False) s

theorem foldlBlock_parsed (i : Nat) : ∀ (b : List RawEnt) (s : State),
    (b.foldl (fun s r => s.setSlot r.name (.block i)) s).parsed = s.parsed := by
  intro b
  induction b with
  | nil => intro s; rfl
  | cons x xs ih => intro s; rw [List.foldl_cons, ih]; rfl

theorem foldlBlock_notin (i : Nat) (m : Name) : ∀ (b : List RawEnt) (s : State),
    (∀ r ∈ b, r.name ≠ m) → (b.foldl (fun s r => s.setSlot r.name (.block i)) s).slot m = s.slot m := by
  intro b
  induction b with
  | nil => intro s _; rfl
  | cons x xs ih =>
    intro s h
    rw [List.foldl_cons, ih _ (fun r hr => h r (List.mem_cons_of_mem _ hr)), setSlot_slot]
    have : m ≠ x.name := fun e => h x List.mem_cons_self e.symm
    simp [this]

theorem foldlBlock_in (i : Nat) (m : Name) : ∀ (b : List RawEnt) (s : State),
    ((∃ r ∈ b, r.name = m) ∨ s.slot m = some (.block i)) →
      (b.foldl (fun s r => s.setSlot r.name (.block i)) s).slot m = some (.block i) := by
  intro b
  induction b with
  | nil =>
    intro s h
    rcases h with ⟨r, hr, _⟩ | h
    · simp at hr
    · exact h
  | cons x xs ih =>
    intro s h
    rw [List.foldl_cons]
    apply ih
    rcases h with ⟨r, hr, hn⟩ | h
    · rcases List.mem_cons.mp hr with rfl | hr'
      · right; simp [hn]
      · left; exact ⟨r, hr', hn⟩
    · right
      rw [setSlot_slot]
      split
      · rfl
      · exact h

theorem go_parsed : ∀ (bs : List (List RawEnt)) (i : Nat) (s : State),
    (initState.go i bs s).parsed = s.parsed := by
  intro bs
  induction bs with
  | nil => intro i s; rw [initState.go.eq_1]
  | cons b rest ih => intro i s; rw [initState.go.eq_2, ih, foldlBlock_parsed]

theorem go_notin (m : Name) : ∀ (bs : List (List RawEnt)) (i : Nat) (s : State),
    (∀ b ∈ bs, ∀ r ∈ b, r.name ≠ m) → (initState.go i bs s).slot m = s.slot m := by
  intro bs
  induction bs with
  | nil => intro i s _; rw [initState.go.eq_1]
  | cons b rest ih =>
    intro i s h
    rw [initState.go.eq_2, ih _ _ (fun b' hb' => h b' (List.mem_cons_of_mem _ hb')),
      foldlBlock_notin _ _ _ _ (h b List.mem_cons_self)]

theorem go_in (r : RawEnt) : ∀ (bs : List (List RawEnt)) (i : Nat) (s : State) (k : Nat)
    (ents : List RawEnt), (bs.flatten.map (fun r : RawEnt => r.name)).Nodup → bs[k]? = some ents →
      r ∈ ents → (initState.go i bs s).slot r.name = some (.block (i + k)) := by
  intro bs
  induction bs with
  | nil => intro i s k ents _ h; simp at h
  | cons b rest ih =>
    intro i s k ents hnd hk hr
    rw [initState.go.eq_2]
    rw [List.flatten_cons, List.map_append, List.nodup_append] at hnd
    obtain ⟨_, hrest, hdis⟩ := hnd
    cases k with
    | zero =>
      simp at hk
      subst hk
      rw [go_notin]
      · exact foldlBlock_in _ _ _ _ (Or.inl ⟨r, hr, rfl⟩)
      · intro b' hb' r' hr' e
        exact hdis _ (List.mem_map.mpr ⟨r, hr, rfl⟩) _
          (List.mem_map.mpr ⟨r', List.mem_flatten.mpr ⟨b', hb', hr'⟩, rfl⟩) e.symm
    | succ k =>
      simp at hk
      rw [ih (i + 1) _ k ents hrest hk hr]
      congr 2
      omega

theorem init_inv {S : Static} (wf : WF S) (p : Nat) : Inv0 S p (initState S p) := by
  have hpar : ∀ j, (initState S p).parsed j = false := by
    intro j
    simp only [initState, setSlot_parsed, go_parsed]
  have hslot : ∀ m, (initState S p).slot m =
      if m = S.cbase then some (cbaseSlot S p)
      else (initState.go 0 S.blocks { parsed := fun _ => false, slot := fun _ => none }).slot m := by
    intro m
    simp only [initState, setSlot_slot, cbaseSlot]
  refine ⟨?_, ?_, ?_, ?_, ?_, ?_⟩
  · intro i r hr _
    rw [hslot, if_neg (cbase_ne wf hr)]
    obtain ⟨ents, he, hre⟩ := hr
    have := go_in r S.blocks 0 { parsed := fun _ => false, slot := fun _ => none } i ents
      wf.nodup he hre
    simpa using this
  · intro i r _ hp
    rw [hpar] at hp; cases hp
  · intro i r _ hp
    rw [hpar] at hp; cases hp
  · rw [hslot, if_pos rfl]
  · intro n hn hc
    rw [hslot, if_neg hc, go_notin]
    intro b hb r hr e
    exact hn (List.mem_map.mpr ⟨r, List.mem_flatten.mpr ⟨b, hb, hr⟩, e⟩)
  · intro j _
    exact hpar j

/-! ## Top-level calls -/

theorem Inv0.slot_unparsed {S : Static} {p : Nat} {s : State} (h : Inv0 S p s) {i : Nat} {r : RawEnt}
    (hr : InBlock S i r) (hp : s.parsed i = false) : s.slot r.name = some (.block i) :=
  h.unparsed i r hr hp

theorem Inv0.slot_parsed {S : Static} {p : Nat} {s : State} (h : Inv0 S p s) {i : Nat} {r : RawEnt}
    (hr : InBlock S i r) (hp : s.parsed i = true) : s.slot r.name = some (final S r) := by
  rcases h.parsed i r hr hp with h1 | ⟨h1, _⟩
  · exact h1
  · exact h1.elim

theorem Inv0.base_parsed {S : Static} {p : Nat} {s : State} (h : Inv0 S p s) {i : Nat} {r : RawEnt}
    (hr : InBlock S i r) (hp : s.parsed i = true) {b : Name} (hb : b ∈ r.bases) : Comp S b s :=
  fun j r' hr' hn => h.closed i r hr hp (fun x => x) b hb j r' hr' hn

theorem getEnt_spec {S : Static} (wf : WF S) {p : Nat} {s : State} (hinv : Inv0 S p s) (q : Name) :
    Inv0 S p (getEnt S s q) ∧ Mono s (getEnt S s q) ∧ Comp S q (getEnt S s q) :=
  (main wf p (fuelFor S)).1 _ q s hinv (by have := U_le S s; unfold fuelFor; omega)

theorem parseBlock_top {S : Static} (wf : WF S) {p : Nat} {s : State} (hinv : Inv0 S p s) (i : Nat) :
    Inv0 S p (parseBlock S (fuelFor S) i s) ∧ Mono s (parseBlock S (fuelFor S) i s) ∧
      (i < S.blocks.length → (parseBlock S (fuelFor S) i s).parsed i = true) :=
  (main wf p (fuelFor S)).2 _ i s hinv (by have := U_le S s; unfold fuelFor; omega)

theorem foldl_spec {S : Static} (wf : WF S) {p : Nat} : ∀ (qs : List Name) (s : State), Inv0 S p s →
    Inv0 S p (qs.foldl (getEnt S) s) ∧ Mono s (qs.foldl (getEnt S) s) ∧
      ∀ q ∈ qs, Comp S q (qs.foldl (getEnt S) s) := by
  intro qs
  induction qs with
  | nil => intro s h; exact ⟨h, Mono.refl s, fun q hq => by simp at hq⟩
  | cons q0 qs ih =>
    intro s h
    rw [List.foldl_cons]
    obtain ⟨h1, h2, h3⟩ := getEnt_spec wf h q0
    obtain ⟨k1, k2, k3⟩ := ih _ h1
    refine ⟨k1, h2.trans k2, ?_⟩
    intro q hq
    rcases List.mem_cons.mp hq with rfl | hq'
    · exact h3.mono k2
    · exact k3 q hq'

theorem parseRemaining_spec {S : Static} (wf : WF S) {p : Nat} : ∀ (k i : Nat) (s : State),
    Inv0 S p s → Inv0 S p (parseRemaining S k i s) ∧ Mono s (parseRemaining S k i s) ∧
      ∀ j, i ≤ j → j < i + k → j < S.blocks.length → (parseRemaining S k i s).parsed j = true := by
  intro k
  induction k with
  | zero =>
    intro i s h
    exact ⟨h, Mono.refl s, fun j h1 h2 => by omega⟩
  | succ k ih =>
    intro i s h
    rw [parseRemaining]
    obtain ⟨h1, h2, h3⟩ := parseBlock_top wf h i
    obtain ⟨k1, k2, k3⟩ := ih (i + 1) _ h1
    refine ⟨k1, h2.trans k2, ?_⟩
    intro j hj1 hj2 hj3
    by_cases e : j = i
    · subst e
      exact k2 _ (h3 hj3)
    · exact k3 j (by omega) (by omega) hj3

theorem applyBases_final (S : Static) (r : RawEnt) :
    applyBasesSlot (some (final S r)) = some (final S r) := by
  cases h : r.bases.isEmpty <;> simp [final, applyBasesSlot, h]

theorem loadAll_parsed (S : Static) (s : State) :
    (loadAll S s).parsed = (parseRemaining S S.blocks.length 0 s).parsed := rfl

theorem loadAll_slot (S : Static) (s : State) (n : Name) :
    (loadAll S s).slot n = applyBasesSlot ((parseRemaining S S.blocks.length 0 s).slot n) := rfl

/-- The state after `get_fgd` is completely determined (pointwise) by the static data. -/
theorem loadAll_of_inv {S : Static} (wf : WF S) {p : Nat} {s : State} (hinv : Inv0 S p s) :
    (∀ i, (loadAll S s).parsed i = decide (i < S.blocks.length)) ∧
    (∀ i r, InBlock S i r → (loadAll S s).slot r.name = some (final S r)) ∧
    (loadAll S s).slot S.cbase = some (cbaseSlot S p) ∧
    (∀ n, n ∉ names S → n ≠ S.cbase → (loadAll S s).slot n = none) := by
  obtain ⟨h1, _, h3⟩ := parseRemaining_spec wf S.blocks.length 0 s hinv
  refine ⟨?_, ?_, ?_, ?_⟩
  · intro i
    rw [loadAll_parsed]
    by_cases hi : i < S.blocks.length
    · rw [h3 i (by omega) (by omega) hi]; simp [hi]
    · rw [h1.range i (by omega)]; simp [hi]
  · intro i r hr
    rw [loadAll_slot, h1.slot_parsed hr (h3 i (by omega) (by have := hr.lt; omega) hr.lt)]
    exact applyBases_final S r
  · rw [loadAll_slot, h1.cbase]; rfl
  · intro n hn hc
    rw [loadAll_slot, h1.other n hn hc]; rfl

/-- A slot whose class is complete already holds the value `get_fgd` would produce. -/
theorem slot_eq_loadAll {S : Static} (wf : WF S) {p : Nat} {s t : State} (hs : Inv0 S p s)
    (ht : Inv0 S p t) {n : Name} (hc : Comp S n s) : s.slot n = (loadAll S t).slot n := by
  obtain ⟨_, l2, l3, l4⟩ := loadAll_of_inv wf ht
  by_cases hn : n ∈ names S
  · obtain ⟨i, r, hr, rfl⟩ := mem_names_iff.mp hn
    rw [l2 i r hr, hs.slot_parsed hr (hc i r hr rfl)]
  · by_cases hcb : n = S.cbase
    · subst hcb
      rw [l3, hs.cbase]
    · rw [l4 n hn hcb, hs.other n hn hcb]

/-- Names reachable from `q` by following bases (`CBaseEntity` for classes without bases). -/
inductive Reach (S : Static) (q : Name) : Name → Prop
  | refl : Reach S q q
  | base {m b : Name} {i : Nat} {r : RawEnt} :
      Reach S q m → InBlock S i r → r.name = m → b ∈ r.bases → Reach S q b
  | cbase {m : Name} {i : Nat} {r : RawEnt} :
      Reach S q m → InBlock S i r → r.name = m → r.bases = [] → Reach S q S.cbase

theorem reach_comp {S : Static} (wf : WF S) {p : Nat} {s : State} (hs : Inv0 S p s) {q n : Name}
    (hq : Comp S q s) (h : Reach S q n) : Comp S n s := by
  induction h with
  | refl => exact hq
  | base _ hr hn hb ih => exact hs.base_parsed hr (ih _ _ hr hn) hb
  | cbase _ _ _ _ _ =>
    intro j r' hr' hn'
    exact absurd hn' (cbase_ne wf hr')

theorem getEntS_noblock (S : Static) (f : Nat) (n : Name) (s : State)
    (h : ∀ i, s.slot n ≠ some (.block i)) : getEntS S f n s = s := by
  cases f with
  | zero => rw [getEntS.eq_1]
  | succ f =>
    rw [getEntS.eq_2]
    cases hs : s.slot n with
    | none => rfl
    | some v =>
      cases v with
      | ent e => rfl
      | block i => exact absurd hs (h i)

theorem noblock_of_comp {S : Static} {p : Nat} {s : State} (hs : Inv0 S p s) {n : Name}
    (hc : Comp S n s) : ∀ i, s.slot n ≠ some (.block i) := by
  intro i hi
  by_cases hn : n ∈ names S
  · obtain ⟨j, r, hr, rfl⟩ := mem_names_iff.mp hn
    rw [hs.slot_parsed hr (hc j r hr rfl)] at hi
    simp [final] at hi
  · by_cases hcb : n = S.cbase
    · subst hcb
      rw [hs.cbase] at hi
      simp [cbaseSlot] at hi
    · rw [hs.other n hn hcb] at hi
      cases hi

/-! ## `raw` and `blockOf` -/

theorem raw_eq_some {S : Static} (wf : WF S) {i : Nat} {r : RawEnt} (h : InBlock S i r) :
    raw S r.name = some r := by
  unfold raw
  cases hf : S.blocks.flatten.find? (fun r' => r'.name == r.name) with
  | none =>
    have := List.find?_eq_none.mp hf r h.mem_flatten
    simp at this
  | some r' =>
    have hn : r'.name = r.name := by simpa using List.find?_some hf
    have hm : r' ∈ S.blocks.flatten := List.mem_of_find?_eq_some hf
    obtain ⟨j, r'', hr'', e⟩ := mem_names_iff.mp (List.mem_map.mpr ⟨r', hm, rfl⟩)
    have e1 : r'' = r := (uniq wf hr'' h (e.trans hn)).2
    have : r'.name ∈ names S := List.mem_map.mpr ⟨r', hm, rfl⟩
    obtain ⟨ents, he, hre⟩ := List.mem_flatten.mp hm
    obtain ⟨k, hk⟩ := List.mem_iff_getElem?.mp he
    rw [(uniq wf (⟨ents, hk, hre⟩ : InBlock S k r') h hn).2]

theorem raw_some {S : Static} {n : Name} {r : RawEnt} (h : raw S n = some r) :
    r.name = n ∧ ∃ i, InBlock S i r := by
  unfold raw at h
  have hn : r.name = n := by simpa using List.find?_some h
  have hm : r ∈ S.blocks.flatten := List.mem_of_find?_eq_some h
  obtain ⟨ents, he, hre⟩ := List.mem_flatten.mp hm
  obtain ⟨k, hk⟩ := List.mem_iff_getElem?.mp he
  exact ⟨hn, k, ents, hk, hre⟩

theorem raw_none {S : Static} {n : Name} (h : raw S n = none) : n ∉ names S := by
  unfold raw at h
  intro hn
  obtain ⟨r, hr, e⟩ := List.mem_map.mp hn
  have := List.find?_eq_none.mp h r hr
  simp at this
  exact this e

theorem blockOf_eq_some {S : Static} (wf : WF S) {i : Nat} {r : RawEnt} (h : InBlock S i r) :
    blockOf S r.name = some i := by
  unfold blockOf
  rw [List.findIdx?_eq_some_iff_getElem]
  obtain ⟨ents, he, hre⟩ := h
  obtain ⟨hi, hget⟩ := List.getElem?_eq_some_iff.mp he
  refine ⟨hi, ?_, ?_⟩
  · rw [hget, List.any_eq_true]
    exact ⟨r, hre, by simp⟩
  · intro j hji hany
    rw [List.any_eq_true] at hany
    obtain ⟨r', hr', e⟩ := hany
    have e' : r'.name = r.name := by simpa using e
    have hj : InBlock S j r' := ⟨S.blocks[j], List.getElem?_eq_getElem (by omega), hr'⟩
    have := (uniq wf hj ⟨ents, he, hre⟩ e').1
    omega

/-- `raw`/`blockOf` determine the `InBlock` relation. -/
theorem inBlock_of_raw {S : Static} (wf : WF S) {n : Name} {r : RawEnt} {i : Nat}
    (hr : raw S n = some r) (hb : blockOf S n = some i) : InBlock S i r ∧ r.name = n := by
  obtain ⟨hn, j, hj⟩ := raw_some hr
  have := blockOf_eq_some wf hj
  rw [hn, hb] at this
  cases this
  exact ⟨hj, hn⟩

/-! ## The theorems -/

section Theorems
variable {S : Static} (wf : WF S) (p : Nat)
include wf

/-- Every state reachable by top-level `get_ent` calls satisfies the invariant. -/
theorem reachable_inv (qs : List Name) : Inv0 S p (qs.foldl (getEnt S) (initState S p)) :=
  (foldl_spec wf qs _ (init_inv wf p)).1

/-- (A) Slots of a reachable state: classes of unparsed blocks point at their block, classes of parsed
blocks hold the fully resolved entity, and all their bases lie in parsed blocks. -/
theorem lazy_slot_spec (qs : List Name) {i : Nat} {r : RawEnt} (hr : InBlock S i r) :
    let s := qs.foldl (getEnt S) (initState S p)
    (s.parsed i = false → s.slot r.name = some (.block i)) ∧
    (s.parsed i = true → s.slot r.name = some (final S r) ∧
      (∀ b ∈ r.bases, ∃ j r', InBlock S j r' ∧ r'.name = b ∧ s.parsed j = true) ∧
      (∀ b ∈ r.bases, ∀ j r', InBlock S j r' → r'.name = b → s.parsed j = true)) := by
  intro s
  have hs : Inv0 S p s := reachable_inv wf p qs
  refine ⟨hs.slot_unparsed hr, fun hp => ⟨hs.slot_parsed hr hp, ?_, ?_⟩⟩
  · intro b hb
    obtain ⟨j, r', hr', hn⟩ := base_exists wf hr hb
    exact ⟨j, r', hr', hn, hs.base_parsed hr hp hb j r' hr' hn⟩
  · intro b hb
    exact hs.base_parsed hr hp hb

/-- (A) in terms of `raw` / `blockOf`. -/
theorem lazy_slot_spec' (qs : List Name) {n : Name} {r : RawEnt} {i : Nat}
    (hr : raw S n = some r) (hb : blockOf S n = some i) :
    let s := qs.foldl (getEnt S) (initState S p)
    (s.parsed i = false → s.slot n = some (.block i)) ∧
    (s.parsed i = true → s.slot n = some (final S r) ∧
      ∀ b ∈ r.bases, ∃ j, blockOf S b = some j ∧ s.parsed j = true) := by
  intro s
  obtain ⟨hin, rfl⟩ := inBlock_of_raw wf hr hb
  obtain ⟨h1, h2⟩ := lazy_slot_spec wf p qs hin
  refine ⟨h1, fun hp => ⟨(h2 hp).1, fun b hb' => ?_⟩⟩
  obtain ⟨j, r', hr', hn, hpj⟩ := (h2 hp).2.1 b hb'
  exact ⟨j, hn ▸ blockOf_eq_some wf hr', hpj⟩

/-- (A) CBaseEntity is never touched. -/
theorem lazy_cbase_slot (qs : List Name) :
    (qs.foldl (getEnt S) (initState S p)).slot S.cbase = some (.ent ⟨S.cbase, p, .ents []⟩) :=
  (reachable_inv wf p qs).cbase

/-- (A) Names that are not in the database never get a slot. -/
theorem lazy_unknown_slot (qs : List Name) {n : Name} (hn : n ∉ names S) (hc : n ≠ S.cbase) :
    (qs.foldl (getEnt S) (initState S p)).slot n = none :=
  (reachable_inv wf p qs).other n hn hc

/-- (A) Only existing blocks are ever marked as parsed. -/
theorem lazy_parsed_range (qs : List Name) {j : Nat} (hj : S.blocks.length ≤ j) :
    (qs.foldl (getEnt S) (initState S p)).parsed j = false :=
  (reachable_inv wf p qs).range j hj

/-- (B) The block of every queried class is parsed, so its slot holds the resolved entity. -/
theorem lazy_query_parsed (qs : List Name) {q : Name} (hq : q ∈ qs) {i : Nat} {r : RawEnt}
    (hr : InBlock S i r) (hn : r.name = q) :
    let s := qs.foldl (getEnt S) (initState S p)
    s.parsed i = true ∧ s.slot q = some (final S r) := by
  intro s
  obtain ⟨h1, _, h3⟩ := foldl_spec wf qs _ (init_inv wf p)
  have hp := h3 q hq i r hr hn
  exact ⟨hp, hn ▸ h1.slot_parsed hr hp⟩

/-- (C) `get_fgd` from any reachable state: all blocks parsed, every class resolved. -/
theorem loadAll_spec (qs : List Name) :
    let t := loadAll S (qs.foldl (getEnt S) (initState S p))
    (∀ i, t.parsed i = decide (i < S.blocks.length)) ∧
    (∀ i r, InBlock S i r → t.slot r.name = some (final S r)) ∧
    t.slot S.cbase = some (.ent ⟨S.cbase, p, .ents []⟩) ∧
    (∀ n, n ∉ names S → n ≠ S.cbase → t.slot n = none) :=
  loadAll_of_inv wf (reachable_inv wf p qs)

/-- (C) in terms of `raw`: the final `ent_map` as a function of the static data alone. -/
theorem loadAll_slot_raw (qs : List Name) (n : Name) :
    (loadAll S (qs.foldl (getEnt S) (initState S p))).slot n =
      match raw S n with
      | some r => some (final S r)
      | none => if n = S.cbase then some (.ent ⟨S.cbase, p, .ents []⟩) else none := by
  obtain ⟨_, l2, l3, l4⟩ := loadAll_spec wf p qs
  cases hr : raw S n with
  | some r =>
    obtain ⟨hn, i, hi⟩ := raw_some hr
    simp only
    rw [← hn]
    exact l2 i r hi
  | none =>
    simp only
    by_cases hc : n = S.cbase
    · rw [if_pos hc, hc]; exact l3
    · rw [if_neg hc]; exact l4 n (raw_none hr) hc

/-- (D) THE PROPERTY: what a lazy lookup sees for a queried class — and for every class reachable from it
through bases — is exactly what the eager `get_fgd` produces. -/
theorem lazy_eq_loadAll_reach (qs : List Name) {q n : Name} (hq : q ∈ qs) (hn : Reach S q n) :
    (qs.foldl (getEnt S) (initState S p)).slot n = (loadAll S (initState S p)).slot n := by
  obtain ⟨h1, _, h3⟩ := foldl_spec wf qs _ (init_inv wf p)
  exact slot_eq_loadAll wf h1 (init_inv wf p) (reach_comp wf h1 (h3 q hq) hn)

/-- (D) for the queried names themselves (including CBaseEntity and unknown names). -/
theorem lazy_eq_loadAll (qs : List Name) {q : Name} (hq : q ∈ qs) :
    (qs.foldl (getEnt S) (initState S p)).slot q = (loadAll S (initState S p)).slot q :=
  lazy_eq_loadAll_reach wf p qs hq .refl

/-- (D) The entities reachable from a queried class are closed under bases inside the parsed part:
following the resolved `bases` of the lazily obtained object never meets an unresolved entity. -/
theorem lazy_reach_resolved (qs : List Name) {q n : Name} (hq : q ∈ qs) (hn : Reach S q n)
    {i : Nat} {r : RawEnt} (hr : InBlock S i r) (hrn : r.name = n) :
    (qs.foldl (getEnt S) (initState S p)).slot n = some (final S r) := by
  obtain ⟨h1, _, h3⟩ := foldl_spec wf qs _ (init_inv wf p)
  exact hrn ▸ h1.slot_parsed hr (reach_comp wf h1 (h3 q hq) hn i r hr hrn)

/-- Corollary: a second `get_ent` of the same class changes nothing (the states are equal). -/
theorem getEnt_idem (qs : List Name) (q : Name) :
    let s := qs.foldl (getEnt S) (initState S p)
    getEnt S (getEnt S s q) q = getEnt S s q := by
  intro s
  obtain ⟨h1, _, h3⟩ := getEnt_spec wf (reachable_inv wf p qs) q
  exact getEntS_noblock S _ q _ (noblock_of_comp h1 h3)

/-- Corollary: querying a class that was queried before changes nothing. -/
theorem getEnt_again (qs : List Name) {q : Name} (hq : q ∈ qs) :
    let s := qs.foldl (getEnt S) (initState S p)
    getEnt S s q = s := by
  intro s
  obtain ⟨h1, _, h3⟩ := foldl_spec wf qs _ (init_inv wf p)
  exact getEntS_noblock S _ q _ (noblock_of_comp h1 (h3 q hq))

/-- Corollary: order independence — two query sequences agree on every class both have asked for
(and on everything reachable from it). -/
theorem lazy_order_indep (qs qs' : List Name) {q n : Name} (hq : q ∈ qs) (hq' : q ∈ qs')
    (hn : Reach S q n) :
    (qs.foldl (getEnt S) (initState S p)).slot n = (qs'.foldl (getEnt S) (initState S p)).slot n := by
  rw [lazy_eq_loadAll_reach wf p qs hq hn, lazy_eq_loadAll_reach wf p qs' hq' hn]

/-- Corollary: permuting the queries does not change what they return. -/
theorem lazy_perm (qs qs' : List Name) (hperm : qs.Perm qs') {q : Name} (hq : q ∈ qs) :
    (qs.foldl (getEnt S) (initState S p)).slot q = (qs'.foldl (getEnt S) (initState S p)).slot q :=
  lazy_order_indep wf p qs qs' hq (hperm.mem_iff.mp hq) .refl

/-- Corollary: `get_fgd` after any lazy queries equals `get_fgd` on the fresh database (pointwise on
slots and parsed flags). -/
theorem loadAll_after_queries (qs : List Name) :
    (∀ n, (loadAll S (qs.foldl (getEnt S) (initState S p))).slot n = (loadAll S (initState S p)).slot n) ∧
    (∀ i, (loadAll S (qs.foldl (getEnt S) (initState S p))).parsed i =
      (loadAll S (initState S p)).parsed i) := by
  constructor
  · intro n
    exact (loadAll_slot_raw wf p qs n).trans (loadAll_slot_raw wf p [] n).symm
  · intro i
    exact ((loadAll_spec wf p qs).1 i).trans ((loadAll_spec wf p []).1 i).symm

end Theorems

/-! ## Non-vacuity: a concrete database

Four blocks with an alias chain across blocks and a cycle between blocks 0 and 2
(`1 → 3 → 4`, `5 → 1`; `2` and `4` have no bases); block 3 is referenced by nobody. -/

def exS : Static :=
  { blocks := [[⟨1, [3], 10⟩, ⟨2, [], 20⟩], [⟨3, [4], 30⟩], [⟨4, [], 40⟩, ⟨5, [1], 50⟩], [⟨6, [2], 60⟩]],
    cbase := 0 }

theorem exS_wf : WF exS where
  nodup := by decide
  cbase := by decide
  bases := by decide

/-- Evaluation of the model on concrete data by rewriting with the equation lemmas (the mutual
functions are compiled by well-founded recursion, so `decide` cannot run them). -/
macro "lazy_eval" : tactic =>
  `(tactic| simp [getEnt, loadAll, parseRemaining, applyBasesSlot, fuelFor, exS, initState, initState.go,
    getEntS.eq_2, parseBlock.eq_2, resolveAll.eq_1, resolveAll.eq_2, resolveBases.eq_1,
    resolveBases.eq_2, State.setSlot, State.setParsed, State.setBases, insertEnt])

/-- One lazy query resolves the whole chain `1 → 3 → 4` (and the rest of the blocks touched). -/
example : (getEnt exS (initState exS 7) 1).slot 1 = some (.ent ⟨1, 10, .ents [3]⟩) ∧
    (getEnt exS (initState exS 7) 1).slot 3 = some (.ent ⟨3, 30, .ents [4]⟩) ∧
    (getEnt exS (initState exS 7) 1).slot 4 = some (.ent ⟨4, 40, .ents [0]⟩) ∧
    (getEnt exS (initState exS 7) 1).slot 5 = some (.ent ⟨5, 50, .ents [1]⟩) := by
  lazy_eval

/-- Laziness is real: block 3 stays unparsed, its class still points at the block. -/
example : (getEnt exS (initState exS 7) 1).parsed 3 = false ∧
    (getEnt exS (initState exS 7) 1).parsed 2 = true ∧
    (getEnt exS (initState exS 7) 1).slot 6 = some (.block 3) ∧
    (getEnt exS (initState exS 7) 1).slot 0 = some (.ent ⟨0, 7, .ents []⟩) ∧
    (getEnt exS (initState exS 7) 1).slot 9 = none := by
  lazy_eval

/-- Both query orders and the eager load give the same object. -/
example : ([6, 3].foldl (getEnt exS) (initState exS 7)).slot 3 = some (.ent ⟨3, 30, .ents [4]⟩) ∧
    ([3, 6].foldl (getEnt exS) (initState exS 7)).slot 3 = some (.ent ⟨3, 30, .ents [4]⟩) ∧
    (loadAll exS (initState exS 7)).slot 3 = some (.ent ⟨3, 30, .ents [4]⟩) ∧
    (loadAll exS (initState exS 7)).slot 6 = some (.ent ⟨6, 60, .ents [2]⟩) := by
  lazy_eval

/-- The hypotheses of the theorems are satisfiable: (D) instantiated on the example. -/
example : ([6, 1].foldl (getEnt exS) (initState exS 7)).slot 3 = (loadAll exS (initState exS 7)).slot 3 :=
  lazy_eq_loadAll_reach exS_wf 7 [6, 1] (q := 1) (by simp)
    (Reach.base (i := 0) (r := ⟨1, [3], 10⟩) .refl ⟨_, rfl, by simp⟩ rfl (by simp))

example : blockOf exS 5 = some 2 ∧ raw exS 5 = some ⟨5, [1], 50⟩ ∧ blockOf exS 0 = none := by
  decide

end C16.Lazy

