import Srctools.Model.C18
/-!
# Lemmas about the path model (split/join/comps, the `normpath` stack invariant) used by C18/C19
-/
namespace Path

/-! ## splitOn -/

theorem splitOn_ne_nil (d : Char) (s : Str) : splitOn d s ≠ [] := by
  induction s with
  | nil => simp [splitOn]
  | cons c cs ih =>
    rw [splitOn]
    split
    · simp
    · split <;> simp

theorem splitOn_cons_sep (d : Char) (s : Str) : splitOn d (d :: s) = [] :: splitOn d s := by
  rw [splitOn]; simp

theorem splitOn_cons_ne {d c : Char} (h : c ≠ d) (s : Str) :
    ∃ x t, splitOn d s = x :: t ∧ splitOn d (c :: s) = (c :: x) :: t := by
  rw [splitOn]
  simp only [h, if_false]
  cases hs : splitOn d s with
  | nil => exact absurd hs (splitOn_ne_nil d s)
  | cons x t => exact ⟨x, t, rfl, rfl⟩

theorem splitOn_append_sep (d : Char) (a b : Str) :
    splitOn d (a ++ d :: b) = splitOn d a ++ splitOn d b := by
  induction a with
  | nil => simp [splitOn]
  | cons c cs ih =>
    by_cases h : c = d
    · subst h
      simp only [List.cons_append, splitOn_cons_sep, ih]
    · obtain ⟨x, t, h1, h2⟩ := splitOn_cons_ne h cs
      obtain ⟨x', t', h1', h2'⟩ := splitOn_cons_ne h (cs ++ d :: b)
      simp only [List.cons_append]
      rw [h2', h2]
      rw [ih, h1] at h1'
      simp only [List.cons_append, List.cons.injEq] at h1'
      obtain ⟨rfl, rfl⟩ := h1'
      rfl

theorem mem_splitOn_no_sep (d : Char) (s : Str) : ∀ c ∈ splitOn d s, d ∉ c := by
  induction s with
  | nil => simp [splitOn]
  | cons c cs ih =>
    by_cases h : c = d
    · subst h
      rw [splitOn_cons_sep]
      intro x hx
      rcases List.mem_cons.mp hx with rfl | hx
      · simp
      · exact ih x hx
    · obtain ⟨x, t, h1, h2⟩ := splitOn_cons_ne h cs
      rw [h2]
      intro y hy
      rw [h1] at ih
      rcases List.mem_cons.mp hy with rfl | hy
      · intro hm
        rcases List.mem_cons.mp hm with rfl | hm
        · exact h rfl
        · exact ih x (List.mem_cons_self) hm
      · exact ih y (List.mem_cons_of_mem _ hy)

theorem splitOn_of_not_mem (d : Char) (s : Str) (h : d ∉ s) : splitOn d s = [s] := by
  induction s with
  | nil => simp [splitOn]
  | cons c cs ih =>
    have hc : c ≠ d := fun e => h (e ▸ List.mem_cons_self)
    have hcs : d ∉ cs := fun e => h (List.mem_cons_of_mem _ e)
    obtain ⟨x, t, h1, h2⟩ := splitOn_cons_ne hc cs
    rw [h2]
    rw [ih hcs] at h1
    simp only [List.cons.injEq] at h1
    obtain ⟨rfl, rfl⟩ := h1
    rfl

/-! ## comps -/

theorem comps_nil : comps [] = [] := by simp [comps, splitOn]

theorem comps_append_sep (a b : Str) : comps (a ++ '/' :: b) = comps a ++ comps b := by
  simp [comps, splitOn_append_sep]

theorem comps_cons_sep (b : Str) : comps ('/' :: b) = comps b := by
  simp [comps, splitOn_cons_sep]

theorem comps_replicate_sep (n : Nat) (s : Str) : comps (List.replicate n '/' ++ s) = comps s := by
  induction n with
  | zero => simp
  | succ n ih => simp only [List.replicate_succ, List.cons_append, comps_cons_sep, ih]

theorem comps_of_no_sep (s : Str) (h : '/' ∉ s) (hne : s ≠ []) : comps s = [s] := by
  simp [comps, splitOn_of_not_mem '/' s h, hne]

theorem mem_comps (p : Str) : ∀ c ∈ comps p, c ≠ [] ∧ '/' ∉ c := by
  intro c hc
  simp only [comps, List.mem_filter, decide_eq_true_eq] at hc
  exact ⟨hc.2, mem_splitOn_no_sep '/' p c hc.1⟩

theorem comps_joinWith (cs : List Str) (h : ∀ c ∈ cs, c ≠ [] ∧ '/' ∉ c) :
    comps (joinWith '/' cs) = cs := by
  induction cs with
  | nil => simp [joinWith, comps_nil]
  | cons x r ih =>
    cases r with
    | nil =>
      have := h x List.mem_cons_self
      simp [joinWith, comps_of_no_sep x this.2 this.1]
    | cons y r =>
      have hx := h x List.mem_cons_self
      rw [joinWith, comps_append_sep, comps_of_no_sep x hx.2 hx.1,
        ih (fun c hc => h c (List.mem_cons_of_mem _ hc))]
      rfl

theorem joinWith_eq_nil (cs : List Str) (h : ∀ c ∈ cs, c ≠ []) : joinWith '/' cs = [] ↔ cs = [] := by
  cases cs with
  | nil => simp [joinWith]
  | cons x r =>
    cases r with
    | nil => simpa [joinWith] using h x List.mem_cons_self
    | cons y r => simp [joinWith]

/-! ## initial slashes / absoluteness -/

theorem initialSlashes_le (p : Str) : initialSlashes p ≤ 2 := by
  unfold initialSlashes; split <;> omega

theorem initialSlashes_eq_zero (p : Str) : initialSlashes p = 0 ↔ isAbs p = false := by
  unfold initialSlashes isAbs
  split <;> simp_all
  rename_i h3
  cases p with
  | nil => simp
  | cons c cs =>
    simp only [List.head?_cons, Option.some.injEq]
    intro e; subst e
    exact h3 cs rfl

theorem isAbs_join2 (a b : Str) (h : isAbs a = true) : isAbs (join2 a b) = true := by
  unfold join2
  split
  · assumption
  · cases a with
    | nil => simp [isAbs] at h
    | cons c cs =>
      simp only [isAbs, List.head?_cons] at h ⊢
      split <;> simpa using h

/-! ## the `normpath` stack invariant -/

/-- Invariant of `new_comps` (reversed): clean names on top of a block of `..` which is empty
for absolute paths. -/
def StackInv (initial : Bool) (stk : List Str) : Prop :=
  ∃ (names : List Str) (k : Nat),
    stk = names ++ List.replicate k dotdot ∧
    (∀ c ∈ names, c ≠ [] ∧ c ≠ dot ∧ c ≠ dotdot ∧ '/' ∉ c) ∧
    (initial = true → k = 0)

theorem dotdot_no_sep : '/' ∉ dotdot := by decide

theorem stackInv_step (initial : Bool) (stk : List Str) (comp : Str) (hc : '/' ∉ comp)
    (h : StackInv initial stk) : StackInv initial (normStep initial stk comp) := by
  obtain ⟨names, k, rfl, hn, hk⟩ := h
  unfold normStep
  split
  · exact ⟨names, k, rfl, hn, hk⟩
  · rename_i h1
    have hne : comp ≠ [] := fun e => h1 (Or.inl e)
    have hnd : comp ≠ dot := fun e => h1 (Or.inr e)
    split
    · rename_i h2
      by_cases hdd : comp = dotdot
      · -- pushing `..`: the stack is empty (relative) or its top is `..`
        subst hdd
        have hnames : names = [] := by
          rcases h2 with h2 | ⟨_, h2⟩ | h2
          · exact absurd rfl h2
          · cases names with
            | nil => rfl
            | cons x t => simp at h2
          · cases names with
            | nil => rfl
            | cons x t =>
              simp only [List.cons_append, List.head?_cons, Option.some.injEq] at h2
              exact absurd h2 (hn x List.mem_cons_self).2.2.1
        subst hnames
        refine ⟨[], k + 1, by simp [List.replicate_succ], by simp, ?_⟩
        intro hi
        rcases h2 with h2 | ⟨h2, _⟩ | h2
        · exact absurd rfl h2
        · rw [hi] at h2; exact absurd h2 (by decide)
        · have := hk hi
          subst this
          simp at h2
      · refine ⟨comp :: names, k, by simp, ?_, hk⟩
        intro c hc'
        rcases List.mem_cons.mp hc' with rfl | hc'
        · exact ⟨hne, hnd, hdd, hc⟩
        · exact hn c hc'
    · -- pop
      cases names with
      | nil =>
        rename_i h2
        cases k with
        | zero => exact ⟨[], 0, by simp, by simp, fun _ => rfl⟩
        | succ k =>
          exfalso; apply h2
          right; right
          simp [List.replicate_succ]
      | cons x t =>
        refine ⟨t, k, by simp, fun c hc' => hn c (List.mem_cons_of_mem _ hc'), hk⟩

theorem stackInv_foldl (initial : Bool) (cs : List Str) (hcs : ∀ c ∈ cs, '/' ∉ c) (stk : List Str)
    (h : StackInv initial stk) : StackInv initial (cs.foldl (normStep initial) stk) := by
  induction cs generalizing stk with
  | nil => exact h
  | cons c cs ih =>
    simp only [List.foldl_cons]
    exact ih (fun x hx => hcs x (List.mem_cons_of_mem _ hx)) _
      (stackInv_step initial stk c (hcs c List.mem_cons_self) h)

/-- Shape of the components `normpath` keeps. -/
theorem normComps_spec (p : Str) :
    ∃ (k : Nat) (names : List Str),
      normComps p = List.replicate k dotdot ++ names ∧
      (∀ c ∈ names, c ≠ [] ∧ c ≠ dot ∧ c ≠ dotdot ∧ '/' ∉ c) ∧
      (isAbs p = true → k = 0) := by
  have h := stackInv_foldl (initialSlashes p != 0) (splitOn '/' p) (mem_splitOn_no_sep '/' p) []
    ⟨[], 0, by simp, by simp, fun _ => rfl⟩
  obtain ⟨names, k, hs, hn, hk⟩ := h
  refine ⟨k, names.reverse, ?_, ?_, ?_⟩
  · unfold normComps; rw [hs]; simp
  · intro c hc; exact hn c (List.mem_reverse.mp hc)
  · intro ha
    apply hk
    have : initialSlashes p ≠ 0 := by
      intro e; rw [initialSlashes_eq_zero] at e; rw [ha] at e; exact absurd e (by decide)
    simp [this]

theorem normComps_clean (p : Str) : ∀ c ∈ normComps p, c ≠ [] ∧ c ≠ dot ∧ '/' ∉ c := by
  obtain ⟨k, names, h, hn, _⟩ := normComps_spec p
  rw [h]
  intro c hc
  rcases List.mem_append.mp hc with hc | hc
  · have := List.eq_of_mem_replicate hc
    subst this
    exact ⟨by decide, by decide, by decide⟩
  · have := hn c hc
    exact ⟨this.1, this.2.1, this.2.2.2⟩

/-- `normpath` written with `normComps`. -/
theorem normpath_eq (p : Str) :
    normpath p = if initialSlashes p = 0 ∧ normComps p = [] then dot
      else List.replicate (initialSlashes p) '/' ++ joinWith '/' (normComps p) := by
  have hj := joinWith_eq_nil (normComps p) (fun c hc => (normComps_clean p c hc).1)
  unfold normpath
  by_cases hp : p = []
  · subst hp
    simp [initialSlashes, normComps, splitOn, normStep]
  · simp only [hp, if_false]
    by_cases h0 : initialSlashes p = 0
    · simp only [h0, List.replicate_zero, List.nil_append, true_and]
      by_cases hc : normComps p = []
      · simp [hc, joinWith]
      · have : joinWith '/' (normComps p) ≠ [] := fun e => hc (hj.mp e)
        simp [hc, this]
    · have : List.replicate (initialSlashes p) '/' ++ joinWith '/' (normComps p) ≠ [] := by
        intro e
        have := (List.append_eq_nil_iff.mp e).1
        simp at this
        exact h0 this
      simp [h0, this]

theorem isAbs_normpath (p : Str) (h : isAbs p = true) : isAbs (normpath p) = true := by
  have h0 : initialSlashes p ≠ 0 := by
    intro e; rw [initialSlashes_eq_zero] at e; rw [h] at e; exact absurd e (by decide)
  rw [normpath_eq]
  simp only [h0, false_and, if_false]
  cases hn : initialSlashes p with
  | zero => exact absurd hn h0
  | succ n => simp [isAbs, List.replicate_succ]

/-- Components of a normalised absolute path: exactly the kept components, none of them `..`. -/
theorem comps_normpath_abs (p : Str) (h : isAbs p = true) :
    comps (normpath p) = normComps p ∧ ∀ c ∈ normComps p, c ≠ [] ∧ c ≠ dot ∧ c ≠ dotdot ∧ '/' ∉ c := by
  have h0 : initialSlashes p ≠ 0 := by
    intro e; rw [initialSlashes_eq_zero] at e; rw [h] at e; exact absurd e (by decide)
  obtain ⟨k, names, hs, hn, hk⟩ := normComps_spec p
  have hk0 := hk h
  subst hk0
  simp only [List.replicate_zero, List.nil_append] at hs
  constructor
  · rw [normpath_eq]
    simp only [h0, false_and, if_false]
    rw [comps_replicate_sep, comps_joinWith]
    intro c hc
    have := normComps_clean p c hc
    exact ⟨this.1, this.2.2⟩
  · rw [hs]; exact hn

theorem isAbs_abspath (cwd p : Str) (h : isAbs cwd = true) : isAbs (abspath cwd p) = true := by
  unfold abspath
  apply isAbs_normpath
  split
  · assumption
  · exact isAbs_join2 cwd p h

end Path

namespace C18
open Path

theorem comps_prefix_of_inside (root q : Str) (h : inside .sepTerminated root q = true) :
    comps root <+: comps q := by
  simp only [inside, Bool.or_eq_true, beq_iff_eq, List.isPrefixOf_iff_prefix] at h
  rcases h with rfl | h
  · exact List.prefix_refl _
  · obtain ⟨rest, rfl⟩ := h
    unfold join2
    have e0 : isAbs ([] : Str) = false := by decide
    simp only [e0, Bool.false_eq_true, if_false, List.append_nil]
    split
    · rename_i h1
      rcases h1 with rfl | h1
      · simp [comps_nil]
      · simp only [endsWithSep, decide_eq_true_eq] at h1
        obtain ⟨r, rfl⟩ := List.getLast?_eq_some_iff.mp h1
        rw [List.append_assoc]
        simp only [List.cons_append, List.nil_append]
        rw [comps_append_sep, comps_append_sep, comps_nil, List.append_nil]
        exact List.prefix_append _ _
    · rw [List.append_assoc]
      simp only [List.cons_append]
      rw [comps_append_sep]
      exact List.prefix_append _ _

theorem resolve_ok {k : Cfg} {cwd : Str} {fs : RawFS} {p q : Str}
    (h : resolve k cwd fs p = .ok q) :
    q = abspath cwd (join2 fs.root (if k.foldSlash then replaceBS p else p)) ∧
      (fs.constrain = true → inside k.contain fs.root q = true) := by
  unfold resolve at h
  simp only at h
  generalize (if k.foldSlash = true then replaceBS p else p) = p' at h ⊢
  split at h
  · cases h
  · rename_i hc
    cases h
    refine ⟨rfl, fun hcon => ?_⟩
    simp only [hcon, Bool.true_and, Bool.not_eq_true', Bool.not_eq_false] at hc
    simpa using hc

theorem replaceBS_idem (p : Str) : replaceBS (replaceBS p) = replaceBS p := by
  induction p with
  | nil => rfl
  | cons c cs ih =>
    simp only [replaceBS, List.map_cons, List.map_map] at ih ⊢
    congr 1
    by_cases h : c = '\\' <;> simp [h]

theorem fileAt_some {t : Tree} {q : Str} {e : Ent} (h : fileAt t q = some e) :
    e ∈ t ∧ e.comps = comps q := by
  unfold fileAt at h
  exact ⟨List.mem_of_find?_eq_some h, by simpa using List.find?_some h⟩

end C18

namespace Path

theorem joinWith_cons_cons (d : Char) (x y : Str) (r : List Str) :
    joinWith d (x :: y :: r) = x ++ d :: joinWith d (y :: r) := rfl

theorem joinWith_splitOn (d : Char) (s : Str) : joinWith d (splitOn d s) = s := by
  induction s with
  | nil => simp [splitOn, joinWith]
  | cons c cs ih =>
    by_cases h : c = d
    · subst h
      rw [splitOn_cons_sep]
      cases hs : splitOn c cs with
      | nil => exact absurd hs (splitOn_ne_nil c cs)
      | cons x t => rw [joinWith_cons_cons, ← hs, ih]; rfl
    · obtain ⟨x, t, h1, h2⟩ := splitOn_cons_ne h cs
      rw [h2]
      rw [h1] at ih
      cases t with
      | nil => simp only [joinWith] at ih ⊢; rw [ih]
      | cons y t => rw [joinWith_cons_cons] at ih ⊢; rw [List.cons_append, ih]

theorem joinWith_append (d : Char) (pre : List Str) (x : Str) (r : List Str) (h : pre ≠ []) :
    joinWith d (pre ++ x :: r) = joinWith d pre ++ d :: joinWith d (x :: r) := by
  induction pre with
  | nil => exact absurd rfl h
  | cons a pre ih =>
    cases pre with
    | nil => simp [joinWith]
    | cons b pre =>
      simp only [List.cons_append] at ih ⊢
      rw [joinWith_cons_cons, ih (by simp), joinWith_cons_cons]
      simp

theorem hasInfix_tail {pat : Str} {c : Char} {cs : Str} (h : hasInfix pat (c :: cs) = false) :
    hasInfix pat cs = false := by
  rw [hasInfix] at h
  simp only [Bool.or_eq_false_iff] at h
  exact h.2

theorem hasInfix_dropWhile {pat : Str} (f : Char → Bool) (s : Str) (h : hasInfix pat s = false) :
    hasInfix pat (s.dropWhile f) = false := by
  induction s with
  | nil => simpa using h
  | cons c cs ih =>
    rw [List.dropWhile_cons]
    split
    · exact ih (hasInfix_tail h)
    · exact h

theorem hasInfix_append (pat : Str) (hp : pat ≠ []) (a b : Str) : hasInfix pat (a ++ pat ++ b) = true := by
  induction a with
  | nil =>
    cases pat with
    | nil => exact absurd rfl hp
    | cons c cs =>
      simp only [List.nil_append, List.cons_append]
      rw [hasInfix]
      simp only [Bool.or_eq_true]
      left
      rw [← List.cons_append]
      simp [List.isPrefixOf_iff_prefix]
  | cons c cs ih =>
    simp only [List.cons_append]
    rw [hasInfix]
    simp only [Bool.or_eq_true]
    right
    simpa using ih

/-- A string without the substring `../` has no `..` component other than its last one. -/
theorem no_inner_dotdot (q : Str) (h : hasInfix ['.', '.', '/'] q = false) (pre : List Str) (c : Str)
    (post : List Str) : splitOn '/' q ≠ pre ++ dotdot :: c :: post := by
  intro hs
  have hq := joinWith_splitOn '/' q
  rw [hs] at hq
  have : hasInfix ['.', '.', '/'] q = true := by
    rw [← hq]
    cases pre with
    | nil =>
      simp only [List.nil_append, joinWith_cons_cons]
      have := hasInfix_append ['.', '.', '/'] (by simp) [] (joinWith '/' (c :: post))
      simpa [dotdot] using this
    | cons a pre =>
      rw [joinWith_append _ _ _ _ (by simp), joinWith_cons_cons]
      have := hasInfix_append ['.', '.', '/'] (by simp) (joinWith '/' (a :: pre) ++ ['/']) (joinWith '/' (c :: post))
      simpa [dotdot] using this
  rw [h] at this
  cases this

end Path

/-! ## completeness: clean relative names are accepted -/

namespace Path

/-- Every piece between slashes is empty or an ordinary name (not `.` / `..`). -/
def CleanSplit (p : Str) : Prop := ∀ c ∈ splitOn '/' p, c = [] ∨ (c ≠ dot ∧ c ≠ dotdot)

theorem normStep_clean (initial : Bool) (stk : List Str) (c : Str) (h1 : c ≠ []) (h2 : c ≠ dot)
    (h3 : c ≠ dotdot) : normStep initial stk c = c :: stk := by
  unfold normStep
  simp [h1, h2, h3]

theorem normStep_nil (initial : Bool) (stk : List Str) : normStep initial stk [] = stk := by
  simp [normStep]

theorem foldl_normStep_clean (initial : Bool) (l : List Str)
    (h : ∀ c ∈ l, c = [] ∨ (c ≠ dot ∧ c ≠ dotdot)) (stk : List Str) :
    l.foldl (normStep initial) stk = (l.filter fun c => c ≠ []).reverse ++ stk := by
  induction l generalizing stk with
  | nil => simp
  | cons c cs ih =>
    simp only [List.foldl_cons]
    rw [ih (fun x hx => h x (List.mem_cons_of_mem _ hx))]
    rcases h c List.mem_cons_self with rfl | ⟨h2, h3⟩
    · simp [normStep_nil]
    · by_cases h1 : c = []
      · subst h1; simp [normStep_nil]
      · rw [normStep_clean initial stk c h1 h2 h3]
        simp [h1]

/-- `normpath` keeps every component of a path that has no `.`/`..` pieces. -/
theorem normComps_cleanSplit (p : Str) (h : CleanSplit p) : normComps p = comps p := by
  unfold normComps comps
  rw [foldl_normStep_clean _ _ h]
  simp

end Path

namespace Path

/-- An absolute path string in `normpath` normal form: one or two slashes, then clean names
joined by single slashes. -/
def NormalAbs (root : Str) : Prop :=
  ∃ (n : Nat) (cs : List Str), (n = 1 ∨ n = 2) ∧
    (∀ c ∈ cs, c ≠ [] ∧ c ≠ dot ∧ c ≠ dotdot ∧ '/' ∉ c) ∧
    root = List.replicate n '/' ++ joinWith '/' cs

theorem normalAbs_normpath (p : Str) (h : isAbs p = true) : NormalAbs (normpath p) := by
  have h0 : initialSlashes p ≠ 0 := by
    intro e; rw [initialSlashes_eq_zero] at e; rw [h] at e; exact absurd e (by decide)
  have hle := initialSlashes_le p
  obtain ⟨_, h2⟩ := comps_normpath_abs p h
  refine ⟨initialSlashes p, normComps p, by omega, h2, ?_⟩
  rw [normpath_eq]; simp [h0]

theorem normalAbs_comps {root : Str} {n : Nat} {cs : List Str}
    (hc : ∀ c ∈ cs, c ≠ [] ∧ c ≠ dot ∧ c ≠ dotdot ∧ '/' ∉ c)
    (hr : root = List.replicate n '/' ++ joinWith '/' cs) : comps root = cs := by
  rw [hr, comps_replicate_sep, comps_joinWith]
  intro c h; exact ⟨(hc c h).1, (hc c h).2.2.2⟩

theorem comps_join2 (root p : Str) (hrel : isAbs p = false) :
    comps (join2 root p) = comps root ++ comps p := by
  unfold join2
  simp only [hrel, Bool.false_eq_true, if_false]
  split
  · rename_i h1
    rcases h1 with rfl | h1
    · simp [comps_nil]
    · simp only [endsWithSep, decide_eq_true_eq] at h1
      obtain ⟨r, rfl⟩ := List.getLast?_eq_some_iff.mp h1
      rw [List.append_assoc]
      simp only [List.cons_append, List.nil_append]
      rw [comps_append_sep, comps_append_sep, comps_nil, List.append_nil]
  · exact comps_append_sep root p

theorem initialSlashes_one (c : Char) (cs : Str) (h : c ≠ '/') : initialSlashes ('/' :: c :: cs) = 1 := by
  unfold initialSlashes
  split
  · rfl
  · rename_i heq; simp at heq; exact absurd heq.1 h
  · rfl
  · rename_i h3; exact absurd rfl (h3 _)

theorem initialSlashes_two (c : Char) (cs : Str) (h : c ≠ '/') :
    initialSlashes ('/' :: '/' :: c :: cs) = 2 := by
  unfold initialSlashes
  split
  · rename_i heq; simp at heq; exact absurd heq.1 h
  · rfl
  · rename_i h2 heq
    simp only [List.cons.injEq, true_and] at heq
    exact (h2 (c :: cs) heq.symm).elim
  · rename_i h3; exact absurd rfl (h3 _)

theorem initialSlashes_replicate (n : Nat) (hn : n = 1 ∨ n = 2) (s : Str) (hs : s.head? ≠ some '/') :
    initialSlashes (List.replicate n '/' ++ s) = n := by
  rcases hn with rfl | rfl
  · cases s with
    | nil => rfl
    | cons c cs => exact initialSlashes_one c cs (by simpa using hs)
  · cases s with
    | nil => rfl
    | cons c cs => exact initialSlashes_two c cs (by simpa using hs)

theorem joinWith_head (cs : List Str) (x : Str) (hx : x ≠ []) :
    (joinWith '/' (x :: cs)).head? = x.head? := by
  cases cs with
  | nil => rfl
  | cons y r =>
    rw [joinWith_cons_cons]
    cases x with
    | nil => exact absurd rfl hx
    | cons a b => rfl

theorem isPrefixOf_append_self (a b : Str) : a.isPrefixOf (a ++ b) = true := by
  simp [List.isPrefixOf_iff_prefix]

end Path

namespace C18
open Path

/-- **Completeness of the constraint.** A relative name without `.`/`..` components is always
accepted by the separator-terminated test, and resolves to the root's components followed by
the name's components. -/
theorem accepts (k : Cfg) (hk : k.contain = .sepTerminated) (cwd : Str) (fs : RawFS)
    (hroot : NormalAbs fs.root) (p : Str)
    (hrel : isAbs (if k.foldSlash then replaceBS p else p) = false)
    (hclean : ∀ c ∈ comps (if k.foldSlash then replaceBS p else p), c ≠ dot ∧ c ≠ dotdot) :
    ∃ q, resolve k cwd fs p = .ok q ∧
      comps q = comps fs.root ++ comps (if k.foldSlash then replaceBS p else p) := by
  generalize hp' : (if k.foldSlash then replaceBS p else p) = p' at hrel hclean ⊢
  obtain ⟨n, cs, hn, hcs, hr⟩ := hroot
  have hcr := normalAbs_comps hcs hr
  have habs : isAbs fs.root = true := by
    rw [hr]; rcases hn with rfl | rfl <;> simp [isAbs, List.replicate]
  have hJ : isAbs (join2 fs.root p') = true := isAbs_join2 _ _ habs
  have hcJ : comps (join2 fs.root p') = cs ++ comps p' := by rw [comps_join2 _ _ hrel, hcr]
  -- normpath keeps all components
  have hclJ : CleanSplit (join2 fs.root p') := by
    intro c hc
    by_cases he : c = []
    · exact Or.inl he
    · right
      have : c ∈ comps (join2 fs.root p') := by
        simp only [comps, List.mem_filter, decide_eq_true_eq]; exact ⟨hc, he⟩
      rw [hcJ] at this
      rcases List.mem_append.mp this with h | h
      · exact ⟨(hcs c h).2.1, (hcs c h).2.2.1⟩
      · exact hclean c h
  have hnc : normComps (join2 fs.root p') = cs ++ comps p' := by
    rw [normComps_cleanSplit _ hclJ, hcJ]
  -- leading slashes are those of the root
  have his : initialSlashes (join2 fs.root p') = n := by
    have hform : ∃ s, join2 fs.root p' = List.replicate n '/' ++ s ∧ s.head? ≠ some '/' := by
      unfold join2
      simp only [hrel, Bool.false_eq_true, if_false]
      cases cs with
      | nil =>
        have hr' : fs.root = List.replicate n '/' := by rw [hr]; simp [joinWith]
        have hends : endsWithSep fs.root = true := by
          rw [hr']; rcases hn with rfl | rfl <;> simp [endsWithSep, List.replicate]
        simp only [hends, or_true, if_true]
        refine ⟨p', by rw [hr'], ?_⟩
        simpa [isAbs] using hrel
      | cons x r =>
        have hx := hcs x List.mem_cons_self
        have hh : (joinWith '/' (x :: r)).head? ≠ some '/' := by
          rw [joinWith_head r x hx.1]
          cases x with
          | nil => exact absurd rfl hx.1
          | cons a b =>
            simp only [List.head?_cons, ne_eq, Option.some.injEq]
            intro e; exact hx.2.2.2 (e ▸ List.mem_cons_self)
        have hne : joinWith '/' (x :: r) ≠ [] := by
          intro e; rw [e] at hh
          cases hx' : x with
          | nil => exact hx.1 hx'
          | cons a b =>
            have := joinWith_head r x hx.1
            rw [e, hx'] at this; simp at this
        split
        · refine ⟨joinWith '/' (x :: r) ++ p', by rw [hr, List.append_assoc], ?_⟩
          cases hj : joinWith '/' (x :: r) with
          | nil => exact absurd hj hne
          | cons a b => rw [hj] at hh; simpa using hh
        · refine ⟨joinWith '/' (x :: r) ++ '/' :: p', by rw [hr, List.append_assoc], ?_⟩
          cases hj : joinWith '/' (x :: r) with
          | nil => exact absurd hj hne
          | cons a b => rw [hj] at hh; simpa using hh
    obtain ⟨s, hs1, hs2⟩ := hform
    rw [hs1]; exact initialSlashes_replicate n hn s hs2
  have hq : abspath cwd (join2 fs.root p') = List.replicate n '/' ++ joinWith '/' (cs ++ comps p') := by
    have hn0 : n ≠ 0 := by omega
    simp only [abspath, hJ, if_true]
    rw [normpath_eq, his, hnc]
    simp [hn0]
  refine ⟨abspath cwd (join2 fs.root p'), ?_, ?_⟩
  · unfold resolve
    have hin : inside k.contain fs.root (abspath cwd (join2 fs.root p')) = true := by
      rw [hk, hq]
      simp only [inside, Bool.or_eq_true, beq_iff_eq]
      cases hpc : comps p' with
      | nil => left; rw [hr]; simp
      | cons y ys =>
        right
        cases cs with
        | nil =>
          have hr' : fs.root = List.replicate n '/' := by rw [hr]; simp [joinWith]
          have hends : endsWithSep fs.root = true := by
            rw [hr']; rcases hn with rfl | rfl <;> simp [endsWithSep, List.replicate]
          have : join2 fs.root [] = fs.root := by
            unfold join2; simp [isAbs, hends]
          rw [this, hr']
          simp [List.isPrefixOf_iff_prefix]
        | cons x r =>
          rw [joinWith_append '/' (x :: r) y ys (by simp), ← List.append_assoc, ← hr]
          unfold join2
          have e0 : isAbs ([] : Str) = false := by decide
          simp only [e0, Bool.false_eq_true, if_false, List.append_nil]
          split
          · exact isPrefixOf_append_self _ _
          · have : fs.root ++ '/' :: joinWith '/' (y :: ys) = (fs.root ++ ['/']) ++ joinWith '/' (y :: ys) := by simp
            rw [this]; exact isPrefixOf_append_self _ _
    simp only [hp', hin, Bool.not_true, Bool.and_false, Bool.false_eq_true, if_false]
  · rw [hq, comps_replicate_sep, comps_joinWith, hcr]
    intro c hc
    rcases List.mem_append.mp hc with h | h
    · exact ⟨(hcs c h).1, (hcs c h).2.2.2⟩
    · exact mem_comps p' c h

end C18

/-! ## relative paths in normal form; `relpath` against a prefix folder (used by C19 chain walks) -/

namespace Path

/-- A relative path string in normal form: clean names joined by single slashes (`""` allowed). -/
def NormRel (p : Str) : Prop :=
  p = joinWith '/' (comps p) ∧ ∀ c ∈ comps p, c ≠ dot ∧ c ≠ dotdot ∧ '\\' ∉ c

theorem joinWith_cons_eq (d : Char) (x : Str) (r : List Str) :
    joinWith d (x :: r) = x ++ r.flatMap (fun y => d :: y) := by
  induction r generalizing x with
  | nil => simp [joinWith]
  | cons y r ih => rw [joinWith_cons_cons, ih]; simp

theorem endsWithSep_append_clean (a b : Str) (hb : b ≠ []) (hs : '/' ∉ b) :
    endsWithSep (a ++ b) = false := by
  unfold endsWithSep
  rw [List.getLast?_append]
  cases h : b.getLast? with
  | none =>
    exfalso
    exact hb (List.getLast?_eq_none_iff.mp h)
  | some x =>
    have hx : x ∈ b := List.mem_of_getLast? h
    have : x ≠ '/' := fun e => hs (e ▸ hx)
    simp [this]

theorem isAbs_clean (b : Str) (hs : '/' ∉ b) : isAbs b = false := by
  cases b with
  | nil => rfl
  | cons c cs =>
    have : c ≠ '/' := fun e => hs (e ▸ List.mem_cons_self)
    simp [isAbs, this]

theorem foldl_join2_clean (bs : List Str) (hbs : ∀ b ∈ bs, b ≠ [] ∧ '/' ∉ b) (acc : Str)
    (ha : acc ≠ []) (he : endsWithSep acc = false) :
    bs.foldl join2 acc = acc ++ bs.flatMap (fun y => '/' :: y) := by
  induction bs generalizing acc with
  | nil => simp
  | cons b r ih =>
    have hb := hbs b List.mem_cons_self
    have hj : join2 acc b = acc ++ '/' :: b := by
      unfold join2
      simp [isAbs_clean b hb.2, ha, he]
    simp only [List.foldl_cons, hj]
    rw [ih (fun x hx => hbs x (List.mem_cons_of_mem _ hx)) _ (by simp)
      (by
        have : acc ++ '/' :: b = (acc ++ ['/']) ++ b := by simp
        rw [this]; exact endsWithSep_append_clean _ b hb.1 hb.2)]
    simp

theorem joinMany_clean (r : Str) (rs : List Str) (h : ∀ b ∈ r :: rs, b ≠ [] ∧ '/' ∉ b) :
    joinMany r rs = joinWith '/' (r :: rs) := by
  have hr := h r List.mem_cons_self
  unfold joinMany
  rw [foldl_join2_clean rs (fun b hb => h b (List.mem_cons_of_mem _ hb)) r hr.1
    (by simpa using endsWithSep_append_clean [] r hr.1 hr.2), joinWith_cons_eq]

theorem commonLen_append (a b : List Str) : commonLen a (a ++ b) = a.length := by
  induction a with
  | nil => cases b <;> simp [commonLen]
  | cons x r ih => simp [commonLen, ih]

theorem normRel_isAbs (p : Str) (h : NormRel p) : isAbs p = false := by
  cases hc : comps p with
  | nil => rw [h.1, hc]; rfl
  | cons x r =>
    have hx := mem_comps p x (by rw [hc]; exact List.mem_cons_self)
    rw [h.1, hc]
    unfold isAbs
    rw [joinWith_head r x hx.1]
    cases x with
    | nil => exact absurd rfl hx.1
    | cons a b =>
      have : a ≠ '/' := fun e => hx.2 (e ▸ List.mem_cons_self)
      simp [this]

end Path

namespace C18
open Path

/-- `abspath` of a normal relative path under a normal current directory: components append. -/
theorem comps_abspath_rel (cwd p : Str) (hcwd : NormalAbs cwd) (hp : NormRel p) :
    comps (abspath cwd p) = comps cwd ++ comps p := by
  have hrel := normRel_isAbs p hp
  obtain ⟨q, hq, hc⟩ := accepts ⟨.sepTerminated, false, false⟩ rfl cwd ⟨cwd, false⟩ hcwd p
    (by simpa using hrel) (by intro c hc; simp only [Bool.false_eq_true, if_false] at hc; exact ⟨(hp.2 c hc).1, (hp.2 c hc).2.1⟩)
  simp only [Bool.false_eq_true, if_false] at hc
  obtain ⟨hq', _⟩ := resolve_ok hq
  simp only [Bool.false_eq_true, if_false] at hq'
  have habs : isAbs cwd = true := by
    obtain ⟨n, cs, hn, _, hr⟩ := hcwd
    rw [hr]; rcases hn with rfl | rfl <;> simp [isAbs, List.replicate]
  have hJ : isAbs (join2 cwd p) = true := isAbs_join2 _ _ habs
  have : abspath cwd p = q := by
    rw [hq']
    simp [abspath, hrel, hJ]
  rw [this, hc]

end C18

namespace C18
open Path

/-- the part of `n` after the prefix folder `p` and its slash (`n` itself for the empty prefix). -/
def stripPfx (p n : Str) : Str := if p = [] then n else n.drop (p.length + 1)

theorem relpath_of_comps (cwd p n : Str) (hcwd : NormalAbs cwd) (hp : NormRel p) (hn : NormRel n)
    (hne : n ≠ []) (r : Str) (rs : List Str) (hc : comps n = comps p ++ r :: rs) :
    relpath cwd n p = some (joinWith '/' (r :: rs)) := by
  unfold relpath
  simp only [hne, if_false]
  rw [comps_abspath_rel cwd p hcwd hp, comps_abspath_rel cwd n hcwd hn, hc, ← List.append_assoc,
    commonLen_append]
  simp only [Nat.sub_self, List.replicate_zero, List.nil_append, List.drop_left]
  have hcl : ∀ b ∈ r :: rs, b ≠ [] ∧ '/' ∉ b := by
    intro b hb
    exact mem_comps n b (by rw [hc]; exact List.mem_append_right _ hb)
  rw [joinMany_clean r rs hcl]

theorem relpath_strip (cwd p n : Str) (hcwd : NormalAbs cwd) (hp : NormRel p) (hn : NormRel n)
    (hne : n ≠ []) (hpre : p ≠ [] → (p ++ ['/']) <+: n) :
    relpath cwd n p = some (stripPfx p n) ∧ isAbs (stripPfx p n) = false ∧
      join2 p (stripPfx p n) = n := by
  by_cases hpe : p = []
  · subst hpe
    have hnc : comps n ≠ [] := by
      intro e; apply hne; rw [hn.1, e]; rfl
    cases hc : comps n with
    | nil => exact absurd hc hnc
    | cons r rs =>
      refine ⟨?_, ?_, ?_⟩
      · rw [relpath_of_comps cwd [] n hcwd hp hn hne r rs (by simp [comps_nil, hc])]
        simp only [stripPfx, if_true]
        rw [← hc, ← hn.1]
      · simpa [stripPfx] using normRel_isAbs n hn
      · simp [stripPfx, join2, normRel_isAbs n hn]
  · obtain ⟨rest, hrest⟩ := hpre hpe
    have hn' : n = p ++ '/' :: rest := by rw [← hrest]; simp
    have hcn : comps n = comps p ++ comps rest := by rw [hn', comps_append_sep]
    have hpc : comps p ≠ [] := by
      intro e; apply hpe; rw [hp.1, e]; rfl
    have hstrip : stripPfx p n = rest := by
      simp only [stripPfx, hpe, if_false, hn']
      have : p ++ '/' :: rest = (p ++ ['/']) ++ rest := by simp
      rw [this]
      have hl : (p ++ ['/']).length = p.length + 1 := by simp
      rw [← hl, List.drop_left]
    cases hrc : comps rest with
    | nil =>
      exfalso
      rw [hrc, List.append_nil] at hcn
      have : n = p := by rw [hn.1, hcn, ← hp.1]
      rw [this] at hn'
      have := congrArg List.length hn'
      simp at this
    | cons r rs =>
      rw [hrc] at hcn
      have hjoin : n = p ++ '/' :: joinWith '/' (r :: rs) := by
        conv => lhs; rw [hn.1, hcn, joinWith_append '/' (comps p) r rs hpc, ← hp.1]
      have hrest' : rest = joinWith '/' (r :: rs) := by
        have := hn'.symm.trans hjoin
        have := List.append_cancel_left this
        simpa using this
      refine ⟨?_, ?_, ?_⟩
      · rw [relpath_of_comps cwd p n hcwd hp hn hne r rs hcn, hstrip, hrest']
      · rw [hstrip, hrest']
        have hr := mem_comps rest r (by rw [hrc]; exact List.mem_cons_self)
        unfold isAbs
        rw [joinWith_head rs r hr.1]
        cases r with
        | nil => exact absurd rfl hr.1
        | cons a b =>
          have : a ≠ '/' := fun e => hr.2 (e ▸ List.mem_cons_self)
          simp [this]
      · rw [hstrip]
        have habs : isAbs rest = false := by
          rw [hrest']
          have hr := mem_comps rest r (by rw [hrc]; exact List.mem_cons_self)
          unfold isAbs
          rw [joinWith_head rs r hr.1]
          cases r with
          | nil => exact absurd rfl hr.1
          | cons a b =>
            have : a ≠ '/' := fun e => hr.2 (e ▸ List.mem_cons_self)
            simp [this]
        -- p does not end with a separator
        have hpend : endsWithSep p = false := by
          have hl : comps p = (comps p).dropLast ++ [(comps p).getLast hpc] :=
            (List.dropLast_concat_getLast hpc).symm
          have hlast := mem_comps p _ (List.getLast_mem hpc)
          rw [hp.1, hl]
          by_cases hd : (comps p).dropLast = []
          · rw [hd]; simp only [List.nil_append, joinWith]
            simpa using endsWithSep_append_clean [] _ hlast.1 hlast.2
          · rw [joinWith_append '/' _ _ [] hd]
            simp only [joinWith]
            have : joinWith '/' (comps p).dropLast ++ '/' :: (comps p).getLast hpc
                = (joinWith '/' (comps p).dropLast ++ ['/']) ++ (comps p).getLast hpc := by simp
            rw [this]
            exact endsWithSep_append_clean _ _ hlast.1 hlast.2
        unfold join2
        simp [habs, hpe, hpend, hn']

end C18

namespace Path

/-- the path without one trailing separator. -/
def stripSep (x : Str) : Str := if endsWithSep x then x.dropLast else x

theorem stripSep_cases (x : Str) :
    (endsWithSep x = false ∧ stripSep x = x) ∨ (endsWithSep x = true ∧ x = stripSep x ++ ['/']) := by
  unfold stripSep
  cases h : endsWithSep x with
  | false => left; simp
  | true =>
    right
    refine ⟨rfl, ?_⟩
    simp only [if_true]
    simp only [endsWithSep, decide_eq_true_eq] at h
    obtain ⟨r, rfl⟩ := List.getLast?_eq_some_iff.mp h
    simp

theorem cleanSplit_of_comps (p : Str) (h : ∀ c ∈ comps p, c ≠ dot ∧ c ≠ dotdot) : CleanSplit p := by
  intro c hc
  by_cases he : c = []
  · exact Or.inl he
  · right
    exact h c (by simp only [comps, List.mem_filter, decide_eq_true_eq]; exact ⟨hc, he⟩)

/-- `normpath` is the identity on a non-empty normal relative path, and strips one trailing slash. -/
theorem normpath_normRel (x : Str) (h : NormRel x) (hne : x ≠ []) :
    normpath x = x ∧ normpath (x ++ ['/']) = x := by
  have hrel := normRel_isAbs x h
  have hcne : comps x ≠ [] := by intro e; apply hne; rw [h.1, e]; rfl
  have hclean : ∀ c ∈ comps x, c ≠ dot ∧ c ≠ dotdot := fun c hc => ⟨(h.2 c hc).1, (h.2 c hc).2.1⟩
  constructor
  · rw [normpath_eq, (initialSlashes_eq_zero x).mpr hrel,
      normComps_cleanSplit x (cleanSplit_of_comps x hclean)]
    simp [hcne, ← h.1]
  · have hc2 : comps (x ++ ['/']) = comps x := by
      have := comps_append_sep x []
      simpa [comps_nil] using this
    have hrel2 : isAbs (x ++ ['/']) = false := by
      cases x with
      | nil => exact absurd rfl hne
      | cons a b => simpa [isAbs] using hrel
    rw [normpath_eq, (initialSlashes_eq_zero _).mpr hrel2,
      normComps_cleanSplit _ (cleanSplit_of_comps _ (by rw [hc2]; exact hclean)), hc2]
    simp [hcne, ← h.1]

theorem endsWithSep_append (a b : Str) (hb : b ≠ []) : endsWithSep (a ++ b) = endsWithSep b := by
  unfold endsWithSep
  rw [List.getLast?_append]
  cases h : b.getLast? with
  | none => exact absurd (List.getLast?_eq_none_iff.mp h) hb
  | some c => simp

theorem stripSep_append (a b : Str) (hb : b ≠ []) : stripSep (a ++ b) = a ++ stripSep b := by
  unfold stripSep
  rw [endsWithSep_append a b hb]
  cases endsWithSep b with
  | false => simp
  | true => simp [List.dropLast_append_of_ne_nil hb]

end Path
