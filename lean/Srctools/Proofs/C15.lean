import Srctools.Model.C15
/-!
# C15 — helper lemmas

1. `E.eval_subst`: substitution commutes with evaluation.
2. Soundness of the bit-routing abstract interpretation (`E.abs`, `E.wid`) and the resulting
   decision procedure `E.same`: if `E.same e1 e2 = true` then `e1` and `e2` have the same value under
   **every** assignment of bytes to the variables.
-/
namespace C15

namespace E

theorem eval_subst (env : Nat → Nat) (s : List E) (e : E) :
    (e.subst s).eval env = e.eval (fun i => (s.getD i (.lit 0)).eval env) := by
  induction e with
  | var i => simp [subst, eval]
  | lit n => simp [subst, eval]
  | and a b iha ihb => simp [subst, eval, iha, ihb]
  | or a b iha ihb => simp [subst, eval, iha, ihb]
  | shl a k iha => simp [subst, eval, iha]
  | shr a k iha => simp [subst, eval, iha]
  | add a b iha ihb => simp [subst, eval, iha, ihb]
  | div a k iha => simp [subst, eval, iha]
  | eq a b iha ihb => simp [subst, eval, iha, ihb]
  | lt a b iha ihb => simp [subst, eval, iha, ihb]
  | land a b iha ihb => simp [subst, eval, iha, ihb]
  | ite c t e ihc iht ihe => simp [subst, eval, ihc, iht, ihe]

/-- evaluation only looks at the variables below `n`. -/
theorem eval_congr (n : Nat) (env env' : Nat → Nat) (h : ∀ i, i < n → env i = env' i) (e : E)
    (hv : varsBelow n e = true) : e.eval env = e.eval env' := by
  induction e with
  | var i => simp [varsBelow] at hv; simp [eval, h i hv]
  | lit n => simp [eval]
  | and a b iha ihb => simp [varsBelow] at hv; simp [eval, iha hv.1, ihb hv.2]
  | or a b iha ihb => simp [varsBelow] at hv; simp [eval, iha hv.1, ihb hv.2]
  | shl a k iha => simp [varsBelow] at hv; simp [eval, iha hv]
  | shr a k iha => simp [varsBelow] at hv; simp [eval, iha hv]
  | add a b iha ihb => simp [varsBelow] at hv; simp [eval, iha hv.1, ihb hv.2]
  | div a k iha => simp [varsBelow] at hv; simp [eval, iha hv]
  | eq a b iha ihb => simp [varsBelow] at hv; simp [eval, iha hv.1, ihb hv.2]
  | lt a b iha ihb => simp [varsBelow] at hv; simp [eval, iha hv.1, ihb hv.2]
  | land a b iha ihb => simp [varsBelow] at hv; simp [eval, iha hv.1, ihb hv.2]
  | ite c t e ihc iht ihe =>
    simp [varsBelow] at hv; simp [eval, ihc hv.1.1, iht hv.1.2, ihe hv.2]

end E

/-- what a `Bit` description claims about an actual bit. -/
def Bit.sound (env : Nat → Nat) : Bit → Bool → Prop
  | .zero, x => x = false
  | .one, x => x = true
  | .inp v k, x => x = (env v).testBit k
  | .unk, _ => True

theorem Bit.and_sound (env : Nat → Nat) (p q : Bit) (x y : Bool)
    (hp : p.sound env x) (hq : q.sound env y) : (p.and q).sound env (x && y) := by
  cases p <;> cases q <;> simp_all [Bit.and, Bit.sound]
  case inp.inp v k v' k' =>
    by_cases h : v = v' ∧ k = k'
    · obtain ⟨rfl, rfl⟩ := h; simp
    · simp [h]

theorem Bit.or_sound (env : Nat → Nat) (p q : Bit) (x y : Bool)
    (hp : p.sound env x) (hq : q.sound env y) : (p.or q).sound env (x || y) := by
  cases p <;> cases q <;> simp_all [Bit.or, Bit.sound]
  case inp.inp v k v' k' =>
    by_cases h : v = v' ∧ k = k'
    · obtain ⟨rfl, rfl⟩ := h; simp
    · simp [h]

namespace E

theorem abs_sound (env : Nat → Nat) (henv : ∀ i, env i < 256) (e : E) :
    ∀ j, (e.abs j).sound env ((e.eval env).testBit j) := by
  induction e with
  | var i =>
    intro j
    by_cases hj : j < 8
    · simp [abs, hj, Bit.sound, eval]
    · have : env i < 2 ^ j := Nat.lt_of_lt_of_le (henv i)
        (by have : (256 : Nat) = 2 ^ 8 := rfl
            rw [this]; exact Nat.pow_le_pow_right (by decide) (by omega))
      simp [abs, hj, Bit.sound, eval, Nat.testBit_lt_two_pow this]
  | lit n =>
    intro j
    by_cases h : n.testBit j <;> simp [abs, h, Bit.sound, eval]
  | and a b iha ihb =>
    intro j
    simp only [abs, eval, Nat.testBit_and]
    exact Bit.and_sound env _ _ _ _ (iha j) (ihb j)
  | or a b iha ihb =>
    intro j
    simp only [abs, eval, Nat.testBit_or]
    exact Bit.or_sound env _ _ _ _ (iha j) (ihb j)
  | shl a k iha =>
    intro j
    by_cases hj : j < k
    · simp [abs, hj, Bit.sound, eval, Nat.testBit_shiftLeft]
      omega
    · have hge : k ≤ j := by omega
      simp only [abs, hj, if_false, eval, Nat.testBit_shiftLeft, ge_iff_le, hge, decide_true,
        Bool.true_and]
      exact iha (j - k)
  | shr a k iha =>
    intro j
    simp only [abs, eval, Nat.testBit_shiftRight]
    exact iha (k + j)
  | add a b _ _ => intro j; simp [abs, Bit.sound]
  | div a k _ => intro j; simp [abs, Bit.sound]
  | eq a b _ _ => intro j; simp [abs, Bit.sound]
  | lt a b _ _ => intro j; simp [abs, Bit.sound]
  | land a b _ _ => intro j; simp [abs, Bit.sound]
  | ite c t e _ _ _ => intro j; simp [abs, Bit.sound]

theorem eval_lt_wid (env : Nat → Nat) (henv : ∀ i, env i < 256) (e : E) (hb : e.bitwise = true) :
    e.eval env < 2 ^ e.wid := by
  induction e with
  | var i => simpa [eval, wid] using henv i
  | lit n => simpa [eval, wid] using Nat.lt_log2_self
  | and a b iha ihb =>
    simp [bitwise] at hb
    have ha := iha hb.1
    have hb' := ihb hb.2
    simp only [eval, wid]
    rcases Nat.le_total a.wid b.wid with h | h
    · rw [Nat.min_eq_left h]; exact Nat.lt_of_le_of_lt Nat.and_le_left ha
    · rw [Nat.min_eq_right h]; exact Nat.lt_of_le_of_lt Nat.and_le_right hb'
  | or a b iha ihb =>
    simp [bitwise] at hb
    have ha := iha hb.1
    have hb' := ihb hb.2
    simp only [eval, wid]
    apply Nat.or_lt_two_pow
    · exact Nat.lt_of_lt_of_le ha (Nat.pow_le_pow_right (by decide) (Nat.le_max_left _ _))
    · exact Nat.lt_of_lt_of_le hb' (Nat.pow_le_pow_right (by decide) (Nat.le_max_right _ _))
  | shl a k iha =>
    simp [bitwise] at hb
    have ha := iha hb
    simp only [eval, wid, Nat.shiftLeft_eq, Nat.pow_add]
    exact Nat.mul_lt_mul_of_pos_right ha (Nat.two_pow_pos k)
  | shr a k iha =>
    simp [bitwise] at hb
    have ha := iha hb
    simp only [eval, wid]
    exact Nat.lt_of_le_of_lt (Nat.shiftRight_le _ _) ha
  | add a b _ _ => simp [bitwise] at hb
  | div a k _ => simp [bitwise] at hb
  | eq a b _ _ => simp [bitwise] at hb
  | lt a b _ _ => simp [bitwise] at hb
  | land a b _ _ => simp [bitwise] at hb
  | ite c t e _ _ _ => simp [bitwise] at hb

/-- **The decision procedure is sound**: expressions with the same, fully known bit routing are
equal on every assignment of bytes. -/
theorem eval_eq_of_same (e1 e2 : E) (h : same e1 e2 = true) (env : Nat → Nat)
    (henv : ∀ i, env i < 256) : e1.eval env = e2.eval env := by
  simp only [same, Bool.and_eq_true, List.all_eq_true, List.mem_range, beq_iff_eq, bne_iff_ne,
    ne_eq] at h
  obtain ⟨⟨hb1, hb2⟩, hall⟩ := h
  apply Nat.eq_of_testBit_eq
  intro j
  by_cases hj : j < max e1.wid e2.wid
  · obtain ⟨heq, hunk⟩ := hall j hj
    have s1 := abs_sound env henv e1 j
    have s2 := abs_sound env henv e2 j
    rw [← heq] at s2
    cases hd : e1.abs j with
    | zero => rw [hd] at s1 s2; simp only [Bit.sound] at s1 s2; rw [s1, s2]
    | one => rw [hd] at s1 s2; simp only [Bit.sound] at s1 s2; rw [s1, s2]
    | inp v k => rw [hd] at s1 s2; simp only [Bit.sound] at s1 s2; rw [s1, s2]
    | unk => exact absurd hd hunk
  · have hw : max e1.wid e2.wid ≤ j := by omega
    have l1 : e1.eval env < 2 ^ j := Nat.lt_of_lt_of_le (eval_lt_wid env henv e1 hb1)
      (Nat.pow_le_pow_right (by decide) (Nat.le_trans (Nat.le_max_left _ _) hw))
    have l2 : e2.eval env < 2 ^ j := Nat.lt_of_lt_of_le (eval_lt_wid env henv e2 hb2)
      (Nat.pow_le_pow_right (by decide) (Nat.le_trans (Nat.le_max_right _ _) hw))
    rw [Nat.testBit_lt_two_pow l1, Nat.testBit_lt_two_pow l2]

end E

end C15

/-! ## Generic round-trip lemmas for codecs given as expression lists -/
namespace C15

theorem getD_map_eval (l : List E) (env : Nat → Nat) (i : Nat) :
    (l.map (E.eval env)).getD i 0 = (l.getD i (.lit 0)).eval env := by
  simp only [List.getD_eq_getElem?_getD, List.getElem?_map]
  cases l[i]? <;> simp [E.eval]

/-- `same`, looking through a top-level `ite` (condition values equal, branches equal). -/
def E.sameX : E → E → Bool
  | .ite c t e, .ite c' t' e' => E.same c c' && E.sameX t t' && E.sameX e e'
  | a, b => E.same a b

theorem E.eval_eq_of_sameX (e1 e2 : E) (h : E.sameX e1 e2 = true) (env : Nat → Nat)
    (henv : ∀ i, env i < 256) : e1.eval env = e2.eval env := by
  induction e1 generalizing e2 with
  | ite c t e _ iht ihe =>
    cases e2 with
    | ite c' t' e' =>
      simp only [E.sameX, Bool.and_eq_true] at h
      simp only [E.eval, E.eval_eq_of_same c c' h.1.1 env henv, iht t' h.1.2, ihe e' h.2]
    | _ => exact E.eval_eq_of_same _ _ (by simpa [E.sameX] using h) env henv
  | _ => exact E.eval_eq_of_same _ _ (by simpa [E.sameX] using h) env henv

def sameList : List E → List E → Bool
  | [], [] => true
  | a :: as, b :: bs => E.sameX a b && sameList as bs
  | _, _ => false

theorem map_eval_eq_of_sameList (l1 l2 : List E) (h : sameList l1 l2 = true) (env : Nat → Nat)
    (henv : ∀ i, env i < 256) : l1.map (E.eval env) = l2.map (E.eval env) := by
  induction l1 generalizing l2 with
  | nil => cases l2 <;> simp_all [sameList]
  | cons a as ih =>
    cases l2 with
    | nil => simp [sameList] at h
    | cons b bs =>
      simp only [sameList, Bool.and_eq_true] at h
      simp only [List.map_cons, E.eval_eq_of_sameX a b h.1 env henv, ih bs h.2]

theorem Px.env_lt (p : Px) (hp : p.valid) : ∀ i, p.env i < 256 := by
  intro i
  obtain ⟨h0, h1, h2, h3⟩ := hp
  unfold Px.env
  split <;> assumption

theorem bytesEnv_lt (bs : List Nat) (h : ∀ b ∈ bs, b < 256) : ∀ i, bytesEnv bs i < 256 := by
  intro i
  simp only [bytesEnv, List.getD_eq_getElem?_getD]
  cases hi : bs[i]? with
  | none => simp
  | some b => simpa using h b (List.mem_of_getElem? hi)

/-- decoding what was encoded = evaluating the substituted expressions on the pixel. -/
theorem loadF_saveF (c : Codec) (p : Px) :
    loadF c (saveF c p) = Px.ofList ((c.load.map (E.subst c.save)).map (E.eval p.env)) := by
  unfold loadF saveF
  congr 1
  rw [List.map_map]
  apply List.map_congr_left
  intro e _
  simp only [Function.comp, E.eval_subst]
  congr 1
  funext i
  exact getD_map_eval c.save p.env i

/-- encoding what was decoded = evaluating the substituted expressions on the bytes. -/
theorem saveF_loadF (c : Codec)
    (hv : c.save.all (varsBelow 4) = true) (bs : List Nat) :
    saveF c (loadF c bs) = (c.save.map (E.subst c.load)).map (E.eval (bytesEnv bs)) := by
  unfold saveF
  rw [List.map_map]
  apply List.map_congr_left
  intro e he
  simp only [Function.comp, E.eval_subst]
  apply E.eval_congr 4
  · intro i hi
    rw [← getD_map_eval]
    unfold loadF Px.ofList Px.env
    match i, hi with
    | 0, _ => rfl
    | 1, _ => rfl
    | 2, _ => rfl
    | 3, _ => rfl
  · exact List.all_eq_true.mp hv e he

/-- **Quantisation law from a closed check**: if the substituted loader expressions have the same
bit routing as the quantisation expressions `q`, then `load (save p) = q(p)` for every pixel. -/
theorem quant_of_same (c : Codec) (q : List E)
    (h : sameList (c.load.map (E.subst c.save)) q = true) (p : Px) (hp : p.valid) :
    loadF c (saveF c p) = Px.ofList (q.map (E.eval p.env)) := by
  rw [loadF_saveF, map_eval_eq_of_sameList _ _ h p.env (Px.env_lt p hp)]

/-- **Word law from a closed check**: `save (load bytes) = w(bytes)` for every byte string. -/
theorem words_of_same (c : Codec) (wq : List E)
    (hv : c.save.all (varsBelow 4) = true)
    (h : sameList (c.save.map (E.subst c.load)) wq = true) (bs : List Nat)
    (hb : ∀ b ∈ bs, b < 256) :
    saveF c (loadF c bs) = wq.map (E.eval (bytesEnv bs)) := by
  rw [saveF_loadF c hv, map_eval_eq_of_sameList _ _ h _ (bytesEnv_lt bs hb)]

/-- every byte a bitwise saver produces is a byte. -/
def bytesOK (c : Codec) : Bool := c.save.all fun e => e.bitwise && e.wid ≤ 8

theorem saveF_lt (c : Codec) (h : bytesOK c = true) (p : Px) (hp : p.valid) :
    ∀ b ∈ saveF c p, b < 256 := by
  intro b hb
  simp only [saveF, List.mem_map] at hb
  obtain ⟨e, he, rfl⟩ := hb
  have hw := List.all_eq_true.mp h e he
  simp only [Bool.and_eq_true, decide_eq_true_eq] at hw
  have l := E.eval_lt_wid p.env (Px.env_lt p hp) e hw.1
  exact Nat.lt_of_lt_of_le l (by
    have h8 : (256 : Nat) = 2 ^ 8 := rfl
    rw [h8]; exact Nat.pow_le_pow_right (by decide) hw.2)

end C15

/-! ## The documented quantisations as expressions (evaluate to `q5 …` by definition) -/
namespace C15

def qE5 (x : E) : E := .or (.and x (.lit 248)) (.shr x 5)
def qE6 (x : E) : E := .or (.and x (.lit 252)) (.shr x 6)
def qE4 (x : E) : E := .or (.and x (.lit 240)) (.shr x 4)
def qE1 (x : E) : E := .ite (.and x (.lit 128)) (.lit 255) (.lit 0)
def qE565 : List E := [qE5 R, qE6 G, qE5 B, .lit 255]
/-- what the 565 codecs do as coded: red and blue exchanged. -/
def qE565swapped : List E := [qE5 B, qE6 G, qE5 R, .lit 255]
def qE5551x : List E := [qE5 R, qE5 G, qE5 B, .lit 255]
def qE5551a : List E := [qE5 R, qE5 G, qE5 B, qE1 A]
def qE4444 : List E := [qE4 R, qE4 G, qE4 B, qE4 A]

end C15

/-! ## Idempotence from a closed check, and the one-bit-alpha helper -/
namespace C15

/-- **Idempotence from a closed check**: storing the stored pixel again gives the same bytes. -/
theorem idem_of_same (c : Codec) (hv : c.save.all (varsBelow 4) = true)
    (h : sameList ((c.save.map (E.subst c.load)).map (E.subst c.save)) c.save = true)
    (p : Px) (hp : p.valid) : saveF c (loadF c (saveF c p)) = saveF c p := by
  rw [saveF_loadF c hv]
  have : (c.save.map (E.subst c.load)).map (E.eval (bytesEnv (saveF c p)))
      = ((c.save.map (E.subst c.load)).map (E.subst c.save)).map (E.eval p.env) := by
    have henv : bytesEnv (saveF c p) = fun j => (c.save.getD j (.lit 0)).eval p.env := by
      funext j; exact getD_map_eval c.save p.env j
    simp only [List.map_map]
    apply List.map_congr_left
    intro e _
    simp only [Function.comp, E.eval_subst, henv]
  rw [this, map_eval_eq_of_sameList _ _ h p.env (Px.env_lt p hp)]
  rfl

/-- `(255 if v & 0x80 else 0) & 0x80 = v & 0x80` for bytes. -/
theorem alpha_bit : ∀ v, v < 256 → ((if v &&& 128 ≠ 0 then 255 else 0) &&& 128) = v &&& 128 := by
  decide +kernel

end C15
