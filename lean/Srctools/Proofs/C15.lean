import Srctools.Model.C15
/-!
# C15 — helper lemmas

1. `E.eval_subst`: substitution commutes with evaluation.
2. Soundness of the bit-routing abstract interpretation (`E.abs`, `E.wid`) and the resulting
   decision procedure `E.same`: if `E.same e1 e2 = true` then `e1` and `e2` have the same value under
   **every** assignment of bytes to the variables.
-/
namespace C15

namespace E

theorem eval_subst (env : Nat → Nat) (s : List E) (e : E) :
    (e.subst s).eval env = e.eval (fun i => (s.getD i (.lit 0)).eval env) := by
  induction e with
  | var i => simp [subst, eval]
  | lit n => simp [subst, eval]
  | and a b iha ihb => simp [subst, eval, iha, ihb]
  | or a b iha ihb => simp [subst, eval, iha, ihb]
  | shl a k iha => simp [subst, eval, iha]
  | shr a k iha => simp [subst, eval, iha]
  | add a b iha ihb => simp [subst, eval, iha, ihb]
  | div a k iha => simp [subst, eval, iha]
  | eq a b iha ihb => simp [subst, eval, iha, ihb]
  | lt a b iha ihb => simp [subst, eval, iha, ihb]
  | land a b iha ihb => simp [subst, eval, iha, ihb]
  | ite c t e ihc iht ihe => simp [subst, eval, ihc, iht, ihe]

/-- evaluation only looks at the variables below `n`. -/
theorem eval_congr (n : Nat) (env env' : Nat → Nat) (h : ∀ i, i < n → env i = env' i) (e : E)
    (hv : varsBelow n e = true) : e.eval env = e.eval env' := by
  induction e with
  | var i => simp [varsBelow] at hv; simp [eval, h i hv]
  | lit n => simp [eval]
  | and a b iha ihb => simp [varsBelow] at hv; simp [eval, iha hv.1, ihb hv.2]
  | or a b iha ihb => simp [varsBelow] at hv; simp [eval, iha hv.1, ihb hv.2]
  | shl a k iha => simp [varsBelow] at hv; simp [eval, iha hv]
  | shr a k iha => simp [varsBelow] at hv; simp [eval, iha hv]
  | add a b iha ihb => simp [varsBelow] at hv; simp [eval, iha hv.1, ihb hv.2]
  | div a k iha => simp [varsBelow] at hv; simp [eval, iha hv]
  | eq a b iha ihb => simp [varsBelow] at hv; simp [eval, iha hv.1, ihb hv.2]
  | lt a b iha ihb => simp [varsBelow] at hv; simp [eval, iha hv.1, ihb hv.2]
  | land a b iha ihb => simp [varsBelow] at hv; simp [eval, iha hv.1, ihb hv.2]
  | ite c t e ihc iht ihe =>
    simp [varsBelow] at hv; simp [eval, ihc hv.1.1, iht hv.1.2, ihe hv.2]

end E

/-- what a `Bit` description claims about an actual bit. -/
def Bit.sound (env : Nat → Nat) : Bit → Bool → Prop
  | .zero, x => x = false
  | .one, x => x = true
  | .inp v k, x => x = (env v).testBit k
  | .unk, _ => True

theorem Bit.and_sound (env : Nat → Nat) (p q : Bit) (x y : Bool)
    (hp : p.sound env x) (hq : q.sound env y) : (p.and q).sound env (x && y) := by
  cases p <;> cases q <;> simp_all [Bit.and, Bit.sound]
  case inp.inp v k v' k' =>
    by_cases h : v = v' ∧ k = k'
    · obtain ⟨rfl, rfl⟩ := h; simp
    · simp [h]

theorem Bit.or_sound (env : Nat → Nat) (p q : Bit) (x y : Bool)
    (hp : p.sound env x) (hq : q.sound env y) : (p.or q).sound env (x || y) := by
  cases p <;> cases q <;> simp_all [Bit.or, Bit.sound]
  case inp.inp v k v' k' =>
    by_cases h : v = v' ∧ k = k'
    · obtain ⟨rfl, rfl⟩ := h; simp
    · simp [h]

namespace E

theorem abs_sound (env : Nat → Nat) (henv : ∀ i, env i < 256) (e : E) :
    ∀ j, (e.abs j).sound env ((e.eval env).testBit j) := by
  induction e with
  | var i =>
    intro j
    by_cases hj : j < 8
    · simp [abs, hj, Bit.sound, eval]
    · have : env i < 2 ^ j := Nat.lt_of_lt_of_le (henv i)
        (by have : (256 : Nat) = 2 ^ 8 := rfl
            rw [this]; exact Nat.pow_le_pow_right (by decide) (by omega))
      simp [abs, hj, Bit.sound, eval, Nat.testBit_lt_two_pow this]
  | lit n =>
    intro j
    by_cases h : n.testBit j <;> simp [abs, h, Bit.sound, eval]
  | and a b iha ihb =>
    intro j
    simp only [abs, eval, Nat.testBit_and]
    exact Bit.and_sound env _ _ _ _ (iha j) (ihb j)
  | or a b iha ihb =>
    intro j
    simp only [abs, eval, Nat.testBit_or]
    exact Bit.or_sound env _ _ _ _ (iha j) (ihb j)
  | shl a k iha =>
    intro j
    by_cases hj : j < k
    · simp [abs, hj, Bit.sound, eval, Nat.testBit_shiftLeft]
      omega
    · have hge : k ≤ j := by omega
      simp only [abs, hj, if_false, eval, Nat.testBit_shiftLeft, ge_iff_le, hge, decide_true,
        Bool.true_and]
      exact iha (j - k)
  | shr a k iha =>
    intro j
    simp only [abs, eval, Nat.testBit_shiftRight]
    exact iha (k + j)
  | add a b _ _ => intro j; simp [abs, Bit.sound]
  | div a k _ => intro j; simp [abs, Bit.sound]
  | eq a b _ _ => intro j; simp [abs, Bit.sound]
  | lt a b _ _ => intro j; simp [abs, Bit.sound]
  | land a b _ _ => intro j; simp [abs, Bit.sound]
  | ite c t e _ _ _ => intro j; simp [abs, Bit.sound]

theorem eval_lt_wid (env : Nat → Nat) (henv : ∀ i, env i < 256) (e : E) (hb : e.bitwise = true) :
    e.eval env < 2 ^ e.wid := by
  induction e with
  | var i => simpa [eval, wid] using henv i
  | lit n => simpa [eval, wid] using Nat.lt_log2_self
  | and a b iha ihb =>
    simp [bitwise] at hb
    have ha := iha hb.1
    have hb' := ihb hb.2
    simp only [eval, wid]
    rcases Nat.le_total a.wid b.wid with h | h
    · rw [Nat.min_eq_left h]; exact Nat.lt_of_le_of_lt Nat.and_le_left ha
    · rw [Nat.min_eq_right h]; exact Nat.lt_of_le_of_lt Nat.and_le_right hb'
  | or a b iha ihb =>
    simp [bitwise] at hb
    have ha := iha hb.1
    have hb' := ihb hb.2
    simp only [eval, wid]
    apply Nat.or_lt_two_pow
    · exact Nat.lt_of_lt_of_le ha (Nat.pow_le_pow_right (by decide) (Nat.le_max_left _ _))
    · exact Nat.lt_of_lt_of_le hb' (Nat.pow_le_pow_right (by decide) (Nat.le_max_right _ _))
  | shl a k iha =>
    simp [bitwise] at hb
    have ha := iha hb
    simp only [eval, wid, Nat.shiftLeft_eq, Nat.pow_add]
    exact Nat.mul_lt_mul_of_pos_right ha (Nat.two_pow_pos k)
  | shr a k iha =>
    simp [bitwise] at hb
    have ha := iha hb
    simp only [eval, wid]
    exact Nat.lt_of_le_of_lt (Nat.shiftRight_le _ _) ha
  | add a b _ _ => simp [bitwise] at hb
  | div a k _ => simp [bitwise] at hb
  | eq a b _ _ => simp [bitwise] at hb
  | lt a b _ _ => simp [bitwise] at hb
  | land a b _ _ => simp [bitwise] at hb
  | ite c t e _ _ _ => simp [bitwise] at hb

/-- **The decision procedure is sound**: expressions with the same, fully known bit routing are
equal on every assignment of bytes. -/
theorem eval_eq_of_same (e1 e2 : E) (h : same e1 e2 = true) (env : Nat → Nat)
    (henv : ∀ i, env i < 256) : e1.eval env = e2.eval env := by
  simp only [same, Bool.and_eq_true, List.all_eq_true, List.mem_range, beq_iff_eq, bne_iff_ne,
    ne_eq] at h
  obtain ⟨⟨hb1, hb2⟩, hall⟩ := h
  apply Nat.eq_of_testBit_eq
  intro j
  by_cases hj : j < max e1.wid e2.wid
  · obtain ⟨heq, hunk⟩ := hall j hj
    have s1 := abs_sound env henv e1 j
    have s2 := abs_sound env henv e2 j
    rw [← heq] at s2
    cases hd : e1.abs j with
    | zero => rw [hd] at s1 s2; simp only [Bit.sound] at s1 s2; rw [s1, s2]
    | one => rw [hd] at s1 s2; simp only [Bit.sound] at s1 s2; rw [s1, s2]
    | inp v k => rw [hd] at s1 s2; simp only [Bit.sound] at s1 s2; rw [s1, s2]
    | unk => exact absurd hd hunk
  · have hw : max e1.wid e2.wid ≤ j := by omega
    have l1 : e1.eval env < 2 ^ j := Nat.lt_of_lt_of_le (eval_lt_wid env henv e1 hb1)
      (Nat.pow_le_pow_right (by decide) (Nat.le_trans (Nat.le_max_left _ _) hw))
    have l2 : e2.eval env < 2 ^ j := Nat.lt_of_lt_of_le (eval_lt_wid env henv e2 hb2)
      (Nat.pow_le_pow_right (by decide) (Nat.le_trans (Nat.le_max_right _ _) hw))
    rw [Nat.testBit_lt_two_pow l1, Nat.testBit_lt_two_pow l2]

end E

end C15
