import Srctools.Model.C16
import Srctools.Proofs.Tok
import Srctools.Props.C02
/-! Helper lemmas for C16 (i): `_write_longstring` cuts only at escape-unit boundaries, and the written
text tokenizes back to the pieces. -/
namespace C16
open Tok

/-! ## trailing backslashes -/

theorem trailingBs_nil : trailingBs [] = 0 := rfl

theorem trailingBs_append_singleton (l : List Char) (c : Char) :
    trailingBs (l ++ [c]) = if c = '\\' then trailingBs l + 1 else 0 := by
  unfold trailingBs
  simp only [List.reverse_append, List.reverse_cons, List.reverse_nil, List.nil_append,
    List.singleton_append, List.takeWhile_cons]
  by_cases h : c = '\\' <;> simp [h]

/-- A prefix with an even number of trailing backslashes does not change the parity. -/
theorem trailingBs_prefix_parity (P : List Char) (hP : trailingBs P % 2 = 0) (X : List Char) :
    trailingBs (P ++ X) % 2 = trailingBs X % 2 := by
  have key : ∀ Y : List Char, trailingBs (P ++ Y.reverse) % 2 = trailingBs Y.reverse % 2 := by
    intro Y
    induction Y with
    | nil => simp [hP, trailingBs_nil]
    | cons d Y ih =>
      rw [List.reverse_cons, ← List.append_assoc, trailingBs_append_singleton,
        trailingBs_append_singleton]
      by_cases h : d = '\\'
      · simp only [h, if_true]; omega
      · simp [h]
  have := key X.reverse
  rwa [List.reverse_reverse] at this

theorem trailingBs_single (c : Char) : trailingBs [c] = if c = '\\' then 1 else 0 := by
  have := trailingBs_append_singleton [] c
  simpa [trailingBs_nil] using this

theorem trailingBs_pair (a b : Char) :
    trailingBs [a, b] = if b = '\\' then (if a = '\\' then 2 else 1) else 0 := by
  have := trailingBs_append_singleton [a] b
  rw [trailingBs_single] at this
  simp only [List.singleton_append] at this
  rw [this]
  by_cases hb : b = '\\' <;> by_cases ha : a = '\\' <;> simp [ha, hb]

/-- Every replacement `escape_text` makes has an even number of trailing backslashes. -/
theorem trailingBs_escChar {T : Tables} (F : EscFacts T) (ml : Bool) (c : Char) :
    trailingBs (escChar T ml c) % 2 = 0 := by
  rcases escChar_cases F ml c with ⟨hr, _, h2, _, _⟩ | ⟨sym, hs, _, _, _⟩
  · rw [hr, trailingBs_single]; simp [h2]
  · rw [hs, trailingBs_pair]
    by_cases h : sym = '\\' <;> simp [h]

/-! ## a cut with even backslash parity falls between two escape units -/

theorem cut_ok {T : Tables} (F : EscFacts T) (ml : Bool) (s : List Char) :
    ∀ p, p ≤ (escapeText T ml s).length → trailingBs ((escapeText T ml s).take p) % 2 = 0 →
      ∃ s1 s2, s = s1 ++ s2 ∧ (escapeText T ml s).take p = escapeText T ml s1 ∧
        (escapeText T ml s).drop p = escapeText T ml s2 := by
  induction s with
  | nil =>
    intro p _ _
    exact ⟨[], [], rfl, by simp [escapeText], by simp [escapeText]⟩
  | cons c cs ih =>
    intro p hp hpar
    by_cases hp0 : p = 0
    · subst hp0
      exact ⟨[], c :: cs, rfl, by simp [escapeText], by simp⟩
    have hlen : (escChar T ml c).length ≤ p := by
      rcases escChar_cases F ml c with ⟨hr, _, _, _, _⟩ | ⟨sym, hs, _, _, _⟩
      · rw [hr]; simp; omega
      · rw [hs]
        by_cases hp1 : p = 1
        · subst hp1
          simp only [escapeText, hs] at hpar
          simp [trailingBs_single] at hpar
        · simp; omega
    simp only [escapeText] at hp hpar ⊢
    have htake : (escChar T ml c ++ escapeText T ml cs).take p
        = escChar T ml c ++ (escapeText T ml cs).take (p - (escChar T ml c).length) := by
      rw [List.take_append]
      rw [List.take_of_length_le hlen]
    have hdrop : (escChar T ml c ++ escapeText T ml cs).drop p
        = (escapeText T ml cs).drop (p - (escChar T ml c).length) := by
      rw [List.drop_append]
      rw [List.drop_of_length_le hlen]
      simp
    rw [htake] at hpar
    rw [trailingBs_prefix_parity _ (trailingBs_escChar F ml c)] at hpar
    have hp' : p - (escChar T ml c).length ≤ (escapeText T ml cs).length := by
      simp only [List.length_append] at hp; omega
    obtain ⟨s1, s2, hs, ht, hd⟩ := ih _ hp' hpar
    refine ⟨c :: s1, s2, by simp [hs], ?_, ?_⟩
    · rw [htake, ht]; simp [escapeText]
    · rw [hdrop, hd]

/-! ## `rfind` -/

theorem rfind2_spec (a b : Char) : ∀ (l : List Char) (i : Nat) (best r : Option Nat),
    rfind2 a b l i best = r → r = best ∨ ∃ j, r = some (i + j) ∧ l[j]? = some a ∧ l[j + 1]? = some b := by
  intro l
  induction l with
  | nil => intro i best r h; left; simpa [rfind2] using h.symm
  | cons x t ih =>
    intro i best r h
    cases t with
    | nil => left; simpa [rfind2] using h.symm
    | cons y t' =>
      rw [rfind2] at h
      rcases ih (i + 1) _ r h with h1 | ⟨j, hj, ha, hb⟩
      · by_cases hxy : x = a ∧ y = b
        · right
          refine ⟨0, ?_, ?_, ?_⟩
          · simpa [hxy] using h1
          · simp [hxy.1]
          · simp [hxy.2]
        · left; simpa [hxy] using h1
      · right
        exact ⟨j + 1, by rw [hj]; congr 1; omega, by simpa using ha, by simpa using hb⟩

theorem rfind1_spec (a : Char) : ∀ (l : List Char) (i : Nat) (best r : Option Nat),
    rfind1 a l i best = r → r = best ∨ ∃ j, r = some (i + j) ∧ l[j]? = some a := by
  intro l
  induction l with
  | nil => intro i best r h; left; simpa [rfind1] using h.symm
  | cons x t ih =>
    intro i best r h
    rw [rfind1] at h
    rcases ih (i + 1) _ r h with h1 | ⟨j, hj, ha⟩
    · by_cases hx : x = a
      · right; exact ⟨0, by simpa [hx] using h1, by simp [hx]⟩
      · left; simpa [hx] using h1
    · right; exact ⟨j + 1, by rw [hj]; congr 1; omega, by simpa using ha⟩

theorem rfindPair_some {a b : Char} {l : List Char} {bound i : Nat}
    (h : rfindPair a b l bound = some i) : i + 1 < bound ∧ l[i + 1]? = some b := by
  unfold rfindPair at h
  rcases rfind2_spec a b _ 0 none _ h with h1 | ⟨j, hj, _, hb⟩
  · cases h1
  · simp only [Nat.zero_add, Option.some.injEq] at hj
    subst hj
    rw [List.getElem?_take] at hb
    split at hb
    · exact ⟨by assumption, hb⟩
    · cases hb

theorem rfindChar_some {a : Char} {l : List Char} {bound i : Nat}
    (h : rfindChar a l bound = some i) : i < bound ∧ l[i]? = some a := by
  unfold rfindChar at h
  rcases rfind1_spec a _ 0 none _ h with h1 | ⟨j, hj, ha⟩
  · cases h1
  · simp only [Nat.zero_add, Option.some.injEq] at hj
    subst hj
    rw [List.getElem?_take] at ha
    split at ha
    · exact ⟨by assumption, ha⟩
    · cases ha

/-- Taking one more element. -/
theorem take_succ_of_get {l : List Char} {n : Nat} {c : Char} (h : l[n]? = some c) :
    l.take (n + 1) = l.take n ++ [c] := by
  rw [List.take_add_one, h]; rfl

/-! ## `split_pos` is a positive, bounded, unit-aligned cut -/

theorem splitPos_spec (cfg : LongCfg) (hb : cfg.backoff = true) (hl : 2 ≤ cfg.limit)
    (hsm : 1 ≤ cfg.small) (rem : List Char) (hrem : cfg.limit < rem.length) :
    0 < splitPos cfg rem ∧ splitPos cfg rem ≤ cfg.limit ∧
      trailingBs (rem.take (splitPos cfg rem)) % 2 = 0 := by
  unfold splitPos
  cases hp : rfindPair '\\' 'n' rem cfg.limit with
  | some i =>
    obtain ⟨hi, hn⟩ := rfindPair_some hp
    simp only
    split
    · refine ⟨by omega, by omega, ?_⟩
      rw [take_succ_of_get hn, trailingBs_append_singleton]
      simp
    · exact splitPos_tail cfg hb hl rem hrem
  | none =>
    simp only
    split
    · rename_i h1; omega
    · exact splitPos_tail cfg hb hl rem hrem
where
  splitPos_tail (cfg : LongCfg) (hb : cfg.backoff = true) (hl : 2 ≤ cfg.limit) (rem : List Char)
      (hrem : cfg.limit < rem.length) :
      0 < (match rfindChar ' ' rem cfg.limit with
        | some i => i + 1
        | none => if cfg.backoff && trailingBs (rem.take cfg.limit) % 2 == 1 then cfg.limit - 1 else cfg.limit) ∧
      (match rfindChar ' ' rem cfg.limit with
        | some i => i + 1
        | none => if cfg.backoff && trailingBs (rem.take cfg.limit) % 2 == 1 then cfg.limit - 1 else cfg.limit) ≤ cfg.limit ∧
      trailingBs (rem.take (match rfindChar ' ' rem cfg.limit with
        | some i => i + 1
        | none => if cfg.backoff && trailingBs (rem.take cfg.limit) % 2 == 1 then cfg.limit - 1 else cfg.limit)) % 2 = 0 := by
    cases hs : rfindChar ' ' rem cfg.limit with
    | some i =>
      obtain ⟨hi, hsp⟩ := rfindChar_some hs
      refine ⟨by simp, by simp; omega, ?_⟩
      simp only
      rw [take_succ_of_get hsp, trailingBs_append_singleton]
      simp
    | none =>
      simp only [hb, Bool.true_and]
      have hget : ∃ d, rem[cfg.limit - 1]? = some d := by
        have : cfg.limit - 1 < rem.length := by omega
        exact ⟨rem[cfg.limit - 1], by simp [this]⟩
      obtain ⟨d, hd⟩ := hget
      have htk : rem.take cfg.limit = rem.take (cfg.limit - 1) ++ [d] := by
        have := take_succ_of_get hd
        rwa [show cfg.limit - 1 + 1 = cfg.limit by omega] at this
      by_cases hodd : trailingBs (rem.take cfg.limit) % 2 = 1
      · simp only [hodd, beq_self_eq_true, if_true]
        refine ⟨by omega, by omega, ?_⟩
        rw [htk, trailingBs_append_singleton] at hodd
        by_cases hdb : d = '\\'
        · simp only [hdb, if_true] at hodd; omega
        · simp [hdb] at hodd
      · have : (trailingBs (rem.take cfg.limit) % 2 == 1) = false := by
          simp only [beq_eq_false_iff_ne, ne_eq]; exact hodd
        simp only [this, Bool.false_eq_true, if_false]
        refine ⟨by omega, Nat.le_refl _, by omega⟩

/-! ## the loop: every section is the escape of a piece of the text -/

/-- Requirements on the shape parameters under which the law holds (true for the repaired code). -/
def cfgOK (cfg : LongCfg) : Bool := cfg.backoff && decide (2 ≤ cfg.limit) && decide (1 ≤ cfg.small)

theorem sections_spec {T : Tables} (F : EscFacts T) (ml : Bool) (cfg : LongCfg) (hc : cfgOK cfg = true) :
    ∀ (fuel : Nat) (s : List Char) (first : Bool), (escapeText T ml s).length < fuel →
      ∃ ps : List (List Char), ps.flatten = s ∧
        sections cfg fuel (escapeText T ml s) first = ps.map (escapeText T ml) ∧
        (∀ sec ∈ sections cfg fuel (escapeText T ml s) first, sec.length ≤ cfg.limit) ∧
        (ps = [] → s = [] ∧ ¬ (first = true ∧ cfg.emptyQuotes = true)) ∧
        (s ≠ [] → ∀ q ∈ ps, q ≠ []) := by
  unfold cfgOK at hc
  simp only [Bool.and_eq_true, decide_eq_true_eq] at hc
  obtain ⟨⟨hb, hl⟩, hsm⟩ := hc
  intro fuel
  induction fuel with
  | zero => intro s first h; omega
  | succ fuel ih =>
    intro s first hlen
    rw [sections]
    by_cases hbig : (escapeText T ml s).length > cfg.limit
    · simp only [hbig, if_true]
      obtain ⟨hpos, hle, hpar⟩ := splitPos_spec cfg hb hl hsm _ hbig
      obtain ⟨s1, s2, hs, ht, hd⟩ := cut_ok F ml s _ (by omega) hpar
      have hfuel : (escapeText T ml s2).length < fuel := by
        rw [← hd, List.length_drop]; omega
      obtain ⟨ps, hflat, hsec, hlim, _, hne⟩ := ih s2 false hfuel
      have hs1 : s1 ≠ [] := by
        intro h0
        have : ((escapeText T ml s).take (splitPos cfg (escapeText T ml s))).length = 0 := by
          rw [ht, h0]; simp [escapeText]
        rw [List.length_take] at this
        omega
      refine ⟨s1 :: ps, by simp [hflat, hs], ?_, ?_, by simp, ?_⟩
      · rw [ht, hd, hsec]; simp
      · intro sec hmem
        simp only [List.mem_cons] at hmem
        rcases hmem with rfl | hmem
        · rw [List.length_take]; omega
        · rw [hd] at hmem; exact hlim _ hmem
      · intro _ q hq
        simp only [List.mem_cons] at hq
        rcases hq with rfl | hq
        · exact hs1
        · by_cases h2 : s2 = []
          · subst h2
            -- ps comes from the empty remainder: it is [] or [[]]; but the sections of an empty
            -- remainder with first = false are []
            rw [show escapeText T ml ([] : List Char) = [] from rfl] at hsec
            cases fuel with
            | zero => omega
            | succ f =>
              rw [sections] at hsec
              simp at hsec
              subst hsec
              cases hq
          · exact hne h2 q hq
    · simp only [hbig, if_false]
      by_cases hs : s = []
      · subst hs
        simp only [escapeText, ne_eq, not_true_eq_false, false_or]
        by_cases hfe : first = true ∧ cfg.emptyQuotes = true
        · refine ⟨[[]], rfl, by simp [hfe, escapeText], by simp [hfe], by simp, by simp⟩
        · refine ⟨[], rfl, by simp [hfe], by simp [hfe], fun _ => ⟨trivial, hfe⟩, by simp⟩
      · have hne : escapeText T ml s ≠ [] := by
          cases s with
          | nil => exact absurd rfl hs
          | cons c cs =>
            simp only [escapeText]
            rcases escChar_cases F ml c with ⟨hr, _⟩ | ⟨sym, hsy, _⟩
            · rw [hr]; simp
            · rw [hsy]; simp
        refine ⟨[s], by simp, by simp [hne], ?_, by simp, by simp [hs]⟩
        intro sec hmem
        simp only [hne, ne_eq, not_false_eq_true, true_or, if_true, List.mem_singleton] at hmem
        subst hmem
        omega

/-! ## tokens of the written text -/

/-- Decidable requirement on the tokenizer tables: `escOK` and blank, `+`, LF are not operators. -/
def fgdTablesOK (T : Tables) : Bool :=
  escOK T && [' ', '\t', '+', '\n'].all (fun c => (T.operator c).isNone)

structure TokFacts (T : Tables) : Prop where
  esc : escOK T = true
  sp : T.operator ' ' = none
  tab : T.operator '\t' = none
  plus : T.operator '+' = none
  nl : T.operator '\n' = none

theorem tokFacts {T : Tables} (h : fgdTablesOK T = true) : TokFacts T := by
  unfold fgdTablesOK at h
  simp only [Bool.and_eq_true, List.all_cons, List.all_nil, Bool.and_true, Option.isNone_iff_eq_none] at h
  exact ⟨h.1, h.2.1, h.2.2.1, h.2.2.2.1, h.2.2.2.2⟩

theorem st_eta (st : St) (h : st.lastCr = false) : ({ st with lastCr := false } : St) = st := by
  cases st; simp_all

theorem nextToken_ws {T : Tables} (o : Opts) (fold : Char → List Char) (c : Char)
    (hc : c = ' ' ∨ c = '\t') (hop : T.operator c = none) (f : Nat) (st : St) (cs : List Char) :
    nextToken T o fold (f + 1) st (c :: cs) = nextToken T o fold f { st with lastCr := false } cs := by
  rw [nextToken]
  simp only [hop]
  have e1 : c ≠ '\r' := by rcases hc with rfl | rfl <;> decide
  have e2 : c ≠ '\n' := by rcases hc with rfl | rfl <;> decide
  simp only [e1, e2, if_false, hc, if_true]

theorem nextToken_blanks {T : Tables} (K : TokFacts T) (o : Opts) (fold : Char → List Char) :
    ∀ (ws : List Char), (∀ c ∈ ws, c = ' ' ∨ c = '\t') → ∀ (f : Nat) (st : St), st.lastCr = false →
      ∀ cs, nextToken T o fold (f + ws.length) st (ws ++ cs) = nextToken T o fold f st cs := by
  intro ws
  induction ws with
  | nil => intro _ f st _ cs; rfl
  | cons w ws ih =>
    intro hws f st hst cs
    have hw := hws w (by simp)
    have hop : T.operator w = none := by rcases hw with rfl | rfl; exact K.sp; exact K.tab
    rw [List.length_cons, ← Nat.add_assoc, List.cons_append, nextToken_ws o fold w hw hop, st_eta st hst]
    exact ih (fun c hc => hws c (by simp [hc])) f st hst cs

theorem nextToken_plus {T : Tables} (K : TokFacts T) (o : Opts) (ho : o.plusOperator = true)
    (fold : Char → List Char) (f : Nat) (st : St) (cs : List Char) :
    nextToken T o fold (f + 1) st ('+' :: cs) = .tok .plus ['+'] { st with lastCr := false } cs := by
  rw [nextToken]
  simp only [K.plus]
  have e1 : ('+' : Char) ≠ '\r' := by decide
  have e2 : ('+' : Char) ≠ '\n' := by decide
  have e3 : ¬ (('+' : Char) = ' ' ∨ ('+' : Char) = '\t') := by decide
  have e4 : ('+' : Char) ≠ '/' := by decide
  have e5 : ('+' : Char) ≠ '"' := by decide
  have e6 : ('+' : Char) ≠ '[' := by decide
  have e7 : ('+' : Char) ≠ '(' := by decide
  have e8 : ('+' : Char) ≠ Char.ofNat 0xFEFF := by decide
  have e9 : ('+' : Char) ≠ ':' := by decide
  simp only [e1, e2, e3, e4, e5, e6, e7, e8, e9, if_false, false_and, ho, and_self, if_true]

theorem nextToken_lf {T : Tables} (K : TokFacts T) (o : Opts) (fold : Char → List Char) (f : Nat)
    (st : St) (hst : st.lastCr = false) (cs : List Char) :
    nextToken T o fold (f + 1) st ('\n' :: cs) = .tok .newline ['\n'] { st with line := st.line + 1 } cs := by
  rw [nextToken]
  simp only [K.nl]
  have e1 : ('\n' : Char) ≠ '\r' := by decide
  simp [e1, hst]

theorem nextToken_eof {T : Tables} (o : Opts) (fold : Char → List Char) (f : Nat) (st : St) :
    nextToken T o fold (f + 1) st [] = .tok .eof [] st [] := by
  rw [nextToken]

theorem runAux_step {T : Tables} {o : Opts} {fold : Char → List Char} {st st' : St}
    {inp rest v : List Char} {k : Kind}
    (h : nextToken T o fold (inp.length + 1) st inp = .tok k v st' rest) (hk : k ≠ .eof) (n : Nat)
    (acc : List Obs) :
    runAux T o fold (n + 1) st inp acc = runAux T o fold n st' rest (⟨k.code, v, st'.line⟩ :: acc) := by
  rw [runAux, h]
  simp [hk]

theorem runAux_eof {T : Tables} {o : Opts} {fold : Char → List Char} {st st' : St}
    {inp rest v : List Char}
    (h : nextToken T o fold (inp.length + 1) st inp = .tok .eof v st' rest) (n : Nat) (acc : List Obs) :
    runAux T o fold (n + 1) st inp acc = { toks := (⟨0, v, st'.line⟩ :: acc).reverse, err := none } := by
  rw [runAux, h]
  simp [Kind.code]

/-- The quoted, escaped piece. -/
def qe (T : Tables) (p : List Char) : List Char := quote (escapeText T false p)

/-- The tokens (with line numbers) of `"p1" +⏎ "p2" +⏎ … "pk"` starting on line `l`, without EOF. -/
def longObs : Nat → List (List Char) → List Obs
  | _, [] => []
  | l, [p] => [⟨1, p, l⟩]
  | l, p :: q :: ps => ⟨1, p, l⟩ :: ⟨16, ['+'], l⟩ :: ⟨2, ['\n'], l + 1⟩ :: longObs (l + 1) (q :: ps)

theorem qe_append (T : Tables) (p r : List Char) :
    qe T p ++ r = '"' :: (escapeText T false p ++ '"' :: r) := by
  simp [qe, quote]

/-- One STRING token for one quoted piece, after leading blanks. -/
theorem runAux_piece {T : Tables} (K : TokFacts T) (o : Opts) (hoe : o.allowEscapes = true)
    (fold : Char → List Char) (ws : List Char) (hws : ∀ c ∈ ws, c = ' ' ∨ c = '\t')
    (p r : List Char) (st : St) (hst : st.lastCr = false) (n : Nat) (acc : List Obs) :
    runAux T o fold (n + 1) st (ws ++ (qe T p ++ r)) acc
      = runAux T o fold n st r (⟨1, p, st.line⟩ :: acc) := by
  have hcount := C02_single_line_count T K.esc p
  have hnt : nextToken T o fold ((ws ++ (qe T p ++ r)).length + 1) st (ws ++ (qe T p ++ r))
      = .tok .string p st r := by
    rw [qe_append]
    have hl : (ws ++ '"' :: (escapeText T false p ++ '"' :: r)).length + 1
        = ((escapeText T false p ++ '"' :: r).length + 1 + 1) + ws.length := by
      simp only [List.length_append, List.length_cons]; omega
    rw [hl, nextToken_blanks K o fold ws hws _ st hst, C02_inverse T K.esc o hoe, hcount]
    cases st; simp_all
  rw [runAux_step hnt (by decide)]
  rfl

theorem runAux_long {T : Tables} (K : TokFacts T) (o : Opts) (hoe : o.allowEscapes = true)
    (hop : o.plusOperator = true) (fold : Char → List Char) (indent : List Char)
    (hind : ∀ c ∈ indent, c = ' ' ∨ c = '\t') :
    ∀ (ps : List (List Char)), ps ≠ [] → ∀ (ws : List Char), (∀ c ∈ ws, c = ' ' ∨ c = '\t') →
      ∀ (n : Nat) (st : St), st.lastCr = false → ∀ (acc : List Obs) (tail : List Char),
      runAux T o fold (n + (3 * ps.length - 2)) st
          (ws ++ (joinWith (plusSep indent) (ps.map (qe T)) ++ tail)) acc
        = runAux T o fold n { line := st.line + (ps.length - 1), lastCr := false } tail
            ((longObs st.line ps).reverse ++ acc) := by
  intro ps
  induction ps with
  | nil => intro h; exact absurd rfl h
  | cons p ps ih =>
    intro _ ws hws n st hst acc tail
    cases ps with
    | nil =>
      simp only [List.map_cons, List.map_nil, joinWith, List.length_singleton, longObs,
        List.reverse_cons, List.reverse_nil, List.nil_append, List.singleton_append]
      rw [show n + (3 * 1 - 2) = n + 1 from rfl, runAux_piece K o hoe fold ws hws p tail st hst]
      cases st; simp_all
    | cons q ps' =>
      have hlen : n + (3 * (p :: q :: ps').length - 2) = (n + (3 * (q :: ps').length - 2)) + 1 + 1 + 1 := by
        simp only [List.length_cons]; omega
      simp only [List.map_cons, joinWith] at ih ⊢
      rw [hlen, List.append_assoc, List.append_assoc,
        runAux_piece K o hoe fold ws hws p _ st hst]
      -- the " +" token
      have hplus : ∀ (rest : List Char),
          nextToken T o fold ((plusSep indent ++ rest).length + 1) st (plusSep indent ++ rest)
            = .tok .plus ['+'] st ('\n' :: (indent ++ rest)) := by
        intro rest
        simp only [plusSep, List.cons_append, List.length_cons]
        rw [nextToken_ws o fold ' ' (Or.inl rfl) K.sp, nextToken_plus K o hop, st_eta st hst]
      rw [runAux_step (hplus _) (by decide)]
      -- the newline token
      have hnl : ∀ (rest : List Char),
          nextToken T o fold (('\n' :: rest).length + 1) st ('\n' :: rest)
            = .tok .newline ['\n'] { st with line := st.line + 1 } rest := by
        intro rest
        exact nextToken_lf K o fold _ st hst rest
      rw [runAux_step (hnl _) (by decide)]
      have := ih (by simp) indent hind n { st with line := st.line + 1 } hst
        (⟨Kind.newline.code, ['\n'], st.line + 1⟩ :: ⟨Kind.plus.code, ['+'], st.line⟩ :: ⟨1, p, st.line⟩ :: acc) tail
      rw [this]
      simp only [longObs, List.length_cons, List.reverse_cons, List.append_assoc, List.singleton_append,
        Kind.code]
      congr 2
      omega

theorem qe_length (T : Tables) (p : List Char) : 2 ≤ (qe T p).length := by
  simp [qe, quote]

theorem joinWith_length (T : Tables) (indent : List Char) :
    ∀ ps : List (List Char), ps ≠ [] →
      5 * ps.length ≤ (joinWith (plusSep indent) (ps.map (qe T))).length + 3 := by
  intro ps
  induction ps with
  | nil => intro h; exact absurd rfl h
  | cons p ps ih =>
    intro _
    cases ps with
    | nil => have := qe_length T p; simp [joinWith]; omega
    | cons q ps' =>
      have h1 := ih (by simp)
      have h2 := qe_length T p
      simp only [List.map_cons, joinWith, List.length_append, List.length_cons, plusSep] at h1 ⊢
      omega

/-- Tokens of the whole written text followed by nothing, or by one line feed. -/
theorem run_pieces {T : Tables} (K : TokFacts T) (o : Opts) (hoe : o.allowEscapes = true)
    (hop : o.plusOperator = true) (fold : Char → List Char) (indent : List Char)
    (hind : ∀ c ∈ indent, c = ' ' ∨ c = '\t') (ps : List (List Char)) (hps : ps ≠ []) :
    run T o fold (joinWith (plusSep indent) (ps.map (qe T)))
      = { toks := longObs 1 ps ++ [⟨0, [], ps.length⟩], err := none } ∧
    run T o fold (joinWith (plusSep indent) (ps.map (qe T)) ++ ['\n'])
      = { toks := longObs 1 ps ++ [⟨2, ['\n'], ps.length + 1⟩, ⟨0, [], ps.length + 1⟩], err := none } := by
  have hlen := joinWith_length T indent ps hps
  have hk : 1 ≤ ps.length := by cases ps with | nil => exact absurd rfl hps | cons _ _ => simp
  constructor
  · unfold run
    obtain ⟨m, hm⟩ : ∃ m, (joinWith (plusSep indent) (ps.map (qe T))).length + 2
        = (m + 1) + (3 * ps.length - 2) := ⟨(joinWith (plusSep indent) (ps.map (qe T))).length + 2 - (3 * ps.length - 2) - 1, by omega⟩
    rw [hm]
    have := runAux_long K o hoe hop fold indent hind ps hps [] (by simp) (m + 1) {} rfl [] []
    simp only [List.nil_append, List.append_nil] at this
    rw [this, runAux_eof (nextToken_eof o fold _ _)]
    simp
    omega
  · unfold run
    obtain ⟨m, hm⟩ : ∃ m, (joinWith (plusSep indent) (ps.map (qe T)) ++ ['\n']).length + 2
        = (m + 1 + 1) + (3 * ps.length - 2) := ⟨(joinWith (plusSep indent) (ps.map (qe T))).length + 3 - (3 * ps.length - 2) - 2, by simp; omega⟩
    rw [hm]
    have := runAux_long K o hoe hop fold indent hind ps hps [] (by simp) (m + 1 + 1) {} rfl [] ['\n']
    simp only [List.nil_append] at this
    rw [this]
    rw [runAux_step (nextToken_lf K o fold _ _ rfl []) (by decide), runAux_eof (nextToken_eof o fold _ _)]
    simp [Kind.code]
    omega

theorem concatStrings_append (a b : List Obs) :
    concatStrings (a ++ b) = concatStrings a ++ concatStrings b := by
  induction a with
  | nil => rfl
  | cons x xs ih => simp [concatStrings, ih]

theorem concatStrings_longObs : ∀ (ps : List (List Char)) (l : Nat),
    concatStrings (longObs l ps) = ps.flatten := by
  intro ps
  induction ps with
  | nil => intro l; rfl
  | cons p ps ih =>
    intro l
    cases ps with
    | nil => simp [longObs, concatStrings]
    | cons q ps' =>
      have := ih (l + 1)
      simp only [longObs, concatStrings] at this ⊢
      simp [this]

/-! ## `_read_colon_list` on those tokens -/

/-- `+ ⏎ "q"` for every further piece. -/
def plusChain : List (List Char) → List Tk
  | [] => []
  | q :: qs => (.plus, ['+']) :: (.newline, ['\n']) :: (.string, q) :: plusChain qs

theorem plusChain_length : ∀ qs : List (List Char), (plusChain qs).length = 3 * qs.length := by
  intro qs
  induction qs with
  | nil => rfl
  | cons q qs ih => simp only [plusChain, List.length_cons, ih]; omega

theorem tksOf_longObs : ∀ (ps : List (List Char)) (l : Nat) (p : List Char) (rest : List Obs),
    tksOf { toks := longObs l (p :: ps) ++ rest, err := none }
      = (.string, p) :: plusChain ps ++ tksOf { toks := rest, err := none } := by
  intro ps
  induction ps with
  | nil => intro l p rest; simp [tksOf, longObs, Kind.ofCode, plusChain]
  | cons q ps ih =>
    intro l p rest
    have := ih (l + 1) q rest
    simp only [tksOf, longObs, List.cons_append, List.filterMap_cons, Kind.ofCode, Option.map_some,
      plusChain] at this ⊢
    rw [this]

theorem readColonList_chain : ∀ (qs : List (List Char)) (fuel : Nat) (acc : List Char) (tl : List Tk),
    qs.length < fuel →
    (∀ f, readColonList (f + 1) tl [acc ++ qs.flatten] false = .ok ([acc ++ qs.flatten], tl)) →
    readColonList fuel (plusChain qs ++ tl) [acc] false = .ok ([acc ++ qs.flatten], tl) := by
  intro qs
  induction qs with
  | nil =>
    intro fuel acc tl hf htl
    cases fuel with
    | zero => omega
    | succ f => simpa [plusChain] using htl f
  | cons q qs ih =>
    intro fuel acc tl hf htl
    cases fuel with
    | zero => omega
    | succ f =>
      simp only [plusChain, List.cons_append]
      rw [readColonList]
      simp only [Bool.false_or, List.isEmpty_cons, Bool.false_eq_true, if_false, expectString,
        appendLast]
      have := ih f (acc ++ q) tl (by simp at hf; omega) (by simpa [List.append_assoc] using htl)
      simpa [List.append_assoc] using this

/-- The written text is the `" +⏎"`-join of the quoted escapes of consecutive pieces of the string. -/
theorem writeLongString_pieces {T : Tables} (F : EscFacts T) (cfg : LongCfg) (hc : cfgOK cfg = true)
    (indent s : List Char) (hs : s ≠ [] ∨ cfg.emptyQuotes = true) :
    ∃ ps : List (List Char), ps.flatten = s ∧ ps ≠ [] ∧
      (∀ p ∈ ps, (escapeText T false p).length ≤ cfg.limit) ∧
      longSections cfg T true s = ps.map (escapeText T false) ∧
      writeLongString cfg T true indent s = joinWith (plusSep indent) (ps.map (qe T)) := by
  obtain ⟨ps, hflat, hsec, hlim, hnil, _⟩ :=
    sections_spec F false cfg hc ((escapeText T false s).length + 1) s true (by omega)
  have hls : longSections cfg T true s = ps.map (escapeText T false) := by
    simp only [longSections, fgdEscape, if_true]; exact hsec
  refine ⟨ps, hflat, ?_, ?_, hls, ?_⟩
  · intro h0
    obtain ⟨h1, h2⟩ := hnil h0
    rcases hs with hs | hs
    · exact hs h1
    · exact h2 ⟨rfl, hs⟩
  · intro p hp
    apply hlim
    rw [hsec]
    exact List.mem_map_of_mem hp
  · unfold writeLongString
    rw [hls, List.map_map]
    rfl

end C16
