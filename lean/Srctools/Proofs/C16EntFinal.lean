import Srctools.Proofs.C16EntLex
import Srctools.Proofs.C16EntParse
/-!
# C16 (iv, continued) — composition for whole entities and files

`EntEnv` = `Env` (Proofs/C16KVFinal.lean) plus the entity-level table facts; `EntGood` = explicit conditions
on an entity (identifier-shaped kind word / class name / helper names, base and helper argument texts
without parentheses, every keyvalue / input / output `KvGood` / `IoGood`, resources with a known type name).
From these the lexing (`EntLexOK`) and parsing (`EntParseOK`) hypotheses follow, and the halves compose.
-/
namespace C16.KV
open Tok C16

structure EntEnv (T : Tables) (o : Opts) (P : ParseCfg) (c : ExpCfg) : Prop where
  env : Env T o P c
  entTables : entTablesOK T = true
  foldIn : P.foldStr sInput = sInput
  foldOut : P.foldStr sOutput = sOutput
  foldRes : P.foldStr sResources = sResources

/-- The condition on one body item (as in `entity_body_roundtrip`). -/
def ItemGood (T : Tables) (P : ParseCfg) (c : ExpCfg) : Item → Prop
  | .kv tags k => KvGood T P c tags k ∧ P.foldStr k.name ≠ sInput ∧ P.foldStr k.name ≠ sOutput ∧
      P.foldStr k.name ≠ sResources
  | .inp tags io => IoGood T P c tags io
  | .out tags io => IoGood T P c tags io

/-- Explicit conditions on an entity; `defined` = the (folded) class names a `base(...)` may refer to. -/
structure EntGood (T : Tables) (P : ParseCfg) (c : ExpCfg) (tab : EntTab) (defined : List Str) (e : EntRec) : Prop where
  kind : BareStr T ('@' :: (tab.kinds.getD e.kind ([], [])).1) = true
  notExtend : e.kind ≠ tab.extend
  classname : BareStr T e.classname = true
  bases1 : '(' ∉ joinWith commaSp e.bases
  bases2 : ')' ∉ joinWith commaSp e.bases
  basesP : BasesOK P c tab defined e
  helpers : ∀ h ∈ writtenHelpers c tab e, HelperOK T h ∧ HelperParseOK tab h
  items : ∀ it ∈ entItems P e, ItemGood T P c it
  res : ∀ l, e.res = some l → ∀ r ∈ l, ResOK T tab r ∧ ResParseOK P c tab r

section
variable {T : Tables} {o : Opts} {P : ParseCfg} {c : ExpCfg} {tab : EntTab} (E : EntEnv T o P c)
include E

theorem itemLexOK_of_good {it : Item} (h : ItemGood T P c it) : ItemLexOK T o c it := by
  cases it with
  | kv tags k => exact kvLexOK_of_good E.env h.1
  | inp tags io => exact ioLexOK_of_good E.env (Or.inl rfl) h
  | out tags io => exact ioLexOK_of_good E.env (Or.inr rfl) h

theorem itemParseOK_of_good {it : Item} (h : ItemGood T P c it) : ItemParseOK P c it := by
  cases it with
  | kv tags k => exact ⟨kvParseOK_of_good E.env h.1, h.2⟩
  | inp tags io => exact ⟨ioParseOK_of_good E.env h, E.foldIn⟩
  | out tags io => exact ⟨ioParseOK_of_good E.env h, E.foldOut⟩

theorem entLexOK_of_good {defined : List Str} {e : EntRec} (G : EntGood T P c tab defined e) :
    EntLexOK T o c tab P e where
  hT := E.env.hT
  tables := E.env.tables
  entTables := E.entTables
  opts := E.env.opts
  kind := G.kind
  classname := G.classname
  bases1 := G.bases1
  bases2 := G.bases2
  helpers := fun h hh => (G.helpers h hh).1
  desc := fun _ => by rw [E.env.ext]; exact E.env.lsOK_ext _
  items := fun it hit => itemLexOK_of_good E (G.items it hit)
  res := fun _ l hl r hr => (G.res l hl r hr).1

theorem entParseOK_of_good {defined : List Str} {e : EntRec} (G : EntGood T P c tab defined e) :
    EntParseOK P c tab defined e := by
  refine ⟨G.notExtend, G.basesP, fun h hh => (G.helpers h hh).2, ?_, fun it hit => itemParseOK_of_good E (G.items it hit), ?_⟩
  · intro _; rw [E.env.ext]; exact lsPieces_ne_of (E.env.lsOK_ext _)
  · unfold ResBlockOK
    cases hr : e.res with
    | none => trivial
    | some l => exact fun _ => ⟨E.foldRes, fun r hrr => (G.res l hr r hrr).2⟩

/-- **Whole entity round trip**: the text `EntityDef.export` writes tokenizes without error, begins with the
`@Kind` keyword, and `EntityDef.parse` on the remaining tokens returns the normal form, leaving the final
line feed and the end of input. -/
theorem entity_roundtrip (fold : Char → List Char) {defined : List Str} {e : EntRec}
    (G : EntGood T P c tab defined e) :
    (run T o fold (exportEnt c tab P e)).err = none ∧
    (tksOf (run T o fold (exportEnt c tab P e))).head? = some (kindTok tab e) ∧
    parseEnt P tab defined e.kind (tksOf (run T o fold (exportEnt c tab P e))).tail
      = .ok (normEnt c tab P e, [tkNl, tkEof]) := by
  obtain ⟨hr, he⟩ := run_ent (fold := fold) (entLexOK_of_good E G)
  refine ⟨he, by rw [hr]; rfl, ?_⟩
  rw [hr]
  simp only [List.cons_append, List.tail_cons]
  exact parse_ent (entParseOK_of_good E G) [tkEof]

end

/-- Conditions on a file: every entity is good given the classes defined BEFORE it (sorted order), and its
`@Kind` keyword is recognised. -/
def FileGoodFrom (T : Tables) (P : ParseCfg) (c : ExpCfg) (tab : EntTab) : List EntRec → List EntRec → Prop
  | _, [] => True
  | done, e :: es =>
    lookupKind P tab (kindTok tab e).2 = some e.kind ∧
    EntGood T P c tab (done.map fun d => P.foldStr (strip d.classname)) e ∧
    FileGoodFrom T P c tab (done ++ [e]) es

def FileGood (T : Tables) (P : ParseCfg) (c : ExpCfg) (tab : EntTab) (ents : List EntRec) : Prop :=
  FileGoodFrom T P c tab [] ents

section
variable {T : Tables} {o : Opts} {P : ParseCfg} {c : ExpCfg} {tab : EntTab} (E : EntEnv T o P c)
include E

theorem fileGood_split : ∀ (es done : List EntRec), FileGoodFrom T P c tab done es →
    (∀ e ∈ es, EntLexOK T o c tab P e) ∧ FileParseOKFrom P c tab done es := by
  intro es
  induction es with
  | nil => intro done _; exact ⟨by simp, trivial⟩
  | cons e es ih =>
    intro done h
    obtain ⟨hk, hg, hrest⟩ := h
    obtain ⟨h1, h2⟩ := ih (done ++ [e]) hrest
    refine ⟨?_, hk, entParseOK_of_good E hg, h2⟩
    intro x hx
    simp only [List.mem_cons] at hx
    rcases hx with rfl | hx
    · exact entLexOK_of_good E hg
    · exact h1 x hx

/-- **File level (entity definitions in sorted order)**: the entity part of `FGD.export` tokenizes without
error and the top-level loop of `FGD.parse_file` returns the list of normal forms. -/
theorem fgd_roundtrip (fold : Char → List Char) {ents : List EntRec} (G : FileGood T P c tab ents) :
    (run T o fold (exportFile c tab P ents)).err = none ∧
    (let ts := tksOf (run T o fold (exportFile c tab P ents))
     parseFile P tab (ts.length + 1) ts [] = .ok (ents.map (normEnt c tab P))) := by
  obtain ⟨hl, hp⟩ := fileGood_split E ents [] G
  obtain ⟨hr, he⟩ := run_file (fold := fold) hl
  refine ⟨he, ?_⟩
  intro ts
  have : ts = fileToks c tab P ents ++ [tkEof] := hr
  rw [this]
  exact parse_file_run hp

/-- What the normal form is, with custom syntax: kind, class name (if it has no surrounding blanks), bases,
alias flag, description and resources come back unchanged; helpers come back with the arguments the generic
split gives (unchanged when they contain no comma / surrounding blank). -/
theorem normEnt_fields (e : EntRec) :
    (normEnt c tab P e).kind = e.kind ∧ (normEnt c tab P e).bases = e.bases ∧
    (normEnt c tab P e).desc = e.desc ∧
    (normEnt c tab P e).alias = (!e.bases.isEmpty && e.alias) ∧
    (normEnt c tab P e).helpers = e.helpers.map normHelper ∧
    (normEnt c tab P e).res = e.res ∧
    (normEnt c tab P e).items = (entItems P e).map (normItem P c) := by
  have hx := E.env.ext
  refine ⟨rfl, rfl, ?_, ?_, ?_, ?_, rfl⟩
  · show (if e.desc.isEmpty then [] else lsRead c c.ext e.desc) = e.desc
    rw [hx, E.env.lsRead_ext]
    cases h : e.desc <;> simp
  · simp [normEnt, hx]
  · have hf : ∀ l : List Helper, l.filter (fun _ => true) = l := by
      intro l; induction l with | nil => rfl | cons a t ih => simp [List.filter, ih]
    simp [normEnt, writtenHelpers, hx, hf]
  · show (match e.res with | some l => if c.ext then some (l.map (normRes c)) else none | none => none) = e.res
    cases h : e.res with
    | none => rfl
    | some l =>
      have : ∀ r : Res, normRes c r = r := by
        intro r; simp [normRes, effTags, hx]
      have hm : ∀ l' : List Res, l'.map (normRes c) = l' := by
        intro l'; induction l' with | nil => rfl | cons a t ih => simp [this a, ih]
      simp [hx, hm l]

end

/-! ## decidability of the explicit conditions (so that concrete entities can be checked by `decide`) -/

instance (T : Tables) (c : ExpCfg) (tags : List Str) : Decidable (TagsOK T c tags) := by
  unfold TagsOK; infer_instance

instance (T : Tables) (P : ParseCfg) (c : ExpCfg) (tags : List Str) (k : KVRec) : Decidable (KvGood T P c tags k) :=
  decidable_of_iff
    (BareStr T k.name = true ∧ TagsOK T c tags ∧ TagsParseOK P c tags ∧ TypeParseOK P c k.typ ∧
      '(' ∉ typeText c.tt k.typ ∧ ')' ∉ typeText c.tt k.typ ∧
      (k.typ = c.tt.spawnflags → k.default = [] ∧ k.desc = []) ∧
      (k.typ = c.tt.spawnflags → ∀ f ∈ kvFlagsOf k,
        TagsOK T c f.tags ∧ TagsParseOK P c f.tags ∧ f.mask ≠ 0 ∧ 2 ^ Nat.log2 f.mask = f.mask) ∧
      (k.typ = c.tt.choices → ∀ ch ∈ kvChoicesOf k,
        plainOK (replaceNl ch.name) = true ∧ TagsOK T c ch.tags ∧ TagsParseOK P c ch.tags))
    ⟨fun h => ⟨h.1, h.2.1, h.2.2.1, h.2.2.2.1, h.2.2.2.2.1, h.2.2.2.2.2.1, h.2.2.2.2.2.2.1, h.2.2.2.2.2.2.2.1,
        h.2.2.2.2.2.2.2.2⟩,
     fun g => ⟨g.name, g.tagsL, g.tagsP, g.typ, g.typ1, g.typ2, g.sf, g.flags, g.choices⟩⟩

instance (T : Tables) (P : ParseCfg) (c : ExpCfg) (tags : List Str) (io : IORec) : Decidable (IoGood T P c tags io) :=
  decidable_of_iff
    (BareStr T io.name = true ∧ TagsOK T c tags ∧ TagsParseOK P c tags ∧
      (ioLookup P (c.tt.ioText.getD io.typ [])).isSome = true ∧
      '(' ∉ c.tt.ioText.getD io.typ [] ∧ ')' ∉ c.tt.ioText.getD io.typ [])
    ⟨fun h => ⟨h.1, h.2.1, h.2.2.1, h.2.2.2.1, h.2.2.2.2.1, h.2.2.2.2.2⟩,
     fun g => ⟨g.name, g.tagsL, g.tagsP, g.typ, g.typ1, g.typ2⟩⟩

instance (T : Tables) (P : ParseCfg) (c : ExpCfg) : (it : Item) → Decidable (ItemGood T P c it)
  | .kv _ _ => by unfold ItemGood; infer_instance
  | .inp _ _ => by unfold ItemGood; infer_instance
  | .out _ _ => by unfold ItemGood; infer_instance

instance (T : Tables) (h : Helper) : Decidable (HelperOK T h) :=
  decidable_of_iff
    (BareStr T h.name = true ∧ (h.name ≠ sHalfGridSnap → '(' ∉ joinWith commaSp h.args) ∧
      (h.name ≠ sHalfGridSnap → ')' ∉ joinWith commaSp h.args))
    ⟨fun x => ⟨x.1, x.2.1, x.2.2⟩, fun g => ⟨g.name, g.args1, g.args2⟩⟩

instance (T : Tables) (tab : EntTab) (r : Res) : Decidable (ResOK T tab r) :=
  decidable_of_iff (BareStr T (tab.resNames.getD r.typ []) = true ∧ ∀ t ∈ r.tags, tagOK T t = true)
    ⟨fun x => ⟨x.1, x.2⟩, fun g => ⟨g.name, g.tags⟩⟩

instance (T : Tables) (P : ParseCfg) (c : ExpCfg) (tab : EntTab) (defined : List Str) (e : EntRec) :
    Decidable (EntGood T P c tab defined e) :=
  decidable_of_iff
    (BareStr T ('@' :: (tab.kinds.getD e.kind ([], [])).1) = true ∧ e.kind ≠ tab.extend ∧
      BareStr T e.classname = true ∧ '(' ∉ joinWith commaSp e.bases ∧ ')' ∉ joinWith commaSp e.bases ∧
      BasesOK P c tab defined e ∧
      (∀ h ∈ writtenHelpers c tab e, HelperOK T h ∧ HelperParseOK tab h) ∧
      (∀ it ∈ entItems P e, ItemGood T P c it) ∧
      (∀ l ∈ e.res, ∀ r ∈ l, ResOK T tab r ∧ ResParseOK P c tab r))
    ⟨fun h => ⟨h.1, h.2.1, h.2.2.1, h.2.2.2.1, h.2.2.2.2.1, h.2.2.2.2.2.1, h.2.2.2.2.2.2.1, h.2.2.2.2.2.2.2.1,
        fun l hl r hr => h.2.2.2.2.2.2.2.2 l (by simp [hl]) r hr⟩,
     fun g => ⟨g.kind, g.notExtend, g.classname, g.bases1, g.bases2, g.basesP, g.helpers, g.items,
        fun l hl r hr => g.res l (by simpa using hl) r hr⟩⟩

instance decFileGoodFrom (T : Tables) (P : ParseCfg) (c : ExpCfg) (tab : EntTab) :
    ∀ (done ents : List EntRec), Decidable (FileGoodFrom T P c tab done ents)
  | _, [] => isTrue trivial
  | done, e :: es =>
    have := decFileGoodFrom T P c tab (done ++ [e]) es
    inferInstanceAs (Decidable (lookupKind P tab (kindTok tab e).2 = some e.kind ∧
      EntGood T P c tab (done.map fun d => P.foldStr (strip d.classname)) e ∧
      FileGoodFrom T P c tab (done ++ [e]) es))

instance (T : Tables) (P : ParseCfg) (c : ExpCfg) (tab : EntTab) (ents : List EntRec) :
    Decidable (FileGood T P c tab ents) := decFileGoodFrom T P c tab [] ents

end C16.KV
