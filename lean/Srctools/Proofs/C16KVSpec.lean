import Srctools.Model.C16KV
import Srctools.Proofs.C16
/-!
# C16 (iv) — specification helpers: the token sequences the exported lines lex to

Not part of the modelled code. `kvToks c tags k` is the token sequence (kind, value) that
`exportKV c tags k` is proved to tokenize to under the FGD tokenizer options (Proofs/C16KVLex.lean), and on
which `parseKV` is proved to return the normalised record (Proofs/C16KVParse.lean); likewise `ioToks`,
`bodyToks`.  `Reads T E d`: the inside `E` of a quoted string is read by `_handle_string` as `d`.
-/
namespace C16.KV
open Tok C16

/-- `"E"` followed by anything is read as the string `d` (escapes on), whatever the line number. -/
def Reads (T : Tables) (E d : Str) : Prop :=
  ∀ (rest : Str) (line : Nat), ∃ line', handleString T true (E ++ '"' :: rest) [] false line = .ok d line' rest

/-- The decoded pieces of a long string as written by `_write_longstring`. -/
def lsPieces (c : ExpCfg) (ext : Bool) (s : Str) : List Str :=
  (longSections c.long c.T ext s).map (decodeUnits c.T)

/-- `STRING p₁ (PLUS NEWLINE STRING pᵢ)*`. -/
def chainToks : List Str → List Tk
  | [] => []
  | p :: ps => (.string, p) :: plusChain ps

def lsToks (c : ExpCfg) (ext : Bool) (s : Str) : List Tk := chainToks (lsPieces c ext s)

def tkColon : Tk := (.colon, [':'])
def tkNl : Tk := (.newline, ['\n'])
def tkEq : Tk := (.equals, ['='])
def tkComma : Tk := (.comma, [','])
def tkOpen : Tk := (.brackOpen, ['['])
def tkClose : Tk := (.brackClose, [']'])
def tkPlus : Tk := (.plus, ['+'])
def tkEof : Tk := (.eof, [])

/-- One tag: `+X` is a PLUS token followed by the bare string `X`. -/
def tagTok : Str → List Tk
  | '+' :: b => [tkPlus, (.string, b)]
  | t => [(.string, t)]

def tagsInner : List Str → List Tk
  | [] => []
  | [t] => tagTok t
  | t :: u :: ts => tagTok t ++ tkComma :: tagsInner (u :: ts)

/-- `[A, +B, !C]` -/
def tagsToks (tags : List Str) : List Tk := tkOpen :: (tagsInner tags ++ [tkClose])

def optTags (c : ExpCfg) (tags : List Str) : List Tk :=
  if !tags.isEmpty && c.ext then tagsToks tags else []

/-- Value of the STRING token of a default / choice value that is written quoted. -/
def quotedVal (c : ExpCfg) (s : Str) : Str := decodeUnits c.T (fgdEscape c.T c.ext s)

def defaultTok (c : ExpCfg) (d : Str) : Tk :=
  (.string, if d.all (digitsMinus.contains ·) then d else quotedVal c d)

def choiceValueTok (c : ExpCfg) (v : Str) : Tk :=
  (.string, if isPlainNumber v then v else quotedVal c v)

def flagShown (c : ExpCfg) (f : Flag) : Str :=
  if c.label then '[' :: (natText f.mask ++ ']' :: ' ' :: replaceNl f.name) else replaceNl f.name

def flagToks (c : ExpCfg) (f : Flag) : List Tk :=
  (.string, natText f.mask) :: tkColon :: (lsToks c c.ext (flagShown c f)
    ++ [tkColon, (.string, if f.dflt then ['1'] else ['0'])] ++ optTags c f.tags ++ [tkNl])

def choiceToks (c : ExpCfg) (ch : Choice) : List Tk :=
  choiceValueTok c ch.value :: tkColon :: (lsToks c false (replaceNl ch.name) ++ optTags c ch.tags ++ [tkNl])

def listToks (lines : List Tk) : List Tk := [tkEq, tkNl, tkOpen, tkNl] ++ lines ++ [tkClose]

/-- Tokens of `exportKV c tags k` (the final NEWLINE included). -/
def kvToks (c : ExpCfg) (tags : List Str) (k : KVRec) : List Tk :=
  let d := if k.default.isEmpty && k.typ = c.tt.bool then ['0'] else k.default
  (.string, k.name) :: (optTags c tags ++ [(.parenArgs, typeText c.tt k.typ)]
    ++ (if k.readonly then [(.string, sReadonly)] else [])
    ++ (if k.reportable then [(.string, sReport)] else [])
    ++ (if k.typ ≠ c.tt.spawnflags then tkColon :: lsToks c c.ext k.disp else [])
    ++ (if !d.isEmpty then
          tkColon :: defaultTok c d :: (if !k.desc.isEmpty then [tkColon] else [])
        else (if !k.desc.isEmpty then [tkColon, tkColon] else []))
    ++ (if !k.desc.isEmpty then lsToks c c.ext k.desc else [])
    ++ (if k.typ = c.tt.spawnflags then
          listToks (match k.vals with | .flags l => l.flatMap (flagToks c) | _ => [])
        else if k.typ = c.tt.choices then
          listToks (match k.vals with | .choices l => l.flatMap (choiceToks c) | _ => [])
        else [])
    ++ [tkNl])

/-- Tokens of `exportIO c kw tags io`. -/
def ioToks (c : ExpCfg) (kw : Str) (tags : List Str) (io : IORec) : List Tk :=
  (.string, kw) :: (.string, io.name) :: ((if c.ext && !tags.isEmpty then tagsToks tags else [])
    ++ [(.parenArgs, c.tt.ioText.getD io.typ [])]
    ++ (if !io.desc.isEmpty then tkColon :: lsToks c c.ext io.desc else []) ++ [tkNl])

def itemToks (c : ExpCfg) : Item → List Tk
  | .kv tags k => kvToks c tags k
  | .inp tags io => ioToks c sInput tags io
  | .out tags io => ioToks c sOutput tags io

/-- Tokens of `exportBody c items` (the comment lines vanish, their line feeds stay). -/
def bodyToks (c : ExpCfg) (items : List Item) : List Tk :=
  let kvs := items.filter Item.isKV
  let ins := items.filter Item.isInp
  let outs := items.filter Item.isOut
  kvs.flatMap (itemToks c)
    ++ (if ins.isEmpty then [] else tkNl :: tkNl :: ins.flatMap (itemToks c))
    ++ (if outs.isEmpty then [] else tkNl :: tkNl :: outs.flatMap (itemToks c))
    ++ [tkClose, tkNl]

end C16.KV
