import Srctools.Model.C04
import Mathlib.Tactic.Ring
import Mathlib.Tactic.LinearCombination
/-! Helper lemmas for C04 (rotation algebra). -/
namespace C04

theorem Mat.ext' {α : Type} {a b : Mat α} (h1 : a.aa = b.aa) (h2 : a.ab = b.ab) (h3 : a.ac = b.ac)
    (h4 : a.ba = b.ba) (h5 : a.bb = b.bb) (h6 : a.bc = b.bc) (h7 : a.ca = b.ca) (h8 : a.cb = b.cb)
    (h9 : a.cc = b.cc) : a = b := by
  cases a; cases b; simp_all

theorem V3.ext' {α : Type} {a b : V3 α} (h1 : a.x = b.x) (h2 : a.y = b.y) (h3 : a.z = b.z) : a = b := by
  cases a; cases b; simp_all

section CommRing
variable {R : Type} [CommRing R]

theorem matMul_assoc (a b c : Mat R) : matMul (matMul a b) c = matMul a (matMul b c) := by
  simp only [matMul, Mat.mk.injEq]
  refine ⟨?_, ?_, ?_, ?_, ?_, ?_, ?_, ?_, ?_⟩ <;> ring

theorem vecRot_matMul (v : V3 R) (a b : Mat R) : vecRot (vecRot v a) b = vecRot v (matMul a b) := by
  simp only [vecRot, matMul, V3.mk.injEq]
  refine ⟨?_, ?_, ?_⟩ <;> ring

theorem matMul_one (a : Mat R) : matMul a Mat.one = a := by
  cases a; simp only [matMul, Mat.one, Mat.mk.injEq]
  refine ⟨?_, ?_, ?_, ?_, ?_, ?_, ?_, ?_, ?_⟩ <;> ring

theorem one_matMul (a : Mat R) : matMul Mat.one a = a := by
  cases a; simp only [matMul, Mat.one, Mat.mk.injEq]
  refine ⟨?_, ?_, ?_, ?_, ?_, ?_, ?_, ?_, ?_⟩ <;> ring

theorem transpose_matMul (a b : Mat R) : transpose (matMul a b) = matMul (transpose b) (transpose a) := by
  simp only [matMul, transpose, Mat.mk.injEq]
  refine ⟨?_, ?_, ?_, ?_, ?_, ?_, ?_, ?_, ?_⟩ <;> ring

/-- Everything the later proofs use about a proper rotation: rows orthonormal (hypothesis),
every entry equals its cofactor, columns orthonormal. -/
structure RotFacts (m : Mat R) : Prop where
  r11 : m.aa * m.aa + m.ab * m.ab + m.ac * m.ac = 1
  r22 : m.ba * m.ba + m.bb * m.bb + m.bc * m.bc = 1
  r33 : m.ca * m.ca + m.cb * m.cb + m.cc * m.cc = 1
  r12 : m.aa * m.ba + m.ab * m.bb + m.ac * m.bc = 0
  r13 : m.aa * m.ca + m.ab * m.cb + m.ac * m.cc = 0
  r23 : m.ba * m.ca + m.bb * m.cb + m.bc * m.cc = 0
  caa : m.aa = m.bb * m.cc - m.bc * m.cb
  cab : m.ab = m.bc * m.ca - m.ba * m.cc
  cac : m.ac = m.ba * m.cb - m.bb * m.ca
  cba : m.ba = m.ac * m.cb - m.ab * m.cc
  cbb : m.bb = m.aa * m.cc - m.ac * m.ca
  cbc : m.bc = m.ab * m.ca - m.aa * m.cb
  cca : m.ca = m.ab * m.bc - m.ac * m.bb
  ccb : m.cb = m.ac * m.ba - m.aa * m.bc
  ccc : m.cc = m.aa * m.bb - m.ab * m.ba
  c11 : m.aa * m.aa + m.ba * m.ba + m.ca * m.ca = 1
  c22 : m.ab * m.ab + m.bb * m.bb + m.cb * m.cb = 1
  c33 : m.ac * m.ac + m.bc * m.bc + m.cc * m.cc = 1
  c12 : m.aa * m.ab + m.ba * m.bb + m.ca * m.cb = 0
  c13 : m.aa * m.ac + m.ba * m.bc + m.ca * m.cc = 0
  c23 : m.ab * m.ac + m.bb * m.bc + m.cb * m.cc = 0

theorem IsRotation.facts {m : Mat R} (h : IsRotation m) : RotFacts m := by
  obtain ⟨ho, hd⟩ := h
  simp only [matMul, transpose, Mat.one, Mat.mk.injEq, det] at ho hd
  obtain ⟨h1, h2, h3, h4, h5, h6, h7, h8, h9⟩ := ho
  have caa : m.aa = m.bb * m.cc - m.bc * m.cb := by grind
  have cab : m.ab = m.bc * m.ca - m.ba * m.cc := by grind
  have cac : m.ac = m.ba * m.cb - m.bb * m.ca := by grind
  have cba : m.ba = m.ac * m.cb - m.ab * m.cc := by grind
  have cbb : m.bb = m.aa * m.cc - m.ac * m.ca := by grind
  have cbc : m.bc = m.ab * m.ca - m.aa * m.cb := by grind
  have cca : m.ca = m.ab * m.bc - m.ac * m.bb := by grind
  have ccb : m.cb = m.ac * m.ba - m.aa * m.bc := by grind
  have ccc : m.cc = m.aa * m.bb - m.ab * m.ba := by grind
  refine ⟨h1, h5, h9, h2, h3, h6, caa, cab, cac, cba, cbb, cbc, cca, ccb, ccc, ?_, ?_, ?_, ?_, ?_, ?_⟩ <;> grind

/-- The transpose of a rotation is a right *and* left inverse. -/
theorem IsRotation.transpose_mul {m : Mat R} (h : IsRotation m) : matMul (transpose m) m = Mat.one := by
  have f := h.facts
  simp only [matMul, transpose, Mat.one, Mat.mk.injEq]
  refine ⟨f.c11, f.c12, f.c13, ?_, f.c22, f.c23, ?_, ?_, f.c33⟩
  · linear_combination f.c12
  · linear_combination f.c13
  · linear_combination f.c23

end CommRing
end C04
