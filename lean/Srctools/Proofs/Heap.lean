import Srctools.Model.Heap
/-!
# Heap lemmas (core only)

* `abs_congr`      objects reachable from `l` unchanged ⇒ `abs` unchanged
* `Sub`, `abs_sub`, `reach_sub_iff`   extension of the store does not change what old locations see
* `copyWith_spec`  a copy under an adequate treatment function is complete (`abs` equal), separated
                   (everything reachable from the copy is fresh or immutable) and preserves the invariants
* `Confined`, `step_confined`, `run_confined`, `frame`   the frame theorem for in-place mutation
* `copy_indep`     the combination used by C09 (and C17)
-/
namespace Heap

/-! ## basic facts -/

theorem lt_of_get {h : Store} {l : Nat} {o : Obj} (e : h[l]? = some o) : l < h.length := by
  have := List.getElem?_eq_some_iff.mp e
  exact this.1

theorem get_of_lt {h : Store} {l : Nat} (hl : l < h.length) : ∃ o, h[l]? = some o :=
  ⟨h[l], List.getElem?_eq_getElem hl⟩

theorem closed_ref {h : Store} (hc : Closed h) {l : Nat} {o : Obj} (e : h[l]? = some o)
    {f : Nat} {r : Nat} (hm : (f, Slot.ref r) ∈ o.fields) : r < h.length := by
  have := hc l o e _ hm
  simpa [slotValid] using this

theorem reach_lt {h : Store} (hc : Closed h) {l x : Nat} (hl : l < h.length) (hr : Reach h l x) :
    x < h.length := by
  induction hr with
  | refl l => exact hl
  | step e hm _ ih => exact ih (closed_ref hc e hm)

theorem reach_trans {h : Store} {a b c : Nat} (h1 : Reach h a b) (h2 : Reach h b c) : Reach h a c := by
  induction h1 with
  | refl l => exact h2
  | step e hm _ ih => exact Reach.step e hm (ih h2)

theorem reach_cases {h : Store} {l x : Nat} (hr : Reach h l x) :
    x = l ∨ ∃ o f r, h[l]? = some o ∧ (f, Slot.ref r) ∈ o.fields ∧ Reach h r x := by
  cases hr with
  | refl l => exact Or.inl rfl
  | step e hm hr' => exact Or.inr ⟨_, _, _, e, hm, hr'⟩

/-- `abs` only looks at the objects reachable from `l`. -/
theorem abs_congr {h h' : Store} : ∀ (n : Nat) (l : Nat),
    (∀ x, Reach h l x → h'[x]? = h[x]?) → abs n h' l = abs n h l := by
  intro n
  induction n with
  | zero => intro l _; rfl
  | succ n ih =>
    intro l H
    have e0 : h'[l]? = h[l]? := H l (Reach.refl l)
    simp only [abs, e0]
    cases e : h[l]? with
    | none => rfl
    | some o =>
      simp only
      congr 1
      apply List.map_congr_left
      intro p hp
      obtain ⟨f, s⟩ := p
      cases s with
      | val v => rfl
      | ref r =>
        simp only [absSlot]
        rw [ih r (fun x hx => H x (Reach.step e hp hx))]

/-! ## extension of the store -/

/-- Every object of `h` is still there, unchanged, in `h'`. -/
def Keeps (h h' : Store) : Prop := ∀ (l : Nat) (o : Obj), h[l]? = some o → h'[l]? = some o

theorem Keeps.refl (h : Store) : Keeps h h := fun _ _ e => e

theorem Keeps.trans {a b c : Store} (h1 : Keeps a b) (h2 : Keeps b c) : Keeps a c :=
  fun l o e => h2 l o (h1 l o e)

theorem Keeps.get {h h' : Store} (s : Keeps h h') {l : Nat} {o : Obj} (e : h[l]? = some o) :
    h'[l]? = some o := s l o e

theorem Keeps.get_lt {h h' : Store} (s : Keeps h h') {l : Nat} (hl : l < h.length) : h'[l]? = h[l]? := by
  obtain ⟨o, e⟩ := get_of_lt hl
  rw [e]; exact s l o e

theorem Keeps.len {h h' : Store} (s : Keeps h h') : h.length ≤ h'.length := by
  cases hn : h.length with
  | zero => exact Nat.zero_le _
  | succ k =>
    have hk : k < h.length := by omega
    obtain ⟨o, e⟩ := get_of_lt hk
    have := lt_of_get (s k o e)
    omega

/-- `h'` is `h` followed by newly allocated objects. -/
def Sub (h h' : Store) : Prop := ∃ t, h' = h ++ t

theorem Sub.refl (h : Store) : Sub h h := ⟨[], by simp⟩

theorem Sub.trans {a b c : Store} (h1 : Sub a b) (h2 : Sub b c) : Sub a c := by
  obtain ⟨t1, rfl⟩ := h1
  obtain ⟨t2, rfl⟩ := h2
  exact ⟨t1 ++ t2, by simp⟩

theorem Sub.keeps {h h' : Store} (s : Sub h h') : Keeps h h' := by
  intro l o e
  obtain ⟨t, rfl⟩ := s
  rw [List.getElem?_append_left (lt_of_get e)]
  exact e

theorem Sub.len {h h' : Store} (s : Sub h h') : h.length ≤ h'.length := s.keeps.len

theorem Sub.get {h h' : Store} (s : Sub h h') {l : Nat} {o : Obj} (e : h[l]? = some o) :
    h'[l]? = some o := s.keeps l o e

theorem Sub.get_lt {h h' : Store} (s : Sub h h') {l : Nat} (hl : l < h.length) : h'[l]? = h[l]? :=
  s.keeps.get_lt hl

theorem Sub.alloc (h : Store) (o : Obj) : Sub h (h ++ [o]) := ⟨[o], rfl⟩

theorem slotValid_keeps {h h' : Store} (s : Keeps h h') {x : Slot} (v : slotValid h x = true) :
    slotValid h' x = true := by
  cases x with
  | val _ => rfl
  | ref r =>
    have h1 : r < h.length := by simpa [slotValid] using v
    have h2 := s.len
    simp only [slotValid, decide_eq_true_eq]
    omega

theorem slotValid_sub {h h' : Store} (s : Sub h h') {x : Slot} (v : slotValid h x = true) :
    slotValid h' x = true := slotValid_keeps s.keeps v

theorem reach_keeps_iff {h h' : Store} (hc : Closed h) (s : Keeps h h') {l x : Nat} (hl : l < h.length) :
    Reach h' l x ↔ Reach h l x := by
  constructor
  · intro hr
    induction hr with
    | refl l => exact Reach.refl l
    | @step l0 o f r x0 e hm _ ih =>
      have e' : h[l0]? = some o := by rw [← s.get_lt hl]; exact e
      exact Reach.step e' hm (ih (closed_ref hc e' hm))
  · intro hr
    induction hr with
    | refl l => exact Reach.refl l
    | step e hm _ ih => exact Reach.step (s.get e) hm (ih (closed_ref hc e hm))

theorem reach_sub_iff {h h' : Store} (hc : Closed h) (s : Sub h h') {l x : Nat} (hl : l < h.length) :
    Reach h' l x ↔ Reach h l x := reach_keeps_iff hc s.keeps hl

theorem abs_keeps {h h' : Store} (hc : Closed h) (s : Keeps h h') (n : Nat) {l : Nat} (hl : l < h.length) :
    abs n h' l = abs n h l :=
  abs_congr n l fun _ hx => s.get_lt (reach_lt hc hl hx)

theorem abs_sub {h h' : Store} (hc : Closed h) (s : Sub h h') (n : Nat) {l : Nat} (hl : l < h.length) :
    abs n h' l = abs n h l := abs_keeps hc s.keeps n hl

theorem absSlot_keeps {h h' : Store} (hc : Closed h) (s : Keeps h h') (n : Nat) {x : Slot}
    (v : slotValid h x = true) : absSlot (abs n h') x = absSlot (abs n h) x := by
  cases x with
  | val _ => rfl
  | ref r => exact abs_keeps hc s n (by simpa [slotValid] using v)

theorem absSlot_sub {h h' : Store} (hc : Closed h) (s : Sub h h') (n : Nat) {x : Slot}
    (v : slotValid h x = true) : absSlot (abs n h') x = absSlot (abs n h) x :=
  absSlot_keeps hc s.keeps n v

/-! ## immutability -/

theorem IsImm.keeps {h h' : Store} (s : Keeps h h') {x : Nat} (hi : IsImm h x) : IsImm h' x := by
  obtain ⟨o, e, m⟩ := hi
  exact ⟨o, s.get e, m⟩

theorem IsImm.sub {h h' : Store} (s : Sub h h') {x : Nat} (hi : IsImm h x) : IsImm h' x := hi.keeps s.keeps

theorem ImmSlot.keeps {h h' : Store} (s : Keeps h h') {x : Slot} (hi : ImmSlot h x) : ImmSlot h' x := by
  cases x with
  | val _ => trivial
  | ref r => exact IsImm.keeps s hi

theorem ImmSlot.sub {h h' : Store} (s : Sub h h') {x : Slot} (hi : ImmSlot h x) : ImmSlot h' x :=
  hi.keeps s.keeps

theorem reach_imm {h : Store} (hi : ImmClosed h) {l x : Nat} (hl : IsImm h l) (hr : Reach h l x) :
    IsImm h x := by
  induction hr with
  | refl l => exact hl
  | step e hm _ ih =>
    obtain ⟨o', e', m⟩ := hl
    rw [e] at e'
    cases e'
    exact ih (hi _ _ e m _ hm)

/-! ## adequacy of a treatment function -/

/-- What a treatment requires of the slot it is applied to. -/
def SlotOK (h : Store) : Treat → Slot → Prop
  | .deep, _ => True
  | .keep, s => ImmSlot h s
  | .shallow, .val _ => True
  | .shallow, .ref r => ∃ o, h[r]? = some o ∧ ∀ p ∈ o.fields, ImmSlot h p.2
  | .missing, _ => False

/-- Every field of every mutable object is treated in a way that cannot alias or lose it. -/
def Adequate (tr : Nat → Nat → Treat) (h : Store) : Prop :=
  ∀ (l : Nat) (o : Obj), h[l]? = some o → o.mu = true → ∀ p ∈ o.fields, SlotOK h (tr o.cls p.1) p.2

/-- The same, for the objects reachable from `l` only. -/
def AdequateFrom (tr : Nat → Nat → Treat) (h : Store) (l : Nat) : Prop :=
  ∀ (x : Nat) (o : Obj), Reach h l x → h[x]? = some o → o.mu = true →
    ∀ p ∈ o.fields, SlotOK h (tr o.cls p.1) p.2

theorem Adequate.from {tr : Nat → Nat → Treat} {h : Store} (a : Adequate tr h) (l : Nat) :
    AdequateFrom tr h l := fun x o _ e m p hp => a x o e m p hp

/-- Well-formed store: no dangling references, immutable objects are deeply immutable. -/
structure WF (h : Store) : Prop where
  closed : Closed h
  imm : ImmClosed h

theorem SlotOK.keeps {h h' : Store} (s : Keeps h h') {t : Treat} {x : Slot} (ok : SlotOK h t x) :
    SlotOK h' t x := by
  cases t with
  | deep => trivial
  | keep => exact ImmSlot.keeps s ok
  | missing => exact ok.elim
  | shallow =>
    cases x with
    | val _ => trivial
    | ref r =>
      obtain ⟨o, e, hp⟩ := ok
      exact ⟨o, s.get e, fun p hm => ImmSlot.keeps s (hp p hm)⟩

theorem SlotOK.sub {h h' : Store} (s : Sub h h') {t : Treat} {x : Slot} (ok : SlotOK h t x) :
    SlotOK h' t x := ok.keeps s.keeps

theorem AdequateFrom.step {tr : Nat → Nat → Treat} {h : Store} {l : Nat} (a : AdequateFrom tr h l)
    {o : Obj} (e : h[l]? = some o) {f r : Nat} (hm : (f, Slot.ref r) ∈ o.fields) :
    AdequateFrom tr h r := fun x o' hx => a x o' (Reach.step e hm hx)

theorem AdequateFrom.keeps {tr : Nat → Nat → Treat} {h h' : Store} (hc : Closed h) (s : Keeps h h')
    {l : Nat} (hl : l < h.length) (a : AdequateFrom tr h l) : AdequateFrom tr h' l := by
  intro x o hx e m p hp
  have hx' : Reach h l x := (reach_keeps_iff hc s hl).mp hx
  have e' : h[x]? = some o := by rw [← s.get_lt (reach_lt hc hl hx')]; exact e
  exact (a x o hx' e' m p hp).keeps s

/-- Allocating a well-formed object preserves well-formedness. -/
theorem WF.alloc {h : Store} (wf : WF h) (o : Obj)
    (hv : ∀ p ∈ o.fields, slotValid h p.2 = true)
    (hi : o.mu = false → ∀ p ∈ o.fields, ImmSlot h p.2) :
    WF (h ++ [o]) := by
  have s := Sub.alloc h o
  have key : ∀ (l : Nat) (o' : Obj), (h ++ [o])[l]? = some o' → h[l]? = some o' ∨ o' = o := by
    intro l o' e
    by_cases hl : l < h.length
    · left; rw [← s.get_lt hl]; exact e
    · right
      have hl' : l < h.length + 1 := by simpa using lt_of_get e
      have hl2 : l = h.length := by omega
      subst hl2
      simp at e
      exact e.symm
  constructor
  · intro l o' e p hm
    rcases key l o' e with e' | rfl
    · exact slotValid_sub s (wf.closed l o' e' p hm)
    · exact slotValid_sub s (hv p hm)
  · intro l o' e m p hm
    rcases key l o' e with e' | rfl
    · exact ImmSlot.sub s (wf.imm l o' e' m p hm)
    · exact ImmSlot.sub s (hi m p hm)

/-! ## the copy -/

def ReachSlot (h : Store) : Slot → Nat → Prop
  | .val _, _ => False
  | .ref r, x => Reach h r x

/-- Relation between a source slot (in `h`) and its copy (in `h2`); `k` is the freshness threshold. -/
structure SlotRel (k : Nat) (h h2 : Store) (s s' : Slot) : Prop where
  valid : slotValid h2 s' = true
  absEq : ∀ m, absSlot (abs m h2) s' = absSlot (abs m h) s
  sep : ∀ x, ReachSlot h2 s' x → k ≤ x ∨ IsImm h2 x
  ord : ∀ x o, ReachSlot h2 s' x → k ≤ x → h2[x]? = some o → o.mu = true →
    ∀ p ∈ o.fields, ∀ r, p.2 = Slot.ref r → r < x

theorem SlotRel.mono {k : Nat} {h h2 h3 : Store} {s s' : Slot} (hc : Closed h2) (sb : Keeps h2 h3)
    (r : SlotRel k h h2 s s') : SlotRel k h h3 s s' := by
  refine ⟨slotValid_keeps sb r.valid, fun m => ?_, fun x hx => ?_, fun x o hx hk e hm => ?_⟩
  · rw [absSlot_keeps hc sb m r.valid]; exact r.absEq m
  · cases s' with
    | val _ => exact hx.elim
    | ref q =>
      have hq : q < h2.length := by simpa [slotValid] using r.valid
      have : Reach h2 q x := (reach_keeps_iff hc sb hq).mp hx
      rcases r.sep x this with h1 | h1
      · exact Or.inl h1
      · exact Or.inr (IsImm.keeps sb h1)
  · cases s' with
    | val _ => exact hx.elim
    | ref q =>
      have hq : q < h2.length := by simpa [slotValid] using r.valid
      have hx2 : Reach h2 q x := (reach_keeps_iff hc sb hq).mp hx
      have e2 : h2[x]? = some o := by rw [← sb.get_lt (reach_lt hc hq hx2)]; exact e
      exact r.ord x o hx2 hk e2 hm

/-- Specification of a copier. -/
def CopySpec (tr : Nat → Nat → Treat) (cp : Store → Nat → Option (Store × Nat)) : Prop :=
  ∀ (h : Store) (l : Nat) (h' : Store) (l' : Nat), WF h → AdequateFrom tr h l →
    cp h l = some (h', l') →
    Sub h h' ∧ WF h' ∧ l < h.length ∧ l' < h'.length ∧
    (∀ m, abs m h' l' = abs m h l) ∧
    (∀ x, Reach h' l' x → h.length ≤ x ∨ IsImm h' x) ∧
    (∀ x o, Reach h' l' x → h.length ≤ x → h'[x]? = some o → o.mu = true →
      ∀ p ∈ o.fields, ∀ r, p.2 = Slot.ref r → r < x)

theorem abs_dup {h : Store} (hc : Closed h) {r : Nat} {o : Obj} (e : h[r]? = some o) (m : Nat) :
    abs m (h ++ [o]) h.length = abs m h r := by
  cases m with
  | zero => rfl
  | succ m =>
    have e1 : (h ++ [o])[h.length]? = some o := by simp
    simp only [abs, e1, e]
    congr 1
    apply List.map_congr_left
    intro p hp
    show (p.1, _) = (p.1, _)
    rw [absSlot_sub hc (Sub.alloc h o) m (hc r o e p hp)]

theorem copySlot_spec {tr : Nat → Nat → Treat} {cp : Store → Nat → Option (Store × Nat)}
    (hcp : CopySpec tr cp) {h0 h h1 : Store} {t : Treat} {s s' : Slot}
    (wf0 : WF h0) (wf : WF h) (sb0 : Sub h0 h)
    (hv : slotValid h0 s = true) (ok : SlotOK h0 t s)
    (hdeep : ∀ r, s = Slot.ref r → AdequateFrom tr h0 r)
    (e : copySlot cp t h s = some (h1, s')) :
    Sub h h1 ∧ WF h1 ∧ SlotRel h0.length h0 h1 s s' := by
  -- the slot kept as it is
  have keepCase : ImmSlot h0 s → Sub h h ∧ WF h ∧ SlotRel h0.length h0 h s s := by
    intro him
    refine ⟨Sub.refl h, wf, ⟨slotValid_sub sb0 hv, fun m => absSlot_sub wf0.closed sb0 m hv, ?_, ?_⟩⟩
    · intro x hx
      cases s with
      | val _ => exact hx.elim
      | ref r => exact Or.inr (reach_imm wf.imm (IsImm.sub sb0 him) hx)
    · intro x o hx hk ex hm
      cases s with
      | val _ => exact hx.elim
      | ref r =>
        obtain ⟨o', e', m'⟩ := reach_imm wf.imm (IsImm.sub sb0 him) hx
        rw [ex] at e'
        cases e'
        rw [hm] at m'
        cases m'
  cases t with
  | missing => exact ok.elim
  | keep =>
    simp only [copySlot, Option.some.injEq, Prod.mk.injEq] at e
    obtain ⟨rfl, rfl⟩ := e
    exact keepCase ok
  | deep =>
    cases s with
    | val v =>
      simp only [copySlot, Option.some.injEq, Prod.mk.injEq] at e
      obtain ⟨rfl, rfl⟩ := e
      exact keepCase trivial
    | ref r =>
      simp only [copySlot] at e
      cases ecp : cp h r with
      | none => simp [ecp] at e
      | some pr =>
        obtain ⟨h1', r'⟩ := pr
        simp only [ecp, Option.some.injEq, Prod.mk.injEq] at e
        obtain ⟨rfl, rfl⟩ := e
        have hr0 : r < h0.length := by simpa [slotValid] using hv
        have adq : AdequateFrom tr h r := (hdeep r rfl).keeps wf0.closed sb0.keeps hr0
        obtain ⟨sb, wf1, _, hr', ha, hs, ho⟩ := hcp h r h1' r' wf adq ecp
        refine ⟨sb, wf1, ⟨by simpa [slotValid] using hr', fun m => ?_, fun x hx => ?_,
          fun x o hx hk e hm => ?_⟩⟩
        · simp only [absSlot]
          rw [ha m, abs_sub wf0.closed sb0 m hr0]
        · rcases hs x hx with h2 | h2
          · exact Or.inl (Nat.le_trans sb0.len h2)
          · exact Or.inr h2
        · rcases hs x hx with h2 | ⟨o', e', m'⟩
          · exact ho x o hx h2 e hm
          · rw [e] at e'
            cases e'
            rw [hm] at m'
            cases m'
  | shallow =>
    cases s with
    | val v =>
      simp only [copySlot, Option.some.injEq, Prod.mk.injEq] at e
      obtain ⟨rfl, rfl⟩ := e
      exact keepCase trivial
    | ref r =>
      obtain ⟨o, eo, himm⟩ := ok
      have eo' : h[r]? = some o := sb0.get eo
      simp only [copySlot, eo'] at e
      have hr0 : r < h0.length := lt_of_get eo
      by_cases hm : o.mu = true
      · rw [if_pos hm] at e
        simp only [Option.some.injEq, Prod.mk.injEq] at e
        obtain ⟨rfl, rfl⟩ := e
        have sb : Sub h (h ++ [o]) := Sub.alloc h o
        have wf1 : WF (h ++ [o]) :=
          wf.alloc o (fun p hp => wf.closed r o eo' p hp) (fun hf => by rw [hm] at hf; cases hf)
        have eN : (h ++ [o])[h.length]? = some o := by simp
        refine ⟨sb, wf1, ⟨by simp [slotValid], fun m => ?_, fun x hx => ?_, fun x o2 hx hk e2 hm2 => ?_⟩⟩
        · simp only [absSlot]
          rw [abs_dup wf.closed eo' m, abs_sub wf0.closed sb0 m hr0]
        · rcases reach_cases hx with rfl | ⟨o', f, q, e', hq, hr'⟩
          · exact Or.inl sb0.len
          · rw [eN] at e'
            cases e'
            have : IsImm (h ++ [o]) q := IsImm.sub (sb0.trans sb) (himm _ hq)
            exact Or.inr (reach_imm wf1.imm this hr')
        · rcases reach_cases hx with rfl | ⟨o', f, q, e', hq, hr'⟩
          · rw [eN] at e2
            cases e2
            intro p hp r' hr2
            have := wf.closed r o eo' p hp
            rw [hr2] at this
            simpa [slotValid] using this
          · rw [eN] at e'
            cases e'
            have : IsImm (h ++ [o]) q := IsImm.sub (sb0.trans sb) (himm _ hq)
            obtain ⟨o3, e3, m3⟩ := reach_imm wf1.imm this hr'
            rw [e2] at e3
            cases e3
            rw [hm2] at m3
            cases m3
      · have hm' : o.mu = false := by simpa using hm
        rw [if_neg hm] at e
        simp only [Option.some.injEq, Prod.mk.injEq] at e
        obtain ⟨rfl, rfl⟩ := e
        exact keepCase ⟨o, eo, hm'⟩

/-- The fields of the copy, pairwise related to the fields of the source. -/
def FieldsRel (k : Nat) (h h2 : Store) : List (Nat × Slot) → List (Nat × Slot) → Prop
  | [], [] => True
  | p :: ps, p' :: ps' => (p'.1 = p.1 ∧ SlotRel k h h2 p.2 p'.2) ∧ FieldsRel k h h2 ps ps'
  | _, _ => False

theorem FieldsRel.mono {k : Nat} {h h2 h3 : Store} (hc : Closed h2) (sb : Keeps h2 h3) :
    ∀ {fs fs' : List (Nat × Slot)}, FieldsRel k h h2 fs fs' → FieldsRel k h h3 fs fs'
  | [], [], _ => trivial
  | _ :: _, _ :: _, ⟨⟨a, b⟩, d⟩ => ⟨⟨a, b.mono hc sb⟩, FieldsRel.mono hc sb d⟩
  | [], _ :: _, hf => hf.elim
  | _ :: _, [], hf => hf.elim

theorem copyFields_spec {tr : Nat → Nat → Treat} {cp : Store → Nat → Option (Store × Nat)}
    (hcp : CopySpec tr cp) (trc : Nat → Treat) {h0 : Store} (wf0 : WF h0) :
    ∀ (fs : List (Nat × Slot)) (h h2 : Store) (fs' : List (Nat × Slot)),
      WF h → Sub h0 h →
      (∀ p ∈ fs, slotValid h0 p.2 = true ∧ SlotOK h0 (trc p.1) p.2 ∧
        ∀ r, p.2 = Slot.ref r → AdequateFrom tr h0 r) →
      copyFields cp trc h fs = some (h2, fs') →
      Sub h h2 ∧ WF h2 ∧ FieldsRel h0.length h0 h2 fs fs' := by
  intro fs
  induction fs with
  | nil =>
    intro h h2 fs' wf _ _ e
    simp only [copyFields, Option.some.injEq, Prod.mk.injEq] at e
    obtain ⟨rfl, rfl⟩ := e
    exact ⟨Sub.refl h, wf, trivial⟩
  | cons p rest ih =>
    intro h h2 fs' wf sb0 hall e
    obtain ⟨f, s⟩ := p
    simp only [copyFields] at e
    cases e1 : copySlot cp (trc f) h s with
    | none => simp [e1] at e
    | some pr =>
      obtain ⟨h1, s'⟩ := pr
      simp only [e1] at e
      cases e2 : copyFields cp trc h1 rest with
      | none => simp [e2] at e
      | some pr2 =>
        obtain ⟨h2', rest'⟩ := pr2
        simp only [e2, Option.some.injEq, Prod.mk.injEq] at e
        obtain ⟨rfl, rfl⟩ := e
        have hp := hall (f, s) (List.mem_cons_self)
        obtain ⟨sb1, wf1, rel1⟩ := copySlot_spec hcp wf0 wf sb0 hp.1 hp.2.1 hp.2.2 e1
        obtain ⟨sb2, wf2, rel2⟩ := ih h1 h2' rest' wf1 (sb0.trans sb1)
          (fun q hq => hall q (List.mem_cons_of_mem _ hq)) e2
        exact ⟨sb1.trans sb2, wf2, ⟨rfl, rel1.mono wf1.closed sb2.keeps⟩, rel2⟩

theorem FieldsRel.absMap {k : Nat} {h h2 : Store} (m : Nat) :
    ∀ {fs fs' : List (Nat × Slot)}, FieldsRel k h h2 fs fs' →
      fs'.map (fun p => (p.1, absSlot (abs m h2) p.2)) = fs.map (fun p => (p.1, absSlot (abs m h) p.2))
  | [], [], _ => rfl
  | p :: ps, p' :: ps', ⟨⟨a, b⟩, d⟩ => by
    simp only [List.map_cons, a, b.absEq m, FieldsRel.absMap m d]
  | [], _ :: _, hf => hf.elim
  | _ :: _, [], hf => hf.elim

theorem FieldsRel.mem {k : Nat} {h h2 : Store} :
    ∀ {fs fs' : List (Nat × Slot)}, FieldsRel k h h2 fs fs' → ∀ p' ∈ fs',
      ∃ p ∈ fs, p'.1 = p.1 ∧ SlotRel k h h2 p.2 p'.2
  | [], [], _, _, hm => by cases hm
  | p :: ps, q :: ps', ⟨hd, tl⟩, p', hm => by
    rcases List.mem_cons.mp hm with rfl | hm'
    · exact ⟨p, List.mem_cons_self, hd⟩
    · obtain ⟨x, hx, r⟩ := FieldsRel.mem tl p' hm'
      exact ⟨x, List.mem_cons_of_mem _ hx, r⟩
  | [], _ :: _, hf, _, _ => hf.elim
  | _ :: _, [], hf, _, _ => hf.elim

theorem FieldsRel.length {k : Nat} {h h2 : Store} :
    ∀ {fs fs' : List (Nat × Slot)}, FieldsRel k h h2 fs fs' → fs'.length = fs.length
  | [], [], _ => rfl
  | _ :: _, _ :: _, ⟨_, tl⟩ => by simp [FieldsRel.length tl]
  | [], _ :: _, hf => hf.elim
  | _ :: _, [], hf => hf.elim

/-- The copy of a mutable object is a new object with the same class whose fields are related,
one by one, to the fields of the source. -/
theorem copyWith_shape {tr : Nat → Nat → Treat} {n : Nat} (ih : CopySpec tr (copyWith tr n))
    {h h' : Store} {l l' : Nat} {o : Obj} (wf : WF h) (adq : AdequateFrom tr h l)
    (eo : h[l]? = some o) (hm : o.mu = true)
    (e : copyWith tr (n + 1) h l = some (h', l')) :
    ∃ (h1 : Store) (o' : Obj), h' = h1 ++ [o'] ∧ l' = h1.length ∧ Sub h h1 ∧ WF h1 ∧
      o'.cls = o.cls ∧ o'.mu = true ∧ FieldsRel h.length h h1 o.fields o'.fields := by
  simp only [copyWith, eo] at e
  rw [if_pos hm] at e
  cases ef : copyFields (copyWith tr n) (tr o.cls) h o.fields with
  | none => simp [ef] at e
  | some pr =>
    obtain ⟨h1, fs'⟩ := pr
    simp only [ef, Option.some.injEq, Prod.mk.injEq] at e
    obtain ⟨rfl, rfl⟩ := e
    obtain ⟨sb1, wf1, rel⟩ := copyFields_spec ih (tr o.cls) wf o.fields h h1 fs' wf (Sub.refl h)
      (fun p hp => ⟨wf.closed l o eo p hp, adq l o (Reach.refl l) eo hm p hp,
        fun r hr => by
          obtain ⟨f, s⟩ := p
          subst hr
          exact adq.step eo hp⟩) ef
    exact ⟨h1, _, rfl, rfl, sb1, wf1, rfl, hm, rel⟩

/-- **The copy theorem.** On a well-formed store, if the treatments are adequate for everything
reachable from `l`, `copyWith` extends the store, keeps it well formed, returns an object with
the same abstraction, and everything reachable from it is freshly allocated or immutable. -/
theorem copyWith_spec (tr : Nat → Nat → Treat) : ∀ n, CopySpec tr (copyWith tr n) := by
  intro n
  induction n with
  | zero =>
    intro h l h' l' _ _ e
    simp [copyWith] at e
  | succ n ih =>
    intro h l h' l' wf adq e
    cases eo : h[l]? with
    | none => simp [copyWith, eo] at e
    | some o =>
      have hl : l < h.length := lt_of_get eo
      by_cases hm : o.mu = true
      · obtain ⟨h1, o', rfl, rfl, sb1, wf1, hcls, hmu, rel⟩ := copyWith_shape ih wf adq eo hm e
        have sb2 : Sub h1 (h1 ++ [o']) := Sub.alloc h1 o'
        have wf2 : WF (h1 ++ [o']) := by
          apply wf1.alloc o'
          · intro p' hp'
            obtain ⟨p, _, _, r⟩ := rel.mem p' hp'
            exact r.valid
          · intro hf
            rw [hmu] at hf
            cases hf
        have rel2 := rel.mono wf1.closed sb2.keeps
        have eN : (h1 ++ [o'])[h1.length]? = some o' := by simp
        refine ⟨sb1.trans sb2, wf2, hl, by simp, fun m => ?_, fun x hx => ?_, fun x o3 hx hk e3 hm3 => ?_⟩
        · cases m with
          | zero => rfl
          | succ m =>
            simp only [abs, eN, eo]
            rw [hcls, hmu, hm]
            congr 1
            exact rel2.absMap m
        · rcases reach_cases hx with rfl | ⟨o2, f, q, e2, hq, hr⟩
          · exact Or.inl sb1.len
          · rw [eN] at e2
            cases e2
            obtain ⟨p, _, _, r⟩ := rel2.mem (f, Slot.ref q) hq
            exact r.sep x hr
        · rcases reach_cases hx with rfl | ⟨o2, f, q, e2, hq, hr⟩
          · rw [eN] at e3
            cases e3
            intro p hp r' hr2
            obtain ⟨p0, _, _, rr⟩ := rel.mem p hp
            have := rr.valid
            rw [hr2] at this
            simpa [slotValid] using this
          · rw [eN] at e2
            cases e2
            obtain ⟨p, _, _, r⟩ := rel2.mem (f, Slot.ref q) hq
            exact r.ord x o3 hr hk e3 hm3
      · have hm' : o.mu = false := by simpa using hm
        simp only [copyWith, eo] at e
        rw [if_neg hm] at e
        simp only [Option.some.injEq, Prod.mk.injEq] at e
        obtain ⟨rfl, rfl⟩ := e
        refine ⟨Sub.refl h, wf, hl, hl, fun _ => rfl,
          fun x hx => Or.inr (reach_imm wf.imm ⟨o, eo, hm'⟩ hx), fun x o3 hx _ e3 hm3 => ?_⟩
        obtain ⟨o4, e4, m4⟩ := reach_imm wf.imm ⟨o, eo, hm'⟩ hx
        rw [e3] at e4
        cases e4
        rw [hm3] at m4
        cases m4

/-- `deepCopy` is adequate on every store. -/
theorem adequate_deep (h : Store) : Adequate (fun _ _ => Treat.deep) h :=
  fun _ _ _ _ _ _ => trivial

/-! ## in-place mutation and the frame theorem -/

/-- `h'` differs from `h` only at mutable objects whose location satisfies `W`, and by newly
allocated objects. -/
structure Confined (W : Nat → Prop) (h h' : Store) : Prop where
  len : h.length ≤ h'.length
  same : ∀ (x : Nat) (o : Obj), h[x]? = some o → (¬ W x ∨ o.mu = false) → h'[x]? = some o
  kind : ∀ (x : Nat) (o : Obj), h[x]? = some o → ∃ o', h'[x]? = some o' ∧ o'.mu = o.mu
  closed : Closed h → Closed h'

theorem Confined.refl (W : Nat → Prop) (h : Store) : Confined W h h :=
  ⟨Nat.le_refl _, fun _ _ e _ => e, fun _ o e => ⟨o, e, rfl⟩, id⟩

theorem Confined.trans {W : Nat → Prop} {a b c : Store} (h1 : Confined W a b) (h2 : Confined W b c) :
    Confined W a c := by
  refine ⟨Nat.le_trans h1.len h2.len, fun x o e hc => h2.same x o (h1.same x o e hc) hc, ?_,
    fun hc => h2.closed (h1.closed hc)⟩
  intro x o e
  obtain ⟨o1, e1, m1⟩ := h1.kind x o e
  obtain ⟨o2, e2, m2⟩ := h2.kind x o1 e1
  exact ⟨o2, e2, by rw [m2, m1]⟩

theorem Confined.of_sub {W : Nat → Prop} {h h' : Store} (s : Sub h h') (hc : Closed h → Closed h') :
    Confined W h h' :=
  ⟨s.len, fun _ _ e _ => s.get e, fun _ o e => ⟨o, s.get e, rfl⟩, hc⟩

theorem mem_setField {fs : List (Nat × Slot)} {f : Nat} {s : Slot} {p : Nat × Slot}
    (hp : p ∈ setField fs f s) : p ∈ fs ∨ p = (f, s) := by
  induction fs with
  | nil => simp [setField] at hp; exact Or.inr hp
  | cons q rest ih =>
    obtain ⟨g, t⟩ := q
    simp only [setField] at hp
    by_cases hg : g = f
    · simp only [hg, if_true] at hp
      rcases List.mem_cons.mp hp with rfl | h'
      · exact Or.inr rfl
      · exact Or.inl (List.mem_cons_of_mem _ h')
    · simp only [hg, if_false] at hp
      rcases List.mem_cons.mp hp with rfl | h'
      · exact Or.inl List.mem_cons_self
      · rcases ih h' with h'' | h''
        · exact Or.inl (List.mem_cons_of_mem _ h'')
        · exact Or.inr h''

/-- Replacing the fields of one mutable object at a location in `W` is a confined change. -/
theorem confined_set {W : Nat → Prop} {h : Store} {l : Nat} {o : Obj} (e : h[l]? = some o)
    (hw : W l) (hm : o.mu = true) (fs : List (Nat × Slot))
    (hv : ∀ p ∈ fs, slotValid h p.2 = true) :
    Confined W h (h.set l { o with fields := fs }) := by
  have hl := lt_of_get e
  refine ⟨by simp, ?_, ?_, ?_⟩
  · intro x o' e' hc
    by_cases hx : l = x
    · subst hx
      rw [e] at e'
      cases e'
      rcases hc with hc | hc
      · exact (hc hw).elim
      · rw [hm] at hc; cases hc
    · rw [List.getElem?_set_ne hx]; exact e'
  · intro x o' e'
    by_cases hx : l = x
    · subst hx
      rw [e] at e'
      cases e'
      exact ⟨{ o with fields := fs }, by rw [List.getElem?_set_self hl], rfl⟩
    · exact ⟨o', by rw [List.getElem?_set_ne hx]; exact e', rfl⟩
  · intro hc x o' e' p hp
    have hlen : (h.set l { o with fields := fs }).length = h.length := by simp
    have lift : ∀ s, slotValid h s = true → slotValid (h.set l { o with fields := fs }) s = true := by
      intro s hs
      cases s with
      | val _ => rfl
      | ref r => simpa [slotValid, hlen] using hs
    by_cases hx : l = x
    · subst hx
      rw [List.getElem?_set_self hl] at e'
      cases e'
      exact lift _ (hv p hp)
    · rw [List.getElem?_set_ne hx] at e'
      exact lift _ (hc x o' e' p hp)

/-- One operation whose target (if any) lies in `W` is a confined change. -/
theorem step_confined {W : Nat → Prop} (h : Store) (op : Op)
    (hw : ∀ t, op.target = some t → W t) (hc0 : Closed h) : Confined W h (step h op) := by
  cases op with
  | write l f s =>
    simp only [step]
    cases e : h[l]? with
    | none => exact Confined.refl W h
    | some o =>
      simp only
      by_cases hcnd : (o.mu && slotValid h s) = true
      · rw [if_pos hcnd]
        have hm : o.mu = true := by
          cases hmu : o.mu <;> simp [hmu] at hcnd ⊢
        have hs : slotValid h s = true := by
          cases hsv : slotValid h s <;> simp [hsv] at hcnd ⊢
        apply confined_set e (hw l rfl) hm
        intro p hp
        rcases mem_setField hp with h' | rfl
        · exact hc0 l o e p h'
        · exact hs
      · rw [if_neg hcnd]
        exact Confined.refl W h
  | del l f =>
    simp only [step]
    cases e : h[l]? with
    | none => exact Confined.refl W h
    | some o =>
      simp only
      by_cases hm : o.mu = true
      · rw [if_pos hm]
        apply confined_set e (hw l rfl) hm
        intro p hp
        have : p ∈ o.fields := (List.mem_filter.mp hp).1
        exact hc0 l o e p this
      · rw [if_neg hm]
        exact Confined.refl W h
  | alloc o =>
    simp only [step]
    by_cases hv : objValid h o = true
    · rw [if_pos hv]
      apply Confined.of_sub (Sub.alloc h o)
      intro hc l o' e p hp
      have s := Sub.alloc h o
      by_cases hl : l < h.length
      · rw [s.get_lt hl] at e
        exact slotValid_sub s (hc l o' e p hp)
      · have hl' : l < h.length + 1 := by simpa using lt_of_get e
        have hl2 : l = h.length := by omega
        subst hl2
        simp at e
        subst e
        have := List.all_eq_true.mp hv p hp
        exact slotValid_sub s this
    · rw [if_neg hv]
      exact Confined.refl W h

theorem run_confined {W : Nat → Prop} : ∀ (ops : List Op) (h : Store),
    (∀ op ∈ ops, ∀ t, op.target = some t → W t) → Closed h → Confined W h (run ops h) := by
  intro ops
  induction ops with
  | nil => intro h _ _; exact Confined.refl W h
  | cons op rest ih =>
    intro h hw hc
    have c1 := step_confined (W := W) h op (hw op List.mem_cons_self) hc
    have c2 := ih (step h op) (fun o ho => hw o (List.mem_cons_of_mem _ ho)) (c1.closed hc)
    simpa [run] using c1.trans c2

/-- **Frame theorem.** If no object reachable from `l` is both in `W` and mutable, a change confined
to `W` leaves the abstraction of `l` untouched. -/
theorem frame {W : Nat → Prop} {h h' : Store} (hc : Closed h) {l : Nat} (hl : l < h.length)
    (cf : Confined W h h') (hsep : ∀ x, Reach h l x → W x → IsImm h x) (m : Nat) :
    abs m h' l = abs m h l := by
  apply abs_congr
  intro x hx
  obtain ⟨o, e⟩ := get_of_lt (reach_lt hc hl hx)
  rw [e]
  apply cf.same x o e
  by_cases hw : W x
  · obtain ⟨o', e', m'⟩ := hsep x hx hw
    rw [e] at e'
    cases e'
    exact Or.inr m'
  · exact Or.inl hw

/-- Frame theorem for a sequence of operations. -/
theorem run_frame {W : Nat → Prop} {h : Store} (hc : Closed h) {l : Nat} (hl : l < h.length)
    (ops : List Op) (hw : ∀ op ∈ ops, ∀ t, op.target = some t → W t)
    (hsep : ∀ x, Reach h l x → W x → IsImm h x) (m : Nat) :
    abs m (run ops h) l = abs m h l :=
  frame hc hl (run_confined ops h hw hc) hsep m

/-! ## copies are complete and independent -/

/-- After an adequate copy: same abstraction; only immutable objects are reachable from both
sides; any sequence of mutations of fresh objects (the copy's side, and anything allocated
later) is invisible from the source; any sequence of mutations that avoids the copy's fresh
objects is invisible from the copy. -/
theorem copy_indep {tr : Nat → Nat → Treat} {n : Nat} {h h1 : Store} {l l' : Nat}
    (iv : WF h) (adq : AdequateFrom tr h l) (e : copyWith tr n h l = some (h1, l')) :
    (∀ m, abs m h1 l' = abs m h l) ∧
    (∀ m, abs m h1 l = abs m h l) ∧
    (∀ x, Reach h1 l' x → Reach h1 l x → IsImm h1 x) ∧
    (∀ ops : List Op, (∀ op ∈ ops, ∀ t, op.target = some t → h.length ≤ t) →
        ∀ m, abs m (run ops h1) l = abs m h l) ∧
    (∀ ops : List Op, (∀ op ∈ ops, ∀ t, op.target = some t → t < h.length ∨ h1.length ≤ t) →
        ∀ m, abs m (run ops h1) l' = abs m h l) := by
  obtain ⟨sb, iv1, hl, hl', ha, hs, _⟩ := copyWith_spec tr n h l h1 l' iv adq e
  have old : ∀ x, Reach h1 l x → x < h.length := fun x hx =>
    reach_lt iv.closed hl ((reach_sub_iff iv.closed sb hl).mp hx)
  refine ⟨ha, fun m => abs_sub iv.closed sb m hl, ?_, ?_, ?_⟩
  · intro x hx hx'
    rcases hs x hx with h2 | h2
    · have := old x hx'; omega
    · exact h2
  · intro ops hw m
    rw [run_frame (W := fun t => h.length ≤ t) iv1.closed (Nat.lt_of_lt_of_le hl sb.len) ops hw
      (fun x hx hwx => by have := old x hx; omega) m]
    exact abs_sub iv.closed sb m hl
  · intro ops hw m
    rw [run_frame (W := fun t => t < h.length ∨ h1.length ≤ t) iv1.closed hl' ops hw ?_ m]
    · exact ha m
    · intro x hx hwx
      rcases hs x hx with h2 | h2
      · have := reach_lt iv1.closed hl' hx
        omega
      · exact h2

/-! ## replacing the fields of one mutable object keeps the store well formed -/

theorem set_immClosed {h : Store} (hi : ImmClosed h) {l : Nat} {o : Obj} (e : h[l]? = some o)
    (hm : o.mu = true) (fs : List (Nat × Slot)) :
    ImmClosed (h.set l { o with fields := fs }) := by
  have hl := lt_of_get e
  have keepImm : ∀ r, IsImm h r → IsImm (h.set l { o with fields := fs }) r := by
    intro r ⟨o', e', m'⟩
    have : l ≠ r := by
      intro hlr
      subst hlr
      rw [e] at e'
      cases e'
      rw [hm] at m'
      cases m'
    exact ⟨o', by rw [List.getElem?_set_ne this]; exact e', m'⟩
  intro x o' e' m' p hp
  by_cases hx : l = x
  · subst hx
    rw [List.getElem?_set_self hl] at e'
    cases e'
    rw [hm] at m'
    cases m'
  · rw [List.getElem?_set_ne hx] at e'
    have := hi x o' e' m' p hp
    cases hs : p.2 with
    | val _ => trivial
    | ref r =>
      rw [hs] at this
      exact keepImm r this

theorem WF.set {h : Store} (wf : WF h) {l : Nat} {o : Obj} (e : h[l]? = some o) (hm : o.mu = true)
    (fs : List (Nat × Slot)) (hv : ∀ p ∈ fs, slotValid h p.2 = true) :
    WF (h.set l { o with fields := fs }) :=
  ⟨(confined_set (W := fun _ => True) e trivial hm fs hv).closed wf.closed, set_immClosed wf.imm e hm fs⟩

/-! ## ordered fresh objects: nothing above an object is reachable from it -/

theorem reach_old {h : Store} {k : Nat}
    (hold : ∀ x o, x < k → h[x]? = some o → ∀ p ∈ o.fields, ∀ r, p.2 = Slot.ref r → r < k)
    {l z : Nat} (hl : l < k) (hz : Reach h l z) : z < k := by
  induction hz with
  | refl _ => exact hl
  | @step l2 o2 f2 r2 x2 e2 hm2 _ ih2 => exact ih2 (hold l2 o2 hl e2 _ hm2 r2 rfl)

/-- If every object reachable from `e` is old (`< k`), immutable, or a mutable object whose
references all point to smaller locations, then everything reachable from `e` is `≤ e`, old or
immutable. `hold`: old objects only reference old objects. -/
theorem reach_le_of_ordered {h : Store} {k : Nat} (hi : ImmClosed h)
    (hold : ∀ x o, x < k → h[x]? = some o → ∀ p ∈ o.fields, ∀ r, p.2 = Slot.ref r → r < k)
    {e y : Nat} (hr : Reach h e y)
    (hord : ∀ x o, Reach h e x → k ≤ x → h[x]? = some o → o.mu = true →
      ∀ p ∈ o.fields, ∀ r, p.2 = Slot.ref r → r < x) :
    y ≤ e ∨ y < k ∨ IsImm h y := by
  induction hr with
  | refl l => exact Or.inl (Nat.le_refl _)
  | @step l o f r x eo hm hr' ih =>
    have ih' := ih (fun x' o' hx' => hord x' o' (Reach.step eo hm hx'))
    by_cases hk : l < k
    · -- an old object: everything below it is old
      have hr_old : r < k := hold l o hk eo _ hm r rfl
      exact Or.inr (Or.inl (reach_old hold hr_old hr'))
    · by_cases hmu : o.mu = true
      · have hlt : r < l := hord l o (Reach.refl l) (by omega) eo hmu _ hm r rfl
        rcases ih' with h1 | h1 | h1
        · exact Or.inl (by omega)
        · exact Or.inr (Or.inl h1)
        · exact Or.inr (Or.inr h1)
      · have hmu' : o.mu = false := by simpa using hmu
        exact Or.inr (Or.inr (reach_imm hi ⟨o, eo, hmu'⟩ (Reach.step eo hm hr')))

/-! ## reflection of the executable checks -/

theorem closed_of_closedB {h : Store} (e : closedB h = true) : Closed h := by
  intro l o eo p hp
  have h1 := List.all_eq_true.mp e o (List.mem_of_getElem? eo)
  exact List.all_eq_true.mp h1 p hp

theorem immSlot_of_immSlotB {h : Store} {s : Slot} (e : immSlotB h s = true) : ImmSlot h s := by
  cases s with
  | val _ => trivial
  | ref r =>
    simp only [immSlotB] at e
    cases eo : h[r]? with
    | none => simp [eo] at e
    | some o =>
      simp only [eo] at e
      exact ⟨o, eo, by simpa using e⟩

theorem immClosed_of_immClosedB {h : Store} (e : immClosedB h = true) : ImmClosed h := by
  intro l o eo m p hp
  have h1 := List.all_eq_true.mp e o (List.mem_of_getElem? eo)
  simp only [m, Bool.false_or] at h1
  exact immSlot_of_immSlotB (List.all_eq_true.mp h1 p hp)

theorem slotOK_of_slotOKB {h : Store} {t : Treat} {s : Slot} (e : slotOKB h t s = true) : SlotOK h t s := by
  cases t with
  | deep => trivial
  | keep => exact immSlot_of_immSlotB (by simpa [slotOKB] using e)
  | missing => simp [slotOKB] at e
  | shallow =>
    cases s with
    | val _ => trivial
    | ref r =>
      simp only [slotOKB] at e
      cases eo : h[r]? with
      | none => simp [eo] at e
      | some o =>
        simp only [eo] at e
        exact ⟨o, eo, fun p hp => immSlot_of_immSlotB (List.all_eq_true.mp e p hp)⟩

theorem adequate_of_adequateB {tr : Nat → Nat → Treat} {h : Store} (e : adequateB tr h = true) :
    Adequate tr h := by
  intro l o eo m p hp
  have h1 := List.all_eq_true.mp e o (List.mem_of_getElem? eo)
  simp only [m, Bool.not_true, Bool.false_or] at h1
  exact slotOK_of_slotOKB (List.all_eq_true.mp h1 p hp)

theorem wf_of_B {h : Store} (e1 : closedB h = true) (e2 : immClosedB h = true) : WF h :=
  ⟨closed_of_closedB e1, immClosed_of_immClosedB e2⟩

end Heap
