import Srctools.Model.C14
/-!
# Lemmas for C14: byte-level parser/printer round trips, string table, KV1 bridge.
-/
namespace C14

/-! ## the parser monad -/

theorem bind_apply {α β : Type} (p : Parser α) (f : α → Parser β) (bs : Bytes) :
    (p >>= f) bs = match p bs with
      | .error e => .error e
      | .ok (a, rest) => f a rest := rfl

theorem bind_ok {α β : Type} {p : Parser α} {f : α → Parser β} {bs : Bytes} {a : α} {r : Bytes}
    (h : p bs = .ok (a, r)) : (p >>= f) bs = f a r := by
  rw [bind_apply, h]

theorem pure_apply {α : Type} (a : α) (bs : Bytes) : (pure a : Parser α) bs = .ok (a, bs) := rfl

theorem map_ok {α β : Type} {p : Parser α} {f : α → β} {bs : Bytes} {a : α} {r : Bytes}
    (h : p bs = .ok (a, r)) : (do let x ← p; pure (f x) : Parser β) bs = .ok (f a, r) := by
  rw [bind_ok h]; rfl

/-! ## little-endian integers -/

theorem length_leBytes (k n : Nat) : (leBytes k n).length = k := by
  induction k generalizing n with
  | zero => rfl
  | succ k ih => simp [leBytes, ih]

theorem leNat_leBytes (k n : Nat) : leNat (leBytes k n) = n % 256 ^ k := by
  induction k generalizing n with
  | zero => simp [leBytes, leNat, Nat.mod_one]
  | succ k ih =>
    simp only [leBytes, leNat, ih]
    have : (UInt8.ofNat (n % 256)).toNat = n % 256 := by
      simp [UInt8.toNat_ofNat']
    rw [this, Nat.pow_succ, Nat.mul_comm (256 ^ k) 256, Nat.mod_mul]

theorem takeN_append (xs rest : Bytes) : takeN xs.length (xs ++ rest) = .ok (xs, rest) := by
  simp [takeN]

theorem takeN_append' {n : Nat} (xs rest : Bytes) (h : xs.length = n) :
    takeN n (xs ++ rest) = .ok (xs, rest) := by
  subst h; exact takeN_append xs rest

theorem getInt_putInt (w : Nat) (hw : 0 < w) (i : Int)
    (hlo : -((256 ^ w / 2 : Nat) : Int) ≤ i) (hhi : i < ((256 ^ w / 2 : Nat) : Int)) (rest : Bytes) :
    getInt w (putInt w i ++ rest) = .ok (i, rest) := by
  unfold getInt putInt
  rw [bind_ok (takeN_append' _ _ (length_leBytes _ _))]
  rw [pure_apply, leNat_leBytes]
  have hpos : 0 < 256 ^ w := Nat.pow_pos (by decide)
  have heven : 256 ^ w = 2 * (256 ^ w / 2) := by
    cases w with
    | zero => omega
    | succ w => rw [Nat.pow_succ]; omega
  have hm : ((i % ((256 ^ w : Nat) : Int)).toNat) % 256 ^ w = (i % ((256 ^ w : Nat) : Int)).toNat := by
    apply Nat.mod_eq_of_lt
    have := Int.emod_lt_of_pos i (show (0 : Int) < ((256 ^ w : Nat) : Int) by exact_mod_cast hpos)
    have h0 := Int.emod_nonneg i (show ((256 ^ w : Nat) : Int) ≠ 0 by exact_mod_cast (Nat.ne_of_gt hpos))
    omega
  rw [hm]
  have h0 := Int.emod_nonneg i (show ((256 ^ w : Nat) : Int) ≠ 0 by exact_mod_cast (Nat.ne_of_gt hpos))
  have hcast : (((i % ((256 ^ w : Nat) : Int)).toNat : Nat) : Int) = i % ((256 ^ w : Nat) : Int) :=
    Int.toNat_of_nonneg h0
  congr 2
  by_cases hi : 0 ≤ i
  · have : i % ((256 ^ w : Nat) : Int) = i := Int.emod_eq_of_lt hi (by omega)
    rw [if_pos (by omega), hcast, this]
  · have : i % ((256 ^ w : Nat) : Int) = i + ((256 ^ w : Nat) : Int) := by
      rw [← Int.add_emod_right]
      exact Int.emod_eq_of_lt (by omega) (by omega)
    rw [if_neg (by omega), hcast, this]; omega

/-- the two widths that occur. -/
theorem getInt4_putInt (i : Int) (hlo : -2147483648 ≤ i) (hhi : i < 2147483648) (rest : Bytes) :
    getInt 4 (putInt 4 i ++ rest) = .ok (i, rest) :=
  getInt_putInt 4 (by decide) i (by simpa using hlo) (by simpa using hhi) rest

theorem getInt4_putNat (n : Nat) (h : n < 2147483648) (rest : Bytes) :
    getInt 4 (putInt 4 n ++ rest) = .ok ((n : Int), rest) :=
  getInt4_putInt n (by omega) (by omega) rest

/-! ## NUL-terminated strings -/

theorem splitNul_append (s rest : Bytes) (h : s.contains 0 = false) :
    splitNul (s ++ 0 :: rest) = some (s, rest) := by
  induction s with
  | nil => simp [splitNul]
  | cons b bs ih =>
    simp only [List.contains_cons, Bool.or_eq_false_iff, beq_eq_false_iff_ne, ne_eq] at h
    have hb : b ≠ 0 := fun e => h.1 e.symm
    simp [splitNul, hb, ih h.2]

theorem getCStr_putCStr (uni : Bool) (s rest : Bytes) (h0 : s.contains 0 = false)
    (hd : decodable uni s = true) : getCStr uni (putCStr s ++ rest) = .ok (s, rest) := by
  simp [getCStr, putCStr, splitNul_append s rest h0, hd]

/-! ## repeated items -/

theorem getMany_flatMap {α : Type} (p : Parser α) (put : α → Bytes) (xs : List α)
    (h : ∀ x ∈ xs, ∀ rest, p (put x ++ rest) = .ok (x, rest)) (rest : Bytes) :
    getMany p xs.length (xs.flatMap put ++ rest) = .ok (xs, rest) := by
  induction xs with
  | nil => rfl
  | cons x xs ih =>
    simp only [List.length_cons, getMany, List.flatMap_cons, List.append_assoc]
    rw [bind_ok (h x (List.mem_cons_self ..) _)]
    rw [bind_ok (ih (fun y hy => h y (List.mem_cons_of_mem _ hy)))]
    rfl

/-! ## string table -/

theorem mem_insertStr (a s : Bytes) (l : List Bytes) : a ∈ insertStr s l ↔ a = s ∨ a ∈ l := by
  induction l with
  | nil => simp [insertStr]
  | cons x xs ih =>
    simp only [insertStr]
    split
    · rename_i h; subst h; simp
    · split
      · simp
      · simp only [List.mem_cons, ih]; exact or_left_comm

theorem mem_mkTable (a : Bytes) (ss : List Bytes) : a ∈ mkTable ss ↔ a ∈ ss := by
  induction ss with
  | nil => simp [mkTable]
  | cons s ss ih =>
    simp only [mkTable, List.foldr_cons, List.mem_cons] at *
    rw [mem_insertStr, ih]

theorem findIdx_lt (s : Bytes) (l : List Bytes) (h : s ∈ l) : findIdx s l < l.length := by
  induction l with
  | nil => simp at h
  | cons x xs ih =>
    simp only [findIdx]
    split
    · simp
    · rename_i hx
      have : s ∈ xs := by
        rcases List.mem_cons.mp h with e | e
        · exact absurd e.symm hx
        · exact e
      simp [ih this]

theorem getElem?_findIdx (s : Bytes) (l : List Bytes) (h : s ∈ l) : l[findIdx s l]? = some s := by
  induction l with
  | nil => simp at h
  | cons x xs ih =>
    simp only [findIdx]
    split
    · rename_i hx; simp [hx]
    · rename_i hx
      have : s ∈ xs := by
        rcases List.mem_cons.mp h with e | e
        · exact absurd e.symm hx
        · exact e
      simp [ih this]

theorem pyIndex_findIdx (s : Bytes) (l : List Bytes) (h : s ∈ l) :
    pyIndex l (findIdx s l : Int) = some s := by
  simp [pyIndex, getElem?_findIdx s l h]

theorem fitsWidth_bound {w n : Nat} (h : fitsWidth w n = true) : 2 * n ≤ 256 ^ w := by
  simpa [fitsWidth] using h

theorem getInt_putNat (w : Nat) (hw : 0 < w) (n : Nat) (h : fitsWidth w (n + 1) = true) (rest : Bytes) :
    getInt w (putInt w n ++ rest) = .ok ((n : Int), rest) := by
  have hb := fitsWidth_bound h
  apply getInt_putInt w hw
  · omega
  · have : n < 256 ^ w / 2 := by omega
    exact_mod_cast this

theorem getStrRef_putStrRef (iw : Nat) (hw : 0 < iw) (tbl : List Bytes) (s : Bytes) (hs : s ∈ tbl)
    (hf : fitsWidth iw (tbl.length + 1) = true) (rest : Bytes) :
    getStrRef iw tbl (putStrRef iw tbl s ++ rest) = .ok (s, rest) := by
  unfold getStrRef putStrRef
  have hlt := findIdx_lt s tbl hs
  have hf' : fitsWidth iw (findIdx s tbl + 1) = true := by
    have := fitsWidth_bound hf
    simp only [fitsWidth, decide_eq_true_eq]; omega
  rw [bind_ok (getInt_putNat iw hw _ hf' rest), pyIndex_findIdx s tbl hs]
  rfl

theorem getTable_putTable (cw : Nat) (hw : 0 < cw) (uni : Bool) (tbl : List Bytes)
    (hf : fitsWidth cw (tbl.length + 1) = true)
    (hs : ∀ s ∈ tbl, s.contains 0 = false ∧ decodable uni s = true) (rest : Bytes) :
    getTable cw uni (putTable cw tbl ++ rest) = .ok (tbl, rest) := by
  unfold getTable putTable
  rw [List.append_assoc, bind_ok (getInt_putNat cw hw _ hf _)]
  simp only [Int.toNat_natCast]
  exact getMany_flatMap _ _ _ (fun s h r => getCStr_putCStr uni s r (hs s h).1 (hs s h).2) rest

/-! ## fixed-size values -/

theorem getU8_cons (b : UInt8) (rest : Bytes) : getU8 (b :: rest) = .ok (b.toNat, rest) := rfl

theorem getField_putField (k : FieldKind) (x : Int) (h : fieldOK k x = true) (rest : Bytes) :
    getField k (putField k x ++ rest) = .ok (x, rest) := by
  cases k with
  | i32 =>
    simp only [fieldOK, decide_eq_true_eq] at h
    exact getInt4_putInt x h.1 h.2 rest
  | f32 =>
    simp only [fieldOK, decide_eq_true_eq] at h
    simp only [getField, putField]
    rw [bind_ok (takeN_append' _ _ (length_leBytes _ _)), pure_apply, leNat_leBytes]
    have : x.toNat % 256 ^ 4 = x.toNat := Nat.mod_eq_of_lt (by omega)
    rw [this, Int.toNat_of_nonneg h.1]
  | bool =>
    simp only [fieldOK, decide_eq_true_eq] at h
    simp only [getField, putField, List.singleton_append]
    rw [bind_ok (getU8_cons _ _), pure_apply]
    rcases h with rfl | rfl <;> rfl
  | u8 =>
    simp only [fieldOK, decide_eq_true_eq] at h
    simp only [getField, putField, leBytes, List.singleton_append]
    rw [bind_ok (getU8_cons _ _), pure_apply]
    have : (UInt8.ofNat (x.toNat % 256)).toNat = x.toNat := by
      simp [UInt8.toNat_ofNat']; omega
    rw [this, Int.toNat_of_nonneg h.1]

theorem length9 {α : Type} (xs : List α) (h : xs.length = 9) :
    ∃ a b c d e f g h i, xs = [a, b, c, d, e, f, g, h, i] := by
  match xs, h with
  | [a, b, c, d, e, f, g, h, i], _ => exact ⟨a, b, c, d, e, f, g, h, i, rfl⟩

theorem getFixed_putFixed (T : Tables) (n : Nat) (t : VT) (xs : List Int)
    (h : valOK T n t (.fixed xs) = true) (rest : Bytes) :
    getFixed T t (putFixed T t xs ++ rest) = .ok (xs, rest) := by
  unfold valOK at h
  unfold getFixed putFixed
  cases hf : T.format t with
  | none => simp [hf] at h
  | some nk =>
    obtain ⟨cnt, k⟩ := nk
    simp only [hf, Bool.and_eq_true, bne_iff_ne, ne_eq, beq_iff_eq, List.all_eq_true,
      Bool.or_eq_true] at h
    obtain ⟨⟨⟨⟨⟨hne, _⟩, _⟩, hlen⟩, hall⟩, hmat⟩ := h
    by_cases hm : t = .matrix
    · subst hm
      simp only [arity, if_true] at hlen
      simp only [if_true]
      have hm' : cnt = 16 ∧ fieldOK k 0 = true ∧ fieldOK k f32One = true := by
        rcases hmat with h | h
        · simp at h
        · simpa [and_assoc] using h
      obtain ⟨rfl, h0, h1⟩ := hm'
      obtain ⟨a, b, c, d, e, f, g, hh, i, rfl⟩ := length9 xs hlen
      have hw : ∀ x ∈ matrixToWire [a, b, c, d, e, f, g, hh, i], ∀ r,
          getField k (putField k x ++ r) = .ok (x, r) := by
        intro x hx r
        apply getField_putField
        simp only [matrixToWire, List.mem_cons, List.not_mem_nil, or_false] at hx
        rcases hx with rfl | rfl | rfl | rfl | rfl | rfl | rfl | rfl | rfl | rfl | rfl | rfl | rfl | rfl | rfl | rfl <;>
          first | exact h0 | exact h1 | exact hall _ (by simp)
      have this : getMany (getField k) 16
          (List.flatMap (putField k) (matrixToWire [a, b, c, d, e, f, g, hh, i]) ++ rest) =
          .ok (matrixToWire [a, b, c, d, e, f, g, hh, i], rest) :=
        getMany_flatMap (getField k) (putField k) (matrixToWire [a, b, c, d, e, f, g, hh, i]) hw rest
      rw [bind_ok this]
      rfl
    · simp only [arity, if_neg hm] at hlen
      simp only [if_neg hm]
      have := getMany_flatMap (getField k) (putField k) xs
        (fun x hx r => getField_putField k x (hall x hx) r) rest
      rw [hlen] at this
      rw [bind_ok this]
      rfl

/-! ## element references -/

theorem getRef_putRef (T : Tables) (n : Nat) (hn : n < 2147483648) (r : Ref)
    (h : valOK T n .element (.ref r) = true) (rest : Bytes) :
    getRef T n (putRef T r ++ rest) = .ok (r, rest) := by
  cases r with
  | null =>
    simp only [getRef, putRef]
    rw [bind_ok (getInt4_putInt (-1) (by decide) (by decide) rest)]
    rfl
  | stub u =>
    simp only [valOK, Bool.and_eq_true, beq_iff_eq, Bool.not_eq_true'] at h
    obtain ⟨⟨⟨⟨⟨_, hw⟩, hr⟩, h0⟩, hd⟩, hu⟩ := h
    simp only [getRef, putRef, hw, hr, List.append_assoc]
    rw [bind_ok (getInt4_putInt (-2) (by decide) (by decide) _)]
    simp only [show ((-2 : Int) = -1) = False by decide, if_false, if_true]
    rw [bind_ok (getCStr_putCStr false u rest h0 hd)]
    simp [hu, pure_apply]
  | idx i =>
    simp only [valOK, Bool.and_eq_true, beq_iff_eq, decide_eq_true_eq] at h
    simp only [getRef, putRef]
    rw [bind_ok (getInt4_putNat i (by omega) rest)]
    have h1 : ((i : Int) = -1) = False := by simp
    have h2 : ((i : Int) = -2) = False := by simp
    simp only [h1, h2, if_false, Int.natCast_nonneg, if_true, Int.toNat_natCast, h.2, pure_apply]

/-! ## attribute values -/

theorem readBlob_append (b rest : Bytes) : readBlob (b.length : Int) (b ++ rest) = .ok (b, rest) := by
  have : ¬ ((b.length : Int) < 0) := by omega
  simp [readBlob, this]

/-- What a value needs from the context besides `valOK`: a string is decodable, and where the table
is used it is in the table. -/
def valCtxOK (c : Cfg) (iw : Nat) (tbl : List Bytes) (isArray : Bool) : Val → Prop
  | .str s => decodable c.uni s = true ∧
      ((c.v ≥ 4 ∧ ¬ isArray = true) → s ∈ tbl ∧ 0 < iw ∧ fitsWidth iw (tbl.length + 1) = true)
  | _ => True

theorem getVal_putVal (T : Tables) (c : Cfg) (iw : Nat) (tbl : List Bytes) (n : Nat)
    (hn : n < 2147483648) (t : VT) (isArray : Bool) (v : Val)
    (hv : valOK T n t v = true) (hc : valCtxOK c iw tbl isArray v) (rest : Bytes) :
    getVal T c iw tbl n t isArray (putVal T c iw tbl t isArray v ++ rest) = .ok (v, rest) := by
  cases v with
  | ref r =>
    have ht : t = .element := by
      cases r <;> simp only [valOK, Bool.and_eq_true, beq_iff_eq] at hv
      · exact hv
      · exact hv.1.1.1.1.1
      · exact hv.1
    subst ht
    simp only [getVal, putVal]
    rw [bind_ok (getRef_putRef T n hn r hv rest)]
    rfl
  | fixed xs =>
    have hv' := hv
    unfold valOK at hv
    cases hf : T.format t with
    | none => simp [hf] at hv
    | some nk =>
      simp only [hf, Bool.and_eq_true, bne_iff_ne, ne_eq] at hv
      obtain ⟨⟨⟨⟨⟨h1, h2⟩, h3⟩, _⟩, _⟩, _⟩ := hv
      have hg : getVal T c iw tbl n t isArray = (do let xs ← getFixed T t; pure (.fixed xs)) := by
        cases t <;> first | rfl | exact absurd rfl h1 | exact absurd rfl h2 | exact absurd rfl h3
      rw [hg]
      simp only [putVal]
      rw [bind_ok (getFixed_putFixed T n t xs hv' rest)]
      rfl
  | str s =>
    simp only [valOK, Bool.and_eq_true, beq_iff_eq, Bool.not_eq_true'] at hv
    obtain ⟨rfl, h0⟩ := hv
    obtain ⟨hd, htbl⟩ := hc
    simp only [getVal, putVal, putStr]
    by_cases hcond : c.v ≥ 4 ∧ ¬ isArray = true
    · obtain ⟨hs, hw, hf⟩ := htbl hcond
      rw [if_pos hcond, if_pos hcond, bind_ok (getStrRef_putStrRef iw hw tbl s hs hf rest)]
      rfl
    · rw [if_neg hcond, if_neg hcond, bind_ok (getCStr_putCStr c.uni s rest h0 hd)]
      rfl
  | bin b =>
    simp only [valOK, Bool.and_eq_true, beq_iff_eq, decide_eq_true_eq] at hv
    obtain ⟨rfl, hb⟩ := hv
    simp only [getVal, putVal, List.append_assoc]
    rw [bind_ok (getInt4_putNat b.length hb _), bind_ok (readBlob_append b rest)]
    rfl

/-! ## attributes -/

theorem codesOK_spec (T : Tables) (h : codesOK T = true) (t : VT) (arr : Bool) :
    decodeType T (encodeType T t arr) = some (t, arr) ∧ encodeType T t arr < 256 := by
  simp only [codesOK, VT.all, List.all_cons, List.all_nil, Bool.and_true, Bool.and_eq_true,
    decide_eq_true_eq, beq_iff_eq] at h
  cases t <;> cases arr <;> simp_all

/-- the decode site, in the shape `getAttr` uses it. -/
theorem decode_site (T : Tables) (h : codesOK T = true) (t : VT) (arr : Bool) :
    T.decodeCmp.test (encodeType T t arr) T.arrayOffset = arr ∧
    T.typeOf (if arr then encodeType T t arr - T.arrayOffset else encodeType T t arr) = some t := by
  have hd := (codesOK_spec T h t arr).1
  unfold decodeType at hd
  cases htest : T.decodeCmp.test (encodeType T t arr) T.arrayOffset
  · rw [htest] at hd
    simp only [Bool.false_eq_true, if_false, Option.map_eq_some_iff, Prod.mk.injEq] at hd
    obtain ⟨t', ht', rfl, rfl⟩ := hd
    simp [ht']
  · rw [htest] at hd
    simp only [if_true, Option.map_eq_some_iff, Prod.mk.injEq] at hd
    obtain ⟨t', ht', rfl, rfl⟩ := hd
    simp [ht']

theorem getName_putName (uni : Bool) (iw : Nat) (tbl : List Bytes) (s : Bytes)
    (h0 : s.contains 0 = false) (hd : decodable uni s = true)
    (ht : iw ≠ 0 → s ∈ tbl ∧ fitsWidth iw (tbl.length + 1) = true) (rest : Bytes) :
    getName uni iw tbl (putName iw tbl s ++ rest) = .ok (s, rest) := by
  unfold getName putName
  by_cases hw : iw = 0
  · rw [if_pos hw, if_pos hw]; exact getCStr_putCStr uni s rest h0 hd
  · rw [if_neg hw, if_neg hw]
    exact getStrRef_putStrRef iw (Nat.pos_of_ne_zero hw) tbl s (ht hw).1 (ht hw).2 rest

/-- context facts of an attribute: its name and scalar strings are in the table where needed. -/
def attrCtxOK (c : Cfg) (iw : Nat) (tbl : List Bytes) (a : Attr) : Prop :=
  (iw ≠ 0 → a.name ∈ tbl ∧ fitsWidth iw (tbl.length + 1) = true) ∧
  ∀ v ∈ a.vals, valCtxOK c iw tbl a.isArray v

theorem getAttr_putAttr (T : Tables) (hT : codesOK T = true) (c : Cfg) (iw : Nat) (tbl : List Bytes)
    (n : Nat) (hn : n < 2147483648) (a : Attr) (ha : attrOK T c n a = true)
    (hc : attrCtxOK c iw tbl a) (rest : Bytes) :
    getAttr T c iw tbl n (putAttr T c iw tbl a ++ rest) = .ok (a, rest) := by
  obtain ⟨name, t, isArray, vals⟩ := a
  simp only [attrOK, Bool.and_eq_true, Bool.not_eq_true', Bool.or_eq_true, beq_iff_eq,
    decide_eq_true_eq, List.all_eq_true, Bool.and_eq_false_iff, beq_eq_false_iff_ne, ne_eq,
    decide_eq_false_iff_not] at ha
  obtain ⟨⟨⟨⟨⟨h0, hd⟩, hshape⟩, hlen⟩, htime⟩, hvals⟩ := ha
  obtain ⟨hname, hctx⟩ := hc
  simp only at hname hctx hshape hlen htime hvals h0 hd
  have hsite := decode_site T hT t isArray
  have hbyte := (codesOK_spec T hT t isArray).2
  have htime' : ¬ (t = .time ∧ c.v < 3) := by
    rintro ⟨h1, h2⟩; rcases htime with h | h
    · exact h h1
    · exact h h2
  have hitem : ∀ v ∈ vals, ∀ r, getVal T c iw tbl n t isArray (putVal T c iw tbl t isArray v ++ r) = .ok (v, r) :=
    fun v hv r => getVal_putVal T c iw tbl n hn t isArray v (hvals v hv).1 (hctx v hv) r
  unfold getAttr putAttr
  simp only [List.append_assoc, List.cons_append]
  rw [bind_ok (getName_putName c.uni iw tbl name h0 hd hname _), bind_ok (getU8_cons _ _)]
  have hb : (UInt8.ofNat (encodeType T t isArray)).toNat = encodeType T t isArray := by
    simp [UInt8.toNat_ofNat']; omega
  rw [hb]
  cases isArray with
  | true =>
    simp only [if_true] at hsite ⊢
    rw [hsite.1]
    simp only [if_true, List.nil_append]
    rw [bind_ok (getInt4_putNat vals.length hlen _), hsite.2]
    simp only [if_neg htime', Int.toNat_natCast]
    rw [bind_ok (getMany_flatMap _ _ vals hitem rest)]
    rfl
  | false =>
    simp only [Bool.false_eq_true, if_false, List.nil_append] at hsite ⊢
    rw [hsite.1]
    simp only [Bool.false_eq_true, if_false]
    rw [hsite.2]
    simp only [if_neg htime']
    have hone : vals.length = 1 := by
      rcases hshape with h | h
      · exact absurd h (by decide)
      · exact h
    match vals, hone, hitem with
    | [v], _, hitem =>
      simp only [List.flatMap_cons, List.flatMap_nil, List.append_nil]
      rw [bind_ok (hitem v (by simp) rest)]
      rfl

/-! ## elements and the whole file -/

theorem getMany_flatMap_map {α β : Type} (p : Parser β) (put : α → Bytes) (f : α → β) (xs : List α)
    (h : ∀ x ∈ xs, ∀ rest, p (put x ++ rest) = .ok (f x, rest)) (rest : Bytes) :
    getMany p xs.length (xs.flatMap put ++ rest) = .ok (xs.map f, rest) := by
  induction xs with
  | nil => rfl
  | cons x xs ih =>
    simp only [List.length_cons, getMany, List.flatMap_cons, List.append_assoc, List.map_cons]
    rw [bind_ok (h x (List.mem_cons_self ..) _)]
    rw [bind_ok (ih (fun y hy => h y (List.mem_cons_of_mem _ hy)))]
    rfl

def Elem.header (e : Elem) : Header := { type := e.type, name := e.name, uuid := e.uuid }

/-- context facts of an element: type, name, attribute names and scalar strings are in the table
where the table is used. -/
def elemCtxOK (c : Cfg) (iw : Nat) (tbl : List Bytes) (e : Elem) : Prop :=
  (iw ≠ 0 → e.type ∈ tbl ∧ fitsWidth iw (tbl.length + 1) = true) ∧
  (c.v ≥ 4 → e.name ∈ tbl ∧ 0 < iw ∧ fitsWidth iw (tbl.length + 1) = true) ∧
  ∀ a ∈ e.attrs, attrCtxOK c iw tbl a

theorem getHeader_putHeader (T : Tables) (c : Cfg) (iw : Nat) (tbl : List Bytes) (n : Nat) (e : Elem)
    (he : elemOK T c n e = true) (hc : elemCtxOK c iw tbl e) (rest : Bytes) :
    getHeader c iw tbl (putHeader c iw tbl e ++ rest) = .ok (e.header, rest) := by
  simp only [elemOK, Bool.and_eq_true, Bool.not_eq_true', beq_iff_eq, decide_eq_true_eq] at he
  obtain ⟨⟨⟨⟨⟨⟨ht0, htd⟩, hn0⟩, hnd⟩, hu⟩, _⟩, _⟩ := he
  obtain ⟨hty, hnm, _⟩ := hc
  unfold getHeader putHeader
  simp only [List.append_assoc]
  rw [bind_ok (getName_putName c.uni iw tbl e.type ht0 htd hty _)]
  by_cases hv : c.v ≥ 4
  · obtain ⟨hs, hw, hf⟩ := hnm hv
    rw [if_pos hv, if_pos hv, bind_ok (getStrRef_putStrRef iw hw tbl e.name hs hf _),
      bind_ok (takeN_append' e.uuid rest hu)]
    rfl
  · rw [if_neg hv, if_neg hv, bind_ok (getCStr_putCStr c.uni e.name _ hn0 hnd),
      bind_ok (takeN_append' e.uuid rest hu)]
    rfl

theorem getAttrs_putAttrs (T : Tables) (hT : codesOK T = true) (c : Cfg) (iw : Nat) (tbl : List Bytes)
    (n : Nat) (hn : n < 2147483648) (e : Elem) (he : elemOK T c n e = true)
    (hc : elemCtxOK c iw tbl e) (rest : Bytes) :
    getAttrs T c iw tbl n (putAttrs T c iw tbl e ++ rest) = .ok (e.attrs, rest) := by
  simp only [elemOK, Bool.and_eq_true, decide_eq_true_eq, List.all_eq_true] at he
  obtain ⟨⟨_, hlen⟩, hattrs⟩ := he
  unfold getAttrs putAttrs
  rw [List.append_assoc, bind_ok (getInt4_putNat e.attrs.length hlen _)]
  simp only [Int.toNat_natCast]
  exact getMany_flatMap _ _ e.attrs
    (fun a ha r => getAttr_putAttr T hT c iw tbl n hn a (hattrs a ha) (hc.2.2 a ha) r) rest

theorem zipElems_map (es : List Elem) : zipElems (es.map Elem.header) (es.map (·.attrs)) = es := by
  induction es with
  | nil => rfl
  | cons e es ih => simp [zipElems, ih, Elem.header]

theorem widths_spec (T : Tables) (hL : layoutOK T = true) (v : Nat) :
    widths T.strTabRead v = widths T.strTabWrite v ∧
    (((widths T.strTabWrite v).1 = 0 ∧ (widths T.strTabWrite v).2 = 0) ∨
     (0 < (widths T.strTabWrite v).1 ∧ 0 < (widths T.strTabWrite v).2)) := by
  simp only [layoutOK, Bool.and_eq_true, beq_iff_eq, List.all_eq_true, Bool.or_eq_true] at hL
  obtain ⟨⟨⟨hrw, _⟩, hall⟩, _⟩ := hL
  refine ⟨by rw [hrw], ?_⟩
  unfold widths
  rw [List.getD_eq_getElem?_getD]
  cases hget : T.strTabWrite[min v 5]? with
  | none => simp
  | some p =>
    have hp := hall p (List.mem_of_getElem? hget)
    simp only [Option.getD_some]
    rcases hp with ⟨h1, h2⟩ | ⟨h1, h2⟩
    · left; exact ⟨h1, h2⟩
    · right
      constructor
      · rcases h1 with h | h <;> omega
      · rcases h2 with h | h <;> omega

/-! ### which strings are in the table -/

theorem nameLit_ok (uni : Bool) : nameLit.contains 0 = false ∧ decodable uni nameLit = true := by
  cases uni <;> decide

theorem mem_used_type {c : Cfg} {iw : Nat} {g : Graph} {e : Elem} (he : e ∈ g.elems) (hw : iw ≠ 0) :
    e.type ∈ usedStrings c iw g := by
  simp only [usedStrings, List.mem_cons, List.mem_flatMap]
  right; exact ⟨e, he, by simp [elemStrings, hw]⟩

theorem mem_used_name {c : Cfg} {iw : Nat} {g : Graph} {e : Elem} (he : e ∈ g.elems) (hv : c.v ≥ 4) :
    e.name ∈ usedStrings c iw g := by
  simp only [usedStrings, List.mem_cons, List.mem_flatMap]
  right; exact ⟨e, he, by simp [elemStrings, hv]⟩

theorem mem_used_attr {c : Cfg} {iw : Nat} {g : Graph} {e : Elem} {a : Attr} (he : e ∈ g.elems)
    (ha : a ∈ e.attrs) (hw : iw ≠ 0) : a.name ∈ usedStrings c iw g := by
  simp only [usedStrings, List.mem_cons, List.mem_flatMap]
  right
  refine ⟨e, he, ?_⟩
  simp only [elemStrings, List.mem_append, List.mem_flatMap]
  right; exact ⟨a, ha, by simp [attrStrings, hw]⟩

theorem mem_used_str {c : Cfg} {iw : Nat} {g : Graph} {e : Elem} {a : Attr} {s : Bytes}
    (he : e ∈ g.elems) (ha : a ∈ e.attrs) (hs : Val.str s ∈ a.vals) (ht : a.type = .string)
    (hv : c.v ≥ 4 ∧ ¬ a.isArray = true) : s ∈ usedStrings c iw g := by
  simp only [usedStrings, List.mem_cons, List.mem_flatMap]
  right
  refine ⟨e, he, ?_⟩
  simp only [elemStrings, List.mem_append, List.mem_flatMap]
  right
  refine ⟨a, ha, ?_⟩
  simp only [attrStrings, List.mem_append]
  right
  rw [if_pos ⟨hv.1, ht, hv.2⟩, List.mem_filterMap]
  exact ⟨.str s, hs, rfl⟩

/-- every string collected for the table is NUL-free and decodable when all elements are OK. -/
theorem used_ok (T : Tables) (c : Cfg) (iw : Nat) (g : Graph) (n : Nat)
    (hg : ∀ e ∈ g.elems, elemOK T c n e = true) (s : Bytes) (hs : s ∈ usedStrings c iw g) :
    s.contains 0 = false ∧ decodable c.uni s = true := by
  simp only [usedStrings, List.mem_cons, List.mem_flatMap] at hs
  rcases hs with rfl | ⟨e, he, hs⟩
  · exact nameLit_ok c.uni
  · have hE := hg e he
    simp only [elemOK, Bool.and_eq_true, Bool.not_eq_true', beq_iff_eq, decide_eq_true_eq,
      List.all_eq_true] at hE
    obtain ⟨⟨⟨⟨⟨⟨ht0, htd⟩, hn0⟩, hnd⟩, _⟩, _⟩, hattrs⟩ := hE
    simp only [elemStrings, List.mem_append, List.mem_flatMap] at hs
    rcases hs with (hs | hs) | ⟨a, ha, hs⟩
    · split at hs
      · simp at hs
      · simp only [List.mem_singleton] at hs; subst hs; exact ⟨ht0, htd⟩
    · split at hs
      · simp only [List.mem_singleton] at hs; subst hs; exact ⟨hn0, hnd⟩
      · simp at hs
    · have hA := hattrs a ha
      simp only [attrOK, Bool.and_eq_true, Bool.not_eq_true', List.all_eq_true] at hA
      obtain ⟨⟨⟨⟨⟨h0, hd⟩, _⟩, _⟩, _⟩, hvals⟩ := hA
      simp only [attrStrings, List.mem_append] at hs
      rcases hs with hs | hs
      · split at hs
        · simp at hs
        · simp only [List.mem_singleton] at hs; subst hs; exact ⟨h0, hd⟩
      · split at hs
        · rw [List.mem_filterMap] at hs
          obtain ⟨v, hv, hvs⟩ := hs
          cases v with
          | str s' =>
            simp only [Option.some.injEq] at hvs; subst hvs
            have := hvals _ hv
            simp only [valOK, Bool.and_eq_true, beq_iff_eq, Bool.not_eq_true'] at this
            exact ⟨this.1.2, this.2⟩
          | ref r => simp at hvs
          | fixed xs => simp at hvs
          | bin b => simp at hvs
        · simp at hs

/-! ### the whole file -/

theorem flatMap_congr' {α β : Type} {f g : α → List β} {l : List α} (h : ∀ x ∈ l, f x = g x) :
    l.flatMap f = l.flatMap g := by
  induction l with
  | nil => rfl
  | cons x xs ih =>
    simp only [List.flatMap_cons]
    rw [h x (List.mem_cons_self ..), ih (fun y hy => h y (List.mem_cons_of_mem _ hy))]

/-- without a table (index width 0, version below 4) nothing written depends on the table. -/
theorem putVal_noTable (T : Tables) (c : Cfg) (hv : ¬ c.v ≥ 4) (tbl tbl' : List Bytes) (t : VT)
    (arr : Bool) (v : Val) : putVal T c 0 tbl t arr v = putVal T c 0 tbl' t arr v := by
  cases v <;> simp [putVal, putStr, hv]

theorem putAttr_noTable (T : Tables) (c : Cfg) (hv : ¬ c.v ≥ 4) (tbl tbl' : List Bytes) (a : Attr) :
    putAttr T c 0 tbl a = putAttr T c 0 tbl' a := by
  simp only [putAttr, putName, if_true]
  rw [flatMap_congr' (fun v _ => putVal_noTable T c hv tbl tbl' a.type a.isArray v)]

theorem putAttrs_noTable (T : Tables) (c : Cfg) (hv : ¬ c.v ≥ 4) (tbl tbl' : List Bytes) (e : Elem) :
    putAttrs T c 0 tbl e = putAttrs T c 0 tbl' e := by
  simp only [putAttrs]
  rw [flatMap_congr' (fun a _ => putAttr_noTable T c hv tbl tbl' a)]

theorem putHeader_noTable (c : Cfg) (hv : ¬ c.v ≥ 4) (tbl tbl' : List Bytes) (e : Elem) :
    putHeader c 0 tbl e = putHeader c 0 tbl' e := by
  simp [putHeader, putName, hv]

theorem decodeBin_encodeBin (T : Tables) (hT : codesOK T = true) (hL : layoutOK T = true)
    (c : Cfg) (g : Graph) (hg : graphOK T c g = true) :
    decodeBin T c (encodeBin T c g) = .ok g := by
  obtain ⟨hrw, hwid⟩ := widths_spec T hL c.v
  unfold decodeBin encodeBin
  unfold graphOK at hg
  rw [hrw]
  generalize hw : widths T.strTabWrite c.v = w at hg hwid ⊢
  obtain ⟨cw, iw⟩ := w
  simp only at hg hwid ⊢
  generalize htbl : mkTable (usedStrings c iw g) = tbl at hg ⊢
  simp only [Bool.and_eq_true, Bool.not_eq_true', List.isEmpty_eq_false_iff, decide_eq_true_eq,
    List.all_eq_true, Bool.or_eq_true, beq_iff_eq, bne_iff_ne, ne_eq] at hg
  obtain ⟨⟨⟨⟨hne, hlen⟩, helems⟩, hfit⟩, hv4⟩ := hg
  have hv4' : c.v ≥ 4 → iw ≠ 0 := by
    intro h
    have := hv4
    simp only [ge_iff_le] at this
    simpa using this (by simpa using h)
  -- facts about the table
  have hmem : ∀ s, s ∈ usedStrings c iw g → s ∈ tbl := fun s hs => htbl ▸ (mem_mkTable s _).mpr hs
  have hiw : iw ≠ 0 → fitsWidth iw (tbl.length + 1) = true := by
    intro h
    rcases hfit with h0 | h1
    · rcases hwid with ⟨_, h2⟩ | ⟨h2, _⟩
      · exact absurd h2 h
      · omega
    · exact h1.2
  have hctx : ∀ e ∈ g.elems, elemCtxOK c iw tbl e := by
    intro e he
    refine ⟨fun h => ⟨hmem _ (mem_used_type he h), hiw h⟩,
      fun h => ⟨hmem _ (mem_used_name he h), Nat.pos_of_ne_zero (hv4' h), hiw (hv4' h)⟩, ?_⟩
    intro a ha
    refine ⟨fun h => ⟨hmem _ (mem_used_attr he ha h), hiw h⟩, ?_⟩
    intro v hv
    cases v with
    | str s =>
      have hE := helems e he
      simp only [elemOK, Bool.and_eq_true, List.all_eq_true] at hE
      have hA := hE.2 a ha
      simp only [attrOK, Bool.and_eq_true, List.all_eq_true] at hA
      have hV := hA.2 _ hv
      simp only [valOK, Bool.and_eq_true, beq_iff_eq] at hV
      refine ⟨hV.2, fun hcond => ?_⟩
      exact ⟨hmem _ (mem_used_str he ha hv hV.1.1 hcond), Nat.pos_of_ne_zero (hv4' hcond.1),
        hiw (hv4' hcond.1)⟩
    | ref r => trivial
    | fixed xs => trivial
    | bin b => trivial
  -- run the parser
  have hrun : ∀ rest0, (do
        let nl ← takeN 2
        if nl ≠ [10, 0] then fail .noNewline else
        let tbl' ← (if cw = 0 then pure [] else getTable cw c.uni)
        let n ← getInt 4
        let hs ← getMany (getHeader c iw tbl') n.toNat
        let as ← getMany (getAttrs T c iw tbl' hs.length) hs.length
        if hs.isEmpty then fail .noElements else
        pure { elems := zipElems hs as } : Parser Graph)
      ([10, 0] ++ (if cw = 0 then [] else putTable cw tbl) ++ putInt 4 g.elems.length ++
        g.elems.flatMap (putHeader c iw tbl) ++ g.elems.flatMap (putAttrs T c iw tbl) ++ rest0)
      = .ok (g, rest0) := by
    intro rest0
    simp only [List.append_assoc]
    rw [bind_ok (takeN_append' (n := 2) [10, 0] _ rfl)]
    simp only [ne_eq, not_true_eq_false, if_false]
    have htab : (if cw = 0 then pure [] else getTable cw c.uni : Parser (List Bytes))
        ((if cw = 0 then [] else putTable cw tbl) ++ (putInt 4 g.elems.length ++
          (g.elems.flatMap (putHeader c iw tbl) ++ (g.elems.flatMap (putAttrs T c iw tbl) ++ rest0))))
        = .ok (if cw = 0 then [] else tbl, putInt 4 g.elems.length ++
          (g.elems.flatMap (putHeader c iw tbl) ++ (g.elems.flatMap (putAttrs T c iw tbl) ++ rest0))) := by
      by_cases h0 : cw = 0
      · simp only [h0, if_true, List.nil_append]; rfl
      · simp only [h0, if_false]
        have hf : fitsWidth cw (tbl.length + 1) = true := by
          rcases hfit with h | h
          · exact absurd h h0
          · exact h.1
        apply getTable_putTable cw (Nat.pos_of_ne_zero h0) c.uni tbl hf
        intro s hs
        have hs' : s ∈ usedStrings c iw g := (mem_mkTable s _).mp (htbl ▸ hs)
        exact used_ok T c iw g g.elems.length helems s hs'
    rw [bind_ok htab]
    -- when there is no table, the table is never consulted: both sides use `tbl` or `[]` only through iw ≠ 0
    have hsame : ∀ e ∈ g.elems, elemCtxOK c iw (if cw = 0 then [] else tbl) e := by
      by_cases h0 : cw = 0
      · have hiw0 : iw = 0 := by
          rcases hwid with ⟨_, h⟩ | ⟨h, _⟩
          · exact h
          · omega
        have hv : ¬ c.v ≥ 4 := fun h => hv4' h hiw0
        intro e he
        refine ⟨fun h => absurd hiw0 h, fun h => absurd h hv, ?_⟩
        intro a ha
        refine ⟨fun h => absurd hiw0 h, ?_⟩
        intro v hvm
        have := (hctx e he).2.2 a ha
        cases v with
        | str s => exact ⟨(this.2 _ hvm).1, fun hc => absurd hc.1 hv⟩
        | ref r => trivial
        | fixed xs => trivial
        | bin b => trivial
      · simpa [h0] using hctx
    have hput : ∀ e ∈ g.elems, putHeader c iw tbl e = putHeader c iw (if cw = 0 then [] else tbl) e ∧
        putAttrs T c iw tbl e = putAttrs T c iw (if cw = 0 then [] else tbl) e := by
      intro e _
      by_cases h0 : cw = 0
      · have hiw0 : iw = 0 := by
          rcases hwid with ⟨_, h⟩ | ⟨h, _⟩
          · exact h
          · omega
        have hv : ¬ c.v ≥ 4 := fun h => hv4' h hiw0
        subst hiw0
        simp only [h0, if_true]
        exact ⟨putHeader_noTable c hv _ _ e, putAttrs_noTable T c hv _ _ e⟩
      · simp [h0]
    rw [flatMap_congr' (fun e he => (hput e he).1), flatMap_congr' (fun e he => (hput e he).2)]
    generalize (if cw = 0 then [] else tbl) = tbl2 at hsame ⊢
    rw [bind_ok (getInt4_putNat g.elems.length hlen _)]
    simp only [Int.toNat_natCast]
    rw [bind_ok (getMany_flatMap_map _ _ Elem.header g.elems
      (fun e he r => getHeader_putHeader T c iw tbl2 g.elems.length e (helems e he) (hsame e he) r) _)]
    simp only [List.length_map]
    rw [bind_ok (getMany_flatMap_map _ _ (·.attrs) g.elems
      (fun e he r => getAttrs_putAttrs T hT c iw tbl2 g.elems.length hlen e (helems e he) (hsame e he) r) rest0)]
    have : (g.elems.map Elem.header).isEmpty = false := by
      cases hge : g.elems with
      | nil => exact absurd hge hne
      | cons _ _ => rfl
    simp only [this, Bool.false_eq_true, if_false, pure_apply, zipElems_map]
  have := hrun []
  simp only [List.append_nil] at this
  rw [this]

end C14
